import Proofs.SpiceProofs
import Proofs.Conservation
import Proofs.WalkerProofs
