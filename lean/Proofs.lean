import Proofs.SpiceProofs
