import Proofs.SpiceProofs
import Proofs.Conservation
