import Proofs.SpiceProofs
import Proofs.LedgerReach
