import Proofs.SpiceProofs
import Proofs.Conservation
import Proofs.WalkerProofs
import Proofs.LoadDag
import Proofs.LedgerDag
import Proofs.AwaitProofs
import Proofs.MsgpackProofs
