import CModel
/-! cdriver <section> : reads trace lines on stdin, replays them on the model, prints
`MISMATCH <lineno> | <line> | model: <output>` for every disagreement and a final
`SUMMARY` line with counters and the model branches that were exercised. -/
open CModel CModel.Drv

/-- Stateless sections: one line in, verdict out. -/
def statelessStep (sec : String) : Option (String → Option (String × Option String)) :=
  match sec with
  | "c05" => some SpiceDrv.step
  | "c20" => some SpiceDrv.stepWF
  | "c19" => some (fun l => if l.startsWith "MP" || l.startsWith "WT" then CodecDrv.step l else some ("skip", none))
  | "tamper" => some (fun l => if l.startsWith "TV " || l.startsWith "SHA " || l.startsWith "B58 " then TxDrv.step l else some ("skip", none))
  | _ => none

partial def loopStateless (h : IO.FS.Stream) (f : String → Option (String × Option String))
    (st : Stats) (n : Nat) : IO Stats := do
  let line ← h.getLine
  if line.isEmpty then return st
  let l := line.trimAscii.toString
  if l.isEmpty || l.startsWith "#" then loopStateless h f st (n + 1) else
  match f l with
  | none =>
    IO.println s!"BADLINE {n} | {l}"
    loopStateless h f { st with lines := st.lines + 1, bad := st.bad + 1 } (n + 1)
  | some (br, none) => loopStateless h f ({ st with lines := st.lines + 1 }.hit br) (n + 1)
  | some (br, some out) =>
    if st.mismatches < 20 then IO.println s!"MISMATCH {n} | {l} | model: {out}"
    loopStateless h f ({ st with lines := st.lines + 1, mismatches := st.mismatches + 1 }.hit br) (n + 1)

partial def loopLedger (h : IO.FS.Stream) (st : LedgerDrv.St) (n : Nat) : IO LedgerDrv.St := do
  let line ← h.getLine
  if line.isEmpty then return st
  let l := line.trimAscii.toString
  if l.isEmpty || l.startsWith "#" then loopLedger h st (n + 1) else
  let (st', msg) := LedgerDrv.step st n l
  match msg with
  | some m =>
    if st'.stats.mismatches + st'.stats.bad < 20 then IO.println (if m.startsWith "MISMATCH" then m else s!"BADLINE {n} | {l} | {m}")
    let st' := if m.startsWith "MISMATCH" then st' else { st' with stats := { st'.stats with bad := st'.stats.bad + 1 } }
    loopLedger h st' (n + 1)
  | none => loopLedger h st' (n + 1)

partial def loopAwait (h : IO.FS.Stream) (st : AwaitCache.Store) (stats : Stats) (n : Nat) : IO Stats := do
  let line ← h.getLine
  if line.isEmpty then return stats
  let l := line.trimAscii.toString
  if l.isEmpty || l.startsWith "#" || l.startsWith "H " || l.startsWith "A " then loopAwait h st stats (n + 1) else
  if l == "RESET" then loopAwait h {} stats (n + 1) else
  match AwaitDrv.step st l with
  | none =>
    IO.println s!"BADLINE {n} | {l}"
    loopAwait h st { stats with lines := stats.lines + 1, bad := stats.bad + 1 } (n + 1)
  | some (st', br, none) => loopAwait h st' ({ stats with lines := stats.lines + 1 }.hit br) (n + 1)
  | some (st', br, some out) =>
    if stats.mismatches < 20 then IO.println s!"MISMATCH {n} | {l} | model: {out}"
    loopAwait h st' ({ stats with lines := stats.lines + 1, mismatches := stats.mismatches + 1 }.hit br) (n + 1)

partial def loopNotary (h : IO.FS.Stream) (st : NotaryDrv.DSt) (n : Nat) : IO NotaryDrv.DSt := do
  let line ← h.getLine
  if line.isEmpty then return st
  let l := line.trimAscii.toString
  if l.isEmpty || l.startsWith "#" then loopNotary h st (n + 1) else
  let (st', msg) := NotaryDrv.step st n l
  match msg with
  | some m =>
    if st'.stats.mismatches + st'.stats.bad < 20 then IO.println (if m.startsWith "MISMATCH" then m else s!"BADLINE {n} | {l} | {m}")
    let st' := if m.startsWith "MISMATCH" then st' else { st' with stats := { st'.stats with bad := st'.stats.bad + 1 } }
    loopNotary h st' (n + 1)
  | none => loopNotary h st' (n + 1)

partial def loopGossip (h : IO.FS.Stream) (st : GossipDrv.DSt) (n : Nat) : IO GossipDrv.DSt := do
  let line ← h.getLine
  if line.isEmpty then return st
  let l := line.trimAscii.toString
  if l.isEmpty || l.startsWith "#" then loopGossip h st (n + 1) else
  let (st', msg) := GossipDrv.step st n l
  match msg with
  | some m =>
    if st'.stats.mismatches + st'.stats.bad < 20 then IO.println (if m.startsWith "MISMATCH" then m else s!"BADLINE {n} | {l} | {m}")
    let st' := if m.startsWith "MISMATCH" then st' else { st' with stats := { st'.stats with bad := st'.stats.bad + 1 } }
    loopGossip h st' (n + 1)
  | none => loopGossip h st' (n + 1)

def printSummary (st : Stats) : IO Unit := do
  let br := st.branches.map fun (k, n) => s!"{k}={n}"
  IO.println s!"SUMMARY lines={st.lines} mismatches={st.mismatches} bad={st.bad} branches={" ".intercalate br}"

def main (args : List String) : IO UInt32 := do
  let sec := args.headD ""
  let stdin ← IO.getStdin
  match statelessStep sec with
  | some f =>
    let st ← loopStateless stdin f {} 1
    printSummary st
    return (if st.mismatches == 0 && st.bad == 0 then 0 else 1)
  | none =>
    if sec == "await" then
      let st ← loopAwait stdin {} {} 1
      printSummary st
      return (if st.mismatches == 0 && st.bad == 0 then 0 else 1)
    if sec == "gossip" then
      let st ← loopGossip stdin {} 1
      printSummary st.stats
      return (if st.stats.mismatches == 0 && st.stats.bad == 0 then 0 else 1)
    if sec == "notary" then
      let st ← loopNotary stdin {} 1
      printSummary st.stats
      return (if st.stats.mismatches == 0 && st.stats.bad == 0 then 0 else 1)
    if sec == "ledger" then
      let st ← loopLedger stdin {} 1
      IO.println s!"SKIPPED {st.skipped}"
      printSummary st.stats
      return (if st.stats.mismatches == 0 && st.stats.bad == 0 then 0 else 1)
    IO.eprintln s!"unknown section {sec}"
    return 2
