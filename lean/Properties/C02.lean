import Proofs.Conservation
import Properties.C01
/-!
# C02 — ledger-wide conservation

* `supply_identity`: for **any** set of vertices the wallets' net flows cancel — value is neither
  created nor destroyed by the flow bookkeeping; with the genesis vertex as the only vertex issued
  by the genesis wallet, the other wallets' balances add up to the genesis supply.
* The "no wallet overdrawn over the union of confirmed vertices" part is **false** of the code
  (and of the model): each tip is validated against its *own* ancestors only, so two conflicting
  spends sitting on different tips both pass and a later vertex confirms both
  (`merge_refuted`, replayed on the implementation as known finding `merge-of-conflicting-tips`).
* What does hold is the per-history statement of C01 (`Props.C01.validated_means_covered`).
-/
namespace Props.C02
open CModel CModel.Book CModel.Melange

/-- Σ_w inflow = Σ_w outflow over any vertex set and any wallet list covering it. -/
theorem supply_identity (addrs : List Addr) (hn : addrs.Nodup) (vs : List Vertex)
    (hall : ∀ v ∈ vs, v.trx.issuer ∈ addrs ∧ v.trx.receiver ∈ addrs) :
    (addrs.map (fun a => inflow a vs)).sum = (addrs.map (fun a => outflow a vs)).sum := by
  obtain ⟨h1, h2⟩ := flow_balance addrs hn vs hall
  rw [h1, h2]

/-- Balances of all wallets other than the genesis issuer add up to what the genesis issuer paid
out net (= the genesis supply when the genesis vertex is its only spend and it receives nothing):
`Σ_{a ≠ g} inflow a + inflow g = Σ_{a ≠ g} outflow a + outflow g`. -/
theorem balances_sum_to_supply (g : Addr) (others : List Addr) (hn : (g :: others).Nodup) (vs : List Vertex)
    (hall : ∀ v ∈ vs, v.trx.issuer ∈ g :: others ∧ v.trx.receiver ∈ g :: others) :
    (others.map (fun a => inflow a vs)).sum + inflow g vs =
    (others.map (fun a => outflow a vs)).sum + outflow g vs := by
  have := supply_identity (g :: others) hn vs hall
  simp only [List.map_cons, List.sum_cons] at this
  omega

/-- The full statement restricted to its mechanism: if two tips pass validation separately, no
wallet is overdrawn over the union of their histories. -/
def MergeSafe : Prop :=
  ∀ (b : Book) (l r : Vertex), FundsOK b → l ∈ b.verts → r ∈ b.verts →
    b.isTrusted l.signer = false → b.isTrusted r.signer = false →
    b.validateLeaf l = .ok () → b.validateLeaf r = .ok () →
    ∀ a, a ≠ b.genesis → outflow a (b.verts) ≤ inflow a (b.verts)

/-! Witness: genesis pays 10 to `w`; `v1 : w → x 10` and `v2 : w → y 10` both sit on genesis. -/
def g : Vertex := ⟨1, "n", 0, 0, 0, ⟨2, "n", "w", ⟨10, 0⟩, false⟩, true⟩
def v1 : Vertex := ⟨3, "n", 1, 1, 1, ⟨4, "w", "x", ⟨10, 0⟩, false⟩, true⟩
def v2 : Vertex := ⟨5, "m", 1, 1, 1, ⟨6, "w", "y", ⟨10, 0⟩, false⟩, true⟩
def bw : Book := { self := "n", genesis := "n", verts := [g, v1, v2], edges := [(1, 3), (1, 5)],
                   index := [(2, 1), (4, 3), (6, 5)], weight := 50, throughput := 54, loaded := true }

theorem bw_fundsOK : FundsOK bw where
  verts := by decide
  cp := by intro e he; cases he

theorem bw_validates (v : Vertex) (hv : v = v1 ∨ v = v2) : bw.validateLeaf v = .ok () := by
  have hf : validateFunds bw v = .ok () := by
    rcases hv with rfl | rfl
    · exact validateFunds_complete bw_fundsOK v1 (by decide) (by decide) (by decide) (by decide) (by decide) (by decide)
    · exact validateFunds_complete bw_fundsOK v2 (by decide) (by decide) (by decide) (by decide) (by decide) (by decide)
  rcases hv with rfl | rfl
  · unfold validateLeaf
    rw [if_neg (by decide), if_neg (by decide), if_neg (by decide), if_neg (by decide)]
    exact hf
  · unfold validateLeaf
    rw [if_neg (by decide), if_neg (by decide), if_neg (by decide), if_neg (by decide)]
    exact hf

/-- **Refutation**: both conflicting spends pass validation, yet `w` received 10 and spent 20. -/
theorem merge_refuted : ¬ MergeSafe := by
  intro h
  have := h bw v1 v2 bw_fundsOK (by decide) (by decide) (by decide) (by decide)
    (bw_validates v1 (Or.inl rfl)) (bw_validates v2 (Or.inr rfl)) "w" (by decide)
  revert this
  decide

/-- What holds instead (per history): see `Props.C01.validated_means_covered`. On a ledger that is a
single chain the walked set of the tip is the whole ledger, so for the tip's issuer the two coincide. -/
theorem per_history_partial {b : Book} (r : Reachable b) (tip : Vertex) (hc : tip.trx.spice.canonB = true)
    (h : b.validateLeaf tip = .ok ()) (hnr : b.isRoot tip.hash = false) (hs : tip.trx.isSpice = true)
    (hnt : b.isTrusted tip.signer = false) :
    outflow tip.trx.issuer (walk b tip) ≤ cpVal b tip.trx.issuer + inflow tip.trx.issuer (walk b tip) := by
  rcases (Props.C01.validated_means_covered r tip hc h).2 with h1 | h1 | h1 | h1
  · rw [hnr] at h1; cases h1
  · rw [hs] at h1; cases h1
  · rw [hnt] at h1; cases h1
  · exact h1

end Props.C02
