import Proofs.GossipProofs
/-!
# C11 — gossip reaches every node exactly once and terminates

Model: `CModel/Gossip.lean`, one item (vertex or awaiting transaction) travelling through any network of
gossip nodes: arbitrary peer tables, any origin, any order of deliveries, duplicated messages, adversarial
injections (C12) and late admissions by the orphan buffer. Executions are `run c (originate c init o) steps`
for an arbitrary list of steps — every schedule, no bound on nodes, degree or length.
-/
namespace Props.C11
open CModel.Gossip

/-- every state reachable after node `o` originated the item -/
def reached (c : Cfg) (o : Node) (steps : List Step) : Net := run c (originate c init o) steps

theorem reached_inv (c : Cfg) (o : Node) (steps : List Step) : Inv c o (reached c o steps) :=
  inv_run steps (inv_originate c o)

/-- **A node forwards a given vertex at most once**, whatever is delivered, duplicated or injected. -/
theorem vertex_forwarded_at_most_once (c : Cfg) (hv : c.isTrx = false) (o : Node) (steps : List Step) (i : Node) :
    ((reached c o steps).node i).forwards ≤ 1 := by
  have h := reached_inv c o steps
  by_cases e : i = o
  · subst e; have := h.fwdOrigin; simp [hv] at this; exact this
  · have := h.fwdOther i e
    split at this <;> omega

/-- An awaiting transaction is forwarded at most once by every node other than its origin (the origin does
not record its own item in the duplicate-suppression memory: at most twice there). -/
theorem transaction_forwarded_at_most_once (c : Cfg) (o : Node) (steps : List Step) (i : Node) :
    (i ≠ o → ((reached c o steps).node i).forwards ≤ 1) ∧ ((reached c o steps).node o).forwards ≤ 2 := by
  have h := reached_inv c o steps
  refine ⟨fun e => ?_, ?_⟩
  · have := h.fwdOther i e
    split at this <;> omega
  · have := h.fwdOrigin
    split at this <;> omega

/-- **The number of messages is finite**: a node puts at most one message per peer-table entry on the wire
for a vertex — at most `Σ degree` messages in the whole network, for every schedule. -/
theorem vertex_messages_bounded (c : Cfg) (hv : c.isTrx = false) (o : Node) (steps : List Step) (i : Node) :
    ((reached c o steps).node i).sentTo.length ≤ (c.peers i).length := by
  have h := (reached_inv c o steps).sentBound i
  have hf := vertex_forwarded_at_most_once c hv o steps i
  have : ((reached c o steps).node i).forwards * (c.peers i).length ≤ 1 * (c.peers i).length := Nat.mul_le_mul_right _ hf
  omega

/-- **Never forwarded to a node already listed as a verified gossiper**, and every forwarded message lists
exactly the verified entries it arrived with plus the forwarder. -/
theorem never_forwarded_to_verified_gossiper (c : Cfg) (i : Node) (es : List Entry) (m : Msg) (h : m ∈ fanout c i es) :
    m.dst ∈ c.peers i ∧ m.dst ∉ verified m.entries ∧ verified m.entries = verified es ++ [i] := by
  obtain ⟨a, b, _, d⟩ := fanout_spec h
  exact ⟨a, b, by rw [d, verified_forwardEntries]⟩

/-- **A node forwards only after its own ledger (vertices) or signature check (transactions) accepted the
item**: any delivery that puts new messages on the wire is an authentic copy that the node admitted. -/
theorem forwards_only_after_accepting (c : Cfg) (net : Net) (m : Msg)
    (h : (receive c net m).1.inflight ≠ net.inflight ∨ (receive c net m).2 = .processed) :
    m.authentic = true ∧ (c.isTrx || c.accepts m.dst) = true ∧ ((receive c net m).1.node m.dst).admitted = true := by
  have hc := receive_cases c net m
  generalize receive c net m = r at hc h
  cases hc with
  | absorbed _ =>
    rcases h with h | h
    · exact absurd rfl h
    · cases h
  | droppedSeen _ _ =>
    rcases h with h | h
    · exact absurd rfl h
    · cases h
  | skippedListed _ _ _ =>
    rcases h with h | h
    · exact absurd rfl h
    · cases h
  | rejected _ _ _ _ =>
    rcases h with h | h
    · exact absurd rfl h
    · cases h
  | processed _ _ _ ha hacc _ =>
    refine ⟨ha, hacc, ?_⟩
    simp [netProcessed, Net.node, Net.setNode, nodeProcessed]

/-- `p` is connected to `o` along peer-table entries -/
inductive Connected (c : Cfg) (o : Node) : Node → Prop
  | origin : Connected c o o
  | hop {i p : Node} : Connected c o i → p ∈ c.peers i → Connected c o p

/-- **Delivered to every node**: in a network of honest nodes whose ledgers admit the item on arrival, when
no message is in flight any more, every node connected to the origin holds the item — for every order of
deliveries and any duplication. -/
theorem delivered_to_every_connected_node (c : Cfg) (o : Node) (steps : List Step)
    (hall : ∀ i, c.honest i = true) (hacc : ∀ i, (c.isTrx || c.accepts i) = true)
    (hsteps : ∀ s ∈ steps, s.gossipOnly = true) (hq : (reached c o steps).inflight = [])
    (p : Node) (hp : Connected c o p) : ((reached c o steps).node p).admitted = true := by
  have hp' : HonestPath c o p := by
    induction hp with
    | origin => exact .origin (hall o)
    | hop _ hpe ih => exact .hop ih hpe (hall _)
  exact quiescent_covered (reached_inv c o steps)
    (cov_run steps hsteps (inv_originate c o) (fun i _ => hacc i) (cov_originate c o)) hq hp'

/-! ## Termination -/

/-- a sequence of deliveries, each of a message that is in flight at that moment -/
def deliverAll (c : Cfg) : Net → List Nat → Option Net
  | net, [] => some net
  | net, k :: ks => if k < net.inflight.length then deliverAll c (deliver c net k).1 ks else none

/-- **Gossip terminates**: every delivery strictly decreases `potential` (messages in flight plus, for every
node that has not seen the item, its peer count plus one), so from any state at most `potential` deliveries
can happen before the network is quiet — for every order of deliveries, every topology, any number of nodes,
with adversarial and duplicated messages already in flight counted in the potential. -/
theorem deliveries_bounded_by_potential (c : Cfg) (hwf : ∀ i, c.n ≤ i → c.peers i = []) (net net' : Net) (ks : List Nat)
    (h : deliverAll c net ks = some net') : ks.length + potential c net' ≤ potential c net := by
  induction ks generalizing net with
  | nil => simp only [deliverAll, Option.some.injEq] at h; subst h; simp
  | cons k ks ih =>
    unfold deliverAll at h
    split at h
    · rename_i hk
      have h1 := ih _ h
      have h2 := deliver_decreases_potential c hwf net k hk
      simp only [List.length_cons]
      omega
    · cases h

/-! ## Refutation: a vertex parked at a relay is never forwarded (known finding)

Line 0 — 1 — 2, origin 0. The item reaches relay 1 before its parent, so the relay's ledger refuses it
(`accepts 1 = false`): nothing is forwarded. The orphan buffer admits it later (`retryAdmit`), again
without forwarding. The network is then quiet and node 2 never gets the item. -/
def lineCfg : Cfg :=
  { n := 3, peers := fun i => if i = 0 then [1] else if i = 1 then [0, 2] else if i = 2 then [1] else [],
    honest := fun _ => true, accepts := fun i => i != 1 }

theorem parked_vertex_is_never_forwarded :
    let net := reached lineCfg 0 [.deliver 0, .retryAdmit 1]
    net.inflight = [] ∧ (net.node 1).admitted = true ∧ (net.node 2).admitted = false := by
  decide +kernel

/-- with a ledger that admits on arrival the same network delivers to node 2 -/
example : let net := reached { lineCfg with accepts := fun _ => true } 0 [.deliver 0, .deliver 0]
    net.inflight = [] ∧ (net.node 1).admitted = true ∧ (net.node 2).admitted = true := by decide +kernel

/-- non-vacuity of `delivered_to_every_connected_node`: node 2 is connected to the origin -/
example : Connected { lineCfg with accepts := fun _ => true } 0 2 :=
  .hop (i := 1) (.hop (i := 0) .origin (by decide)) (by decide)

/-- the potential of the start: at most one message per peer entry of every node, plus one per node -/
example : potential lineCfg (reached lineCfg 0 []) = 1 + (1 + 1) + (2 + 1) + (1 + 1) := by decide +kernel

end Props.C11
