import Proofs.Reachable
/-!
# C03 — a transaction is sealed in at most one vertex per ledger; the index is exact

Model: `CModel/Ledger.lean`. `Reachable` quantifies over every sequence of genesis / propose /
gossip-add / orphan-retry / trusted toggles with every resolution of the implementation's
nondeterminism (tip orders) and every input vertex or transaction, of any length.
Truncation moves vertices from `verts` to `cpVerts` (see C07 for its own preservation theorem).
-/
namespace Props.C03
open CModel CModel.Book

/-- No vertex hash occurs twice in live DAG + checkpointed storage. -/
theorem no_duplicate_vertex {b : Book} (r : Reachable b) : ((b.verts ++ b.cpVerts).map (·.hash)).Nodup :=
  r.inv.idx.nodupV

/-- No transaction hash is carried by two vertices (live DAG + storage together). -/
theorem no_duplicate_transaction {b : Book} (r : Reachable b) :
    ((b.verts ++ b.cpVerts).map (·.trx.hash)).Nodup := r.inv.idx.nodupT

/-- The index is a function. -/
theorem index_functional {b : Book} (r : Reachable b) : (b.index.map (·.1)).Nodup := r.inv.idx.nodupI

theorem indexGet_of_mem {l : List (Hash × Hash)} (hn : (l.map (·.1)).Nodup) {t v : Hash} (h : (t, v) ∈ l) :
    (l.find? (·.1 == t)).map (·.2) = some v := by
  induction l with
  | nil => cases h
  | cons a l ih =>
    simp only [List.map_cons, List.nodup_cons, List.mem_map, not_exists, not_and] at hn
    rcases List.mem_cons.1 h with rfl | h
    · simp
    · have : a.1 ≠ t := fun e => hn.1 (t, v) h e.symm
      rw [List.find?_cons_of_neg (by simpa using this)]
      exact ih hn.2 h

/-- The index points at the vertex that really holds the transaction. -/
theorem index_exact {b : Book} (r : Reachable b) (v : Vertex) (hv : v ∈ b.verts ++ b.cpVerts) :
    b.indexGet v.trx.hash = some v.hash :=
  indexGet_of_mem r.inv.idx.nodupI (r.inv.idx.holders v hv)

/-- Every index entry has a holder (no dangling entries after any completed operation). -/
theorem index_no_dangling {b : Book} (r : Reachable b) (t h : Hash) (he : (t, h) ∈ b.index) :
    ∃ v ∈ b.verts ++ b.cpVerts, v.hash = h ∧ v.trx.hash = t := r.inv.idx.noDangling (t, h) he

/-- Re-submission of a vertex already held (live or checkpointed) is rejected and changes nothing. -/
theorem readd_rejected (b : Book) (v : Vertex) (h : b.checkVertexExists v.hash = true) :
    (b.addLeaf v).1 = b ∧ ∃ e, (b.addLeaf v).2 = .error e := by
  unfold addLeaf addLeafMemorized
  repeat' split
  all_goals first | exact ⟨rfl, _, rfl⟩ | simp_all

/-- A transaction already indexed is rejected by both entry points, leaving the book unchanged. -/
theorem resubmit_transaction_rejected (b : Book) (trx : Trx) (o1 o2 : List Hash) (tip : Vertex)
    (h : b.indexHas trx.hash = true) :
    (b.createLeaf trx o1 o2 tip).1 = b ∧ ∃ e, (b.createLeaf trx o1 o2 tip).2 = .error e := by
  unfold createLeaf
  repeat' split
  all_goals first | exact ⟨rfl, _, rfl⟩ | simp_all

/-- After an invalid tip was dropped its transaction is not indexed any more, so proposing it again
is not rejected as a duplicate. -/
theorem reproposable (b : Book) (v : Vertex) :
    ((b.deleteVertex v.hash).indexRemove v.trx.hash).indexHas v.trx.hash = false := by
  simp [indexHas, indexRemove]

/-! ### Non-vacuity: a concrete reachable two-vertex ledger -/
def t0 : Trx := ⟨2, "n", "w", ⟨10, 0⟩, false⟩
def g : Vertex := ⟨1, "n", 0, 0, 0, t0, true⟩
def t1 : Trx := ⟨4, "w", "x", ⟨3, 0⟩, false⟩
def v1 : Vertex := ⟨3, "n", 1, 1, 1, t1, true⟩
def b0 : Book := { self := "n" }
def b1 : Book := (b0.createGenesis "w" ⟨10, 0⟩ g).1
def b2 : Book := (b1.createLeaf t1 [1] [] v1).1

theorem b2_reachable : Reachable b2 :=
  Reachable.createLeaf t1 [1] [] v1
    (Reachable.genesis (b := b0) (recv := "w") (spc := ⟨10, 0⟩) (v := g) (v' := g) (Reachable.init "n") rfl rfl rfl rfl rfl rfl)
    rfl

example : b2.verts.map (·.hash) = [1, 3] ∧ b2.index = [(2, 1), (4, 3)] ∧ b2.edges = [(1, 3)] :=
  ⟨rfl, rfl, rfl⟩

end Props.C03
