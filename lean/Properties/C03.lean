import Proofs.Reachable
import Proofs.StaleGuards
/-!
# C03 — a transaction is sealed in at most one vertex per ledger; the index is exact

Model: `CModel/Ledger.lean`. `Reachable` quantifies over every sequence of genesis / propose /
gossip-add / orphan-retry / trusted toggles with every resolution of the implementation's
nondeterminism (tip orders) and every input vertex or transaction, of any length.
Truncation moves vertices from `verts` to `cpVerts` (see C07 for its own preservation theorem).
-/
namespace Props.C03
open CModel CModel.Book

/-- No vertex hash occurs twice in live DAG + checkpointed storage. -/
theorem no_duplicate_vertex {b : Book} (r : Reachable b) : ((b.verts ++ b.cpVerts).map (·.hash)).Nodup :=
  r.inv.idx.nodupV

/-- No transaction hash is carried by two vertices (live DAG + storage together). -/
theorem no_duplicate_transaction {b : Book} (r : Reachable b) :
    ((b.verts ++ b.cpVerts).map (·.trx.hash)).Nodup := r.inv.idx.nodupT

/-- The index is a function. -/
theorem index_functional {b : Book} (r : Reachable b) : (b.index.map (·.1)).Nodup := r.inv.idx.nodupI

theorem indexGet_of_mem {l : List (Hash × Hash)} (hn : (l.map (·.1)).Nodup) {t v : Hash} (h : (t, v) ∈ l) :
    (l.find? (·.1 == t)).map (·.2) = some v := by
  induction l with
  | nil => cases h
  | cons a l ih =>
    simp only [List.map_cons, List.nodup_cons, List.mem_map, not_exists, not_and] at hn
    rcases List.mem_cons.1 h with rfl | h
    · simp
    · have : a.1 ≠ t := fun e => hn.1 (t, v) h e.symm
      rw [List.find?_cons_of_neg (by simpa using this)]
      exact ih hn.2 h

/-- The index points at the vertex that really holds the transaction. -/
theorem index_exact {b : Book} (r : Reachable b) (v : Vertex) (hv : v ∈ b.verts ++ b.cpVerts) :
    b.indexGet v.trx.hash = some v.hash :=
  indexGet_of_mem r.inv.idx.nodupI (r.inv.idx.holders v hv)

/-- Every index entry has a holder (no dangling entries after any completed operation). -/
theorem index_no_dangling {b : Book} (r : Reachable b) (t h : Hash) (he : (t, h) ∈ b.index) :
    ∃ v ∈ b.verts ++ b.cpVerts, v.hash = h ∧ v.trx.hash = t := r.inv.idx.noDangling (t, h) he

/-- Re-submission of a vertex already held (live or checkpointed) is rejected and changes nothing. -/
theorem readd_rejected (b : Book) (v : Vertex) (h : b.checkVertexExists v.hash = true) :
    (b.addLeaf v).1 = b ∧ ∃ e, (b.addLeaf v).2 = .error e := by
  unfold addLeaf addLeafMemorized
  repeat' split
  all_goals first | exact ⟨rfl, _, rfl⟩ | simp_all

/-- A transaction already indexed is rejected by both entry points, leaving the book unchanged. -/
theorem resubmit_transaction_rejected (b : Book) (trx : Trx) (o1 o2 : List Hash) (tip : Vertex)
    (h : b.indexHas trx.hash = true) :
    (b.createLeaf trx o1 o2 tip).1 = b ∧ ∃ e, (b.createLeaf trx o1 o2 tip).2 = .error e := by
  unfold createLeaf
  repeat' split
  all_goals first | exact ⟨rfl, _, rfl⟩ | simp_all

/-- After an invalid tip was dropped its transaction is not indexed any more, so proposing it again
is not rejected as a duplicate. -/
theorem reproposable (b : Book) (v : Vertex) :
    ((b.deleteVertex v.hash).indexRemove v.trx.hash).indexHas v.trx.hash = false := by
  simp [indexHas, indexRemove]

/-! ### Concurrent duplicates: the look-ups run before the ledger lock, the body after it

`CreateLeaf` and `addLeafMemorized` ask "is this transaction / vertex already known" BEFORE `ab.mux.Lock()`;
the answer may be stale when the body runs. `createLeafLocked` / `addLeafLocked` are the bodies; `Between b0 b1`
is any run of other calls between the look-ups (on `b0`) and the body (on `b1`). -/

/-- **Stale look-ups never produce a duplicate (gossip / retry path).** Whatever ran between the unlocked
checks of a delivery and its locked body, the book after the body holds no vertex hash twice, no transaction
hash twice, and its index is a function that covers every held vertex and has no dangling entry. -/
theorem stale_delivery_no_duplicates {b0 b1 : Book} (r0 : Reachable b0) (bt : Between b0 b1) (leaf : Vertex) (rep : Nat)
    (pre : AddPre b0 leaf) (hc : HashConsistent b1 leaf) :
    let b2 := (b1.addLeafLocked leaf rep).1
    ((b2.verts ++ b2.cpVerts).map (·.hash)).Nodup ∧ ((b2.verts ++ b2.cpVerts).map (·.trx.hash)).Nodup ∧
    (b2.index.map (·.1)).Nodup ∧ (∀ v ∈ b2.verts ++ b2.cpVerts, b2.indexGet v.trx.hash = some v.hash) ∧
    (∀ t h, (t, h) ∈ b2.index → ∃ v ∈ b2.verts ++ b2.cpVerts, v.hash = h ∧ v.trx.hash = t) := by
  intro b2
  have r2 : Reachable b2 := addLeaf_stale_prechecks r0 bt leaf rep pre hc
  exact ⟨no_duplicate_vertex r2, no_duplicate_transaction r2, index_functional r2, index_exact r2, index_no_dangling r2⟩

/-- **Stale look-ups never produce a duplicate (local proposals).** -/
theorem stale_proposal_no_duplicates {b0 b1 : Book} (r0 : Reachable b0) (bt : Between b0 b1) (trx : Trx) (o1 o2 : List Hash)
    (tip : Vertex) (pre : CreatePre b0 trx) (hf : b1.cpHasVertex tip.hash = false) :
    let b2 := (b1.createLeafLocked trx o1 o2 tip).1
    ((b2.verts ++ b2.cpVerts).map (·.hash)).Nodup ∧ ((b2.verts ++ b2.cpVerts).map (·.trx.hash)).Nodup ∧
    (b2.index.map (·.1)).Nodup ∧ (∀ v ∈ b2.verts ++ b2.cpVerts, b2.indexGet v.trx.hash = some v.hash) ∧
    (∀ t h, (t, h) ∈ b2.index → ∃ v ∈ b2.verts ++ b2.cpVerts, v.hash = h ∧ v.trx.hash = t) := by
  intro b2
  have r2 : Reachable b2 := createLeaf_stale_prechecks r0 bt trx o1 o2 tip pre hf
  exact ⟨no_duplicate_vertex r2, no_duplicate_transaction r2, index_functional r2, index_exact r2, index_no_dangling r2⟩

/-- **Two simultaneous deliveries of the same vertex**: both pass the unlocked look-ups on `b0` (neither has
inserted yet), then their bodies take the lock one after the other. The vertex and its transaction are
held at most once afterwards, and the book is a reachable one. -/
theorem simultaneous_duplicate_deliveries {b0 : Book} (r0 : Reachable b0) (leaf : Vertex) (rep1 rep2 : Nat)
    (pre : AddPre b0 leaf) (hc : ∀ b, HashConsistent b leaf) :
    let b1 := (b0.addLeafLocked leaf rep1).1
    let b2 := (b1.addLeafLocked leaf rep2).1
    Reachable b2 ∧ ((b2.verts ++ b2.cpVerts).map (·.hash)).Nodup ∧ ((b2.verts ++ b2.cpVerts).map (·.trx.hash)).Nodup := by
  intro b1 b2
  have s1 : Steps b0 b1 := steps_addLeafLocked_stale b0 leaf rep1 r0.inv pre.guards pre.notGenesis pre.vok (hc b0)
  have r2 : Reachable b2 := addLeaf_stale_prechecks r0 (Between.steps (Between.refl b0) s1) leaf rep2 pre (hc b1)
  exact ⟨r2, no_duplicate_vertex r2, no_duplicate_transaction r2⟩

/-- **Two simultaneous proposals of the same transaction** (two different freshly sealed vertices): the
transaction ends up in at most one vertex. -/
theorem simultaneous_duplicate_proposals {b0 : Book} (r0 : Reachable b0) (trx : Trx) (o1 o2 o1' o2' : List Hash) (tip tip' : Vertex)
    (pre : CreatePre b0 trx) (hf : b0.cpHasVertex tip.hash = false) (hf' : b0.cpHasVertex tip'.hash = false) :
    let b1 := (b0.createLeafLocked trx o1 o2 tip).1
    let b2 := (b1.createLeafLocked trx o1' o2' tip').1
    Reachable b2 ∧ ((b2.verts ++ b2.cpVerts).map (·.trx.hash)).Nodup := by
  intro b1 b2
  have s1 : Steps b0 b1 := steps_createLeafLocked b0 trx o1 o2 tip pre.guards hf
  have hf1 : b1.cpHasVertex tip'.hash = false := by
    have := s1.frame.2.2.2.1
    unfold cpHasVertex at hf' ⊢
    rw [this]; exact hf'
  have r2 : Reachable b2 := createLeaf_stale_prechecks r0 (Between.steps (Between.refl b0) s1) trx o1' o2' tip' pre hf1
  exact ⟨r2, no_duplicate_transaction r2⟩

/-- whatever the stale look-up said, the atomic index test inside the body refuses a transaction that is
already indexed when the body runs -/
theorem body_refuses_indexed_transaction (b : Book) (v : Vertex) (ps : List Hash) (h : b.indexHas v.trx.hash = true) :
    insertLinked b v ps = (b, some 1) := insertLinked_index_taken b v ps h

/-! ### Non-vacuity: a concrete reachable two-vertex ledger -/
def t0 : Trx := ⟨2, "n", "w", ⟨10, 0⟩, false⟩
def g : Vertex := ⟨1, "n", 0, 0, 0, t0, true⟩
def t1 : Trx := ⟨4, "w", "x", ⟨3, 0⟩, false⟩
def v1 : Vertex := ⟨3, "n", 1, 1, 1, t1, true⟩
def b0 : Book := { self := "n" }
def b1 : Book := (b0.createGenesis "w" ⟨10, 0⟩ g).1
def b2 : Book := (b1.createLeaf t1 [1] [] v1).1

theorem b2_reachable : Reachable b2 :=
  Reachable.createLeaf t1 [1] [] v1
    (Reachable.genesis (b := b0) (recv := "w") (spc := ⟨10, 0⟩) (v := g) (v' := g) (Reachable.init "n") rfl rfl rfl rfl rfl rfl)
    rfl

example : b2.verts.map (·.hash) = [1, 3] ∧ b2.index = [(2, 1), (4, 3)] ∧ b2.edges = [(1, 3)] :=
  ⟨rfl, rfl, rfl⟩

/-- two simultaneous proposals of `t1` whose look-ups both ran on `b1`: the second body is refused by the
atomic index test (`b2` is the ledger after the first) -/
def v1' : Vertex := ⟨5, "n", 3, 3, 2, t1, true⟩
example : insertLinked b2 v1' [3, 3] = (b2, some 1) := body_refuses_indexed_transaction b2 v1' _ (by decide)
example : CreatePre b1 t1 := ⟨⟨rfl, rfl, rfl, by decide, by decide⟩⟩

end Props.C03
