import Proofs.SpiceProofs
import CModel.Generated.Consts
/-!
# C05 — Spice arithmetic is exact, atomic and accepts only canonical amounts

Model: `CModel/Spice.lean` (spice.go, statement for statement, wrapping `UInt64`).
All statements quantify over every 64-bit word; `val m = cur·10^18 + supp` in `Nat`.
-/
namespace Props.C05
open CModel CModel.Melange

/-- A successful `Supply` adds precisely the amount and leaves the receiver canonical. -/
theorem supply_exact (m a m' : Melange) (hm : Canon m) (ha : Canon a)
    (h : supply m a = (m', none)) : val m' = val m + val a ∧ Canon m' := by
  rcases supply_cases m a hm ha with ⟨r, hr, hv, hc⟩ | ⟨hr, _⟩
  · rw [hr] at h; cases h; exact ⟨hv, hc⟩
  · rw [hr] at h; cases h

/-- A failing `Supply` changes nothing (for *all* words, canonical or not). -/
theorem supply_atomic (m a m' : Melange) (e : Err) (h : supply m a = (m', some e)) : m' = m :=
  (supply_err_unchanged m a m' e h).1

/-- `Supply` fails exactly when the exact sum is not representable. -/
theorem supply_err_iff (m a : Melange) (hm : Canon m) (ha : Canon a) :
    (supply m a).2 ≠ none ↔ val m + val a ≥ capacity := by
  rcases supply_cases m a hm ha with ⟨r, hr, hv, hc⟩ | ⟨hr, hge⟩
  · rw [hr]; simp only [ne_eq, not_true_eq_false, false_iff]
    have hb := r.cur.toNat_lt
    unfold capacity val Canon at *; omega
  · rw [hr]; simp [hge]

/-- A successful `Transfer` moves precisely the amount; both sides stay canonical. -/
theorem transfer_exact (amt frm to f' t' : Melange) (ha : Canon amt) (hf : Canon frm) (ht : Canon to)
    (h : transfer amt frm to = (f', t', none)) :
    val f' + val amt = val frm ∧ val t' = val to + val amt ∧ Canon f' ∧ Canon t' := by
  rcases transfer_cases amt frm to ha hf ht with ⟨a, b, hr, h1, h2, h3, h4⟩ | ⟨hr, _⟩ | ⟨hr, _⟩
  · rw [hr] at h; cases h; exact ⟨h1, h2, h3, h4⟩
  · rw [hr] at h; cases h
  · rw [hr] at h; cases h

/-- A failing `Transfer` changes neither side (for all words). -/
theorem transfer_atomic (amt frm to f' t' : Melange) (e : Err)
    (h : transfer amt frm to = (f', t', some e)) : f' = frm ∧ t' = to :=
  transfer_err_unchanged amt frm to f' t' e h

/-- `Transfer` fails exactly for insufficient funds or an unrepresentable result. -/
theorem transfer_err_iff (amt frm to : Melange) (ha : Canon amt) (hf : Canon frm) (ht : Canon to) :
    (transfer amt frm to).2.2 ≠ none ↔ (val amt > val frm ∨ val to + val amt ≥ capacity) := by
  rcases transfer_cases amt frm to ha hf ht with ⟨a, b, hr, h1, h2, h3, h4⟩ | ⟨hr, hlt⟩ | ⟨hr, hge⟩
  · rw [hr]; simp only [ne_eq, not_true_eq_false, false_iff]
    have hb := b.cur.toNat_lt
    unfold capacity val Canon at *; omega
  · rw [hr]; simp [hlt]
  · rw [hr]; simp [hge]

/-- The error kind is truthful. -/
theorem transfer_err_kind (amt frm to : Melange) (ha : Canon amt) (hf : Canon frm) (ht : Canon to) :
    ((transfer amt frm to).2.2 = some .insufficient → val amt > val frm) ∧
    ((transfer amt frm to).2.2 = some .overflow → val to + val amt ≥ capacity) := by
  rcases transfer_cases amt frm to ha hf ht with ⟨a, b, hr, _⟩ | ⟨hr, hlt⟩ | ⟨hr, hge⟩
  · rw [hr]; simp
  · rw [hr]; simp [hlt]
  · rw [hr]; simp [hge]

/-- `Drain` is `Transfer` with the receiver as source. -/
theorem drain_eq (m amt sink : Melange) : drain m amt sink = transfer amt m sink := rfl

/-! ### Histories: no sequence of transfers creates or destroys value -/

/-- One step of a two-party history: `true` moves `amt` from `a` to `b`, `false` from `b` to `a`;
a failing transfer leaves both as they are (as `transfer_atomic` guarantees for the code). -/
def histStep (s : Melange × Melange) (op : Bool × Melange) : Melange × Melange :=
  if op.1 then
    let r := transfer op.2 s.1 s.2; (r.1, r.2.1)
  else
    let r := transfer op.2 s.2 s.1; (r.2.1, r.1)

theorem histStep_conserves (s : Melange × Melange) (op : Bool × Melange)
    (h1 : Canon s.1) (h2 : Canon s.2) (ha : Canon op.2) :
    let s' := histStep s op
    val s'.1 + val s'.2 = val s.1 + val s.2 ∧ Canon s'.1 ∧ Canon s'.2 := by
  obtain ⟨a, b⟩ := s
  obtain ⟨d, amt⟩ := op
  simp only [histStep]
  cases d
  · simp only [Bool.false_eq_true, if_false]
    rcases transfer_cases amt b a ha h2 h1 with ⟨f, t, hr, e1, e2, c1, c2⟩ | ⟨hr, _⟩ | ⟨hr, _⟩
    · rw [hr]; simp only; exact ⟨by omega, c2, c1⟩
    · rw [hr]; exact ⟨rfl, h1, h2⟩
    · rw [hr]; exact ⟨rfl, h1, h2⟩
  · simp only [if_true]
    rcases transfer_cases amt a b ha h1 h2 with ⟨f, t, hr, e1, e2, c1, c2⟩ | ⟨hr, _⟩ | ⟨hr, _⟩
    · rw [hr]; simp only; exact ⟨by omega, c1, c2⟩
    · rw [hr]; exact ⟨rfl, h1, h2⟩
    · rw [hr]; exact ⟨rfl, h1, h2⟩

/-- **History theorem**: any sequence (any length) of canonical transfers in either direction,
succeeding or failing, preserves the total value and canonicity. -/
theorem history_conserves (ops : List (Bool × Melange)) (s : Melange × Melange)
    (h1 : Canon s.1) (h2 : Canon s.2) (ha : ∀ op ∈ ops, Canon op.2) :
    let s' := ops.foldl histStep s
    val s'.1 + val s'.2 = val s.1 + val s.2 ∧ Canon s'.1 ∧ Canon s'.2 := by
  induction ops generalizing s with
  | nil => exact ⟨rfl, h1, h2⟩
  | cons op ops ih =>
    simp only [List.foldl_cons]
    have hs := histStep_conserves s op h1 h2 (ha op (List.mem_cons_self ..))
    have := ih (histStep s op) hs.2.1 hs.2.2 (fun o ho => ha o (List.mem_cons_of_mem _ ho))
    exact ⟨by omega, this.2.1, this.2.2⟩

/-! ### Why canonicity is a hypothesis: the excluded points really misbehave -/

/-- A non-canonical amount wraps silently: `(0,5) + (0, 2^64-1) = (0,4)` with no error.
This is why non-canonical amounts must be stopped at the ledger's ingress (see `Props.C05.ingress_*`
on the ledger model). -/
theorem supply_noncanonical_wraps :
    supply ⟨0, 5⟩ ⟨0, 18446744073709551615⟩ = (⟨0, 4⟩, none) := by rw [supply_eq]; decide

/-- Generated obligation: the model's constant is the one in today's source. -/
theorem gen_maxSupp : Generated.spice_MaxAmountPerSupplementaryCurrency = maxSupp.toNat := by decide

/-! ### Non-vacuity -/
example : Canon ⟨18446744073709551615, 1⟩ ∧ Canon ⟨0, 999999999999999999⟩ ∧
    supply ⟨18446744073709551615, 1⟩ ⟨0, 999999999999999999⟩ = (⟨18446744073709551615, 1⟩, some .overflow) := by
  rw [supply_eq]; decide
example : transfer ⟨0, 1⟩ ⟨1, 0⟩ ⟨0, 999999999999999999⟩ = (⟨0, 999999999999999999⟩, ⟨1, 0⟩, none) := by
  rw [transfer_eq]; decide

end Props.C05
