import Proofs.WalkerProofs
import CModel.Generated.WalkerSites
import Proofs.LockExitProofs
/-!
# C08 — ledger operations never wedge the node

Protocol model: `CModel/Walker.lean` (walker goroutine of heimdalr/dag, one consumer loop, one later
DAG writer, Go's writer-preferring RWMutex). The table `Generated.walkerSites` is re-extracted from
accountant.go on every run: every early exit of every loop over the walker's id channel, with the
exit policy found in the source, whether the body takes nested read locks and whether the loop runs
under the ledger lock.
-/
namespace Props.C08
open CModel.Walker CModel.Generated

/-- The protocol instance a source site gives rise to. -/
def cfgOf (s : WalkerSite) : Cfg := { policy := s.policy, nested := s.nested, writerEarly := !s.locked }

/-- **Generated obligation**: in today's source every early exit drains the walker and every loop
runs under the ledger lock. (Before the `fix:` commits: 20 `signalOnly`, 6 `noSignal`, StreamDAG unlocked.) -/
theorem sites_drain_and_locked : ∀ s ∈ walkerSites, s.policy = .drain ∧ s.locked = true := by decide

/-- The table is not empty (the extraction found the loops). -/
theorem sites_nonempty : walkerSites.length ≥ 20 ∧ walkerLoops ≥ 5 := by decide

/-- **Main theorem**: for every exit site of the source, every number of ancestors, every exit
point and every schedule, a state in which no thread can move is the terminated state — the walker
finished and released its read lock, the next DAG writer got the lock, nothing panicked. -/
theorem no_site_can_wedge (s : WalkerSite) (hs : s ∈ walkerSites) (n k : Nat) (st : St)
    (r : Reach (cfgOf s) n k st) (hst : stuck (cfgOf s) st = true) :
    terminated st = true ∧ st.readers = 0 ∧ st.panic = false := by
  obtain ⟨hp, hl⟩ := sites_drain_and_locked s hs
  have : cfgOf s = drainCfg s.nested := by
    unfold cfgOf drainCfg; rw [hp, hl]; rfl
  rw [this] at r hst
  exact drain_safe s.nested n k st r hst

/-- Progress: as long as the system is not terminated some thread can move (no deadlock), for the
draining policy. -/
theorem drain_progress (nested : Bool) (n k : Nat) (st : St) (r : Reach (drainCfg nested) n k st)
    (hnt : terminated st = false) : stuck (drainCfg nested) st = false := by
  cases h : stuck (drainCfg nested) st with
  | false => rfl
  | true => have := (drain_safe nested n k st r h).1; rw [this] at hnt; cases hnt

/-- Why the other policies had to go (each is a reachable wedge / panic of the protocol). -/
theorem signalOnly_can_wedge :
    let c : Cfg := { policy := .signalOnly, nested := false, writerEarly := false }
    let s := run c [.P, .P, .P, .P, .C, .W] (init 2 1)
    stuck c s = true ∧ terminated s = false ∧ s.readers = 1 ∧ s.ww = true := signalOnly_wedges
theorem noSignal_can_wedge :
    let c : Cfg := { policy := .noSignal, nested := false, writerEarly := false }
    let s := run c [.P, .P, .P, .P, .C, .W] (init 2 1)
    stuck c s = true ∧ terminated s = false ∧ s.readers = 1 ∧ s.ww = true := noSignal_wedges
theorem signal_after_close_can_panic :
    let c : Cfg := { policy := .signalOnly, nested := false, writerEarly := false }
    (run c [.P, .P, .P, .P, .P, .C] (init 1 1)).panic = true := signal_after_close_panics
theorem unlocked_nested_consumer_can_deadlock :
    let c : Cfg := { policy := .drain, nested := true, writerEarly := true }
    let s := run c [.P, .P, .P, .W, .P] (init 2 0)
    stuck c s = true ∧ terminated s = false := nested_rlock_deadlocks

/-! ### no exit of any function leaves a mutex held

`Generated.lockExits` is re-extracted from the node's packages on every run: the lock events on the path to
every `return` / end of body of every function and function literal that touches a mutex. -/
section LockExits
open CModel.LockExit

/-- **Generated obligation**: every exit of today's source is clean - nothing held after the deferred
releases ran, nothing released that was not held; blocks control falls out of are neutral. -/
theorem all_lock_exits_clean : ∀ e ∈ lockExits, exitOk e = true := by decide +kernel

/-- the extraction found the functions -/
theorem lock_exits_found : lockExits.length ≥ 120 ∧ lockExitFunctionsWithMutex ≥ 35 ∧ lockExitFunctionsScanned ≥ 200 := by
  decide +kernel

theorem exitOk_held {e : LockExit} (h : exitOk e = true) (hk : e.kind ≠ .block) : heldAfter e.events = [] := by
  unfold exitOk at h
  cases hkind : e.kind with
  | block => exact absurd hkind hk
  | ret => rw [hkind] at h; simp only [Bool.and_eq_true, List.isEmpty_iff] at h; exact h.1
  | fnEnd => rw [hkind] at h; simp only [Bool.and_eq_true, List.isEmpty_iff] at h; exact h.1

/-- **Main theorem**: whatever functions of the node a goroutine calls, in whatever order, and whichever
`return` each call leaves through - early error exits included - it holds no mutex afterwards. -/
theorem no_exit_leaves_a_lock_held (calls : List LockExit) (hc : ∀ e ∈ calls, e ∈ lockExits ∧ e.kind ≠ .block) :
    afterCalls calls = [] :=
  afterCalls_nil calls (fun e he => exitOk_held (all_lock_exits_clean e (hc e he).1) (hc e he).2)

/-- Non-vacuity: an early `return` between `Lock()` and a hand-written `Unlock()` is not clean, and the lock
it leaves behind is still held after any number of further calls. -/
theorem early_return_leaks :
    exitOk ⟨"gossip", "gossiper.Discover", 275, .ret, [.acquire "g.mux"]⟩ = false ∧
    ∀ pre post, "g.mux" ∈ afterCalls (pre ++ (⟨"gossip", "gossiper.Discover", 275, .ret, [.acquire "g.mux"]⟩ : LockExit) :: post) :=
  ⟨by decide, fun pre post => leak_persists pre post _ "g.mux" (by decide)⟩

/-- the hand-written release of `processLackingParent` (copy the peer table, release, then talk to the peers)
is clean as well -/
example : exitOk ⟨"gossip", "gossiper.processLackingParent", 0, .fnEnd, [.acquire "g.mux", .release "g.mux"]⟩ = true := by decide

end LockExits

end Props.C08
