import Proofs.WalkerProofs
import CModel.Generated.WalkerSites
/-!
# C08 — ledger operations never wedge the node

Protocol model: `CModel/Walker.lean` (walker goroutine of heimdalr/dag, one consumer loop, one later
DAG writer, Go's writer-preferring RWMutex). The table `Generated.walkerSites` is re-extracted from
accountant.go on every run: every early exit of every loop over the walker's id channel, with the
exit policy found in the source, whether the body takes nested read locks and whether the loop runs
under the ledger lock.
-/
namespace Props.C08
open CModel.Walker CModel.Generated

/-- The protocol instance a source site gives rise to. -/
def cfgOf (s : WalkerSite) : Cfg := { policy := s.policy, nested := s.nested, writerEarly := !s.locked }

/-- **Generated obligation**: in today's source every early exit drains the walker and every loop
runs under the ledger lock. (Before the `fix:` commits: 20 `signalOnly`, 6 `noSignal`, StreamDAG unlocked.) -/
theorem sites_drain_and_locked : ∀ s ∈ walkerSites, s.policy = .drain ∧ s.locked = true := by decide

/-- The table is not empty (the extraction found the loops). -/
theorem sites_nonempty : walkerSites.length ≥ 20 ∧ walkerLoops ≥ 5 := by decide

/-- **Main theorem**: for every exit site of the source, every number of ancestors, every exit
point and every schedule, a state in which no thread can move is the terminated state — the walker
finished and released its read lock, the next DAG writer got the lock, nothing panicked. -/
theorem no_site_can_wedge (s : WalkerSite) (hs : s ∈ walkerSites) (n k : Nat) (st : St)
    (r : Reach (cfgOf s) n k st) (hst : stuck (cfgOf s) st = true) :
    terminated st = true ∧ st.readers = 0 ∧ st.panic = false := by
  obtain ⟨hp, hl⟩ := sites_drain_and_locked s hs
  have : cfgOf s = drainCfg s.nested := by
    unfold cfgOf drainCfg; rw [hp, hl]; rfl
  rw [this] at r hst
  exact drain_safe s.nested n k st r hst

/-- Progress: as long as the system is not terminated some thread can move (no deadlock), for the
draining policy. -/
theorem drain_progress (nested : Bool) (n k : Nat) (st : St) (r : Reach (drainCfg nested) n k st)
    (hnt : terminated st = false) : stuck (drainCfg nested) st = false := by
  cases h : stuck (drainCfg nested) st with
  | false => rfl
  | true => have := (drain_safe nested n k st r h).1; rw [this] at hnt; cases hnt

/-- Why the other policies had to go (each is a reachable wedge / panic of the protocol). -/
theorem signalOnly_can_wedge :
    let c : Cfg := { policy := .signalOnly, nested := false, writerEarly := false }
    let s := run c [.P, .P, .P, .P, .C, .W] (init 2 1)
    stuck c s = true ∧ terminated s = false ∧ s.readers = 1 ∧ s.ww = true := signalOnly_wedges
theorem noSignal_can_wedge :
    let c : Cfg := { policy := .noSignal, nested := false, writerEarly := false }
    let s := run c [.P, .P, .P, .P, .C, .W] (init 2 1)
    stuck c s = true ∧ terminated s = false ∧ s.readers = 1 ∧ s.ww = true := noSignal_wedges
theorem signal_after_close_can_panic :
    let c : Cfg := { policy := .signalOnly, nested := false, writerEarly := false }
    (run c [.P, .P, .P, .P, .P, .C] (init 1 1)).panic = true := signal_after_close_panics
theorem unlocked_nested_consumer_can_deadlock :
    let c : Cfg := { policy := .drain, nested := true, writerEarly := true }
    let s := run c [.P, .P, .P, .W, .P] (init 2 0)
    stuck c s = true ∧ terminated s = false := nested_rlock_deadlocks

end Props.C08
