import Proofs.GossipProofs
import Properties.C11
/-!
# C12 — gossiper lists cannot be forged to suppress delivery

Same model as C11. A gossiper entry is `(named address, key that signed, signed for this item?)`;
`verifyGossipers` keeps exactly the entries signed by the named address's own key for this item.
The adversary (`Step.inject`) may send any message to anybody, with any payload, at any time; unforgeability
is the side condition `entryAllowed`: an entry that verifies for an honest node must have been produced by
that node for this item.
-/
namespace Props.C12
open CModel.Gossip Props.C11

/-- only entries signed by the named node's own key over this very item count -/
theorem only_own_signature_for_this_item_counts (es : List Entry) (a : Node) :
    a ∈ verified es ↔ ∃ e ∈ es, e.addr = a ∧ e.signer = e.addr ∧ e.forThis = true := by
  simp only [verified, List.mem_map, List.mem_filter, Bool.and_eq_true, beq_iff_eq]
  constructor
  · rintro ⟨e, ⟨he, h1, h2⟩, rfl⟩; exact ⟨e, he, rfl, h1, h2⟩
  · rintro ⟨e, he, rfl, h1, h2⟩; exact ⟨e, ⟨he, h1, h2⟩, rfl⟩

/-- unsigned entries, entries signed for a different item and entries signed by a different key are ignored -/
example : verified [⟨1, 98, true⟩, ⟨1, 1, false⟩, ⟨1, 2, true⟩] = [] := by decide
example : verified [⟨1, 98, true⟩, ⟨3, 3, true⟩] = [3] := by decide

/-- In every reachable state — whatever the adversary injected — an honest node that is listed (verified)
in any in-flight message has really signed this item, hence already holds it. -/
theorem listed_honest_node_really_signed (c : Cfg) (o : Node) (steps : List Step) (m : Msg)
    (hm : m ∈ (reached c o steps).inflight) (a : Node) (ha : a ∈ verified m.entries) (hon : c.honest a = true) :
    a ∈ (reached c o steps).signed ∧ ((reached c o steps).node a).admitted = true := by
  have h := reached_inv c o steps
  have hs := h.listedSigned m hm a ha hon
  exact ⟨hs, h.signedAdmitted a hs⟩

/-- **A node cannot be made to skip processing by listing it**: an honest node skips a delivered message
as "already informed" only if it already holds the item. -/
theorem skip_only_if_already_holding (c : Cfg) (o : Node) (steps : List Step) (k : Nat) (m : Msg)
    (hk : (reached c o steps).inflight[k]? = some m) (hsk : (deliver c (reached c o steps) k).2 = .skippedListed) :
    ((reached c o steps).node m.dst).admitted = true := by
  have hmem : m ∈ (reached c o steps).inflight := List.mem_of_getElem? hk
  unfold deliver at hsk
  rw [hk] at hsk
  dsimp only at hsk
  have hc := receive_cases c { reached c o steps with inflight := (reached c o steps).inflight.eraseIdx k } m
  generalize receive c { reached c o steps with inflight := (reached c o steps).inflight.eraseIdx k } m = r at hc hsk
  cases hc with
  | absorbed _ => cases hsk
  | droppedSeen _ _ => cases hsk
  | skippedListed hh _ hl => exact (listed_honest_node_really_signed c o steps m hmem m.dst hl hh).2
  | rejected _ _ _ _ => cases hsk
  | processed _ _ _ _ _ _ => cases hsk

/-- **A malicious relay cannot stop an item from reaching an honest node that has an honest path to the
origin**: with any set of dishonest nodes, any injected messages (forged lists, unauthentic payloads under
the item's hash), any delivery order and duplication — when the network is quiet, every honest node
reachable from the origin through honest nodes holds the item (honest ledgers admitting it on arrival). -/
theorem honest_path_delivery_despite_adversary (c : Cfg) (o : Node) (steps : List Step)
    (hacc : ∀ i, c.honest i = true → (c.isTrx || c.accepts i) = true)
    (hsteps : ∀ s ∈ steps, s.gossipOnly = true) (hq : (reached c o steps).inflight = [])
    (p : Node) (hp : HonestPath c o p) : ((reached c o steps).node p).admitted = true :=
  quiescent_covered (reached_inv c o steps) (cov_run steps hsteps (inv_originate c o) hacc (cov_originate c o)) hq hp

/-! ## Non-vacuity and the repaired attack

Triangle 0—1, 0—2, 1—2 with dishonest node 2. The adversary sends node 1 an unauthentic payload under the
item's hash *before* the genuine message arrives. Since the fix (`70f787e`, the rejected copy is forgotten
again) node 1 still admits the genuine item afterwards. -/
def triCfg : Cfg :=
  { n := 3, peers := fun i => if i = 0 then [1, 2] else if i = 1 then [0, 2] else if i = 2 then [0, 1] else [],
    honest := fun i => i != 2, accepts := fun _ => true }

example : let net := reached triCfg 0 [.inject ⟨1, false, []⟩, .deliver 2, .deliver 0, .deliver 0, .deliver 0]
    net.inflight = [] ∧ (net.node 1).admitted = true := by decide +kernel
/-- the adversary's powers are bounded by unforgeability: an entry for honest node 1 that verifies cannot be
injected before node 1 signed -/
example : (inject triCfg (reached triCfg 0 []) ⟨1, true, [⟨1, 1, true⟩]⟩).inflight = (reached triCfg 0 []).inflight := by
  decide +kernel
example : HonestPath triCfg 0 1 := .hop (i := 0) (.origin rfl) (by decide) rfl

/-! ### the peer table may change while an item is processed -/

theorem fanout_is_fanoutAt (c : Cfg) (i : Node) (es : List Entry) : fanout c i es = fanoutAt (c.peers i) i es := rfl

/-- what a node passes on: only entries that verify (its own included) - a forged entry is not relayed -/
theorem forwarded_entries_all_verify (i : Node) (es : List Entry) (e : Entry) (he : e ∈ forwardEntries i es) :
    e.signer = e.addr ∧ e.forThis = true := by
  unfold forwardEntries at he
  rcases List.mem_append.mp he with h | h
  · have := (List.mem_filter.mp h).2
    simpa using this
  · simp only [List.mem_singleton] at h; subst h; exact ⟨rfl, rfl⟩

theorem verified_forwardEntries (i : Node) (es : List Entry) (p : Node) :
    p ∈ verified (forwardEntries i es) ↔ p ∈ verified es ∨ p = i := by
  unfold verified forwardEntries ownEntry
  simp only [List.filter_append, List.filter_filter, Bool.and_self, List.map_append, List.mem_append, List.mem_map,
    List.mem_filter]
  constructor
  · rintro (⟨e, he, rfl⟩ | ⟨e, he, rfl⟩)
    · exact Or.inl ⟨e, he, rfl⟩
    · simp at he; exact Or.inr (by rw [he.1])
  · rintro (⟨e, he, rfl⟩ | rfl)
    · exact Or.inl ⟨e, he, rfl⟩
    · exact Or.inr ⟨⟨p, p, true⟩, by simp, rfl⟩

/-- **Whatever the peer table holds when the fan-out runs** - also a peer that joined after the list was
verified - a peer is left out only if the message carries an entry that verifies for it (or it is the node
itself); an entry naming it that is unsigned, signed by another key or for another item changes nothing. -/
theorem peer_table_change_cannot_suppress (peersNow : List Node) (i : Node) (es : List Entry) (p : Node)
    (hp : p ∈ peersNow) (hi : p ≠ i) (hv : p ∉ verified es) : ∃ m ∈ fanoutAt peersNow i es, m.dst = p := by
  unfold fanoutAt
  refine ⟨⟨p, true, forwardEntries i es⟩, ?_, rfl⟩
  simp only [List.mem_map, List.mem_filter]
  refine ⟨p, ⟨hp, ?_⟩, rfl⟩
  have : p ∉ verified (forwardEntries i es) := by
    rw [verified_forwardEntries]; exact fun h => h.elim hv hi
  simpa using this

/-- and what it sends them carries verified entries only -/
theorem fanoutAt_entries_verify (peersNow : List Node) (i : Node) (es : List Entry) (m : Msg) (hm : m ∈ fanoutAt peersNow i es)
    (e : Entry) (he : e ∈ m.entries) : e.signer = e.addr ∧ e.forThis = true := by
  unfold fanoutAt at hm
  simp only [List.mem_map, List.mem_filter] at hm
  obtain ⟨p, _, rfl⟩ := hm
  exact forwarded_entries_all_verify i es e he

/-- Non-vacuity: the relay (1) lists itself and a forged entry for node 3 (own signature); node 3 has become a
peer of node 2 by the time it fans out: 3 gets the item, with the relay's and node 2's entries only. -/
example : (fanoutAt [1, 3] 2 [⟨1, 1, true⟩, ⟨3, 1, true⟩]) = [⟨3, true, [⟨1, 1, true⟩, ⟨2, 2, true⟩]⟩] := by decide

end Props.C12
