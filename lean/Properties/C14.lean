import Proofs.BfsComplete
import Proofs.LoadComplete
import Proofs.LoadDag
/-!
# C14 — a node that syncs the DAG from a peer reproduces the peer's ledger

`loadDag b stream scan root`: `stream` is what arrives on the channel, `scan` the iteration order of
`GetVertices()` in the linking phase, `root` the root the genesis address is read from (both Go map
orders; the correspondence driver tries them).
Proved here: the all-or-nothing behaviour of the `loaded` flag, the meaning of a successful load, and
that every kind of malformed stream named in the property is refused wherever the bad vertex sits.
"Exactly the peer's vertices and parent links, same balances, same reaction to gossip" is decided per
run by the correspondence (real StreamDAG → real LoadDag, three stream orders, three shapes) — see the
`partial` notes of the evidence.
-/
namespace Props.C14
open CModel CModel.Book

/-- All-or-nothing: any error leaves the node marked as not loaded. -/
theorem failed_load_not_loaded (b : Book) (stream scan : List Vertex) (root : Option Vertex) (e : CModel.Err)
    (hb : b.loaded = false) (h : (b.loadDag stream scan root).2 = .error e) :
    (b.loadDag stream scan root).1.loaded = false :=
  loadDag_err_not_loaded b stream scan root e hb h

/-- A node that is already loaded refuses a second load and is unchanged. -/
theorem second_load_refused (b : Book) (stream scan : List Vertex) (root : Option Vertex) (hb : b.loaded = true) :
    b.loadDag stream scan root = (b, .error [.dagLoaded]) := by
  rw [loadDag_eq]; simp [hb]

/-- A successful load marks the node loaded, took the genesis wallet from a root of the loaded graph,
and both phases went through without a single refusal. -/
theorem successful_load (b : Book) (stream scan : List Vertex) (root : Option Vertex)
    (h : (b.loadDag stream scan root).2 = .ok ()) :
    (b.loadDag stream scan root).1.loaded = true ∧
    ∃ r, root = some r ∧ (b.loadDag stream scan root).1.genesis = r.trx.issuer :=
  let ⟨h1, r, h2, h3, _⟩ := loadDag_ok b stream scan root h
  ⟨h1, r, h2, h3⟩

/-- A node that is not loaded refuses proposals and gossip (so a failed load cannot leak into the ledger's use). -/
theorem unloaded_refuses (b : Book) (hb : b.loaded = false) (v : Vertex) (t : Trx) (o1 o2 : List Hash) (tip : Vertex) :
    b.addLeaf v = (b, .error [.notLoaded]) ∧ b.createLeaf t o1 o2 tip = (b, .error [.notLoaded]) := by
  constructor
  · unfold addLeaf; simp [hb]
  · unfold createLeaf; simp [hb]

/-- Malformed streams: a duplicate transaction anywhere in the stream is refused … -/
theorem duplicate_transaction_refused (s1 s2 : List Vertex) (v v' : Vertex) (ht : v.trx.hash = v'.trx.hash) (b : Book) :
    ((s1 ++ v :: s2 ++ [v']).foldl loadIns (b, none)).2 ≠ none :=
  dup_transaction_refused s1 s2 v v' ht b

/-- … and so is an empty transaction or a non-canonical amount anywhere in the loaded graph. -/
theorem empty_or_noncanonical_refused (scan : List Vertex) (v : Vertex) (hv : v ∈ scan)
    (hbad : v.trx.isEmpty = true ∨ v.trx.spice.canonB = false) (b : Book) :
    (scan.foldl loadLnk (b, false, none)).2.2 ≠ none :=
  loadLnk_bad_vertex scan v hv hbad _

/-- The whole operation refuses them: combined with `loadDag_eq`, an error in either phase is the result. -/
theorem bad_vertex_means_error (b : Book) (stream scan : List Vertex) (root : Option Vertex) (v : Vertex)
    (hv : v ∈ scan) (hbad : v.trx.isEmpty = true ∨ v.trx.spice.canonB = false) :
    (b.loadDag stream scan root).2 ≠ .ok () := by
  intro h
  obtain ⟨_, _, _, _, _, h5⟩ := loadDag_ok b stream scan root h
  exact loadLnk_bad_vertex scan v hv hbad _ h5

/-- Non-vacuity: loading genesis + one child into a fresh node succeeds and yields the two vertices. -/
def gv : Vertex := ⟨1, "n", 0, 0, 0, ⟨2, "n", "w", ⟨10, 0⟩, false⟩, true⟩
def cv : Vertex := ⟨3, "n", 1, 1, 1, ⟨4, "w", "x", ⟨3, 0⟩, false⟩, true⟩
example : (({ self := "m" } : Book).loadDag [cv, gv] [cv, gv] (some gv)).2 = .ok () ∧
    (({ self := "m" } : Book).loadDag [cv, gv] [cv, gv] (some gv)).1.edges = [(1, 3)] := by
  constructor <;> rfl

/-- **Syncing reproduces the peer's ledger.** Let `src` be any reachable ledger (any history of proposals,
gossip, orphan retries, trusted-node changes) that has not been truncated, and let its vertices reach a fresh
node in ANY order (`stream`), the loader visiting them in ANY order (`scan`). Then LoadDag succeeds and the node
holds exactly the peer's vertices and exactly the peer's parent links, one index entry per transaction, is
marked loaded and takes its genesis address from the root it was given. (The one side condition on the data:
a parentless vertex — the genesis — carries a non-empty transaction, otherwise the loader's own guard refuses
it.) The truncated-peer case is the recorded finding `truncated-peer-cannot-be-synced`. -/
theorem honest_load_reproduces_ledger (src : Book) (r : Reachable src) (hcp : src.cpVerts = [])
    (hgen : ∀ v ∈ src.verts, v.left = 0 → v.trx.isEmpty = false)
    (dst : Book) (hd1 : dst.verts = []) (hd2 : dst.edges = []) (hd3 : dst.index = []) (hd4 : dst.loaded = false)
    (stream scan : List Vertex) (hs : stream.Perm src.verts) (hsc : scan.Perm src.verts)
    (root : Vertex) (hroot : root ∈ src.verts) (hrootBare : ∀ e ∈ src.edges, e.2 ≠ root.hash) :
    (dst.loadDag stream scan (some root)).2 = .ok () ∧
    (dst.loadDag stream scan (some root)).1.loaded = true ∧
    (dst.loadDag stream scan (some root)).1.genesis = root.trx.issuer ∧
    (dst.loadDag stream scan (some root)).1.verts = stream ∧
    (dst.loadDag stream scan (some root)).1.index = stream.map (fun v => (v.trx.hash, v.hash)) ∧
    (∀ e, e ∈ (dst.loadDag stream scan (some root)).1.edges ↔ e ∈ src.edges) :=
  loadDag_reproduces src r hcp hgen dst hd1 hd2 hd3 hd4 stream scan hs hsc root hroot hrootBare

/-- **The peer's stream is complete**: StreamDAG, visiting the tips in any order, emits every live vertex of
a reachable ledger exactly once. -/
theorem stream_is_complete {src : Book} (r : Reachable src) (order : List Vertex) (ho : order.Perm src.leaves) :
    (src.streamDag order).Perm src.verts := by
  have hnd : (src.verts.map (·.hash)).Nodup := by
    have := r.inv.idx.nodupV
    unfold allV at this
    rw [List.map_append] at this
    exact (List.nodup_append.mp this).1
  exact streamDag_perm src r.edgeInv hnd order ho

/-- **End to end**: what an honest, untruncated peer streams (tips visited in any order), delivered to a fresh
node in any order and scanned by the loader in any order, reproduces the peer's ledger. -/
theorem stream_then_load_reproduces (src : Book) (r : Reachable src) (hcp : src.cpVerts = [])
    (hgen : ∀ v ∈ src.verts, v.left = 0 → v.trx.isEmpty = false)
    (order : List Vertex) (ho : order.Perm src.leaves)
    (dst : Book) (hd1 : dst.verts = []) (hd2 : dst.edges = []) (hd3 : dst.index = []) (hd4 : dst.loaded = false)
    (arrival scan : List Vertex) (ha : arrival.Perm (src.streamDag order)) (hsc : scan.Perm arrival)
    (root : Vertex) (hroot : root ∈ src.verts) (hrootBare : ∀ e ∈ src.edges, e.2 ≠ root.hash) :
    (dst.loadDag arrival scan (some root)).2 = .ok () ∧
    (dst.loadDag arrival scan (some root)).1.loaded = true ∧
    (dst.loadDag arrival scan (some root)).1.verts = arrival ∧
    (∀ e, e ∈ (dst.loadDag arrival scan (some root)).1.edges ↔ e ∈ src.edges) := by
  have hs := ha.trans (stream_is_complete r order ho)
  obtain ⟨c1, c2, _, c4, _, c6⟩ := honest_load_reproduces_ledger src r hcp hgen dst hd1 hd2 hd3 hd4 arrival scan hs (hsc.trans hs)
    root hroot hrootBare
  exact ⟨c1, c2, c4, c6⟩

end Props.C14
