import Proofs.NotaryProofs
import Proofs.NotaryFine
import Properties.C04
/-!
# C16 — contracts need the receiver; reads need proof of key ownership

Model: `CModel/Notary.lean`, the notary API as a state machine over the awaiting cache, the ledger as seen
through `CreateLeaf` (whether the ledger admits a transaction is an argument of each call, so the theorems
hold whatever the ledger decides), the challenge store and the throttle set; signatures as in C04.
All theorems quantify over every call sequence `ops` (any mix of honest and dishonest requests, replays
included) and every hash function / address decoder `c.o`.
-/
namespace Props.C16
open CModel.Tx CModel.Notary

/-- the notary starts with an empty awaiting cache over a ledger holding `base` (distinct hashes) -/
def start (base : List TrxB) : St := { sealed := base }

theorem start_inv (c : Cfg) (base : List TrxB) (hb : (base.map (·.hash)).Nodup) : Inv c base [] (start base) :=
  ⟨(by intro t ht; cases ht), fun t ht => Or.inl ht, hb, (by simp [start])⟩

/-- **Contracts need the receiver.** After any sequence of notary calls, every transaction in the ledger
that was not there before either carries no data — then its issuer signature verifies — or carries data
and the receiver acted on it: the sealed transaction itself carries the receiver's verifying signature
over the issuer-signed content (confirm), or the call sequence contains a `reject` for its hash signed by
the key of its receiver address. -/
theorem contract_needs_receiver (c : Cfg) (base : List TrxB) (hb : (base.map (·.hash)).Nodup) (ops : List Op) (t : TrxB)
    (ht : t ∈ (run c (start base) ops).sealed) (hnew : t ∉ base) :
    verifyIssuer c.o t = true ∧ (t.data ≠ [] →
      verifyIssuerReceiver c.o t = true ∨
      ∃ r lo, Op.reject r lo ∈ ops ∧ r.data = t.hash ∧ r.address = t.receiver ∧ verifySH c r = true) := by
  have h := inv_run ops (start_inv c base hb)
  rcases h.sealedJustified t ht with hbase | ⟨hv, hj⟩
  · exact absurd hbase hnew
  · refine ⟨hv, fun hd => ?_⟩
    simpa [Justified] using hj hd

/-- **At most once.** However calls are repeated or interleaved, no transaction hash is in the ledger twice,
and no hash is awaiting twice. -/
theorem sealed_at_most_once (c : Cfg) (base : List TrxB) (hb : (base.map (·.hash)).Nodup) (ops : List Op) :
    ((run c (start base) ops).sealed.map (·.hash)).Nodup ∧ ((run c (start base) ops).awaiting.map (·.hash)).Nodup :=
  ⟨(inv_run ops (start_inv c base hb)).sealedOnce, (inv_run ops (start_inv c base hb)).awaitingOnce⟩

/-- Everything awaiting was proposed with a verifying issuer signature and carries data. -/
theorem awaiting_are_verified_contracts (c : Cfg) (base : List TrxB) (hb : (base.map (·.hash)).Nodup) (ops : List Op) (t : TrxB)
    (ht : t ∈ (run c (start base) ops).awaiting) : verifyIssuer c.o t = true ∧ t.data ≠ [] :=
  (inv_run ops (start_inv c base hb)).awaitingVerified t ht

/-- **A pure transfer is sealed on the issuer signature alone**: `propose` of a transaction without data
succeeds exactly when the issuer signature verifies and the ledger admits it (and it is not there yet);
it is then in the ledger, and the awaiting cache is not involved. -/
theorem transfer_sealed_on_issuer_signature (c : Cfg) (s : St) (t : TrxB) (lo : Bool) (hd : t.data = []) :
    ((propose c s t lo).2 = .ok ↔ (verifyIssuer c.o t = true ∧ lo = true ∧ isSealed s t.hash = false)) ∧
    ((propose c s t lo).2 = .ok → t ∈ (propose c s t lo).1.sealed ∧ (propose c s t lo).1.awaiting = s.awaiting) := by
  unfold propose
  by_cases hv : verifyIssuer c.o t = true
  · simp only [hv, Bool.not_true, Bool.false_eq_true, ↓reduceIte, hd, List.isEmpty_nil, true_and]
    cases hs : sealTrx s t lo with
    | none =>
      refine ⟨⟨fun h => (by cases h), fun ⟨h1, h2⟩ => ?_⟩, fun h => (by cases h)⟩
      unfold sealTrx at hs
      simp [h1, h2] at hs
    | some s' =>
      obtain ⟨a, b, e1, e2, _⟩ := sealTrx_some hs
      exact ⟨⟨fun _ => ⟨b, a⟩, fun _ => rfl⟩, fun _ => ⟨by rw [e1]; exact List.mem_cons_self, e2⟩⟩
  · have hf : verifyIssuer c.o t = false := by simpa using hv
    simp only [hf, Bool.not_false, ↓reduceIte]
    exact ⟨⟨fun h => (by cases h), fun h => (by cases h.1)⟩, fun h => (by cases h)⟩

/-- **An invalid signature changes nothing**: neither the ledger, nor any awaiting list, nor anything else. -/
theorem bad_signature_is_noop (c : Cfg) (s : St) :
    (∀ t lo, verifyIssuer c.o t = false → propose c s t lo = (s, .errVerification)) ∧
    (∀ t lo, verifyIssuerReceiver c.o t = false → confirm c s t lo = (s, .errVerification)) ∧
    (∀ r lo, verifySH c r = false → reject c s r lo = (s, .errProcessing)) := by
  refine ⟨fun t lo h => ?_, fun t lo h => ?_, fun r lo h => ?_⟩
  · simp [propose, h]
  · simp [confirm, h]
  · simp [reject, h]

/-- A contract (data present) is never sealed by `propose`, whatever the ledger would say. -/
theorem propose_never_seals_a_contract (c : Cfg) (s : St) (t : TrxB) (lo : Bool) (hd : t.data ≠ []) :
    (propose c s t lo).1.sealed = s.sealed := by
  unfold propose
  split; · rfl
  have : t.data.isEmpty = false := by cases h : t.data with | nil => exact absurd h hd | cons _ _ => rfl
  simp only [this, Bool.not_false, ↓reduceIte]
  split; · rfl
  cases hs : saveAwaiting s t with
  | none => rfl
  | some s' => exact (saveAwaiting_some hs).2.2.1

/-- **Only the receiver takes a transaction off the awaiting list.** If a call makes an awaiting
transaction disappear, the call is a `confirm` whose transaction has the same hash and receiver and carries
verifying issuer and receiver signatures, or a `reject` for that hash whose request verifies under the
receiver's address. -/
theorem only_receiver_removes (c : Cfg) (s : St) (hn : (s.awaiting.map (·.hash)).Nodup) (op : Op) (t : TrxB) (ht : t ∈ s.awaiting)
    (hgone : t ∉ (step c s op).1.awaiting) :
    (∃ t' lo, op = .confirm t' lo ∧ t'.hash = t.hash ∧ t'.receiver = t.receiver ∧ verifyIssuerReceiver c.o t' = true) ∨
    (∃ r lo, op = .reject r lo ∧ r.data = t.hash ∧ r.address = t.receiver ∧ verifySH c r = true) := by
  cases op with
  | propose t' lo =>
    exfalso; apply hgone
    simp only [step]
    unfold propose
    split; · exact ht
    split
    · split; · exact ht
      cases hs : saveAwaiting s t' with
      | none => exact ht
      | some s' => rw [(saveAwaiting_some hs).2.1]; exact List.mem_append_left _ ht
    · cases hs : sealTrx s t' lo with
      | none => exact ht
      | some s' => rw [(sealTrx_some hs).2.2.2.1]; exact ht
  | confirm t' lo =>
    simp only [step] at hgone
    unfold confirm at hgone
    by_cases hv : verifyIssuerReceiver c.o t' = true
    · simp only [hv, Bool.not_true, Bool.false_eq_true, ↓reduceIte] at hgone
      rcases @removeAwaiting_other s t'.hash t'.receiver with e | e | ⟨t0, s1, e⟩
      · rw [e] at hgone; exact absurd ht hgone
      · rw [e] at hgone; exact absurd ht hgone
      · rw [e] at hgone
        dsimp only at hgone
        obtain ⟨hm, hh, hr, ea, _, _, _⟩ := removeAwaiting_removed e
        have hin : t ∉ s1.awaiting := by
          cases hs : sealTrx s1 t' lo with
          | none => rw [hs] at hgone; exact hgone
          | some s2 => rw [hs] at hgone; rw [← (sealTrx_some hs).2.2.2.1]; exact hgone
        rw [ea] at hin
        have : t.hash = t'.hash := by
          by_cases hq : t.hash = t'.hash
          · exact hq
          · exact absurd (List.mem_filter.mpr ⟨ht, by simpa using hq⟩) hin
        have et : t = t0 := mem_same_hash_eq hn ht hm (this.trans hh.symm)
        left
        exact ⟨t', lo, rfl, this.symm, by rw [et]; exact hr.symm, hv⟩
    · simp only [hv, Bool.not_false, ↓reduceIte] at hgone
      exact absurd ht hgone
  | reject r lo =>
    simp only [step] at hgone
    unfold reject at hgone
    by_cases hv : verifySH c r = true
    · simp only [hv, Bool.not_true, Bool.false_eq_true, ↓reduceIte] at hgone
      rcases @removeAwaiting_other s r.data r.address with e | e | ⟨t0, s1, e⟩
      · rw [e] at hgone; exact absurd ht hgone
      · rw [e] at hgone; exact absurd ht hgone
      · rw [e] at hgone
        dsimp only at hgone
        obtain ⟨hm, hh, hr, ea, _, _, _⟩ := removeAwaiting_removed e
        have hin : t ∉ s1.awaiting := by
          cases hs : sealRej s1 t0 lo with
          | none => rw [hs] at hgone; exact hgone
          | some s2 => rw [hs] at hgone; rw [← (sealRej_some hs).2.2.2.1]; exact hgone
        rw [ea] at hin
        have : t.hash = r.data := by
          by_cases hq : t.hash = r.data
          · exact hq
          · exact absurd (List.mem_filter.mpr ⟨ht, by simpa using hq⟩) hin
        have et : t = t0 := mem_same_hash_eq hn ht hm (this.trans hh.symm)
        right
        exact ⟨r, lo, rfl, this.symm, by rw [et]; exact hr.symm, hv⟩
    · simp only [hv, Bool.not_false, ↓reduceIte] at hgone
      exact absurd ht hgone
  | data a b => exact absurd ht hgone
  | expire => exact absurd ht hgone
  | waiting r =>
    have e := core_eq (waiting_core c s r)
    simp only [step] at hgone
    rw [e.1] at hgone; exact absurd ht hgone
  | history r =>
    have e := history_core c s r
    simp only [step] at hgone
    rw [e.1] at hgone; exact absurd ht hgone
  | balance r lo =>
    have e := balance_core c s r lo
    simp only [step] at hgone
    rw [e.1] at hgone; exact absurd ht hgone
  | saved r => exact absurd ht hgone
  | ledgerDrop hs => exact absurd ht hgone

/-! ## Concurrent duplicate calls: Confirm and Reject split at their lock boundaries

`Confirm` and `Reject` take the transaction off the awaiting cache under the cache mutex and seal it later
under the ledger lock; between the two halves any other call may run. `fstep` executes whole calls and
half calls in any order (`pending` holds the calls that are between their halves). -/

/-- a whole `Confirm` is its two halves run back to back -/
theorem confirm_is_two_halves (c : Cfg) (s : St) (t : TrxB) (lo : Bool) :
    (fstep c (fstep c ⟨s, []⟩ (.confirmRemove t)) (.sealAt 0 lo)).s = (confirm c s t lo).1 := by
  unfold confirm
  by_cases hv : verifyIssuerReceiver c.o t = true
  · simp only [fstep, hv, Bool.not_true, Bool.false_eq_true, ↓reduceIte]
    rcases @removeAwaiting_other s t.hash t.receiver with e | e | ⟨t0, s1, e⟩
    · rw [e]; rfl
    · rw [e]; rfl
    · rw [e]
      simp only [List.nil_append, List.getElem?_cons_zero, Bool.false_eq_true, ↓reduceIte]
      cases sealTrx s1 t lo <;> rfl
  · have hf : verifyIssuerReceiver c.o t = false := by simpa using hv
    simp [fstep, hf]

/-- a whole `Reject` is its two halves run back to back -/
theorem reject_is_two_halves (c : Cfg) (s : St) (r : SignedHash) (lo : Bool) :
    (fstep c (fstep c ⟨s, []⟩ (.rejectRemove r)) (.sealAt 0 lo)).s = (reject c s r lo).1 := by
  unfold reject
  by_cases hv : verifySH c r = true
  · simp only [fstep, hv, Bool.not_true, Bool.false_eq_true, ↓reduceIte]
    rcases @removeAwaiting_other s r.data r.address with e | e | ⟨t0, s1, e⟩
    · rw [e]; rfl
    · rw [e]; rfl
    · rw [e]
      simp only [List.nil_append, List.getElem?_cons_zero, ↓reduceIte]
      cases sealRej s1 t0 lo <;> rfl
  · have hf : verifySH c r = false := by simpa using hv
    simp [fstep, hf]

theorem fstart_inv (c : Cfg) (base : List TrxB) (hb : (base.map (·.hash)).Nodup) : FInv c base [] ⟨start base, []⟩ :=
  ⟨start_inv c base hb, (by intro p hp; cases hp)⟩

/-- **Contracts need the receiver, under every interleaving.** Whatever the order in which whole calls
and the halves of concurrent `Confirm` / `Reject` calls execute, every transaction the ledger gains
carries a verifying issuer signature, and if it carries data the receiver acted: its receiver signature
verifies, or the history contains a reject request (whole or first half) for its hash signed by the
receiver's key. -/
theorem interleaved_contract_needs_receiver (c : Cfg) (base : List TrxB) (hb : (base.map (·.hash)).Nodup) (ops : List FOp) (t : TrxB)
    (ht : t ∈ (frun c ⟨start base, []⟩ ops).s.sealed) (hnew : t ∉ base) :
    verifyIssuer c.o t = true ∧ (t.data ≠ [] →
      verifyIssuerReceiver c.o t = true ∨
      ∃ r, ((∃ lo, FOp.whole (.reject r lo) ∈ ops) ∨ FOp.rejectRemove r ∈ ops) ∧
        r.data = t.hash ∧ r.address = t.receiver ∧ verifySH c r = true) := by
  have h := finv_run ops (fstart_inv c base hb)
  rcases h.inv.sealedJustified t ht with hbase | ⟨hv, hj⟩
  · exact absurd hbase hnew
  · refine ⟨hv, fun hd => ?_⟩
    have := justified_erase (hj hd)
    simpa using this

/-- **At most once, under every interleaving**: concurrent duplicate confirmations / rejections of one
transaction (any number of them between their halves at once) never put a hash into the ledger twice. -/
theorem interleaved_sealed_at_most_once (c : Cfg) (base : List TrxB) (hb : (base.map (·.hash)).Nodup) (ops : List FOp) :
    ((frun c ⟨start base, []⟩ ops).s.sealed.map (·.hash)).Nodup :=
  (finv_run ops (fstart_inv c base hb)).inv.sealedOnce

/-- a call between its halves is always one the receiver authorised -/
theorem interleaved_pending_authorised (c : Cfg) (base : List TrxB) (hb : (base.map (·.hash)).Nodup) (ops : List FOp) (p : TrxB × Bool)
    (hp : p ∈ (frun c ⟨start base, []⟩ ops).pending) :
    verifyIssuer c.o p.1 = true ∧ (verifyIssuerReceiver c.o p.1 = true ∨
      ∃ r, ((∃ lo, FOp.whole (.reject r lo) ∈ ops) ∨ FOp.rejectRemove r ∈ ops) ∧
        r.data = p.1.hash ∧ r.address = p.1.receiver ∧ verifySH c r = true) := by
  have h := (finv_run ops (fstart_inv c base hb)).pendingJustified p hp
  refine ⟨h.1, ?_⟩
  have := justified_erase h.2
  simpa using this

/-- two concurrent confirmations of one contract: only one of them gets the transaction off the awaiting
list, whatever the order of the halves (the second `confirmRemove` finds nothing) -/
theorem second_remove_finds_nothing (s s1 : St) (t t0 : TrxB)
    (e : removeAwaiting s t.hash t.receiver = .removed t0 s1) (a : Bytes) :
    removeAwaiting s1 t.hash a = .notFound := by
  obtain ⟨_, _, _, ea, _⟩ := removeAwaiting_removed e
  unfold removeAwaiting
  have : findAwaiting s1 t.hash = none := by
    unfold findAwaiting
    rw [ea]
    apply List.find?_eq_none.mpr
    intro x hx
    have := (List.mem_filter.mp hx).2
    simpa using this
  rw [this]


/-! ## Reads need proof of key ownership -/

/-- what a verifying `SignedHash` proves: the digest is the hash of the data and the signature is by the
key the address decodes to -/
theorem signed_request_proves_key (c : Cfg) (r : SignedHash) (h : verifySH c r = true) :
    c.o.H r.data = r.hash ∧ ∃ k, c.o.addrKey r.address = some k ∧ k.length = 32 ∧ r.sig = .honest k r.hash :=
  verifyMsg_true h

/-- the stored challenge: present for that address, not expired, byte-identical -/
theorem validChallenge_iff (s : St) (a b : Bytes) :
    validChallenge s a b = true ↔ ∃ e ∈ s.chal, e.1 = a ∧ e.2.1 = b ∧ e.2.2 = true ∧ s.chal.find? (·.1 == a) = some e := by
  unfold validChallenge
  constructor
  · intro h
    split at h
    · rename_i a' b' f hf
      simp only [Bool.and_eq_true, beq_iff_eq] at h
      have hm := List.mem_of_find?_eq_some hf
      have hp := List.find?_some hf
      exact ⟨_, hm, by simpa using hp, h.2, h.1, hf⟩
    · cases h
  · rintro ⟨⟨a', b', f⟩, _, h1, h2, h3, hf⟩
    simp only at h1 h2 h3
    rw [hf]
    simp [h2, h3]

/-- **Waiting lists** are returned only for the server-issued, unexpired challenge of that address, signed
by the key of that address; the call changes neither ledger nor awaiting transactions. -/
theorem waiting_authenticated (c : Cfg) (s : St) (r : SignedHash) :
    ((waiting c s r).2.1 = .ok → validChallenge s r.address r.data = true ∧ verifySH c r = true) ∧
    ((waiting c s r).2.1 ≠ .ok → (waiting c s r).2.2 = []) ∧
    (waiting c s r).1.awaiting = s.awaiting ∧ (waiting c s r).1.sealed = s.sealed := by
  have hc := core_eq (waiting_core c s r)
  refine ⟨?_, ?_, hc.1, hc.2.1⟩
  · unfold waiting
    split; · intro h; cases h
    rename_i h1
    split; · intro h; cases h
    rename_i h2
    intro _
    exact ⟨by simpa using h1, by simpa using h2⟩
  · unfold waiting
    split; · intro _; rfl
    split; · intro _; rfl
    split
    · intro _; rfl
    · intro h; exact absurd rfl h

/-- **DAG history**: same, and what is returned are ledger transactions naming that address. -/
theorem history_authenticated (c : Cfg) (s : St) (r : SignedHash) :
    ((history c s r).2.1 = .ok → validChallenge s r.address r.data = true ∧ verifySH c r = true ∧
        ∀ t ∈ (history c s r).2.2, t ∈ s.sealed ∧ (t.issuer = r.address ∨ t.receiver = r.address)) ∧
    ((history c s r).2.1 ≠ .ok → (history c s r).2.2 = []) := by
  unfold history throttle
  simp only
  refine ⟨?_, ?_⟩
  · split; · intro h; cases h
    split; · intro h; cases h
    rename_i h1
    split; · intro h; cases h
    rename_i h2
    intro _
    refine ⟨by simpa using h1, by simpa using h2, fun t ht => ?_⟩
    have := List.mem_filter.mp ht
    exact ⟨this.1, by simpa [involves] using this.2⟩
  · split; · intro _; rfl
    split; · intro _; rfl
    split; · intro _; rfl
    intro h; exact absurd rfl h

/-- **Balance**: only when the signed data is the caller's own address and the signature is by its key. -/
theorem balance_authenticated (c : Cfg) (s : St) (r : SignedHash) (lo : Bool) (h : (balance c s r lo).2 = .ok) :
    r.data = r.address ∧ verifySH c r = true := by
  unfold balance throttle at h
  simp only at h
  split at h; · cases h
  split at h; · cases h
  rename_i h1
  split at h; · cases h
  rename_i h2
  exact ⟨by simpa using h1, by simpa using h2⟩

/-- An expired challenge authenticates nothing; a fresh one replaces any older one for the address. -/
theorem expired_challenge_rejected (s : St) (a b : Bytes) : validChallenge (expireAll s) a b = false := by
  unfold validChallenge expireAll
  simp only
  cases h : List.find? (fun x => x.1 == a) (List.map (fun x => (x.1, x.2.1, false)) s.chal) with
  | none => rfl
  | some e =>
    obtain ⟨a', b', f⟩ := e
    have hm := List.mem_of_find?_eq_some h
    obtain ⟨x, _, hx⟩ := List.mem_map.mp hm
    simp only [Prod.mk.injEq] at hx
    simp [← hx.2.2]

theorem reissued_challenge_replaces (s : St) (a b b' : Bytes) (hne : b' ≠ b) : validChallenge (provideData s a b) a b' = false := by
  unfold validChallenge provideData
  simp [hne.symm]

theorem foreign_challenge_rejected (s : St) (a a' b : Bytes) (hne : a' ≠ a)
    (hnone : ∀ e ∈ s.chal, e.1 = a' → e.2.1 ≠ b) : validChallenge (provideData s a b) a' b = false := by
  cases hv : validChallenge (provideData s a b) a' b with
  | false => rfl
  | true =>
    obtain ⟨e, hm, h1, h2, _, _⟩ := (validChallenge_iff _ _ _).mp hv
    unfold provideData at hm
    simp only [List.mem_cons] at hm
    rcases hm with rfl | hm
    · exact absurd h1.symm hne
    · exact absurd h2 (hnone e (List.mem_filter.mp hm).1 h1)

/-! ## Non-vacuity: a contract proposed, read by its receiver, confirmed and sealed (toy `Ops` of C04) -/

def tc : Cfg := { o := Props.C04.toyOps, dataSize := 16 }
def contract : TrxB := { Props.C04.toyTrx with rsig := .other [] }
def countersigned : TrxB := Props.C04.toyTrx
def chalReq : SignedHash :=
  let blob : Bytes := [5, 5, 5]
  let h := tc.o.H blob
  ⟨[8, 8], blob, h, .honest (List.replicate 31 0 ++ [8]) h⟩

example : (step tc (start []) (.propose contract true)).2.1 = .ok := by decide +kernel
example : (run tc (start []) [.propose contract true]).awaiting = [contract] := by decide +kernel
example : (run tc (start []) [.propose contract true]).sealed = [] := by decide +kernel
example : (run tc (start []) [.propose contract true, .confirm countersigned true]).sealed = [countersigned] := by decide +kernel
example : (run tc (start []) [.propose contract true, .confirm countersigned true]).awaiting = [] := by decide +kernel
/-- a confirmation whose receiver signature is the issuer's is refused and changes nothing -/
example : (step tc (run tc (start []) [.propose contract true]) (.confirm { contract with rsig := contract.isig } true)).2.1 = .errVerification := by
  decide +kernel
/-- the receiver reads its waiting list with the issued challenge; without one it is refused -/
example : (step tc (run tc (start []) [.propose contract true, .data [8, 8] [5, 5, 5]]) (.waiting chalReq)).2 = (.ok, [contract]) := by
  decide +kernel
example : (step tc (run tc (start []) [.propose contract true]) (.waiting chalReq)).2.1 = .errVerification := by decide +kernel
example : (step tc (run tc (start []) [.propose contract true, .data [8, 8] [5, 5, 5], .expire]) (.waiting chalReq)).2.1 = .errVerification := by
  decide +kernel
/-- two concurrent confirmations of one contract, halves interleaved: the second removal finds nothing,
one call is between its halves, and after it reaches the ledger the contract is sealed exactly once -/
example : (frun tc ⟨start [], []⟩ [.whole (.propose contract true), .confirmRemove countersigned, .confirmRemove countersigned]).pending
    = [(countersigned, false)] := by decide +kernel
example : (frun tc ⟨start [], []⟩ [.whole (.propose contract true), .confirmRemove countersigned, .confirmRemove countersigned,
    .sealAt 0 true, .sealAt 0 true]).s.sealed = [countersigned] := by decide +kernel
/-- a confirmation racing a whole second proposal + confirmation of the same contract: still sealed once -/
example : (frun tc ⟨start [], []⟩ [.whole (.propose contract true), .confirmRemove countersigned, .whole (.propose contract true),
    .whole (.confirm countersigned true), .sealAt 0 true]).s.sealed = [countersigned] := by decide +kernel

end Props.C16
