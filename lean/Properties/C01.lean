import Proofs.Conservation
import Properties.C03
/-!
# C01 — no confirmed transfer overdraws its issuer within the history it builds on

"Confirmed" = referenced as a parent. In the model a vertex acquires a child only inside
`createLeaf` (local proposal) or `addLeafMemorized` (gossip / orphan retry). The theorems say:
every vertex that becomes a parent passed `validateLeaf` in an intermediate book of that very call
(`ValidatedIn` / `CheckedIn`), and passing `validateLeaf` means exactly that checkpoint + inflow
covers the issuer's outflow over the vertex and its ancestors — unless it is a root, a non-spice
transaction, or sealed by a trusted node (the only three exemptions).
Sums are in `Nat`; `walk b v = v :: ancestors`; `cpVal` = checkpointed funds.
-/
namespace Props.C01
open CModel CModel.Book CModel.Melange

/-- Passing validation means the funds cover (exemptions listed explicitly). For all reachable
books, all vertices, all amounts. -/
theorem validated_means_covered {b : Book} (r : Reachable b) (leaf : Vertex) (hc : leaf.trx.spice.canonB = true)
    (h : b.validateLeaf leaf = .ok ()) :
    leaf.vok = true ∧
    (b.isRoot leaf.hash = true ∨ leaf.trx.isSpice = false ∨ b.isTrusted leaf.signer = true ∨
     outflow leaf.trx.issuer (walk b leaf) ≤ cpVal b leaf.trx.issuer + inflow leaf.trx.issuer (walk b leaf)) := by
  obtain ⟨h1, _, h3⟩ := validateLeaf_ok r.fundsOK leaf ((canonB_iff _).1 hc) h
  exact ⟨h1, h3⟩

/-- Same statement for any book satisfying the funds invariant (used for intermediate books). -/
theorem validated_means_covered' {b : Book} (hf : FundsOK b) (leaf : Vertex) (hc : Canon leaf.trx.spice)
    (h : b.validateLeaf leaf = .ok ()) :
    b.isRoot leaf.hash = true ∨ leaf.trx.isSpice = false ∨ b.isTrusted leaf.signer = true ∨
     outflow leaf.trx.issuer (walk b leaf) ≤ cpVal b leaf.trx.issuer + inflow leaf.trx.issuer (walk b leaf) :=
  (validateLeaf_ok hf leaf hc h).2.2

/-- Conversely the fund check is complete: if the sums stay representable and the history resolves,
a covered transfer passes. So validation decides exactly the inequality of the property. -/
theorem covered_means_validated {b : Book} (hf : FundsOK b) (leaf : Vertex) (hleaf : Canon leaf.trx.spice)
    (hres : (visited b (b.ancestors leaf.hash)).length = (b.ancestors leaf.hash).length)
    (hvok : ∀ v ∈ b.verts, v.vok = true)
    (hin : cpVal b leaf.trx.issuer + inflow leaf.trx.issuer (walk b leaf) < capacity)
    (hout : outflow leaf.trx.issuer (walk b leaf) < capacity)
    (hcov : outflow leaf.trx.issuer (walk b leaf) ≤ cpVal b leaf.trx.issuer + inflow leaf.trx.issuer (walk b leaf)) :
    validateFunds b leaf = .ok () :=
  validateFunds_complete hf leaf hleaf hres hvok hin hout hcov

/-- Local proposals: both parents of the new vertex passed `validateLeaf` during the call; the new
vertex has weight max+1 and is sealed by this node. -/
theorem propose_confirms_only_validated (b : Book) (trx : Trx) (o1 o2 : List Hash) (tip v : Vertex)
    (h : (b.createLeaf trx o1 o2 tip).2 = .ok v) :
    ∃ l r, ValidatedIn b l ∧ ValidatedIn b r ∧ v.left = l.hash ∧ v.right = r.hash :=
  let ⟨l, r, h1, h2, h3, h4, _⟩ := createLeaf_parents_validated b trx o1 o2 tip v h
  ⟨l, r, h1, h2, h3, h4⟩

/-- Gossip: a vertex is admitted only if both declared parents are present and every parent that
is still a tip passes `validateLeaf` in that call. -/
theorem gossip_confirms_only_validated (b : Book) (leaf : Vertex)
    (h : (b.addLeaf leaf).2 = .ok ()) :
    ∃ l r, CheckedIn b l ∧ CheckedIn b r ∧ l.hash = leaf.left ∧ r.hash = leaf.right := by
  unfold addLeaf at h
  split at h; · simp at h
  rename_i hl
  split at h; · simp at h
  rename_i ho
  split at h; · simp at h
  rename_i he
  split at h; · simp at h
  rename_i hc
  exact addLeafMemorized_parents_checked b leaf 0
    ⟨by simpa using hl, by simpa using ho, by simpa using he, by simpa using hc⟩ h

/-- Orphan retries go through the same path. -/
theorem retry_confirms_only_validated {b : Book} (r : Reachable b) (v : Vertex) (rep : Nat)
    (hp : (v, rep) ∈ b.parked) (b0 : Book) (h : (b0.addLeafMemorized v rep).2 = .ok ()) (hl : b0.loaded = b.loaded) :
    ∃ l r, CheckedIn b0 l ∧ CheckedIn b0 r ∧ l.hash = v.left ∧ r.hash = v.right := by
  have hg := r.inv.parkOk (v, rep) hp
  exact addLeafMemorized_parents_checked b0 v rep ⟨by rw [hl]; exact hg.1, hg.2.1, hg.2.2.1, hg.2.2.2⟩ h

/-- **Validation happens under the lock, on the book of that moment.** Whatever the unlocked look-ups of a
delivery or proposal saw earlier (`Proofs/StaleGuards.lean`), the parents a successful locked body confirms
were validated against the ledger as it was while the lock was held. -/
theorem stale_delivery_confirms_only_validated {b0 b1 : Book} (r0 : Reachable b0) (bt : Between b0 b1) (leaf : Vertex) (rep : Nat)
    (pre : AddPre b0 leaf) (h : (b1.addLeafLocked leaf rep).2 = .ok ()) :
    ∃ l r, CheckedIn b1 l ∧ CheckedIn b1 r ∧ l.hash = leaf.left ∧ r.hash = leaf.right :=
  addLeafLocked_parents_checked b1 leaf rep ⟨by rw [(bt.stable r0).1]; exact pre.guards.1, pre.guards.2⟩ h

theorem stale_proposal_confirms_only_validated (b1 : Book) (trx : Trx) (o1 o2 : List Hash) (tip v : Vertex)
    (h : (b1.createLeafLocked trx o1 o2 tip).2 = .ok v) :
    ∃ l r, ValidatedIn b1 l ∧ ValidatedIn b1 r ∧ v.left = l.hash ∧ v.right = r.hash :=
  let ⟨l, r, h1, h2, h3, h4, _⟩ := createLeafLocked_parents_validated b1 trx o1 o2 tip v h
  ⟨l, r, h1, h2, h3, h4⟩

/-- A tentative tip that fails the test is dropped together with its index entry and edges. -/
theorem failing_tip_dropped (st : GVL) (v : Vertex) (e : CModel.Err) (h : st.book.validateLeaf v = .error e) :
    (visitTip st v).book.hasVertex v.hash = false ∧ (visitTip st v).book.indexHas v.trx.hash = false ∧
    (∀ x ∈ (visitTip st v).book.edges, x.1 ≠ v.hash ∧ x.2 ≠ v.hash) :=
  CModel.Book.failing_tip_dropped st v e h

/-- Intermediate books of a call keep the funds invariant, so `validated_means_covered'` applies
to every `ValidatedIn` / `CheckedIn` witness. -/
theorem intermediate_fundsOK {b bm : Book} (r : Reachable b) (s : Steps b bm) : FundsOK bm :=
  r.fundsOK_steps s

/-- Non-vacuity: in the reachable example ledger the spend `v1` (3 out of 10 received) is covered,
an overdraft of 11 is not. -/
example : outflow "w" [Props.C03.v1, Props.C03.g] ≤ inflow "w" [Props.C03.v1, Props.C03.g] := by decide

end Props.C01
