import Proofs.Reachable
import Properties.C03
/-!
# C10 — sealing rules: no self-sealed transfers, the genesis wallet never spends, no empty transactions

For every reachable book (any sequence of local proposals, gossiped vertices — including ones
crafted by a wallet that is itself a node — and orphan-buffer replays), every vertex other than the
genesis vertex (the one without parents) obeys the golden and silver rule.
Ledgers obtained by `loadDag` are covered by `Props.C14` under the stated honest-peer hypothesis.
-/
namespace Props.C10
open CModel CModel.Book

theorem sealing_rules {b : Book} (r : Reachable b) (v : Vertex) (hv : v ∈ b.verts ++ b.cpVerts) :
    (v.left = 0 ∧ v.right = 0) ∨
    (v.trx.issuer ≠ v.signer ∧ v.trx.issuer ≠ b.genesis ∧ v.trx.isEmpty = false) :=
  r.inv.sealing v hv

/-- Genesis cannot name its own issuer as receiver. -/
theorem genesis_not_to_self (b : Book) (spc : Melange) (v : Vertex) :
    (b.createGenesis b.self spc v).1 = b ∧ (b.createGenesis b.self spc v).2 = .error [.genesisRejected] := by
  unfold createGenesis; simp

theorem genesis_receiver_differs {b b' : Book} {recv : Addr} {spc : Melange} {v v' : Vertex}
    (h : b.createGenesis recv spc v = (b', .ok v')) : v.trx.receiver ≠ v.trx.issuer :=
  (createGenesis_ok h).2.2.2.1

/-- The guards are evaluated before a vertex is parked: everything in the orphan buffer already
passed them, so the retry path cannot admit a self-sealed or empty transaction. -/
theorem parked_passed_guards {b : Book} (r : Reachable b) (p : Vertex × Nat) (hp : p ∈ b.parked) :
    p.1.trx.issuer ≠ p.1.signer ∧ p.1.trx.isEmpty = false :=
  ⟨(r.inv.parkOk p hp).2.1, (r.inv.parkOk p hp).2.2.1⟩

/-- Rejections leave the book unchanged. -/
theorem self_sealed_rejected (b : Book) (v : Vertex) (hl : b.loaded = true) (h : v.trx.issuer = v.signer) :
    b.addLeaf v = (b, .error [.ownNode]) := by
  unfold addLeaf; simp [hl, h]

theorem empty_rejected (b : Book) (v : Vertex) (hl : b.loaded = true) (h1 : v.trx.issuer ≠ v.signer)
    (h : v.trx.isEmpty = true) : b.addLeaf v = (b, .error [.trxEmpty]) := by
  unfold addLeaf; simp [hl, h, h1]

theorem genesis_issuer_rejected (b : Book) (v : Vertex) (rep : Nat) (h : v.trx.issuer = b.genesis) :
    b.addLeafMemorized v rep = (b, .error [.genesisIssuer]) := by
  unfold addLeafMemorized; simp [h]

theorem propose_own_node_rejected (b : Book) (t : Trx) (o1 o2 : List Hash) (tip : Vertex) (hl : b.loaded = true)
    (hne : t.isEmpty = false) (hc : t.spice.canonB = true) (h : t.issuer = b.self) :
    b.createLeaf t o1 o2 tip = (b, .error [.ownNode]) := by
  unfold createLeaf; simp [hl, hne, hc, h]

/-- Non-vacuity: the reachable example ledger of C03 has a non-genesis vertex obeying the rules. -/
example : ∃ v ∈ Props.C03.b2.verts, v.left ≠ 0 ∧ v.trx.issuer ≠ v.signer :=
  ⟨Props.C03.v1, by decide, by decide, by decide⟩

end Props.C10
