import Proofs.DagComplete
import Proofs.LedgerDag
import Proofs.Conservation
import Properties.C03
import Proofs.Confirm
/-!
# C09 — the ledger is a well-formed DAG of self-authenticating vertices

For every reachable book (any sequence of genesis / proposals / gossip / orphan retries / trusted
toggles / truncations at any cut, including rejected and rolled-back additions and equal parents).
-/
namespace Props.C09
open CModel CModel.Book

/-- Every graph edge joins two distinct live vertices and comes from a parent the child declares:
no edge "from anything else". -/
theorem edges_only_from_declared_live_parents {b : Book} (r : Reachable b) (p c : Hash) (he : (p, c) ∈ b.edges) :
    b.hasVertex p = true ∧ p ≠ c ∧ ∃ v ∈ b.verts, v.hash = c ∧ (p = v.left ∨ p = v.right) := by
  obtain ⟨l1, _, l3⟩ := r.edgeInv.live (p, c) he
  exact ⟨l1, l3, r.edgeInv.declared (p, c) he⟩

/-- The graph is acyclic: there is a rank strictly increasing along every edge. -/
theorem acyclic {b : Book} (r : Reachable b) : ∃ rank : Hash → Nat, ∀ e ∈ b.edges, rank e.1 < rank e.2 :=
  r.edgeInv.acyclic

/-- Every vertex is stored under its own hash: a lookup by the hash of a live vertex returns it. -/
theorem keyed_by_own_hash {b : Book} (r : Reachable b) (v : Vertex) (hv : v ∈ b.verts) :
    b.getVertex v.hash = some v := by
  have hn := r.inv.idx.nodupV
  unfold getVertex
  cases hf : b.verts.find? (·.hash == v.hash) with
  | none =>
    have := List.find?_eq_none.1 hf v hv
    simp at this
  | some x =>
    have hx := List.mem_of_find?_eq_some hf
    have hxh : x.hash = v.hash := by simpa using List.find?_some hf
    rw [nodup_map_inj hn (List.mem_append_left _ hx) (List.mem_append_left _ hv) hxh]

/-- Hash and signatures of every live vertex verified when it was admitted (`vok` is the result of
`(*Vertex).verify` on the vertex' own content; C04 proves what that result means). -/
theorem every_live_vertex_verified {b : Book} (r : Reachable b) (v : Vertex) (hv : v ∈ b.verts) : v.vok = true :=
  r.inv.verified v hv

/-- A vertex created by this node references only tips that were valid at that moment, carries
weight max(parent weights) + 1 (in `UInt64`), is sealed by this node and wraps the proposed transaction. -/
theorem created_vertex_shape (b : Book) (trx : Trx) (o1 o2 : List Hash) (tip v : Vertex)
    (h : (b.createLeaf trx o1 o2 tip).2 = .ok v) :
    ∃ l r, ValidatedIn b l ∧ ValidatedIn b r ∧ v.left = l.hash ∧ v.right = r.hash ∧
      v.weight = calcNewWeight l.weight r.weight ∧ v.signer = b.self ∧ v.trx = trx :=
  createLeaf_parents_validated b trx o1 o2 tip v h

/-- `calcNewWeight` is max + 1 whenever that does not wrap (the guard the property needs is kept visible). -/
theorem weight_is_max_plus_one (l r : UInt64) (h : l.toNat < 18446744073709551615 ∧ r.toNat < 18446744073709551615) :
    (calcNewWeight l r).toNat = max l.toNat r.toNat + 1 := by
  unfold calcNewWeight
  split
  · rename_i hge
    simp only [ge_iff_le, UInt64.le_iff_toNat_le] at hge
    rw [UInt64.toNat_add]; simp only [UInt64.toNat_ofNat]; omega
  · rename_i hge
    simp only [ge_iff_le, UInt64.le_iff_toNat_le, Nat.not_le] at hge
    rw [UInt64.toNat_add]; simp only [UInt64.toNat_ofNat]; omega

/-- Non-vacuity: the reachable example ledger has the edge genesis → v1 and satisfies all of the above. -/
example : (1, 3) ∈ Props.C03.b2.edges ∧ Props.C03.b2.getVertex 3 = some Props.C03.v1 := by
  constructor <;> decide

/-- **Every declared parent that is still live has an edge; one that is not live has been checkpointed.**
For every reachable ledger (any history of proposals, gossip, orphan retries, trusted-node changes and
truncations at any cut) and every live vertex that declares parents (left parent ≠ the all-zero hash, Go's
`addedHash` sentinel — only the genesis vertex has it): each declared parent is either in the live DAG with
an edge to the vertex, or no longer live and present in the checkpointed storage. -/
theorem declared_parents_linked_or_checkpointed {b : Book} (r : Reachable b) (v : Vertex) (hv : v ∈ b.verts) (hl : v.left ≠ 0) :
    ∀ p ∈ [v.left, v.right],
      (b.hasVertex p = true ∧ (p, v.hash) ∈ b.edges) ∨ (b.hasVertex p = false ∧ b.cpHasVertex p = true) := by
  intro p hp
  have := r.dagComplete v hv hl
  simp only [List.mem_cons, List.mem_singleton, List.not_mem_nil, or_false] at hp
  rcases hp with rfl | rfl
  · exact this.1
  · exact this.2

/-- together with `edges_only_from_declared_live_parents`: the edge set of the live DAG is exactly
{(p, v) | v live, p a declared parent of v, p live} for vertices that declare parents -/
theorem edges_exact {b : Book} (r : Reachable b) (v : Vertex) (hv : v ∈ b.verts) (hl : v.left ≠ 0) (p : Hash)
    (hp : p = v.left ∨ p = v.right) : (p, v.hash) ∈ b.edges ↔ b.hasVertex p = true := by
  have h := declared_parents_linked_or_checkpointed r v hv hl p (by
    rcases hp with rfl | rfl <;> simp)
  constructor
  · intro he
    rcases h with ⟨h1, _⟩ | ⟨h1, _⟩
    · exact h1
    · exact (edges_only_from_declared_live_parents r p v.hash he).1
  · intro hlive
    rcases h with ⟨_, h2⟩ | ⟨h1, _⟩
    · exact h2
    · rw [hlive] at h1; cases h1

/-! ### which tips count as valid -/

/-- A tip that is not a root and moves no funds (or was sealed by a trusted node) passes `validateLeaf` only
while BOTH its declared parents are in the live DAG: once a parent has been truncated away the tip is a dead
end. -/
theorem dead_end_tip_is_not_valid (b : Book) (leaf : Vertex) (hok : b.validateLeaf leaf = .ok ())
    (hr : b.isRoot leaf.hash = false) (hc : leaf.trx.isSpice = false ∨ b.isTrusted leaf.signer = true) :
    b.hasVertex leaf.left = true ∧ b.hasVertex leaf.right = true := by
  unfold validateLeaf at hok
  split at hok; · cases hok
  split at hok; · cases hok
  rw [hr] at hok
  simp only [Bool.false_eq_true, if_false] at hok
  have hcond : (!leaf.trx.isSpice || b.isTrusted leaf.signer) = true := by
    rcases hc with h | h <;> simp [h]
  rw [if_pos hcond] at hok
  split at hok; · cases hok
  rename_i h1
  split at hok; · cases hok
  rename_i h2
  exact ⟨by simpa using h2, by simpa using h1⟩

/-- **A created vertex references only tips that were valid at that moment**: each parent of a vertex
`CreateLeaf` produced passed `validateLeaf` during that very call, in a book the call itself went through;
if that parent moves no funds and is not a root there, both ITS declared parents were live there - a tip
straddling a truncation cut is never built upon. -/
theorem created_only_on_valid_tips (b : Book) (trx : Trx) (o1 o2 : List Hash) (tip v : Vertex)
    (h : (b.createLeafLocked trx o1 o2 tip).2 = .ok v) :
    ∃ l r, v.left = l.hash ∧ v.right = r.hash ∧
      (∃ bm, Steps b bm ∧ l ∈ bm.verts ∧ bm.validateLeaf l = .ok () ∧
        (bm.isRoot l.hash = false → l.trx.isSpice = false → bm.hasVertex l.left = true ∧ bm.hasVertex l.right = true)) ∧
      (∃ bm, Steps b bm ∧ r ∈ bm.verts ∧ bm.validateLeaf r = .ok () ∧
        (bm.isRoot r.hash = false → r.trx.isSpice = false → bm.hasVertex r.left = true ∧ bm.hasVertex r.right = true)) := by
  obtain ⟨l, r, ⟨bl, sl, ml, vl⟩, ⟨br, sr, mr, vr⟩, el, er, _⟩ := createLeafLocked_parents_validated b trx o1 o2 tip v h
  exact ⟨l, r, el, er,
    ⟨bl, sl, ml, vl, fun hr hs => dead_end_tip_is_not_valid bl l vl hr (Or.inl hs)⟩,
    ⟨br, sr, mr, vr, fun hr hs => dead_end_tip_is_not_valid br r vr hr (Or.inl hs)⟩⟩

/-- Non-vacuity: vertex 9 moves no funds, its right parent 3 is live, its left parent 99 is not (truncated
away): it does not pass, while the same vertex over two live parents does. -/
def straddler : Vertex := ⟨9, "m", 99, 3, 2, ⟨10, "w", "y", ⟨0, 0⟩, true⟩, true⟩
def withStraddler : Book :=
  let b := Props.C03.b2.addTrusted "n"
  { b with verts := b.verts ++ [straddler], edges := b.edges ++ [(3, 9)] }
example : withStraddler.isRoot 9 = false ∧ straddler.trx.isSpice = false ∧
    (match withStraddler.validateLeaf straddler with | .error e => e | .ok _ => []) = [.leafRejected, .idUnknown] ∧
    (match withStraddler.validateLeaf { straddler with left := 3 } with | .error e => e | .ok _ => []) = [] := by
  refine ⟨?_, ?_, ?_, ?_⟩ <;> decide +kernel

end Props.C09
