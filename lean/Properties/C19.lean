import Proofs.MsgpackProofs
/-!
# C19 — vertices and transactions survive every transcoding unchanged

Storage / cache form: `CModel/Msgpack.lean` is the byte-level model of what the vmihailenco v4 encoder
emits and the shamaton v2 decoder accepts for `Melange`, `Transaction`, `Vertex` (compared byte for byte
and field for field with the real libraries on every run). Well-formedness (`WF`) only states what the Go
types guarantee: 64-bit integers, nanoseconds below 10^9, slice lengths below 2^32.
Wire form: the two mappers copy every field; the only conversion is the time stamp, which travels as
`uint64(UnixNano)` and comes back through `int64` — the identity on 64-bit words.
-/
namespace Props.C19
open CModel.Msgpack

/-- Decoding an encoded vertex gives back exactly that vertex: every field, signed or not, every byte
length (0, 1, 31..33, 255/256, 65535/65536, …), every 64-bit integer, every time stamp form. -/
theorem vertex_roundtrip (v : VertexW) (h : v.WF) : pVertex (encVertex v) = some (v, []) := by
  have := pVertex_enc v h []; simpa using this

theorem transaction_roundtrip (t : TrxW) (h : t.WF) : pTrx (encTrx t) = some (t, []) := by
  have := pTrx_enc t h []; simpa using this

theorem amount_roundtrip (m : MelangeW) (h : m.WF) : pMelange (encMelange m) = some (m, []) := by
  have := pMelange_enc m h []; simpa using this

/-- The encodings are self-delimiting: they round-trip in front of any suffix (values stored back to back). -/
theorem vertex_roundtrip_with_suffix (v : VertexW) (h : v.WF) (rest : Bytes) :
    pVertex (encVertex v ++ rest) = some (v, rest) := pVertex_enc v h rest

/-- Hence the encoding is injective: two different vertices never share a stored form. -/
theorem vertex_encoding_injective (v v' : VertexW) (h : v.WF) (h' : v'.WF) (he : encVertex v = encVertex v') : v = v' := by
  have a := vertex_roundtrip v h
  have b := vertex_roundtrip v' h'
  rw [he] at a
  rw [a] at b
  simpa using b

/-- nil and empty byte slices are kept apart by the codec (msgpack nil vs bin8 of length 0). -/
theorem nil_and_empty_distinct : encBin none ≠ encBin (some []) := by decide

/-- All three timestamp forms decode to the seconds / nanoseconds that were encoded. -/
theorem time_roundtrip (sec nsec : Nat) (hs : sec < 18446744073709551616) (hn : nsec < 1000000000) :
    pTime (encTime sec nsec) = some ((sec, nsec), []) := by
  have := pTime_enc sec nsec hs hn []; simpa using this

/-- Length headers: every length below 2^32 is carried exactly (str and bin families). -/
theorem str_roundtrip (s : Bytes) (h : s.length < 4294967296) : pStr (encStr s) = some (s, []) := by
  have := pStr_enc s h []; simpa using this

theorem bin_roundtrip (b : Option Bytes) (h : ∀ x, b = some x → x.length < 4294967296) : pBin (encBin b) = some (b, []) := by
  have := pBin_enc b h []; simpa using this

/-- Wire: the time stamp word is unchanged by `uint64 → int64 → uint64`. -/
theorem wire_time_identity (w : Nat) (h : w < 18446744073709551616) : wireTime w = w := by
  unfold wireTime; omega

/-- Non-vacuity: a concrete vertex with a 96-bit time stamp, nil data and an empty signature satisfies `WF`. -/
def sample : VertexW := ⟨[97], 17179869184, 1, some [], ⟨18446744073709551611, 7, [105], [114], [115], none, some [], some [9],
    List.replicate 32 0, ⟨1, 2⟩⟩, List.replicate 32 170, List.replicate 32 0, List.replicate 32 0, 18446744073709551615⟩

theorem sample_wf : sample.WF := by
  refine ⟨by decide, by decide, by decide, ?_, ⟨by decide, by decide, by decide, by decide, by decide, ?_, ?_, ?_, by decide, by decide, by decide⟩,
    by decide, by decide, by decide, by decide⟩
  all_goals (intro x hx; cases hx <;> first | decide | skip)

example : pVertex (encVertex sample) = some (sample, []) := vertex_roundtrip sample sample_wf

end Props.C19
