import Proofs.AwaitProofs
/-!
# C17 — the awaiting-transaction index never loses or invents entries

Model: `CModel/AwaitCache.lean` (cache.go over an atomic key→bytes store, per-address lists at the
token level, including the run of empty tokens `remove` produces). With the mutex of the `fix:`
commit each of the three operations is atomic, so every concurrent execution is a sequence of these
operations in some order: the sequential theorems below are the concurrent statement. The
interleaving that the former, unlocked code allowed is kept as a witness.
-/
namespace Props.C17
open CModel.AwaitCache CModel.AwaitCache.Store

/-- After **any** sequence of operations: every stored transaction is listed for its issuer and its
receiver, and nothing else is listed. -/
theorem index_exact (ops : List Op) :
    let s := ops.foldl apply {}
    (∀ h t, s.getTrx h = some t →
      (∃ v, s.getList t.issuer = some v ∧ some h ∈ v) ∧ (∃ v, s.getList t.receiver = some v ∧ some h ∈ v)) ∧
    (∀ a v h, s.getList a = some v → some h ∈ v → ∃ t, s.getTrx h = some t ∧ (t.issuer = a ∨ t.receiver = a)) :=
  ⟨(IdxInv.all_sequences ops).listedBoth, (IdxInv.all_sequences ops).nothingElse⟩

/-- A listing returns exactly the awaiting transactions in which the address takes part. -/
theorem listing_exact (ops : List Op) (a : Addr) (l : List ATrx)
    (h : ((ops.foldl apply {}).read a).2 = some l) :
    ∀ t, t ∈ l ↔ (ops.foldl apply {}).getTrx t.hash = some t ∧ (t.issuer = a ∨ t.receiver = a) :=
  read_exact (IdxInv.all_sequences ops) a l h

/-- "Not found" means nothing is awaiting for that address. -/
theorem empty_listing_exact (ops : List Op) (a : Addr) (h : ((ops.foldl apply {}).read a).2 = none) :
    ∀ t, (ops.foldl apply {}).getTrx t.hash = some t → t.issuer ≠ a ∧ t.receiver ≠ a :=
  read_none (IdxInv.all_sequences ops) a h

/-- A saved transaction is listed for both parties. -/
theorem saved_is_listed (s : Store) (t : ATrx) (h : (s.save t).2 = none) :
    (s.save t).1.getTrx t.hash = some t ∧
    (∃ v, (s.save t).1.getList t.issuer = some v ∧ some t.hash ∈ v) ∧
    (∃ v, (s.save t).1.getList t.receiver = some v ∧ some t.hash ∈ v) := save_ok_lists s t h

/-- Removal by the receiver takes it off both lists … -/
theorem receiver_removes (s : Store) (h : Hash) (a : Addr) (t : ATrx) (ht : s.getTrx h = some t) (hr : t.receiver = a) :
    (s.remove h a).2 = none ∧ (s.remove h a).1.getTrx h = none ∧
    (∀ v, (s.remove h a).1.getList t.issuer = some v → some h ∉ v) ∧
    (∀ v, (s.remove h a).1.getList t.receiver = some v → some h ∉ v) := remove_ok_unlists s h a t ht hr

/-- … and nobody else can remove it. -/
theorem only_receiver_removes (s : Store) (h : Hash) (a : Addr) (t : ATrx) (ht : s.getTrx h = some t)
    (hne : t.receiver ≠ a) : s.remove h a = (s, some .unauthorized) := remove_by_non_receiver s h a t ht hne

/-- Why the lock is needed: two unlocked saves for one receiver interleaved get₁ get₂ set₁ set₂ lose
the first hash; the atomic execution keeps both. -/
theorem unlocked_loses_update :
    let s0 : Store := { lists := [("r", [some 1])] }
    (interleavedGetGetSetSet s0 "r" 2 3).getList "r" = some [some 1, some 3] := unlocked_interleaving_loses_update

theorem locked_keeps_both :
    let s0 : Store := { lists := [("r", [some 1])] }
    ((s0.save ⟨2, "i", "r"⟩).1.save ⟨3, "j", "r"⟩).1.getList "r" = some [some 1, some 2, some 3] := locked_saves_keep_both

end Props.C17
