import CModel.WalletFile
import CModel.Generated.Consts
/-!
# C20 — a wallet file yields the original wallet or an error, never anything else

Statements are about `decrypt` of the ideal-AEAD model (the GOB layer is applied to the plaintext
afterwards: identical plaintext ⇒ identical wallet). `checked = true` is today's source (after the
`fix:` commit); the former behaviour is kept as `checked = false` to show what the fix removed.
-/
namespace Props.C20
open CModel.WalletFile

/-- Round trip: the saved file opens under the saving key and yields exactly the saved plaintext. -/
theorem roundtrip (w : World) (hk : validKeyLen w.key = true) : w.decrypt true w.key w.file = .ok w.plain := by
  unfold World.decrypt World.file
  have hl : ¬ (w.nonce ++ w.ct).length < nonceSize := by rw [List.length_append, w.nonceLen]; omega
  have h1 : (w.nonce ++ w.ct).take nonceSize = w.nonce := by rw [← w.nonceLen, List.take_left]
  have h2 : (w.nonce ++ w.ct).drop nonceSize = w.ct := by rw [← w.nonceLen, List.drop_left]
  simp only [hk, Bool.not_true, Bool.false_eq_true, if_false, hl, h1, h2, World.open, and_self, if_true]

/-- Any other key gives an error. -/
theorem wrong_key_is_error (w : World) (k : Bytes) (hk : k ≠ w.key) (data : Bytes) :
    w.decrypt true k data = .err := by
  unfold World.decrypt
  split
  · rfl
  · split
    · rfl
    · simp [World.open, hk]

/-- Any file other than the saved one — every truncation, every corruption, any garbage — gives an
error under any key: never a different wallet, never a crash. -/
theorem modified_file_is_error (w : World) (k data : Bytes) (hd : data ≠ w.file) :
    w.decrypt true k data = .err := by
  unfold World.decrypt
  split
  · rfl
  · split
    · rfl
    · rename_i hlen
      have : ¬ (data.take nonceSize = w.nonce ∧ data.drop nonceSize = w.ct) := by
        rintro ⟨h1, h2⟩
        apply hd
        unfold World.file
        rw [← h1, ← h2, List.take_append_drop]
      simp only [World.open]
      split
      · rename_i hop
        split at hop
        · rename_i hc; exact absurd ⟨hc.2.1, hc.2.2⟩ this
        · cases hop
      · rfl

/-- The decrypt step never panics for any key and any data. -/
theorem never_panics (w : World) (k data : Bytes) : w.decrypt true k data ≠ .panic := by
  unfold World.decrypt
  split
  · simp
  · split
    · simp
    · split <;> simp

/-- What the `fix:` commit removed: without the length check every file shorter than the nonce panics. -/
theorem unchecked_short_file_panics (w : World) (k data : Bytes) (hk : validKeyLen k = true)
    (hs : data.length < nonceSize) : w.decrypt false k data = .panic := by
  unfold World.decrypt; simp [hk, hs]

/-- Generated obligation: the nonce size of the model is the one in today's source. -/
theorem gen_nonceSize : CModel.Generated.aeswrapper_nonceSize = nonceSize := by decide

/-- Non-vacuity. -/
example : ({ key := List.replicate 32 1, nonce := List.replicate 12 2, plain := [9], ct := [7, 7],
             nonceLen := by decide } : World).decrypt true (List.replicate 32 1) (List.replicate 12 2 ++ [7, 7]) = .ok [9] := by
  decide

end Props.C20
