import Proofs.TxProofs
import Proofs.Base58
/-!
# C04 — tamper evidence of vertices and transactions

Model: `CModel/Tx.lean` — the two signed byte layouts (`trxMessage`, `vertexData`), `Verify`
(`verifyMsg`), `(*Vertex).verify` (`verifyVertex`) and the vertex-only part of AddLeaf (`ingressGate`).
SHA-256 and address decoding are parameters `o : Ops`; ed25519 is symbolic (`Sig.honest key digest`
verifies under exactly that key and digest — existential unforgeability and signature uniqueness are the
cryptographic assumptions, stated here as the definition of `sigValid`). A hash collision is the only
cryptographic escape, so every theorem takes "this pair of messages is not a collision" as an explicit
hypothesis about the *two messages at hand* (satisfiable, unlike global injectivity of a hash).

The driver runs the same definitions with the executable SHA-256/base58check of `CModel/Sha256.lean`
on every mutant the harness builds from real vertices and compares the verdict with the real code.

Result: the property holds for every fixed-width signed field, for all signatures and for the
concatenation of the variable-width transaction fields; it is *false* for (a) bytes moved across the
subject|data boundary and (b) removal of the receiver's signature — both refuted below with general
witnesses, reproduced on the real code by the harness, and recorded as known findings.
-/
namespace Props.C04
open CModel.Tx

/-- Admission implies verification: a vertex that passes the ingress gate carries a transaction digest
equal to the hash of *its own* message, an issuer signature by the key its issuer address decodes to,
(if present) a receiver signature by the receiver's key, a vertex digest equal to the hash of its own
vertex data and a sealing signature by the key of its signer address; and the sealer is not the issuer. -/
theorem admitted_only_if_everything_verifies (o : Ops) (g : Bytes) (v : VertexB) (h : ingressGate o g v = .pass) :
    v.trx.issuer ≠ v.signer ∧
    o.H (trxMessage v.trx) = v.trx.hash ∧
    (∃ k, o.addrKey v.trx.issuer = some k ∧ k.length = 32 ∧ v.trx.isig = .honest k v.trx.hash) ∧
    (v.trx.rsig.isEmpty = false → ∃ k, o.addrKey v.trx.receiver = some k ∧ k.length = 32 ∧ v.trx.rsig = .honest k v.trx.hash) ∧
    o.H (vertexData v) = v.hash ∧
    (∃ k, o.addrKey v.signer = some k ∧ k.length = 32 ∧ v.sig = .honest k v.hash) := by
  unfold ingressGate at h
  by_cases h1 : v.trx.issuer = v.signer
  · simp [h1] at h
  · rw [if_neg (by simpa using h1)] at h
    split at h; · cases h
    split at h; · cases h
    split at h; · cases h
    split at h; · cases h
    rename_i hv
    have hv : verifyVertex o v = true := by simpa using hv
    unfold verifyVertex at hv
    rw [Bool.and_eq_true] at hv
    obtain ⟨ht, hs⟩ := hv
    obtain ⟨hs1, hs2⟩ := verifyMsg_true hs
    refine ⟨h1, ?_, ?_, ?_, hs1, hs2⟩
    · by_cases hr : v.trx.rsig.isEmpty = true
      · simp only [hr, Bool.not_true, Bool.false_eq_true, ↓reduceIte] at ht
        exact (verifyMsg_true ht).1
      · simp only [hr, Bool.not_false, ↓reduceIte, verifyIssuerReceiver, Bool.and_eq_true] at ht
        exact (verifyMsg_true ht.1).1
    · by_cases hr : v.trx.rsig.isEmpty = true
      · simp only [hr, Bool.not_true, Bool.false_eq_true, ↓reduceIte] at ht
        exact (verifyMsg_true ht).2
      · simp only [hr, Bool.not_false, ↓reduceIte, verifyIssuerReceiver, Bool.and_eq_true] at ht
        exact (verifyMsg_true ht.1).2
    · intro hr
      simp only [hr, Bool.not_false, ↓reduceIte, verifyIssuerReceiver, Bool.and_eq_true] at ht
      exact (verifyMsg_true ht.2).2

/-- Vertex level: two verifying vertices that carry the same sealing signature agree on the vertex hash,
the transaction hash, both parents, the creation time, the weight and the sealing key — unless their
vertex data are a SHA-256 collision. Changing any of these fields of a valid vertex therefore makes
`verify` fail. -/
theorem vertex_fields_tamper_evident (o : Ops) (v v' : VertexB) (wf : v.WF) (wf' : v'.WF)
    (hv : verifyVertex o v = true) (hv' : verifyVertex o v' = true) (hsig : v'.sig = v.sig)
    (nocoll : o.H (vertexData v) = o.H (vertexData v') → vertexData v = vertexData v') :
    v'.hash = v.hash ∧ v'.trx.hash = v.trx.hash ∧ v'.left = v.left ∧ v'.right = v.right ∧
    v'.created = v.created ∧ v'.weight = v.weight ∧ o.addrKey v'.signer = o.addrKey v.signer := by
  unfold verifyVertex at hv hv'
  rw [Bool.and_eq_true] at hv hv'
  obtain ⟨hH, k, hk, _, hs⟩ := verifyMsg_true hv.2
  obtain ⟨hH', k', hk', _, hs'⟩ := verifyMsg_true hv'.2
  rw [hsig, hs] at hs'
  injection hs' with ek eh
  have e := nocoll (by rw [hH, hH', eh])
  obtain ⟨a, b, c, d, f⟩ := vertexData_inj wf wf' e
  exact ⟨eh.symm, a.symm, b.symm, c.symm, d.symm, f.symm, by rw [hk, hk', ek]⟩

/-- Transaction level: two transactions that verify under the same issuer signature agree on the hash,
the three signed words (time, currency, supplementary currency), the issuer key and the *concatenation*
subject‖data‖issuer‖receiver — unless their messages are a SHA-256 collision. -/
theorem trx_words_tamper_evident (o : Ops) (t t' : TrxB) (wf : t.WF) (wf' : t'.WF)
    (hv : verifyIssuer o t = true) (hv' : verifyIssuer o t' = true) (hsig : t'.isig = t.isig)
    (nocoll : o.H (trxMessage t) = o.H (trxMessage t') → trxMessage t = trxMessage t') :
    t'.hash = t.hash ∧ t'.created = t.created ∧ t'.cur = t.cur ∧ t'.supp = t.supp ∧
    o.addrKey t'.issuer = o.addrKey t.issuer ∧
    t'.subject ++ t'.data ++ t'.issuer ++ t'.receiver = t.subject ++ t.data ++ t.issuer ++ t.receiver := by
  obtain ⟨hH, k, hk, _, hs⟩ := verifyMsg_true hv
  obtain ⟨hH', k', hk', _, hs'⟩ := verifyMsg_true hv'
  rw [hsig, hs] at hs'
  injection hs' with ek eh
  have e := nocoll (by rw [hH, hH', eh])
  obtain ⟨a, b, c, d⟩ := trxMessage_inj_words wf wf' e
  exact ⟨eh.symm, b.symm, c.symm, d.symm, by rw [hk, hk', ek], a.symm⟩

/-- … and on every single field when the field boundaries did not move (any bit flip, any in-place
replacement, any swap of a field with that of another transaction of the same width). -/
theorem trx_fields_tamper_evident (o : Ops) (t t' : TrxB) (wf : t.WF) (wf' : t'.WF)
    (hv : verifyIssuer o t = true) (hv' : verifyIssuer o t' = true) (hsig : t'.isig = t.isig)
    (nocoll : o.H (trxMessage t) = o.H (trxMessage t') → trxMessage t = trxMessage t')
    (ls : t.subject.length = t'.subject.length) (ld : t.data.length = t'.data.length)
    (li : t.issuer.length = t'.issuer.length) :
    t'.subject = t.subject ∧ t'.data = t.data ∧ t'.issuer = t.issuer ∧ t'.receiver = t.receiver ∧
    t'.created = t.created ∧ t'.cur = t.cur ∧ t'.supp = t.supp ∧ t'.hash = t.hash := by
  obtain ⟨hH, k, hk, _, hs⟩ := verifyMsg_true hv
  obtain ⟨hH', k', hk', _, hs'⟩ := verifyMsg_true hv'
  rw [hsig, hs] at hs'
  injection hs' with ek eh
  have e := nocoll (by rw [hH, hH', eh])
  obtain ⟨a, b, c, d, f, g, i⟩ := trxMessage_inj wf wf' e ls ld li
  exact ⟨a.symm, b.symm, c.symm, d.symm, f.symm, g.symm, i.symm, eh.symm⟩

/-- Corrupting a signature (any value other than the one that verifies) is always detected: at most one
signature value verifies for a given message, digest and address. -/
theorem signature_unique (o : Ops) (msg hash addr : Bytes) (s s' : Sig)
    (h : verifyMsg o msg s hash addr = true) (h' : verifyMsg o msg s' hash addr = true) : s' = s := by
  obtain ⟨_, k, hk, _, hs⟩ := verifyMsg_true h
  obtain ⟨_, k', hk', _, hs'⟩ := verifyMsg_true h'
  rw [hk] at hk'; cases hk'; rw [hs, hs']

theorem corrupted_vertex_signature_rejected (o : Ops) (v : VertexB) (s : Sig) (hv : verifyVertex o v = true)
    (hs : s ≠ v.sig) : verifyVertex o { v with sig := s } = false := by
  cases hc : verifyVertex o { v with sig := s } with
  | false => rfl
  | true =>
    unfold verifyVertex at hv hc
    rw [Bool.and_eq_true] at hv hc
    exact absurd (signature_unique o _ _ _ _ _ hv.2 hc.2) hs

theorem corrupted_issuer_signature_rejected (o : Ops) (t : TrxB) (s : Sig) (hv : verifyIssuer o t = true)
    (hs : s ≠ t.isig) : verifyIssuer o { t with isig := s } = false := by
  cases hc : verifyIssuer o { t with isig := s } with
  | false => rfl
  | true => exact absurd (signature_unique o _ _ _ _ _ hv hc) hs

/-- A *corrupted* (present but wrong) receiver signature is detected. -/
theorem corrupted_receiver_signature_rejected (o : Ops) (v : VertexB) (s : Sig) (hv : verifyVertex o v = true)
    (hne : v.trx.rsig.isEmpty = false) (hs : s ≠ v.trx.rsig) (hse : s.isEmpty = false) :
    verifyVertex o { v with trx := { v.trx with rsig := s } } = false := by
  cases hc : verifyVertex o { v with trx := { v.trx with rsig := s } } with
  | false => rfl
  | true =>
    unfold verifyVertex at hv hc
    rw [Bool.and_eq_true] at hv hc
    simp only [hne, hse, Bool.not_false, ↓reduceIte, verifyIssuerReceiver, Bool.and_eq_true] at hv hc
    exact absurd (signature_unique o _ _ _ _ _ hv.1.2 hc.1.2) hs

/-- An address that does not decode, or decodes to a key of the wrong size, never verifies anything. -/
theorem undecodable_address_rejected (o : Ops) (msg hash addr : Bytes) (s : Sig)
    (h : o.addrKey addr = none ∨ ∃ k, o.addrKey addr = some k ∧ k.length ≠ 32) : verifyMsg o msg s hash addr = false := by
  cases hc : verifyMsg o msg s hash addr with
  | false => rfl
  | true =>
    obtain ⟨_, k, hk, hl, _⟩ := verifyMsg_true hc
    rcases h with h | ⟨k', hk', hl'⟩
    · rw [h] at hk; cases hk
    · rw [hk'] at hk; cases hk; exact absurd hl hl'

/-! ## Addresses: one text per key

`realOps.addrKey` is the executable base58check decoder of `CModel/Sha256.lean` (compared with the
implementation on every address the harness builds). Since fix e7471a1 pins the version byte, decoding is
injective: a sealing-node (or issuer, or receiver) address cannot be replaced by another text that names the
same key. This is what makes "issuer ≠ sealer" (C10), which compares address texts, a statement about wallets. -/

/-- two address texts that decode to the same key are the same text -/
theorem one_address_per_key (a a' : String) (k : Bytes) (h : CModel.Crypto.addressToPubKey a = some k)
    (h' : CModel.Crypto.addressToPubKey a' = some k) : a = a' :=
  String.toList_inj.mp (CModel.Crypto.addressToPubKeyC_inj a.toList a'.toList k h h')

theorem char_ofNat_byte : ∀ n : Fin 256, (Char.ofNat n.val).toNat = n.val := by decide +kernel

/-- in the executable instance: equal keys ⇒ equal address bytes -/
theorem realOps_address_injective (a a' : Bytes) (k : Bytes) (h : realOps.addrKey a = some k) (h' : realOps.addrKey a' = some k) :
    a = a' := by
  have e := one_address_per_key _ _ k h h'
  have e2 := congrArg String.toList e
  simp only [String.toList_ofList] at e2
  -- byte → char is injective
  have inj : ∀ (x y : List UInt8), x.map (fun b => Char.ofNat b.toNat) = y.map (fun b => Char.ofNat b.toNat) → x = y := by
    intro x
    induction x with
    | nil => intro y hy; cases y with | nil => rfl | cons _ _ => simp at hy
    | cons b bs ih =>
      intro y hy
      cases y with
      | nil => simp at hy
      | cons c cs =>
        simp only [List.map_cons, List.cons.injEq] at hy
        have hb : b = c := by
          have h1 := congrArg Char.toNat hy.1
          have r1 := char_ofNat_byte ⟨b.toNat, b.toNat_lt⟩
          have r2 := char_ofNat_byte ⟨c.toNat, c.toNat_lt⟩
          simp only at r1 r2
          rw [r1, r2] at h1
          exact UInt8.toNat_inj.mp h1
        rw [hb, ih cs hy.2]
  exact inj a a' e2

/-- hence different address texts are different wallets: the ledger's "issuer ≠ sealer" comparison of
address texts (C10) is a comparison of keys -/
theorem different_addresses_different_keys (a a' k k' : Bytes) (h : realOps.addrKey a = some k) (h' : realOps.addrKey a' = some k')
    (hne : a ≠ a') : k ≠ k' := fun e => hne (realOps_address_injective a a' k h (e ▸ h'))

/-- with one text per key the sealing-node address is tamper-evident as well: two verifying vertices that
share the sealing signature name the same sealing address (cf. `vertex_fields_tamper_evident`) -/
theorem signer_address_tamper_evident (v v' : VertexB) (wf : v.WF) (wf' : v'.WF)
    (hv : verifyVertex realOps v = true) (hv' : verifyVertex realOps v' = true) (hsig : v'.sig = v.sig)
    (nocoll : realOps.H (vertexData v) = realOps.H (vertexData v') → vertexData v = vertexData v') :
    v'.signer = v.signer := by
  have hk := (vertex_fields_tamper_evident realOps v v' wf wf' hv hv' hsig nocoll).2.2.2.2.2.2
  unfold verifyVertex at hv
  rw [Bool.and_eq_true] at hv
  obtain ⟨_, k, hk1, _, _⟩ := verifyMsg_true hv.2
  rw [hk1] at hk
  exact realOps_address_injective _ _ k hk hk1

/-! ## Refutations (the property is false of the code for these two mutation classes) -/

/-- FINDING `boundary-shift-subject-data`: the signed message has no length prefixes, so a byte moved
from the front of `data` to the end of `subject` leaves message, hash and signatures valid. -/
theorem boundary_shift_same_message (t : TrxB) (b : UInt8) (rest : Bytes) (hd : t.data = b :: rest) :
    trxMessage { t with subject := t.subject ++ [b], data := rest } = trxMessage t := by
  simp [trxMessage, hd]

theorem boundary_shift_still_verifies (o : Ops) (v : VertexB) (b : UInt8) (rest : Bytes) (hd : v.trx.data = b :: rest)
    (hv : verifyVertex o v = true) :
    verifyVertex o { v with trx := { v.trx with subject := v.trx.subject ++ [b], data := rest } } = true := by
  have e := boundary_shift_same_message v.trx b rest hd
  unfold verifyVertex verifyIssuer verifyIssuerReceiver at *
  simp only [e]
  exact hv

/-- … and it is admitted by the ingress gate whenever the original was (if something is left that keeps
the transaction non-empty). -/
theorem boundary_shift_admitted (o : Ops) (g : Bytes) (v : VertexB) (b : UInt8) (rest : Bytes) (hd : v.trx.data = b :: rest)
    (hne : rest ≠ [] ∨ v.trx.cur ≠ 0 ∨ v.trx.supp ≠ 0) (hp : ingressGate o g v = .pass) :
    ingressGate o g { v with trx := { v.trx with subject := v.trx.subject ++ [b], data := rest } } = .pass := by
  have hv : verifyVertex o v = true := by
    unfold ingressGate at hp
    split at hp; · cases hp
    split at hp; · cases hp
    split at hp; · cases hp
    split at hp; · cases hp
    split at hp; · cases hp
    rename_i h; simpa using h
  have hv' := boundary_shift_still_verifies o v b rest hd hv
  unfold ingressGate at hp ⊢
  split at hp; · cases hp
  rename_i h1
  split at hp; · cases hp
  split at hp; · cases hp
  rename_i h3
  split at hp; · cases hp
  rename_i h4
  have e : (rest.isEmpty && v.trx.cur == 0 && v.trx.supp == 0) = false := by
    rcases hne with h | h | h
    · cases rest with
      | nil => exact absurd rfl h
      | cons _ _ => simp
    · simp [h]
    · simp [h]
  simp only [h1, e, h3, h4, hv']
  simp

/-- FINDING `receiver-signature-strip`: `verify` checks the receiver's signature only when it is present,
and nothing signed says whether it should be: stripping it from a countersigned vertex keeps it valid. -/
theorem receiver_strip_still_verifies (o : Ops) (v : VertexB) (hv : verifyVertex o v = true) :
    verifyVertex o { v with trx := { v.trx with rsig := .other [] } } = true := by
  unfold verifyVertex at *
  rw [Bool.and_eq_true] at hv ⊢
  refine ⟨?_, hv.2⟩
  by_cases hr : v.trx.rsig.isEmpty = true
  · simp only [hr, Bool.not_true, Bool.false_eq_true, ↓reduceIte] at hv
    simpa [Sig.isEmpty, verifyIssuer, trxMessage] using hv.1
  · simp only [hr, Bool.not_false, ↓reduceIte, verifyIssuerReceiver, Bool.and_eq_true] at hv
    simpa [Sig.isEmpty, verifyIssuer, trxMessage] using hv.1.1

/-! ## Non-vacuity: a concrete verifying, admitted vertex under a toy `Ops` -/

def toyOps : Ops where
  H := fun m => (List.replicate 31 (0 : UInt8)) ++ [UInt8.ofNat (m.foldl (fun a b => (a * 7 + b.toNat + 1) % 256) 0)]
  addrKey := fun a => if a.length = 2 then some (List.replicate 31 0 ++ a.take 1) else none

def toyTrx : TrxB :=
  let t : TrxB := ⟨[1, 2], [3], [7, 7], [8, 8], 5, 1, 0, [], .other [], .other []⟩
  let h := toyOps.H (trxMessage t)
  { t with hash := h, isig := .honest (List.replicate 31 0 ++ [7]) h, rsig := .honest (List.replicate 31 0 ++ [8]) h }

def toyVertex : VertexB :=
  let z := List.replicate 32 (0 : UInt8)
  let v : VertexB := ⟨[9, 9], 6, 51, z, z, [], .other [], toyTrx⟩
  let h := toyOps.H (vertexData v)
  { v with hash := h, sig := .honest (List.replicate 31 0 ++ [9]) h }

example : ingressGate toyOps [] toyVertex = .pass := by decide +kernel
example : toyVertex.WF := ⟨by decide, by decide, by decide, by decide, by decide⟩
example : ingressGate toyOps [] { toyVertex with weight := 52 } = .rejected := by decide +kernel
example : ingressGate toyOps [] { toyVertex with trx := { toyTrx with cur := 2 } } = .rejected := by decide +kernel
/-- the two findings, on the concrete vertex -/
example : ingressGate toyOps [] { toyVertex with trx := { toyTrx with subject := [1, 2, 3], data := [] } } = .pass := by decide +kernel
example : ingressGate toyOps [] { toyVertex with trx := { toyTrx with rsig := .other [] } } = .pass := by decide +kernel

end Props.C04
