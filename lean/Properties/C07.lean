import Proofs.TruncBalance
import Proofs.TruncFunds
import Proofs.Reachable
import Properties.C03
import Properties.C06
import CModel.Generated.Consts
/-!
# C07 — truncation is transparent

`truncateAt b cut` is the model of `truncate` once the cut vertex is known (the cut the code picks,
"the 1000th vertex of a breadth-first walk from some tip", is checked by the correspondence driver
through `cutAdmissible`; the theorems hold for *any* cut). `Reachable` contains truncation as a
constructor, so every C01/C03/C06/C10 theorem already covers ledgers before, between and after
(repeated) truncations; this file adds what is specific to the truncation step.
-/
namespace Props.C07
open CModel CModel.Book CModel.Melange

/-- Exactly the strict ancestors of the cut move to storage, each once; the rest stays; the index
is untouched; a failing truncation changes nothing. -/
theorem moved_set {b : Book} {cut : Hash} (h : (b.truncateAt cut).2 = .ok ()) :
    ∃ mv, mv.map (·.hash) = b.ancestors cut ∧ (∀ v ∈ mv, v ∈ b.verts) ∧
      (b.truncateAt cut).1.cpVerts = b.cpVerts ++ mv ∧
      (b.truncateAt cut).1.verts = b.verts.filter (fun v => !(b.ancestors cut).contains v.hash) ∧
      (b.truncateAt cut).1.index = b.index := by
  obtain ⟨mv, e1, e2, _, e4, e5, e6, _⟩ := truncateAt_ok h
  exact ⟨mv, e1, e2, e4, e5, e6⟩

theorem failed_truncation_is_noop {b : Book} {cut : Hash} {e : CModel.Err} (h : (b.truncateAt cut).2 = .error e) :
    (b.truncateAt cut).1 = b := truncateAt_err h

/-- No vertex or transaction is lost or duplicated: live DAG + storage hold the same vertices. -/
theorem nothing_lost {b : Book} (r : Reachable b) (cut : Hash) (v : Vertex) :
    v ∈ (b.truncateAt cut).1.verts ++ (b.truncateAt cut).1.cpVerts ↔ v ∈ b.verts ++ b.cpVerts :=
  mem_allV_truncate r.inv.idx cut v

/-- Each stays retrievable by hash with identical content. -/
theorem vertex_still_readable {b : Book} (r : Reachable b) (cut : Hash) (v : Vertex) (hv : v ∈ b.verts ++ b.cpVerts) :
    (b.truncateAt cut).1.readVertex v.hash = some v :=
  readVertex_after_truncate r.inv.idx cut v hv

theorem transaction_still_readable {b : Book} (r : Reachable b) (cut : Hash) (v : Vertex) (hv : v ∈ b.verts ++ b.cpVerts) :
    (b.truncateAt cut).1.readTrxByHash v.trx.hash = some v.trx := by
  have r' : Reachable (b.truncateAt cut).1 := Reachable.truncate cut r
  have hv' := (nothing_lost r cut v).2 hv
  unfold readTrxByHash
  rw [Props.C03.index_exact r' v hv']
  simp only
  rw [vertex_still_readable r cut v hv]
  rfl

/-- Re-submission of a checkpointed vertex or transaction keeps being rejected. -/
theorem checkpointed_vertex_rejected {b : Book} (r : Reachable b) (cut : Hash) (v : Vertex) (hv : v ∈ b.verts ++ b.cpVerts) :
    ((b.truncateAt cut).1.addLeaf v).1 = (b.truncateAt cut).1 ∧ ∃ e, ((b.truncateAt cut).1.addLeaf v).2 = .error e := by
  apply Props.C03.readd_rejected
  have hv' := (nothing_lost r cut v).2 hv
  unfold checkVertexExists hasVertex cpHasVertex
  rcases List.mem_append.1 hv' with h | h
  · simp only [Bool.or_eq_true, List.any_eq_true, beq_iff_eq]; exact Or.inl ⟨v, h, rfl⟩
  · simp only [Bool.or_eq_true, List.any_eq_true, beq_iff_eq]; exact Or.inr ⟨v, h, rfl⟩

theorem checkpointed_transaction_rejected {b : Book} (r : Reachable b) (cut : Hash) (v : Vertex) (hv : v ∈ b.verts ++ b.cpVerts)
    (o1 o2 : List Hash) (tip : Vertex) :
    ((b.truncateAt cut).1.createLeaf v.trx o1 o2 tip).1 = (b.truncateAt cut).1 := by
  have r' : Reachable (b.truncateAt cut).1 := Reachable.truncate cut r
  have hv' := (nothing_lost r cut v).2 hv
  have := r'.inv.idx.holders v hv'
  exact (Props.C03.resubmit_transaction_rejected _ v.trx o1 o2 tip (by
    unfold indexHas; simp only [List.any_eq_true, beq_iff_eq]; exact ⟨_, this, rfl⟩)).1

/-- Uniqueness survives: also across repeated truncations (`Reachable` is closed under them). -/
theorem uniqueness_survives {b : Book} (r : Reachable b) (cut : Hash) :
    (((b.truncateAt cut).1.verts ++ (b.truncateAt cut).1.cpVerts).map (·.hash)).Nodup ∧
    (((b.truncateAt cut).1.verts ++ (b.truncateAt cut).1.cpVerts).map (·.trx.hash)).Nodup :=
  ⟨Props.C03.no_duplicate_vertex (Reachable.truncate cut r), Props.C03.no_duplicate_transaction (Reachable.truncate cut r)⟩

/-- Checkpointed funds stay canonical, so the exactness theorems of C01/C06 keep applying with the
checkpoint included (`cpVal`). -/
theorem funds_stay_canonical {b : Book} (r : Reachable b) (cut : Hash) : FundsOK (b.truncateAt cut).1 :=
  (Reachable.truncate cut r).fundsOK

/-- **The checkpoint is the net flow.** After a successful truncation of any reachable ledger at any cut,
the funds stored for wallet `a` are exactly what was checkpointed before plus everything `a` received minus
everything `a` spent in the moved vertices — whenever that amount is representable and not negative (the
two excluded cases are the recorded findings: a net debt is clipped to 0 (only the genesis issuer can have
one), an accumulated inflow beyond 2^64 currency units overflows). -/
theorem checkpoint_is_net_flow {b : Book} (r : Reachable b) (cut : Hash) (h : (b.truncateAt cut).2 = .ok ()) :
    ∃ mv, (b.truncateAt cut).1.cpVerts = b.cpVerts ++ mv ∧ mv.map (·.hash) = b.ancestors cut ∧
      ∀ a, cpVal b a + inflow a mv < Melange.capacity → outflow a mv < Melange.capacity →
        outflow a mv ≤ cpVal b a + inflow a mv →
        cpVal (b.truncateAt cut).1 a + outflow a mv = cpVal b a + inflow a mv := by
  obtain ⟨mv, hh, hin, _, hcv, _, _, hcp, _⟩ := truncateAt_ok h
  refine ⟨mv, hcv, hh, fun a h1 h2 h3 => ?_⟩
  have hcanon : ∀ v ∈ mv, Melange.Canon v.trx.spice := fun v hv =>
    (canonB_iff _).1 (r.inv.canon v (List.mem_append_left _ (hin v hv)))
  have hcpc : ∀ e ∈ b.cpFunds, Melange.Canon e.2 := fun e he => (canonB_iff _).1 (r.inv.cpCanon e he)
  have := (newCpFunds_exact b mv a r.cpKeys hcpc hcanon h1 h2 h3).1
  unfold cpVal cpFundsGet
  rw [hcp]
  exact this

/-- Hence the sum every later balance and fund check starts from is unchanged by the truncation for a wallet
whose moved history is fully accounted: `checkpoint' = checkpoint + in − out` is what C01/C06 add the
remaining (live) flows to. Non-vacuity: a book with one checkpoint entry. -/
example : cpVal { self := "n", cpFunds := [("w", ⟨5, 0⟩)] } "w" = 5000000000000000000 := by decide

/-- **Truncation changes no balance seen from a tip that descends from the cut.** For any reachable ledger,
any cut, any tip `t` that is the cut itself or a descendant of it, any wallet `a`: if the balance query from
`t` succeeds before and after the truncation, both report the same amount — provided the wallet's net flow over
the moved vertices is not negative (otherwise the checkpoint is clipped: the recorded genesis-issuer finding).
(For a tip that does NOT descend from the cut the statement is false: recorded finding
`stale-tip-credited-with-foreign-checkpoint`.) -/
theorem balance_unchanged_above_cut {b : Book} (r : Reachable b) (cut : Hash) (hok : (b.truncateAt cut).2 = .ok ())
    (t : Vertex) (ht : t ∈ (b.truncateAt cut).1.verts) (hdesc : t.hash = cut ∨ Anc b.edges cut t.hash)
    (a : Addr) (m m' : Melange) (hb : b.calculateBalance t a = .ok m) (ha : (b.truncateAt cut).1.calculateBalance t a = .ok m') :
    ∃ mv, (b.truncateAt cut).1.cpVerts = b.cpVerts ++ mv ∧
      (outflow a mv ≤ cpVal b a + inflow a mv → val m' = val m) := by
  obtain ⟨mv, hmv, hin, _, hcv, hverts, _, hcp, _⟩ := truncateAt_ok hok
  refine ⟨mv, hcv, fun hcov => ?_⟩
  have hnd : (b.verts.map (·.hash)).Nodup := by
    have := r.inv.idx.nodupV
    unfold allV at this
    rw [List.map_append] at this
    exact (List.nodup_append.mp this).1
  have htb : t ∈ b.verts := by rw [hverts] at ht; exact (List.mem_filter.mp ht).1
  have r' : Reachable (b.truncateAt cut).1 := Reachable.truncate cut r
  have e1 := (Props.C06.balance_exact r t htb a m hb).1
  have e2 := (Props.C06.balance_exact r' t ht a m' ha).1
  have bounds := calculateBalance_ok_bounds r.fundsOK t (r.fundsOK.verts t htb) a m hb
  have p := walk_split b r.edgeInv hnd cut hok mv hmv hin hverts t ht hdesc
  have i1 : inflow a (walk b t) = inflow a (walk (b.truncateAt cut).1 t) + inflow a mv := by
    rw [inflow_perm p, inflow_append]
  have o1 : outflow a (walk b t) = outflow a (walk (b.truncateAt cut).1 t) + outflow a mv := by
    rw [outflow_perm p, outflow_append]
  have hcanon : ∀ v ∈ mv, Melange.Canon v.trx.spice := fun v hv =>
    (canonB_iff _).1 (r.inv.canon v (List.mem_append_left _ (hin v hv)))
  have hcpc : ∀ e ∈ b.cpFunds, Melange.Canon e.2 := fun e he => (canonB_iff _).1 (r.inv.cpCanon e he)
  have ck := (newCpFunds_exact b mv a r.cpKeys hcpc hcanon (by omega) (by omega) hcov).1
  have ck' : cpVal (b.truncateAt cut).1 a + outflow a mv = cpVal b a + inflow a mv := by
    unfold cpVal cpFundsGet
    rw [hcp]
    exact ck
  omega

/-- Generated obligations: the constants of the truncation rule are the ones in today's source. -/
theorem gen_truncateDiff : Generated.accountant_truncateDiff = Book.truncateDiff := by decide
theorem gen_initialThroughput : Generated.accountant_initialThroughput = Book.initialThroughput.toNat := by decide

/-- The trigger predicate of the truncate loop (compared exhaustively on boundary values by the harness). -/
theorem trigger_spec (c d : UInt64) :
    checkCanTruncate c d = (decide (c > d) && decide (c > 1000) && decide (c - 1000 > d)) := rfl

/-- Non-vacuity: truncating the reachable example ledger of C03 at its tip moves the genesis vertex
to storage and keeps it readable. -/
example : (Props.C03.b2.truncateAt 3).1.cpVerts.map (·.hash) = [1] ∧
    (Props.C03.b2.truncateAt 3).1.readVertex 1 = some Props.C03.g := by
  constructor <;> rfl

end Props.C07
