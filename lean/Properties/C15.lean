import CModel.Handlers
import Properties.C08
/-!
# C15 — no request can crash a node

`Generated.hazardSites` is re-extracted from notaryserver, gossip, webhooksserver, transformers, wallet
(verifier) and aeswrapper on every run: every slice→array conversion, dereference through an optional
sub-message, constant-bound slicing and ed25519 key use on a caller-supplied value, with the result of
the dominating-guard analysis (guard in the function itself, or at every call site up to three levels,
or the message was constructed locally).
-/
namespace Props.C15
open CModel.Handlers CModel.Generated

/-- Each kind of guard found in the source rejects every shape on which the guarded operation panics. -/
theorem guard_covers (k : HazardKind) (s : Shape) (h : panics k s = true) : rejects k s = true := by
  cases k <;> simp_all [panics, rejects] <;> omega

/-- A guarded site never panics, whatever the shape. -/
theorem guarded_site_never_panics (h : HazardSite) (hg : h.guarded = true) (s : Shape) : runSite h s ≠ .panic := by
  unfold runSite; rw [hg]; simp only [if_true]; split <;> simp

/-- **Generated obligation**: every hazard site of today's source is guarded. -/
theorem all_sites_guarded : ∀ h ∈ hazardSites, h.guarded = true := by decide

theorem sites_found : hazardSites.length ≥ 40 := by decide

/-- **Main theorem**: no handler assembled from the source's sites panics on any assignment of shapes
(any byte lengths, any presence pattern of sub-messages, any decoded key length). -/
theorem no_handler_panics (sites : List HazardSite) (hs : ∀ h ∈ sites, h ∈ hazardSites) (sh : HazardSite → Shape) :
    runHandler sites sh ≠ .panic := by
  induction sites with
  | nil => simp [runHandler]
  | cons h rest ih =>
    have hg := all_sites_guarded h (hs h (List.mem_cons_self ..))
    have hn := guarded_site_never_panics h hg (sh h)
    unfold runHandler
    cases hr : runSite h (sh h) with
    | ok => exact ih (fun x hx => hs x (List.mem_cons_of_mem _ hx))
    | err => simp
    | panic => exact absurd hr hn

/-- An unguarded conversion does panic on a short value: the obligation is not vacuous. -/
theorem unguarded_conv_panics :
    runSite ⟨"p", "f", 1, .conv32, "x", false⟩ ⟨31, true, 32⟩ = .panic := by decide

/-- A handler that returns must not keep a mutex (the next request touching the same table would never
return): every exit of every function of the node's packages is clean - the regenerated table and the
theorem are C08's (`Props.C08.all_lock_exits_clean`, `no_exit_leaves_a_lock_held`). -/
theorem handlers_release_their_locks (calls : List LockExit) (hc : ∀ e ∈ calls, e ∈ lockExits ∧ e.kind ≠ .block) :
    CModel.LockExit.afterCalls calls = [] := Props.C08.no_exit_leaves_a_lock_held calls hc

end Props.C15
