import Proofs.BfsComplete
import Proofs.Conservation
import Properties.C03
/-!
# C06 — reported balances equal the reference sum and agree across nodes

`calculateBalance b tip a` is the model of CalculateBalance for the tip the implementation picked.
-/
namespace Props.C06
open CModel CModel.Book CModel.Melange

/-- Exactness: a returned balance is checkpoint + received − sent over the tip and its ancestors
(stated without subtraction in `Nat`), it is canonical, and every ancestor hash was resolved. -/
theorem balance_exact {b : Book} (r : Reachable b) (tip : Vertex) (ht : tip ∈ b.verts) (a : Addr) (m : Melange)
    (h : b.calculateBalance tip a = .ok m) :
    val m + outflow a (walk b tip) = cpVal b a + inflow a (walk b tip) ∧ Canon m := by
  have hf := r.fundsOK
  rcases calculateBalance_cases hf tip (hf.verts tip ht) a with ⟨m', hm, hv, hc, _⟩ | ⟨e, he, _⟩
  · rw [hm] at h; cases h; exact ⟨hv, hc⟩
  · rw [he] at h; cases h

/-- Error side. The property allows an error only for a negative sum; the model (and the code)
also fail when a partial sum is not representable, because all inflow is added before anything is
subtracted. The extra disjuncts are kept visible (`inflow_overflow` finding). -/
theorem balance_error {b : Book} (r : Reachable b) (tip : Vertex) (ht : tip ∈ b.verts) (a : Addr) (e : CModel.Err)
    (h : b.calculateBalance tip a = .error e) :
    cpVal b a + inflow a (walk b tip) < outflow a (walk b tip) ∨
    (visited b (b.ancestors tip.hash)).length < (b.ancestors tip.hash).length ∨
    inflow a (walk b tip) ≥ capacity ∨ outflow a (walk b tip) ≥ capacity ∨
    cpVal b a + inflow a (walk b tip) ≥ capacity := by
  have hf := r.fundsOK
  rcases calculateBalance_cases hf tip (hf.verts tip ht) a with ⟨m', hm, _⟩ | ⟨e', he, hd⟩
  · rw [hm] at h; cases h
  · exact hd

/-- A negative sum is never reported as a number. -/
theorem negative_is_error {b : Book} (r : Reachable b) (tip : Vertex) (ht : tip ∈ b.verts) (a : Addr)
    (hneg : cpVal b a + inflow a (walk b tip) < outflow a (walk b tip)) :
    ∃ e, b.calculateBalance tip a = .error e := by
  have hf := r.fundsOK
  rcases calculateBalance_cases hf tip (hf.verts tip ht) a with ⟨m', hm, hv, _⟩ | ⟨e', he, _⟩
  · omega
  · exact ⟨e', he⟩

/-- Determinism / cross-node agreement: the result is a function of the vertices, edges and
checkpointed funds only — two books that agree on these agree on every balance, tip by tip. -/
theorem balance_deterministic (b b' : Book) (hv : b'.verts = b.verts) (he : b'.edges = b.edges)
    (hc : b'.cpFunds = b.cpFunds) (tip : Vertex) (a : Addr) :
    b'.calculateBalance tip a = b.calculateBalance tip a := by
  have hanc : ∀ h, b'.ancestors h = b.ancestors h := by
    intro h
    unfold ancestors
    have hp : b'.parentsOf = b.parentsOf := by funext x; unfold parentsOf; rw [he]
    have hb : ∀ n f v, bfs b' n f v = bfs b n f v := by
      intro n
      induction n with
      | zero => intro f v; rfl
      | succ k ih => intro f v; simp only [bfs, hp, ih]
    rw [hp, hv, hb]
  have hfold : ∀ hs io w l, foldFunds b' a hs io w l = foldFunds b a hs io w l := by
    intro hs
    induction hs with
    | nil => intro io w l; rw [foldFunds, foldFunds]
    | cons x xs ih =>
      intro io w l
      rw [foldFunds_cons, foldFunds_cons]
      have : b'.getVertex x = b.getVertex x := by unfold getVertex; rw [hv]
      rw [this]
      cases b.getVertex x with
      | none => rfl
      | some v => simp only [ih]
  unfold calculateBalance walkFunds cpFundsGet
  rw [hanc, hc]
  simp only [hfold]

/-- Querying never changes the ledger: the model's query is a pure function of the book (it returns
no book); that the *implementation's* query leaves the snapshot unchanged is checked on every
BAL line of the correspondence. -/
theorem balance_readonly (b : Book) (tip : Vertex) (a : Addr) :
    (fun _ : Except CModel.Err Melange => b) (b.calculateBalance tip a) = b := rfl

/-- Non-vacuity on the reachable example ledger: w received 10, spent 3. -/
example : inflow "w" (walk Props.C03.b2 Props.C03.v1) = 10000000000000000000 ∧
    outflow "w" (walk Props.C03.b2 Props.C03.v1) = 3000000000000000000 := by decide

/-- **Single tip: the balance is over the whole live ledger.** When the ledger has one tip, the reported
balance is checkpointed funds + everything the wallet received − everything it sent over *all* live vertices
(the ancestor walk from the tip is complete: `ancestors` is exactly the set of strict ancestors, and in a
finite acyclic graph every vertex reaches a tip). -/
theorem balance_over_whole_ledger {b : Book} (r : Reachable b) (tip : Vertex) (ht : tip ∈ b.verts) (hl : b.leaves = [tip])
    (a : Addr) (m : Melange) (h : b.calculateBalance tip a = .ok m) :
    val m + outflow a b.verts = cpVal b a + inflow a b.verts ∧ Canon m := by
  have hnd : (b.verts.map (·.hash)).Nodup := by
    have := r.inv.idx.nodupV
    unfold allV at this
    rw [List.map_append] at this
    exact (List.nodup_append.mp this).1
  have p := walk_perm_of_single_tip b r.edgeInv hnd tip ht hl
  have := balance_exact r tip ht a m h
  rw [inflow_perm p, outflow_perm p] at this
  exact this

end Props.C06
