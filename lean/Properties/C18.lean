import Proofs.LocksetProofs
import CModel.Generated.Locks
/-!
# C18 — concurrent use of a node is free of data races

The property is defined by a runtime tool's judgement of real memory accesses; the decisive check is the
randomized concurrent workload run under the Go race detector on every run (section `race`, every report
is a violation with the two stacks as replay). What Lean carries is the lock-discipline argument:

1. `CModel/Lockset.lean`: goroutines as event sequences over (RW-)mutexes; a race is a reachable state in
   which two goroutines are about to access one location, one of them writing. Theorem: a location whose
   every access happens under one lock (writes exclusively, reads at least shared) never races — for all
   programs, any number of goroutines, every interleaving.
2. `CModel/Generated/Locks.lean` is regenerated from /repo on every run: every access site of the node's
   shared mutable fields with the locks syntactically held there. The theorems below state, for each such
   field, which lock guards it (or why it needs none), and are proved by evaluation of the generated table:
   dropping or narrowing a lock in the source breaks the corresponding obligation.
-/
namespace Props.C18
open CModel.Lockset

/-- Two goroutines never hold one lock in conflicting modes, in any reachable state of any program. -/
theorem conflicting_holders_impossible (prog : Gid → List Ev) (s : St) (h : Reach prog s) (i j : Gid) (hij : i ≠ j)
    (l : Lock) (ei ej : Bool) (hi : (l, ei) ∈ (s i).held) (hj : (l, ej) ∈ (s j).held) (hc : ei = true ∨ ej = true) : False := by
  have := mutex_reach h i j hij l ei ej hi hj
  rcases hc with hc | hc
  · rw [hc] at this; cases this.1
  · rw [hc] at this; cases this.2

/-- location `x` is guarded by lock `l` in program `prog`: whenever a goroutine is about to access `x` it
holds `l` — exclusively for a write, in any mode for a read -/
def Guarded (prog : Gid → List Ev) (x : Loc) (l : Lock) : Prop :=
  ∀ s, Reach prog s → ∀ g w r, (s g).rest = .acc x w :: r →
    (w = true → (l, true) ∈ (s g).held) ∧ (w = false → ∃ e, (l, e) ∈ (s g).held)

/-- **Lockset soundness**: a guarded location never races — every program, every interleaving. -/
theorem guarded_location_never_races (prog : Gid → List Ev) (x : Loc) (l : Lock) (hg : Guarded prog x l)
    (s : St) (h : Reach prog s) :
    ¬ ∃ i j w w' ri rj, i ≠ j ∧ (s i).rest = .acc x w :: ri ∧ (s j).rest = .acc x w' :: rj ∧ (w = true ∨ w' = true) := by
  rintro ⟨i, j, w, w', ri, rj, hij, hi, hj, hw⟩
  have gi := hg s h i w ri hi
  have gj := hg s h j w' rj hj
  rcases hw with hw | hw
  · have h1 := gi.1 hw
    cases hw' : w' with
    | true => exact conflicting_holders_impossible prog s h i j hij l true true h1 (gj.1 hw') (Or.inl rfl)
    | false =>
      obtain ⟨e, he⟩ := gj.2 hw'
      exact conflicting_holders_impossible prog s h i j hij l true e h1 he (Or.inl rfl)
  · have h1 := gj.1 hw
    cases hw' : w with
    | true => exact conflicting_holders_impossible prog s h i j hij l true true (gi.1 hw') h1 (Or.inl rfl)
    | false =>
      obtain ⟨e, he⟩ := gi.2 hw'
      exact conflicting_holders_impossible prog s h i j hij l e true he h1 (Or.inr rfl)

/-- non-vacuity: without a lock two writers do race -/
example : Racy (start fun g => if g ≤ 1 then [.acc 7 true] else []) :=
  ⟨0, 1, 7, true, true, [], [], by decide, rfl, rfl, Or.inl rfl⟩

/-! ## The lock table of the current source -/
open CModel.Generated.Locks

def at_ (loc : String) : List Site := sites.filter (·.loc == loc)
def excl (l : String) (s : Site) : Bool := s.locks.contains (l, true)
def heldAny (l : String) (s : Site) : Bool := s.locks.any (·.1 == l)
/-- writes hold `l` exclusively, reads hold it in some mode; and the field really occurs -/
def guardedBy (loc l : String) (except : List String := []) : Bool :=
  !(at_ loc).isEmpty &&
  ((at_ loc).filter fun s => !except.contains s.fn).all fun s => if s.write then excl l s else heldAny l s

/-- the orphan buffer's slice (ticker goroutine vs admission path): always under the buffer's own mutex -/
theorem orphan_buffer_guarded : guardedBy "buffer.members" "buffer.mux" = true ∧
    ((at_ "buffer.members").all (excl "buffer.mux")) = true := by decide +kernel

/-- the awaiting-transaction index (C17): the three read-modify-write operations run under the cache mutex -/
theorem awaiting_index_guarded :
    (["Hippocampus.SaveAwaitedTransaction", "Hippocampus.RemoveAwaitedTransaction", "Hippocampus.ReadTransactions"].all fun f =>
      ((at_ "Hippocampus.mem").any (·.fn == f)) && (((at_ "Hippocampus.mem").filter (·.fn == f)).all (excl "Hippocampus.mux"))) = true := by
  decide +kernel

/-- the duplicate-suppression memory (C11): "seen before? then remember" is one step under the flashback mutex -/
theorem flashback_test_and_set_atomic :
    (["Flashback.HasHash", "Flashback.HasAddress"].all fun f =>
      ((at_ "Flashback.mem").any (·.fn == f)) && (((at_ "Flashback.mem").filter (·.fn == f)).all (excl "Flashback.mux"))) = true := by
  decide +kernel

/-- the challenge store -/
theorem challenge_store_guarded : guardedBy "Cache.data" "Cache.mux" = true := by decide +kernel

/-- the gossip peer table (except the shutdown path) -/
theorem peer_table_guarded : guardedBy "gossiper.nodes" "gossiper.mux" ["gossiper.closeAllNodesConnections"] = true := by
  decide +kernel

/-- ledger scalars: `lastBackup` only under the ledger lock; `dagLoaded` and `genesisPublicAddress` are
written only while the DAG is being created or loaded (the property starts once it is loaded), under the
lock; `nextWeightTruncate` is written by the loader and afterwards only by the single truncation goroutine;
the orphan buffer pointer is never reassigned. -/
theorem ledger_scalars_disciplined :
    guardedBy "AccountingBook.lastBackup" "AccountingBook.mux" = true ∧
    (((at_ "AccountingBook.dagLoaded").filter (·.write)).all fun s =>
      ["AccountingBook.CreateGenesis", "AccountingBook.LoadDag"].contains s.fn && excl "AccountingBook.mux" s) = true ∧
    (((at_ "AccountingBook.genesisPublicAddress").filter (·.write)).all fun s =>
      ["AccountingBook.CreateGenesis", "AccountingBook.LoadDag"].contains s.fn && excl "AccountingBook.mux" s) = true ∧
    -- confined: not only the writes, every access (the truncation goroutine reads and writes it without a lock)
    ((at_ "AccountingBook.nextWeightTruncate").all fun s =>
      ["AccountingBook.LoadDag", "AccountingBook.runTruncate"].contains s.fn) = true ∧
    ((at_ "AccountingBook.repeater").all fun s => !s.write) = true := by
  decide +kernel

/-- the ledger's own helpers that touch the DAG index and the orphan buffer run under the ledger lock held
exclusively by their callers -/
theorem admission_path_under_ledger_lock :
    (((at_ "AccountingBook.repeater").filter (·.fn == "AccountingBook.addLeafMemorized")).all (excl "AccountingBook.mux")) = true ∧
    (((at_ "AccountingBook.truncateSignal").filter fun s => s.fn != "AccountingBook.runTruncate").all (excl "AccountingBook.mux")) = true := by
  decide +kernel

end Props.C18
