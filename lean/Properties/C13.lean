import Proofs.Conservation
import Properties.C03
import CModel.Generated.Consts
/-!
# C13 — vertices arriving before their parents are parked and later admitted

The orphan buffer is `Book.parked` (FIFO; `getNext`'s comparator compares an element with itself, so the
stable sort is the identity — the FIFO order is observable in every snapshot of the correspondence).
-/
namespace Props.C13
open CModel CModel.Book

/-- `insert` of replier.go: refused when the buffer holds 500 vertices or the vertex was already
retried more than 25 times; otherwise appended with the retry counter incremented. -/
theorem park_spec (b : Book) (v : Vertex) (rep : Nat) :
    b.park v rep = if b.parked.length = 500 ∨ rep > 25 then none
                   else some { b with parked := b.parked ++ [(v, rep + 1)] } := by
  unfold park maxArraySize maxRepeats
  by_cases h1 : b.parked.length = 500
  · simp [h1]
  · by_cases h2 : rep > 25
    · simp [h1, h2]
    · simp [h1, h2]

/-- A vertex whose (left) parent is unknown is reported as such and parked — or rejected when the
bounds are exhausted; DAG, index and storage are untouched. -/
theorem missing_parent_is_parked (b : Book) (v : Vertex) (rep : Nat)
    (hg : v.trx.issuer ≠ b.genesis) (hn : b.checkVertexExists v.hash = false) (ht : b.indexHas v.trx.hash = false)
    (hv : v.vok = true) (hp : b.getVertex v.left = none) :
    b.addLeafMemorized v rep =
      match b.park v rep with
      | none => (b, .error [.leafRejected])
      | some b' => (b', .error [.noParent]) := by
  unfold addLeafMemorized
  simp only [beq_iff_eq, hg, if_false, hn, Bool.false_eq_true, ht, hv, Bool.not_true]
  unfold addLeafLocked checkParents
  simp only [hp]
  cases b.park v rep <;> rfl

theorem parking_changes_only_the_buffer (b b' : Book) (v : Vertex) (rep : Nat) (h : b.park v rep = some b') :
    b'.verts = b.verts ∧ b'.edges = b.edges ∧ b'.index = b.index ∧ b'.cpVerts = b.cpVerts ∧ b'.cpFunds = b.cpFunds := by
  rw [park_some h]; exact ⟨rfl, rfl, rfl, rfl, rfl⟩

/-- A retry is `addLeafMemorized` on the head of the buffer: the very same path (and the same
validation) as a first delivery. -/
theorem retry_is_same_path (b : Book) (v : Vertex) (rep : Nat) (rest : List (Vertex × Nat))
    (h : b.parked = (v, rep) :: rest) :
    b.retryParked = ((({ b with parked := rest } : Book).addLeafMemorized v rep).1,
                     some (v, (({ b with parked := rest } : Book).addLeafMemorized v rep).2)) := by
  unfold retryParked; rw [h]

/-- Whatever path a vertex took (direct, parked, retried any number of times, in any order), every
live vertex verified, obeys the sealing rules, carries a canonical amount, and no vertex or
transaction is admitted twice. -/
theorem nothing_invalid_nothing_twice {b : Book} (r : Reachable b) :
    (∀ v ∈ b.verts, v.vok = true) ∧ ((b.verts ++ b.cpVerts).map (·.hash)).Nodup ∧
    ((b.verts ++ b.cpVerts).map (·.trx.hash)).Nodup ∧
    (∀ p ∈ b.parked, p.1.trx.issuer ≠ p.1.signer ∧ p.1.trx.isEmpty = false) :=
  ⟨r.inv.verified, r.inv.idx.nodupV, r.inv.idx.nodupT, fun p hp => ⟨(r.inv.parkOk p hp).2.1, (r.inv.parkOk p hp).2.2.1⟩⟩

/-- A parked vertex that is admitted on retry had both parents present and every tip-parent valid. -/
theorem retry_admission_checks_parents (b : Book) (v : Vertex) (rep : Nat) (hg : AddGuards b v)
    (h : (b.addLeafMemorized v rep).2 = .ok ()) :
    ∃ l r, CheckedIn b l ∧ CheckedIn b r ∧ l.hash = v.left ∧ r.hash = v.right :=
  addLeafMemorized_parents_checked b v rep hg h

/-- Generated obligations: the bounds are the ones in today's source. -/
theorem gen_bounds : Generated.accountant_maxArraySize = Book.maxArraySize ∧
    Generated.accountant_maxRepeats = Book.maxRepeats := by decide

/-- Non-vacuity: a child delivered before its parent is parked, then admitted by one retry after
the parent arrived; the result equals parents-first delivery. -/
def p1 : Vertex := ⟨5, "m", 3, 3, 2, ⟨6, "w", "y", ⟨0, 0⟩, true⟩, true⟩
def c1 : Vertex := ⟨7, "m", 5, 5, 3, ⟨8, "w", "z", ⟨0, 0⟩, true⟩, true⟩
def base : Book := Props.C03.b2.addTrusted "n"
example : ((base.addLeaf c1).1.parked.map (·.1.hash)) = [7] ∧
    ((((base.addLeaf c1).1.addLeaf p1).1.retryParked).1.verts.map (·.hash)) =
    (((base.addLeaf p1).1.addLeaf c1).1.verts.map (·.hash)) ∧
    ((((base.addLeaf c1).1.addLeaf p1).1.retryParked).1.verts.map (·.hash)) = [1, 3, 5, 7] := by
  refine ⟨rfl, rfl, rfl⟩

end Props.C13
