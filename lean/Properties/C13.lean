import Proofs.Conservation
import Properties.C03
import CModel.Generated.Consts
import Proofs.Orphans
import Proofs.OrphanBounds
import Proofs.LedgerDag
/-!
# C13 — vertices arriving before their parents are parked and later admitted

The orphan buffer is `Book.parked` (FIFO; `getNext`'s comparator compares an element with itself, so the
stable sort is the identity — the FIFO order is observable in every snapshot of the correspondence).
-/
namespace Props.C13
open CModel CModel.Book

/-- `insert` of replier.go: refused when the buffer holds 500 vertices or the vertex was already
retried more than 25 times; otherwise appended with the retry counter incremented. -/
theorem park_spec (b : Book) (v : Vertex) (rep : Nat) :
    b.park v rep = if b.parked.length = 500 ∨ rep > 25 then none
                   else some { b with parked := b.parked ++ [(v, rep + 1)] } := by
  unfold park maxArraySize maxRepeats
  by_cases h1 : b.parked.length = 500
  · simp [h1]
  · by_cases h2 : rep > 25
    · simp [h1, h2]
    · simp [h1, h2]

/-- A vertex whose (left) parent is unknown is reported as such and parked — or rejected when the
bounds are exhausted; DAG, index and storage are untouched. -/
theorem missing_parent_is_parked (b : Book) (v : Vertex) (rep : Nat)
    (hg : v.trx.issuer ≠ b.genesis) (hn : b.checkVertexExists v.hash = false) (ht : b.indexHas v.trx.hash = false)
    (hv : v.vok = true) (hp : b.getVertex v.left = none) :
    b.addLeafMemorized v rep =
      match b.park v rep with
      | none => (b, .error [.leafRejected])
      | some b' => (b', .error [.noParent]) := by
  unfold addLeafMemorized
  simp only [beq_iff_eq, hg, if_false, hn, Bool.false_eq_true, ht, hv, Bool.not_true]
  unfold addLeafLocked checkParents
  simp only [hp]
  cases b.park v rep <;> rfl

theorem parking_changes_only_the_buffer (b b' : Book) (v : Vertex) (rep : Nat) (h : b.park v rep = some b') :
    b'.verts = b.verts ∧ b'.edges = b.edges ∧ b'.index = b.index ∧ b'.cpVerts = b.cpVerts ∧ b'.cpFunds = b.cpFunds := by
  rw [park_some h]; exact ⟨rfl, rfl, rfl, rfl, rfl⟩

/-- A retry is `addLeafMemorized` on the head of the buffer: the very same path (and the same
validation) as a first delivery. -/
theorem retry_is_same_path (b : Book) (v : Vertex) (rep : Nat) (rest : List (Vertex × Nat))
    (h : b.parked = (v, rep) :: rest) :
    b.retryParked = ((({ b with parked := rest } : Book).addLeafMemorized v rep).1,
                     some (v, (({ b with parked := rest } : Book).addLeafMemorized v rep).2)) := by
  unfold retryParked; rw [h]

/-- Whatever path a vertex took (direct, parked, retried any number of times, in any order), every
live vertex verified, obeys the sealing rules, carries a canonical amount, and no vertex or
transaction is admitted twice. -/
theorem nothing_invalid_nothing_twice {b : Book} (r : Reachable b) :
    (∀ v ∈ b.verts, v.vok = true) ∧ ((b.verts ++ b.cpVerts).map (·.hash)).Nodup ∧
    ((b.verts ++ b.cpVerts).map (·.trx.hash)).Nodup ∧
    (∀ p ∈ b.parked, p.1.trx.issuer ≠ p.1.signer ∧ p.1.trx.isEmpty = false) :=
  ⟨r.inv.verified, r.inv.idx.nodupV, r.inv.idx.nodupT, fun p hp => ⟨(r.inv.parkOk p hp).2.1, (r.inv.parkOk p hp).2.2.1⟩⟩

/-- A parked vertex that is admitted on retry had both parents present and every tip-parent valid. -/
theorem retry_admission_checks_parents (b : Book) (v : Vertex) (rep : Nat) (hg : AddGuards b v)
    (h : (b.addLeafMemorized v rep).2 = .ok ()) :
    ∃ l r, CheckedIn b l ∧ CheckedIn b r ∧ l.hash = v.left ∧ r.hash = v.right :=
  addLeafMemorized_parents_checked b v rep hg h

/-! ### Nothing is lost, nothing is invented: runs of deliveries and retry ticks

`DOp.deliver v` is `AddLeaf v` (any vertex, valid or not, any number of times), `DOp.tick` one tick of the
retry loop. `AllBenign b0 ops`: every call of the run reported "admitted", "parked: parent missing" or
"already known" - in particular no call reported an exhausted buffer / retry bound, and no validation
failed (these are visible outcomes: the node logs them, the harness reads them). -/

/-- **Every delivered vertex is in the ledger or in the buffer; nothing else entered the ledger; nothing
left it.** For every interleaving of deliveries (duplicates included) and retry ticks. -/
theorem delivered_is_admitted_or_parked (b0 : Book) (hq : b0.parked = []) (ops : List DOp) (hb : AllBenign b0 ops) :
    (∀ v, DOp.deliver v ∈ ops →
      (drun b0 ops).hasVertex v.hash = true ∨ (drun b0 ops).cpHasVertex v.hash = true ∨ v ∈ (drun b0 ops).parked.map (·.1)) ∧
    (∀ u ∈ (drun b0 ops).verts, u ∈ b0.verts ∨ DOp.deliver u ∈ ops) ∧
    (∀ u ∈ b0.verts, u ∈ (drun b0 ops).verts) ∧
    (∀ p ∈ (drun b0 ops).parked, DOp.deliver p.1 ∈ ops) := by
  have h := orphanInv_run ops (orphanInv_start b0 hq) hb
  simp only [List.nil_append] at h
  exact ⟨h.accounted, h.onlyDelivered, h.kept, h.parkedDelivered⟩

/-- **At quiescence the ledger is complete**: when the buffer has drained, every delivered vertex is held. -/
theorem quiescent_ledger_complete (b0 : Book) (hq : b0.parked = []) (ops : List DOp) (hb : AllBenign b0 ops)
    (hdone : (drun b0 ops).parked = []) (v : Vertex) (hv : DOp.deliver v ∈ ops) :
    (drun b0 ops).hasVertex v.hash = true ∨ b0.cpHasVertex v.hash = true := by
  have h := orphanInv_run ops (orphanInv_start b0 hq) hb
  simp only [List.nil_append] at h
  rcases h.accounted v hv with a | a | a
  · exact Or.inl a
  · right; unfold cpHasVertex at a ⊢; rw [← h.storage]; exact a
  · rw [hdone] at a; cases a

/-- **The order of delivery does not matter.** Two runs from the same ledger that deliver the same vertices
(in any two orders, with any duplicates and any placement of the retry ticks - parents-first delivery is
one of them) and both end with a drained buffer hold the same vertex hashes. -/
theorem delivery_order_does_not_matter (b0 : Book) (hq : b0.parked = []) (ops1 ops2 : List DOp)
    (hb1 : AllBenign b0 ops1) (hb2 : AllBenign b0 ops2)
    (hsame : ∀ v, DOp.deliver v ∈ ops1 ↔ DOp.deliver v ∈ ops2)
    (hd1 : (drun b0 ops1).parked = []) (hd2 : (drun b0 ops2).parked = [])
    (hfresh : ∀ v, DOp.deliver v ∈ ops1 → b0.cpHasVertex v.hash = false) (x : Hash) :
    (drun b0 ops1).hasVertex x = (drun b0 ops2).hasVertex x := by
  have key : ∀ (o1 o2 : List DOp), AllBenign b0 o1 → AllBenign b0 o2 → (∀ v, DOp.deliver v ∈ o1 → DOp.deliver v ∈ o2) →
      (drun b0 o2).parked = [] → (∀ v, DOp.deliver v ∈ o1 → b0.cpHasVertex v.hash = false) →
      (drun b0 o1).hasVertex x = true → (drun b0 o2).hasVertex x = true := by
    intro o1 o2 b1 b2 hs d2 hf hx
    have i1 := orphanInv_run o1 (orphanInv_start b0 hq) b1
    have i2 := orphanInv_run o2 (orphanInv_start b0 hq) b2
    simp only [List.nil_append] at i1 i2
    obtain ⟨u, hu, hux⟩ := (hasVertex_iff _ x).mp hx
    rcases i1.onlyDelivered u hu with h0 | hdl
    · exact (hasVertex_iff _ x).mpr ⟨u, i2.kept u h0, hux⟩
    · rcases quiescent_ledger_complete b0 hq o2 b2 d2 u (hs u hdl) with a | a
      · rw [← hux]; exact a
      · rw [hf u hdl] at a; cases a
  cases h1 : (drun b0 ops1).hasVertex x with
  | true => exact (key ops1 ops2 hb1 hb2 (fun v => (hsame v).mp) hd2 hfresh h1).symm
  | false =>
    cases h2 : (drun b0 ops2).hasVertex x with
    | false => rfl
    | true =>
      have := key ops2 ops1 hb2 hb1 (fun v => (hsame v).mpr) hd1 (fun v hv => hfresh v ((hsame v).mpr hv)) h2
      rw [h1] at this; cases this

/-- a vertex can only be admitted by a call that reports success: what is admitted is exactly the object
that was delivered (not a look-alike with the same hash) -/
theorem admitted_is_what_was_delivered (b0 : Book) (hq : b0.parked = []) (ops : List DOp) (hb : AllBenign b0 ops)
    (u : Vertex) (hu : u ∈ (drun b0 ops).verts) (hnew : u ∉ b0.verts) : DOp.deliver u ∈ ops :=
  ((delivered_is_admitted_or_parked b0 hq ops hb).2.1 u hu).resolve_left hnew


/-- **Bounded buffer, bounded retries**: in every run of deliveries (any vertices, any order, any duplicates,
any outcomes) and retry ticks that starts with an empty buffer, the buffer never holds more than 500
vertices and no vertex is parked more than 26 times. -/
theorem buffer_and_retries_bounded (b0 : Book) (hq : b0.parked = []) (ops : List DOp) :
    (drun b0 ops).parked.length ≤ 500 ∧ ∀ p ∈ (drun b0 ops).parked, p.2 ≤ 26 :=
  drun_bufInv b0 ops (by rw [hq]; exact bufInv_nil)

/-- **The retries end**: from any state such a run can reach, retry ticks alone empty the buffer - within
the retries still allowed to the parked vertices (`pot`), in any case within 27 · 500 ticks - whatever the
ledger answers to each retry. A vertex whose parent never arrives is given up, not retried for ever. -/
theorem retries_end (b0 : Book) (hq : b0.parked = []) (ops : List DOp) :
    (ticks (pot (drun b0 ops).parked) (drun b0 ops)).parked = [] ∧ (ticks (27 * 500) (drun b0 ops)).parked = [] :=
  have h := drun_bufInv b0 ops (by rw [hq]; exact bufInv_nil)
  ⟨ticks_empty_buffer _ _ h (Nat.le_refl _), ticks_bound _ h⟩

/-- every tick on a non-empty buffer uses up one allowed retry -/
theorem each_tick_uses_a_retry (b0 : Book) (hq : b0.parked = []) (ops : List DOp) (hne : (drun b0 ops).parked ≠ []) :
    pot ((drun b0 ops).retryParked).1.parked < pot (drun b0 ops).parked :=
  retry_uses_potential _ (drun_bufInv b0 ops (by rw [hq]; exact bufInv_nil)) hne

/-- Copies of one vertex in the buffer do not share a retry budget: whether a retried entry is parked again
depends on its own counter and on the room in the buffer, not on how often other entries - copies of the same
vertex included - were retried. -/
theorem retry_budget_is_per_entry (b b' : Book) (v : Vertex) (rep : Nat) (hlen : b'.parked.length = b.parked.length) :
    (b.park v rep).isSome = (b'.park v rep).isSome := by
  rw [park_spec, park_spec, hlen]
  split <;> rfl

/-- an entry whose counter is within the bound is parked again whenever there is room -/
theorem within_budget_is_parked_again (b : Book) (v : Vertex) (rep : Nat) (hr : rep ≤ 25) (hl : b.parked.length < 500) :
    b.park v rep = some { b with parked := b.parked ++ [(v, rep + 1)] } := by
  rw [park_spec, if_neg (by omega)]

/-- Generated obligations: the bounds are the ones in today's source. -/
theorem gen_bounds : Generated.accountant_maxArraySize = Book.maxArraySize ∧
    Generated.accountant_maxRepeats = Book.maxRepeats := by decide

/-- Non-vacuity: a child delivered before its parent is parked, then admitted by one retry after
the parent arrived; the result equals parents-first delivery. -/
def p1 : Vertex := ⟨5, "m", 3, 3, 2, ⟨6, "w", "y", ⟨0, 0⟩, true⟩, true⟩
def c1 : Vertex := ⟨7, "m", 5, 5, 3, ⟨8, "w", "z", ⟨0, 0⟩, true⟩, true⟩
def base : Book := Props.C03.b2.addTrusted "n"
example : ((base.addLeaf c1).1.parked.map (·.1.hash)) = [7] ∧
    ((((base.addLeaf c1).1.addLeaf p1).1.retryParked).1.verts.map (·.hash)) =
    (((base.addLeaf p1).1.addLeaf c1).1.verts.map (·.hash)) ∧
    ((((base.addLeaf c1).1.addLeaf p1).1.retryParked).1.verts.map (·.hash)) = [1, 3, 5, 7] := by
  refine ⟨rfl, rfl, rfl⟩
/-- the same as a run: child first, then parent, then one tick; every outcome is benign, the buffer drains -/
example : AllBenign base [.deliver c1, .deliver p1, .tick] ∧ (drun base [.deliver c1, .deliver p1, .tick]).parked = [] ∧
    (drun base [.deliver c1, .deliver p1, .tick]).verts.map (·.hash) = [1, 3, 5, 7] := by
  refine ⟨⟨?_, ?_, ?_, trivial⟩, rfl, rfl⟩
  · intro r hr; cases hr; exact Or.inl rfl
  · intro r hr; cases hr; trivial
  · intro r hr; cases hr; trivial

def errOf : Except Err Unit → Err
  | .error e => e
  | .ok _ => []
/-- Non-vacuity: an orphan whose parent never arrives is parked with counter 1, re-parked by each of the next
25 ticks (reported "parent missing"), and dropped by the 26th (reported "rejected"). -/
example : ((base.addLeaf c1).1.parked.map (·.2)) = [1] ∧
    ((ticks 25 (base.addLeaf c1).1).parked.map (·.2)) = [26] ∧
    ((ticks 26 (base.addLeaf c1).1).parked) = [] ∧
    ((ticks 25 (base.addLeaf c1).1).retryParked.2.map (errOf ·.2)) = some [.leafRejected] ∧
    ((ticks 24 (base.addLeaf c1).1).retryParked.2.map (errOf ·.2)) = some [.noParent] := by
  refine ⟨rfl, ?_, ?_, ?_, ?_⟩ <;> decide +kernel

end Props.C13
