import Proofs.Truncate
import Proofs.Funds
import Proofs.Reachable
/-! C07: the checkpointed funds written by a truncation are exactly checkpoint + inflow − outflow over the
moved vertices (precalculate.go: accumulate `in` and `out` per wallet, one `Drain` at the end). -/
namespace CModel.Book
open CModel CModel.Melange

/-! ### association lists as used by `fmSet` / `cpFundsSet` -/
def alSet {β} (l : List (Addr × β)) (a : Addr) (p : β) : List (Addr × β) :=
  if l.any (·.1 == a) then l.map (fun e => if e.1 == a then (a, p) else e) else l ++ [(a, p)]
def alGet {β} (l : List (Addr × β)) (a : Addr) : Option β := (l.find? (·.1 == a)).map (·.2)

theorem fmSet_eq (m : List (Addr × Pre)) (a : Addr) (p : Pre) : fmSet m a p = alSet m a p := rfl
theorem cpFundsSet_eq (l : List (Addr × Melange)) (a : Addr) (s : Melange) : cpFundsSet l a s = alSet l a s := rfl
theorem fmGet_eq (m : List (Addr × Pre)) (a : Addr) : fmGet m a = (alGet m a).getD {} := rfl

theorem alGet_cons {β} (e : Addr × β) (l : List (Addr × β)) (b : Addr) :
    alGet (e :: l) b = if e.1 = b then some e.2 else alGet l b := by
  unfold alGet
  rw [List.find?_cons]
  by_cases h : e.1 = b
  · simp [h]
  · have hb : (e.1 == b) = false := by simpa using h
    simp [hb, h]

theorem alGet_map_replace {β} (l : List (Addr × β)) (a b : Addr) (p : β) :
    alGet (l.map (fun e => if e.1 == a then (a, p) else e)) b =
      if b = a then (alGet l a).map (fun _ => p) else alGet l b := by
  induction l with
  | nil => simp [alGet]
  | cons e l ih =>
    rw [List.map_cons, alGet_cons, ih, alGet_cons, alGet_cons]
    by_cases hea : e.1 = a
    · by_cases hba : b = a
      · subst hba; simp [hea]
      · have : ¬ a = b := fun h => hba h.symm
        simp [hea, hba, this]
    · by_cases hba : b = a
      · subst hba; simp [hea]
      · by_cases heb : e.1 = b
        · simp [hea, heb, hba]
        · simp [hea, heb, hba]

theorem alGet_none_of_not_any {β} (l : List (Addr × β)) (a : Addr) (h : l.any (·.1 == a) = false) : alGet l a = none := by
  unfold alGet
  rw [List.find?_eq_none.mpr]
  · rfl
  · intro x hx
    have := List.any_eq_false.mp h x hx
    simpa using this

theorem alGet_some_of_any {β} (l : List (Addr × β)) (a : Addr) (h : l.any (·.1 == a) = true) : ∃ v, alGet l a = some v := by
  obtain ⟨x, hx, hxa⟩ := List.any_eq_true.mp h
  unfold alGet
  cases hf : l.find? (·.1 == a) with
  | none => exact absurd hxa (by simpa using List.find?_eq_none.mp hf x hx)
  | some y => exact ⟨y.2, rfl⟩

theorem alGet_alSet {β} (l : List (Addr × β)) (a b : Addr) (p : β) :
    alGet (alSet l a p) b = if b = a then some p else alGet l b := by
  unfold alSet
  by_cases h : l.any (·.1 == a) = true
  · rw [if_pos h, alGet_map_replace]
    by_cases hba : b = a
    · obtain ⟨v, hv⟩ := alGet_some_of_any l a h
      simp [hba, hv]
    · simp [hba]
  · have h' : l.any (·.1 == a) = false := Bool.eq_false_iff.mpr h
    rw [if_neg h]
    unfold alGet
    rw [List.find?_append]
    by_cases hba : b = a
    · subst hba
      have := alGet_none_of_not_any l b h'
      unfold alGet at this
      cases hf : l.find? (·.1 == b) with
      | none => simp
      | some y => rw [hf] at this; cases this
    · have : ¬ a = b := fun h => hba h.symm
      cases hf : l.find? (·.1 == b) with
      | none => simp [this, hba]
      | some y => simp [hba]

def keys {β} (l : List (Addr × β)) : List Addr := l.map (·.1)

theorem keys_alSet {β} (l : List (Addr × β)) (a : Addr) (p : β) :
    keys (alSet l a p) = if a ∈ keys l then keys l else keys l ++ [a] := by
  unfold alSet keys
  by_cases h : l.any (·.1 == a) = true
  · have hm : a ∈ l.map (·.1) := by
      obtain ⟨x, hx, hxa⟩ := List.any_eq_true.mp h
      exact List.mem_map.mpr ⟨x, hx, by simpa using hxa⟩
    rw [if_pos h, if_pos hm, List.map_map]
    apply List.map_congr_left
    intro e _
    by_cases he : e.1 = a
    · simp [he]
    · simp [he]
  · have hm : a ∉ l.map (·.1) := by
      intro hm
      obtain ⟨x, hx, hxa⟩ := List.mem_map.mp hm
      exact h (List.any_eq_true.mpr ⟨x, hx, by simp [hxa]⟩)
    rw [if_neg h, if_neg hm]
    simp

theorem keys_nodup_alSet {β} (l : List (Addr × β)) (a : Addr) (p : β) (h : (keys l).Nodup) : (keys (alSet l a p)).Nodup := by
  rw [keys_alSet]
  split
  · exact h
  · rename_i hn
    rw [List.nodup_append]
    exact ⟨h, by simp, fun x hx y hy => by simp at hy; subst hy; intro e; exact hn (e ▸ hx)⟩

theorem keys_sub_alSet {β} (l : List (Addr × β)) (a : Addr) (p : β) (x : Addr) (h : x ∈ keys l) : x ∈ keys (alSet l a p) := by
  rw [keys_alSet]
  split
  · exact h
  · exact List.mem_append_left _ h

/-! ### the accumulation over the moved vertices -/
def PreC (p : Pre) : Prop := Canon p.inn ∧ Canon p.out

theorem val_lt_capacity (m : Melange) (h : Canon m) : val m < capacity := by
  obtain ⟨c, s⟩ := m
  have := c.toNat_lt
  unfold val capacity Canon at *
  simp only at *
  omega

theorem fmGet_fmUpdate (m : List (Addr × Pre)) (i r : Addr) (s : Melange) (a : Addr) :
    fmGet (fmUpdate m i r s) a =
      (let p := fmGet m a
       let p1 := if a = i then { p with out := (p.out.supply s).1 } else p
       if a = r then { p1 with inn := (p1.inn.supply s).1 } else p1) := by
  unfold fmUpdate
  simp only [fmSet_eq, fmGet_eq, alGet_alSet]
  by_cases har : a = r
  · subst har
    by_cases hai : a = i
    · subst hai; simp
    · simp [hai]
  · by_cases hai : a = i
    · subst hai; simp [har]
    · simp [har, hai]

theorem supply_exact (m a : Melange) (hm : Canon m) (ha : Canon a) (h : val m + val a < capacity) :
    val (m.supply a).1 = val m + val a ∧ Canon (m.supply a).1 := by
  rcases supply_cases m a hm ha with ⟨m', he, hv, hc⟩ | ⟨_, hov⟩
  · rw [he]; exact ⟨hv, hc⟩
  · omega

theorem fold_fmNext_get (mv : List Vertex) (fm : List (Addr × Pre)) (a : Addr)
    (hc : ∀ v ∈ mv, Canon v.trx.spice) (hp : PreC (fmGet fm a))
    (hin : val (fmGet fm a).inn + inflow a mv < capacity) (hout : val (fmGet fm a).out + outflow a mv < capacity) :
    val (fmGet (mv.foldl fmNext fm) a).inn = val (fmGet fm a).inn + inflow a mv ∧
    val (fmGet (mv.foldl fmNext fm) a).out = val (fmGet fm a).out + outflow a mv ∧
    PreC (fmGet (mv.foldl fmNext fm) a) := by
  induction mv generalizing fm with
  | nil => simp [inflow, outflow]; exact hp
  | cons v mv ih =>
    rw [inflow_cons] at hin
    rw [outflow_cons] at hout
    have hcv := hc v List.mem_cons_self
    have key : val (fmGet (fmNext fm v) a).inn = val (fmGet fm a).inn + inAmt a v ∧
               val (fmGet (fmNext fm v) a).out = val (fmGet fm a).out + outAmt a v ∧ PreC (fmGet (fmNext fm v) a) := by
      unfold fmNext
      by_cases hs : v.trx.isSpice = true
      · simp only [hs, Bool.not_true, Bool.false_eq_true, ↓reduceIte]
        rw [fmGet_fmUpdate]
        simp only
        by_cases hai : a = v.trx.issuer
        · have eo := supply_exact (fmGet fm a).out v.trx.spice hp.2 hcv (by
            have : outAmt a v = val v.trx.spice := by simp [outAmt, hai]
            omega)
          by_cases har : a = v.trx.receiver
          · have ei := supply_exact (fmGet fm a).inn v.trx.spice hp.1 hcv (by
              have : inAmt a v = val v.trx.spice := by simp [inAmt, har]
              omega)
            simp only [if_pos hai, if_pos har]
            refine ⟨?_, ?_, ?_⟩
            · rw [ei.1]; simp [inAmt, ← har]
            · rw [eo.1]; simp [outAmt, ← hai]
            · exact ⟨ei.2, eo.2⟩
          · simp only [if_pos hai, if_neg har]
            refine ⟨?_, ?_, ?_⟩
            · have : ¬ v.trx.receiver = a := fun h => har h.symm
              simp [inAmt, this]
            · rw [eo.1]; simp [outAmt, ← hai]
            · exact ⟨hp.1, eo.2⟩
        · have hio : ¬ v.trx.issuer = a := fun h => hai h.symm
          by_cases har : a = v.trx.receiver
          · have ei := supply_exact (fmGet fm a).inn v.trx.spice hp.1 hcv (by
              have : inAmt a v = val v.trx.spice := by simp [inAmt, har]
              omega)
            simp only [if_neg hai, if_pos har]
            refine ⟨?_, ?_, ?_⟩
            · rw [ei.1]; simp [inAmt, ← har]
            · simp [outAmt, hio]
            · exact ⟨ei.2, hp.2⟩
          · have hro : ¬ v.trx.receiver = a := fun h => har h.symm
            simp only [if_neg hai, if_neg har]
            exact ⟨by simp [inAmt, hro], by simp [outAmt, hio], hp⟩
      · have hs' : v.trx.isSpice = false := by simpa using hs
        simp only [hs', Bool.not_false, ↓reduceIte]
        have hz : val v.trx.spice = 0 := by
          apply empty_val
          simpa [Trx.isSpice] using hs'
        exact ⟨by simp [inAmt, hz], by simp [outAmt, hz], hp⟩
    obtain ⟨k1, k2, k3⟩ := key
    have := ih (fmNext fm v) (fun x hx => hc x (List.mem_cons_of_mem _ hx)) k3 (by rw [k1]; omega) (by rw [k2]; omega)
    simp only [List.foldl_cons]
    refine ⟨?_, ?_, this.2.2⟩
    · rw [this.1, k1, inflow_cons]; omega
    · rw [this.2.1, k2, outflow_cons]; omega


/-! ### writing the accumulated values back -/
theorem alGet_none_of_not_mem {β} (l : List (Addr × β)) (a : Addr) (h : a ∉ keys l) : alGet l a = none := by
  apply alGet_none_of_not_any
  apply Bool.eq_false_iff.mpr
  intro hany
  obtain ⟨x, hx, hxa⟩ := List.any_eq_true.mp hany
  exact h (List.mem_map.mpr ⟨x, hx, by simpa using hxa⟩)

theorem mem_keys_of_alGet {β} (l : List (Addr × β)) (a : Addr) (v : β) (h : alGet l a = some v) : a ∈ keys l := by
  unfold alGet at h
  cases hf : l.find? (·.1 == a) with
  | none => rw [hf] at h; cases h
  | some y =>
    have hm := List.mem_of_find?_eq_some hf
    have hp := List.find?_some hf
    exact List.mem_map.mpr ⟨y, hm, by simpa using hp⟩

theorem alGet_fold_set {β γ} (fm : List (Addr × γ)) (f : γ → β) (l0 : List (Addr × β)) (a : Addr) (hn : (keys fm).Nodup) :
    alGet (fm.foldl (fun l e => alSet l e.1 (f e.2)) l0) a =
      match alGet fm a with
      | some p => some (f p)
      | none => alGet l0 a := by
  induction fm generalizing l0 with
  | nil => simp [alGet]
  | cons e fm ih =>
    have hn' : (keys fm).Nodup := by
      unfold keys at hn ⊢; simp only [List.map_cons, List.nodup_cons] at hn; exact hn.2
    have hne : e.1 ∉ keys fm := by
      unfold keys at hn ⊢; simp only [List.map_cons, List.nodup_cons] at hn; exact hn.1
    rw [List.foldl_cons, ih _ hn', alGet_cons]
    by_cases hea : e.1 = a
    · subst hea
      rw [alGet_none_of_not_mem fm e.1 hne]
      simp [alGet_alSet]
    · have : ¬ a = e.1 := fun h => hea h.symm
      simp only [hea, ↓reduceIte, alGet_alSet, this]

theorem keys_fmNext_nodup (m : List (Addr × Pre)) (v : Vertex) (h : (keys m).Nodup) : (keys (fmNext m v)).Nodup := by
  unfold fmNext
  split
  · exact h
  · unfold fmUpdate
    simp only [fmSet_eq]
    exact keys_nodup_alSet _ _ _ (keys_nodup_alSet _ _ _ h)

theorem keys_fmNext_sub (m : List (Addr × Pre)) (v : Vertex) (x : Addr) (h : x ∈ keys m) : x ∈ keys (fmNext m v) := by
  unfold fmNext
  split
  · exact h
  · unfold fmUpdate
    simp only [fmSet_eq]
    exact keys_sub_alSet _ _ _ _ (keys_sub_alSet _ _ _ _ h)

theorem keys_fold_nodup (mv : List Vertex) (m : List (Addr × Pre)) (h : (keys m).Nodup) : (keys (mv.foldl fmNext m)).Nodup := by
  induction mv generalizing m with
  | nil => exact h
  | cons v mv ih => exact ih _ (keys_fmNext_nodup m v h)

theorem keys_fold_sub (mv : List Vertex) (m : List (Addr × Pre)) (x : Addr) (h : x ∈ keys m) : x ∈ keys (mv.foldl fmNext m) := by
  induction mv generalizing m with
  | nil => exact h
  | cons v mv ih => exact ih _ (keys_fmNext_sub m v x h)

def fm0 (cp : List (Addr × Melange)) : List (Addr × Pre) := cp.map (fun e => (e.1, { inn := e.2 }))

theorem keys_fm0 (cp : List (Addr × Melange)) : keys (fm0 cp) = keys cp := by
  unfold fm0 keys; rw [List.map_map]; rfl

theorem alGet_fm0 (cp : List (Addr × Melange)) (a : Addr) : alGet (fm0 cp) a = (alGet cp a).map (fun m => { inn := m }) := by
  induction cp with
  | nil => rfl
  | cons e cp ih =>
    unfold fm0 at ih ⊢
    rw [List.map_cons, alGet_cons, alGet_cons, ih]
    by_cases h : e.1 = a
    · simp [h]
    · simp [h]

theorem fmFinal_exact (p : Pre) (hp : PreC p) (h : val p.out ≤ val p.inn) :
    val (fmFinal p) + val p.out = val p.inn ∧ Canon (fmFinal p) := by
  unfold fmFinal drain
  rcases transfer_cases p.out p.inn Melange.zero hp.2 hp.1 canon_zero with ⟨f', t', he, hv, _, hc, _⟩ | ⟨_, hlt⟩ | ⟨_, hov⟩
  · rw [he]; exact ⟨hv, hc⟩
  · omega
  · have := val_lt_capacity p.out hp.2
    rw [val_zero] at hov; omega

/-- **Checkpoint exactness**: after folding the moved vertices `mv` into the funds map, the value stored for
wallet `a` is checkpoint + inflow − outflow over `mv` — whenever that is a representable, non-negative
amount (the two excluded cases are the known findings: a net debt is clipped, an inflow beyond 2^64 units
overflows). -/
theorem newCpFunds_exact (b : Book) (mv : List Vertex) (a : Addr)
    (hk : (keys b.cpFunds).Nodup) (hcp : ∀ e ∈ b.cpFunds, Canon e.2) (hmv : ∀ v ∈ mv, Canon v.trx.spice)
    (hin : cpVal b a + inflow a mv < capacity) (hout : outflow a mv < capacity)
    (hcov : outflow a mv ≤ cpVal b a + inflow a mv) :
    val ((alGet (newCpFunds b mv) a).getD Melange.zero) + outflow a mv = cpVal b a + inflow a mv ∧
    Canon ((alGet (newCpFunds b mv) a).getD Melange.zero) := by
  have hcpv : cpVal b a = val ((alGet b.cpFunds a).getD Melange.zero) := rfl
  -- the starting entry of `a`
  have h0 : fmGet (fm0 b.cpFunds) a = { inn := (alGet b.cpFunds a).getD Melange.zero } := by
    rw [fmGet_eq, alGet_fm0]
    cases alGet b.cpFunds a <;> rfl
  have hcanon0 : Canon ((alGet b.cpFunds a).getD Melange.zero) := by
    cases hg : alGet b.cpFunds a with
    | none => exact canon_zero
    | some m =>
      unfold alGet at hg
      cases hf : b.cpFunds.find? (·.1 == a) with
      | none => rw [hf] at hg; cases hg
      | some y =>
        rw [hf] at hg
        simp only [Option.map_some, Option.some.injEq] at hg
        rw [← hg]
        exact hcp y (List.mem_of_find?_eq_some hf)
  have hp0 : PreC (fmGet (fm0 b.cpFunds) a) := by rw [h0]; exact ⟨hcanon0, canon_zero⟩
  have hfold := fold_fmNext_get mv (fm0 b.cpFunds) a hmv hp0
    (by rw [h0]; simp only; rw [← hcpv]; exact hin) (by rw [h0]; simp only; rw [val_zero]; omega)
  rw [h0] at hfold
  simp only [val_zero, Nat.zero_add] at hfold
  rw [← hcpv] at hfold
  obtain ⟨hi, ho, hpc⟩ := hfold
  -- write-back
  have hnd : (keys (mv.foldl fmNext (fm0 b.cpFunds))).Nodup := keys_fold_nodup mv _ (by rw [keys_fm0]; exact hk)
  have hwb := alGet_fold_set (mv.foldl fmNext (fm0 b.cpFunds)) fmFinal b.cpFunds a hnd
  have hnew : newCpFunds b mv = (mv.foldl fmNext (fm0 b.cpFunds)).foldl (fun l e => alSet l e.1 (fmFinal e.2)) b.cpFunds := rfl
  rw [hnew, hwb]
  cases hg : alGet (mv.foldl fmNext (fm0 b.cpFunds)) a with
  | some p =>
    have hp : fmGet (mv.foldl fmNext (fm0 b.cpFunds)) a = p := by rw [fmGet_eq, hg]; rfl
    rw [hp] at hi ho hpc
    have := fmFinal_exact p hpc (by omega)
    simp only [Option.getD_some]
    exact ⟨by omega, this.2⟩
  | none =>
    have hp : fmGet (mv.foldl fmNext (fm0 b.cpFunds)) a = {} := by rw [fmGet_eq, hg]; rfl
    rw [hp] at hi ho
    have hz : val ({} : Pre).inn = 0 := val_zero
    have hz' : val ({} : Pre).out = 0 := val_zero
    rw [hz] at hi; rw [hz'] at ho
    have hnot : a ∉ keys b.cpFunds := by
      intro hm
      have hin' : a ∈ keys (mv.foldl fmNext (fm0 b.cpFunds)) := keys_fold_sub mv _ a (by rw [keys_fm0]; exact hm)
      obtain ⟨x, hx, hxa⟩ := List.mem_map.mp hin'
      obtain ⟨v, hv⟩ := alGet_some_of_any (mv.foldl fmNext (fm0 b.cpFunds)) a (List.any_eq_true.mpr ⟨x, hx, by simp [hxa]⟩)
      rw [hg] at hv; cases hv
    simp only
    rw [alGet_none_of_not_mem b.cpFunds a hnot]
    simp only [Option.getD_none, val_zero]
    exact ⟨by omega, canon_zero⟩


/-! ### the checkpoint keeps one entry per wallet in every reachable book -/
theorem Tr.cpFunds_eq {b b' : Book} (t : Tr b b') : b'.cpFunds = b.cpFunds := by
  cases t with
  | misc h => exact h.2.2.2.2.1
  | drop v _ _ => rfl
  | insert v es _ _ _ _ => rfl
  | unlink h _ => rfl

theorem Steps.cpFunds_eq {b b' : Book} (s : Steps b b') : b'.cpFunds = b.cpFunds := by
  induction s with
  | refl => rfl
  | tail _ t ih => rw [t.cpFunds_eq, ih]

theorem keys_fold_alSet_nodup {β γ} (fm : List (Addr × γ)) (f : γ → β) (l0 : List (Addr × β)) (h : (keys l0).Nodup) :
    (keys (fm.foldl (fun l e => alSet l e.1 (f e.2)) l0)).Nodup := by
  induction fm generalizing l0 with
  | nil => exact h
  | cons e fm ih => exact ih _ (keys_nodup_alSet l0 e.1 (f e.2) h)

theorem keys_newCpFunds (b : Book) (mv : List Vertex) (h : (keys b.cpFunds).Nodup) : (keys (newCpFunds b mv)).Nodup :=
  keys_fold_alSet_nodup _ fmFinal b.cpFunds h

theorem Reachable.cpKeys {b : Book} (r : Reachable b) : (keys b.cpFunds).Nodup := by
  induction r with
  | init self => simp [keys]
  | genesis _ hv hc hi hpk hcf h _ =>
    have := (createGenesis_ok h).2.2.2.2.2.2.2.2.2.2.2.2.2.2
    rw [this, hcf]; simp [keys]
  | createLeaf trx o1 o2 tip _ hf ih => rw [(steps_createLeaf _ trx o1 o2 tip hf).cpFunds_eq]; exact ih
  | addLeaf v _ ih => rw [(steps_addLeaf _ v).cpFunds_eq]; exact ih
  | @retry b r ih => rw [(steps_retryParked _ r.inv.parkOk).cpFunds_eq]; exact ih
  | trust a _ ih => rw [(coreEq_addTrusted _ a).2.2.2.2.1]; exact ih
  | untrust a _ ih => rw [(coreEq_removeTrusted _ a).2.2.2.2.1]; exact ih
  | @truncate b cut _ ih =>
    cases hr : (b.truncateAt cut).2 with
    | error e => rw [(truncateAt_err hr)]; exact ih
    | ok u =>
      obtain ⟨mv, _, _, _, _, _, _, hcp, _⟩ := truncateAt_ok (b := b) (cut := cut) (by rw [hr])
      rw [hcp]; exact keys_newCpFunds b mv ih
  | steps _ s ih => rw [s.cpFunds_eq]; exact ih

end CModel.Book
