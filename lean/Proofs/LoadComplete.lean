import Proofs.LoadDag
import Proofs.DagComplete
/-! C14: loading an honest peer's vertices, in any order, reproduces vertices, index and edges. -/
namespace CModel.Book
open CModel

/-- `x` is a strict ancestor of `h` along the edge list -/
inductive Anc (es : List (Hash × Hash)) : Hash → Hash → Prop
  | base {x h} : (x, h) ∈ es → Anc es x h
  | step {x y h} : (x, y) ∈ es → Anc es y h → Anc es x h

theorem Anc.rank {es : List (Hash × Hash)} {rank : Hash → Nat} (hr : ∀ e ∈ es, rank e.1 < rank e.2) {x h : Hash}
    (a : Anc es x h) : rank x < rank h := by
  induction a with
  | base he => exact hr _ he
  | step he _ ih => have := hr _ he; simp only at this; omega

theorem mem_parentsOf (b : Book) (h p : Hash) : p ∈ b.parentsOf h ↔ (p, h) ∈ b.edges := by
  unfold parentsOf
  simp only [List.mem_map, List.mem_filter, beq_iff_eq]
  constructor
  · rintro ⟨e, ⟨he, h2⟩, rfl⟩
    have : e = (e.1, h) := by rw [← h2]
    rw [← this]; exact he
  · intro he; exact ⟨(p, h), ⟨he, rfl⟩, rfl⟩

theorem mem_dedupFold {α} [BEq α] (l : List α) (g : List α → α → Bool) (acc : List α) (x : α)
    (h : x ∈ l.foldl (fun acc p => if g acc p then acc else acc ++ [p]) acc) : x ∈ acc ∨ x ∈ l := by
  induction l generalizing acc with
  | nil => exact Or.inl h
  | cons a l ih =>
    simp only [List.foldl_cons] at h
    rcases ih _ h with h1 | h1
    · split at h1
      · exact Or.inl h1
      · rcases List.mem_append.mp h1 with h2 | h2
        · exact Or.inl h2
        · simp only [List.mem_singleton] at h2; exact Or.inr (h2 ▸ List.mem_cons_self)
    · exact Or.inr (List.mem_cons_of_mem _ h1)

theorem bfs_sound (b : Book) (h : Hash) (fuel : Nat) (frontier visited : List Hash)
    (hf : ∀ x ∈ frontier, Anc b.edges x h) (hv : ∀ x ∈ visited, Anc b.edges x h) :
    ∀ x ∈ b.bfs fuel frontier visited, Anc b.edges x h := by
  induction fuel generalizing frontier visited with
  | zero => exact hv
  | succ n ih =>
    unfold bfs
    split
    · exact hv
    · have hnext : ∀ x ∈ (frontier.flatMap b.parentsOf).foldl
          (fun acc p => if acc.contains p || visited.contains p then acc else acc ++ [p]) [], Anc b.edges x h := by
        intro x hx
        rcases mem_dedupFold _ (fun acc p => acc.contains p || visited.contains p) [] x hx with h1 | h1
        · cases h1
        · obtain ⟨y, hy, hxy⟩ := List.mem_flatMap.mp h1
          exact Anc.step ((mem_parentsOf b y x).mp hxy) (hf y hy)
      apply ih
      · exact hnext
      · intro x hx
        rcases List.mem_append.mp hx with h1 | h1
        · exact hv x h1
        · exact hnext x h1

theorem ancestors_sound (b : Book) (h x : Hash) (hx : x ∈ b.ancestors h) : Anc b.edges x h := by
  unfold ancestors at hx
  have hfirst : ∀ y ∈ (b.parentsOf h).foldl (fun acc p => if acc.contains p then acc else acc ++ [p]) [], Anc b.edges y h := by
    intro y hy
    rcases mem_dedupFold _ (fun acc p => acc.contains p) [] y hy with h1 | h1
    · cases h1
    · exact Anc.base ((mem_parentsOf b h y).mp h1)
  exact bfs_sound b h _ _ _ hfirst hfirst x hx

/-- with a rank that increases along every edge, adding an edge "downwards in rank" never closes a loop -/
theorem reaches_false_of_rank (b : Book) (rank : Hash → Nat) (hr : ∀ e ∈ b.edges, rank e.1 < rank e.2) (p v : Hash)
    (hpv : rank p < rank v) : b.reaches v p = false := by
  cases hh : b.reaches v p with
  | false => rfl
  | true =>
    unfold reaches at hh
    have := (ancestors_sound b p v (by simpa using hh)).rank hr
    omega

end CModel.Book

namespace CModel.Book
open CModel

/-! ### phase 1: every vertex of the stream is inserted -/
def insertedIndex (vs : List Vertex) : List (Hash × Hash) := vs.map (fun v => (v.trx.hash, v.hash))

theorem foldl_loadIns_all (vs : List Vertex) (b : Book)
    (hv : ((b.verts ++ vs).map (·.hash)).Nodup) (ht : (b.index.map (·.1) ++ vs.map (·.trx.hash)).Nodup) :
    vs.foldl loadIns (b, none) = ({ b with verts := b.verts ++ vs, index := b.index ++ insertedIndex vs }, none) := by
  induction vs generalizing b with
  | nil => simp [insertedIndex]
  | cons v vs ih =>
    have hfreshT : b.indexHas v.trx.hash = false := by
      rw [List.nodup_append] at ht
      have := ht.2.2
      unfold indexHas
      apply Bool.eq_false_iff.mpr
      intro hany
      obtain ⟨x, hx, hxe⟩ := List.any_eq_true.mp hany
      exact this x.1 (List.mem_map.mpr ⟨x, hx, rfl⟩) v.trx.hash (by simp) (by simpa using hxe)
    have hfreshV : b.hasVertex v.hash = false := by
      rw [List.map_append, List.nodup_append] at hv
      have := hv.2.2
      apply Bool.eq_false_iff.mpr
      intro hany
      obtain ⟨x, hx, hxe⟩ := (hasVertex_iff b v.hash).mp hany
      exact this x.hash (List.mem_map.mpr ⟨x, hx, rfl⟩) v.hash (by simp) hxe
    have hstep : loadIns (b, none) v =
        ({ b with index := b.index ++ [(v.trx.hash, v.hash)], verts := b.verts ++ [v] }, none) := by
      unfold loadIns
      simp only [indexSave, hfreshT, Bool.false_eq_true, ↓reduceIte, addVertex]
      have : ({ b with index := b.index ++ [(v.trx.hash, v.hash)] } : Book).hasVertex v.hash = false := hfreshV
      simp only [this, Bool.false_eq_true, ↓reduceIte]
    rw [List.foldl_cons, hstep, ih]
    · simp [insertedIndex, List.append_assoc]
    · simpa [List.append_assoc] using hv
    · simpa [List.append_assoc] using ht

/-! ### phase 2: every declared parent edge is added -/
def edgesOf (v : Vertex) : List (Hash × Hash) :=
  if v.left = 0 then [] else if v.right = v.left then [(v.left, v.hash)] else [(v.left, v.hash), (v.right, v.hash)]

theorem edgesOf_snd (v : Vertex) (e : Hash × Hash) (h : e ∈ edgesOf v) : e.2 = v.hash := by
  unfold edgesOf at h
  split at h
  · cases h
  · split at h
    · simp only [List.mem_singleton] at h; rw [h]
    · simp only [List.mem_cons, List.not_mem_nil, or_false] at h
      rcases h with h | h <;> rw [h]

theorem hasVertex_edges (b : Book) (es : List (Hash × Hash)) (h : Hash) :
    ({ b with edges := es } : Book).hasVertex h = b.hasVertex h := rfl

theorem addEdge_ok (b : Book) (rank : Hash → Nat) (hr : ∀ e ∈ b.edges, rank e.1 < rank e.2) (p v : Hash)
    (hp : b.hasVertex p = true) (hv : b.hasVertex v = true) (hpv : rank p < rank v) (hnew : (p, v) ∉ b.edges) :
    b.addEdge p v = some { b with edges := b.edges ++ [(p, v)] } := by
  unfold addEdge
  have hne : (p == v) = false := by
    apply Bool.eq_false_iff.mpr
    intro e
    have : p = v := by simpa using e
    rw [this] at hpv; omega
  have hc : b.edges.contains (p, v) = false := by
    apply Bool.eq_false_iff.mpr
    intro e
    exact hnew (by simpa using e)
  simp [hp, hv, hne, hnew, reaches_false_of_rank b rank hr p v hpv]

theorem loadLink_ok (b : Book) (v : Vertex) (rank : Hash → Nat)
    (hr : ∀ e ∈ b.edges ++ edgesOf v, rank e.1 < rank e.2)
    (hlive : ∀ e ∈ edgesOf v, b.hasVertex e.1 = true) (hself : b.hasVertex v.hash = true)
    (hfresh : ∀ e ∈ b.edges, e.2 ≠ v.hash) :
    loadLink b v = some { b with edges := b.edges ++ edgesOf v } := by
  unfold loadLink
  by_cases hl : v.left = 0
  · have : edgesOf v = [] := by unfold edgesOf; simp [hl]
    rw [this]
    simp [linkNew, hl]
  · have hl' : (v.left == 0) = false := by
      apply Bool.eq_false_iff.mpr; intro e; exact hl (by simpa using e)
    have hr1 : ∀ e ∈ b.edges, rank e.1 < rank e.2 := fun e he => hr e (List.mem_append_left _ he)
    by_cases hrl : v.right = v.left
    · have he : edgesOf v = [(v.left, v.hash)] := by unfold edgesOf; simp [hl, hrl]
      rw [he] at hr hlive ⊢
      have h1 := addEdge_ok b rank hr1 v.left v.hash (hlive (v.left, v.hash) (by simp)) hself
        (hr (v.left, v.hash) (by simp)) (fun hm => hfresh _ hm rfl)
      simp only [linkNew, hl', Bool.false_eq_true, ↓reduceIte, h1, hrl, beq_self_eq_true]
    · have he : edgesOf v = [(v.left, v.hash), (v.right, v.hash)] := by unfold edgesOf; simp [hl, hrl]
      rw [he] at hr hlive ⊢
      have h1 := addEdge_ok b rank hr1 v.left v.hash (hlive (v.left, v.hash) (by simp)) hself
        (hr (v.left, v.hash) (by simp)) (fun hm => hfresh _ hm rfl)
      have hrl' : (v.right == v.left) = false := by
        apply Bool.eq_false_iff.mpr; intro e; exact hrl (by simpa using e)
      have h2 := addEdge_ok { b with edges := b.edges ++ [(v.left, v.hash)] } rank
        (by
          intro e hm
          simp only [List.mem_append, List.mem_singleton] at hm
          rcases hm with hm | hm
          · exact hr1 e hm
          · rw [hm]; exact hr (v.left, v.hash) (by simp))
        v.right v.hash (hlive (v.right, v.hash) (by simp)) hself (hr (v.right, v.hash) (by simp))
        (by
          intro hm
          simp only [List.mem_append, List.mem_singleton, Prod.mk.injEq] at hm
          rcases hm with hm | hm
          · exact hfresh _ hm rfl
          · exact hrl hm.1)
      simp only [linkNew, hl', Bool.false_eq_true, ↓reduceIte, h1, hrl', h2]
      simp [List.append_assoc]

end CModel.Book

namespace CModel.Book
open CModel

def isSelf (v : Vertex) : Bool := v.trx.issuer == v.signer

theorem foldl_loadLnk_all (scan done : List Vertex) (b : Book) (seen : Bool) (rank : Hash → Nat)
    (hnd : ((done ++ scan).map (·.hash)).Nodup)
    (hedges : b.edges = done.flatMap edgesOf)
    (hrank : ∀ v ∈ done ++ scan, ∀ e ∈ edgesOf v, rank e.1 < rank e.2)
    (hlive : ∀ v ∈ scan, b.hasVertex v.hash = true ∧ ∀ e ∈ edgesOf v, b.hasVertex e.1 = true)
    (hguard : ∀ v ∈ scan, v.trx.isEmpty = false ∧ v.trx.spice.canonB = true)
    (hseen : seen = done.any isSelf)
    (hone : ∀ v ∈ done ++ scan, ∀ w ∈ done ++ scan, isSelf v = true → isSelf w = true → v = w) :
    ∃ s, scan.foldl loadLnk (b, seen, none) = ({ b with edges := b.edges ++ scan.flatMap edgesOf }, s, none) := by
  induction scan generalizing done b seen with
  | nil => exact ⟨seen, by simp⟩
  | cons v scan ih =>
    have hvmem : v ∈ done ++ v :: scan := by simp
    -- the self-sealed guard
    have hg1 : (isSelf v && seen) = false := by
      apply Bool.eq_false_iff.mpr
      intro hb
      simp only [Bool.and_eq_true] at hb
      rw [hseen] at hb
      obtain ⟨w, hw, hws⟩ := List.any_eq_true.mp hb.2
      have := hone v hvmem w (List.mem_append_left _ hw) hb.1 hws
      subst this
      -- v ∈ done and v at the head of the rest: the hash list would have a duplicate
      rw [List.map_append, List.nodup_append] at hnd
      exact hnd.2.2 v.hash (List.mem_map.mpr ⟨v, hw, rfl⟩) v.hash (by simp) rfl
    obtain ⟨hself, hlv⟩ := hlive v List.mem_cons_self
    obtain ⟨hne, hcan⟩ := hguard v List.mem_cons_self
    have hfresh : ∀ e ∈ b.edges, e.2 ≠ v.hash := by
      intro e he
      rw [hedges] at he
      obtain ⟨w, hw, hew⟩ := List.mem_flatMap.mp he
      rw [edgesOf_snd w e hew]
      intro heq
      rw [List.map_append, List.nodup_append] at hnd
      exact hnd.2.2 w.hash (List.mem_map.mpr ⟨w, hw, rfl⟩) v.hash (by simp) heq
    have hr : ∀ e ∈ b.edges ++ edgesOf v, rank e.1 < rank e.2 := by
      intro e he
      rcases List.mem_append.mp he with h1 | h1
      · rw [hedges] at h1
        obtain ⟨w, hw, hew⟩ := List.mem_flatMap.mp h1
        exact hrank w (List.mem_append_left _ hw) e hew
      · exact hrank v hvmem e h1
    have hlink := loadLink_ok b v rank hr hlv hself hfresh
    have hstep : loadLnk (b, seen, none) v = ({ b with edges := b.edges ++ edgesOf v }, seen || isSelf v, none) := by
      unfold loadLnk
      have h1 : (v.trx.issuer == v.signer && seen) = false := hg1
      simp only [h1, Bool.false_eq_true, ↓reduceIte, hne, hcan, Bool.not_true, hlink]
      rfl
    rw [List.foldl_cons, hstep]
    obtain ⟨s, hs⟩ := ih (done ++ [v]) { b with edges := b.edges ++ edgesOf v } (seen || isSelf v)
      (by simpa [List.append_assoc] using hnd)
      (by simp [hedges, List.flatMap_append])
      (by intro w hw; exact hrank w (by simpa [List.append_assoc] using hw))
      (by intro w hw; exact hlive w (List.mem_cons_of_mem _ hw))
      (by intro w hw; exact hguard w (List.mem_cons_of_mem _ hw))
      (by rw [hseen]; simp [List.any_append])
      (by intro x hx y hy; exact hone x (by simpa [List.append_assoc] using hx) y (by simpa [List.append_assoc] using hy))
    exact ⟨s, by rw [hs]; simp [List.flatMap_cons, List.append_assoc]⟩

end CModel.Book

namespace CModel.Book
open CModel

/-! ### at most one self-sealed vertex in a reachable ledger -/
def SelfOne (b : Book) : Prop := ∀ v ∈ b.verts, ∀ w ∈ b.verts, isSelf v = true → isSelf w = true → v = w

theorem SelfOne.of_sub {b b' : Book} (h : SelfOne b) (hs : ∀ v ∈ b'.verts, v ∈ b.verts) : SelfOne b' :=
  fun v hv w hw => h v (hs v hv) w (hs w hw)

theorem SelfOne.tr {b b' : Book} (h : SelfOne b) (t : Tr b b') : SelfOne b' := by
  cases t with
  | misc ce => exact h.of_sub (fun v hv => by rw [ce.1] at hv; exact hv)
  | drop v0 _ _ =>
    exact h.of_sub (fun v hv => by
      simp only [indexRemove, deleteVertex, List.mem_filter] at hv; exact hv.1)
  | insert v0 es ok _ _ _ =>
    have hns : isSelf v0 = false := by
      unfold isSelf
      apply Bool.eq_false_iff.mpr
      intro e
      exact ok.notOwn (by simpa using e)
    intro v hv w hw sv sw
    simp only [List.mem_append, List.mem_singleton] at hv hw
    rcases hv with hv | rfl
    · rcases hw with hw | rfl
      · exact h v hv w hw sv sw
      · rw [hns] at sw; cases sw
    · rw [hns] at sv; cases sv
  | unlink _ _ => exact h.of_sub (fun v hv => hv)

theorem SelfOne.steps {b b' : Book} (h : SelfOne b) (s : Steps b b') : SelfOne b' := by
  induction s with
  | refl => exact h
  | tail _ t ih => exact ih.tr t

theorem Reachable.selfOne {b : Book} (r : Reachable b) : SelfOne b := by
  induction r with
  | init self => intro v hv; cases hv
  | genesis _ hv _ _ _ _ h _ =>
    obtain ⟨_, _, _, _, _, e1, _⟩ := createGenesis_ok h
    rw [hv] at e1
    intro v hvm w hwm _ _
    rw [e1] at hvm hwm
    simp only [List.nil_append, List.mem_singleton] at hvm hwm
    rw [hvm, hwm]
  | createLeaf trx o1 o2 tip _ hf ih => exact ih.steps (steps_createLeaf _ trx o1 o2 tip hf)
  | addLeaf v _ ih => exact ih.steps (steps_addLeaf _ v)
  | @retry b r0 ih => exact ih.steps (steps_retryParked _ r0.inv.parkOk)
  | trust a _ ih => exact ih.tr (Tr.misc (coreEq_addTrusted _ a))
  | untrust a _ ih => exact ih.tr (Tr.misc (coreEq_removeTrusted _ a))
  | steps _ s ih => exact ih.steps s
  | @truncate b cut _ ih =>
    cases hr : (b.truncateAt cut).2 with
    | error e => rw [truncateAt_err hr]; exact ih
    | ok u =>
      have hok : (b.truncateAt cut).2 = .ok () := hr
      obtain ⟨mv, _, _, _, _, hverts, _⟩ := truncateAt_ok hok
      exact ih.of_sub (fun v hv => by rw [hverts] at hv; exact (List.mem_filter.mp hv).1)

end CModel.Book

namespace CModel.Book
open CModel

theorem loadDag_of_folds (dst : Book) (stream scan : List Vertex) (root : Vertex) (b1 b2 : Book) (sf : Bool)
    (hl : dst.loaded = false) (h1 : stream.foldl loadIns (dst, none) = (b1, none))
    (h2 : scan.foldl loadLnk (b1, false, none) = (b2, sf, none))
    (hr : b2.roots.any (·.hash == root.hash) = true) :
    (dst.loadDag stream scan (some root)).2 = .ok () ∧
    (dst.loadDag stream scan (some root)).1.loaded = true ∧
    (dst.loadDag stream scan (some root)).1.genesis = root.trx.issuer ∧
    (dst.loadDag stream scan (some root)).1.verts = b2.verts ∧
    (dst.loadDag stream scan (some root)).1.index = b2.index ∧
    (dst.loadDag stream scan (some root)).1.edges = b2.edges := by
  rw [loadDag_eq]
  simp only [hl, Bool.false_eq_true, ↓reduceIte, h1, h2, hr, Bool.not_true]
  simp

theorem mem_edgesOf_iff_src {src : Book} (r : Reachable src) (hcp : src.cpVerts = []) (e : Hash × Hash) :
    (∃ v ∈ src.verts, e ∈ edgesOf v) ↔ e ∈ src.edges := by
  constructor
  · rintro ⟨v, hv, he⟩
    unfold edgesOf at he
    split at he
    · cases he
    · rename_i hl
      have hd := r.dagComplete v hv hl
      have nocp : ∀ p, src.cpHasVertex p = false := by
        intro p; unfold cpHasVertex; rw [hcp]; rfl
      have hL : (v.left, v.hash) ∈ src.edges := by
        rcases hd.1 with ⟨_, h2⟩ | ⟨_, h2⟩
        · exact h2
        · rw [nocp] at h2; cases h2
      have hR : (v.right, v.hash) ∈ src.edges := by
        rcases hd.2 with ⟨_, h2⟩ | ⟨_, h2⟩
        · exact h2
        · rw [nocp] at h2; cases h2
      split at he
      · simp only [List.mem_singleton] at he; rw [he]; exact hL
      · simp only [List.mem_cons, List.not_mem_nil, or_false] at he
        rcases he with he | he <;> rw [he]
        · exact hL
        · exact hR
  · intro he
    obtain ⟨v, hv, hh, hp⟩ := r.edgeInv.declared e he
    have hl : v.left ≠ 0 := by
      intro hz
      exact r.rootsBare v hv hz e he hh.symm
    refine ⟨v, hv, ?_⟩
    have ee : e = (e.1, v.hash) := by rw [hh]
    unfold edgesOf
    rw [if_neg hl]
    split
    · rename_i hrl
      rw [ee]
      rcases hp with hp | hp
      · simp [hp]
      · simp [hp, hrl]
    · rw [ee]
      rcases hp with hp | hp
      · simp [hp]
      · simp [hp]

/-- **Loading an honest peer's ledger reproduces it.** `src` is any reachable ledger that has not been
truncated; `stream` (the order the vertices arrive in) and `scan` (the order the loader visits them in) are
arbitrary arrangements of its vertices. Then LoadDag on a fresh node succeeds, and the node ends up with
exactly the peer's vertices, exactly its edges, an index entry per transaction, `loaded`, and the genesis
address of the root it was given. -/
theorem loadDag_reproduces (src : Book) (r : Reachable src) (hcp : src.cpVerts = [])
    (hgen : ∀ v ∈ src.verts, v.left = 0 → v.trx.isEmpty = false)
    (dst : Book) (hd1 : dst.verts = []) (hd2 : dst.edges = []) (hd3 : dst.index = []) (hd4 : dst.loaded = false)
    (stream scan : List Vertex) (hs : stream.Perm src.verts) (hsc : scan.Perm src.verts)
    (root : Vertex) (hroot : root ∈ src.verts) (hrootBare : ∀ e ∈ src.edges, e.2 ≠ root.hash) :
    (dst.loadDag stream scan (some root)).2 = .ok () ∧
    (dst.loadDag stream scan (some root)).1.loaded = true ∧
    (dst.loadDag stream scan (some root)).1.genesis = root.trx.issuer ∧
    (dst.loadDag stream scan (some root)).1.verts = stream ∧
    (dst.loadDag stream scan (some root)).1.index = insertedIndex stream ∧
    (∀ e, e ∈ (dst.loadDag stream scan (some root)).1.edges ↔ e ∈ src.edges) := by
  have hinv := r.inv
  have hndV : (src.verts.map (·.hash)).Nodup := by
    have := hinv.idx.nodupV
    unfold allV at this
    rw [hcp, List.append_nil] at this
    exact this
  have hndT : (src.verts.map (·.trx.hash)).Nodup := by
    have := hinv.idx.nodupT
    unfold allV at this
    rw [hcp, List.append_nil] at this
    exact this
  -- phase 1
  have p1 := foldl_loadIns_all stream dst
    (by rw [hd1, List.nil_append]; exact (hs.map _).nodup_iff.mpr hndV)
    (by rw [hd3]; simp only [List.map_nil, List.nil_append]; exact (hs.map _).nodup_iff.mpr hndT)
  rw [hd1, hd3, List.nil_append, List.nil_append] at p1
  -- phase 2
  obtain ⟨rank, hrank⟩ := r.edgeInv.acyclic
  have memS : ∀ v, v ∈ scan ↔ v ∈ src.verts := fun v => hsc.mem_iff
  have memSt : ∀ v, v ∈ stream ↔ v ∈ src.verts := fun v => hs.mem_iff
  obtain ⟨b1, hb1⟩ : ∃ b1 : Book, b1 = { dst with verts := stream, index := insertedIndex stream } := ⟨_, rfl⟩
  rw [← hb1] at p1
  have hb1v : b1.verts = stream := by rw [hb1]
  have hb1e : b1.edges = [] := by rw [hb1]; exact hd2
  have hb1i : b1.index = insertedIndex stream := by rw [hb1]
  have hb1live : ∀ h, (∃ v ∈ src.verts, v.hash = h) → b1.hasVertex h = true := by
    intro h ⟨v, hv, hh⟩
    exact (hasVertex_iff b1 h).mpr ⟨v, by rw [hb1v]; exact (memSt v).mpr hv, hh⟩
  obtain ⟨sfin, p2⟩ := foldl_loadLnk_all scan [] b1 false rank
    (by simp only [List.nil_append]; exact (hsc.map _).nodup_iff.mpr hndV)
    (by rw [hb1e]; rfl)
    (by
      intro v hv e he
      simp only [List.nil_append] at hv
      exact hrank e ((mem_edgesOf_iff_src r hcp e).mp ⟨v, (memS v).mp hv, he⟩))
    (by
      intro v hv
      refine ⟨hb1live _ ⟨v, (memS v).mp hv, rfl⟩, fun e he => ?_⟩
      have hsrc := (mem_edgesOf_iff_src r hcp e).mp ⟨v, (memS v).mp hv, he⟩
      have := (r.edgeInv.live e hsrc).1
      exact hb1live _ ((hasVertex_iff src e.1).mp this))
    (by
      intro v hv
      have hvs := (memS v).mp hv
      refine ⟨?_, hinv.canon v (by unfold allV; exact List.mem_append_left _ hvs)⟩
      rcases hinv.sealing v (by unfold allV; exact List.mem_append_left _ hvs) with hg | hsl
      · exact hgen v hvs hg.1
      · exact hsl.2.2)
    rfl
    (by
      intro v hv w hw
      simp only [List.nil_append] at hv hw
      exact r.selfOne v ((memS v).mp hv) w ((memS w).mp hw))
  obtain ⟨b2, hb2⟩ : ∃ b2 : Book, b2 = { b1 with edges := b1.edges ++ scan.flatMap edgesOf } := ⟨_, rfl⟩
  rw [← hb2] at p2
  have hb2v : b2.verts = stream := by rw [hb2]; exact hb1v
  have hb2i : b2.index = insertedIndex stream := by rw [hb2]; exact hb1i
  have hedges2 : ∀ e, e ∈ b2.edges ↔ e ∈ src.edges := by
    intro e
    have : b2.edges = scan.flatMap edgesOf := by rw [hb2]; simp [hb1e]
    rw [this, List.mem_flatMap]
    constructor
    · rintro ⟨v, hv, he⟩; exact (mem_edgesOf_iff_src r hcp e).mp ⟨v, (memS v).mp hv, he⟩
    · intro he
      obtain ⟨v, hv, hve⟩ := (mem_edgesOf_iff_src r hcp e).mpr he
      exact ⟨v, (memS v).mpr hv, hve⟩
  have hrootOK : b2.roots.any (·.hash == root.hash) = true := by
    apply List.any_eq_true.mpr
    refine ⟨root, ?_, by simp⟩
    unfold roots isRoot
    apply List.mem_filter.mpr
    refine ⟨by rw [hb2v]; exact (memSt root).mpr hroot, ?_⟩
    simp only [Bool.not_eq_eq_eq_not, Bool.not_true, List.any_eq_false, beq_iff_eq]
    intro e he
    exact hrootBare e ((hedges2 e).mp he)
  obtain ⟨c1, c2, c3, c4, c5, c6⟩ := loadDag_of_folds dst stream scan root b1 b2 sfin hd4 p1 p2 hrootOK
  refine ⟨c1, c2, c3, by rw [c4, hb2v], by rw [c5, hb2i], fun e => by rw [c6]; exact hedges2 e⟩

end CModel.Book
