import CModel.Lockset
/-! C18: mutual exclusion invariant of the lock machine. -/
namespace CModel.Lockset

/-- two different goroutines never hold the same lock in conflicting modes -/
def MutexInv (s : St) : Prop :=
  ∀ i j, i ≠ j → ∀ l e e', (l, e) ∈ (s i).held → (l, e') ∈ (s j).held → e = false ∧ e' = false

theorem mutex_start (prog : Gid → List Ev) : MutexInv (start prog) := by
  intro i j _ l e e' h
  simp [start] at h

theorem upd_self (s : St) (g : Gid) (v : G) : upd s g v g = v := by simp [upd]
theorem upd_other (s : St) (g j : Gid) (v : G) (h : j ≠ g) : upd s g v j = s j := by simp [upd, h]

theorem mutex_step {s s' : St} (h : MutexInv s) (st : Step s s') : MutexInv s' := by
  cases st with
  | @acq g l e r hr hc =>
    intro i j hij l' e1 e2 h1 h2
    by_cases hi : i = g
    · subst hi
      have hj : j ≠ i := fun x => hij x.symm
      rw [upd_self] at h1
      rw [upd_other _ _ _ _ hj] at h2
      simp only [List.mem_cons, Prod.mk.injEq] at h1
      rcases h1 with ⟨rfl, rfl⟩ | h1
      · exact hc j hj e2 h2
      · exact h i j hij l' e1 e2 h1 h2
    · rw [upd_other _ _ _ _ hi] at h1
      by_cases hj : j = g
      · subst hj
        rw [upd_self] at h2
        simp only [List.mem_cons, Prod.mk.injEq] at h2
        rcases h2 with ⟨rfl, rfl⟩ | h2
        · have := hc i hi e1 h1
          exact ⟨this.2, this.1⟩
        · exact h i j hij l' e1 e2 h1 h2
      · rw [upd_other _ _ _ _ hj] at h2
        exact h i j hij l' e1 e2 h1 h2
  | @rel g l e r hr =>
    intro i j hij l' e1 e2 h1 h2
    have sub : ∀ k, ∀ p, p ∈ (upd s g ⟨r, (s g).held.erase (l, e)⟩ k).held → p ∈ (s k).held := by
      intro k p hp
      by_cases hk : k = g
      · subst hk; rw [upd_self] at hp; exact List.mem_of_mem_erase hp
      · rw [upd_other _ _ _ _ hk] at hp; exact hp
    exact h i j hij l' e1 e2 (sub i _ h1) (sub j _ h2)
  | @acc g x w r hr =>
    intro i j hij l' e1 e2 h1 h2
    have sub : ∀ k, (upd s g ⟨r, (s g).held⟩ k).held = (s k).held := by
      intro k
      by_cases hk : k = g
      · subst hk; rw [upd_self]
      · rw [upd_other _ _ _ _ hk]
    rw [sub] at h1 h2
    exact h i j hij l' e1 e2 h1 h2
  | @atomicAcc g x r hr =>
    intro i j hij l' e1 e2 h1 h2
    have sub : ∀ k, (upd s g ⟨r, (s g).held⟩ k).held = (s k).held := by
      intro k
      by_cases hk : k = g
      · subst hk; rw [upd_self]
      · rw [upd_other _ _ _ _ hk]
    rw [sub] at h1 h2
    exact h i j hij l' e1 e2 h1 h2

theorem mutex_reach {prog : Gid → List Ev} {s : St} (h : Reach prog s) : MutexInv s := by
  induction h with
  | start => exact mutex_start prog
  | step _ st ih => exact mutex_step ih st

end CModel.Lockset
