import Proofs.LedgerIndex
/-! C10 (sealing rules) and the "every live vertex verified" part of C09, over the transition system. -/
namespace CModel.Book
open CModel

def isGenesisV (v : Vertex) : Prop := v.left = 0 ∧ v.right = 0

/-- Golden / silver rule for one vertex relative to the genesis address `g`. -/
def Sealed (g : Addr) (v : Vertex) : Prop :=
  v.trx.issuer ≠ v.signer ∧ v.trx.issuer ≠ g ∧ v.trx.isEmpty = false

def SealInv (b : Book) : Prop := ∀ v ∈ allV b, isGenesisV v ∨ Sealed b.genesis v

/-- Only canonical amounts are ever held (C05 ingress). -/
def CanonInv (b : Book) : Prop := ∀ v ∈ allV b, v.trx.spice.canonB = true

/-- Every live vertex passed `verify` when it was admitted. -/
def VokInv (b : Book) : Prop := ∀ v ∈ b.verts, v.vok = true

theorem mem_allV_drop {b : Book} {h t : Hash} {x : Vertex}
    (hx : x ∈ allV ((b.deleteVertex h).indexRemove t)) : x ∈ allV b := by
  simp only [allV, indexRemove_verts, deleteVertex_verts, indexRemove_cpVerts, deleteVertex_cpVerts,
    List.mem_append, List.mem_filter] at hx
  rcases hx with hx | hx
  · exact List.mem_append_left _ hx.1
  · exact List.mem_append_right _ hx

theorem SealInv.tr {b b' : Book} (h : SealInv b) (t : Tr b b') : SealInv b' := by
  cases t with
  | misc c =>
    intro v hv; unfold allV at hv; rw [c.1, c.2.2.2.1] at hv; rw [c.2.2.2.2.2.1]; exact h v hv
  | drop v hv => intro x hx; exact h x (mem_allV_drop hx)
  | insert v es ok hes hcomp hzero =>
    intro x hx
    simp only [allV, List.mem_append, List.mem_cons, List.mem_nil_iff, or_false] at hx
    rcases hx with (hx | rfl) | hx
    · exact h x (List.mem_append_left _ hx)
    · exact Or.inr ⟨ok.notOwn, ok.notGenesis, ok.notEmpty⟩
    · exact h x (List.mem_append_right _ hx)
  | unlink x hx => exact h

theorem SealInv.steps {b b' : Book} (h : SealInv b) (s : Steps b b') : SealInv b' := by
  induction s with
  | refl => exact h
  | tail _ t ih => exact ih.tr t

theorem CanonInv.tr {b b' : Book} (h : CanonInv b) (t : Tr b b') : CanonInv b' := by
  cases t with
  | misc c => intro v hv; unfold allV at hv; rw [c.1, c.2.2.2.1] at hv; exact h v hv
  | drop v hv => intro x hx; exact h x (mem_allV_drop hx)
  | insert v es ok hes hcomp hzero =>
    intro x hx
    simp only [allV, List.mem_append, List.mem_cons, List.mem_nil_iff, or_false] at hx
    rcases hx with (hx | rfl) | hx
    · exact h x (List.mem_append_left _ hx)
    · exact ok.canon
    · exact h x (List.mem_append_right _ hx)
  | unlink x hx => exact h

theorem VokInv.tr {b b' : Book} (h : VokInv b) (t : Tr b b') : VokInv b' := by
  cases t with
  | misc c => intro v hv; rw [c.1] at hv; exact h v hv
  | drop v hv => intro x hx; simp only [indexRemove_verts, deleteVertex_verts, List.mem_filter] at hx; exact h x hx.1
  | insert v es ok hes hcomp hzero =>
    intro x hx
    simp only [List.mem_append, List.mem_cons, List.mem_nil_iff, or_false] at hx
    rcases hx with hx | rfl
    · exact h x hx
    · exact ok.vok
  | unlink x hx => exact h

theorem VokInv.steps {b b' : Book} (h : VokInv b) (s : Steps b b') : VokInv b' := by
  induction s with
  | refl => exact h
  | tail _ t ih => exact ih.tr t

end CModel.Book
