import CModel.Gossip
/-! C11 / C12 helper lemmas and invariants for `CModel.Gossip`. -/
namespace CModel.Gossip

@[simp] theorem node_setNode_self (net : Net) (i : Node) (s : NodeSt) : (net.setNode i s).node i = s := by
  simp [Net.node, Net.setNode]
@[simp] theorem node_setNode_other (net : Net) (i j : Node) (s : NodeSt) (h : j ≠ i) : (net.setNode i s).node j = net.node j := by
  simp [Net.node, Net.setNode, h]
@[simp] theorem setNode_inflight (net : Net) (i : Node) (s : NodeSt) : (net.setNode i s).inflight = net.inflight := rfl
@[simp] theorem setNode_signed (net : Net) (i : Node) (s : NodeSt) : (net.setNode i s).signed = net.signed := rfl
@[simp] theorem setNode_sends (net : Net) (i : Node) (s : NodeSt) : (net.setNode i s).sends = net.sends := rfl

theorem node_setNode (net : Net) (i j : Node) (s : NodeSt) : (net.setNode i s).node j = if j = i then s else net.node j := by
  simp [Net.node, Net.setNode]

theorem verified_append (a b : List Entry) : verified (a ++ b) = verified a ++ verified b := by
  simp [verified, List.filter_append]

theorem verified_filter (es : List Entry) : verified (es.filter fun e => e.signer == e.addr && e.forThis) = verified es := by
  simp [verified, List.filter_filter]

theorem verified_forwardEntries (i : Node) (es : List Entry) : verified (forwardEntries i es) = verified es ++ [i] := by
  unfold forwardEntries
  rw [verified_append, verified_filter]
  simp [verified, ownEntry]

/-- a forwarded message never goes to a verified gossiper, is authentic-flagged, and lists exactly the
verified entries plus the forwarder -/
theorem fanout_spec {c : Cfg} {i : Node} {es : List Entry} {m : Msg} (h : m ∈ fanout c i es) :
    m.dst ∈ c.peers i ∧ m.dst ∉ verified m.entries ∧ m.authentic = true ∧ m.entries = forwardEntries i es := by
  unfold fanout at h
  simp only [List.mem_map, List.mem_filter] at h
  obtain ⟨p, ⟨hp, hn⟩, rfl⟩ := h
  refine ⟨hp, ?_, rfl, rfl⟩
  simpa using hn

theorem fanout_complete {c : Cfg} {i : Node} {es : List Entry} {p : Node} (hp : p ∈ c.peers i)
    (hn : p ∉ verified (forwardEntries i es)) : ∃ m ∈ fanout c i es, m.dst = p ∧ m.authentic = true := by
  refine ⟨⟨p, true, forwardEntries i es⟩, ?_, rfl, rfl⟩
  unfold fanout
  simp only [List.mem_map, List.mem_filter]
  exact ⟨p, ⟨hp, by simpa using hn⟩, rfl⟩

theorem fanout_length_le (c : Cfg) (i : Node) (es : List Entry) : (fanout c i es).length ≤ (c.peers i).length := by
  unfold fanout
  simp only [List.length_map]
  exact List.length_filter_le _ _

def nodeRejected (st : NodeSt) : NodeSt := { st with seen := false, calls := st.calls + 1 }
def nodeProcessed (st : NodeSt) (out : List Msg) : NodeSt :=
  { st with seen := true, calls := st.calls + 1, admitted := true, forwards := st.forwards + 1, sentTo := st.sentTo ++ out.map (·.dst) }
def netProcessed (c : Cfg) (net : Net) (m : Msg) : Net :=
  { (net.setNode m.dst (nodeProcessed (net.node m.dst) (fanout c m.dst m.entries))) with inflight := net.inflight ++ fanout c m.dst m.entries, signed := m.dst :: net.signed, sends := net.sends + (fanout c m.dst m.entries).length }

/-- the five ways a delivery can go, with the resulting network spelled out -/
inductive RecvCase (c : Cfg) (net : Net) (m : Msg) : Net × Outcome → Prop
  | absorbed : c.honest m.dst = false → RecvCase c net m (net, .absorbed)
  | droppedSeen : c.honest m.dst = true → (net.node m.dst).seen = true → RecvCase c net m (net, .droppedSeen)
  | skippedListed : c.honest m.dst = true → (net.node m.dst).seen = false → m.dst ∈ verified m.entries →
      RecvCase c net m (net.setNode m.dst { net.node m.dst with seen := true }, .skippedListed)
  | rejected : c.honest m.dst = true → (net.node m.dst).seen = false → m.dst ∉ verified m.entries →
      (!(m.authentic && (c.isTrx || c.accepts m.dst)) || (!c.isTrx && (net.node m.dst).admitted)) = true →
      RecvCase c net m (net.setNode m.dst (nodeRejected (net.node m.dst)), .rejected)
  | processed : c.honest m.dst = true → (net.node m.dst).seen = false → m.dst ∉ verified m.entries →
      m.authentic = true → (c.isTrx || c.accepts m.dst) = true → (c.isTrx = false → (net.node m.dst).admitted = false) →
      RecvCase c net m (netProcessed c net m, .processed)

theorem receive_cases (c : Cfg) (net : Net) (m : Msg) : RecvCase c net m (receive c net m) := by
  unfold receive
  by_cases hh : c.honest m.dst = true
  · by_cases hs : (net.node m.dst).seen = true
    · simp only [hh, Bool.not_true, Bool.false_eq_true, ↓reduceIte, hs]
      exact .droppedSeen hh hs
    · have hs' : (net.node m.dst).seen = false := by simpa using hs
      by_cases hl : m.dst ∈ verified m.entries
      · simp only [hh, Bool.not_true, Bool.false_eq_true, ↓reduceIte, hs', List.contains_eq_mem, hl, decide_true]
        exact .skippedListed hh hs' hl
      · by_cases hr : (!(m.authentic && (c.isTrx || c.accepts m.dst)) || (!c.isTrx && (net.node m.dst).admitted)) = true
        · simp only [hh, Bool.not_true, Bool.false_eq_true, ↓reduceIte, hs', List.contains_eq_mem, hl, decide_false, hr]
          exact .rejected hh hs' hl hr
        · simp only [hh, Bool.not_true, Bool.false_eq_true, ↓reduceIte, hs', List.contains_eq_mem, hl, decide_false, hr]
          have key : m.authentic = true ∧ (c.isTrx || c.accepts m.dst) = true ∧ (c.isTrx = false → (net.node m.dst).admitted = false) := by
            revert hr
            cases m.authentic <;> cases c.isTrx <;> cases c.accepts m.dst <;> cases (net.node m.dst).admitted <;> simp
          exact .processed hh hs' hl key.1 key.2.1 key.2.2
  · have hh' : c.honest m.dst = false := by simpa using hh
    simp only [hh', Bool.not_false, ↓reduceIte]
    exact .absorbed hh'

end CModel.Gossip

namespace CModel.Gossip

/-- Invariant of every network state reachable from "node `o` originated the item". -/
structure Inv (c : Cfg) (o : Node) (net : Net) : Prop where
  originAdmitted : (net.node o).admitted = true
  fwdOther : ∀ i, i ≠ o → (net.node i).forwards ≤ (if (net.node i).seen then 1 else 0)
  fwdOrigin : (net.node o).forwards ≤ 1 + (if c.isTrx && (net.node o).seen then 1 else 0)
  signedAdmitted : ∀ i ∈ net.signed, (net.node i).admitted = true
  listedSigned : ∀ m ∈ net.inflight, ∀ a ∈ verified m.entries, c.honest a = true → a ∈ net.signed
  sentBound : ∀ i, (net.node i).sentTo.length ≤ (net.node i).forwards * (c.peers i).length

theorem inv_originate (c : Cfg) (o : Node) : Inv c o (originate c init o) := by
  unfold originate
  refine ⟨?_, ?_, ?_, ?_, ?_, ?_⟩
  · simp [Net.node, Net.setNode]
  · intro i hi
    simp [Net.node, Net.setNode, hi, init]
  · simp [Net.node, Net.setNode, init]
  · intro i hi
    simp only [init, List.mem_cons, List.not_mem_nil, or_false] at hi
    subst hi
    simp [Net.node, Net.setNode]
  · intro m hm a ha _
    simp only [init, List.nil_append] at hm
    obtain ⟨_, _, _, he⟩ := fanout_spec hm
    rw [he, verified_forwardEntries] at ha
    simp [verified] at ha
    simp [ha]
  · intro i
    by_cases hi : i = o
    · subst hi
      have := fanout_length_le c i []
      simp [Net.node, Net.setNode, init]
      exact this
    · simp [Net.node, Net.setNode, hi, init]

theorem inv_receive {c : Cfg} {o : Node} {net : Net} (m : Msg) (h : Inv c o net)
    (hm : ∀ a ∈ verified m.entries, c.honest a = true → a ∈ net.signed) : Inv c o (receive c net m).1 := by
  have hc := receive_cases c net m
  generalize receive c net m = r at hc
  cases hc with
  | absorbed _ => exact h
  | droppedSeen _ _ => exact h
  | skippedListed hh hs hl =>
    refine ⟨?_, ?_, ?_, ?_, h.listedSigned, ?_⟩
    · by_cases e : o = m.dst
      · rw [e, node_setNode_self]; rw [← e]; exact h.originAdmitted
      · rw [node_setNode_other _ _ _ _ e]; exact h.originAdmitted
    · intro i hi
      by_cases e : i = m.dst
      · rw [e, node_setNode_self]; simp only [↓reduceIte]
        have := h.fwdOther i hi; rw [e, hs] at this; simp at this; omega
      · rw [node_setNode_other _ _ _ _ e]; exact h.fwdOther i hi
    · by_cases e : o = m.dst
      · rw [e, node_setNode_self]
        have := h.fwdOrigin; rw [e, hs] at this; simp at this
        simp only; omega
      · rw [node_setNode_other _ _ _ _ e]; exact h.fwdOrigin
    · intro i hi
      by_cases e : i = m.dst
      · rw [e, node_setNode_self]; rw [← e]; exact h.signedAdmitted i hi
      · rw [node_setNode_other _ _ _ _ e]; exact h.signedAdmitted i hi
    · intro i
      by_cases e : i = m.dst
      · rw [e, node_setNode_self]; have := h.sentBound i; rw [e] at this; exact this
      · rw [node_setNode_other _ _ _ _ e]; exact h.sentBound i
  | rejected hh hs hl hr =>
    refine ⟨?_, ?_, ?_, ?_, h.listedSigned, ?_⟩
    · by_cases e : o = m.dst
      · rw [e, node_setNode_self]; simp only [nodeRejected]; rw [← e]; exact h.originAdmitted
      · rw [node_setNode_other _ _ _ _ e]; exact h.originAdmitted
    · intro i hi
      by_cases e : i = m.dst
      · rw [e, node_setNode_self]; simp only [nodeRejected]
        have := h.fwdOther i hi; rw [e, hs] at this; simpa using this
      · rw [node_setNode_other _ _ _ _ e]; exact h.fwdOther i hi
    · by_cases e : o = m.dst
      · rw [e, node_setNode_self]; simp only [nodeRejected]
        have := h.fwdOrigin; rw [e, hs] at this; simpa using this
      · rw [node_setNode_other _ _ _ _ e]; exact h.fwdOrigin
    · intro i hi
      by_cases e : i = m.dst
      · rw [e, node_setNode_self]; simp only [nodeRejected]; rw [← e]; exact h.signedAdmitted i hi
      · rw [node_setNode_other _ _ _ _ e]; exact h.signedAdmitted i hi
    · intro i
      by_cases e : i = m.dst
      · rw [e, node_setNode_self]; simp only [nodeRejected]; have := h.sentBound i; rw [e] at this; exact this
      · rw [node_setNode_other _ _ _ _ e]; exact h.sentBound i
  | processed hh hs hl ha hacc hadm =>
    have hnode : ∀ j, (netProcessed c net m).node j =
        if j = m.dst then nodeProcessed (net.node m.dst) (fanout c m.dst m.entries) else net.node j := by
      intro j; simp [netProcessed, Net.node, Net.setNode]
    refine ⟨?_, ?_, ?_, ?_, ?_, ?_⟩
    · rw [hnode]; split
      · rfl
      · exact h.originAdmitted
    · intro i hi
      rw [hnode]; split
      · rename_i e
        have := h.fwdOther i hi; rw [e, hs] at this
        simp only [nodeProcessed, ↓reduceIte]; simp at this; omega
      · exact h.fwdOther i hi
    · rw [hnode]; split
      · rename_i e
        have ht : c.isTrx = true := by
          cases ht : c.isTrx with
          | true => rfl
          | false => have := hadm ht; rw [← e, h.originAdmitted] at this; cases this
        have := h.fwdOrigin; rw [e, hs] at this
        simp only [nodeProcessed, ht, Bool.and_self, ↓reduceIte]; simp at this; omega
      · exact h.fwdOrigin
    · intro i hi
      rw [hnode]; split
      · rfl
      · simp only [netProcessed, List.mem_cons] at hi
        rcases hi with hi | hi
        · rename_i e; exact absurd hi e
        · exact h.signedAdmitted i hi
    · intro m' hm' a ha' hon
      simp only [netProcessed, List.mem_append] at hm'
      simp only [netProcessed, List.mem_cons]
      rcases hm' with hm' | hm'
      · exact Or.inr (h.listedSigned m' hm' a ha' hon)
      · obtain ⟨_, _, _, he⟩ := fanout_spec hm'
        rw [he, verified_forwardEntries, List.mem_append] at ha'
        rcases ha' with ha' | ha'
        · exact Or.inr (hm a ha' hon)
        · simp only [List.mem_singleton] at ha'; exact Or.inl ha'
    · intro i
      rw [hnode]; split
      · rename_i e
        have hb := h.sentBound m.dst
        have hf := fanout_length_le c m.dst m.entries
        simp only [nodeProcessed, List.length_append, List.length_map]
        rw [e]
        have : ((net.node m.dst).forwards + 1) * (c.peers m.dst).length = (net.node m.dst).forwards * (c.peers m.dst).length + (c.peers m.dst).length := by
          rw [Nat.add_mul, Nat.one_mul]
        omega
      · exact h.sentBound i

theorem inv_step {c : Cfg} {o : Node} {net : Net} (s : Step) (h : Inv c o net) : Inv c o (step c net s) := by
  cases s with
  | deliver k =>
    simp only [step, deliver]
    cases hk : net.inflight[k]? with
    | none => exact h
    | some m =>
      have hmem : m ∈ net.inflight := List.mem_of_getElem? hk
      have h' : Inv c o { net with inflight := net.inflight.eraseIdx k } :=
        ⟨h.originAdmitted, h.fwdOther, h.fwdOrigin, h.signedAdmitted,
         fun m' hm' => h.listedSigned m' (List.mem_of_mem_eraseIdx hm'), h.sentBound⟩
      exact inv_receive m h' (h.listedSigned m hmem)
  | duplicate k =>
    simp only [step, duplicate]
    cases hk : net.inflight[k]? with
    | none => exact h
    | some m =>
      have hmem : m ∈ net.inflight := List.mem_of_getElem? hk
      refine ⟨h.originAdmitted, h.fwdOther, h.fwdOrigin, h.signedAdmitted, ?_, h.sentBound⟩
      intro m' hm'
      simp only [List.mem_append, List.mem_singleton] at hm'
      rcases hm' with hm' | hm'
      · exact h.listedSigned m' hm'
      · rw [hm']; exact h.listedSigned m hmem
  | inject m =>
    simp only [step, inject]
    split
    · rename_i hall
      refine ⟨h.originAdmitted, h.fwdOther, h.fwdOrigin, h.signedAdmitted, ?_, h.sentBound⟩
      intro m' hm' a ha hon
      simp only [List.mem_append, List.mem_singleton] at hm'
      rcases hm' with hm' | hm'
      · exact h.listedSigned m' hm' a ha hon
      · subst hm'
        simp only [verified, List.mem_map, List.mem_filter] at ha
        obtain ⟨e, ⟨he, hv⟩, rfl⟩ := ha
        have := List.all_eq_true.mp hall e he
        unfold entryAllowed at this
        simp only [hv, Bool.not_true, hon, Bool.false_or, List.contains_eq_mem, decide_eq_true_eq] at this
        exact this
    · exact h
  | retryAdmit i =>
    simp only [step, retryAdmit]
    refine ⟨?_, ?_, ?_, ?_, h.listedSigned, ?_⟩
    · rw [node_setNode]; split
      · rfl
      · exact h.originAdmitted
    · intro j hj
      rw [node_setNode]; split
      · rename_i e; have := h.fwdOther j hj; rw [e] at this; exact this
      · exact h.fwdOther j hj
    · rw [node_setNode]; split
      · rename_i e; have := h.fwdOrigin; rw [e] at this; exact this
      · exact h.fwdOrigin
    · intro j hj
      rw [node_setNode]; split
      · rfl
      · exact h.signedAdmitted j hj
    · intro j
      rw [node_setNode]; split
      · rename_i e; subst e; exact h.sentBound j
      · exact h.sentBound j

theorem inv_run {c : Cfg} {o : Node} (ss : List Step) {net : Net} (h : Inv c o net) : Inv c o (run c net ss) := by
  induction ss generalizing net with
  | nil => exact h
  | cons s ss ih => exact ih (inv_step s h)

end CModel.Gossip

namespace CModel.Gossip

/-- Coverage invariant for executions in which every honest ledger admits the item on arrival
(no `retryAdmit` steps). -/
structure Cov (c : Cfg) (net : Net) : Prop where
  seenAdmitted : ∀ p, c.honest p = true → (net.node p).seen = true → (net.node p).admitted = true
  covered : ∀ i p, c.honest i = true → c.honest p = true → (net.node i).admitted = true → p ∈ c.peers i →
      (net.node p).admitted = true ∨ ∃ m ∈ net.inflight, m.dst = p ∧ m.authentic = true

theorem mem_eraseIdx_or_eq {α : Type} {l : List α} {k : Nat} {m x : α} (hk : l[k]? = some m) (hx : x ∈ l) :
    x ∈ l.eraseIdx k ∨ x = m := by
  obtain ⟨i, hi, rfl⟩ := List.mem_iff_getElem.mp hx
  by_cases e : i = k
  · right
    subst e
    have := List.getElem?_eq_getElem hi
    rw [this] at hk
    exact Option.some.inj hk
  · left
    exact List.mem_eraseIdx_iff_getElem.mpr ⟨i, hi, e, rfl⟩

theorem cov_originate (c : Cfg) (o : Node) : Cov c (originate c init o) := by
  have hnode : ∀ j, (originate c init o).node j = if j = o then
      { (init.node o) with admitted := true, forwards := (init.node o).forwards + 1, sentTo := (init.node o).sentTo ++ (fanout c o []).map (·.dst) }
      else init.node j := by
    intro j; simp [originate, Net.node, Net.setNode]
  refine ⟨?_, ?_⟩
  · intro p _ hs
    rw [hnode] at hs ⊢
    split
    · rfl
    · rename_i e; simp [e, init, Net.node] at hs
  · intro i p _ _ hi hp
    rw [hnode] at hi
    split at hi
    · rename_i e
      subst e
      by_cases hv : p ∈ verified (forwardEntries i [])
      · rw [verified_forwardEntries] at hv
        simp [verified] at hv
        left; rw [hnode, if_pos hv]
      · obtain ⟨m, hm, hd, ha⟩ := fanout_complete hp hv
        right
        exact ⟨m, by simp [originate, init]; exact hm, hd, ha⟩
    · simp [init, Net.node] at hi

theorem cov_receive {c : Cfg} {o : Node} {net : Net} (m : Msg) (hinv : Inv c o net)
    (hacc : ∀ p, c.honest p = true → (c.isTrx || c.accepts p) = true)
    (hm : ∀ a ∈ verified m.entries, c.honest a = true → a ∈ net.signed)
    (hseen : ∀ p, c.honest p = true → (net.node p).seen = true → (net.node p).admitted = true)
    (hpre : ∀ i p, c.honest i = true → c.honest p = true → (net.node i).admitted = true → p ∈ c.peers i →
      (net.node p).admitted = true ∨ (∃ m' ∈ net.inflight, m'.dst = p ∧ m'.authentic = true) ∨ (m.dst = p ∧ m.authentic = true)) :
    Cov c (receive c net m).1 := by
  have hc := receive_cases c net m
  generalize receive c net m = r at hc
  cases hc with
  | absorbed hd =>
    refine ⟨hseen, fun i p hi hp ha hpe => ?_⟩
    rcases hpre i p hi hp ha hpe with h | h | ⟨h, _⟩
    · exact Or.inl h
    · exact Or.inr h
    · rw [h] at hd; rw [hd] at hp; cases hp
  | droppedSeen hd hs =>
    refine ⟨hseen, fun i p hi hp ha hpe => ?_⟩
    rcases hpre i p hi hp ha hpe with h | h | ⟨h, _⟩
    · exact Or.inl h
    · exact Or.inr h
    · left; rw [← h]; exact hseen _ hd hs
  | skippedListed hd hs hl =>
    have hadm : (net.node m.dst).admitted = true := hinv.signedAdmitted _ (hm _ hl hd)
    have hsame : ∀ j, ((net.setNode m.dst { net.node m.dst with seen := true }).node j).admitted = (net.node j).admitted := by
      intro j; rw [node_setNode]; split
      · rename_i e; rw [e]
      · rfl
    refine ⟨?_, fun i p hi hp ha hpe => ?_⟩
    · intro p hp _
      rw [hsame]
      by_cases e : p = m.dst
      · rw [e]; exact hadm
      · rename_i hs'; rw [node_setNode_other _ _ _ _ e] at hs'; exact hseen p hp hs'
    · rw [hsame] at ha ⊢
      rcases hpre i p hi hp ha hpe with h | h | ⟨h, _⟩
      · exact Or.inl h
      · exact Or.inr h
      · left; rw [← h]; exact hadm
  | rejected hd hs hl hr =>
    have hsame : ∀ j, ((net.setNode m.dst (nodeRejected (net.node m.dst))).node j).admitted = (net.node j).admitted := by
      intro j; rw [node_setNode]; split
      · rename_i e; rw [e]; rfl
      · rfl
    refine ⟨?_, fun i p hi hp ha hpe => ?_⟩
    · intro p hp hs'
      rw [hsame]
      by_cases e : p = m.dst
      · rw [e, node_setNode_self] at hs'; simp [nodeRejected] at hs'
      · rw [node_setNode_other _ _ _ _ e] at hs'; exact hseen p hp hs'
    · rw [hsame] at ha ⊢
      rcases hpre i p hi hp ha hpe with h | h | ⟨h, hauth⟩
      · exact Or.inl h
      · exact Or.inr h
      · left
        have := hacc _ hd
        rw [hauth, this] at hr
        simp only [Bool.and_self, Bool.not_true, Bool.false_or, Bool.and_eq_true, Bool.not_eq_eq_eq_not] at hr
        rw [← h]; exact hr.2
  | processed hd hs hl ha' hacc' hadm =>
    have hnode : ∀ j, (netProcessed c net m).node j =
        if j = m.dst then nodeProcessed (net.node m.dst) (fanout c m.dst m.entries) else net.node j := by
      intro j; simp [netProcessed, Net.node, Net.setNode]
    have hmono : ∀ j, (net.node j).admitted = true → ((netProcessed c net m).node j).admitted = true := by
      intro j hj; rw [hnode]; split
      · rfl
      · exact hj
    have hdst : ((netProcessed c net m).node m.dst).admitted = true := by rw [hnode, if_pos rfl]; rfl
    refine ⟨?_, fun i p hi hp ha hpe => ?_⟩
    · intro p hp hs'
      rw [hnode] at hs' ⊢
      split
      · rfl
      · rename_i e; rw [if_neg e] at hs'; exact hseen p hp hs'
    · by_cases e : i = m.dst
      · subst e
        by_cases hv : p ∈ verified (forwardEntries m.dst m.entries)
        · rw [verified_forwardEntries, List.mem_append] at hv
          left
          rcases hv with hv | hv
          · exact hmono p (hinv.signedAdmitted p (hm p hv hp))
          · simp only [List.mem_singleton] at hv; rw [hv]; exact hdst
        · obtain ⟨m', hm', hd', ha''⟩ := fanout_complete hpe hv
          right
          exact ⟨m', by simp only [netProcessed, List.mem_append]; exact Or.inr hm', hd', ha''⟩
      · rw [hnode, if_neg e] at ha
        rcases hpre i p hi hp ha hpe with h | ⟨m', hm', h⟩ | ⟨h, _⟩
        · exact Or.inl (hmono p h)
        · right; exact ⟨m', by simp only [netProcessed, List.mem_append]; exact Or.inl hm', h⟩
        · left; rw [← h]; exact hdst

/-- gossip-only steps: deliveries in any order, duplicated messages, adversarial injections -/
def Step.gossipOnly : Step → Bool
  | .retryAdmit _ => false
  | _ => true

theorem cov_step {c : Cfg} {o : Node} {net : Net} (s : Step) (hs : s.gossipOnly = true) (hinv : Inv c o net)
    (hacc : ∀ p, c.honest p = true → (c.isTrx || c.accepts p) = true) (h : Cov c net) : Cov c (step c net s) := by
  cases s with
  | deliver k =>
    simp only [step, deliver]
    cases hk : net.inflight[k]? with
    | none => exact h
    | some m =>
      have hmem : m ∈ net.inflight := List.mem_of_getElem? hk
      have hinv' : Inv c o { net with inflight := net.inflight.eraseIdx k } :=
        ⟨hinv.originAdmitted, hinv.fwdOther, hinv.fwdOrigin, hinv.signedAdmitted,
         fun m' hm' => hinv.listedSigned m' (List.mem_of_mem_eraseIdx hm'), hinv.sentBound⟩
      refine cov_receive m hinv' hacc (hinv.listedSigned m hmem) h.seenAdmitted ?_
      intro i p hi hp ha hpe
      rcases h.covered i p hi hp ha hpe with h1 | ⟨m', hm', hd, hau⟩
      · exact Or.inl h1
      · rcases mem_eraseIdx_or_eq hk hm' with h2 | h2
        · exact Or.inr (Or.inl ⟨m', h2, hd, hau⟩)
        · rw [h2] at hd hau; exact Or.inr (Or.inr ⟨hd, hau⟩)
  | duplicate k =>
    simp only [step, duplicate]
    cases hk : net.inflight[k]? with
    | none => exact h
    | some m =>
      refine ⟨h.seenAdmitted, fun i p hi hp ha hpe => ?_⟩
      rcases h.covered i p hi hp ha hpe with h1 | ⟨m', hm', hd⟩
      · exact Or.inl h1
      · exact Or.inr ⟨m', List.mem_append_left _ hm', hd⟩
  | inject m =>
    simp only [step, inject]
    split
    · refine ⟨h.seenAdmitted, fun i p hi hp ha hpe => ?_⟩
      rcases h.covered i p hi hp ha hpe with h1 | ⟨m', hm', hd⟩
      · exact Or.inl h1
      · exact Or.inr ⟨m', List.mem_append_left _ hm', hd⟩
    · exact h
  | retryAdmit i => cases hs

theorem cov_run {c : Cfg} {o : Node} (ss : List Step) (hss : ∀ s ∈ ss, s.gossipOnly = true) {net : Net} (hinv : Inv c o net)
    (hacc : ∀ p, c.honest p = true → (c.isTrx || c.accepts p) = true) (h : Cov c net) : Cov c (run c net ss) := by
  induction ss generalizing net with
  | nil => exact h
  | cons s ss ih =>
    exact ih (fun s' hs' => hss s' (List.mem_cons_of_mem _ hs')) (inv_step s hinv)
      (cov_step s (hss s List.mem_cons_self) hinv hacc h)

/-- `p` can be reached from `o` through honest nodes only, along peer-table entries -/
inductive HonestPath (c : Cfg) (o : Node) : Node → Prop
  | origin : c.honest o = true → HonestPath c o o
  | hop {i p : Node} : HonestPath c o i → p ∈ c.peers i → c.honest p = true → HonestPath c o p

theorem HonestPath.honest {c : Cfg} {o p : Node} (h : HonestPath c o p) : c.honest p = true := by
  cases h with
  | origin h => exact h
  | hop _ _ h => exact h

theorem quiescent_covered {c : Cfg} {o : Node} {net : Net} (hinv : Inv c o net) (h : Cov c net) (hq : net.inflight = [])
    {p : Node} (hp : HonestPath c o p) : (net.node p).admitted = true := by
  induction hp with
  | origin _ => exact hinv.originAdmitted
  | hop hi hpe hhon ih =>
    rcases h.covered _ _ hi.honest hhon ih hpe with h1 | ⟨m, hm, _⟩
    · exact h1
    · rw [hq] at hm; cases hm

end CModel.Gossip

namespace CModel.Gossip

/-! ### termination: a potential that every delivery decreases -/
def sumTo : Nat → (Nat → Nat) → Nat
  | 0, _ => 0
  | n + 1, f => sumTo n f + f n

theorem sumTo_congr (n : Nat) (f g : Nat → Nat) (h : ∀ j, j < n → f j = g j) : sumTo n f = sumTo n g := by
  induction n with
  | zero => rfl
  | succ n ih =>
    simp only [sumTo]
    rw [ih (fun j hj => h j (Nat.lt_succ_of_lt hj)), h n (Nat.lt_succ_self n)]

theorem sumTo_update (n : Nat) (f g : Nat → Nat) (i : Nat) (h : ∀ j, j ≠ i → f j = g j) :
    (i < n → sumTo n g + f i = sumTo n f + g i) ∧ (n ≤ i → sumTo n g = sumTo n f) := by
  induction n with
  | zero => exact ⟨fun h => absurd h (Nat.not_lt_zero _), fun _ => rfl⟩
  | succ n ih =>
    refine ⟨fun hi => ?_, fun hi => ?_⟩
    · simp only [sumTo]
      by_cases e : i = n
      · subst e
        have := ih.2 (Nat.le_refl _)
        omega
      · have := ih.1 (by omega)
        have := h n (fun x => e x.symm)
        omega
    · simp only [sumTo]
      have := ih.2 (by omega)
      have := h n (by omega)
      omega

/-- unseen nodes may still fan out: each accounts for its peer entries plus one -/
def weight (c : Cfg) (net : Net) (i : Node) : Nat := if (net.node i).seen then 0 else (c.peers i).length + 1

def potential (c : Cfg) (net : Net) : Nat := net.inflight.length + sumTo c.n (weight c net)

theorem weight_setNode (c : Cfg) (net : Net) (i : Node) (st : NodeSt) (w : Nat)
    (hw : (if st.seen then 0 else (c.peers i).length + 1) = w) :
    (i < c.n → sumTo c.n (weight c (net.setNode i st)) + weight c net i = sumTo c.n (weight c net) + w) ∧
    (c.n ≤ i → sumTo c.n (weight c (net.setNode i st)) = sumTo c.n (weight c net)) := by
  have hother : ∀ j, j ≠ i → weight c net j = weight c (net.setNode i st) j := by
    intro j hj; unfold weight; rw [node_setNode_other _ _ _ _ hj]
  have hu := sumTo_update c.n (weight c net) (weight c (net.setNode i st)) i hother
  have hself : weight c (net.setNode i st) i = w := by
    unfold weight; rw [node_setNode_self]; exact hw
  exact ⟨fun h => by have := hu.1 h; rw [hself] at this; omega, hu.2⟩

theorem num_seen (L S S2 w deg : Nat) (h : S2 + w = S + 0) (hw : w = deg + 1) : L + S2 < L + 1 + S := by omega
theorem num_same (L S S2 : Nat) (h : S2 = S) : L + S2 < L + 1 + S := by omega
theorem num_rej (L S S2 w deg : Nat) (h : S2 + w = S + (deg + 1)) (hw : w = deg + 1) : L + S2 < L + 1 + S := by omega
theorem num_proc (L S S2 w deg F : Nat) (h : S2 + w = S + 0) (hw : w = deg + 1) (hf : F ≤ deg) : L + F + S2 < L + 1 + S := by omega
theorem num_proc0 (L S S2 F : Nat) (h : S2 = S) (hf : F = 0) : L + F + S2 < L + 1 + S := by omega

/-- **Every delivery strictly decreases the potential** (whatever the message is and wherever it goes), so
without new injections or duplications at most `potential` deliveries are possible: gossip terminates. -/
theorem deliver_decreases_potential (c : Cfg) (hwf : ∀ i, c.n ≤ i → c.peers i = []) (net : Net) (k : Nat)
    (hk : k < net.inflight.length) : potential c (deliver c net k).1 < potential c net := by
  unfold deliver
  have hget : net.inflight[k]? = some net.inflight[k] := List.getElem?_eq_getElem hk
  rw [hget]
  simp only
  generalize net.inflight[k] = m
  generalize hnet' : ({ net with inflight := net.inflight.eraseIdx k } : Net) = net'
  have hlen : net'.inflight.length + 1 = net.inflight.length := by
    rw [← hnet']; simp only [List.length_eraseIdx, hk, ↓reduceIte]; omega
  have hnode : ∀ j, net'.node j = net.node j := by intro j; rw [← hnet']; rfl
  have hS : sumTo c.n (weight c net') = sumTo c.n (weight c net) :=
    sumTo_congr _ _ _ (fun j _ => by unfold weight; rw [hnode])
  have hwold : (net'.node m.dst).seen = false → weight c net' m.dst = (c.peers m.dst).length + 1 := by
    intro h; unfold weight; rw [h]; rfl
  have hpot : potential c net = net'.inflight.length + 1 + sumTo c.n (weight c net') := by
    unfold potential; omega
  rw [hpot]
  have hc := receive_cases c net' m
  generalize receive c net' m = r at hc
  cases hc with
  | absorbed _ => show potential c net' < _; unfold potential; omega
  | droppedSeen _ _ => show potential c net' < _; unfold potential; omega
  | skippedListed hh hs hl =>
    have hw := weight_setNode c net' m.dst { net'.node m.dst with seen := true } 0 rfl
    have hwo := hwold hs
    show (net'.setNode m.dst { net'.node m.dst with seen := true }).inflight.length +
        sumTo c.n (weight c (net'.setNode m.dst { net'.node m.dst with seen := true })) < _
    rw [setNode_inflight]
    by_cases hi : m.dst < c.n
    · exact num_seen _ _ _ _ _ (hw.1 hi) hwo
    · exact num_same _ _ _ (hw.2 (Nat.le_of_not_lt hi))
  | rejected hh hs hl hr =>
    have hw := weight_setNode c net' m.dst (nodeRejected (net'.node m.dst)) ((c.peers m.dst).length + 1) rfl
    have hwo := hwold hs
    show (net'.setNode m.dst (nodeRejected (net'.node m.dst))).inflight.length +
        sumTo c.n (weight c (net'.setNode m.dst (nodeRejected (net'.node m.dst)))) < _
    rw [setNode_inflight]
    by_cases hi : m.dst < c.n
    · exact num_rej _ _ _ _ _ (hw.1 hi) hwo
    · exact num_same _ _ _ (hw.2 (Nat.le_of_not_lt hi))
  | processed hh hs hl ha hacc hadm =>
    have hf := fanout_length_le c m.dst m.entries
    have hw := weight_setNode c net' m.dst (nodeProcessed (net'.node m.dst) (fanout c m.dst m.entries)) 0 rfl
    have hwo := hwold hs
    have hsame : sumTo c.n (weight c (netProcessed c net' m)) =
        sumTo c.n (weight c (net'.setNode m.dst (nodeProcessed (net'.node m.dst) (fanout c m.dst m.entries)))) :=
      sumTo_congr _ _ _ (fun j _ => rfl)
    have hinf : (netProcessed c net' m).inflight.length = net'.inflight.length + (fanout c m.dst m.entries).length := by
      simp [netProcessed]
    show (netProcessed c net' m).inflight.length + sumTo c.n (weight c (netProcessed c net' m)) < _
    rw [hsame, hinf]
    by_cases hi : m.dst < c.n
    · exact num_proc _ _ _ _ _ _ (hw.1 hi) hwo hf
    · have hp := hwf m.dst (Nat.le_of_not_lt hi)
      rw [hp] at hf
      simp only [List.length_nil, Nat.le_zero_eq] at hf
      exact num_proc0 _ _ _ _ (hw.2 (Nat.le_of_not_lt hi)) hf

end CModel.Gossip
