import Proofs.Reachable
/-! # Stale pre-lock checks (C03 under concurrent duplicates, and every other ledger invariant)

`CreateLeaf` and `addLeafMemorized` run their look-ups ("is the DAG loaded", "is this the genesis wallet",
"is this vertex / transaction already known") BEFORE taking the ledger lock; the body that changes the
ledger runs later, on whatever the book has become by then. This file shows that the locked bodies
(`createLeafLocked`, `addLeafLocked`) keep every ledger invariant when started from ANY reachable book with
the answers of an EARLIER book, as long as only ordinary calls ran in between. -/
namespace CModel.Book
open CModel

/-- same vertex hash, same transaction hash: the vertex hash covers the transaction (collision freedom of
SHA-256), stated only for the checkpointed vertices against the incoming one -/
def HashConsistent (b : Book) (leaf : Vertex) : Prop :=
  ∀ u ∈ b.cpVerts, u.hash = leaf.hash → u.trx.hash = leaf.trx.hash

theorem insertLinked_index_taken (b : Book) (v : Vertex) (ps : List Hash) (h : b.indexHas v.trx.hash = true) :
    insertLinked b v ps = (b, some 1) := by
  unfold insertLinked indexSave
  simp [h]

theorem indexHas_of_mem {b : Book} {t v : Hash} (h : (t, v) ∈ b.index) : b.indexHas t = true := by
  unfold indexHas
  exact List.any_eq_true.mpr ⟨(t, v), h, by simp⟩

/-- The locked body of `addLeafMemorized` on any book that satisfies the ledger invariants: the unlocked
existence look-ups may have been answered by an older book. If the vertex hash has meanwhile been
checkpointed the body changes nothing beyond its parent checks: the atomic index test refuses it. -/
theorem steps_addLeafLocked_stale (b : Book) (leaf : Vertex) (rep : Nat) (inv : LedgerInv b) (hg : AddGuards b leaf)
    (hgen : leaf.trx.issuer ≠ b.genesis) (hvok : leaf.vok = true) (hc : HashConsistent b leaf) :
    Steps b (b.addLeafLocked leaf rep).1 := by
  cases hcp : b.cpHasVertex leaf.hash with
  | false => exact steps_addLeafLocked b leaf rep hg hgen hvok hcp
  | true =>
    unfold addLeafLocked
    obtain ⟨scp, _⟩ := steps_checkParents b leaf rep [leaf.left, leaf.right] [] hg
    split
    · rename_i b1 e heq; rw [heq] at scp; exact scp
    · rename_i b1 validated heq
      rw [heq] at scp
      obtain ⟨_, _, _, f4, _⟩ := scp.frame
      have inv1 := inv.steps scp
      have hex : ∃ x, x ∈ b.cpVerts ∧ x.hash = leaf.hash := by simpa [cpHasVertex] using hcp
      obtain ⟨u, hu, hh⟩ := hex
      have hmem : u ∈ allV b1 := by unfold allV; rw [f4]; exact List.mem_append_right _ hu
      have hidx := inv1.idx.holders u hmem
      rw [hc u hu hh] at hidx
      rw [insertLinked_index_taken b1 leaf _ (indexHas_of_mem hidx)]
      exact scp

/-- `loaded`, `genesis` and `self` do not change -/
def Stable (b0 b1 : Book) : Prop := b1.loaded = b0.loaded ∧ b1.genesis = b0.genesis ∧ b1.self = b0.self

theorem Stable.refl (b : Book) : Stable b b := ⟨rfl, rfl, rfl⟩
theorem Stable.trans {a b c : Book} (h1 : Stable a b) (h2 : Stable b c) : Stable a c :=
  ⟨h2.1.trans h1.1, h2.2.1.trans h1.2.1, h2.2.2.trans h1.2.2⟩
theorem Stable.of_steps {b b' : Book} (s : Steps b b') : Stable b b' := ⟨s.frame.1, s.frame.2.1, s.frame.2.2.1⟩

theorem deleteVertex_fold_frame (hs : List Hash) (b : Book) :
    (hs.foldl (fun b h => b.deleteVertex h) b).loaded = b.loaded ∧ (hs.foldl (fun b h => b.deleteVertex h) b).genesis = b.genesis ∧
    (hs.foldl (fun b h => b.deleteVertex h) b).self = b.self := by
  induction hs generalizing b with
  | nil => exact ⟨rfl, rfl, rfl⟩
  | cons h hs ih =>
    simp only [List.foldl_cons]
    obtain ⟨a, b', c⟩ := ih (b.deleteVertex h)
    exact ⟨a, b', c⟩

theorem Stable.of_truncate (b : Book) (cut : Hash) : Stable b (b.truncateAt cut).1 := by
  unfold truncateAt
  split
  · exact Stable.refl b
  · split
    · exact Stable.refl b
    · exact deleteVertex_fold_frame _ _

/-- What happens between the unlocked checks of one call and its locked body: any number of other calls
(everything except `CreateGenesis` / `LoadDag`, which only run on a fresh book before the node serves). -/
inductive Between : Book → Book → Prop
  | refl (b) : Between b b
  | createLeaf {a b} (trx o1 o2 tip) : Between a b → b.cpHasVertex tip.hash = false → Between a (b.createLeaf trx o1 o2 tip).1
  | addLeaf {a b} (v) : Between a b → Between a (b.addLeaf v).1
  | retry {a b} : Between a b → Between a b.retryParked.1
  | trust {a b} (x) : Between a b → Between a (b.addTrusted x)
  | untrust {a b} (x) : Between a b → Between a (b.removeTrusted x)
  | truncate {a b} (cut : Hash) : Between a b → Between a (b.truncateAt cut).1
  | steps {a b b'} : Between a b → Steps b b' → Between a b'

theorem Between.reachable {a b : Book} (h : Between a b) (r : Reachable a) : Reachable b := by
  induction h with
  | refl => exact r
  | createLeaf trx o1 o2 tip _ hf ih => exact .createLeaf trx o1 o2 tip ih hf
  | addLeaf v _ ih => exact .addLeaf v ih
  | retry _ ih => exact .retry ih
  | trust x _ ih => exact .trust x ih
  | untrust x _ ih => exact .untrust x ih
  | truncate cut _ ih => exact .truncate cut ih
  | steps _ s ih => exact .steps ih s

theorem Between.stable {a b : Book} (h : Between a b) (r : Reachable a) : Stable a b := by
  induction h with
  | refl => exact Stable.refl _
  | createLeaf trx o1 o2 tip _ hf ih => exact ih.trans (Stable.of_steps (steps_createLeaf _ trx o1 o2 tip hf))
  | addLeaf v _ ih => exact ih.trans (Stable.of_steps (steps_addLeaf _ v))
  | @retry b hb ih => exact ih.trans (Stable.of_steps (steps_retryParked _ (hb.reachable r).inv.parkOk))
  | @trust b x _ ih =>
    have c := coreEq_addTrusted b x
    exact ih.trans ⟨c.2.2.2.2.2.2.2.1, c.2.2.2.2.2.1, c.2.2.2.2.2.2.1⟩
  | @untrust b x _ ih =>
    have c := coreEq_removeTrusted b x
    exact ih.trans ⟨c.2.2.2.2.2.2.2.1, c.2.2.2.2.2.1, c.2.2.2.2.2.2.1⟩
  | truncate cut _ ih => exact ih.trans (Stable.of_truncate _ cut)
  | steps _ s ih => exact ih.trans (Stable.of_steps s)

/-- what `AddLeaf` / `addLeafMemorized` establish before the lock, on the book `b0` of that moment (the
existence look-ups also passed on `b0`; nothing below needs them) -/
structure AddPre (b0 : Book) (leaf : Vertex) : Prop where
  guards : AddGuards b0 leaf
  notGenesis : leaf.trx.issuer ≠ b0.genesis
  vok : leaf.vok = true

/-- **Stale pre-checks are harmless (gossip / retry path).** The unlocked checks of `addLeafMemorized` were
made on `b0`; other calls then took the ledger to `b1`; the locked body runs on `b1`. The result is a
reachable book: every invariant proved for reachable books holds of it. -/
theorem addLeaf_stale_prechecks {b0 b1 : Book} (r0 : Reachable b0) (bt : Between b0 b1) (leaf : Vertex) (rep : Nat)
    (pre : AddPre b0 leaf) (hc : HashConsistent b1 leaf) : Reachable (b1.addLeafLocked leaf rep).1 := by
  have r1 := bt.reachable r0
  obtain ⟨sl, sg, _⟩ := bt.stable r0
  refine .steps r1 (steps_addLeafLocked_stale b1 leaf rep r1.inv ?_ ?_ pre.vok hc)
  · exact ⟨by rw [sl]; exact pre.guards.1, pre.guards.2⟩
  · rw [sg]; exact pre.notGenesis

/-- what `CreateLeaf` establishes before the lock on the book `b0` of that moment -/
structure CreatePre (b0 : Book) (trx : Trx) : Prop where
  guards : CreateGuards b0 trx

/-- **Stale pre-checks are harmless (local proposals).** -/
theorem createLeaf_stale_prechecks {b0 b1 : Book} (r0 : Reachable b0) (bt : Between b0 b1) (trx : Trx) (o1 o2 : List Hash)
    (tip : Vertex) (pre : CreatePre b0 trx) (hf : b1.cpHasVertex tip.hash = false) :
    Reachable (b1.createLeafLocked trx o1 o2 tip).1 := by
  have r1 := bt.reachable r0
  obtain ⟨sl, sg, ss⟩ := bt.stable r0
  refine .steps r1 (steps_createLeafLocked b1 trx o1 o2 tip ?_ hf)
  exact ⟨by rw [sl]; exact pre.guards.loaded, pre.guards.notEmpty, pre.guards.canon, by rw [ss]; exact pre.guards.notOwn,
    by rw [sg]; exact pre.guards.notGenesis⟩

end CModel.Book
