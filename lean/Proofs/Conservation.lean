import Proofs.Confirm
import Proofs.Reachable
/-! C02: pure algebra of flows over any finite vertex set; completeness of the fund check. -/
namespace CModel.Book
open CModel CModel.Melange

theorem sum_map_add {α} (l : List α) (f g : α → Nat) :
    (l.map (fun a => f a + g a)).sum = (l.map f).sum + (l.map g).sum := by
  induction l with
  | nil => rfl
  | cons x xs ih => simp only [List.map_cons, List.sum_cons, ih]; omega

theorem sum_const_zero {α} (l : List α) : (l.map (fun _ => 0)).sum = 0 := by
  induction l with
  | nil => rfl
  | cons x xs ih => simp only [List.map_cons, List.sum_cons, ih]

theorem sum_indicator_absent (addrs : List Addr) (x : Addr) (c : Nat) (hx : x ∉ addrs) :
    (addrs.map (fun a => if (x == a) = true then c else 0)).sum = 0 := by
  induction addrs with
  | nil => rfl
  | cons a as ih =>
    have h1 : x ≠ a := fun e => hx (e ▸ List.mem_cons_self ..)
    have h2 : x ∉ as := fun e => hx (List.mem_cons_of_mem _ e)
    have h3 : (x == a) = false := by simpa using h1
    simp only [List.map_cons, List.sum_cons, h3, Bool.false_eq_true, if_false, ih h2]

theorem sum_indicator (addrs : List Addr) (hn : addrs.Nodup) (x : Addr) (c : Nat) (hx : x ∈ addrs) :
    (addrs.map (fun a => if (x == a) = true then c else 0)).sum = c := by
  induction addrs with
  | nil => cases hx
  | cons a as ih =>
    simp only [List.nodup_cons] at hn
    simp only [List.map_cons, List.sum_cons]
    by_cases hxa : x = a
    · subst hxa
      rw [sum_indicator_absent as x c hn.1]
      simp
    · have hx' : x ∈ as := by
        rcases List.mem_cons.1 hx with h | h
        · exact absurd h hxa
        · exact h
      have h3 : (x == a) = false := by simpa using hxa
      rw [ih hn.2 hx']
      simp [h3]

/-- Total amount moved by a vertex set. -/
def volume (vs : List Vertex) : Nat := (vs.map (fun v => val v.trx.spice)).sum

/-- Σ over wallets of inflow = total volume = Σ over wallets of outflow, for **any** vertex set and
any duplicate-free wallet list covering its issuers and receivers. -/
theorem flow_balance (addrs : List Addr) (hn : addrs.Nodup) (vs : List Vertex)
    (hall : ∀ v ∈ vs, v.trx.issuer ∈ addrs ∧ v.trx.receiver ∈ addrs) :
    (addrs.map (fun a => inflow a vs)).sum = volume vs ∧ (addrs.map (fun a => outflow a vs)).sum = volume vs := by
  induction vs with
  | nil => exact ⟨by simp only [inflow, outflow, volume, List.map_nil, List.sum_nil]; exact sum_const_zero addrs,
      by simp only [inflow, outflow, volume, List.map_nil, List.sum_nil]; exact sum_const_zero addrs⟩
  | cons v vs ih =>
    obtain ⟨i1, i2⟩ := ih (fun x hx => hall x (List.mem_cons_of_mem _ hx))
    obtain ⟨hi, hr⟩ := hall v (List.mem_cons_self ..)
    constructor
    · have : (fun a => inflow a (v :: vs)) = (fun a => inAmt a v + inflow a vs) := by
        funext a; exact inflow_cons a v vs
      rw [this, sum_map_add, i1]
      have : (addrs.map (fun a => inAmt a v)).sum = val v.trx.spice := by
        unfold inAmt; exact sum_indicator addrs hn v.trx.receiver _ hr
      rw [this]; simp [volume]
    · have : (fun a => outflow a (v :: vs)) = (fun a => outAmt a v + outflow a vs) := by
        funext a; exact outflow_cons a v vs
      rw [this, sum_map_add, i2]
      have : (addrs.map (fun a => outAmt a v)).sum = val v.trx.spice := by
        unfold outAmt; exact sum_indicator addrs hn v.trx.issuer _ hi
      rw [this]; simp [volume]

/-- **Completeness of the fund check**: when no running sum leaves the representable range, every
ancestor hash resolves and the parents verify, `validateFunds` succeeds exactly when the funds cover. -/
theorem validateFunds_complete {b : Book} (h : FundsOK b) (leaf : Vertex) (hleaf : Canon leaf.trx.spice)
    (hres : (visited b (b.ancestors leaf.hash)).length = (b.ancestors leaf.hash).length)
    (hvok : ∀ v ∈ b.verts, v.vok = true)
    (hin : cpVal b leaf.trx.issuer + inflow leaf.trx.issuer (walk b leaf) < capacity)
    (hout : outflow leaf.trx.issuer (walk b leaf) < capacity)
    (hcov : outflow leaf.trx.issuer (walk b leaf) ≤ cpVal b leaf.trx.issuer + inflow leaf.trx.issuer (walk b leaf)) :
    validateFunds b leaf = .ok () := by
  unfold validateFunds
  have hcpc := cpFunds_canon h leaf.trx.issuer
  unfold cpVal at hin hcov
  rcases supply_cases Melange.zero ((b.cpFundsGet leaf.trx.issuer).getD Melange.zero) canon_zero hcpc with
    ⟨s, hs, hsv, hsc⟩ | ⟨hs, hge⟩
  · rw [hs]
    simp only
    rw [val_zero] at hsv
    rcases walkFunds_cases b leaf.trx.issuer leaf (s, Melange.zero) (fun e => Tag.transferFailure :: e) (some leaf)
        h.verts hleaf hsc canon_zero with ⟨io, hw, e1, e2, c1, c2, _⟩ | ⟨e, hw, herr⟩
    · rw [hw]
      simp only
      have z2 : val (s, Melange.zero).2 = 0 := val_zero
      have z1 : val (s, Melange.zero).1 = val s := rfl
      rcases checkSufficient_cases io c1 c2 with ⟨hc, _⟩ | ⟨e, hc, hlt⟩
      · rw [hc]
      · exfalso; omega
    · exfalso
      have z2 : val (s, Melange.zero).2 = 0 := val_zero
      have z1 : val (s, Melange.zero).1 = val s := rfl
      rcases herr with r | r | r | r
      · omega
      · -- a parent that does not verify: excluded by `hvok`
        obtain ⟨_, rfl⟩ := r
        clear hin hout hcov hsv z1 z2
        unfold walkFunds at hw
        rcases pourFunds_cases leaf.trx.issuer leaf (s, Melange.zero) hsc canon_zero hleaf with
          ⟨io1, hp, _, _, _, _⟩ | ⟨⟨e, hp⟩, _⟩
        · rw [hp] at hw
          simp only at hw
          have key : ∀ (hs : List Hash) (io : Melange × Melange),
              foldFunds b leaf.trx.issuer hs io (fun e => Tag.transferFailure :: e) (some leaf) ≠ .error [.leafRejected] := by
            intro hs
            induction hs with
            | nil => intro io h; rw [foldFunds] at h; cases h
            | cons x xs ih =>
              intro io h
              rw [foldFunds_cons] at h
              split at h
              · cases h
              · rename_i v hv
                have := hvok v (getVertex_mem hv).1
                simp only [badParent, this, Bool.not_true, Bool.and_false, Bool.false_eq_true, if_false] at h
                split at h
                · exact ih _ h
                · cases h
          exact key _ _ hw
        · rw [hp] at hw
          simp only [Except.error.injEq] at hw
          -- pourFunds errors are [unexpected, overflow]
          unfold pourFunds at hp
          repeat' split at hp
          all_goals first | (cases hp; cases hw) | cases hp
      · omega
      · omega
  · exfalso; rw [val_zero] at hge; omega

end CModel.Book

namespace CModel.Book
open CModel CModel.Melange

end CModel.Book
