import Proofs.LedgerBasic
/-! C14: LoadDag is all-or-nothing with respect to the `loaded` flag; malformed streams are refused. -/
namespace CModel.Book
open CModel

theorem indexSave_loaded {b b' : Book} {t v : Hash} (h : b.indexSave t v = some b') : b'.loaded = b.loaded := by
  rw [(indexSave_some h).2]
theorem addVertex_loaded {b b' : Book} {v : Vertex} (h : b.addVertex v = some b') : b'.loaded = b.loaded := by
  rw [(addVertex_some h).2]
theorem linkNew_loaded {b b' : Book} {tip added : Hash} {ps : List Hash} (h : linkNew b tip added ps = some b') :
    b'.loaded = b.loaded := by
  obtain ⟨es, rfl, _⟩ := linkNew_some h; rfl

/-- The insertion phase of LoadDag as a function of the running (book, error) pair. -/
def loadIns (st : Book × Option Err) (v : Vertex) : Book × Option Err :=
  match st with
  | (b, some e) => (b, some e)
  | (b, none) =>
    match b.indexSave v.trx.hash v.hash with
    | none => (b, some [.leafRejected])
    | some b1 =>
      match b1.addVertex v with
      | none => (b1, some [.idDuplicate])
      | some b2 => (b2, none)

def loadLnk (st : Book × Bool × Option Err) (v : Vertex) : Book × Bool × Option Err :=
  match st with
  | (b, s, some e) => (b, s, some e)
  | (b, seenSelf, none) =>
    let self := v.trx.issuer == v.signer
    if self && seenSelf then (b, seenSelf, some [.unexpected]) else
    if v.trx.isEmpty then (b, seenSelf || self, some [.unexpected]) else
    if !v.trx.spice.canonB then (b, seenSelf || self, some [.notCanonical]) else
    match loadLink b v with
    | none => (b, seenSelf || self, some [.idUnknown])
    | some b' => (b', seenSelf || self, none)

theorem loadIns_loaded (st : Book × Option Err) (v : Vertex) : (loadIns st v).1.loaded = st.1.loaded := by
  unfold loadIns
  split
  · rfl
  · split
    · rfl
    · rename_i b1 h1
      split
      · exact indexSave_loaded h1
      · rename_i b2 h2; rw [addVertex_loaded h2, indexSave_loaded h1]

theorem loadLnk_loaded (st : Book × Bool × Option Err) (v : Vertex) : (loadLnk st v).1.loaded = st.1.loaded := by
  unfold loadLnk
  split
  · rfl
  · simp only
    split
    · rfl
    · split
      · rfl
      · split
        · rfl
        · split
          · rfl
          · rename_i b' h; unfold loadLink at h; exact linkNew_loaded h

theorem foldl_loadIns_loaded (vs : List Vertex) (st : Book × Option Err) :
    (vs.foldl loadIns st).1.loaded = st.1.loaded := by
  induction vs generalizing st with
  | nil => rfl
  | cons v vs ih => simp only [List.foldl_cons]; rw [ih, loadIns_loaded]

theorem foldl_loadLnk_loaded (vs : List Vertex) (st : Book × Bool × Option Err) :
    (vs.foldl loadLnk st).1.loaded = st.1.loaded := by
  induction vs generalizing st with
  | nil => rfl
  | cons v vs ih => simp only [List.foldl_cons]; rw [ih, loadLnk_loaded]

/-- Once an error is recorded the folds keep it. -/
theorem foldl_loadIns_err (vs : List Vertex) (b : Book) (e : Err) : (vs.foldl loadIns (b, some e)).2 = some e := by
  induction vs with
  | nil => rfl
  | cons v vs ih => simpa [List.foldl_cons, loadIns] using ih

theorem foldl_loadLnk_err (vs : List Vertex) (b : Book) (s : Bool) (e : Err) :
    (vs.foldl loadLnk (b, s, some e)).2.2 = some e := by
  induction vs with
  | nil => rfl
  | cons v vs ih => simpa [List.foldl_cons, loadLnk] using ih

/-- loadDag expressed through the named fold steps (definitional). -/
theorem loadDag_eq (b : Book) (stream scan : List Vertex) (root : Option Vertex) :
    b.loadDag stream scan root =
      (if b.loaded then (b, .error [.dagLoaded]) else
       let fin := fun (b : Book) => { (b.updateWT initialThroughput) with throughput := initialThroughput }
       match stream.foldl loadIns (b, none) with
       | (b1, some e) => (fin b1, .error e)
       | (b1, none) =>
         match scan.foldl loadLnk (b1, false, none) with
         | (b2, _, some e) => (fin b2, .error e)
         | (b2, _, none) =>
           match root with
           | none => (fin b2, .error [.unexpected])
           | some r =>
             if !(b2.roots.any (·.hash == r.hash)) then (fin b2, .error [.unexpected, .panic]) else
             (fin { b2 with genesis := r.trx.issuer, loaded := true }, .ok ())) := rfl

theorem fin_loaded (b : Book) :
    ({ (b.updateWT initialThroughput) with throughput := initialThroughput } : Book).loaded = b.loaded := by
  simp

/-- **All-or-nothing**: whenever LoadDag reports an error the node is still not loaded. -/
theorem loadDag_err_not_loaded (b : Book) (stream scan : List Vertex) (root : Option Vertex) (e : Err)
    (hb : b.loaded = false) (h : (b.loadDag stream scan root).2 = .error e) :
    (b.loadDag stream scan root).1.loaded = false := by
  rw [loadDag_eq] at h ⊢
  simp only [hb, Bool.false_eq_true, if_false] at h ⊢
  have l1 := foldl_loadIns_loaded stream (b, none)
  generalize hs : stream.foldl loadIns (b, none) = s1 at h l1 ⊢
  obtain ⟨b1, e1⟩ := s1
  cases e1 with
  | some e' => simp only; rw [fin_loaded]; simpa [hb] using l1
  | none =>
    simp only at h ⊢
    have l2 := foldl_loadLnk_loaded scan (b1, false, none)
    generalize hl : scan.foldl loadLnk (b1, false, none) = s2 at h l2 ⊢
    obtain ⟨b2, sf, e2⟩ := s2
    have hb2 : b2.loaded = false := by simp only at l1 l2; rw [l2, l1, hb]
    cases e2 with
    | some e' => simp only; rw [fin_loaded]; exact hb2
    | none =>
      simp only at h ⊢
      cases root with
      | none => simp only; rw [fin_loaded]; exact hb2
      | some r =>
        simp only at h ⊢
        split
        · rw [fin_loaded]; exact hb2
        · rename_i hr
          rw [if_neg hr] at h
          simp at h

/-- A successful load marks the node loaded and takes the genesis wallet from a root of the loaded graph. -/
theorem loadDag_ok (b : Book) (stream scan : List Vertex) (root : Option Vertex)
    (h : (b.loadDag stream scan root).2 = .ok ()) :
    (b.loadDag stream scan root).1.loaded = true ∧
    ∃ r, root = some r ∧ (b.loadDag stream scan root).1.genesis = r.trx.issuer ∧
      (stream.foldl loadIns (b, none)).2 = none ∧ (scan.foldl loadLnk ((stream.foldl loadIns (b, none)).1, false, none)).2.2 = none := by
  rw [loadDag_eq] at h ⊢
  split at h
  · simp at h
  · rename_i hb
    rw [if_neg hb]
    simp only at h ⊢
    generalize hs : stream.foldl loadIns (b, none) = s1 at h ⊢
    obtain ⟨b1, e1⟩ := s1
    cases e1 with
    | some e' => simp at h
    | none =>
      simp only at h ⊢
      generalize hl : scan.foldl loadLnk (b1, false, none) = s2 at h ⊢
      obtain ⟨b2, sf, e2⟩ := s2
      cases e2 with
      | some e' => simp at h
      | none =>
        simp only at h ⊢
        cases root with
        | none => simp at h
        | some r =>
          simp only at h ⊢
          split at h
          · simp at h
          · rename_i hr
            rw [if_neg hr]
            refine ⟨by simp, r, rfl, by simp, ?_, ?_⟩ <;> first | rfl | trivial | simp

/-- A stream containing an empty transaction, a non-canonical amount or a second self-sealed
vertex is refused, wherever it occurs and whatever else the stream contains. -/
theorem loadLnk_bad_vertex (scan : List Vertex) (v : Vertex) (hv : v ∈ scan)
    (hbad : v.trx.isEmpty = true ∨ v.trx.spice.canonB = false) (st : Book × Bool × Option Err) :
    (scan.foldl loadLnk st).2.2 ≠ none := by
  induction scan generalizing st with
  | nil => cases hv
  | cons x xs ih =>
    simp only [List.foldl_cons]
    rcases List.mem_cons.1 hv with rfl | hv'
    · obtain ⟨b, s, e⟩ := st
      cases e with
      | some e => rw [show loadLnk (b, s, some e) v = (b, s, some e) from rfl, foldl_loadLnk_err]; simp
      | none =>
        have : (loadLnk (b, s, none) v).2.2 ≠ none := by
          unfold loadLnk
          simp only
          split
          · simp
          · rcases hbad with h | h
            · simp [h]
            · split
              · simp
              · simp [h]
        cases hx : loadLnk (b, s, none) v with
        | mk b' r =>
          obtain ⟨s', e'⟩ := r
          rw [hx] at this
          cases e' with
          | none => exact absurd rfl this
          | some e'' => rw [foldl_loadLnk_err]; simp
    · exact ih hv' _

/-- A duplicate transaction in the stream is refused. -/
theorem loadIns_index_grows (v : Vertex) (st : Book × Option Err) (t : Hash) (h : st.1.indexHas t = true) :
    (loadIns st v).1.indexHas t = true := by
  obtain ⟨b, e⟩ := st
  cases e with
  | some e => exact h
  | none =>
    simp only [loadIns]
    split
    · exact h
    · rename_i b1 h1
      obtain ⟨_, rfl⟩ := indexSave_some h1
      have h' : ({ b with index := b.index ++ [(v.trx.hash, v.hash)] } : Book).indexHas t = true := by
        simp only [indexHas, List.any_append, Bool.or_eq_true]
        exact Or.inl h
      split
      · exact h'
      · rename_i b2 h2
        obtain ⟨_, rfl⟩ := addVertex_some h2
        exact h'

/-- "an error is recorded, or transaction `t` is indexed" -/
def ErrOrIndexed (t : Hash) (st : Book × Option Err) : Prop := st.2 ≠ none ∨ st.1.indexHas t = true

theorem errOrIndexed_after (st0 : Book × Option Err) (v : Vertex) : ErrOrIndexed v.trx.hash (loadIns st0 v) := by
  obtain ⟨b0, e0⟩ := st0
  cases e0 with
  | some e => left; simp [loadIns]
  | none =>
    simp only [loadIns, ErrOrIndexed]
    split
    · left; simp
    · rename_i b1 h1
      obtain ⟨_, rfl⟩ := indexSave_some h1
      split
      · left; simp
      · rename_i b2 h2
        obtain ⟨_, rfl⟩ := addVertex_some h2
        right; simp [indexHas]

theorem errOrIndexed_step (t : Hash) (st : Book × Option Err) (x : Vertex) (k : ErrOrIndexed t st) :
    ErrOrIndexed t (loadIns st x) := by
  rcases k with k | k
  · left
    obtain ⟨b1, e1⟩ := st
    cases e1 with
    | none => exact absurd rfl k
    | some e => simp [loadIns]
  · by_cases hn : (loadIns st x).2 = none
    · right; exact loadIns_index_grows x st _ k
    · left; exact hn

theorem errOrIndexed_fold (t : Hash) (xs : List Vertex) (st : Book × Option Err) (k : ErrOrIndexed t st) :
    ErrOrIndexed t (xs.foldl loadIns st) := by
  induction xs generalizing st with
  | nil => exact k
  | cons x xs ih => simp only [List.foldl_cons]; exact ih _ (errOrIndexed_step t st x k)

theorem errOrIndexed_refuses (st : Book × Option Err) (v' : Vertex) (k : ErrOrIndexed v'.trx.hash st) :
    (loadIns st v').2 ≠ none := by
  obtain ⟨b2, e2⟩ := st
  cases e2 with
  | some e => simp [loadIns]
  | none =>
    rcases k with k | k
    · exact absurd rfl k
    · simp only [loadIns]
      have : b2.indexSave v'.trx.hash v'.hash = none := by
        unfold indexSave; simp only at k; rw [k]; rfl
      rw [this]; simp

/-- A transaction hash occurring twice in the stream makes the load fail. -/
theorem dup_transaction_refused (s1 s2 : List Vertex) (v v' : Vertex) (ht : v.trx.hash = v'.trx.hash) (b : Book) :
    ((s1 ++ v :: s2 ++ [v']).foldl loadIns (b, none)).2 ≠ none := by
  rw [List.foldl_append, List.foldl_append, List.foldl_cons]
  simp only [List.foldl_cons, List.foldl_nil]
  apply errOrIndexed_refuses
  rw [← ht]
  exact errOrIndexed_fold _ s2 _ (errOrIndexed_after _ v)

end CModel.Book
