import CModel.Sha256
/-! C04 / C10: base58check address decoding is injective — one address text per key (after the version byte
is pinned, fix e7471a1). Core Lean only. -/
namespace CModel.Crypto

/-! ### the alphabet lookup is injective -/
theorem b58index_go_spec (c : Char) (cs : List Char) (k i : Nat) (h : b58index.go c cs k = some i) :
    ∃ j, i = k + j ∧ cs[j]? = some c := by
  induction cs generalizing k with
  | nil => simp [b58index.go] at h
  | cons x xs ih =>
    unfold b58index.go at h
    by_cases hx : (x == c) = true
    · simp only [hx, ↓reduceIte, Option.some.injEq] at h
      exact ⟨0, by omega, by simpa using hx⟩
    · simp only [hx, Bool.false_eq_true, ↓reduceIte] at h
      obtain ⟨j, hj, hc⟩ := ih (k + 1) h
      exact ⟨j + 1, by omega, by simpa using hc⟩

theorem b58index_inj (c c' : Char) (i : Nat) (h : b58index c = some i) (h' : b58index c' = some i) : c = c' := by
  unfold b58index at h h'
  obtain ⟨j, hj, hc⟩ := b58index_go_spec c _ 0 i h
  obtain ⟨j', hj', hc'⟩ := b58index_go_spec c' _ 0 i h'
  have : j = j' := by omega
  subst this
  rw [hc] at hc'
  exact Option.some.inj hc'

theorem b58index_lt (c : Char) (i : Nat) (h : b58index c = some i) : i < 58 := by
  unfold b58index at h
  obtain ⟨j, hj, hc⟩ := b58index_go_spec c _ 0 i h
  have hl : j < b58alphabet.toList.length := by
    cases Nat.lt_or_ge j b58alphabet.toList.length with
    | inl h => exact h
    | inr hn =>
      have : b58alphabet.toList[j]? = none := List.getElem?_eq_none hn
      rw [this] at hc; cases hc
  have : b58alphabet.toList.length = 58 := by decide
  omega

theorem mapM_b58index_inj (cs cs' : List Char) (ds : List Nat) (h : cs.mapM b58index = some ds) (h' : cs'.mapM b58index = some ds) :
    cs = cs' := by
  induction cs generalizing cs' ds with
  | nil =>
    simp only [List.mapM_nil, Option.pure_def, Option.some.injEq] at h
    subst h
    cases cs' with
    | nil => rfl
    | cons x xs =>
      simp only [List.mapM_cons, Option.pure_def, Option.bind_eq_bind] at h'
      cases hx : b58index x with
      | none => simp [hx] at h'
      | some i =>
        cases hxs : xs.mapM b58index with
        | none => simp [hx, hxs] at h'
        | some r => simp [hx, hxs] at h'
  | cons c cs ih =>
    simp only [List.mapM_cons, Option.pure_def, Option.bind_eq_bind] at h
    cases hc : b58index c with
    | none => simp [hc] at h
    | some i =>
      cases hcs : cs.mapM b58index with
      | none => simp [hc, hcs] at h
      | some r =>
        simp only [hc, hcs, Option.bind_some, Option.some.injEq] at h
        subst h
        cases cs' with
        | nil => simp at h'
        | cons x xs =>
          simp only [List.mapM_cons, Option.pure_def, Option.bind_eq_bind] at h'
          cases hx : b58index x with
          | none => simp [hx] at h'
          | some i' =>
            cases hxs : xs.mapM b58index with
            | none => simp [hx, hxs] at h'
            | some r' =>
              simp only [hx, hxs, Option.bind_some, Option.some.injEq, List.cons.injEq] at h'
              obtain ⟨e1, e2⟩ := h'
              subst e1 e2
              rw [b58index_inj c x _ hc hx, ih xs _ hcs hxs]

theorem mapM_b58index_lt (cs : List Char) (ds : List Nat) (h : cs.mapM b58index = some ds) : ∀ d ∈ ds, d < 58 := by
  induction cs generalizing ds with
  | nil => simp only [List.mapM_nil, Option.pure_def, Option.some.injEq] at h; subst h; simp
  | cons c cs ih =>
    simp only [List.mapM_cons, Option.pure_def, Option.bind_eq_bind] at h
    cases hc : b58index c with
    | none => simp [hc] at h
    | some i =>
      cases hcs : cs.mapM b58index with
      | none => simp [hc, hcs] at h
      | some r =>
        simp only [hc, hcs, Option.bind_some, Option.some.injEq] at h
        subst h
        intro d hd
        rcases List.mem_cons.mp hd with rfl | hd
        · exact b58index_lt c _ hc
        · exact ih r hcs d hd

end CModel.Crypto

namespace CModel.Crypto

/-! ### big-endian bytes -/
theorem natToBytesBE_zero : natToBytesBE 0 = [] := by rw [natToBytesBE]; simp
theorem natToBytesBE_pos (n : Nat) (h : n ≠ 0) : natToBytesBE n = natToBytesBE (n / 256) ++ [UInt8.ofNat (n % 256)] := by
  rw [natToBytesBE]; simp [h]

def fromBE (bs : Bytes) : Nat := bs.foldl (fun a b => a * 256 + b.toNat) 0

theorem fromBE_append (a : Bytes) (b : UInt8) : fromBE (a ++ [b]) = fromBE a * 256 + b.toNat := by
  simp [fromBE, List.foldl_append]

theorem fromBE_toBE (n : Nat) : fromBE (natToBytesBE n) = n := by
  induction n using Nat.strongRecOn with
  | _ n ih =>
    by_cases h : n = 0
    · subst h; rw [natToBytesBE_zero]; rfl
    · rw [natToBytesBE_pos n h, fromBE_append, ih (n / 256) (Nat.div_lt_self (Nat.pos_of_ne_zero h) (by decide))]
      simp only [UInt8.toNat_ofNat']
      have : n % 256 % 2 ^ 8 = n % 256 := Nat.mod_eq_of_lt (by have := Nat.mod_lt n (by decide : 256 > 0); omega)
      omega

theorem natToBytesBE_eq_nil (n : Nat) : natToBytesBE n = [] ↔ n = 0 := by
  constructor
  · intro h
    by_cases hn : n = 0
    · exact hn
    · rw [natToBytesBE_pos n hn] at h; simp at h
  · intro h; subst h; exact natToBytesBE_zero

theorem natToBytesBE_head (n : Nat) (b : UInt8) (h : (natToBytesBE n).head? = some b) : b ≠ 0 := by
  induction n using Nat.strongRecOn with
  | _ n ih =>
    by_cases hn : n = 0
    · subst hn; rw [natToBytesBE_zero] at h; cases h
    · rw [natToBytesBE_pos n hn] at h
      by_cases hq : n / 256 = 0
      · rw [hq, natToBytesBE_zero] at h
        simp only [List.nil_append, List.head?_cons, Option.some.injEq] at h
        subst h
        have hlt : n < 256 := by
          cases Nat.lt_or_ge n 256 with
          | inl h => exact h
          | inr h => have := Nat.div_pos h (by decide : 0 < 256); omega
        intro hz
        have := congrArg UInt8.toNat hz
        simp only [UInt8.toNat_ofNat'] at this
        have e1 : n % 256 = n := Nat.mod_eq_of_lt hlt
        rw [e1] at this
        have e2 : n % 2 ^ 8 = n := Nat.mod_eq_of_lt (by omega)
        rw [e2] at this
        exact hn (by simpa using this)
      · have hne : natToBytesBE (n / 256) ≠ [] := fun e => hq ((natToBytesBE_eq_nil _).mp e)
        have hh : (natToBytesBE (n / 256) ++ [UInt8.ofNat (n % 256)]).head? = (natToBytesBE (n / 256)).head? := by
          cases hx : natToBytesBE (n / 256) with
          | nil => exact absurd hx hne
          | cons a as => rfl
        rw [hh] at h
        exact ih (n / 256) (Nat.div_lt_self (Nat.pos_of_ne_zero hn) (by decide)) h

/-- `0^z ++ A = 0^z' ++ A'` with `A`, `A'` not starting with a zero: same number of zeros, same rest -/
theorem replicate_zero_append_inj {α} [DecidableEq α] (zero : α) (z z' : Nat) (A A' : List α)
    (hA : ∀ b, A.head? = some b → b ≠ zero) (hA' : ∀ b, A'.head? = some b → b ≠ zero)
    (h : List.replicate z zero ++ A = List.replicate z' zero ++ A') : z = z' ∧ A = A' := by
  induction z generalizing z' with
  | zero =>
    cases z' with
    | zero => exact ⟨rfl, by simpa using h⟩
    | succ k =>
      simp only [List.replicate_zero, List.nil_append, List.replicate_succ, List.cons_append] at h
      exact absurd rfl (hA zero (by rw [h]; rfl))
  | succ k ih =>
    cases z' with
    | zero =>
      simp only [List.replicate_zero, List.nil_append, List.replicate_succ, List.cons_append] at h
      exact absurd rfl (hA' zero (by rw [← h]; rfl))
    | succ k' =>
      simp only [List.replicate_succ, List.cons_append, List.cons.injEq, true_and] at h
      obtain ⟨e1, e2⟩ := ih k' h
      exact ⟨by omega, e2⟩

end CModel.Crypto

namespace CModel.Crypto

/-! ### base-58 digit lists -/
theorem digitsVal_snoc (ds : List Nat) (d : Nat) : digitsVal (ds ++ [d]) = digitsVal ds * 58 + d := by
  simp [digitsVal, List.foldl_append]

theorem foldl_digits_zero (ds : List Nat) : (0 :: ds).foldl (fun acc d => acc * 58 + d) 0 = ds.foldl (fun acc d => acc * 58 + d) 0 := by
  simp [List.foldl_cons]

theorem digitsVal_replicate_zero_append (z : Nat) (t : List Nat) : digitsVal (List.replicate z 0 ++ t) = digitsVal t := by
  induction z with
  | zero => rfl
  | succ k ih =>
    rw [List.replicate_succ, List.cons_append]
    unfold digitsVal at ih ⊢
    rw [foldl_digits_zero]; exact ih

theorem mem_takeWhile_true {α} (p : α → Bool) (l : List α) (b : α) (h : b ∈ l.takeWhile p) : p b = true := by
  induction l with
  | nil => simp at h
  | cons x xs ih =>
    rw [List.takeWhile_cons] at h
    by_cases hx : p x = true
    · simp only [hx, ↓reduceIte, List.mem_cons] at h
      rcases h with rfl | h
      · exact hx
      · exact ih h
    · simp [hx] at h

theorem takeWhile_zero_eq_replicate (ds : List Nat) :
    ds.takeWhile (· == 0) = List.replicate (ds.takeWhile (· == 0)).length 0 := by
  apply List.eq_replicate_iff.mpr
  refine ⟨rfl, fun b hb => ?_⟩
  have := mem_takeWhile_true (· == 0) ds b hb
  simpa using this

/-- the digits after the leading zeros do not start with a zero -/
theorem dropWhile_zero_head (ds : List Nat) (d : Nat) (h : (ds.dropWhile (· == 0)).head? = some d) : d ≠ 0 := by
  have := List.head?_dropWhile_not (· == 0) ds
  rw [h] at this
  simpa using this

theorem digitsVal_eq_zero (ds : List Nat) (h : digitsVal ds = 0) : ∀ d ∈ ds, d = 0 := by
  induction hn : ds.length using Nat.strongRecOn generalizing ds with
  | _ n ih =>
    rcases List.eq_nil_or_concat ds with rfl | ⟨init, last, rfl⟩
    · simp
    · rw [List.concat_eq_append] at h hn ⊢
      rw [digitsVal_snoc] at h
      have h1 : digitsVal init = 0 := by omega
      have h2 : last = 0 := by omega
      have := ih init.length (by rw [← hn]; simp) init h1 rfl
      intro d hd
      rcases List.mem_append.mp hd with hd | hd
      · exact this d hd
      · simp only [List.mem_singleton] at hd; rw [hd, h2]

/-- no leading zero, digits below 58: the value determines the digit list -/
theorem digits_unique (t t' : List Nat) (ht : ∀ d, t.head? = some d → d ≠ 0) (ht' : ∀ d, t'.head? = some d → d ≠ 0)
    (hlt : ∀ d ∈ t, d < 58) (hlt' : ∀ d ∈ t', d < 58) (h : digitsVal t = digitsVal t') : t = t' := by
  induction hn : t.length using Nat.strongRecOn generalizing t t' with
  | _ n ih =>
    rcases List.eq_nil_or_concat t with rfl | ⟨init, last, rfl⟩
    · -- value 0: t' has only zeros and no leading zero, so it is empty
      cases t' with
      | nil => rfl
      | cons x xs =>
        have hz := digitsVal_eq_zero (x :: xs) (by rw [← h]; rfl) x List.mem_cons_self
        exact absurd hz (ht' x rfl)
    · rcases List.eq_nil_or_concat t' with rfl | ⟨init', last', rfl⟩
      · rw [List.concat_eq_append] at h ht
        have hz := digitsVal_eq_zero (init ++ [last]) (by rw [h]; rfl)
        cases hi : init with
        | nil =>
          rw [hi] at ht hz
          exact absurd (hz last (by simp)) (ht last rfl)
        | cons x xs =>
          rw [hi] at ht hz
          exact absurd (hz x (by simp)) (ht x rfl)
      · simp only [List.concat_eq_append] at *
        rw [digitsVal_snoc, digitsVal_snoc] at h
        have hl : last < 58 := hlt last (by simp)
        have hl' : last' < 58 := hlt' last' (by simp)
        have e1 : last = last' := by omega
        have e2 : digitsVal init = digitsVal init' := by omega
        have hh : ∀ (i : List Nat) (l : Nat), (∀ d, (i ++ [l]).head? = some d → d ≠ 0) → ∀ d, i.head? = some d → d ≠ 0 := by
          intro i l hyp d hd
          cases i with
          | nil => cases hd
          | cons x xs => exact hyp d (by simpa using hd)
        have := ih init.length (by rw [← hn]; simp) init init' (hh init last ht) (hh init' last' ht')
          (fun d hd => hlt d (List.mem_append_left _ hd)) (fun d hd => hlt' d (List.mem_append_left _ hd)) e2 rfl
        rw [this, e1]

end CModel.Crypto

namespace CModel.Crypto

theorem mem_of_mem_dropWhile' {α} (p : α → Bool) (l : List α) (b : α) (h : b ∈ l.dropWhile p) : b ∈ l := by
  have := List.takeWhile_append_dropWhile (p := p) (l := l)
  rw [← this]
  exact List.mem_append_right _ h

theorem base58DecodeC_spec (cs : List Char) (bs : Bytes) (h : base58DecodeC cs = some bs) :
    ∃ ds, cs.mapM b58index = some ds ∧
      bs = List.replicate (ds.takeWhile (· == 0)).length (0 : UInt8) ++ natToBytesBE (digitsVal ds) := by
  unfold base58DecodeC at h
  cases hm : cs.mapM b58index with
  | none => simp [hm] at h
  | some ds =>
    simp only [hm, Option.pure_def, Option.bind_eq_bind, Option.bind_some, Option.some.injEq] at h
    exact ⟨ds, rfl, h.symm⟩

/-- **base58 decoding is injective**: two texts that decode to the same bytes are the same text. -/
theorem base58DecodeC_inj (cs cs' : List Char) (bs : Bytes) (h : base58DecodeC cs = some bs) (h' : base58DecodeC cs' = some bs) :
    cs = cs' := by
  obtain ⟨ds, hm, hb⟩ := base58DecodeC_spec cs bs h
  obtain ⟨ds', hm', hb'⟩ := base58DecodeC_spec cs' bs h'
  have hbytes := hb.symm.trans hb'
  obtain ⟨hz, hA⟩ := replicate_zero_append_inj (0 : UInt8) _ _ _ _ (natToBytesBE_head _) (natToBytesBE_head _) hbytes
  have hv : digitsVal ds = digitsVal ds' := by
    have := congrArg fromBE hA
    rwa [fromBE_toBE, fromBE_toBE] at this
  -- split both digit lists into leading zeros and the rest
  have hsplit : ∀ l : List Nat, l = List.replicate (l.takeWhile (· == 0)).length 0 ++ l.dropWhile (· == 0) := by
    intro l
    conv => lhs; rw [← List.takeWhile_append_dropWhile (p := (· == 0)) (l := l)]
    rw [← takeWhile_zero_eq_replicate]
  have hv2 : digitsVal (ds.dropWhile (· == 0)) = digitsVal (ds'.dropWhile (· == 0)) := by
    have e1 := digitsVal_replicate_zero_append (ds.takeWhile (· == 0)).length (ds.dropWhile (· == 0))
    have e2 := digitsVal_replicate_zero_append (ds'.takeWhile (· == 0)).length (ds'.dropWhile (· == 0))
    rw [← hsplit ds] at e1
    rw [← hsplit ds'] at e2
    omega
  have ht := digits_unique _ _ (dropWhile_zero_head ds) (dropWhile_zero_head ds')
    (fun d hd => mapM_b58index_lt cs ds hm d (mem_of_mem_dropWhile' _ _ _ hd))
    (fun d hd => mapM_b58index_lt cs' ds' hm' d (mem_of_mem_dropWhile' _ _ _ hd)) hv2
  have hds : ds = ds' := by rw [hsplit ds, hsplit ds', hz, ht]
  subst hds
  exact mapM_b58index_inj cs cs' ds hm hm'

/-- **One address text per key**: with the version byte pinned, `AddressToPubKey` is injective. -/
theorem addressToPubKeyC_inj (cs cs' : List Char) (k : Bytes) (h : addressToPubKeyC cs = some k) (h' : addressToPubKeyC cs' = some k) :
    cs = cs' := by
  have spec : ∀ (x : List Char), addressToPubKeyC x = some k →
      base58DecodeC x = some ((0 :: k) ++ (sha256 (sha256 (0 :: k))).take checksumLength) := by
    intro x hx
    unfold addressToPubKeyC at hx
    cases hr : base58DecodeC x with
    | none => simp [hr] at hx
    | some raw =>
      simp only [hr, Option.pure_def, Option.bind_eq_bind, Option.bind_some] at hx
      split at hx; · cases hx
      split at hx; · cases hx
      rename_i hhead
      split at hx
      · rename_i hchk
        simp only [Option.some.injEq] at hx
        have hbody : raw.take (raw.length - checksumLength) = 0 :: k := by
          cases hb : raw.take (raw.length - checksumLength) with
          | nil => rw [hb] at hhead; simp at hhead
          | cons a as =>
            rw [hb] at hhead hx
            simp only [List.head?_cons, bne_iff_ne, ne_eq, Option.some.injEq, Decidable.not_not] at hhead
            simp only [List.drop_succ_cons, List.drop_zero] at hx
            rw [hhead, hx]
        have hact : raw.drop (raw.length - checksumLength) = (sha256 (sha256 (0 :: k))).take checksumLength := by
          rw [hbody] at hchk
          simpa using hchk
        have : raw = raw.take (raw.length - checksumLength) ++ raw.drop (raw.length - checksumLength) :=
          (List.take_append_drop _ _).symm
        rw [this, hbody, hact]
      · cases hx
  exact base58DecodeC_inj cs cs' _ (spec cs h) (spec cs' h')

end CModel.Crypto
