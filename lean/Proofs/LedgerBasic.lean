import CModel.Ledger
/-! Field-level lemmas about the ledger primitives (core Lean only). -/
namespace CModel.Book
open CModel

/-! ### which fields each primitive touches -/

@[simp] theorem deleteVertex_verts (b : Book) (h : Hash) : (b.deleteVertex h).verts = b.verts.filter (·.hash != h) := rfl
@[simp] theorem deleteVertex_edges (b : Book) (h : Hash) :
    (b.deleteVertex h).edges = b.edges.filter (fun e => e.1 != h && e.2 != h) := rfl
@[simp] theorem deleteVertex_index (b : Book) (h : Hash) : (b.deleteVertex h).index = b.index := rfl
@[simp] theorem deleteVertex_cpVerts (b : Book) (h : Hash) : (b.deleteVertex h).cpVerts = b.cpVerts := rfl
@[simp] theorem deleteVertex_cpFunds (b : Book) (h : Hash) : (b.deleteVertex h).cpFunds = b.cpFunds := rfl
@[simp] theorem deleteVertex_genesis (b : Book) (h : Hash) : (b.deleteVertex h).genesis = b.genesis := rfl
@[simp] theorem deleteVertex_self (b : Book) (h : Hash) : (b.deleteVertex h).self = b.self := rfl
@[simp] theorem deleteVertex_loaded (b : Book) (h : Hash) : (b.deleteVertex h).loaded = b.loaded := rfl
@[simp] theorem deleteVertex_trusted (b : Book) (h : Hash) : (b.deleteVertex h).trusted = b.trusted := rfl
@[simp] theorem deleteVertex_parked (b : Book) (h : Hash) : (b.deleteVertex h).parked = b.parked := rfl

@[simp] theorem indexRemove_verts (b : Book) (t : Hash) : (b.indexRemove t).verts = b.verts := rfl
@[simp] theorem indexRemove_edges (b : Book) (t : Hash) : (b.indexRemove t).edges = b.edges := rfl
@[simp] theorem indexRemove_index (b : Book) (t : Hash) : (b.indexRemove t).index = b.index.filter (·.1 != t) := rfl
@[simp] theorem indexRemove_cpVerts (b : Book) (t : Hash) : (b.indexRemove t).cpVerts = b.cpVerts := rfl
@[simp] theorem indexRemove_cpFunds (b : Book) (t : Hash) : (b.indexRemove t).cpFunds = b.cpFunds := rfl
@[simp] theorem indexRemove_genesis (b : Book) (t : Hash) : (b.indexRemove t).genesis = b.genesis := rfl
@[simp] theorem indexRemove_self (b : Book) (t : Hash) : (b.indexRemove t).self = b.self := rfl
@[simp] theorem indexRemove_loaded (b : Book) (t : Hash) : (b.indexRemove t).loaded = b.loaded := rfl
@[simp] theorem indexRemove_trusted (b : Book) (t : Hash) : (b.indexRemove t).trusted = b.trusted := rfl
@[simp] theorem indexRemove_parked (b : Book) (t : Hash) : (b.indexRemove t).parked = b.parked := rfl

theorem updateWT_core (b : Book) (w : UInt64) :
    (b.updateWT w).verts = b.verts ∧ (b.updateWT w).edges = b.edges ∧ (b.updateWT w).index = b.index ∧
    (b.updateWT w).cpVerts = b.cpVerts ∧ (b.updateWT w).cpFunds = b.cpFunds ∧ (b.updateWT w).genesis = b.genesis ∧
    (b.updateWT w).self = b.self ∧ (b.updateWT w).loaded = b.loaded ∧ (b.updateWT w).trusted = b.trusted ∧
    (b.updateWT w).parked = b.parked := by
  unfold updateWT; split <;> simp
@[simp] theorem updateWT_verts (b : Book) (w : UInt64) : (b.updateWT w).verts = b.verts := (updateWT_core b w).1
@[simp] theorem updateWT_edges (b : Book) (w : UInt64) : (b.updateWT w).edges = b.edges := (updateWT_core b w).2.1
@[simp] theorem updateWT_index (b : Book) (w : UInt64) : (b.updateWT w).index = b.index := (updateWT_core b w).2.2.1
@[simp] theorem updateWT_cpVerts (b : Book) (w : UInt64) : (b.updateWT w).cpVerts = b.cpVerts := (updateWT_core b w).2.2.2.1
@[simp] theorem updateWT_cpFunds (b : Book) (w : UInt64) : (b.updateWT w).cpFunds = b.cpFunds := (updateWT_core b w).2.2.2.2.1
@[simp] theorem updateWT_genesis (b : Book) (w : UInt64) : (b.updateWT w).genesis = b.genesis := (updateWT_core b w).2.2.2.2.2.1
@[simp] theorem updateWT_self (b : Book) (w : UInt64) : (b.updateWT w).self = b.self := (updateWT_core b w).2.2.2.2.2.2.1
@[simp] theorem updateWT_loaded (b : Book) (w : UInt64) : (b.updateWT w).loaded = b.loaded := (updateWT_core b w).2.2.2.2.2.2.2.1
@[simp] theorem updateWT_trusted (b : Book) (w : UInt64) : (b.updateWT w).trusted = b.trusted := (updateWT_core b w).2.2.2.2.2.2.2.2.1
@[simp] theorem updateWT_parked (b : Book) (w : UInt64) : (b.updateWT w).parked = b.parked := (updateWT_core b w).2.2.2.2.2.2.2.2.2

theorem indexSave_some {b b' : Book} {t v : Hash} (h : b.indexSave t v = some b') :
    b.indexHas t = false ∧ b' = { b with index := b.index ++ [(t, v)] } := by
  unfold indexSave at h; split at h
  · cases h
  · cases h; simp_all

theorem addVertex_some {b b' : Book} {v : Vertex} (h : b.addVertex v = some b') :
    b.hasVertex v.hash = false ∧ b' = { b with verts := b.verts ++ [v] } := by
  unfold addVertex at h; split at h
  · cases h
  · cases h; simp_all

theorem addEdge_some {b b' : Book} {s d : Hash} (h : b.addEdge s d = some b') :
    b.hasVertex s = true ∧ b.hasVertex d = true ∧ s ≠ d ∧ b' = { b with edges := b.edges ++ [(s, d)] } := by
  unfold addEdge at h
  split at h
  · cases h
  · split at h
    · cases h
    · split at h
      · cases h
      · split at h
        · cases h
        · cases h; simp_all

/-- `linkNew` only appends edges `(p, tip)` with `p` among the given parents and live. -/
theorem linkNew_some {b b' : Book} {tip : Hash} {added : Hash} {ps : List Hash}
    (h : linkNew b tip added ps = some b') :
    ∃ es : List (Hash × Hash), b' = { b with edges := b.edges ++ es } ∧
      ∀ e ∈ es, e.2 = tip ∧ e.1 ∈ ps ∧ b.hasVertex e.1 = true ∧ e.1 ≠ tip := by
  induction ps generalizing b added with
  | nil => simp [linkNew] at h; exact ⟨[], by simp [h]⟩
  | cons p ps ih =>
    simp only [linkNew] at h
    split at h
    · cases h; exact ⟨[], by simp⟩
    · split at h
      · cases h
      · rename_i b1 hb1
        obtain ⟨hs, hd, hne, rfl⟩ := addEdge_some hb1
        obtain ⟨es, rfl, hes⟩ := ih h
        refine ⟨(p, tip) :: es, by simp, ?_⟩
        intro e he
        rcases List.mem_cons.1 he with rfl | he
        · exact ⟨rfl, List.mem_cons_self .., hs, hne⟩
        · obtain ⟨h1, h2, h3, h4⟩ := hes e he
          exact ⟨h1, List.mem_cons_of_mem _ h2, by simpa [hasVertex] using h3, h4⟩

/-- For the two-parent list used by both insertion paths: unless the left parent is the zero hash
(the initial value of the Go loop's `addedHash`), both parents end up linked and were live. -/
theorem linkNew_pair {b b' : Book} {tip l r : Hash} (h : linkNew b tip 0 [l, r] = some b') (hl : l ≠ 0) :
    ∃ es : List (Hash × Hash), b' = { b with edges := b.edges ++ es } ∧ (l, tip) ∈ es ∧ (r, tip) ∈ es ∧
      b.hasVertex l = true ∧ b.hasVertex r = true := by
  simp only [linkNew] at h
  rw [if_neg (by simpa using hl)] at h
  split at h
  · cases h
  · rename_i b1 hb1
    obtain ⟨hs, hd, hne, rfl⟩ := addEdge_some hb1
    split at h
    · rename_i hrl
      have : r = l := by simpa using hrl
      subst this
      cases h
      exact ⟨[(r, tip)], rfl, by simp, by simp, hs, hs⟩
    · split at h
      · cases h
      · rename_i b2 hb2
        obtain ⟨hs2, _, _, rfl⟩ := addEdge_some hb2
        cases h
        exact ⟨[(l, tip), (r, tip)], by simp, by simp, by simp, hs, by simpa [hasVertex] using hs2⟩

theorem park_some {b b' : Book} {v : Vertex} {r : Nat} (h : b.park v r = some b') :
    b' = { b with parked := b.parked ++ [(v, r + 1)] } := by
  unfold park at h; split at h
  · cases h
  · split at h
    · cases h
    · cases h; rfl

theorem getVertex_mem {b : Book} {h : Hash} {v : Vertex} (hv : b.getVertex h = some v) :
    v ∈ b.verts ∧ v.hash = h := by
  unfold getVertex at hv
  exact ⟨List.mem_of_find?_eq_some hv, by simpa using List.find?_some hv⟩

end CModel.Book
