import Proofs.LedgerSeal
/-! Reachable books and the lift of the invariants to every reachable state. -/
namespace CModel.Book
open CModel

/-- The orphan buffer only holds vertices that passed the guards of `AddLeaf`. -/
def ParkInv (b : Book) : Prop := ∀ p ∈ b.parked, AddGuards b p.1

theorem createGenesis_ok {b b' : Book} {recv : Addr} {spc : Melange} {v v' : Vertex}
    (h : b.createGenesis recv spc v = (b', .ok v')) :
    v' = v ∧ isGenesisV v ∧ v.vok = true ∧ v.trx.receiver ≠ v.trx.issuer ∧ v.trx.spice.canonB = true ∧
    b'.verts = b.verts ++ [v] ∧ b'.index = b.index ++ [(v.trx.hash, v.hash)] ∧ b'.cpVerts = b.cpVerts ∧
    b'.edges = b.edges ∧ b'.genesis = b.self ∧ b'.loaded = true ∧ b'.parked = b.parked ∧
    b.indexHas v.trx.hash = false ∧ b.hasVertex v.hash = false ∧ b'.cpFunds = b.cpFunds := by
  unfold createGenesis at h
  split at h; · cases h
  rename_i hrecv
  split at h; · cases h
  rename_i hcan
  split at h; · cases h
  rename_i hchk
  simp only [Bool.or_eq_true, bne_iff_ne, ne_eq, Bool.not_eq_true', not_or, Decidable.not_not, Bool.not_eq_false] at hchk
  obtain ⟨⟨⟨⟨⟨⟨⟨c0, c1⟩, c2⟩, c3⟩, c4⟩, c5⟩, c6⟩, c7⟩ := hchk
  split at h; · cases h
  rename_i b1 h1
  obtain ⟨hf1, rfl⟩ := indexSave_some h1
  split at h; · cases h
  rename_i b2 h2
  obtain ⟨hf2, rfl⟩ := addVertex_some h2
  simp only [Prod.mk.injEq, Except.ok.injEq] at h
  obtain ⟨rfl, rfl⟩ := h
  refine ⟨rfl, ⟨c4, c5⟩, c7, ?_, ?_, by simp, by simp, by simp, by simp, rfl, rfl, by simp, hf1, by simpa [hasVertex] using hf2, by simp⟩
  · rw [c3, c2]; simpa using hrecv
  · rw [c0]; simpa using hcan

structure LedgerInv (b : Book) : Prop where
  idx : IndexInv b
  sealing : SealInv b
  verified : VokInv b
  canon : CanonInv b
  cpCanon : ∀ e ∈ b.cpFunds, e.2.canonB = true
  parkOk : ParkInv b

theorem LedgerInv.init (self : Addr) : LedgerInv { self := self } where
  idx := {
    nodupV := by simp [allV]
    nodupT := by simp [allV]
    nodupI := by simp
    holders := by intro v hv; simp [allV] at hv
    noDangling := by intro e he; simp at he }
  sealing := by intro v hv; simp [allV] at hv
  verified := by intro v hv; simp at hv
  canon := by intro v hv; simp [allV] at hv
  cpCanon := by intro e he; simp at he
  parkOk := by intro p hp; simp at hp

theorem ParkInv.tr {b b' : Book} (h : ParkInv b) (t : Tr b b') : ParkInv b' := by
  have fr := t.frame
  cases t with
  | misc c =>
    intro p hp
    rcases c.2.2.2.2.2.2.2.2 p hp with h1 | h1
    · have := h p h1; unfold AddGuards at this ⊢; rw [fr.1]; exact this
    · unfold AddGuards at h1 ⊢; rw [fr.1]; exact h1
  | drop v hv => intro p hp; have := h p (by simpa using hp); unfold AddGuards at this ⊢; simpa using this
  | insert v es ok hes hcomp hzero => intro p hp; exact h p hp
  | unlink x hx => intro p hp; exact h p hp

theorem LedgerInv.tr {b b' : Book} (h : LedgerInv b) (t : Tr b b') : LedgerInv b' :=
  ⟨h.idx.tr t, h.sealing.tr t, h.verified.tr t, h.canon.tr t, by rw [t.frame.2.2.2.2]; exact h.cpCanon, h.parkOk.tr t⟩

theorem LedgerInv.steps {b b' : Book} (h : LedgerInv b) (s : Steps b b') : LedgerInv b' := by
  induction s with
  | refl => exact h
  | tail _ t ih => exact ih.tr t

theorem steps_retryParked (b : Book) (hp : ParkInv b) : Steps b b.retryParked.1 := by
  unfold retryParked
  split
  · exact Steps.refl _
  · rename_i v rep rest heq
    have hg : AddGuards b v := hp (v, rep) (by rw [heq]; exact List.mem_cons_self ..)
    have m : Tr b { b with parked := rest } := Tr.misc ⟨rfl, rfl, rfl, rfl, rfl, rfl, rfl, rfl, by
      intro p hp'; exact Or.inl (by rw [heq]; exact List.mem_cons_of_mem _ hp')⟩
    exact (Steps.single m).trans (steps_addLeafMemorized _ v rep hg)

theorem LedgerInv.genesis {b b' : Book} {recv : Addr} {spc : Melange} {v v' : Vertex}
    (hv : b.verts = []) (hc : b.cpVerts = []) (hi : b.index = []) (hpk : b.parked = []) (hcf : b.cpFunds = [])
    (h : b.createGenesis recv spc v = (b', .ok v')) : LedgerInv b' := by
  obtain ⟨_, hgen, hvok, _, hcanon, e1, e2, e3, _, e5, e6, e7, _, _, e8⟩ := createGenesis_ok h
  rw [hv] at e1; rw [hi] at e2; rw [hc] at e3; rw [hpk] at e7
  have hall : allV b' = [v] := by unfold allV; rw [e1, e3]; rfl
  refine ⟨⟨?_, ?_, ?_, ?_, ?_⟩, ?_, ?_, ?_, ?_, ?_⟩
  · rw [hall]; simp
  · rw [hall]; simp
  · rw [e2]; simp
  · rw [hall, e2]; intro x hx; simp only [List.mem_cons, List.mem_nil_iff, or_false] at hx; subst hx; simp
  · rw [hall, e2]; intro e he; simp only [List.nil_append, List.mem_cons, List.mem_nil_iff, or_false] at he
    subst he; exact ⟨v, by simp, rfl, rfl⟩
  · intro x hx; rw [hall] at hx; simp only [List.mem_cons, List.mem_nil_iff, or_false] at hx; subst hx
    exact Or.inl hgen
  · intro x hx; rw [e1] at hx; simp only [List.nil_append, List.mem_cons, List.mem_nil_iff, or_false] at hx
    subst hx; exact hvok
  · intro x hx; rw [hall] at hx; simp only [List.mem_cons, List.mem_nil_iff, or_false] at hx; subst hx
    exact hcanon
  · intro e he; rw [e8, hcf] at he; cases he
  · intro p hp; rw [e7] at hp; cases hp

theorem coreEq_addTrusted (b : Book) (a : Addr) : CoreEq b (b.addTrusted a) := by
  unfold addTrusted; split
  · exact CoreEq.rfl' b
  · exact ⟨rfl, rfl, rfl, rfl, rfl, rfl, rfl, rfl, fun _ h => Or.inl h⟩

theorem coreEq_removeTrusted (b : Book) (a : Addr) : CoreEq b (b.removeTrusted a) :=
  ⟨rfl, rfl, rfl, rfl, rfl, rfl, rfl, rfl, fun _ h => Or.inl h⟩

end CModel.Book
