import CModel.Msgpack
/-! C19: round-trip lemmas for the storage codec model (parser ∘ encoder = id, with any suffix). -/
namespace CModel.Msgpack

theorem byte_toNat (n : Nat) : (byte n).toNat = n % 256 := by
  unfold byte; simp [UInt8.toNat_ofNat']

theorem fromBe_one (n : Nat) (h : n < 256) : fromBe [byte n] = n := by
  simp only [fromBe, List.foldl_cons, List.foldl_nil, byte_toNat]; omega

theorem fromBe_be16 (n : Nat) (h : n < 65536) : fromBe (be16 n) = n := by
  simp only [fromBe, be16, List.foldl_cons, List.foldl_nil, byte_toNat]; omega

theorem fromBe_be32 (n : Nat) (h : n < 4294967296) : fromBe (be32 n) = n := by
  simp only [fromBe, be32, List.foldl_cons, List.foldl_nil, byte_toNat]; omega

theorem fromBe_be64 (n : Nat) (h : n < 18446744073709551616) : fromBe (be64 n) = n := by
  simp only [fromBe, be64, be32, List.cons_append, List.nil_append, List.foldl_cons, List.foldl_nil, byte_toNat]; omega

theorem takeN_append (xs rest : Bytes) : takeN xs.length (xs ++ rest) = some (xs, rest) := by
  unfold takeN
  simp [List.take_left', List.drop_left']

theorem expect_append (k rest : Bytes) : expect k (k ++ rest) = some ((), rest) := by
  unfold expect
  simp [List.take_left', List.drop_left']

theorem be16_length (n : Nat) : (be16 n).length = 2 := rfl
theorem be32_length (n : Nat) : (be32 n).length = 4 := rfl
theorem be64_length (n : Nat) : (be64 n).length = 8 := rfl

theorem pU64_enc (n : Nat) (h : n < 18446744073709551616) (rest : Bytes) :
    pU64 (encU64 n ++ rest) = some (n, rest) := by
  unfold pU64 encU64
  simp only [List.cons_append]
  have := takeN_append (be64 n) rest
  rw [be64_length] at this
  rw [this]
  simp [fromBe_be64 n h]

theorem pLen_hdr8 (h8 h16 h32 : UInt8) (n : Nat) (hn : n < 256) (rest : Bytes) :
    pLen h8 h16 h32 (h8 :: byte n :: rest) = some (n, rest) := by
  unfold pLen
  simp only [beq_self_eq_true, if_true]
  have := takeN_append [byte n] rest
  simp only [List.length_cons, List.length_nil, List.cons_append, List.nil_append] at this
  rw [this]
  simp [fromBe_one n hn]

theorem pLen_hdr16 (h8 h16 h32 : UInt8) (hne : h16 ≠ h8) (n : Nat) (hn : n < 65536) (rest : Bytes) :
    pLen h8 h16 h32 (h16 :: (be16 n ++ rest)) = some (n, rest) := by
  unfold pLen
  have h1 : (h16 == h8) = false := by simpa using hne
  simp only [h1, Bool.false_eq_true, if_false, beq_self_eq_true, if_true]
  have := takeN_append (be16 n) rest
  rw [be16_length] at this
  rw [this]
  simp [fromBe_be16 n hn]

theorem pLen_hdr32 (h8 h16 h32 : UInt8) (hne1 : h32 ≠ h8) (hne2 : h32 ≠ h16) (n : Nat) (hn : n < 4294967296) (rest : Bytes) :
    pLen h8 h16 h32 (h32 :: (be32 n ++ rest)) = some (n, rest) := by
  unfold pLen
  have h1 : (h32 == h8) = false := by simpa using hne1
  have h2 : (h32 == h16) = false := by simpa using hne2
  simp only [h1, h2, Bool.false_eq_true, if_false, beq_self_eq_true, if_true]
  have := takeN_append (be32 n) rest
  rw [be32_length] at this
  rw [this]
  simp [fromBe_be32 n hn]

theorem pStr_enc (s : Bytes) (h : s.length < 4294967296) (rest : Bytes) :
    pStr (encStr s ++ rest) = some (s, rest) := by
  unfold encStr strHdr
  by_cases h1 : s.length < 32
  · simp only [h1, if_true, List.cons_append, List.nil_append]
    unfold pStr
    have hb : (byte (160 + s.length)).toNat = 160 + s.length := by rw [byte_toNat]; omega
    simp only [hb]
    have c1 : (decide (160 ≤ 160 + s.length) && decide (160 + s.length < 192)) = true := by
      simp only [Bool.and_eq_true, decide_eq_true_eq]; omega
    simp only [c1, if_true]
    have : 160 + s.length - 160 = s.length := by omega
    rw [this]; exact takeN_append s rest
  · simp only [h1, if_false]
    by_cases h2 : s.length < 256
    · simp only [h2, if_true, List.cons_append, List.nil_append]
      unfold pStr
      have c1 : (decide (160 ≤ (0xd9 : UInt8).toNat) && decide ((0xd9 : UInt8).toNat < 192)) = false := by decide
      simp only [c1, Bool.false_eq_true, if_false]
      rw [pLen_hdr8 0xd9 0xda 0xdb s.length h2]
      exact takeN_append s rest
    · simp only [h2, if_false]
      by_cases h3 : s.length < 65536
      · simp only [h3, if_true, List.cons_append]
        unfold pStr
        have c1 : (decide (160 ≤ (0xda : UInt8).toNat) && decide ((0xda : UInt8).toNat < 192)) = false := by decide
        simp only [c1, Bool.false_eq_true, if_false]
        rw [List.append_assoc, pLen_hdr16 0xd9 0xda 0xdb (by decide) s.length h3]
        exact takeN_append s rest
      · simp only [h3, if_false, List.cons_append]
        unfold pStr
        have c1 : (decide (160 ≤ (0xdb : UInt8).toNat) && decide ((0xdb : UInt8).toNat < 192)) = false := by decide
        simp only [c1, Bool.false_eq_true, if_false]
        rw [List.append_assoc, pLen_hdr32 0xd9 0xda 0xdb (by decide) (by decide) s.length h]
        exact takeN_append s rest

theorem pBin_enc (b : Option Bytes) (h : ∀ x, b = some x → x.length < 4294967296) (rest : Bytes) :
    pBin (encBin b ++ rest) = some (b, rest) := by
  cases b with
  | none => simp [encBin, pBin]
  | some x =>
    have hx := h x rfl
    unfold encBin binHdr
    by_cases h2 : x.length < 256
    · simp only [h2, if_true, List.cons_append, List.nil_append]
      unfold pBin
      simp only
      rw [pLen_hdr8 0xc4 0xc5 0xc6 x.length h2]
      simp only
      rw [takeN_append]; rfl
    · simp only [h2, if_false]
      by_cases h3 : x.length < 65536
      · simp only [h3, if_true, List.cons_append]
        unfold pBin
        simp only
        rw [List.append_assoc, pLen_hdr16 0xc4 0xc5 0xc6 (by decide) x.length h3]
        simp only
        rw [takeN_append]; rfl
      · simp only [h3, if_false, List.cons_append]
        unfold pBin
        simp only
        rw [List.append_assoc, pLen_hdr32 0xc4 0xc5 0xc6 (by decide) (by decide) x.length hx]
        simp only
        rw [takeN_append]; rfl

theorem pTime_enc (sec nsec : Nat) (hs : sec < 18446744073709551616) (hn : nsec < 1000000000) (rest : Bytes) :
    pTime (encTime sec nsec ++ rest) = some ((sec, nsec), rest) := by
  unfold encTime
  by_cases h1 : sec / 17179869184 = 0
  · simp only [h1, if_true]
    by_cases h2 : (nsec * 17179869184 + sec) / 4294967296 = 0
    · simp only [h2, if_true, List.cons_append, List.nil_append]
      unfold pTime
      simp only
      have := takeN_append (be32 (nsec * 17179869184 + sec)) rest
      rw [be32_length] at this
      rw [this]
      have hlt : nsec * 17179869184 + sec < 4294967296 := by omega
      have hz : nsec = 0 := by omega
      simp only [Option.map_some, fromBe_be32 _ hlt]
      subst hz; simp
    · simp only [h2, if_false, List.cons_append, List.nil_append]
      unfold pTime
      simp only
      have := takeN_append (be64 (nsec * 17179869184 + sec)) rest
      rw [be64_length] at this
      rw [this]
      have hlt : nsec * 17179869184 + sec < 18446744073709551616 := by omega
      simp only [Option.map_some, fromBe_be64 _ hlt]
      have e1 : (nsec * 17179869184 + sec) % 17179869184 = sec := by omega
      have e2 : (nsec * 17179869184 + sec) / 17179869184 = nsec := by omega
      rw [e1, e2]
  · simp only [h1, if_false, List.cons_append, List.nil_append]
    unfold pTime
    simp only
    rw [List.append_assoc]
    have t1 := takeN_append (be32 nsec) (be64 sec ++ rest)
    rw [be32_length] at t1
    rw [t1]
    simp only
    have t2 := takeN_append (be64 sec) rest
    rw [be64_length] at t2
    rw [t2]
    simp [fromBe_be32 nsec (by omega), fromBe_be64 sec hs]

end CModel.Msgpack

namespace CModel.Msgpack

/-- Well-formedness of the values the Go types can hold. -/
def MelangeW.WF (m : MelangeW) : Prop := m.cur < 18446744073709551616 ∧ m.supp < 18446744073709551616

def optLen (b : Option Bytes) : Prop := ∀ x, b = some x → x.length < 4294967296

def TrxW.WF (t : TrxW) : Prop :=
  t.sec < 18446744073709551616 ∧ t.nsec < 1000000000 ∧ t.issuer.length < 4294967296 ∧ t.receiver.length < 4294967296 ∧
  t.subject.length < 4294967296 ∧ optLen t.data ∧ optLen t.isig ∧ optLen t.rsig ∧ t.hash.length < 4294967296 ∧ t.spice.WF

def VertexW.WF (v : VertexW) : Prop :=
  v.signer.length < 4294967296 ∧ v.sec < 18446744073709551616 ∧ v.nsec < 1000000000 ∧ optLen v.sig ∧ v.trx.WF ∧
  v.hash.length < 4294967296 ∧ v.left.length < 4294967296 ∧ v.right.length < 4294967296 ∧ v.weight < 18446744073709551616

theorem pMelange_enc (m : MelangeW) (h : m.WF) (rest : Bytes) : pMelange (encMelange m ++ rest) = some (m, rest) := by
  unfold pMelange encMelange
  simp only [List.append_assoc, expect_append, pU64_enc _ h.1, pU64_enc _ h.2, bind, Option.bind]

theorem optLen_some (b : Bytes) (h : b.length < 4294967296) : optLen (some b) := by
  intro x hx; cases hx; exact h

theorem pTrx_enc (t : TrxW) (h : t.WF) (rest : Bytes) : pTrx (encTrx t ++ rest) = some (t, rest) := by
  obtain ⟨h1, h2, h3, h4, h5, h6, h7, h8, h9, h10⟩ := h
  unfold pTrx encTrx
  simp only [List.append_assoc, expect_append, pTime_enc _ _ h1 h2, pStr_enc _ h3, pStr_enc _ h4, pStr_enc _ h5,
    pBin_enc _ h6, pBin_enc _ h7, pBin_enc _ h8, pBin_enc _ (optLen_some _ h9), pMelange_enc _ h10, bind, Option.bind,
    Option.getD_some]

theorem pVertex_enc (v : VertexW) (h : v.WF) (rest : Bytes) : pVertex (encVertex v ++ rest) = some (v, rest) := by
  obtain ⟨h1, h2, h3, h4, h5, h6, h7, h8, h9⟩ := h
  unfold pVertex encVertex
  simp only [List.append_assoc, expect_append, pTime_enc _ _ h2 h3, pStr_enc _ h1, pBin_enc _ h4, pTrx_enc _ h5,
    pBin_enc _ (optLen_some _ h6), pBin_enc _ (optLen_some _ h7), pBin_enc _ (optLen_some _ h8), pU64_enc _ h9,
    bind, Option.bind, Option.getD_some]

end CModel.Msgpack
