import CModel.LockExit
namespace CModel.LockExit
open CModel.Generated

theorem foldl_held_nil (calls : List LockExit) (h : ∀ e ∈ calls, heldAfter e.events = []) (acc : List String) :
    calls.foldl (fun h e => h ++ heldAfter e.events) acc = acc := by
  induction calls generalizing acc with
  | nil => rfl
  | cons e es ih =>
    simp only [List.foldl_cons]
    rw [h e (List.mem_cons_self ..), List.append_nil]
    exact ih (fun x hx => h x (List.mem_cons_of_mem _ hx)) acc

/-- whatever sequence of calls a goroutine makes, and whichever exit each call takes: if every exit is
clean the goroutine holds no lock between calls -/
theorem afterCalls_nil (calls : List LockExit) (h : ∀ e ∈ calls, heldAfter e.events = []) : afterCalls calls = [] :=
  foldl_held_nil calls h []

/-- a leaking exit anywhere in the sequence leaves its lock held at the end -/
theorem leak_persists (pre post : List LockExit) (e : LockExit) (l : String) (hl : l ∈ heldAfter e.events) :
    l ∈ afterCalls (pre ++ e :: post) := by
  unfold afterCalls
  rw [List.foldl_append, List.foldl_cons]
  have mono : ∀ (cs : List LockExit) (acc : List String), l ∈ acc → l ∈ cs.foldl (fun h e => h ++ heldAfter e.events) acc := by
    intro cs
    induction cs with
    | nil => intro acc h; exact h
    | cons c cs ih => intro acc h; exact ih _ (List.mem_append_left _ h)
  exact mono post _ (List.mem_append_right _ hl)

end CModel.LockExit
