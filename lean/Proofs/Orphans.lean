import Proofs.Reachable
/-! # C13: the orphan buffer neither loses nor invents vertices

Deliveries (`AddLeaf`) of any vertices in any order, with any duplicates, interleaved with retry ticks of
the orphan buffer. Every call reports its outcome; as long as the only outcomes are "admitted", "parked
because a parent is missing" and "already known", every delivered vertex is in the ledger or in the
buffer, nothing that was in the ledger leaves it, and nothing else enters it. Hence a quiescent node
(empty buffer) holds exactly what it started with plus everything delivered - whatever the order. -/
namespace CModel.Book
open CModel

/-- verts / edges / index / storage / buffer unchanged -/
def SameCore (b b' : Book) : Prop :=
  b'.verts = b.verts ∧ b'.cpVerts = b.cpVerts ∧ b'.parked = b.parked

theorem SameCore.rfl' (b : Book) : SameCore b b := ⟨rfl, rfl, rfl⟩
theorem SameCore.trans {a b c : Book} (h1 : SameCore a b) (h2 : SameCore b c) : SameCore a c :=
  ⟨h2.1.trans h1.1, h2.2.1.trans h1.2.1, h2.2.2.trans h1.2.2⟩
theorem sameCore_updateWT (b : Book) (w : UInt64) : SameCore b (b.updateWT w) :=
  ⟨updateWT_verts b w, updateWT_cpVerts b w, updateWT_parked b w⟩

/-- outcomes of the parent loop: all parents found (and, where they were tips, validated): nothing but
the weight window changed; a parent missing and the vertex parked; anything else is reported with a
`leafRejected` error -/
theorem checkParents_cases (b : Book) (leaf : Vertex) (rep : Nat) (hs : List Hash) (acc : List Vertex) :
    (∃ vs, (checkParents b leaf rep hs acc).2 = .ok vs ∧ SameCore b (checkParents b leaf rep hs acc).1) ∨
    ((checkParents b leaf rep hs acc).2 = .error [.noParent] ∧
      (checkParents b leaf rep hs acc).1.verts = b.verts ∧ (checkParents b leaf rep hs acc).1.cpVerts = b.cpVerts ∧
      (checkParents b leaf rep hs acc).1.parked = b.parked ++ [(leaf, rep + 1)]) ∨
    (∃ e, (checkParents b leaf rep hs acc).2 = .error (.leafRejected :: e)) := by
  induction hs generalizing b acc with
  | nil => exact Or.inl ⟨acc, rfl, SameCore.rfl' b⟩
  | cons h hs ih =>
    unfold checkParents
    split
    · split
      · exact Or.inr (Or.inr ⟨[], rfl⟩)
      · rename_i b' hp
        rw [park_some hp]
        exact Or.inr (Or.inl ⟨rfl, rfl, rfl, rfl⟩)
    · rename_i existing hex
      split
      · split
        · rename_i e _
          exact Or.inr (Or.inr ⟨e, rfl⟩)
        · have s := sameCore_updateWT b existing.weight
          rcases ih (b.updateWT existing.weight) (acc ++ [existing]) with ⟨vs, h1, h2⟩ | ⟨h1, h2, h3, h4⟩ | ⟨e, h1⟩
          · exact Or.inl ⟨vs, h1, s.trans h2⟩
          · exact Or.inr (Or.inl ⟨h1, h2.trans s.1, h3.trans s.2.1, by rw [h4, s.2.2]⟩)
          · exact Or.inr (Or.inr ⟨e, h1⟩)
      · exact ih b (acc ++ [existing])

/-- outcome of the common insertion tail when it succeeds -/
theorem insertLinked_ok {b b' : Book} {v : Vertex} {ps : List Hash} (h : insertLinked b v ps = (b', none)) :
    b'.verts = b.verts ++ [v] ∧ b'.cpVerts = b.cpVerts ∧ b'.parked = b.parked := by
  unfold insertLinked at h
  split at h
  · cases h
  · rename_i b2 h2
    obtain ⟨_, e2⟩ := indexSave_some h2
    split at h
    · cases h
    · rename_i b3 h3
      obtain ⟨_, e3⟩ := addVertex_some h3
      split at h
      · cases h
      · rename_i b4 h4
        obtain ⟨es, e4, _⟩ := linkNew_some h4
        simp only [Prod.mk.injEq, and_true] at h
        subst h
        rw [e4, e3, e2]
        exact ⟨rfl, rfl, rfl⟩

/-- what an outcome tells -/
inductive Outcome (b : Book) (v : Vertex) (rep : Nat) (b' : Book) : Except Err Unit → Prop
  | admitted : b'.verts = b.verts ++ [v] → b'.cpVerts = b.cpVerts → b'.parked = b.parked → Outcome b v rep b' (.ok ())
  | parked : b'.verts = b.verts → b'.cpVerts = b.cpVerts → b'.parked = b.parked ++ [(v, rep + 1)] → Outcome b v rep b' (.error [.noParent])
  | known : b' = b → (b.hasVertex v.hash = true ∨ b.cpHasVertex v.hash = true) → Outcome b v rep b' (.error [.leafExists])

def Benign : Except Err Unit → Prop
  | .ok () => True
  | .error e => e = [.noParent] ∨ e = [.leafExists]

theorem addLeafLocked_outcome (b : Book) (v : Vertex) (rep : Nat) (hb : Benign (b.addLeafLocked v rep).2) :
    (b.addLeafLocked v rep).2 ≠ .error [.leafExists] ∧
    (Outcome b v rep (b.addLeafLocked v rep).1 (b.addLeafLocked v rep).2) := by
  unfold addLeafLocked at hb ⊢
  rcases checkParents_cases b v rep [v.left, v.right] [] with ⟨vs, h1, h2⟩ | ⟨h1, h2, h3, h4⟩ | ⟨e, h1⟩
  · generalize hcp : checkParents b v rep [v.left, v.right] [] = cp at h1 h2 hb ⊢
    obtain ⟨b1, r1⟩ := cp
    simp only at h1
    subst h1
    simp only at hb ⊢ h2
    generalize hil : insertLinked b1 v (vs.map (·.hash)) = il at hb ⊢
    obtain ⟨b', st⟩ := il
    cases st with
    | none =>
      obtain ⟨e1, e2, e3⟩ := insertLinked_ok hil
      exact ⟨by simp, .admitted (by rw [e1, h2.1]) (by rw [e2, h2.2.1]) (by rw [e3, h2.2.2])⟩
    | some n =>
      exfalso
      split at hb
      · rename_i heq; cases heq
      · simp [Benign] at hb
      · simp [Benign] at hb
  · generalize hcp : checkParents b v rep [v.left, v.right] [] = cp at h1 h2 h3 h4 hb ⊢
    obtain ⟨b1, r1⟩ := cp
    simp only at h1
    subst h1
    exact ⟨by simp, .parked h2 h3 h4⟩
  · exfalso
    generalize hcp : checkParents b v rep [v.left, v.right] [] = cp at h1 hb
    obtain ⟨b1, r1⟩ := cp
    simp only at h1
    subst h1
    simp [Benign] at hb

theorem addLeafMemorized_outcome (b : Book) (v : Vertex) (rep : Nat) (hb : Benign (b.addLeafMemorized v rep).2) :
    Outcome b v rep (b.addLeafMemorized v rep).1 (b.addLeafMemorized v rep).2 := by
  unfold addLeafMemorized at hb ⊢
  split
  · rename_i h; rw [if_pos h] at hb; simp [Benign] at hb
  · rename_i h1
    rw [if_neg h1] at hb
    split
    · rename_i h2
      refine .known rfl ?_
      simpa [checkVertexExists] using h2
    · rename_i h2
      rw [if_neg h2] at hb
      split
      · rename_i h; rw [if_pos h] at hb; simp [Benign] at hb
      · rename_i h3
        rw [if_neg h3] at hb
        split
        · rename_i h; rw [if_pos h] at hb; simp [Benign] at hb
        · rename_i h4
          rw [if_neg h4] at hb
          exact (addLeafLocked_outcome b v rep hb).2

theorem addLeaf_outcome (b : Book) (v : Vertex) (hb : Benign (b.addLeaf v).2) :
    Outcome b v 0 (b.addLeaf v).1 (b.addLeaf v).2 := by
  unfold addLeaf at hb ⊢
  split
  · rename_i h; rw [if_pos h] at hb; simp [Benign] at hb
  · rename_i h1
    rw [if_neg h1] at hb
    split
    · rename_i h; rw [if_pos h] at hb; simp [Benign] at hb
    · rename_i h2
      rw [if_neg h2] at hb
      split
      · rename_i h; rw [if_pos h] at hb; simp [Benign] at hb
      · rename_i h3
        rw [if_neg h3] at hb
        split
        · rename_i h; rw [if_pos h] at hb; simp [Benign] at hb
        · rename_i h4
          rw [if_neg h4] at hb
          exact addLeafMemorized_outcome b v 0 hb

/-! ### runs of deliveries and retry ticks -/

inductive DOp
  | deliver (v : Vertex)     -- AddLeaf (gossip hand-over); any vertex, any number of times
  | tick                     -- one tick of the orphan buffer's retry loop

/-- one call; the outcome reported to the caller / logged by the retry loop (`none`: the buffer was empty) -/
def dstep (b : Book) : DOp → Book × Option (Except Err Unit)
  | .deliver v => ((b.addLeaf v).1, some (b.addLeaf v).2)
  | .tick =>
    match b.retryParked with
    | (b', none) => (b', none)
    | (b', some (_, r)) => (b', some r)

def drun (b : Book) : List DOp → Book
  | [] => b
  | op :: ops => drun (dstep b op).1 ops

/-- every call of the run reported "admitted", "parked: parent missing" or "already known" -/
def AllBenign (b : Book) : List DOp → Prop
  | [] => True
  | op :: ops => (∀ r, (dstep b op).2 = some r → Benign r) ∧ AllBenign (dstep b op).1 ops

/-- invariant of a benign run that started in `b0` with an empty buffer, after the calls `past` -/
structure OrphanInv (b0 : Book) (past : List DOp) (b : Book) : Prop where
  kept : ∀ u ∈ b0.verts, u ∈ b.verts
  onlyDelivered : ∀ u ∈ b.verts, u ∈ b0.verts ∨ DOp.deliver u ∈ past
  parkedDelivered : ∀ p ∈ b.parked, DOp.deliver p.1 ∈ past
  accounted : ∀ v, DOp.deliver v ∈ past → b.hasVertex v.hash = true ∨ b.cpHasVertex v.hash = true ∨ v ∈ b.parked.map (·.1)
  storage : b.cpVerts = b0.cpVerts

theorem hasVertex_append (b b' : Book) (v : Vertex) (h : b'.verts = b.verts ++ [v]) (x : Hash) :
    b'.hasVertex x = (b.hasVertex x || (v.hash == x)) := by
  unfold hasVertex; rw [h]; simp

theorem orphanInv_step {b0 b : Book} {past : List DOp} (h : OrphanInv b0 past b) (op : DOp)
    (hb : ∀ r, (dstep b op).2 = some r → Benign r) : OrphanInv b0 (past ++ [op]) (dstep b op).1 := by
  cases op with
  | deliver v =>
    have ho := addLeaf_outcome b v (hb _ rfl)
    simp only [dstep]
    generalize (b.addLeaf v).1 = b' at ho ⊢
    generalize (b.addLeaf v).2 = r at ho
    cases ho with
    | admitted e1 e2 e3 =>
      refine ⟨fun u hu => by rw [e1]; exact List.mem_append_left _ (h.kept u hu), ?_, ?_, ?_, by rw [e2]; exact h.storage⟩
      · intro u hu
        rw [e1] at hu
        rcases List.mem_append.mp hu with hu | hu
        · exact (h.onlyDelivered u hu).imp id (fun x => List.mem_append_left _ x)
        · simp only [List.mem_singleton] at hu; subst hu; exact Or.inr (by simp)
      · intro p hp; rw [e3] at hp; exact List.mem_append_left _ (h.parkedDelivered p hp)
      · intro w hw
        rcases List.mem_append.mp hw with hw | hw
        · rcases h.accounted w hw with a | a | a
          · left; rw [hasVertex_append b b' v e1, a]; rfl
          · right; left; unfold cpHasVertex at a ⊢; rw [e2]; exact a
          · right; right; rw [e3]; exact a
        · simp only [List.mem_singleton, DOp.deliver.injEq] at hw; subst hw
          left; rw [hasVertex_append b b' w e1]; simp
    | parked e1 e2 e3 =>
      refine ⟨fun u hu => by rw [e1]; exact h.kept u hu, ?_, ?_, ?_, by rw [e2]; exact h.storage⟩
      · intro u hu; rw [e1] at hu; exact (h.onlyDelivered u hu).imp id (fun x => List.mem_append_left _ x)
      · intro p hp
        rw [e3] at hp
        rcases List.mem_append.mp hp with hp | hp
        · exact List.mem_append_left _ (h.parkedDelivered p hp)
        · simp only [List.mem_singleton] at hp; subst hp; simp
      · intro w hw
        rcases List.mem_append.mp hw with hw | hw
        · rcases h.accounted w hw with a | a | a
          · left; unfold hasVertex at a ⊢; rw [e1]; exact a
          · right; left; unfold cpHasVertex at a ⊢; rw [e2]; exact a
          · right; right; rw [e3]; simp only [List.map_append, List.mem_append]; exact Or.inl a
        · simp only [List.mem_singleton, DOp.deliver.injEq] at hw; subst hw
          right; right; rw [e3]; simp
    | known e1 e2 =>
      subst e1
      refine ⟨h.kept, fun u hu => (h.onlyDelivered u hu).imp id (fun x => List.mem_append_left _ x),
        fun p hp => List.mem_append_left _ (h.parkedDelivered p hp), ?_, h.storage⟩
      intro w hw
      rcases List.mem_append.mp hw with hw | hw
      · exact h.accounted w hw
      · simp only [List.mem_singleton, DOp.deliver.injEq] at hw; subst hw
        rcases e2 with a | a
        · exact Or.inl a
        · exact Or.inr (Or.inl a)
  | tick =>
    simp only [dstep] at hb ⊢
    unfold retryParked at hb ⊢
    cases hq : b.parked with
    | nil =>
      simp only
      exact ⟨h.kept, fun u hu => (h.onlyDelivered u hu).imp id (fun x => List.mem_append_left _ x),
        fun p hp => List.mem_append_left _ (h.parkedDelivered p hp),
        fun w hw => by
          rcases List.mem_append.mp hw with hw | hw
          · exact h.accounted w hw
          · simp at hw, h.storage⟩
    | cons hd rest =>
      obtain ⟨v, rep⟩ := hd
      simp only [hq] at hb
      simp only
      have hdel : DOp.deliver v ∈ past := h.parkedDelivered (v, rep) (by rw [hq]; exact List.mem_cons_self)
      let b1 : Book := { b with parked := rest }
      have ho := addLeafMemorized_outcome b1 v rep (hb _ rfl)
      generalize (b1.addLeafMemorized v rep).1 = b' at ho ⊢
      generalize (b1.addLeafMemorized v rep).2 = r at ho
      have hv1 : b1.verts = b.verts := rfl
      have hc1 : b1.cpVerts = b.cpVerts := rfl
      have hp1 : b1.parked = rest := rfl
      -- what was accounted for in `b` is accounted for in `b1`, except that `v` left the buffer
      have acc1 : ∀ w, DOp.deliver w ∈ past → b.hasVertex w.hash = true ∨ b.cpHasVertex w.hash = true ∨ w ∈ rest.map (·.1) ∨ w = v := by
        intro w hw
        rcases h.accounted w hw with a | a | a
        · exact Or.inl a
        · exact Or.inr (Or.inl a)
        · rw [hq] at a
          simp only [List.map_cons, List.mem_cons] at a
          rcases a with a | a
          · exact Or.inr (Or.inr (Or.inr a))
          · exact Or.inr (Or.inr (Or.inl a))
      cases ho with
      | admitted e1 e2 e3 =>
        refine ⟨fun u hu => by rw [e1, hv1]; exact List.mem_append_left _ (h.kept u hu), ?_, ?_, ?_, by rw [e2, hc1]; exact h.storage⟩
        · intro u hu
          rw [e1, hv1] at hu
          rcases List.mem_append.mp hu with hu | hu
          · exact (h.onlyDelivered u hu).imp id (fun x => List.mem_append_left _ x)
          · simp only [List.mem_singleton] at hu; subst hu; exact Or.inr (List.mem_append_left _ hdel)
        · intro p hp
          rw [e3, hp1] at hp
          exact List.mem_append_left _ (h.parkedDelivered p (by rw [hq]; exact List.mem_cons_of_mem _ hp))
        · intro w hw
          have hw : DOp.deliver w ∈ past := by
            rcases List.mem_append.mp hw with hw | hw
            · exact hw
            · simp at hw
          rcases acc1 w hw with a | a | a | a
          · left; rw [hasVertex_append b1 b' v e1]; have : b1.hasVertex w.hash = true := a; rw [this]; rfl
          · right; left; unfold cpHasVertex at a ⊢; rw [e2, hc1]; exact a
          · right; right; rw [e3, hp1]; exact a
          · subst a; left; rw [hasVertex_append b1 b' w e1]; simp
      | parked e1 e2 e3 =>
        refine ⟨fun u hu => by rw [e1, hv1]; exact h.kept u hu, ?_, ?_, ?_, by rw [e2, hc1]; exact h.storage⟩
        · intro u hu; rw [e1, hv1] at hu; exact (h.onlyDelivered u hu).imp id (fun x => List.mem_append_left _ x)
        · intro p hp
          rw [e3, hp1] at hp
          rcases List.mem_append.mp hp with hp | hp
          · exact List.mem_append_left _ (h.parkedDelivered p (by rw [hq]; exact List.mem_cons_of_mem _ hp))
          · simp only [List.mem_singleton] at hp; subst hp; exact List.mem_append_left _ hdel
        · intro w hw
          have hw : DOp.deliver w ∈ past := by
            rcases List.mem_append.mp hw with hw | hw
            · exact hw
            · simp at hw
          rcases acc1 w hw with a | a | a | a
          · left; unfold hasVertex at a ⊢; rw [e1, hv1]; exact a
          · right; left; unfold cpHasVertex at a ⊢; rw [e2, hc1]; exact a
          · right; right; rw [e3, hp1]; simp only [List.map_append, List.mem_append]; exact Or.inl a
          · subst a; right; right; rw [e3]; simp
      | known e1 e2 =>
        subst e1
        refine ⟨h.kept, fun u hu => (h.onlyDelivered u hu).imp id (fun x => List.mem_append_left _ x), ?_, ?_, h.storage⟩
        · intro p hp
          exact List.mem_append_left _ (h.parkedDelivered p (by rw [hq]; exact List.mem_cons_of_mem _ hp))
        · intro w hw
          have hw : DOp.deliver w ∈ past := by
            rcases List.mem_append.mp hw with hw | hw
            · exact hw
            · simp at hw
          rcases acc1 w hw with a | a | a | a
          · exact Or.inl a
          · exact Or.inr (Or.inl a)
          · exact Or.inr (Or.inr a)
          · subst a
            rcases e2 with a | a
            · exact Or.inl a
            · exact Or.inr (Or.inl a)

theorem orphanInv_run {b0 b : Book} {past : List DOp} (ops : List DOp) (h : OrphanInv b0 past b) (hb : AllBenign b ops) :
    OrphanInv b0 (past ++ ops) (drun b ops) := by
  induction ops generalizing b past with
  | nil => simpa [drun] using h
  | cons op ops ih =>
    have := ih (orphanInv_step h op hb.1) hb.2
    simpa [drun, List.append_assoc] using this

theorem orphanInv_start (b0 : Book) (hq : b0.parked = []) : OrphanInv b0 [] b0 :=
  ⟨fun _ h => h, fun _ h => Or.inl h, (by rw [hq]; intro p hp; cases hp), (by intro v hv; cases hv), rfl⟩

end CModel.Book
