import Proofs.Truncate
/-! Reachable books (including truncation) and the lift of the invariants to every reachable state. -/
namespace CModel.Book
open CModel

/-- Every way a book can evolve through the public operations (one atomic step per call; the
interleaving models for the few unlocked regions are in C03/C17/C18). `createGenesis` and `loadDag`
happen on a fresh book, as `gossip.RunGRPC` does. Truncation may happen at any time with any cut. Hash freshness of locally sealed vertices is the
collision-freedom assumption on SHA-256. -/
inductive Reachable : Book → Prop
  | init (self : Addr) : Reachable { self := self }
  | genesis {b b' recv spc v v'} : Reachable b → b.verts = [] → b.cpVerts = [] → b.index = [] → b.parked = [] →
      b.cpFunds = [] →
      b.createGenesis recv spc v = (b', .ok v') → Reachable b'
  | createLeaf {b} (trx o1 o2 tip) : Reachable b → b.cpHasVertex tip.hash = false →
      Reachable (b.createLeaf trx o1 o2 tip).1
  | addLeaf {b} (v) : Reachable b → Reachable (b.addLeaf v).1
  | retry {b} : Reachable b → Reachable b.retryParked.1
  | trust {b} (a) : Reachable b → Reachable (b.addTrusted a)
  | untrust {b} (a) : Reachable b → Reachable (b.removeTrusted a)
  /-- truncation at any cut (the BFS position rule of the code only narrows the choice) -/
  | truncate {b} (cut : Hash) : Reachable b → Reachable (b.truncateAt cut).1
  /-- any run of internal transitions: in particular the locked bodies of `CreateLeaf` / `addLeafMemorized`
  executed on whatever the book has become by the time the lock is obtained, i.e. with stale pre-lock
  checks (`Proofs/StaleGuards.lean`) -/
  | steps {b b'} : Reachable b → Steps b b' → Reachable b'

/-- **Main lift**: every reachable book satisfies the index, sealing, verification and orphan-buffer
invariants. -/
theorem Reachable.inv {b : Book} (r : Reachable b) : LedgerInv b := by
  induction r with
  | init self => exact LedgerInv.init self
  | genesis _ hv hc hi hpk hcf h _ => exact LedgerInv.genesis hv hc hi hpk hcf h
  | createLeaf trx o1 o2 tip _ hf ih => exact ih.steps (steps_createLeaf _ trx o1 o2 tip hf)
  | addLeaf v _ ih => exact ih.steps (steps_addLeaf _ v)
  | retry _ ih => exact ih.steps (steps_retryParked _ ih.parkOk)
  | trust a _ ih => exact ih.tr (Tr.misc (coreEq_addTrusted _ a))
  | untrust a _ ih => exact ih.tr (Tr.misc (coreEq_removeTrusted _ a))
  | truncate cut _ ih => exact ih.truncate cut
  | steps _ s ih => exact ih.steps s


theorem Reachable.fundsOK {b : Book} (r : Reachable b) : FundsOK b where
  verts := fun v hv => (canonB_iff _).1 (r.inv.canon v (List.mem_append_left _ hv))
  cp := fun e he => (canonB_iff _).1 (r.inv.cpCanon e he)

/-- Intermediate books of a call keep the funds invariant. -/
theorem Reachable.fundsOK_steps {b bm : Book} (r : Reachable b) (s : Steps b bm) : FundsOK bm where
  verts := fun v hv => (canonB_iff _).1 ((r.inv.steps s).canon v (List.mem_append_left _ hv))
  cp := fun e he => (canonB_iff _).1 ((r.inv.steps s).cpCanon e he)

end CModel.Book
