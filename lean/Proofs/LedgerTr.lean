import Proofs.LedgerBasic
/-!
Abstract transition system refined by every ledger operation.  Each operation of `CModel.Book`
is shown to be a finite sequence of `Tr` steps (`Steps`); invariants are then proved once per
`Tr` constructor instead of once per operation.
-/
namespace CModel.Book
open CModel

/-- The guards evaluated by `AddLeaf` before it calls `addLeafMemorized` (they are *not*
re-evaluated when a parked vertex is retried; the `parked` clause of `CoreEq` records that they held
when the vertex was parked). -/
def AddGuards (b : Book) (v : Vertex) : Prop :=
  b.loaded = true ∧ v.trx.issuer ≠ v.signer ∧ v.trx.isEmpty = false ∧ v.trx.spice.canonB = true

/-- Fields no structural invariant talks about may change freely; the orphan buffer may only
shrink or take vertices that passed the `AddLeaf` guards. -/
def CoreEq (b b' : Book) : Prop :=
  b'.verts = b.verts ∧ b'.edges = b.edges ∧ b'.index = b.index ∧ b'.cpVerts = b.cpVerts ∧
  b'.cpFunds = b.cpFunds ∧ b'.genesis = b.genesis ∧ b'.self = b.self ∧ b'.loaded = b.loaded ∧
  ∀ p ∈ b'.parked, p ∈ b.parked ∨ AddGuards b p.1

/-- What the guards of CreateLeaf / AddLeaf / addLeafMemorized establish about an inserted vertex. -/
structure InsertOK (b : Book) (v : Vertex) : Prop where
  loaded : b.loaded = true
  notOwn : v.trx.issuer ≠ v.signer
  notGenesis : v.trx.issuer ≠ b.genesis
  notEmpty : v.trx.isEmpty = false
  canon : v.trx.spice.canonB = true
  vok : v.vok = true
  freshV : b.hasVertex v.hash = false
  freshCp : b.cpHasVertex v.hash = false
  freshT : b.indexHas v.trx.hash = false

inductive Tr : Book → Book → Prop
  /-- weight / throughput / parked / trusted bookkeeping -/
  | misc {b b'} : CoreEq b b' → Tr b b'
  /-- a tip that failed validation is dropped together with its index entry -/
  | drop {b} (v : Vertex) : v ∈ b.verts → b.isLeaf v.hash = true →
      Tr b ((b.deleteVertex v.hash).indexRemove v.trx.hash)
  /-- a new vertex is inserted with edges from (some of) its declared, live parents -/
  | insert {b} (v : Vertex) (es : List (Hash × Hash)) : InsertOK b v →
      (∀ e ∈ es, e.2 = v.hash ∧ (e.1 = v.left ∨ e.1 = v.right) ∧ b.hasVertex e.1 = true ∧ e.1 ≠ v.hash) →
      -- unless the left parent is the zero hash (Go's `addedHash` sentinel) both declared parents are live and linked
      (v.left ≠ 0 → (v.left, v.hash) ∈ es ∧ (v.right, v.hash) ∈ es ∧ b.hasVertex v.left = true ∧ b.hasVertex v.right = true) →
      -- a vertex whose left parent is the zero hash gets no edges at all
      (v.left = 0 → es = []) →
      Tr b { b with index := b.index ++ [(v.trx.hash, v.hash)], verts := b.verts ++ [v], edges := b.edges ++ es }
  /-- roll-back after a failed AddEdge: the fresh vertex, its index entry and its edges disappear again -/
  | unlink {b} (h : Hash) : b.hasVertex h = false → Tr b { b with edges := b.edges.filter (fun e => e.1 != h && e.2 != h) }

inductive Steps : Book → Book → Prop
  | refl (b) : Steps b b
  | tail {a b c} : Steps a b → Tr b c → Steps a c

theorem Steps.trans {a b c : Book} (h1 : Steps a b) (h2 : Steps b c) : Steps a c := by
  induction h2 with
  | refl => exact h1
  | tail _ t ih => exact Steps.tail ih t

theorem Steps.single {a b : Book} (t : Tr a b) : Steps a b := Steps.tail (Steps.refl a) t

theorem CoreEq.rfl' (b : Book) : CoreEq b b := ⟨rfl, rfl, rfl, rfl, rfl, rfl, rfl, rfl, fun _ h => Or.inl h⟩

theorem coreEq_updateWT (b : Book) (w : UInt64) : CoreEq b (b.updateWT w) := by
  unfold CoreEq; simp only [updateWT_verts, updateWT_edges, updateWT_index, updateWT_cpVerts, updateWT_cpFunds,
    updateWT_genesis, updateWT_self, updateWT_loaded, updateWT_parked, true_and]
  exact fun _ h => Or.inl h

/-! ### dropping a tip -/

theorem steps_dropTip (b : Book) (v : Vertex) (hv : v ∈ b.verts) (hl : b.isLeaf v.hash = true) (w : UInt64) :
    Steps b (((b.deleteVertex v.hash).indexRemove v.trx.hash).updateWT w) :=
  Steps.tail (Steps.single (Tr.drop v hv hl)) (Tr.misc (coreEq_updateWT _ w))

/-! ### getValidLeaves -/

theorem steps_visitTip (st : GVL) (v : Vertex) (hv : v ∈ st.book.verts) (hl : st.book.isLeaf v.hash = true) :
    Steps st.book (visitTip st v).book := by
  unfold visitTip
  split
  · exact steps_dropTip _ v hv hl _
  · split <;> exact Steps.refl _

theorem steps_gvlStep (st : GVL) (h : Hash) : Steps st.book (gvlStep st h).book := by
  unfold gvlStep
  split
  · exact Steps.refl _
  · split
    · exact Steps.refl _
    · rename_i v hv
      split
      · rename_i hl
        obtain ⟨hm, hh⟩ := getVertex_mem hv
        exact steps_visitTip st v hm (by rw [hh]; exact hl)
      · exact Steps.refl _

theorem steps_foldGvl (order : List Hash) (st : GVL) : Steps st.book (order.foldl gvlStep st).book := by
  induction order generalizing st with
  | nil => exact Steps.refl _
  | cons x xs ih => simp only [List.foldl_cons]; exact (steps_gvlStep st x).trans (ih _)

theorem steps_getValidLeaves (b : Book) (order : List Hash) : Steps b (b.getValidLeaves order).book :=
  steps_foldGvl order { book := b }

end CModel.Book

namespace CModel.Book
open CModel

theorem filter_index_fresh (l : List (Hash × Hash)) (t v : Hash) (h : l.any (·.1 == t) = false) :
    (l ++ [(t, v)]).filter (·.1 != t) = l := by
  rw [List.filter_append]
  have h1 : l.filter (·.1 != t) = l := by
    apply List.filter_eq_self.2
    intro a ha
    have := List.any_eq_false.1 h a ha
    simpa [bne] using this
  simp [h1]

theorem filter_verts_fresh (l : List Vertex) (v : Vertex) (h : l.any (·.hash == v.hash) = false) :
    (l ++ [v]).filter (·.hash != v.hash) = l := by
  rw [List.filter_append]
  have h1 : l.filter (·.hash != v.hash) = l := by
    apply List.filter_eq_self.2
    intro a ha
    have := List.any_eq_false.1 h a ha
    simpa [bne] using this
  simp [h1]

/-- Guards that the callers of `insertLinked` have established (freshness in DAG and index is
re-checked inside). -/
structure PreInsert (b : Book) (v : Vertex) : Prop where
  loaded : b.loaded = true
  notOwn : v.trx.issuer ≠ v.signer
  notGenesis : v.trx.issuer ≠ b.genesis
  notEmpty : v.trx.isEmpty = false
  canon : v.trx.spice.canonB = true
  vok : v.vok = true
  freshCp : b.cpHasVertex v.hash = false

theorem steps_insertLinked (b : Book) (v : Vertex) (pre : PreInsert b v) :
    Steps b (insertLinked b v [v.left, v.right]).1 := by
  have hps : ∀ p ∈ [v.left, v.right], p = v.left ∨ p = v.right := by
    intro p hp; simpa using hp
  unfold insertLinked
  split
  · exact Steps.refl _
  · rename_i b2 h2
    obtain ⟨hfreshT, rfl⟩ := indexSave_some h2
    split
    · -- AddVertexByID failed: the index entry is removed again
      have : ({ b with index := b.index ++ [(v.trx.hash, v.hash)] } : Book).indexRemove v.trx.hash = b := by
        unfold indexRemove
        simp only
        rw [filter_index_fresh _ _ _ (by simpa [indexHas] using hfreshT)]
      rw [this]; exact Steps.refl _
    · rename_i b3 h3
      obtain ⟨hfreshV, rfl⟩ := addVertex_some h3
      have hfreshV' : b.verts.any (·.hash == v.hash) = false := by simpa [hasVertex] using hfreshV
      split
      · -- AddEdge failed: vertex, index entry and edges are removed again
        have : ((({ b with index := b.index ++ [(v.trx.hash, v.hash)], verts := b.verts ++ [v] } : Book).deleteVertex v.hash).indexRemove v.trx.hash)
            = { b with edges := b.edges.filter (fun e => e.1 != v.hash && e.2 != v.hash) } := by
          unfold indexRemove deleteVertex
          simp only
          rw [filter_index_fresh _ _ _ (by simpa [indexHas] using hfreshT), filter_verts_fresh _ _ hfreshV']
        rw [this]
        exact Steps.single (Tr.unlink v.hash (by simpa [hasVertex] using hfreshV'))
      · rename_i b4 h4
        obtain ⟨es, rfl, hes⟩ := linkNew_some h4
        have ok : InsertOK b v := ⟨pre.loaded, pre.notOwn, pre.notGenesis, pre.notEmpty, pre.canon, pre.vok,
          by simpa [hasVertex] using hfreshV', pre.freshCp, hfreshT⟩
        have hlive : ∀ p : Hash, p ≠ v.hash →
            ({ b with index := b.index ++ [(v.trx.hash, v.hash)], verts := b.verts ++ [v] } : Book).hasVertex p = true →
            b.hasVertex p = true := by
          intro p hne h3
          simp only [hasVertex, List.any_append, List.any_cons, List.any_nil, Bool.or_false, Bool.or_eq_true] at h3
          rcases h3 with h3 | h3
          · simpa [hasVertex] using h3
          · exact absurd (by simpa using h3) (Ne.symm hne)
        have := Tr.insert (b := b) v es ok (by
          intro e he
          obtain ⟨h1, h2, h3, h4⟩ := hes e he
          exact ⟨h1, hps _ h2, hlive _ h4 h3, h4⟩) (by
          intro hl
          obtain ⟨es', e', m1, m2, l1, l2⟩ := linkNew_pair h4 hl
          have ees : es' = es := by
            have := congrArg Book.edges e'
            simp only at this
            exact (List.append_cancel_left this).symm
          subst ees
          have n1 := (hes _ m1).2.2.2
          have n2 := (hes _ m2).2.2.2
          exact ⟨m1, m2, hlive _ n1 l1, hlive _ n2 l2⟩) (by
          intro hl0
          have hb4 := h4
          simp only [linkNew, hl0, beq_self_eq_true, ↓reduceIte, Option.some.injEq] at hb4
          have := congrArg Book.edges hb4
          simp only at this
          have h5 : b.edges ++ [] = b.edges ++ es := by rw [List.append_nil]; exact this
          exact (List.append_cancel_left h5).symm)
        exact Steps.single this

/-! ### frame: what no transition changes -/

theorem Tr.frame {b b' : Book} (t : Tr b b') :
    b'.loaded = b.loaded ∧ b'.genesis = b.genesis ∧ b'.self = b.self ∧ b'.cpVerts = b.cpVerts ∧ b'.cpFunds = b.cpFunds := by
  cases t with
  | misc h => exact ⟨h.2.2.2.2.2.2.2.1, h.2.2.2.2.2.1, h.2.2.2.2.2.2.1, h.2.2.2.1, h.2.2.2.2.1⟩
  | drop v hv => simp
  | insert v es ok hes hcomp hzero => simp
  | unlink h hh => simp

theorem Steps.frame {b b' : Book} (s : Steps b b') :
    b'.loaded = b.loaded ∧ b'.genesis = b.genesis ∧ b'.self = b.self ∧ b'.cpVerts = b.cpVerts ∧ b'.cpFunds = b.cpFunds := by
  induction s with
  | refl => exact ⟨rfl, rfl, rfl, rfl, rfl⟩
  | tail _ t ih =>
    obtain ⟨h1, h2, h3, h4, h5⟩ := t.frame
    obtain ⟨i1, i2, i3, i4, i5⟩ := ih
    exact ⟨h1.trans i1, h2.trans i2, h3.trans i3, h4.trans i4, h5.trans i5⟩

/-! ### CreateLeaf -/

/-- what the locked body of `CreateLeaf` needs of the book it runs on -/
structure CreateGuards (b : Book) (trx : Trx) : Prop where
  loaded : b.loaded = true
  notEmpty : trx.isEmpty = false
  canon : trx.spice.canonB = true
  notOwn : trx.issuer ≠ b.self
  notGenesis : trx.issuer ≠ b.genesis

/-- The locked body of `CreateLeaf` refines the transition system on whatever book it finds when it gets
the lock, provided the hash of the freshly sealed vertex does not collide with a checkpointed vertex (the
new hash covers a fresh time stamp; collision freedom of SHA-256 is the cryptographic assumption). The
unlocked "transaction already sealed" look-up is not needed: `insertLinked` repeats it atomically. -/
theorem steps_createLeafLocked (b : Book) (trx : Trx) (o1 o2 : List Hash) (tip : Vertex) (g : CreateGuards b trx)
    (hfresh : b.cpHasVertex tip.hash = false) : Steps b (b.createLeafLocked trx o1 o2 tip).1 := by
  unfold createLeafLocked
  have s1 := steps_getValidLeaves b o1
  have s2 := steps_getValidLeaves (b.getValidLeaves o1).book o2
  simp only
  split
  · -- error results: the book is the one after the first / second pass
    rename_i b1 e heq
    split at heq
    · cases heq; exact s1
    · split at heq
      · cases heq
      · split at heq
        · cases heq; exact s1.trans s2
        · split at heq <;> (cases heq; exact s1.trans s2)
  · rename_i b1 l r heq
    have hb1 : Steps b b1 := by
      split at heq
      · cases heq
      · split at heq
        · cases heq; exact s1
        · split at heq
          · cases heq
          · split at heq <;> cases heq
    split
    · exact hb1
    · rename_i hchk
      simp only [Bool.or_eq_true, bne_iff_ne, ne_eq, Bool.not_eq_true', not_or, Decidable.not_not,
        Bool.not_eq_false] at hchk
      obtain ⟨heqv, hvok⟩ := hchk
      have hsigner : tip.signer = b.self := by rw [← heqv]
      have htrx : tip.trx = trx := by rw [← heqv]
      have hleft : tip.left = l.hash := by rw [← heqv]
      have hright : tip.right = (r.getD l).hash := by rw [← heqv]
      obtain ⟨f1, f2, f3, f4, _⟩ := hb1.frame
      have pre : PreInsert b1 tip := {
        loaded := by rw [f1]; exact g.loaded
        notOwn := by rw [hsigner, htrx]; exact g.notOwn
        notGenesis := by rw [htrx, f2]; exact g.notGenesis
        notEmpty := by rw [htrx]; exact g.notEmpty
        canon := by rw [htrx]; exact g.canon
        vok := hvok
        freshCp := by simpa [cpHasVertex, f4] using hfresh }
      have hins := steps_insertLinked b1 tip pre
      rw [hleft, hright] at hins
      split <;> (rename_i heq2; rw [heq2] at hins; exact hb1.trans hins)

/-- `CreateLeaf` (checks and locked body on the same book) refines the transition system. -/
theorem steps_createLeaf (b : Book) (trx : Trx) (o1 o2 : List Hash) (tip : Vertex)
    (hfresh : b.cpHasVertex tip.hash = false) : Steps b (b.createLeaf trx o1 o2 tip).1 := by
  unfold createLeaf
  split; · exact Steps.refl _
  rename_i hl
  split; · exact Steps.refl _
  rename_i hne
  split; · exact Steps.refl _
  rename_i hcan
  split; · exact Steps.refl _
  rename_i hown
  split; · exact Steps.refl _
  rename_i hgen
  split; · exact Steps.refl _
  exact steps_createLeafLocked b trx o1 o2 tip
    ⟨by simpa using hl, by simpa using hne, by simpa using hcan, by simpa using hown, by simpa using hgen⟩ hfresh

/-! ### addLeafMemorized / AddLeaf / retry -/

theorem coreEq_park {b b' : Book} {v : Vertex} {r : Nat} (h : b.park v r = some b') (hg : AddGuards b v) :
    CoreEq b b' := by
  rw [park_some h]
  refine ⟨rfl, rfl, rfl, rfl, rfl, rfl, rfl, rfl, ?_⟩
  intro p hp
  simp only [List.mem_append, List.mem_cons, List.mem_nil_iff, or_false] at hp
  rcases hp with hp | rfl
  · exact Or.inl hp
  · exact Or.inr hg

theorem steps_checkParents (b : Book) (leaf : Vertex) (rep : Nat) (hs : List Hash) (acc : List Vertex)
    (hg : AddGuards b leaf) :
    Steps b (checkParents b leaf rep hs acc).1 ∧
    (∀ vs, (checkParents b leaf rep hs acc).2 = .ok vs → vs.map (·.hash) = acc.map (·.hash) ++ hs) := by
  induction hs generalizing b acc with
  | nil => exact ⟨Steps.refl _, fun vs h => by simp [checkParents] at h; subst h; simp⟩
  | cons h hs ih =>
    unfold checkParents
    split
    · split
      · exact ⟨Steps.refl _, fun vs h => by cases h⟩
      · rename_i b' hp
        exact ⟨Steps.single (Tr.misc (coreEq_park hp hg)), fun vs h => by cases h⟩
    · rename_i existing hex
      obtain ⟨hmem, hhash⟩ := getVertex_mem hex
      split
      · rename_i hlf
        split
        · exact ⟨Steps.single (Tr.drop existing hmem (by rw [hhash]; exact hlf)), fun vs h => by cases h⟩
        · obtain ⟨s, hv⟩ := ih (b.updateWT existing.weight) (acc ++ [existing]) (by unfold AddGuards; rw [updateWT_loaded]; exact hg)
          refine ⟨(Steps.single (Tr.misc (coreEq_updateWT _ _))).trans s, ?_⟩
          intro vs hvs
          rw [hv vs hvs]; simp [hhash]
      · obtain ⟨s, hv⟩ := ih b (acc ++ [existing]) hg
        refine ⟨s, ?_⟩
        intro vs hvs
        rw [hv vs hvs]; simp [hhash]

/-- The locked body of `addLeafMemorized` refines the transition system on whatever book it finds when it
gets the lock; the unlocked "vertex / transaction already known" look-ups are not needed for the live part
(`insertLinked` repeats them atomically), only that the hash is not a checkpointed one. -/
theorem steps_addLeafLocked (b : Book) (leaf : Vertex) (rep : Nat) (hg : AddGuards b leaf)
    (hgen : leaf.trx.issuer ≠ b.genesis) (hvok : leaf.vok = true) (hcp : b.cpHasVertex leaf.hash = false) :
    Steps b (b.addLeafLocked leaf rep).1 := by
  unfold addLeafLocked
  obtain ⟨scp, hvm⟩ := steps_checkParents b leaf rep [leaf.left, leaf.right] [] hg
  split
  · rename_i b1 e heq; rw [heq] at scp; exact scp
  · rename_i b1 validated heq
    rw [heq] at scp hvm
    obtain ⟨f1, f2, f3, f4, _⟩ := scp.frame
    have pre : PreInsert b1 leaf := {
      loaded := by rw [f1]; exact hg.1
      notOwn := hg.2.1
      notGenesis := by rw [f2]; exact hgen
      notEmpty := hg.2.2.1
      canon := hg.2.2.2
      vok := hvok
      freshCp := by
        unfold cpHasVertex at hcp ⊢
        rw [f4]; exact hcp }
    have hmap : validated.map (·.hash) = [leaf.left, leaf.right] := by
      have := hvm validated rfl
      simpa using this
    have hins := steps_insertLinked b1 leaf pre
    rw [← hmap] at hins
    split <;> (rename_i heq2; rw [heq2] at hins; exact scp.trans hins)

theorem steps_addLeafMemorized (b : Book) (leaf : Vertex) (rep : Nat) (hg : AddGuards b leaf) :
    Steps b (b.addLeafMemorized leaf rep).1 := by
  unfold addLeafMemorized
  split; · exact Steps.refl _
  rename_i hgen
  split; · exact Steps.refl _
  rename_i hex
  split; · exact Steps.refl _
  split; · exact Steps.refl _
  rename_i hvok
  refine steps_addLeafLocked b leaf rep hg (by simpa using hgen) (by simpa using hvok) ?_
  simp only [checkVertexExists, Bool.or_eq_true, not_or, Bool.not_eq_true] at hex
  exact hex.2

theorem steps_addLeaf (b : Book) (leaf : Vertex) : Steps b (b.addLeaf leaf).1 := by
  unfold addLeaf
  split; · exact Steps.refl _
  rename_i hl
  split; · exact Steps.refl _
  rename_i hown
  split; · exact Steps.refl _
  rename_i hne
  split; · exact Steps.refl _
  rename_i hcan
  exact steps_addLeafMemorized b leaf 0 ⟨by simpa using hl, by simpa using hown, by simpa using hne, by simpa using hcan⟩

end CModel.Book
