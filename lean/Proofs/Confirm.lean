import Proofs.Funds
import Proofs.LedgerReach
/-! C01: what "becoming a parent" requires. -/
namespace CModel.Book
open CModel CModel.Melange

/-- `v` passed `validateLeaf` in some intermediate book reached from `b` inside the same call. -/
def ValidatedIn (b : Book) (v : Vertex) : Prop :=
  ∃ bm, Steps b bm ∧ v ∈ bm.verts ∧ bm.validateLeaf v = .ok ()

theorem visitTip_validated (st : GVL) (v : Vertex) (hv : v ∈ st.book.verts) (b0 : Book) (hs : Steps b0 st.book)
    (hl : ∀ l, st.left = some l → ValidatedIn b0 l) (hr : ∀ r, st.right = some r → ValidatedIn b0 r) :
    (∀ l, (visitTip st v).left = some l → ValidatedIn b0 l) ∧
    (∀ r, (visitTip st v).right = some r → ValidatedIn b0 r) := by
  unfold visitTip
  split
  · exact ⟨hl, hr⟩
  · rename_i hok
    split
    · refine ⟨?_, hr⟩
      intro l h; simp only [Option.some.injEq] at h; subst h
      exact ⟨st.book, hs, hv, hok⟩
    · refine ⟨hl, ?_⟩
      intro r h; simp only [Option.some.injEq] at h; subst h
      exact ⟨st.book, hs, hv, hok⟩

theorem gvlStep_validated (st : GVL) (h : Hash) (b0 : Book) (hs : Steps b0 st.book)
    (hl : ∀ l, st.left = some l → ValidatedIn b0 l) (hr : ∀ r, st.right = some r → ValidatedIn b0 r) :
    (∀ l, (gvlStep st h).left = some l → ValidatedIn b0 l) ∧
    (∀ r, (gvlStep st h).right = some r → ValidatedIn b0 r) := by
  unfold gvlStep
  split
  · exact ⟨hl, hr⟩
  · split
    · exact ⟨hl, hr⟩
    · rename_i v hv
      split
      · exact visitTip_validated st v (getVertex_mem hv).1 b0 hs hl hr
      · exact ⟨hl, hr⟩

/-- Both tips selected by `getValidLeaves` passed `validateLeaf` during the call. -/
theorem getValidLeaves_validated (b : Book) (order : List Hash) :
    (∀ l, (b.getValidLeaves order).left = some l → ValidatedIn b l) ∧
    (∀ r, (b.getValidLeaves order).right = some r → ValidatedIn b r) := by
  unfold getValidLeaves
  suffices h : ∀ (st : GVL), Steps b st.book →
      (∀ l, st.left = some l → ValidatedIn b l) → (∀ r, st.right = some r → ValidatedIn b r) →
      (∀ l, (order.foldl gvlStep st).left = some l → ValidatedIn b l) ∧
      (∀ r, (order.foldl gvlStep st).right = some r → ValidatedIn b r) from
    h { book := b } (Steps.refl b) (by intro l h; cases h) (by intro r h; cases h)
  induction order with
  | nil => intro st _ hl hr; exact ⟨hl, hr⟩
  | cons x xs ih =>
    intro st hs hl hr
    simp only [List.foldl_cons]
    obtain ⟨h1, h2⟩ := gvlStep_validated st x b hs hl hr
    exact ih (gvlStep st x) (hs.trans (steps_gvlStep st x)) h1 h2

/-- A tip that fails validation is gone afterwards, together with its index entry. -/
theorem failing_tip_dropped (st : GVL) (v : Vertex) (e : Err) (h : st.book.validateLeaf v = .error e) :
    (visitTip st v).book.hasVertex v.hash = false ∧ (visitTip st v).book.indexHas v.trx.hash = false ∧
    (∀ x ∈ (visitTip st v).book.edges, x.1 ≠ v.hash ∧ x.2 ≠ v.hash) := by
  unfold visitTip
  rw [h]
  simp only [hasVertex, indexHas, updateWT_verts, updateWT_index, updateWT_edges, indexRemove_verts, deleteVertex_verts,
    indexRemove_index, deleteVertex_index, indexRemove_edges, deleteVertex_edges]
  refine ⟨?_, ?_, ?_⟩
  · simp [List.any_filter]
  · simp [List.any_filter]
  · intro x hx
    simp only [List.mem_filter, Bool.and_eq_true, bne_iff_ne, ne_eq] at hx
    exact hx.2

/-- What a successful `validateLeaf` establishes. The fund check is skipped exactly for roots,
non-spice transactions and vertices sealed by a trusted node. -/
theorem validateLeaf_ok {b : Book} (h : FundsOK b) (leaf : Vertex) (hleaf : Canon leaf.trx.spice)
    (hr : b.validateLeaf leaf = .ok ()) :
    leaf.vok = true ∧ b.isValidWeight leaf.weight = true ∧
    (b.isRoot leaf.hash = true ∨ leaf.trx.isSpice = false ∨ b.isTrusted leaf.signer = true ∨
     outflow leaf.trx.issuer (walk b leaf) ≤ cpVal b leaf.trx.issuer + inflow leaf.trx.issuer (walk b leaf)) := by
  unfold validateLeaf at hr
  split at hr; · simp at hr
  rename_i hw
  split at hr; · simp at hr
  rename_i hv
  refine ⟨by simpa using hv, by simpa using hw, ?_⟩
  split at hr
  · rename_i hroot; exact Or.inl hroot
  · split at hr
    · rename_i hc
      simp only [Bool.or_eq_true, Bool.not_eq_true'] at hc
      rcases hc with hc | hc
      · exact Or.inr (Or.inl hc)
      · exact Or.inr (Or.inr (Or.inl hc))
    · exact Or.inr (Or.inr (Or.inr (validateFunds_ok h leaf hleaf hr)))

end CModel.Book

namespace CModel.Book
open CModel CModel.Melange

/-- **C01, local proposals**: a vertex created by `CreateLeaf` names as parents only tips that passed
`validateLeaf` during that very call. -/
theorem createLeafLocked_parents_validated (b : Book) (trx : Trx) (o1 o2 : List Hash) (tip v : Vertex)
    (h : (b.createLeafLocked trx o1 o2 tip).2 = .ok v) :
    ∃ l r, ValidatedIn b l ∧ ValidatedIn b r ∧ v.left = l.hash ∧ v.right = r.hash ∧
      v.weight = calcNewWeight l.weight r.weight ∧ v.signer = b.self ∧ v.trx = trx := by
  unfold createLeafLocked at h
  obtain ⟨hvl, hvr⟩ := getValidLeaves_validated b o1
  simp only at h
  split at h
  · simp at h
  · rename_i b1 l r heq
    have hl : (b.getValidLeaves o1).left = some l ∧ (b.getValidLeaves o1).right = r := by
      split at heq
      · cases heq
      · split at heq
        · rename_i l' hl'
          simp only [Prod.mk.injEq, Except.ok.injEq] at heq
          obtain ⟨_, rfl, rfl⟩ := heq
          exact ⟨hl', rfl⟩
        · split at heq
          · cases heq
          · split at heq <;> cases heq
    split at h
    · simp at h
    · rename_i hchk
      simp only [Bool.or_eq_true, bne_iff_ne, ne_eq, Bool.not_eq_true', not_or, Decidable.not_not,
        Bool.not_eq_false] at hchk
      obtain ⟨heqv, _⟩ := hchk
      have hv : v = tip := by
        split at h <;> simp at h
        exact h.symm
      subst hv
      have hlv := hvl l hl.1
      have hrv : ValidatedIn b (r.getD l) := by
        cases r with
        | none => exact hlv
        | some r' => exact hvr r' hl.2
      exact ⟨l, r.getD l, hlv, hrv, by rw [← heqv], by rw [← heqv], by rw [← heqv], by rw [← heqv], by rw [← heqv]⟩

theorem createLeaf_parents_validated (b : Book) (trx : Trx) (o1 o2 : List Hash) (tip v : Vertex)
    (h : (b.createLeaf trx o1 o2 tip).2 = .ok v) :
    ∃ l r, ValidatedIn b l ∧ ValidatedIn b r ∧ v.left = l.hash ∧ v.right = r.hash ∧
      v.weight = calcNewWeight l.weight r.weight ∧ v.signer = b.self ∧ v.trx = trx := by
  unfold createLeaf at h
  split at h; · simp at h
  split at h; · simp at h
  split at h; · simp at h
  split at h; · simp at h
  split at h; · simp at h
  split at h; · simp at h
  exact createLeafLocked_parents_validated b trx o1 o2 tip v h

/-- `pv` was present in an intermediate book of the call, and if it was a tip there it passed
`validateLeaf` (a parent that already has children was validated when it got its first child). -/
def CheckedIn (b : Book) (pv : Vertex) : Prop :=
  ∃ bm, Steps b bm ∧ pv ∈ bm.verts ∧ (bm.isLeaf pv.hash = true → bm.validateLeaf pv = .ok ())

theorem checkParents_checked (b0 b : Book) (hs0 : Steps b0 b) (leaf : Vertex) (rep : Nat) (hg : AddGuards b leaf)
    (hs : List Hash) (acc : List Vertex) (hacc : ∀ x ∈ acc, CheckedIn b0 x) :
    ∀ vs, (checkParents b leaf rep hs acc).2 = .ok vs →
      (∀ x ∈ vs, CheckedIn b0 x) ∧ vs.map (·.hash) = acc.map (·.hash) ++ hs := by
  induction hs generalizing b acc with
  | nil => intro vs h; simp only [checkParents, Except.ok.injEq] at h; subst h; exact ⟨hacc, by simp⟩
  | cons x xs ih =>
    intro vs h
    unfold checkParents at h
    split at h
    · split at h <;> simp at h
    · rename_i existing hex
      obtain ⟨hmem, hhash⟩ := getVertex_mem hex
      split at h
      · rename_i hleaf
        split at h
        · simp at h
        · rename_i hok
          have hg' : AddGuards (b.updateWT existing.weight) leaf := by unfold AddGuards; rw [updateWT_loaded]; exact hg
          have := ih (b.updateWT existing.weight) (hs0.trans (Steps.single (Tr.misc (coreEq_updateWT _ _)))) hg'
            (acc ++ [existing]) (by
              intro y hy
              rcases List.mem_append.1 hy with hy | hy
              · exact hacc y hy
              · simp only [List.mem_cons, List.mem_nil_iff, or_false] at hy; subst hy
                exact ⟨b, hs0, hmem, fun _ => hok⟩) vs h
          refine ⟨this.1, ?_⟩
          rw [this.2]; simp [hhash]
      · rename_i hleaf
        have := ih b hs0 hg (acc ++ [existing]) (by
              intro y hy
              rcases List.mem_append.1 hy with hy | hy
              · exact hacc y hy
              · simp only [List.mem_cons, List.mem_nil_iff, or_false] at hy; subst hy
                exact ⟨b, hs0, hmem, fun hl => absurd (hhash ▸ hl) hleaf⟩) vs h
        refine ⟨this.1, ?_⟩
        rw [this.2]; simp [hhash]

/-- **C01, gossip and orphan retries**: a vertex admitted by `addLeafMemorized` had both declared
parents present, and each parent that was still a tip passed `validateLeaf` in that call. -/
theorem addLeafLocked_parents_checked (b : Book) (leaf : Vertex) (rep : Nat) (hg : AddGuards b leaf)
    (h : (b.addLeafLocked leaf rep).2 = .ok ()) :
    ∃ l r, CheckedIn b l ∧ CheckedIn b r ∧ l.hash = leaf.left ∧ r.hash = leaf.right := by
  unfold addLeafLocked at h
  split at h
  · simp at h
  · rename_i b1 validated heq
    have := checkParents_checked b b (Steps.refl b) leaf rep hg [leaf.left, leaf.right] [] (by intro x hx; cases hx)
      validated (by rw [heq])
    obtain ⟨hall, hmap⟩ := this
    simp only [List.map_nil, List.nil_append] at hmap
    match validated, hmap, hall with
    | [l, r], hmap, hall =>
      simp only [List.map_cons, List.map_nil, List.cons.injEq, and_true] at hmap
      exact ⟨l, r, hall l (by simp), hall r (by simp), hmap.1, hmap.2⟩
    | [], hmap, _ => simp at hmap
    | [_], hmap, _ => simp at hmap
    | _ :: _ :: _ :: _, hmap, _ => simp at hmap

theorem addLeafMemorized_parents_checked (b : Book) (leaf : Vertex) (rep : Nat) (hg : AddGuards b leaf)
    (h : (b.addLeafMemorized leaf rep).2 = .ok ()) :
    ∃ l r, CheckedIn b l ∧ CheckedIn b r ∧ l.hash = leaf.left ∧ r.hash = leaf.right := by
  unfold addLeafMemorized at h
  split at h; · simp at h
  split at h; · simp at h
  split at h; · simp at h
  split at h; · simp at h
  exact addLeafLocked_parents_checked b leaf rep hg h

end CModel.Book
