import CModel.Tx
/-! C04 helper lemmas: layout injectivity of the two signed messages and the structure of verification. -/
namespace CModel.Tx

theorem le64_eq (n : Nat) : le64 n =
    [UInt8.ofNat (n % 256), UInt8.ofNat (n / 256 % 256), UInt8.ofNat (n / 65536 % 256), UInt8.ofNat (n / 16777216 % 256),
     UInt8.ofNat (n / 4294967296 % 256), UInt8.ofNat (n / 1099511627776 % 256), UInt8.ofNat (n / 281474976710656 % 256),
     UInt8.ofNat (n / 72057594037927936 % 256)] := by
  simp [le64, List.range_succ, Nat.shiftRight_eq_div_pow]

theorem le64_length (n : Nat) : (le64 n).length = 8 := by simp [le64]

theorem ofNat_inj256 {a b : Nat} (h : UInt8.ofNat (a % 256) = UInt8.ofNat (b % 256)) : a % 256 = b % 256 := by
  have := congrArg UInt8.toNat h
  simpa [UInt8.toNat_ofNat'] using this

theorem le64_inj {a b : Nat} (ha : a < 18446744073709551616) (hb : b < 18446744073709551616)
    (h : le64 a = le64 b) : a = b := by
  rw [le64_eq, le64_eq] at h
  simp only [List.cons.injEq, and_true] at h
  obtain ⟨h0, h1, h2, h3, h4, h5, h6, h7⟩ := h
  have := ofNat_inj256 h0; have := ofNat_inj256 h1; have := ofNat_inj256 h2; have := ofNat_inj256 h3
  have := ofNat_inj256 h4; have := ofNat_inj256 h5; have := ofNat_inj256 h6; have := ofNat_inj256 h7
  omega

/-- What Go's types guarantee about a vertex: `[32]byte` hashes and 64-bit words. -/
structure VertexB.WF (v : VertexB) : Prop where
  thash : v.trx.hash.length = 32
  left : v.left.length = 32
  right : v.right.length = 32
  created : v.created < 18446744073709551616
  weight : v.weight < 18446744073709551616

structure TrxB.WF (t : TrxB) : Prop where
  created : t.created < 18446744073709551616
  cur : t.cur < 18446744073709551616
  supp : t.supp < 18446744073709551616

/-- The vertex digest input is an injective encoding of (transaction hash, parents, time, weight). -/
theorem vertexData_inj {v v' : VertexB} (h : v.WF) (h' : v'.WF) (e : vertexData v = vertexData v') :
    v.trx.hash = v'.trx.hash ∧ v.left = v'.left ∧ v.right = v'.right ∧ v.created = v'.created ∧ v.weight = v'.weight := by
  unfold vertexData at e
  obtain ⟨e1, ew⟩ := List.append_inj' e (by simp [le64_length])
  obtain ⟨e2, ec⟩ := List.append_inj' e1 (by simp [le64_length])
  obtain ⟨e3, er⟩ := List.append_inj' e2 (by rw [h.right, h'.right])
  obtain ⟨eh, el⟩ := List.append_inj' e3 (by rw [h.left, h'.left])
  exact ⟨eh, el, er, le64_inj h.created h'.created ec, le64_inj h.weight h'.weight ew⟩

/-- The transaction message determines the three trailing words and the concatenation of the four
variable-width fields — but not where one variable-width field ends and the next begins. -/
theorem trxMessage_inj_words {t t' : TrxB} (h : t.WF) (h' : t'.WF) (e : trxMessage t = trxMessage t') :
    t.subject ++ t.data ++ t.issuer ++ t.receiver = t'.subject ++ t'.data ++ t'.issuer ++ t'.receiver ∧
    t.created = t'.created ∧ t.cur = t'.cur ∧ t.supp = t'.supp := by
  unfold trxMessage at e
  obtain ⟨e1, es⟩ := List.append_inj' e (by simp [le64_length])
  obtain ⟨e2, ec⟩ := List.append_inj' e1 (by simp [le64_length])
  obtain ⟨e3, et⟩ := List.append_inj' e2 (by simp [le64_length])
  exact ⟨e3, le64_inj h.created h'.created et, le64_inj h.cur h'.cur ec, le64_inj h.supp h'.supp es⟩

/-- With the field boundaries fixed (equal lengths of subject, data and issuer) the message is injective. -/
theorem trxMessage_inj {t t' : TrxB} (h : t.WF) (h' : t'.WF) (e : trxMessage t = trxMessage t')
    (ls : t.subject.length = t'.subject.length) (ld : t.data.length = t'.data.length)
    (li : t.issuer.length = t'.issuer.length) :
    t.subject = t'.subject ∧ t.data = t'.data ∧ t.issuer = t'.issuer ∧ t.receiver = t'.receiver ∧
    t.created = t'.created ∧ t.cur = t'.cur ∧ t.supp = t'.supp := by
  obtain ⟨e0, ec, eu, es⟩ := trxMessage_inj_words h h' e
  obtain ⟨e1, er⟩ := List.append_inj e0 (by simp [ls, ld, li])
  obtain ⟨e2, ei⟩ := List.append_inj e1 (by simp [ls, ld])
  obtain ⟨e3, ed⟩ := List.append_inj e2 ls
  exact ⟨e3, ed, ei, er, ec, eu, es⟩

/-- Structure of a successful `Verify`. -/
theorem verifyMsg_true {o : Ops} {msg : Bytes} {sig : Sig} {hash addr : Bytes} (h : verifyMsg o msg sig hash addr = true) :
    o.H msg = hash ∧ ∃ k, o.addrKey addr = some k ∧ k.length = 32 ∧ sig = .honest k hash := by
  unfold verifyMsg at h
  by_cases hh : o.H msg = hash
  · simp only [hh, bne_self_eq_false, Bool.false_eq_true, ↓reduceIte] at h
    refine ⟨hh, ?_⟩
    cases hk : o.addrKey addr with
    | none => simp [hk] at h
    | some k =>
      simp only [hk] at h
      by_cases hl : k.length = 32
      · simp only [hl, bne_self_eq_false, Bool.false_eq_true, ↓reduceIte] at h
        refine ⟨k, rfl, hl, ?_⟩
        cases sig with
        | honest k' d => simp [sigValid] at h; rw [h.1, h.2]
        | other r => simp [sigValid] at h
      · simp [hl] at h
  · simp [hh] at h

theorem verifyMsg_honest {o : Ops} {msg hash addr k : Bytes} (hh : o.H msg = hash) (hk : o.addrKey addr = some k)
    (hl : k.length = 32) : verifyMsg o msg (.honest k hash) hash addr = true := by
  simp [verifyMsg, hh, hk, hl, sigValid]

end CModel.Tx
