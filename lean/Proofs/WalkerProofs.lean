import CModel.Walker
/-! C08: the draining exit policy can never wedge; the other two can (witness schedules). -/
namespace CModel.Walker

def drainCfg (nested : Bool) : Cfg := { policy := .drain, nested := nested, writerEarly := false }

/-- Invariant of the system with the draining policy and writers excluded while the consumer runs. -/
structure DInv (s : St) : Prop where
  readers : s.readers = if s.pp = 1 ∨ s.pp = 2 ∨ s.pp = 3 then 1 else 0
  closed : s.closed = true ↔ s.pp = 4
  sig : s.sig = false
  panic : s.panic = false
  ww : s.ww = true → s.cp = 2
  wd : s.wd = true → s.cp = 2
  left : s.cp = 2 → s.pp = 4
  pcP : s.pp ≤ 4
  pcC : s.cp ≤ 3

theorem dinv_init (n k : Nat) : DInv (init n k) := by
  constructor <;> simp [init]

theorem dinv_step (c : Cfg) (hp : c.policy = .drain) (he : c.writerEarly = false) (s s' : St) (t : Thread) (h : DInv s)
    (hs : step c s t = some s') : DInv s' := by
  obtain ⟨h1, h2, h3, h4, h5, h6, h7, h8, h9⟩ := h
  cases t with
  | P =>
    simp only [step, stepP] at hs
    split at hs
    · split at hs
      · cases hs
      · cases hs; constructor <;> simp_all
    · split at hs
      · cases hs; constructor <;> simp_all
      · split at hs
        · cases hs; constructor <;> simp_all
        · cases hs; constructor <;> simp_all
    · split at hs
      · cases hs; constructor <;> simp_all
      · split at hs
        · cases hs; constructor <;> simp_all
        · cases hs
    · cases hs; constructor <;> simp_all
    · cases hs
  | C =>
    simp only [step, stepC] at hs
    split at hs
    · by_cases hc : s.closed = true
      · rw [if_pos hc] at hs; cases hs; constructor <;> simp_all
      · rw [if_neg hc] at hs; cases hs
    · by_cases hn : (c.nested && s.ww) = true
      · rw [if_pos hn] at hs; cases hs
      · rw [if_neg hn] at hs
        by_cases hk : s.got + 1 = s.k
        · rw [if_pos hk, hp] at hs; cases hs; constructor <;> simp_all
        · rw [if_neg hk] at hs; cases hs; constructor <;> simp_all
    · by_cases hc : s.closed = true
      · rw [if_pos hc] at hs; cases hs; constructor <;> simp_all
      · rw [if_neg hc] at hs; cases hs
    · cases hs
  | W =>
    simp only [step, stepW, he] at hs
    by_cases hwd : s.wd = true
    · rw [if_pos hwd] at hs; cases hs
    · rw [if_neg hwd] at hs
      by_cases hww : s.ww = true
      · rw [if_pos hww] at hs
        by_cases hr : s.readers = 0
        · rw [if_pos hr] at hs; cases hs; constructor <;> simp_all
        · rw [if_neg hr] at hs; cases hs
      · rw [if_neg hww] at hs
        by_cases hcp : (false || decide (s.cp = 2)) = true
        · rw [if_pos hcp] at hs; cases hs; constructor <;> simp_all
        · rw [if_neg hcp] at hs; cases hs

theorem dinv_reach (nested : Bool) (n k : Nat) (s : St) (r : Reach (drainCfg nested) n k s) : DInv s := by
  induction r with
  | init => exact dinv_init n k
  | step t _ hs ih => exact dinv_step (drainCfg nested) rfl rfl _ _ t ih hs

/-- **C08 drain safety**: for every number of ancestors `n`, every exit point `k`, with or without
nested read locks, every reachable state of the draining system in which no thread can move is the
terminated state: producer finished, consumer returned, writer done, no reader left, no panic. -/
theorem drain_safe (nested : Bool) (n k : Nat) (s : St) (r : Reach (drainCfg nested) n k s)
    (hst : stuck (drainCfg nested) s = true) :
    terminated s = true ∧ s.readers = 0 ∧ s.panic = false := by
  have h := dinv_reach nested n k s r
  obtain ⟨h1, h2, h3, h4, h5, h6, h7, h8, h9⟩ := h
  simp only [stuck, Bool.and_eq_true, Option.isNone_iff_eq_none] at hst
  obtain ⟨⟨hP, hC⟩, hW⟩ := hst
  -- the producer cannot be blocked unless it is done
  have hpp : s.pp = 4 := by
    simp only [stepP] at hP
    rcases Nat.lt_or_ge s.pp 4 with hlt | hge
    · exfalso
      have : s.pp = 0 ∨ s.pp = 1 ∨ s.pp = 2 ∨ s.pp = 3 := by omega
      rcases this with p | p | p | p
      · rw [p] at hP
        simp only at hP
        split at hP
        · rename_i hww
          have := h7 (h5 hww); omega
        · cases hP
      · rw [p] at hP; simp only at hP
        split at hP
        · cases hP
        · split at hP <;> cases hP
      · rw [p] at hP; simp only at hP
        split at hP
        · cases hP
        · split at hP
          · cases hP
          · -- consumer is neither receiving nor draining: it is processing (enabled) or has left (impossible)
            rename_i c0 c3
            have : s.cp = 1 ∨ s.cp = 2 := by omega
            rcases this with c | c
            · simp only [stepC, c] at hC
              have hww : s.ww = false := by
                cases hw : s.ww with
                | false => rfl
                | true => have := h5 hw; omega
              simp only [hww, Bool.and_false, Bool.false_eq_true, if_false] at hC
              by_cases hk : s.got + 1 = s.k
              · rw [if_pos hk] at hC; simp [drainCfg] at hC
              · rw [if_neg hk] at hC; cases hC
            · have := h7 c; omega
      · rw [p] at hP; simp only at hP; cases hP
    · omega
  have hclosed : s.closed = true := h2.2 hpp
  have hcp : s.cp = 2 := by
    have : s.cp = 0 ∨ s.cp = 1 ∨ s.cp = 2 ∨ s.cp = 3 := by omega
    rcases this with c | c | c | c
    · simp only [stepC, c, hclosed, if_true] at hC; cases hC
    · exfalso
      simp only [stepC, c] at hC
      have hww : s.ww = false := by
        cases hw : s.ww with
        | false => rfl
        | true => have := h5 hw; omega
      simp only [hww, Bool.and_false, Bool.false_eq_true, if_false] at hC
      by_cases hk : s.got + 1 = s.k
      · rw [if_pos hk] at hC; simp [drainCfg] at hC
      · rw [if_neg hk] at hC; cases hC
    · exact c
    · simp only [stepC, c, hclosed, if_true] at hC; cases hC
  have hr : s.readers = 0 := by rw [h1, hpp]; simp
  have hwd : s.wd = true := by
    simp only [stepW, drainCfg] at hW
    cases hw : s.wd with
    | true => rfl
    | false =>
      exfalso
      simp [hw, hr, hcp] at hW
      split at hW <;> cases hW
  exact ⟨by simp [terminated, hpp, hcp, hwd], hr, h4⟩

/-! ### the other exit policies wedge or panic: explicit schedules -/

open Thread in
/-- `signal <- true; return` while the producer is already committed to its next send: the producer
keeps the read lock forever, the next DAG writer never gets the lock. -/
theorem signalOnly_wedges :
    let c : Cfg := { policy := .signalOnly, nested := false, writerEarly := false }
    let s := run c [P, P, P, P, C, W] (init 2 1)
    stuck c s = true ∧ terminated s = false ∧ s.readers = 1 ∧ s.ww = true := by decide

open Thread in
/-- Returning without any signal (the `pourFunds` error exits): same wedge. -/
theorem noSignal_wedges :
    let c : Cfg := { policy := .noSignal, nested := false, writerEarly := false }
    let s := run c [P, P, P, P, C, W] (init 2 1)
    stuck c s = true ∧ terminated s = false ∧ s.readers = 1 ∧ s.ww = true := by decide

open Thread in
/-- Signalling after the producer has closed the channel (exit at the last ancestor): panic. -/
theorem signal_after_close_panics :
    let c : Cfg := { policy := .signalOnly, nested := false, writerEarly := false }
    (run c [P, P, P, P, P, C] (init 1 1)).panic = true := by decide

open Thread in
/-- A consumer outside the ledger lock that takes nested read locks deadlocks with a queued writer
even if it never leaves early (the pre-fix StreamDAG shape). -/
theorem nested_rlock_deadlocks :
    let c : Cfg := { policy := .drain, nested := true, writerEarly := true }
    let s := run c [P, P, P, W, P] (init 2 0)
    stuck c s = true ∧ terminated s = false := by decide

/-- With fast enough consumers nothing goes wrong, which is why ordinary runs never show it:
the same exit, but the signal lands before the producer commits. -/
example :
    let c : Cfg := { policy := .signalOnly, nested := false, writerEarly := false }
    terminated (run c [.P, .P, .P, .C, .P, .P, .W, .W] (init 2 1)) = true := by decide

end CModel.Walker
