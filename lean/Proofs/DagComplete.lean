import Proofs.Reachable
import Proofs.LedgerDag
/-! C09: every declared parent of a live vertex is either live and linked, or checkpointed. -/
namespace CModel.Book
open CModel

/-- a declared parent `p` of the live vertex `v` is live and linked, or no longer live but checkpointed -/
def ParentOK (b : Book) (v : Vertex) (p : Hash) : Prop :=
  (b.hasVertex p = true ∧ (p, v.hash) ∈ b.edges) ∨ (b.hasVertex p = false ∧ b.cpHasVertex p = true)

/-- for every live vertex that declares parents (left parent ≠ the zero hash): both declared parents are OK -/
def DagComplete (b : Book) : Prop :=
  ∀ v ∈ b.verts, v.left ≠ 0 → ParentOK b v v.left ∧ ParentOK b v v.right


theorem DagComplete.tr {b b' : Book} (h : DagComplete b) (t : Tr b b') : DagComplete b' := by
  cases t with
  | misc ce =>
    obtain ⟨e1, e2, _, e4, _⟩ := ce
    intro v hv hl
    rw [e1] at hv
    have := h v hv hl
    unfold ParentOK hasVertex cpHasVertex at this ⊢
    rw [e1, e2, e4]
    exact this
  | drop v0 hv0 hleaf =>
    intro v hv hl
    have hv' : v ∈ b.verts ∧ v.hash ≠ v0.hash := by
      simp only [indexRemove, deleteVertex, List.mem_filter, bne_iff_ne, ne_eq] at hv
      exact ⟨hv.1, hv.2⟩
    have key : ∀ p, ParentOK b v p → ParentOK ((b.deleteVertex v0.hash).indexRemove v0.trx.hash) v p := by
      intro p hp
      rcases hp with ⟨hlive, hedge⟩ | ⟨hnl, hcp⟩
      · have hpne : p ≠ v0.hash := by
          intro e
          subst e
          unfold isLeaf at hleaf
          simp only [Bool.not_eq_eq_eq_not, Bool.not_true, List.any_eq_false, beq_iff_eq] at hleaf
          exact hleaf _ hedge rfl
        left
        constructor
        · obtain ⟨x, hx, hxe⟩ := (hasVertex_iff b p).mp hlive
          apply (hasVertex_iff _ p).mpr
          refine ⟨x, ?_, hxe⟩
          simp only [indexRemove, deleteVertex, List.mem_filter, bne_iff_ne, ne_eq]
          exact ⟨hx, by rw [hxe]; exact hpne⟩
        · simp only [indexRemove, deleteVertex, List.mem_filter, Bool.and_eq_true, bne_iff_ne, ne_eq]
          exact ⟨hedge, hpne, hv'.2⟩
      · right
        constructor
        · cases hh : ((b.deleteVertex v0.hash).indexRemove v0.trx.hash).hasVertex p with
          | false => rfl
          | true =>
            obtain ⟨x, hx, hxe⟩ := (hasVertex_iff _ p).mp hh
            simp only [indexRemove, deleteVertex, List.mem_filter] at hx
            have := (hasVertex_iff b p).mpr ⟨x, hx.1, hxe⟩
            rw [hnl] at this; cases this
        · exact hcp
    have := h v hv'.1 hl
    exact ⟨key _ this.1, key _ this.2⟩
  | insert v0 es ok hes hcomp hzero =>
    have hmono : ∀ p, b.hasVertex p = true →
        ({ b with index := b.index ++ [(v0.trx.hash, v0.hash)], verts := b.verts ++ [v0], edges := b.edges ++ es } : Book).hasVertex p = true := by
      intro p hp
      obtain ⟨x, hx, hxe⟩ := (hasVertex_iff b p).mp hp
      exact (hasVertex_iff _ p).mpr ⟨x, List.mem_append_left _ hx, hxe⟩
    intro v hv hl
    simp only [List.mem_append, List.mem_singleton] at hv
    rcases hv with hv | rfl
    · have key : ∀ p, ParentOK b v p →
          ParentOK { b with index := b.index ++ [(v0.trx.hash, v0.hash)], verts := b.verts ++ [v0], edges := b.edges ++ es } v p := by
        intro p hp
        rcases hp with ⟨hlive, hedge⟩ | ⟨hnl, hcp⟩
        · exact Or.inl ⟨hmono p hlive, List.mem_append_left _ hedge⟩
        · right
          refine ⟨?_, hcp⟩
          cases hh : ({ b with index := b.index ++ [(v0.trx.hash, v0.hash)], verts := b.verts ++ [v0], edges := b.edges ++ es } : Book).hasVertex p with
          | false => rfl
          | true =>
            obtain ⟨x, hx, hxe⟩ := (hasVertex_iff _ p).mp hh
            simp only [List.mem_append, List.mem_singleton] at hx
            rcases hx with hx | rfl
            · have := (hasVertex_iff b p).mpr ⟨x, hx, hxe⟩
              rw [hnl] at this; cases this
            · -- p would be the fresh vertex, which is not checkpointed
              rw [← hxe, ok.freshCp] at hcp; cases hcp
      have := h v hv hl
      exact ⟨key _ this.1, key _ this.2⟩
    · obtain ⟨m1, m2, l1, l2⟩ := hcomp hl
      exact ⟨Or.inl ⟨hmono _ l1, List.mem_append_right _ m1⟩, Or.inl ⟨hmono _ l2, List.mem_append_right _ m2⟩⟩
  | unlink hx hfresh =>
    intro v hv hl
    have hvne : v.hash ≠ hx := by
      intro e
      have := (hasVertex_iff b hx).mpr ⟨v, hv, e⟩
      rw [hfresh] at this; cases this
    have key : ∀ p, ParentOK b v p → ParentOK { b with edges := b.edges.filter (fun e => e.1 != hx && e.2 != hx) } v p := by
      intro p hp
      rcases hp with ⟨hlive, hedge⟩ | ⟨hnl, hcp⟩
      · left
        refine ⟨hlive, ?_⟩
        have hpne : p ≠ hx := by intro e; rw [e, hfresh] at hlive; cases hlive
        simp only [List.mem_filter, Bool.and_eq_true, bne_iff_ne, ne_eq]
        exact ⟨hedge, hpne, hvne⟩
      · exact Or.inr ⟨hnl, hcp⟩
    have := h v hv hl
    exact ⟨key _ this.1, key _ this.2⟩

theorem DagComplete.steps {b b' : Book} (h : DagComplete b) (s : Steps b b') : DagComplete b' := by
  induction s with
  | refl => exact h
  | tail _ t ih => exact ih.tr t

end CModel.Book

namespace CModel.Book
open CModel

theorem cpHasVertex_iff (b : Book) (h : Hash) : b.cpHasVertex h = true ↔ ∃ v ∈ b.cpVerts, v.hash = h := by
  simp [cpHasVertex]

theorem DagComplete.truncate {b : Book} (h : DagComplete b) (cut : Hash) : DagComplete (b.truncateAt cut).1 := by
  cases hr : (b.truncateAt cut).2 with
  | error e => rw [truncateAt_err hr]; exact h
  | ok u =>
    have hok : (b.truncateAt cut).2 = .ok () := hr
    obtain ⟨mv, hmv, hin, _, hcv, hverts, _, _, _⟩ := truncateAt_ok hok
    -- edges after the truncation
    have hedges : (b.truncateAt cut).1.edges = b.edges.filter (fun e => !(b.ancestors cut).contains e.1 && !(b.ancestors cut).contains e.2) := by
      unfold truncateAt
      have hc : b.hasVertex cut = true := by
        cases hh : b.hasVertex cut with
        | true => rfl
        | false => unfold truncateAt at hok; simp [hh] at hok
      simp only [hc, Bool.not_true, Bool.false_eq_true, ↓reduceIte]
      cases hcm : collectMoved b (b.ancestors cut) [] with
      | error e => unfold truncateAt at hok; simp [hc, hcm] at hok
      | ok mv' => simp only; exact (foldl_deleteVertex _ _).2.1
    intro v hv hl
    rw [hverts] at hv
    have hv' := List.mem_filter.mp hv
    have hvna : (b.ancestors cut).contains v.hash = false := by simpa using hv'.2
    have key : ∀ p, ParentOK b v p → ParentOK (b.truncateAt cut).1 v p := by
      intro p hp
      unfold ParentOK
      rcases hp with ⟨hlive, hedge⟩ | ⟨hnl, hcp⟩
      · by_cases hpa : (b.ancestors cut).contains p = true
        · -- the parent moved to storage
          right
          constructor
          · cases hh : (b.truncateAt cut).1.hasVertex p with
            | false => rfl
            | true =>
              obtain ⟨x, hx, hxe⟩ := (hasVertex_iff _ p).mp hh
              rw [hverts] at hx
              have := (List.mem_filter.mp hx).2
              rw [hxe, hpa] at this; cases this
          · apply (cpHasVertex_iff _ p).mpr
            rw [hcv]
            have : p ∈ mv.map (·.hash) := by rw [hmv]; simpa using hpa
            obtain ⟨x, hx, hxe⟩ := List.mem_map.mp this
            exact ⟨x, List.mem_append_right _ hx, hxe⟩
        · left
          have hpa' : (b.ancestors cut).contains p = false := by simpa using hpa
          constructor
          · obtain ⟨x, hx, hxe⟩ := (hasVertex_iff b p).mp hlive
            apply (hasVertex_iff _ p).mpr
            refine ⟨x, ?_, hxe⟩
            rw [hverts]
            exact List.mem_filter.mpr ⟨hx, by rw [hxe, hpa']; rfl⟩
          · rw [hedges]
            exact List.mem_filter.mpr ⟨hedge, by
              have a1 : p ∉ b.ancestors cut := by simpa using hpa'
              have a2 : v.hash ∉ b.ancestors cut := by simpa using hvna
              simp [a1, a2]⟩
      · right
        constructor
        · cases hh : (b.truncateAt cut).1.hasVertex p with
          | false => rfl
          | true =>
            obtain ⟨x, hx, hxe⟩ := (hasVertex_iff _ p).mp hh
            rw [hverts] at hx
            have := (hasVertex_iff b p).mpr ⟨x, (List.mem_filter.mp hx).1, hxe⟩
            rw [hnl] at this; cases this
        · obtain ⟨x, hx, hxe⟩ := (cpHasVertex_iff b p).mp hcp
          apply (cpHasVertex_iff _ p).mpr
          rw [hcv]
          exact ⟨x, List.mem_append_left _ hx, hxe⟩
    have := h v hv'.1 hl
    exact ⟨key _ this.1, key _ this.2⟩

theorem Reachable.dagComplete {b : Book} (r : Reachable b) : DagComplete b := by
  induction r with
  | init self => intro v hv; cases hv
  | genesis _ hv hc hi hpk hcf h _ =>
    obtain ⟨_, hgen, _, _, _, e1, _⟩ := createGenesis_ok h
    rw [hv] at e1
    intro v hvm hl
    rw [e1] at hvm
    simp only [List.nil_append, List.mem_singleton] at hvm
    subst hvm
    exact absurd hgen.1 hl
  | createLeaf trx o1 o2 tip _ hf ih => exact ih.steps (steps_createLeaf _ trx o1 o2 tip hf)
  | addLeaf v _ ih => exact ih.steps (steps_addLeaf _ v)
  | @retry b r ih => exact ih.steps (steps_retryParked _ r.inv.parkOk)
  | trust a _ ih => exact ih.tr (Tr.misc (coreEq_addTrusted _ a))
  | untrust a _ ih => exact ih.tr (Tr.misc (coreEq_removeTrusted _ a))
  | truncate cut _ ih => exact ih.truncate cut
  | steps _ s ih => exact ih.steps s


/-! ### vertices without declared parents have no incoming edges -/
def RootsBare (b : Book) : Prop := ∀ v ∈ b.verts, v.left = 0 → ∀ e ∈ b.edges, e.2 ≠ v.hash

theorem RootsBare.tr {b b' : Book} (h : RootsBare b) (he : EdgeInv b) (t : Tr b b') : RootsBare b' := by
  cases t with
  | misc ce =>
    obtain ⟨e1, e2, _⟩ := ce
    intro v hv hl e hm
    rw [e1] at hv; rw [e2] at hm
    exact h v hv hl e hm
  | drop v0 hv0 hleaf =>
    intro v hv hl e hm
    simp only [indexRemove, deleteVertex, List.mem_filter] at hv hm
    exact h v hv.1 hl e hm.1
  | insert v0 es ok hes hcomp hzero =>
    intro v hv hl e hm
    simp only [List.mem_append, List.mem_singleton] at hv hm
    rcases hv with hv | rfl
    · rcases hm with hm | hm
      · exact h v hv hl e hm
      · -- new edges point to the fresh vertex
        have := (hes e hm).1
        intro e2
        have hlive := (hasVertex_iff b v0.hash).mpr ⟨v, hv, by rw [← e2, this]⟩
        rw [ok.freshV] at hlive; cases hlive
    · rcases hm with hm | hm
      · -- old edges end in live vertices, the new vertex is fresh
        intro e2
        have := (he.live e hm).2.1
        rw [e2, ok.freshV] at this; cases this
      · rw [hzero hl] at hm; cases hm
  | unlink hx hfresh =>
    intro v hv hl e hm
    simp only [List.mem_filter] at hm
    exact h v hv hl e hm.1

theorem RootsBare.steps {b b' : Book} (h : RootsBare b) (he : EdgeInv b) (s : Steps b b') : RootsBare b' := by
  induction s with
  | refl => exact h
  | tail s t ih => exact ih.tr (he.steps s) t

theorem Reachable.rootsBare {b : Book} (r : Reachable b) : RootsBare b := by
  induction r with
  | init self => intro v hv; cases hv
  | @genesis b0 _ _ _ _ _ r0 hv hc hi hpk hcf h _ =>
    obtain ⟨_, _, _, _, _, _, _, _, e4, _⟩ := createGenesis_ok h
    intro v _ _ e hm
    have hnone : ∀ b0 : Book, b0.verts = [] → EdgeInv b0 → b0.edges = [] := by
      intro b0 h0 hi0
      cases hq : b0.edges with
      | nil => rfl
      | cons x xs =>
        have := (hi0.live x (by rw [hq]; exact List.mem_cons_self)).1
        rw [(hasVertex_iff b0 x.1)] at this
        obtain ⟨w, hw, _⟩ := this
        rw [h0] at hw; cases hw
    rw [e4, hnone b0 hv r0.edgeInv] at hm
    cases hm
  | createLeaf trx o1 o2 tip r0 hf ih => exact ih.steps r0.edgeInv (steps_createLeaf _ trx o1 o2 tip hf)
  | addLeaf v r0 ih => exact ih.steps r0.edgeInv (steps_addLeaf _ v)
  | @retry b r0 ih => exact ih.steps r0.edgeInv (steps_retryParked _ r0.inv.parkOk)
  | trust a r0 ih => exact ih.tr r0.edgeInv (Tr.misc (coreEq_addTrusted _ a))
  | untrust a r0 ih => exact ih.tr r0.edgeInv (Tr.misc (coreEq_removeTrusted _ a))
  | steps r0 s ih => exact ih.steps r0.edgeInv s
  | @truncate b cut r0 ih =>
    cases hr : (b.truncateAt cut).2 with
    | error e => rw [truncateAt_err hr]; exact ih
    | ok u =>
      have hok : (b.truncateAt cut).2 = .ok () := hr
      obtain ⟨mv, _, _, _, _, hverts, _⟩ := truncateAt_ok hok
      have hedges : ∀ e ∈ (b.truncateAt cut).1.edges, e ∈ b.edges := by
        intro e hm
        unfold truncateAt at hm
        have hc : b.hasVertex cut = true := by
          cases hh : b.hasVertex cut with
          | true => rfl
          | false => unfold truncateAt at hok; simp [hh] at hok
        simp only [hc, Bool.not_true, Bool.false_eq_true, ↓reduceIte] at hm
        cases hcm : collectMoved b (b.ancestors cut) [] with
        | error e' => unfold truncateAt at hok; simp [hc, hcm] at hok
        | ok mv' =>
          rw [hcm] at hm
          simp only at hm
          rw [(foldl_deleteVertex _ _).2.1] at hm
          exact (List.mem_filter.mp hm).1
      intro v hv hl e hm
      rw [hverts] at hv
      exact ih v (List.mem_filter.mp hv).1 hl e (hedges e hm)

end CModel.Book
