import Proofs.LedgerTr
/-! C03: the index invariant is preserved by every transition of the abstract system. -/
namespace CModel.Book
open CModel

def allV (b : Book) : List Vertex := b.verts ++ b.cpVerts

structure IndexInv (b : Book) : Prop where
  nodupV : ((allV b).map (·.hash)).Nodup
  nodupT : ((allV b).map (·.trx.hash)).Nodup
  nodupI : (b.index.map (·.1)).Nodup
  holders : ∀ v ∈ allV b, (v.trx.hash, v.hash) ∈ b.index
  noDangling : ∀ e ∈ b.index, ∃ v ∈ allV b, v.hash = e.2 ∧ v.trx.hash = e.1

theorem nodup_map_inj {α β} {f : α → β} {l : List α} (h : (l.map f).Nodup) {x y : α}
    (hx : x ∈ l) (hy : y ∈ l) (hf : f x = f y) : x = y := by
  induction l with
  | nil => cases hx
  | cons a l ih =>
    simp only [List.map_cons, List.nodup_cons, List.mem_map, not_exists, not_and] at h
    rcases List.mem_cons.1 hx with hxa | hxl
    · rcases List.mem_cons.1 hy with hya | hyl
      · rw [hxa, hya]
      · subst hxa; exact absurd hf.symm (h.1 y hyl)
    · rcases List.mem_cons.1 hy with hya | hyl
      · subst hya; exact absurd hf (h.1 x hxl)
      · exact ih h.2 hxl hyl

theorem map_filter_sublist {α β} (f : α → β) (p : α → Bool) (l l2 : List α) :
    ((l.filter p ++ l2).map f).Sublist ((l ++ l2).map f) := by
  simp only [List.map_append]
  exact List.Sublist.append (List.Sublist.map f List.filter_sublist) (List.Sublist.refl _)

theorem IndexInv.congr {b b' : Book} (h : IndexInv b) (h1 : b'.verts = b.verts) (h4 : b'.cpVerts = b.cpVerts)
    (h3 : b'.index = b.index) : IndexInv b' := by
  constructor
  · unfold allV; rw [h1, h4]; exact h.nodupV
  · unfold allV; rw [h1, h4]; exact h.nodupT
  · rw [h3]; exact h.nodupI
  · unfold allV; rw [h1, h4, h3]; exact h.holders
  · unfold allV; rw [h1, h4, h3]; exact h.noDangling

theorem IndexInv.misc {b b' : Book} (h : IndexInv b) (c : CoreEq b b') : IndexInv b' :=
  h.congr c.1 c.2.2.2.1 c.2.2.1

theorem IndexInv.drop {b : Book} (h : IndexInv b) (v : Vertex) (hv : v ∈ b.verts) :
    IndexInv ((b.deleteVertex v.hash).indexRemove v.trx.hash) := by
  have hvAll : v ∈ allV b := List.mem_append_left _ hv
  constructor
  · exact List.Nodup.sublist (map_filter_sublist _ _ _ _) h.nodupV
  · exact List.Nodup.sublist (map_filter_sublist _ _ _ _) h.nodupT
  · simp only [indexRemove_index]
    exact List.Nodup.sublist (List.Sublist.map _ List.filter_sublist) h.nodupI
  · intro x hx
    simp only [allV, indexRemove_verts, deleteVertex_verts, indexRemove_cpVerts, deleteVertex_cpVerts,
      List.mem_append, List.mem_filter, bne_iff_ne, ne_eq] at hx
    have hxAll : x ∈ allV b := by
      rcases hx with hx | hx
      · exact List.mem_append_left _ hx.1
      · exact List.mem_append_right _ hx
    have hne : x ≠ v := by
      rcases hx with hx | hx
      · intro e; exact hx.2 (by rw [e])
      · intro e; subst e
        -- v would be both live and checkpointed: its hash would occur twice
        have := h.nodupV
        simp only [allV, List.map_append] at this
        have hd := (List.nodup_append.1 this).2.2 x.hash (List.mem_map_of_mem hv) x.hash (List.mem_map_of_mem hx)
        exact hd rfl
    simp only [indexRemove_index, deleteVertex_index, List.mem_filter, bne_iff_ne, ne_eq]
    refine ⟨h.holders x hxAll, ?_⟩
    intro e
    exact hne (nodup_map_inj h.nodupT hxAll hvAll e)
  · intro e he
    simp only [indexRemove_index, deleteVertex_index, List.mem_filter, bne_iff_ne, ne_eq] at he
    obtain ⟨x, hx, h1, h2⟩ := h.noDangling e he.1
    refine ⟨x, ?_, h1, h2⟩
    have hne : x ≠ v := by intro e'; subst e'; exact he.2 h2.symm
    simp only [allV, indexRemove_verts, deleteVertex_verts, indexRemove_cpVerts, deleteVertex_cpVerts,
      List.mem_append, List.mem_filter, bne_iff_ne, ne_eq]
    rcases List.mem_append.1 hx with hx' | hx'
    · exact Or.inl ⟨hx', fun e' => hne (nodup_map_inj h.nodupV hx hvAll e')⟩
    · exact Or.inr hx'

theorem IndexInv.insert {b : Book} (h : IndexInv b) (v : Vertex) (es : List (Hash × Hash)) (ok : InsertOK b v) :
    IndexInv { b with index := b.index ++ [(v.trx.hash, v.hash)], verts := b.verts ++ [v], edges := b.edges ++ es } := by
  have hfV : ∀ x ∈ allV b, x.hash ≠ v.hash := by
    intro x hx e
    rcases List.mem_append.1 hx with hx | hx
    · have := ok.freshV; simp only [hasVertex, List.any_eq_false, beq_iff_eq] at this; exact this x hx e
    · have := ok.freshCp; simp only [cpHasVertex, List.any_eq_false, beq_iff_eq] at this; exact this x hx e
  have hfT : ∀ x ∈ allV b, x.trx.hash ≠ v.trx.hash := by
    intro x hx e
    have := ok.freshT; simp only [indexHas, List.any_eq_false, beq_iff_eq] at this
    exact this _ (h.holders x hx) e
  have hmem : ∀ x, x ∈ allV { b with index := b.index ++ [(v.trx.hash, v.hash)], verts := b.verts ++ [v], edges := b.edges ++ es } ↔
      x ∈ allV b ∨ x = v := by
    intro x; simp only [allV, List.mem_append, List.mem_cons, List.mem_nil_iff, or_false]
    constructor
    · rintro ((h | h) | h)
      · exact Or.inl (Or.inl h)
      · exact Or.inr h
      · exact Or.inl (Or.inr h)
    · rintro ((h | h) | h)
      · exact Or.inl (Or.inl h)
      · exact Or.inr h
      · exact Or.inl (Or.inr h)
  constructor
  · simp only [allV, List.map_append, List.map_cons, List.map_nil]
    have := h.nodupV; simp only [allV, List.map_append] at this
    obtain ⟨n1, n2, n3⟩ := List.nodup_append.1 this
    refine List.nodup_append.2 ⟨List.nodup_append.2 ⟨n1, by simp, ?_⟩, n2, ?_⟩
    · intro a ha c hc e; simp only [List.mem_cons, List.mem_nil_iff, or_false] at hc; subst hc
      obtain ⟨x, hx, rfl⟩ := List.mem_map.1 ha
      exact hfV x (List.mem_append_left _ hx) e
    · intro a ha c hc e
      rcases List.mem_append.1 ha with ha | ha
      · exact n3 a ha c hc e
      · simp only [List.mem_cons, List.mem_nil_iff, or_false] at ha; subst ha
        obtain ⟨x, hx, rfl⟩ := List.mem_map.1 hc
        exact hfV x (List.mem_append_right _ hx) e.symm
  · simp only [allV, List.map_append, List.map_cons, List.map_nil]
    have := h.nodupT; simp only [allV, List.map_append] at this
    obtain ⟨n1, n2, n3⟩ := List.nodup_append.1 this
    refine List.nodup_append.2 ⟨List.nodup_append.2 ⟨n1, by simp, ?_⟩, n2, ?_⟩
    · intro a ha c hc e; simp only [List.mem_cons, List.mem_nil_iff, or_false] at hc; subst hc
      obtain ⟨x, hx, rfl⟩ := List.mem_map.1 ha
      exact hfT x (List.mem_append_left _ hx) e
    · intro a ha c hc e
      rcases List.mem_append.1 ha with ha | ha
      · exact n3 a ha c hc e
      · simp only [List.mem_cons, List.mem_nil_iff, or_false] at ha; subst ha
        obtain ⟨x, hx, rfl⟩ := List.mem_map.1 hc
        exact hfT x (List.mem_append_right _ hx) e.symm
  · simp only [List.map_append, List.map_cons, List.map_nil]
    refine List.nodup_append.2 ⟨h.nodupI, by simp, ?_⟩
    intro a ha c hc e; simp only [List.mem_cons, List.mem_nil_iff, or_false] at hc; subst hc
    obtain ⟨x, hx, rfl⟩ := List.mem_map.1 ha
    have := ok.freshT; simp only [indexHas, List.any_eq_false, beq_iff_eq] at this
    exact this x hx e
  · intro x hx
    rcases (hmem x).1 hx with hx | rfl
    · exact List.mem_append_left _ (h.holders x hx)
    · simp
  · intro e he
    simp only [List.mem_append, List.mem_cons, List.mem_nil_iff, or_false] at he
    rcases he with he | rfl
    · obtain ⟨x, hx, h1, h2⟩ := h.noDangling e he
      exact ⟨x, (hmem x).2 (Or.inl hx), h1, h2⟩
    · exact ⟨v, (hmem v).2 (Or.inr rfl), rfl, rfl⟩

theorem IndexInv.tr {b b' : Book} (h : IndexInv b) (t : Tr b b') : IndexInv b' := by
  cases t with
  | misc c => exact h.misc c
  | drop v hv => exact h.drop v hv
  | insert v es ok hes hcomp hzero => exact h.insert v es ok
  | unlink x hx => exact h.congr rfl rfl rfl

theorem IndexInv.steps {b b' : Book} (h : IndexInv b) (s : Steps b b') : IndexInv b' := by
  induction s with
  | refl => exact h
  | tail _ t ih => exact ih.tr t

end CModel.Book
