import Proofs.BfsComplete
import Proofs.TruncFunds
/-! C07: a truncation does not change the balance seen from any tip that descends from the cut. -/
namespace CModel.Book
open CModel CModel.Melange

theorem Anc.trans {es : List (Hash × Hash)} {x y z : Hash} (a : Anc es x y) (c : Anc es y z) : Anc es x z := by
  induction a with
  | base he => exact Anc.step he c
  | step he _ ih => exact Anc.step he (ih c)

theorem Anc.mono {es es' : List (Hash × Hash)} (hs : ∀ e ∈ es, e ∈ es') {x y : Hash} (a : Anc es x y) : Anc es' x y := by
  induction a with
  | base he => exact Anc.base (hs _ he)
  | step he _ ih => exact Anc.step (hs _ he) ih

/-- a path that starts outside a down-closed set `M` and ends outside it never touches `M`:
it survives the removal of every edge with an endpoint in `M` -/
theorem Anc.avoid {es : List (Hash × Hash)} (M : Hash → Prop)
    (hdown : ∀ x y, Anc es x y → M y → M x) {x t : Hash} (a : Anc es x t) (hx : ¬ M x) (ht : ¬ M t)
    (es' : List (Hash × Hash)) (hes' : ∀ e ∈ es, ¬ M e.1 → ¬ M e.2 → e ∈ es') : Anc es' x t := by
  induction a with
  | base he => exact Anc.base (hes' _ he hx ht)
  | @step x y t he a' ih =>
    have hy : ¬ M y := fun hm => hx (hdown x y (Anc.base he) hm)
    exact Anc.step (hes' _ he hx hy) (ih hy ht)

end CModel.Book

namespace CModel.Book
open CModel CModel.Melange

theorem mem_walk_iff (b : Book) (he : EdgeInv b) (hnd : (b.verts.map (·.hash)).Nodup) (t v : Vertex) :
    v ∈ walk b t ↔ v = t ∨ (v ∈ b.verts ∧ Anc b.edges v.hash t.hash) := by
  have hlive : ∀ e ∈ b.edges, b.hasVertex e.1 = true := fun e hm => (he.live e hm).1
  unfold walk visited
  simp only [List.mem_cons, List.mem_filterMap]
  constructor
  · rintro (h | ⟨x, hx, hg⟩)
    · exact Or.inl h
    · obtain ⟨hv, hh⟩ := getVertex_some hg
      exact Or.inr ⟨hv, by rw [hh]; exact (mem_ancestors_iff b hlive t.hash x).mp hx⟩
  · rintro (h | ⟨hv, ha⟩)
    · exact Or.inl h
    · exact Or.inr ⟨v.hash, (mem_ancestors_iff b hlive t.hash v.hash).mpr ha, getVertex_of_mem hnd hv⟩

theorem walk_nodup (b : Book) (he : EdgeInv b) (hnd : (b.verts.map (·.hash)).Nodup) (t : Vertex) :
    (walk b t).Nodup := by
  have hlive : ∀ e ∈ b.edges, b.hasVertex e.1 = true := fun e hm => (he.live e hm).1
  unfold walk visited
  rw [List.nodup_cons]
  constructor
  · intro hm
    obtain ⟨x, hx, hg⟩ := List.mem_filterMap.mp hm
    obtain ⟨_, hh⟩ := getVertex_some hg
    have ha := (mem_ancestors_iff b hlive t.hash x).mp hx
    rw [← hh] at ha
    obtain ⟨rank, hr⟩ := he.acyclic
    have := ha.rank hr
    omega
  · apply nodup_filterMap_inj _ _ (ancestors_nodup b t.hash)
    intro a a' v h1 h2
    rw [← (getVertex_some h1).2, ← (getVertex_some h2).2]

theorem truncateAt_edges {b : Book} {cut : Hash} (hok : (b.truncateAt cut).2 = .ok ()) :
    (b.truncateAt cut).1.edges = b.edges.filter (fun e => !(b.ancestors cut).contains e.1 && !(b.ancestors cut).contains e.2) := by
  unfold truncateAt
  have hc : b.hasVertex cut = true := by
    cases hh : b.hasVertex cut with
    | true => rfl
    | false => unfold truncateAt at hok; simp [hh] at hok
  simp only [hc, Bool.not_true, Bool.false_eq_true, ↓reduceIte]
  cases hcm : collectMoved b (b.ancestors cut) [] with
  | error e => unfold truncateAt at hok; simp [hc, hcm] at hok
  | ok mv' => simp only; exact (foldl_deleteVertex _ _).2.1

end CModel.Book

namespace CModel.Book
open CModel CModel.Melange

theorem walk_split (b : Book) (he : EdgeInv b) (hnd : (b.verts.map (·.hash)).Nodup) (cut : Hash)
    (hok : (b.truncateAt cut).2 = .ok ()) (mv : List Vertex) (hmv : mv.map (·.hash) = b.ancestors cut)
    (hin : ∀ v ∈ mv, v ∈ b.verts)
    (hverts : (b.truncateAt cut).1.verts = b.verts.filter (fun v => !(b.ancestors cut).contains v.hash))
    (t : Vertex) (ht : t ∈ (b.truncateAt cut).1.verts) (hdesc : t.hash = cut ∨ Anc b.edges cut t.hash) :
    (walk b t).Perm (walk (b.truncateAt cut).1 t ++ mv) := by
  have hlive : ∀ e ∈ b.edges, b.hasVertex e.1 = true := fun e hm => (he.live e hm).1
  have he' : EdgeInv (b.truncateAt cut).1 := he.truncate cut
  have hnd' : ((b.truncateAt cut).1.verts.map (·.hash)).Nodup := by
    rw [hverts]; exact (List.filter_sublist.map _).nodup hnd
  have hedges := truncateAt_edges hok
  have unmoved : ∀ v, v ∈ (b.truncateAt cut).1.verts ↔ (v ∈ b.verts ∧ v.hash ∉ b.ancestors cut) := by
    intro v; rw [hverts]; simp [List.mem_filter]
  have htb : t ∈ b.verts ∧ t.hash ∉ b.ancestors cut := (unmoved t).mp ht
  have hMdown : ∀ x y, Anc b.edges x y → y ∈ b.ancestors cut → x ∈ b.ancestors cut := by
    intro x y a hy
    exact (mem_ancestors_iff b hlive cut x).mpr (a.trans ((mem_ancestors_iff b hlive cut y).mp hy))
  have hmvNd : mv.Nodup := nodup_of_nodup_map (·.hash) (by rw [hmv]; exact ancestors_nodup b cut)
  have memMv : ∀ v, v ∈ mv ↔ (v ∈ b.verts ∧ v.hash ∈ b.ancestors cut) := by
    intro v
    constructor
    · intro hv; exact ⟨hin v hv, by rw [← hmv]; exact List.mem_map.mpr ⟨v, hv, rfl⟩⟩
    · rintro ⟨hv, hh⟩
      rw [← hmv] at hh
      obtain ⟨w, hw, hwh⟩ := List.mem_map.mp hh
      rw [← same_hash_eq hnd (hin w hw) hv hwh]; exact hw
  apply (List.perm_ext_iff_of_nodup (walk_nodup b he hnd t) ?_).mpr
  · intro v
    rw [mem_walk_iff b he hnd, List.mem_append, mem_walk_iff _ he' hnd', memMv]
    constructor
    · rintro (h | ⟨hv, ha⟩)
      · exact Or.inl (Or.inl h)
      · by_cases hm : v.hash ∈ b.ancestors cut
        · exact Or.inr ⟨hv, hm⟩
        · left; right
          refine ⟨(unmoved v).mpr ⟨hv, hm⟩, ?_⟩
          apply Anc.avoid (fun x => x ∈ b.ancestors cut) hMdown ha hm htb.2
          intro e hem h1 h2
          rw [hedges]
          exact List.mem_filter.mpr ⟨hem, by simp [h1, h2]⟩
    · rintro ((h | ⟨hv, ha⟩) | ⟨hv, hm⟩)
      · exact Or.inl h
      · right
        refine ⟨((unmoved v).mp hv).1, ?_⟩
        apply Anc.mono _ ha
        intro e hem
        rw [hedges] at hem
        exact (List.mem_filter.mp hem).1
      · right
        refine ⟨hv, ?_⟩
        have hac := (mem_ancestors_iff b hlive cut v.hash).mp hm
        rcases hdesc with h1 | h1
        · rw [h1]; exact hac
        · exact hac.trans h1
  · rw [List.nodup_append]
    refine ⟨walk_nodup _ he' hnd' t, hmvNd, ?_⟩
    intro x hx y hy e
    subst e
    have hm := ((memMv x).mp hy).2
    rcases (mem_walk_iff _ he' hnd' t x).mp hx with h1 | ⟨h1, _⟩
    · rw [h1] at hm; exact htb.2 hm
    · exact ((unmoved x).mp h1).2 hm

end CModel.Book

namespace CModel.Book
open CModel CModel.Melange

theorem inflow_append (a : Addr) (l l' : List Vertex) : inflow a (l ++ l') = inflow a l + inflow a l' := by
  unfold inflow; simp [List.map_append, List.sum_append]
theorem outflow_append (a : Addr) (l l' : List Vertex) : outflow a (l ++ l') = outflow a l + outflow a l' := by
  unfold outflow; simp [List.map_append, List.sum_append]

/-- a successful balance query means every partial sum it formed was representable -/
theorem calculateBalance_ok_bounds {b : Book} (h : FundsOK b) (tip : Vertex) (htip : Canon tip.trx.spice) (a : Addr) (m : Melange)
    (hm : b.calculateBalance tip a = .ok m) :
    inflow a (walk b tip) < capacity ∧ outflow a (walk b tip) < capacity ∧ cpVal b a + inflow a (walk b tip) < capacity := by
  unfold calculateBalance at hm
  rcases walkFunds_cases b a tip (Melange.zero, Melange.zero) id none h.verts htip canon_zero canon_zero with
    ⟨io, hw, e1, e2, c1, c2, _⟩ | ⟨e, hw, _⟩
  · rw [hw] at hm
    simp only at hm
    have e1' : val io.1 = inflow a (walk b tip) := by simpa [val_zero] using e1
    have e2' : val io.2 = outflow a (walk b tip) := by simpa [val_zero] using e2
    refine ⟨by rw [← e1']; exact val_lt_capacity _ c1, by rw [← e2']; exact val_lt_capacity _ c2, ?_⟩
    unfold balFinish at hm
    rcases supply_cases ((b.cpFundsGet a).getD Melange.zero) io.1 (cpFunds_canon h a) c1 with ⟨s1, hs1, hs1v, hs1c⟩ | ⟨hs1, _⟩
    · have := val_lt_capacity s1 hs1c
      unfold cpVal
      omega
    · rw [hs1] at hm; simp at hm
  · rw [hw] at hm; cases hm

end CModel.Book
