import CModel.Notary
import Proofs.TxProofs
/-! C16 helper lemmas: frame properties of the cache-list bookkeeping, characterisation of the awaiting
store operations and of `sealTrx`, and the invariant carried through every notary call. -/
namespace CModel.Notary
open CModel.Tx

/-! ### list bookkeeping only touches `lists` -/
@[simp] theorem setList_awaiting (s : St) (a : Bytes) (v : Tokens) : (setList s a v).awaiting = s.awaiting := rfl
@[simp] theorem setList_sealed (s : St) (a : Bytes) (v : Tokens) : (setList s a v).sealed = s.sealed := rfl
@[simp] theorem setList_chal (s : St) (a : Bytes) (v : Tokens) : (setList s a v).chal = s.chal := rfl
@[simp] theorem setList_flash (s : St) (a : Bytes) (v : Tokens) : (setList s a v).flash = s.flash := rfl
@[simp] theorem delList_awaiting (s : St) (a : Bytes) : (delList s a).awaiting = s.awaiting := rfl
@[simp] theorem delList_sealed (s : St) (a : Bytes) : (delList s a).sealed = s.sealed := rfl
@[simp] theorem delList_chal (s : St) (a : Bytes) : (delList s a).chal = s.chal := rfl
@[simp] theorem delList_flash (s : St) (a : Bytes) : (delList s a).flash = s.flash := rfl

/-- the four components other than `lists` -/
def core (s : St) : List TrxB × List TrxB × List (Bytes × Bytes × Bool) × List Bytes := (s.awaiting, s.sealed, s.chal, s.flash)

@[simp] theorem core_setList (s : St) (a : Bytes) (v : Tokens) : core (setList s a v) = core s := rfl
@[simp] theorem core_delList (s : St) (a : Bytes) : core (delList s a) = core s := rfl

@[simp] theorem core_saveAddr (s : St) (a h : Bytes) : core (saveAddr s a h) = core s := by
  unfold saveAddr; split <;> simp

@[simp] theorem core_removeAddr (s : St) (a h : Bytes) : core (removeAddr s a h) = core s := by
  unfold removeAddr; split
  · rfl
  · split <;> simp

theorem core_foldl_saveAddr (as : List Bytes) (h : Bytes) (s : St) :
    core (as.foldl (fun s a => saveAddr s a h) s) = core s := by
  induction as generalizing s with
  | nil => rfl
  | cons a as ih => simp [List.foldl, ih]

theorem core_foldl_removeAddr (as : List Bytes) (h : Bytes) (s : St) :
    core (as.foldl (fun s a => removeAddr s a h) s) = core s := by
  induction as generalizing s with
  | nil => rfl
  | cons a as ih => simp [List.foldl, ih]

theorem core_cleanup (hs : List Bytes) (a : Bytes) (s : St) :
    core (hs.foldl (fun s h => match getList s a with
      | none => s
      | some w => if w == [none] then s else setList s a (tRemove w h)) s) = core s := by
  induction hs generalizing s with
  | nil => rfl
  | cons h hs ih =>
    simp only [List.foldl]
    rw [ih]
    split
    · rfl
    · split <;> simp

theorem core_eq {s s' : St} (h : core s' = core s) :
    s'.awaiting = s.awaiting ∧ s'.sealed = s.sealed ∧ s'.chal = s.chal ∧ s'.flash = s.flash := by
  unfold core at h
  simp only [Prod.mk.injEq] at h
  exact h

/-! ### awaiting store -/
theorem findAwaiting_some {s : St} {h : Bytes} {t : TrxB} (e : findAwaiting s h = some t) : t ∈ s.awaiting ∧ t.hash = h := by
  unfold findAwaiting at e
  refine ⟨List.mem_of_find?_eq_some e, ?_⟩
  have := List.find?_some e
  simpa using this

theorem findAwaiting_none {s : St} {h : Bytes} (e : findAwaiting s h = none) : ∀ t ∈ s.awaiting, t.hash ≠ h := by
  unfold findAwaiting at e
  intro t ht
  have := List.find?_eq_none.mp e t ht
  simpa using this

theorem removeAwaiting_removed {s s1 : St} {h a : Bytes} {t : TrxB} (e : removeAwaiting s h a = .removed t s1) :
    t ∈ s.awaiting ∧ t.hash = h ∧ t.receiver = a ∧ s1.awaiting = s.awaiting.filter (·.hash != h) ∧
    s1.sealed = s.sealed ∧ s1.chal = s.chal ∧ s1.flash = s.flash := by
  unfold removeAwaiting at e
  split at e
  · cases e
  · rename_i t0 hf
    split at e
    · cases e
    · rename_i hr
      injection e with e1 e2
      subst e1
      obtain ⟨hm, hh⟩ := findAwaiting_some hf
      have hc := core_eq (core_foldl_removeAddr [t0.issuer, t0.receiver] h { s with awaiting := s.awaiting.filter (·.hash != h) })
      rw [e2] at hc
      refine ⟨hm, hh, by simpa using hr, hc.1, hc.2.1, hc.2.2.1, hc.2.2.2⟩

theorem removeAwaiting_other {s : St} {h a : Bytes} :
    (removeAwaiting s h a = .notFound) ∨ (removeAwaiting s h a = .unauthorized) ∨ ∃ t s1, removeAwaiting s h a = .removed t s1 := by
  unfold removeAwaiting
  split
  · exact Or.inl rfl
  · split
    · exact Or.inr (Or.inl rfl)
    · exact Or.inr (Or.inr ⟨_, _, rfl⟩)

theorem saveAwaiting_some {s s' : St} {t : TrxB} (e : saveAwaiting s t = some s') :
    (∀ x ∈ s.awaiting, x.hash ≠ t.hash) ∧ s'.awaiting = s.awaiting ++ [t] ∧ s'.sealed = s.sealed ∧ s'.chal = s.chal ∧ s'.flash = s.flash := by
  unfold saveAwaiting at e
  split at e
  · cases e
  · rename_i hf
    injection e with e
    have hc := core_eq (core_foldl_saveAddr (if t.issuer == t.receiver then [t.receiver] else [t.issuer, t.receiver]) t.hash
      { s with awaiting := s.awaiting ++ [t] })
    rw [e] at hc
    exact ⟨findAwaiting_none hf, hc.1, hc.2.1, hc.2.2.1, hc.2.2.2⟩

theorem readAwaiting_core (s : St) (a : Bytes) : core (readAwaiting s a).1 = core s := by
  unfold readAwaiting
  split
  · rfl
  · split
    · simp
    · exact core_cleanup _ _ _

theorem sealTrx_some {s s' : St} {t : TrxB} {lo : Bool} (e : sealTrx s t lo = some s') :
    isSealed s t.hash = false ∧ lo = true ∧ s'.sealed = t :: s.sealed ∧ s'.awaiting = s.awaiting ∧ s'.chal = s.chal := by
  unfold sealTrx at e
  split at e
  · cases e
  · rename_i h
    injection e with e
    subst e
    simp only [Bool.or_eq_true, Bool.not_eq_eq_eq_not, Bool.not_true, not_or, Bool.not_eq_true, Bool.not_eq_false] at h
    exact ⟨h.1, h.2, rfl, rfl, rfl⟩

theorem sealRej_some {s s' : St} {t : TrxB} {lo : Bool} (e : sealRej s t lo = some s') :
    isSealed s t.hash = false ∧ lo = true ∧ s'.sealed = t :: s.sealed ∧ s'.awaiting = s.awaiting ∧ s'.chal = s.chal := by
  unfold sealRej at e
  split at e
  · cases e
  · rename_i h
    injection e with e
    subst e
    simp only [Bool.or_eq_true, Bool.not_eq_eq_eq_not, Bool.not_true, not_or, Bool.not_eq_true, Bool.not_eq_false] at h
    exact ⟨h.1, h.2, rfl, rfl, rfl⟩

theorem isSealed_false {s : St} {h : Bytes} (e : isSealed s h = false) : ∀ t ∈ s.sealed, t.hash ≠ h := by
  unfold isSealed at e
  intro t ht hh
  have := List.any_eq_false.mp e t ht
  simp [hh] at this

end CModel.Notary

namespace CModel.Notary
open CModel.Tx

/-- The receiver acted on transaction `t`: either `t` itself carries a receiver signature that verifies
(confirmation), or an earlier `reject` request for `t`'s hash was signed by the key of `t`'s receiver. -/
def Justified (c : Cfg) (past : List Op) (t : TrxB) : Prop :=
  verifyIssuerReceiver c.o t = true ∨
  ∃ r lo, Op.reject r lo ∈ past ∧ r.data = t.hash ∧ r.address = t.receiver ∧ verifySH c r = true

theorem Justified.mono {c : Cfg} {past : List Op} {t : TrxB} (op : Op) (h : Justified c past t) : Justified c (past ++ [op]) t := by
  rcases h with h | ⟨r, lo, hm, h⟩
  · exact Or.inl h
  · exact Or.inr ⟨r, lo, List.mem_append_left _ hm, h⟩

/-- Invariant of the notary state after the calls `past`, starting from a ledger that held `base`. -/
structure Inv (c : Cfg) (base : List TrxB) (past : List Op) (s : St) : Prop where
  awaitingVerified : ∀ t ∈ s.awaiting, verifyIssuer c.o t = true ∧ t.data ≠ []
  sealedJustified : ∀ t ∈ s.sealed, t ∈ base ∨ (verifyIssuer c.o t = true ∧ (t.data ≠ [] → Justified c past t))
  sealedOnce : (s.sealed.map (·.hash)).Nodup
  awaitingOnce : (s.awaiting.map (·.hash)).Nodup

theorem Inv.past_mono {c : Cfg} {base : List TrxB} {past : List Op} {s : St} (op : Op) (h : Inv c base past s) :
    Inv c base (past ++ [op]) s :=
  ⟨h.awaitingVerified, fun t ht => (h.sealedJustified t ht).imp id (fun ⟨a, b⟩ => ⟨a, fun hd => (b hd).mono op⟩), h.sealedOnce, h.awaitingOnce⟩

/-- states that differ from `s` only in `lists`, `chal`, `flash` -/
theorem Inv.of_same {c : Cfg} {base : List TrxB} {past : List Op} {s s' : St} (h : Inv c base past s)
    (ha : s'.awaiting = s.awaiting) (hs : s'.sealed = s.sealed) : Inv c base past s' :=
  ⟨by rw [ha]; exact h.awaitingVerified, by rw [hs]; exact h.sealedJustified, by rw [hs]; exact h.sealedOnce, by rw [ha]; exact h.awaitingOnce⟩

theorem nodup_cons_hash {l : List TrxB} {t : TrxB} (hn : (l.map (·.hash)).Nodup) (hf : ∀ x ∈ l, x.hash ≠ t.hash) :
    ((t :: l).map (·.hash)).Nodup := by
  simp only [List.map_cons, List.nodup_cons]
  refine ⟨?_, hn⟩
  intro hm
  obtain ⟨x, hx, he⟩ := List.mem_map.mp hm
  exact hf x hx he

theorem nodup_append_hash {l : List TrxB} {t : TrxB} (hn : (l.map (·.hash)).Nodup) (hf : ∀ x ∈ l, x.hash ≠ t.hash) :
    ((l ++ [t]).map (·.hash)).Nodup := by
  rw [List.map_append, List.nodup_append]
  refine ⟨hn, by simp, ?_⟩
  intro a ha b hb
  simp only [List.map_cons, List.map_nil, List.mem_singleton] at hb
  obtain ⟨x, hx, he⟩ := List.mem_map.mp ha
  rw [hb, ← he]
  exact hf x hx

theorem nodup_filter_hash {l : List TrxB} (p : TrxB → Bool) (hn : (l.map (·.hash)).Nodup) : ((l.filter p).map (·.hash)).Nodup :=
  (List.filter_sublist.map _).nodup hn

theorem mem_same_hash_eq {l : List TrxB} (hn : (l.map (·.hash)).Nodup) {x y : TrxB} (hx : x ∈ l) (hy : y ∈ l)
    (e : x.hash = y.hash) : x = y := by
  induction l with
  | nil => cases hx
  | cons a l ih =>
    simp only [List.map_cons, List.nodup_cons] at hn
    rcases List.mem_cons.mp hx with hx' | hx' <;> rcases List.mem_cons.mp hy with hy' | hy'
    · rw [hx', hy']
    · subst hx'; exact absurd (List.mem_map.mpr ⟨y, hy', e.symm⟩) hn.1
    · subst hy'; exact absurd (List.mem_map.mpr ⟨x, hx', e⟩) hn.1
    · exact ih hn.2 hx' hy'

theorem verifyIssuerReceiver_issuer {o : Ops} {t : TrxB} (h : verifyIssuerReceiver o t = true) : verifyIssuer o t = true := by
  unfold verifyIssuerReceiver at h
  rw [Bool.and_eq_true] at h
  exact h.1

theorem inv_propose {c : Cfg} {base : List TrxB} {past : List Op} {s : St} (t : TrxB) (lo : Bool) (h : Inv c base past s) :
    Inv c base (past ++ [.propose t lo]) (propose c s t lo).1 := by
  have h := h.past_mono (.propose t lo)
  unfold propose
  by_cases hv : verifyIssuer c.o t = true
  · simp only [hv, Bool.not_true, Bool.false_eq_true, ↓reduceIte]
    by_cases hd : t.data.isEmpty = true
    · simp only [hd, Bool.not_true, Bool.false_eq_true, ↓reduceIte]
      cases hs : sealTrx s t lo with
      | none => exact h
      | some s' =>
        obtain ⟨hns, _, e1, e2, _⟩ := sealTrx_some hs
        refine ⟨by rw [e2]; exact h.awaitingVerified, ?_, by rw [e1]; exact nodup_cons_hash h.sealedOnce (isSealed_false hns), by rw [e2]; exact h.awaitingOnce⟩
        intro x hx
        rw [e1] at hx
        rcases List.mem_cons.mp hx with rfl | hx
        · exact Or.inr ⟨hv, fun hne => absurd (List.isEmpty_iff.mp hd) hne⟩
        · exact h.sealedJustified x hx
    · simp only [hd, Bool.not_false, ↓reduceIte]
      split
      · exact h
      · cases hs : saveAwaiting s t with
        | none => exact h
        | some s' =>
          obtain ⟨hf, e1, e2, _, _⟩ := saveAwaiting_some hs
          refine ⟨?_, by rw [e2]; exact h.sealedJustified, by rw [e2]; exact h.sealedOnce, by rw [e1]; exact nodup_append_hash h.awaitingOnce hf⟩
          intro x hx
          rw [e1] at hx
          rcases List.mem_append.mp hx with hx | hx
          · exact h.awaitingVerified x hx
          · simp only [List.mem_singleton] at hx
            subst hx
            exact ⟨hv, fun he => hd (by simp [he])⟩
  · simp only [hv, Bool.not_false, ↓reduceIte]
    exact h

theorem inv_confirm {c : Cfg} {base : List TrxB} {past : List Op} {s : St} (t : TrxB) (lo : Bool) (h : Inv c base past s) :
    Inv c base (past ++ [.confirm t lo]) (confirm c s t lo).1 := by
  have h := h.past_mono (.confirm t lo)
  unfold confirm
  by_cases hv : verifyIssuerReceiver c.o t = true
  · simp only [hv, Bool.not_true, Bool.false_eq_true, ↓reduceIte]
    rcases @removeAwaiting_other s t.hash t.receiver with e | e | ⟨t0, s1, e⟩
    · rw [e]; exact h
    · rw [e]; exact h
    · rw [e]
      dsimp only
      obtain ⟨_, _, _, ea, es, _, _⟩ := removeAwaiting_removed e
      have h1 : Inv c base (past ++ [.confirm t lo]) s1 :=
        ⟨by rw [ea]; intro x hx; exact h.awaitingVerified x (List.mem_filter.mp hx).1, by rw [es]; exact h.sealedJustified,
         by rw [es]; exact h.sealedOnce, by rw [ea]; exact nodup_filter_hash _ h.awaitingOnce⟩
      cases hs : sealTrx s1 t lo with
      | none => exact h1
      | some s2 =>
        obtain ⟨hns, _, e1, e2, _⟩ := sealTrx_some hs
        refine ⟨by rw [e2]; exact h1.awaitingVerified, ?_, by rw [e1]; exact nodup_cons_hash h1.sealedOnce (isSealed_false hns), by rw [e2]; exact h1.awaitingOnce⟩
        intro x hx
        rw [e1] at hx
        rcases List.mem_cons.mp hx with rfl | hx
        · exact Or.inr ⟨verifyIssuerReceiver_issuer hv, fun _ => Or.inl hv⟩
        · exact h1.sealedJustified x hx
  · simp only [hv, Bool.not_false, ↓reduceIte]
    exact h

theorem inv_reject {c : Cfg} {base : List TrxB} {past : List Op} {s : St} (r : SignedHash) (lo : Bool) (h : Inv c base past s) :
    Inv c base (past ++ [.reject r lo]) (reject c s r lo).1 := by
  have h0 := h
  have h := h.past_mono (.reject r lo)
  unfold reject
  by_cases hv : verifySH c r = true
  · simp only [hv, Bool.not_true, Bool.false_eq_true, ↓reduceIte]
    rcases @removeAwaiting_other s r.data r.address with e | e | ⟨t0, s1, e⟩
    · rw [e]; exact h
    · rw [e]; exact h
    · rw [e]
      dsimp only
      obtain ⟨hm, hh, hr, ea, es, _, _⟩ := removeAwaiting_removed e
      have h1 : Inv c base (past ++ [.reject r lo]) s1 :=
        ⟨by rw [ea]; intro x hx; exact h.awaitingVerified x (List.mem_filter.mp hx).1, by rw [es]; exact h.sealedJustified,
         by rw [es]; exact h.sealedOnce, by rw [ea]; exact nodup_filter_hash _ h.awaitingOnce⟩
      cases hs : sealRej s1 t0 lo with
      | none => exact h1
      | some s2 =>
        obtain ⟨hns, _, e1, e2, _⟩ := sealRej_some hs
        refine ⟨by rw [e2]; exact h1.awaitingVerified, ?_, by rw [e1]; exact nodup_cons_hash h1.sealedOnce (isSealed_false hns), by rw [e2]; exact h1.awaitingOnce⟩
        intro x hx
        rw [e1] at hx
        rcases List.mem_cons.mp hx with rfl | hx
        · exact Or.inr ⟨(h0.awaitingVerified x hm).1, fun _ => Or.inr ⟨r, lo, by simp, hh.symm, hr.symm, hv⟩⟩
        · exact h1.sealedJustified x hx
  · simp only [hv, Bool.not_false, ↓reduceIte]
    exact h

theorem waiting_core (c : Cfg) (s : St) (r : SignedHash) : core (waiting c s r).1 = core s := by
  unfold waiting
  split; · rfl
  split; · rfl
  have := readAwaiting_core s r.address
  split <;> rename_i hh <;> rw [hh] at this <;> exact this

theorem history_core (c : Cfg) (s : St) (r : SignedHash) :
    (history c s r).1.awaiting = s.awaiting ∧ (history c s r).1.sealed = s.sealed := by
  unfold history throttle
  simp only
  split; · exact ⟨rfl, rfl⟩
  split; · exact ⟨rfl, rfl⟩
  split <;> exact ⟨rfl, rfl⟩

theorem balance_core (c : Cfg) (s : St) (r : SignedHash) (lo : Bool) :
    (balance c s r lo).1.awaiting = s.awaiting ∧ (balance c s r lo).1.sealed = s.sealed := by
  unfold balance throttle
  simp only
  split; · exact ⟨rfl, rfl⟩
  split; · exact ⟨rfl, rfl⟩
  split; · exact ⟨rfl, rfl⟩
  split <;> exact ⟨rfl, rfl⟩

theorem inv_step {c : Cfg} {base : List TrxB} {past : List Op} {s : St} (op : Op) (h : Inv c base past s) :
    Inv c base (past ++ [op]) (step c s op).1 := by
  cases op with
  | propose t lo => exact inv_propose t lo h
  | confirm t lo => exact inv_confirm t lo h
  | reject r lo => exact inv_reject r lo h
  | data a b => exact (h.past_mono _).of_same rfl rfl
  | expire => exact (h.past_mono _).of_same rfl rfl
  | waiting r =>
    have e := core_eq (waiting_core c s r)
    exact (h.past_mono _).of_same e.1 e.2.1
  | history r =>
    have e := history_core c s r
    exact (h.past_mono _).of_same e.1 e.2
  | balance r lo =>
    have e := balance_core c s r lo
    exact (h.past_mono _).of_same e.1 e.2
  | saved r => exact (h.past_mono _).of_same rfl rfl
  | ledgerDrop hs =>
    have h := h.past_mono (.ledgerDrop hs)
    exact ⟨h.awaitingVerified, fun t ht => h.sealedJustified t (List.mem_filter.mp ht).1, nodup_filter_hash _ h.sealedOnce, h.awaitingOnce⟩

theorem inv_run {c : Cfg} {base : List TrxB} (ops : List Op) {past : List Op} {s : St} (h : Inv c base past s) :
    Inv c base (past ++ ops) (run c s ops) := by
  induction ops generalizing past s with
  | nil => simpa [run] using h
  | cons op ops ih =>
    have := ih (inv_step op h)
    simpa [run, List.append_assoc] using this

end CModel.Notary
