import Proofs.SpiceProofs
import Proofs.LedgerBasic
/-! Funds: relating the `Melange` folds of validateLeaf / CalculateBalance to sums in `Nat`. -/
namespace CModel.Book
open CModel CModel.Melange

/-- What a vertex pays into `a` / takes out of `a`. A non-spice transaction carries the empty
amount, whose value is 0, so no case distinction on `isSpice` is needed in the specification. -/
def inAmt (a : Addr) (v : Vertex) : Nat := if v.trx.receiver == a then val v.trx.spice else 0
def outAmt (a : Addr) (v : Vertex) : Nat := if v.trx.issuer == a then val v.trx.spice else 0
def inflow (a : Addr) (vs : List Vertex) : Nat := (vs.map (inAmt a)).sum
def outflow (a : Addr) (vs : List Vertex) : Nat := (vs.map (outAmt a)).sum

theorem empty_val {m : Melange} (h : m.empty = true) : val m = 0 := by
  obtain ⟨c, s⟩ := m
  simp only [empty, Bool.and_eq_true, beq_iff_eq] at h
  obtain ⟨rfl, rfl⟩ := h
  rfl

theorem canonB_iff (m : Melange) : m.canonB = true ↔ Canon m := by
  unfold canonB Canon
  simp only [decide_eq_true_eq, UInt64.lt_iff_toNat_lt, maxSupp_toNat]

/-- One `pourFunds` step, exact. -/
theorem pourFunds_cases (a : Addr) (v : Vertex) (io : Melange × Melange)
    (h1 : Canon io.1) (h2 : Canon io.2) (hv : Canon v.trx.spice) :
    (∃ io', pourFunds a v io = .ok io' ∧ val io'.1 = val io.1 + inAmt a v ∧ val io'.2 = val io.2 + outAmt a v ∧
        Canon io'.1 ∧ Canon io'.2) ∨
    ((∃ e, pourFunds a v io = .error e) ∧
        (val io.1 + inAmt a v ≥ capacity ∨ val io.2 + outAmt a v ≥ capacity)) := by
  unfold pourFunds inAmt outAmt
  by_cases hs : v.trx.isSpice = true
  · simp only [hs, Bool.not_true, Bool.false_eq_true, if_false]
    by_cases hi : (v.trx.issuer == a) = true
    · simp only [hi, if_true]
      rcases supply_cases io.2 v.trx.spice h2 hv with ⟨o', ho, hov, hoc⟩ | ⟨ho, hge⟩
      · simp only [ho]
        by_cases hr : (v.trx.receiver == a) = true
        · simp only [hr, if_true]
          rcases supply_cases io.1 v.trx.spice h1 hv with ⟨i', hi', hiv, hic⟩ | ⟨hi', hge⟩
          · left; simp only [hi']; exact ⟨_, rfl, hiv, hov, hic, hoc⟩
          · right; simp only [hi']; exact ⟨⟨_, rfl⟩, Or.inl hge⟩
        · simp only [hr, if_false]
          left; exact ⟨_, rfl, by simp, hov, h1, hoc⟩
      · right; simp only [ho]; exact ⟨⟨_, rfl⟩, Or.inr hge⟩
    · simp only [hi, if_false]
      by_cases hr : (v.trx.receiver == a) = true
      · simp only [hr, if_true]
        rcases supply_cases io.1 v.trx.spice h1 hv with ⟨i', hi', hiv, hic⟩ | ⟨hi', hge⟩
        · left; simp only [hi']; exact ⟨_, rfl, hiv, by simp, hic, h2⟩
        · right; simp only [hi']; exact ⟨⟨_, rfl⟩, Or.inl hge⟩
      · simp only [hr, if_false]
        left; exact ⟨_, rfl, by simp, by simp, h1, h2⟩
  · have hs' : v.trx.isSpice = false := by simpa using hs
    have hz : val v.trx.spice = 0 := empty_val (by simpa [Trx.isSpice] using hs')
    simp only [hs', Bool.not_false, if_true, hz]
    left; exact ⟨io, rfl, by simp, by simp, h1, h2⟩

theorem inflow_cons (a : Addr) (v : Vertex) (vs : List Vertex) : inflow a (v :: vs) = inAmt a v + inflow a vs := by
  simp [inflow]
theorem outflow_cons (a : Addr) (v : Vertex) (vs : List Vertex) : outflow a (v :: vs) = outAmt a v + outflow a vs := by
  simp [outflow]

/-- The vertices a walk over the hashes `hs` visits. -/
def visited (b : Book) (hs : List Hash) : List Vertex := hs.filterMap b.getVertex

theorem foldFunds_cons (b : Book) (a : Addr) (h : Hash) (hs : List Hash) (io : Melange × Melange)
    (wrap : Err → Err) (leaf : Option Vertex) :
    foldFunds b a (h :: hs) io wrap leaf =
      match b.getVertex h with
      | none => .error [.unexpected, .idUnknown]
      | some v =>
        if badParent leaf v then .error [.leafRejected]
        else match pourFunds a v io with
          | .ok io' => foldFunds b a hs io' wrap leaf
          | .error e => .error (wrap e) := by
  rw [foldFunds]
  rfl

/-- A successful fold: exact sums, canonical results, every hash was found. -/
theorem foldFunds_ok (b : Book) (a : Addr) (wrap : Err → Err) (leaf : Option Vertex)
    (hcan : ∀ v ∈ b.verts, Canon v.trx.spice) :
    ∀ (hs : List Hash) (io io' : Melange × Melange), Canon io.1 → Canon io.2 →
      foldFunds b a hs io wrap leaf = .ok io' →
      val io'.1 = val io.1 + inflow a (visited b hs) ∧ val io'.2 = val io.2 + outflow a (visited b hs) ∧
      Canon io'.1 ∧ Canon io'.2 ∧ (visited b hs).length = hs.length := by
  intro hs
  induction hs with
  | nil => intro io io' h1 h2 h; rw [foldFunds] at h; cases h; simp [visited, inflow, outflow, h1, h2]
  | cons x xs ih =>
    intro io io' h1 h2 h
    rw [foldFunds_cons] at h
    cases hg : b.getVertex x with
    | none => rw [hg] at h; cases h
    | some v =>
      rw [hg] at h
      simp only at h
      split at h
      · cases h
      · have hvc := hcan v (getVertex_mem hg).1
        rcases pourFunds_cases a v io h1 h2 hvc with ⟨io1, hp, e1, e2, c1, c2⟩ | ⟨⟨e, hp⟩, _⟩
        · rw [hp] at h
          obtain ⟨r1, r2, r3, r4, r5⟩ := ih io1 io' c1 c2 h
          have hvis : visited b (x :: xs) = v :: visited b xs := by simp [visited, List.filterMap_cons, hg]
          rw [hvis, inflow_cons, outflow_cons]
          refine ⟨by omega, by omega, r3, r4, by simp [r5]⟩
        · rw [hp] at h; cases h

/-- A failing fold: a hash was unknown, a parent of the validated leaf did not verify, or one of the
two running sums left the representable range. -/
theorem foldFunds_err (b : Book) (a : Addr) (wrap : Err → Err) (leaf : Option Vertex)
    (hcan : ∀ v ∈ b.verts, Canon v.trx.spice) :
    ∀ (hs : List Hash) (io : Melange × Melange) (e : Err), Canon io.1 → Canon io.2 →
      foldFunds b a hs io wrap leaf = .error e →
      (visited b hs).length < hs.length ∨ (leaf.isSome = true ∧ e = [.leafRejected]) ∨
      val io.1 + inflow a (visited b hs) ≥ capacity ∨ val io.2 + outflow a (visited b hs) ≥ capacity := by
  intro hs
  induction hs with
  | nil => intro io e h1 h2 h; rw [foldFunds] at h; cases h
  | cons x xs ih =>
    intro io e h1 h2 h
    rw [foldFunds_cons] at h
    cases hg : b.getVertex x with
    | none =>
      left
      have : visited b (x :: xs) = visited b xs := by simp [visited, List.filterMap_cons, hg]
      rw [this]
      have := List.length_filterMap_le b.getVertex xs
      simp only [visited, List.length_cons]; omega
    | some v =>
      rw [hg] at h
      simp only at h
      have hvis : visited b (x :: xs) = v :: visited b xs := by simp [visited, List.filterMap_cons, hg]
      split at h
      · rename_i hbad
        right; left; cases h
        cases leaf with
        | none => simp [badParent] at hbad
        | some l => exact ⟨rfl, rfl⟩
      · have hvc := hcan v (getVertex_mem hg).1
        rcases pourFunds_cases a v io h1 h2 hvc with ⟨io1, hp, e1, e2, c1, c2⟩ | ⟨_, hov⟩
        · rw [hp] at h
          rcases ih io1 e c1 c2 h with r | r | r | r
          · left; rw [hvis]; simp only [List.length_cons]; omega
          · right; left; exact r
          · right; right; left; rw [hvis, inflow_cons]; omega
          · right; right; right; rw [hvis, outflow_cons]; omega
        · rw [hvis, inflow_cons, outflow_cons]
          rcases hov with hov | hov
          · right; right; left; omega
          · right; right; right; omega

/-- The set a balance query / a validation walks: the tip and its ancestors. -/
def walk (b : Book) (tip : Vertex) : List Vertex := tip :: visited b (b.ancestors tip.hash)

def cpVal (b : Book) (a : Addr) : Nat := val ((b.cpFundsGet a).getD Melange.zero)

structure FundsOK (b : Book) : Prop where
  verts : ∀ v ∈ b.verts, Canon v.trx.spice
  cp : ∀ e ∈ b.cpFunds, Canon e.2

theorem cpFunds_canon {b : Book} (h : FundsOK b) (a : Addr) : Canon ((b.cpFundsGet a).getD Melange.zero) := by
  unfold cpFundsGet
  cases hf : b.cpFunds.find? (·.1 == a) with
  | none => exact canon_zero
  | some e => exact h.cp e (List.mem_of_find?_eq_some hf)


end CModel.Book

namespace CModel.Book
open CModel CModel.Melange

/-- Complete case analysis of `walkFunds` (tip first, then its ancestors). -/
theorem walkFunds_cases (b : Book) (a : Addr) (tip : Vertex) (io0 : Melange × Melange) (wrap : Err → Err)
    (leaf : Option Vertex) (hcan : ∀ v ∈ b.verts, Canon v.trx.spice) (htip : Canon tip.trx.spice)
    (h1 : Canon io0.1) (h2 : Canon io0.2) :
    (∃ io, walkFunds b a tip io0 wrap leaf = .ok io ∧
        val io.1 = val io0.1 + inflow a (walk b tip) ∧ val io.2 = val io0.2 + outflow a (walk b tip) ∧
        Canon io.1 ∧ Canon io.2 ∧ (visited b (b.ancestors tip.hash)).length = (b.ancestors tip.hash).length) ∨
    (∃ e, walkFunds b a tip io0 wrap leaf = .error e ∧
        ((visited b (b.ancestors tip.hash)).length < (b.ancestors tip.hash).length ∨
         (leaf.isSome = true ∧ e = [.leafRejected]) ∨
         val io0.1 + inflow a (walk b tip) ≥ capacity ∨ val io0.2 + outflow a (walk b tip) ≥ capacity)) := by
  unfold walkFunds walk
  rw [inflow_cons, outflow_cons]
  rcases pourFunds_cases a tip io0 h1 h2 htip with ⟨io1, hp, e1, e2, c1, c2⟩ | ⟨⟨e, hp⟩, hov⟩
  · rw [hp]
    simp only
    cases hf : foldFunds b a (b.ancestors tip.hash) io1 wrap leaf with
    | ok io2 =>
      left
      obtain ⟨r1, r2, r3, r4, r5⟩ := foldFunds_ok b a wrap leaf hcan _ io1 io2 c1 c2 hf
      exact ⟨io2, rfl, by omega, by omega, r3, r4, r5⟩
    | error e =>
      right
      refine ⟨e, rfl, ?_⟩
      rcases foldFunds_err b a wrap leaf hcan _ io1 e c1 c2 hf with r | r | r | r
      · exact Or.inl r
      · exact Or.inr (Or.inl r)
      · right; right; left; omega
      · right; right; right; omega
  · right
    rw [hp]
    refine ⟨e, rfl, ?_⟩
    rcases hov with hov | hov
    · right; right; left; omega
    · right; right; right; omega

/-- Complete case analysis of the tail of CalculateBalance. -/
theorem balFinish_cases (cp : Melange) (io : Melange × Melange) (hc : Canon cp) (h1 : Canon io.1) (h2 : Canon io.2) :
    (∃ m, balFinish cp io = .ok m ∧ val m + val io.2 = val cp + val io.1 ∧ Canon m) ∨
    (∃ e, balFinish cp io = .error e ∧
      (val cp + val io.1 < val io.2 ∨ val cp + val io.1 ≥ capacity ∨ val io.2 ≥ capacity)) := by
  unfold balFinish
  rcases supply_cases cp io.1 hc h1 with ⟨s1, hs1, hs1v, hs1c⟩ | ⟨hs1, hge⟩
  · rw [hs1]
    simp only
    unfold drain
    rcases transfer_cases io.2 s1 Melange.zero h2 hs1c canon_zero with
      ⟨f, t, ht, ht1, _, htc, _⟩ | ⟨ht, hlt⟩ | ⟨ht, hge⟩
    · rw [ht]; left; exact ⟨f, rfl, by omega, htc⟩
    · rw [ht]; right; exact ⟨_, rfl, Or.inl (by omega)⟩
    · rw [ht]; right; rw [val_zero] at hge; exact ⟨_, rfl, Or.inr (Or.inr (by omega))⟩
  · rw [hs1]; right; exact ⟨_, rfl, Or.inr (Or.inl hge)⟩


/-- **C06**: complete case analysis of a balance query over the walked tip. -/
theorem calculateBalance_cases {b : Book} (h : FundsOK b) (tip : Vertex) (htip : Canon tip.trx.spice) (a : Addr) :
    (∃ m, b.calculateBalance tip a = .ok m ∧
        val m + outflow a (walk b tip) = cpVal b a + inflow a (walk b tip) ∧ Canon m ∧
        (visited b (b.ancestors tip.hash)).length = (b.ancestors tip.hash).length) ∨
    (∃ e, b.calculateBalance tip a = .error e ∧
        (cpVal b a + inflow a (walk b tip) < outflow a (walk b tip) ∨
         (visited b (b.ancestors tip.hash)).length < (b.ancestors tip.hash).length ∨
         inflow a (walk b tip) ≥ capacity ∨ outflow a (walk b tip) ≥ capacity ∨
         cpVal b a + inflow a (walk b tip) ≥ capacity)) := by
  unfold calculateBalance
  rcases walkFunds_cases b a tip (Melange.zero, Melange.zero) id none h.verts htip canon_zero canon_zero with
    ⟨io, hw, e1, e2, c1, c2, hlen⟩ | ⟨e, hw, herr⟩
  · rw [hw]
    simp only
    have e1' : val io.1 = inflow a (walk b tip) := by simpa [val_zero] using e1
    have e2' : val io.2 = outflow a (walk b tip) := by simpa [val_zero] using e2
    rcases balFinish_cases ((b.cpFundsGet a).getD Melange.zero) io (cpFunds_canon h a) c1 c2 with
      ⟨m, hm, hv, hc⟩ | ⟨e, hm, hv⟩
    · left; exact ⟨m, hm, by unfold cpVal; omega, hc, hlen⟩
    · right; refine ⟨e, hm, ?_⟩
      unfold cpVal
      rcases hv with hv | hv | hv
      · left; omega
      · right; right; right; right; omega
      · right; right; right; left; omega
  · rw [hw]
    right
    refine ⟨e, rfl, ?_⟩
    have z1 : val (Melange.zero, Melange.zero).1 = 0 := val_zero
    have z2 : val (Melange.zero, Melange.zero).2 = 0 := val_zero
    rcases herr with r | r | r | r
    · right; left; exact r
    · cases r.1
    · right; right; left; omega
    · right; right; right; left; omega

/-- checkHasSufficientfunds: succeeds iff `in ≥ out`. -/
theorem checkSufficient_cases (io : Melange × Melange) (h1 : Canon io.1) (h2 : Canon io.2) :
    (checkSufficient io = .ok () ∧ val io.2 ≤ val io.1) ∨
    (∃ e, checkSufficient io = .error e ∧ val io.1 < val io.2) := by
  unfold checkSufficient drain
  rcases transfer_cases io.2 io.1 Melange.zero h2 h1 canon_zero with
    ⟨f, t, ht, ht1, _, _, _⟩ | ⟨ht, hlt⟩ | ⟨ht, hge⟩
  · rw [ht]; left; exact ⟨rfl, by omega⟩
  · rw [ht]; right; exact ⟨_, rfl, hlt⟩
  · rw [ht]; exfalso
    rw [val_zero] at hge
    have := h2; have hb := io.2.cur.toNat_lt
    unfold Canon at this; unfold capacity val at hge; omega

/-- **C01 core**: the funds branch of validateLeaf succeeds only if checkpoint + inflow covers the
issuer's outflow (the validated transfer included) over the leaf and its ancestors. -/
theorem validateFunds_ok {b : Book} (h : FundsOK b) (leaf : Vertex) (hleaf : Canon leaf.trx.spice)
    (hr : validateFunds b leaf = .ok ()) :
    outflow leaf.trx.issuer (walk b leaf) ≤ cpVal b leaf.trx.issuer + inflow leaf.trx.issuer (walk b leaf) := by
  unfold validateFunds at hr
  have hcpc := cpFunds_canon h leaf.trx.issuer
  rcases supply_cases Melange.zero ((b.cpFundsGet leaf.trx.issuer).getD Melange.zero) canon_zero hcpc with
    ⟨s, hs, hsv, hsc⟩ | ⟨hs, _⟩
  · rw [hs] at hr
    simp only at hr
    rcases walkFunds_cases b leaf.trx.issuer leaf (s, Melange.zero) (fun e => Tag.transferFailure :: e) (some leaf)
        h.verts hleaf hsc canon_zero with ⟨io, hw, e1, e2, c1, c2, _⟩ | ⟨e, hw, _⟩
    · rw [hw] at hr
      simp only at hr
      rcases checkSufficient_cases io c1 c2 with ⟨hc, hle⟩ | ⟨e, hc, _⟩
      · have z2 : val (s, Melange.zero).2 = 0 := val_zero
        have z1 : val (s, Melange.zero).1 = val s := rfl
        rw [val_zero] at hsv
        unfold cpVal
        omega
      · rw [hc] at hr; simp at hr
    · rw [hw] at hr; simp at hr
  · rw [hs] at hr; simp at hr

end CModel.Book
