import Proofs.Orphans
/-! # C13: the orphan buffer is bounded, and so are the retries

`park` refuses a vertex when 500 are parked or when it was already re-parked more than 25 times; every
retry tick takes the head of the buffer and either gets rid of it (admitted, rejected, already known) or
parks it again with its counter raised. Hence: the buffer never exceeds `maxArraySize`, no counter exceeds
`maxRepeats + 1`, and the potential `Σ (maxRepeats + 2 - counter)` over the buffer falls with every tick on
a non-empty buffer - retry ticks alone empty the buffer after at most `27 · 500` of them, whatever the
ledger does with the vertices (no assumption on outcomes). -/
namespace CModel.Book
open CModel

/-- how the buffer can change inside one call: not at all, or the offered vertex is appended with its
counter raised - and then the counter was within the limit and the buffer was not at its limit -/
def ParkStep (b b' : Book) (v : Vertex) (rep : Nat) : Prop :=
  b'.parked = b.parked ∨
  (b'.parked = b.parked ++ [(v, rep + 1)] ∧ rep ≤ maxRepeats ∧ b.parked.length ≠ maxArraySize)

theorem ParkStep.of_eq {a b b' : Book} {v : Vertex} {rep : Nat} (h : a.parked = b.parked) (s : ParkStep a b' v rep) :
    ParkStep b b' v rep := by
  unfold ParkStep at *; rw [← h]; exact s

theorem park_step {b b' : Book} {v : Vertex} {rep : Nat} (h : b.park v rep = some b') : ParkStep b b' v rep := by
  unfold park at h
  split at h
  · cases h
  · rename_i hl
    split at h
    · cases h
    · rename_i hr
      cases h
      exact Or.inr ⟨rfl, by omega, by simpa using hl⟩

theorem checkParents_parkStep (b : Book) (leaf : Vertex) (rep : Nat) (hs : List Hash) (acc : List Vertex) :
    ParkStep b (checkParents b leaf rep hs acc).1 leaf rep := by
  induction hs generalizing b acc with
  | nil => exact Or.inl rfl
  | cons h hs ih =>
    unfold checkParents
    split
    · split
      · exact Or.inl rfl
      · rename_i b' hp
        exact park_step hp
    · rename_i existing hex
      split
      · split
        · exact Or.inl (by simp)
        · exact (ih (b.updateWT existing.weight) (acc ++ [existing])).of_eq (updateWT_parked b existing.weight)
      · exact ih b (acc ++ [existing])

theorem insertLinked_parked (b : Book) (v : Vertex) (ps : List Hash) : (insertLinked b v ps).1.parked = b.parked := by
  unfold insertLinked
  split
  · rfl
  · rename_i b2 h2
    obtain ⟨_, e2⟩ := indexSave_some h2
    split
    · simp [e2]
    · rename_i b3 h3
      obtain ⟨_, e3⟩ := addVertex_some h3
      split
      · simp [e3, e2]
      · rename_i b4 h4
        obtain ⟨es, e4, _⟩ := linkNew_some h4
        simp [e4, e3, e2]

theorem addLeafLocked_parkStep (b : Book) (v : Vertex) (rep : Nat) : ParkStep b (b.addLeafLocked v rep).1 v rep := by
  unfold addLeafLocked
  have hc := checkParents_parkStep b v rep [v.left, v.right] []
  split
  · rename_i b1 e he
    rw [he] at hc; exact hc
  · rename_i b1 validated he
    rw [he] at hc
    have hi := insertLinked_parked b1 v (validated.map (·.hash))
    have : ParkStep b (insertLinked b1 v (validated.map (·.hash))).1 v rep := by
      unfold ParkStep at *; rw [hi]; exact hc
    split <;> rename_i hh <;> rw [hh] at this <;> exact this

theorem addLeafMemorized_parkStep (b : Book) (v : Vertex) (rep : Nat) : ParkStep b (b.addLeafMemorized v rep).1 v rep := by
  unfold addLeafMemorized
  split; · exact Or.inl rfl
  split; · exact Or.inl rfl
  split; · exact Or.inl rfl
  split; · exact Or.inl rfl
  exact addLeafLocked_parkStep b v rep

theorem addLeaf_parkStep (b : Book) (v : Vertex) : ParkStep b (b.addLeaf v).1 v 0 := by
  unfold addLeaf
  split; · exact Or.inl rfl
  split; · exact Or.inl rfl
  split; · exact Or.inl rfl
  split; · exact Or.inl rfl
  exact addLeafMemorized_parkStep b v 0

/-- the buffer's bounds -/
def BufInv (l : List (Vertex × Nat)) : Prop :=
  l.length ≤ maxArraySize ∧ ∀ p ∈ l, p.2 ≤ maxRepeats + 1

theorem bufInv_nil : BufInv [] := ⟨by simp, by intro p hp; cases hp⟩

theorem ParkStep.bufInv {b b' : Book} {v : Vertex} {rep : Nat} (s : ParkStep b b' v rep) (h : BufInv b.parked) :
    BufInv b'.parked := by
  rcases s with e | ⟨e, hr, hl⟩
  · rw [e]; exact h
  · rw [e]
    refine ⟨?_, ?_⟩
    · have := h.1; simp only [List.length_append, List.length_cons, List.length_nil]; omega
    · intro p hp
      rcases List.mem_append.mp hp with hp | hp
      · exact h.2 p hp
      · simp only [List.mem_singleton] at hp; subst hp; simpa using hr

/-- what one retry tick does to the buffer -/
theorem retryParked_parked (b : Book) :
    (b.parked = [] ∧ (b.retryParked).1.parked = []) ∨
    ∃ v rep rest, b.parked = (v, rep) :: rest ∧
      ((b.retryParked).1.parked = rest ∨
       ((b.retryParked).1.parked = rest ++ [(v, rep + 1)] ∧ rep ≤ maxRepeats ∧ rest.length ≠ maxArraySize)) := by
  unfold retryParked
  split
  · rename_i h; exact Or.inl ⟨h, h⟩
  · rename_i v rep rest h
    refine Or.inr ⟨v, rep, rest, h, ?_⟩
    exact addLeafMemorized_parkStep { b with parked := rest } v rep

theorem retryParked_bufInv (b : Book) (h : BufInv b.parked) : BufInv (b.retryParked).1.parked := by
  rcases retryParked_parked b with ⟨_, e⟩ | ⟨v, rep, rest, e, h'⟩
  · rw [e]; exact bufInv_nil
  · rw [e] at h
    have hr : BufInv rest := ⟨by have := h.1; simp at this; omega, fun p hp => h.2 p (List.mem_cons_of_mem _ hp)⟩
    rcases h' with e' | ⟨e', hrep, hl⟩
    · rw [e']; exact hr
    · rw [e']
      refine ⟨?_, ?_⟩
      · have := hr.1; simp only [List.length_append, List.length_cons, List.length_nil]; omega
      · intro p hp
        rcases List.mem_append.mp hp with hp | hp
        · exact hr.2 p hp
        · simp only [List.mem_singleton] at hp; subst hp; simpa using hrep

theorem dstep_bufInv (b : Book) (op : DOp) (h : BufInv b.parked) : BufInv (dstep b op).1.parked := by
  cases op with
  | deliver v => exact (addLeaf_parkStep b v).bufInv h
  | tick =>
    have := retryParked_bufInv b h
    simp only [dstep]
    split <;> rename_i hh <;> rw [hh] at this <;> exact this

/-- **Bounded buffer, bounded counters**: in every run of deliveries and retry ticks -/
theorem drun_bufInv (b : Book) (ops : List DOp) (h : BufInv b.parked) : BufInv (drun b ops).parked := by
  induction ops generalizing b with
  | nil => exact h
  | cons op ops ih => exact ih _ (dstep_bufInv b op h)

/-! ### the retries end -/

/-- retries still allowed to the parked vertices -/
def pot : List (Vertex × Nat) → Nat
  | [] => 0
  | p :: l => (maxRepeats + 2 - p.2) + pot l

theorem pot_append (l m : List (Vertex × Nat)) : pot (l ++ m) = pot l + pot m := by
  induction l with
  | nil => simp [pot]
  | cons p l ih => simp [pot, ih]; omega

theorem pot_le (l : List (Vertex × Nat)) : pot l ≤ (maxRepeats + 2) * l.length := by
  induction l with
  | nil => simp [pot]
  | cons p l ih => simp only [pot, List.length_cons]; rw [Nat.mul_succ]; omega

/-- a tick on a non-empty buffer uses up one of the allowed retries -/
theorem retry_uses_potential (b : Book) (h : BufInv b.parked) (hne : b.parked ≠ []) :
    pot (b.retryParked).1.parked < pot b.parked := by
  rcases retryParked_parked b with ⟨e, _⟩ | ⟨v, rep, rest, e, h'⟩
  · exact absurd e hne
  · rw [e] at h ⊢
    have hrep : rep ≤ maxRepeats + 1 := h.2 (v, rep) (List.mem_cons_self ..)
    rcases h' with e' | ⟨e', hr, _⟩
    · rw [e']; simp only [pot]; omega
    · rw [e', pot_append]; simp only [pot]; omega

def ticks : Nat → Book → Book
  | 0, b => b
  | n + 1, b => ticks n (b.retryParked).1

theorem retryParked_empty (b : Book) (h : b.parked = []) : (b.retryParked).1.parked = [] := by
  rcases retryParked_parked b with ⟨_, e⟩ | ⟨v, rep, rest, e, _⟩
  · exact e
  · rw [h] at e; cases e

/-- **The retries end**: left alone, the retry loop empties the buffer within `pot` ticks - whatever the
ledger answers (admitted, rejected, parent still missing). -/
theorem ticks_empty_buffer (n : Nat) (b : Book) (h : BufInv b.parked) (hn : pot b.parked ≤ n) :
    (ticks n b).parked = [] := by
  induction n generalizing b with
  | zero =>
    cases hp : b.parked with
    | nil => simpa [ticks] using hp
    | cons p l =>
      have hp2 := h.2 p (by rw [hp]; exact List.mem_cons_self ..)
      rw [hp] at hn; simp only [pot] at hn; omega
  | succ n ih =>
    unfold ticks
    by_cases hne : b.parked = []
    · have := retryParked_empty b hne
      exact ih _ (by rw [this]; exact bufInv_nil) (by rw [this]; simp [pot])
    · have := retry_uses_potential b h hne
      exact ih _ (retryParked_bufInv b h) (by omega)

/-- in numbers: 27 · 500 ticks always suffice -/
theorem ticks_bound (b : Book) (h : BufInv b.parked) : (ticks ((maxRepeats + 2) * maxArraySize) b).parked = [] :=
  ticks_empty_buffer _ b h (Nat.le_trans (pot_le _) (Nat.mul_le_mul_left _ h.1))

end CModel.Book
