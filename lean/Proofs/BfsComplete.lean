import Proofs.LoadComplete
/-! Completeness of the breadth-first ancestor walk: with the number of vertices as fuel, `ancestors b h`
contains every strict ancestor of `h` (C06 single-tip corollary, C14 stream completeness). -/
namespace CModel.Book
open CModel

/-- the de-duplicating fold used by `bfs` and `ancestors` -/
def dedupInto (visited : List Hash) (l : List Hash) (acc : List Hash) : List Hash :=
  l.foldl (fun acc p => if acc.contains p || visited.contains p then acc else acc ++ [p]) acc

theorem dedupInto_spec (visited l acc : List Hash) (hacc : acc.Nodup) (hav : ∀ x ∈ acc, x ∉ visited) :
    (dedupInto visited l acc).Nodup ∧ (∀ x ∈ dedupInto visited l acc, x ∉ visited) ∧
    (∀ x ∈ dedupInto visited l acc, x ∈ acc ∨ x ∈ l) ∧
    (∀ x ∈ acc, x ∈ dedupInto visited l acc) ∧
    (∀ x ∈ l, x ∈ visited ∨ x ∈ dedupInto visited l acc) := by
  induction l generalizing acc with
  | nil => exact ⟨hacc, hav, fun x hx => Or.inl hx, fun x hx => hx, fun x hx => by cases hx⟩
  | cons p l ih =>
    unfold dedupInto
    simp only [List.foldl_cons]
    by_cases hc : (acc.contains p || visited.contains p) = true
    · simp only [hc, ↓reduceIte]
      obtain ⟨h1, h2, h3, h4, h5⟩ := ih acc hacc hav
      refine ⟨h1, h2, fun x hx => (h3 x hx).imp id (List.mem_cons_of_mem _), h4, ?_⟩
      intro x hx
      rcases List.mem_cons.mp hx with rfl | hx
      · simp only [Bool.or_eq_true, List.contains_eq_mem, decide_eq_true_eq] at hc
        rcases hc with hc | hc
        · exact Or.inr (h4 x hc)
        · exact Or.inl hc
      · exact h5 x hx
    · simp only [hc, Bool.false_eq_true, ↓reduceIte]
      simp only [Bool.or_eq_true, List.contains_eq_mem, decide_eq_true_eq, not_or] at hc
      have hacc' : (acc ++ [p]).Nodup := by
        rw [List.nodup_append]
        exact ⟨hacc, by simp, fun a ha b hb => by simp at hb; subst hb; intro e; exact hc.1 (e ▸ ha)⟩
      have hav' : ∀ x ∈ acc ++ [p], x ∉ visited := by
        intro x hx
        rcases List.mem_append.mp hx with hx | hx
        · exact hav x hx
        · simp only [List.mem_singleton] at hx; rw [hx]; exact hc.2
      obtain ⟨h1, h2, h3, h4, h5⟩ := ih (acc ++ [p]) hacc' hav'
      refine ⟨h1, h2, ?_, fun x hx => h4 x (List.mem_append_left _ hx), ?_⟩
      · intro x hx
        rcases h3 x hx with h | h
        · rcases List.mem_append.mp h with h | h
          · exact Or.inl h
          · simp only [List.mem_singleton] at h; exact Or.inr (h ▸ List.mem_cons_self)
        · exact Or.inr (List.mem_cons_of_mem _ h)
      · intro x hx
        rcases List.mem_cons.mp hx with rfl | hx
        · exact Or.inr (h4 x (by simp))
        · exact h5 x hx

theorem bfs_unfold (b : Book) (fuel : Nat) (frontier visited : List Hash) :
    b.bfs (fuel + 1) frontier visited =
      if frontier.isEmpty then visited else
      b.bfs fuel (dedupInto visited (frontier.flatMap b.parentsOf) [])
        (visited ++ dedupInto visited (frontier.flatMap b.parentsOf) []) := by
  rw [bfs]; rfl

/-- pigeonhole: a duplicate-free list drawn from `m` is no longer than `m` -/
theorem nodup_length_le {l m : List Hash} (hn : l.Nodup) (hs : ∀ x ∈ l, x ∈ m) : l.length ≤ m.length := by
  induction l generalizing m with
  | nil => exact Nat.zero_le _
  | cons a l ih =>
    simp only [List.nodup_cons] at hn
    have ham : a ∈ m := hs a List.mem_cons_self
    have hsub : ∀ x ∈ l, x ∈ m.erase a := by
      intro x hx
      have hne : x ≠ a := fun e => hn.1 (e ▸ hx)
      exact (List.mem_erase_of_ne hne).mpr (hs x (List.mem_cons_of_mem _ hx))
    have := ih hn.2 hsub
    have hl := List.length_erase_of_mem ham
    simp only [List.length_cons]
    have : 0 < m.length := List.length_pos_of_mem ham
    omega

/-- the invariant of the walk -/
structure BfsInv (b : Book) (h : Hash) (frontier visited : List Hash) : Prop where
  sub : ∀ x ∈ frontier, x ∈ visited
  closed : ∀ y ∈ visited, y ∉ frontier → ∀ p, (p, y) ∈ b.edges → p ∈ visited
  first : ∀ p, (p, h) ∈ b.edges → p ∈ visited
  nodup : visited.Nodup
  live : ∀ x ∈ visited, b.hasVertex x = true

theorem closed_contains_anc (b : Book) (h : Hash) (visited : List Hash)
    (hcl : ∀ y ∈ visited, ∀ p, (p, y) ∈ b.edges → p ∈ visited) (hf : ∀ p, (p, h) ∈ b.edges → p ∈ visited)
    {x : Hash} (a : Anc b.edges x h) : x ∈ visited := by
  induction a with
  | base he => exact hf _ he
  | step he _ ih => exact hcl _ (ih hf) _ he

theorem bfs_complete (b : Book) (h : Hash) (hlive : ∀ e ∈ b.edges, b.hasVertex e.1 = true)
    (fuel : Nat) (frontier visited : List Hash) (inv : BfsInv b h frontier visited)
    (hfuel : frontier ≠ [] → fuel + visited.length ≥ b.verts.length + 1)
    {x : Hash} (a : Anc b.edges x h) : x ∈ b.bfs fuel frontier visited := by
  induction fuel generalizing frontier visited with
  | zero =>
    unfold bfs
    by_cases hfe : frontier = []
    · subst hfe
      exact closed_contains_anc b h visited (fun y hy => inv.closed y hy (by simp)) inv.first a
    · -- impossible: more duplicate-free live hashes than vertices
      have h1 := hfuel hfe
      have hle : visited.length ≤ (b.verts.map (·.hash)).length := by
        apply nodup_length_le inv.nodup
        intro y hy
        obtain ⟨v, hv, hvh⟩ := (hasVertex_iff b y).mp (inv.live y hy)
        exact List.mem_map.mpr ⟨v, hv, hvh⟩
      simp only [List.length_map] at hle
      omega
  | succ n ih =>
    rw [bfs_unfold]
    by_cases hfe : frontier.isEmpty = true
    · simp only [hfe, ↓reduceIte]
      have : frontier = [] := List.isEmpty_iff.mp hfe
      subst this
      exact closed_contains_anc b h visited (fun y hy => inv.closed y hy (by simp)) inv.first a
    · simp only [hfe, Bool.false_eq_true, ↓reduceIte]
      obtain ⟨d1, d2, d3, _, d5⟩ := dedupInto_spec visited (frontier.flatMap b.parentsOf) [] (by simp) (by simp)
      apply ih
      · refine ⟨fun x hx => List.mem_append_right _ hx, ?_, fun p hp => List.mem_append_left _ (inv.first p hp), ?_, ?_⟩
        · intro y hy hyn p hp
          rcases List.mem_append.mp hy with hy | hy
          · by_cases hyf : y ∈ frontier
            · have : p ∈ frontier.flatMap b.parentsOf :=
                List.mem_flatMap.mpr ⟨y, hyf, (mem_parentsOf b y p).mpr hp⟩
              rcases d5 p this with h1 | h1
              · exact List.mem_append_left _ h1
              · exact List.mem_append_right _ h1
            · exact List.mem_append_left _ (inv.closed y hy hyf p hp)
          · exact absurd hy hyn
        · rw [List.nodup_append]
          exact ⟨inv.nodup, d1, fun a ha c hc e => d2 c hc (e ▸ ha)⟩
        · intro y hy
          rcases List.mem_append.mp hy with hy | hy
          · exact inv.live y hy
          · rcases d3 y hy with h1 | h1
            · cases h1
            · obtain ⟨z, _, hz⟩ := List.mem_flatMap.mp h1
              exact hlive (y, z) ((mem_parentsOf b z y).mp hz)
      · intro hne
        have hfne : frontier ≠ [] := fun e => hfe (by rw [e]; rfl)
        have := hfuel hfne
        have hpos : 0 < (dedupInto visited (frontier.flatMap b.parentsOf) []).length := by
          cases hq : dedupInto visited (frontier.flatMap b.parentsOf) [] with
          | nil => exact absurd hq hne
          | cons _ _ => simp
        simp only [List.length_append]
        omega

end CModel.Book

namespace CModel.Book
open CModel

theorem first_eq_dedup (b : Book) (h : Hash) :
    (b.parentsOf h).foldl (fun acc p => if acc.contains p then acc else acc ++ [p]) [] = dedupInto [] (b.parentsOf h) [] := by
  unfold dedupInto
  congr 1
  funext acc p
  simp

/-- **The ancestor walk is complete**: every strict ancestor of `h` (along the edges) is in `ancestors b h`,
provided edges start at live vertices. Together with `ancestors_sound`: `ancestors b h` is exactly the set of
strict ancestors. -/
theorem ancestors_complete (b : Book) (hlive : ∀ e ∈ b.edges, b.hasVertex e.1 = true) (h x : Hash)
    (a : Anc b.edges x h) : x ∈ b.ancestors h := by
  unfold ancestors
  simp only
  rw [first_eq_dedup]
  obtain ⟨d1, _, d3, _, d5⟩ := dedupInto_spec [] (b.parentsOf h) [] (by simp) (by simp)
  apply bfs_complete b h hlive _ _ _ _ _ a
  · refine ⟨fun x hx => hx, fun y hy hyn => absurd hy hyn, ?_, d1, ?_⟩
    · intro p hp
      rcases d5 p ((mem_parentsOf b h p).mpr hp) with h1 | h1
      · cases h1
      · exact h1
    · intro y hy
      rcases d3 y hy with h1 | h1
      · cases h1
      · exact hlive (y, h) ((mem_parentsOf b h y).mp h1)
  · intro hne
    have : 0 < (dedupInto [] (b.parentsOf h) []).length := by
      cases hq : dedupInto [] (b.parentsOf h) [] with
      | nil => exact absurd hq hne
      | cons _ _ => simp
    omega

theorem mem_ancestors_iff (b : Book) (hlive : ∀ e ∈ b.edges, b.hasVertex e.1 = true) (h x : Hash) :
    x ∈ b.ancestors h ↔ Anc b.edges x h :=
  ⟨ancestors_sound b h x, ancestors_complete b hlive h x⟩

end CModel.Book

namespace CModel.Book
open CModel

theorem bfs_nodup (b : Book) (fuel : Nat) (frontier visited : List Hash) (hn : visited.Nodup) :
    (b.bfs fuel frontier visited).Nodup := by
  induction fuel generalizing frontier visited with
  | zero => unfold bfs; exact hn
  | succ n ih =>
    rw [bfs_unfold]
    split
    · exact hn
    · obtain ⟨d1, d2, _, _, _⟩ := dedupInto_spec visited (frontier.flatMap b.parentsOf) [] (by simp) (by simp)
      apply ih
      rw [List.nodup_append]
      exact ⟨hn, d1, fun a ha c hc e => d2 c hc (e ▸ ha)⟩

theorem ancestors_nodup (b : Book) (h : Hash) : (b.ancestors h).Nodup := by
  unfold ancestors
  simp only
  rw [first_eq_dedup]
  exact bfs_nodup b _ _ _ (dedupInto_spec [] (b.parentsOf h) [] (by simp) (by simp)).1

/-- every live vertex is a tip or a strict ancestor of a tip (finite acyclic graph) -/
theorem reaches_a_tip (b : Book) (he : EdgeInv b) (v : Vertex) (hv : v ∈ b.verts) :
    ∃ t ∈ b.verts, b.isLeaf t.hash = true ∧ (t.hash = v.hash ∨ Anc b.edges v.hash t.hash) := by
  obtain ⟨rank, hrank⟩ := he.acyclic
  -- a bound on the rank of live vertices
  let B := (b.verts.map (fun x => rank x.hash)).sum + 1
  have hB : ∀ x ∈ b.verts, rank x.hash < B := by
    intro x hx
    have := le_sum_of_mem (List.mem_map.mpr ⟨x, hx, rfl⟩ : rank x.hash ∈ b.verts.map (fun x => rank x.hash))
    show rank x.hash < (b.verts.map (fun x => rank x.hash)).sum + 1
    omega
  -- induction on the distance of the rank to the bound
  have key : ∀ n, ∀ w ∈ b.verts, B - rank w.hash ≤ n →
      ∃ t ∈ b.verts, b.isLeaf t.hash = true ∧ (t.hash = w.hash ∨ Anc b.edges w.hash t.hash) := by
    intro n
    induction n with
    | zero =>
      intro w hw hle
      have := hB w hw
      omega
    | succ n ih =>
      intro w hw hle
      by_cases hl : b.isLeaf w.hash = true
      · exact ⟨w, hw, hl, Or.inl rfl⟩
      · unfold isLeaf at hl
        simp only [Bool.not_eq_eq_eq_not, Bool.not_true, Bool.not_eq_false] at hl
        obtain ⟨e, hem, hee⟩ := List.any_eq_true.mp hl
        have he1 : e.1 = w.hash := by simpa using hee
        have hlive := (he.live e hem).2.1
        obtain ⟨c, hc, hch⟩ := (hasVertex_iff b e.2).mp hlive
        have hr := hrank e hem
        rw [he1, ← hch] at hr
        have hBc := hB c hc
        obtain ⟨t, ht, htl, hreach⟩ := ih c hc (by omega)
        have hedge : (w.hash, c.hash) ∈ b.edges := by
          have : e = (w.hash, c.hash) := by rw [← he1, hch]
          rw [← this]; exact hem
        refine ⟨t, ht, htl, Or.inr ?_⟩
        rcases hreach with h1 | h1
        · rw [h1]; exact Anc.base hedge
        · exact Anc.step hedge h1
  exact key (B - rank v.hash) v hv (Nat.le_refl _)

end CModel.Book

namespace CModel.Book
open CModel

theorem Anc.has_edge {es : List (Hash × Hash)} {x h : Hash} (a : Anc es x h) : ∃ y, (x, y) ∈ es := by
  cases a with
  | base he => exact ⟨_, he⟩
  | step he _ => exact ⟨_, he⟩

theorem leaf_not_anc (b : Book) (l : Hash) (hl : b.isLeaf l = true) (h : Hash) : ¬ Anc b.edges l h := by
  intro a
  obtain ⟨y, hy⟩ := a.has_edge
  unfold isLeaf at hl
  simp only [Bool.not_eq_eq_eq_not, Bool.not_true, List.any_eq_false, beq_iff_eq] at hl
  exact hl _ hy rfl

/-- the hash list StreamDAG emits for the tips `order` -/
def streamHashes (b : Book) (order : List Vertex) : List Hash × List Hash :=
  order.foldl (fun (st : List Hash × List Hash) l =>
    let (out, visited) := st
    let anc := (b.ancestors l.hash).filter (!visited.contains ·)
    (out ++ [l.hash] ++ anc, visited ++ anc)) ([], [])

theorem streamDag_eq (b : Book) (order : List Vertex) :
    b.streamDag order = (streamHashes b order).1.filterMap b.getVertex := rfl

structure StreamInv (b : Book) (done : List Vertex) (out visited : List Hash) : Prop where
  nodup : out.Nodup
  memOut : ∀ x, x ∈ out ↔ (x ∈ done.map (·.hash) ∨ x ∈ visited)
  memVis : ∀ x, x ∈ visited ↔ ∃ t ∈ done, Anc b.edges x t.hash

theorem stream_fold_inv (b : Book) (he : EdgeInv b) (order done : List Vertex) (out visited : List Hash)
    (hleaf : ∀ t ∈ done ++ order, b.isLeaf t.hash = true)
    (hnd : ((done ++ order).map (·.hash)).Nodup)
    (inv : StreamInv b done out visited) :
    ∃ out' visited', order.foldl (fun (st : List Hash × List Hash) l =>
        let (out, visited) := st
        let anc := (b.ancestors l.hash).filter (!visited.contains ·)
        (out ++ [l.hash] ++ anc, visited ++ anc)) (out, visited) = (out', visited') ∧
      StreamInv b (done ++ order) out' visited' := by
  induction order generalizing done out visited with
  | nil => exact ⟨out, visited, rfl, by simpa using inv⟩
  | cons l order ih =>
    have hlive : ∀ e ∈ b.edges, b.hasVertex e.1 = true := fun e hm => (he.live e hm).1
    have hlleaf : b.isLeaf l.hash = true := hleaf l (by simp)
    let anc := (b.ancestors l.hash).filter (!visited.contains ·)
    have hanc : ∀ x, x ∈ anc ↔ (Anc b.edges x l.hash ∧ x ∉ visited) := by
      intro x
      simp only [anc, List.mem_filter, Bool.not_eq_eq_eq_not, Bool.not_true, List.contains_eq_mem, decide_eq_false_iff_not]
      rw [mem_ancestors_iff b hlive]
    have hancNodup : anc.Nodup := (List.filter_sublist).nodup (ancestors_nodup b l.hash)
    have hnotDone : ∀ t ∈ done, t.hash ≠ l.hash := by
      intro t ht e
      rw [List.map_append, List.nodup_append] at hnd
      exact hnd.2.2 t.hash (List.mem_map.mpr ⟨t, ht, rfl⟩) l.hash (by simp) e
    have hlNotVis : l.hash ∉ visited := by
      intro hm
      obtain ⟨t, _, ha⟩ := (inv.memVis l.hash).mp hm
      exact leaf_not_anc b l.hash hlleaf _ ha
    have hlNotOut : l.hash ∉ out := by
      intro hm
      rcases (inv.memOut l.hash).mp hm with h1 | h1
      · obtain ⟨t, ht, hte⟩ := List.mem_map.mp h1
        exact hnotDone t ht hte
      · exact hlNotVis h1
    have hancNotOut : ∀ x ∈ anc, x ∉ out ∧ x ≠ l.hash := by
      intro x hx
      obtain ⟨ha, hv⟩ := (hanc x).mp hx
      constructor
      · intro hm
        rcases (inv.memOut x).mp hm with h1 | h1
        · obtain ⟨t, ht, hte⟩ := List.mem_map.mp h1
          exact leaf_not_anc b x (by rw [← hte]; exact hleaf t (List.mem_append_left _ ht)) _ ha
        · exact hv h1
      · intro e; rw [e] at ha; exact leaf_not_anc b l.hash hlleaf _ ha
    have inv' : StreamInv b (done ++ [l]) (out ++ [l.hash] ++ anc) (visited ++ anc) := by
      refine ⟨?_, ?_, ?_⟩
      · rw [List.nodup_append]
        refine ⟨?_, hancNodup, ?_⟩
        · rw [List.nodup_append]
          exact ⟨inv.nodup, by simp, fun a ha c hc e => by simp at hc; subst hc; exact hlNotOut (e ▸ ha)⟩
        · intro a ha c hc e
          rcases List.mem_append.mp ha with h1 | h1
          · exact (hancNotOut c hc).1 (e ▸ h1)
          · simp only [List.mem_singleton] at h1; exact (hancNotOut c hc).2 (by rw [← e, h1])
      · intro x
        simp only [List.mem_append, List.mem_singleton, List.map_append, List.map_cons, List.map_nil]
        rw [inv.memOut x]
        constructor
        · rintro ((h1 | h1) | h1)
          · rcases h1 with h1 | h1
            · exact Or.inl (Or.inl h1)
            · exact Or.inr (Or.inl h1)
          · exact Or.inl (Or.inr h1)
          · exact Or.inr (Or.inr h1)
        · rintro ((h1 | h1) | (h1 | h1))
          · exact Or.inl (Or.inl (Or.inl h1))
          · exact Or.inl (Or.inr h1)
          · exact Or.inl (Or.inl (Or.inr h1))
          · exact Or.inr h1
      · intro x
        simp only [List.mem_append, List.mem_singleton]
        constructor
        · rintro (h1 | h1)
          · obtain ⟨t, ht, ha⟩ := (inv.memVis x).mp h1
            exact ⟨t, Or.inl ht, ha⟩
          · exact ⟨l, Or.inr rfl, ((hanc x).mp h1).1⟩
        · rintro ⟨t, ht | ht, ha⟩
          · exact Or.inl ((inv.memVis x).mpr ⟨t, ht, ha⟩)
          · subst ht
            by_cases hv : x ∈ visited
            · exact Or.inl hv
            · exact Or.inr ((hanc x).mpr ⟨ha, hv⟩)
    obtain ⟨o', v', hf, hi⟩ := ih (done ++ [l]) (out ++ [l.hash] ++ anc) (visited ++ anc)
      (by intro t ht; exact hleaf t (by simpa [List.append_assoc] using ht))
      (by simpa [List.append_assoc] using hnd) inv'
    exact ⟨o', v', by rw [List.foldl_cons]; exact hf, by simpa [List.append_assoc] using hi⟩

end CModel.Book

namespace CModel.Book
open CModel

theorem nodup_filterMap_inj {α β} (f : α → Option β) (l : List α) (hn : l.Nodup)
    (hinj : ∀ a a' v, f a = some v → f a' = some v → a = a') : (l.filterMap f).Nodup := by
  induction l with
  | nil => simp
  | cons a l ih =>
    simp only [List.nodup_cons] at hn
    rw [List.filterMap_cons]
    cases hfa : f a with
    | none => exact ih hn.2
    | some v =>
      simp only
      rw [List.nodup_cons]
      refine ⟨?_, ih hn.2⟩
      intro hm
      obtain ⟨a', ha', hfa'⟩ := List.mem_filterMap.mp hm
      have := hinj a a' v hfa hfa'
      exact hn.1 (this ▸ ha')

theorem getVertex_some {b : Book} {h : Hash} {v : Vertex} (e : b.getVertex h = some v) : v ∈ b.verts ∧ v.hash = h := by
  unfold getVertex at e
  exact ⟨List.mem_of_find?_eq_some e, by simpa using List.find?_some e⟩

theorem same_hash_eq {l : List Vertex} (hn : (l.map (·.hash)).Nodup) {x y : Vertex} (hx : x ∈ l) (hy : y ∈ l)
    (e : x.hash = y.hash) : x = y := by
  induction l with
  | nil => cases hx
  | cons a l ih =>
    simp only [List.map_cons, List.nodup_cons] at hn
    rcases List.mem_cons.mp hx with hx' | hx' <;> rcases List.mem_cons.mp hy with hy' | hy'
    · rw [hx', hy']
    · subst hx'; exact absurd (List.mem_map.mpr ⟨y, hy', e.symm⟩) hn.1
    · subst hy'; exact absurd (List.mem_map.mpr ⟨x, hx', e⟩) hn.1
    · exact ih hn.2 hx' hy'

theorem getVertex_of_mem {b : Book} (hnd : (b.verts.map (·.hash)).Nodup) {v : Vertex} (hv : v ∈ b.verts) :
    b.getVertex v.hash = some v := by
  cases hf : b.getVertex v.hash with
  | none =>
    unfold getVertex at hf
    have := List.find?_eq_none.mp hf v hv
    exact absurd (beq_self_eq_true v.hash) this
  | some w =>
    obtain ⟨hw, hwh⟩ := getVertex_some hf
    rw [same_hash_eq hnd hw hv hwh]

/-- **StreamDAG emits every live vertex exactly once**, whatever the order in which it visits the tips. -/
theorem streamDag_perm (b : Book) (he : EdgeInv b) (hnd : (b.verts.map (·.hash)).Nodup)
    (order : List Vertex) (ho : order.Perm b.leaves) : (b.streamDag order).Perm b.verts := by
  have hleafMem : ∀ t, t ∈ order ↔ (t ∈ b.verts ∧ b.isLeaf t.hash = true) := by
    intro t
    rw [ho.mem_iff]
    unfold leaves
    simp [List.mem_filter]
  have hordNd : (order.map (·.hash)).Nodup := by
    apply (ho.map _).nodup_iff.mpr
    unfold leaves
    exact (List.filter_sublist.map _).nodup hnd
  obtain ⟨S, V, hf, inv⟩ := stream_fold_inv b he order [] [] []
    (by intro t ht; simp only [List.nil_append] at ht; exact ((hleafMem t).mp ht).2)
    (by simpa using hordNd)
    ⟨by simp, by intro x; simp, by intro x; simp⟩
  simp only [List.nil_append] at inv
  have hSeq : (streamHashes b order).1 = S := by
    unfold streamHashes
    rw [hf]
  rw [streamDag_eq, hSeq]
  have hvertsNd : b.verts.Nodup := nodup_of_nodup_map (·.hash) hnd
  have hSmem : ∀ x, x ∈ S ↔ b.hasVertex x = true := by
    intro x
    rw [inv.memOut, hasVertex_iff]
    constructor
    · rintro (h1 | h1)
      · obtain ⟨t, ht, hte⟩ := List.mem_map.mp h1
        exact ⟨t, ((hleafMem t).mp ht).1, hte⟩
      · obtain ⟨t, _, ha⟩ := (inv.memVis x).mp h1
        obtain ⟨y, hy⟩ := ha.has_edge
        exact (hasVertex_iff b x).mp ((he.live _ hy).1)
    · rintro ⟨v, hv, hvh⟩
      obtain ⟨t, ht, htl, hr⟩ := reaches_a_tip b he v hv
      have hto : t ∈ order := (hleafMem t).mpr ⟨ht, htl⟩
      rcases hr with h1 | h1
      · exact Or.inl (List.mem_map.mpr ⟨t, hto, by rw [h1, hvh]⟩)
      · exact Or.inr ((inv.memVis x).mpr ⟨t, hto, by rw [← hvh]; exact h1⟩)
  apply (List.perm_ext_iff_of_nodup ?_ hvertsNd).mpr
  · intro v
    rw [List.mem_filterMap]
    constructor
    · rintro ⟨x, _, hx⟩; exact (getVertex_some hx).1
    · intro hv
      exact ⟨v.hash, (hSmem v.hash).mpr ((hasVertex_iff b v.hash).mpr ⟨v, hv, rfl⟩), getVertex_of_mem hnd hv⟩
  · apply nodup_filterMap_inj _ _ inv.nodup
    intro a a' v h1 h2
    rw [← (getVertex_some h1).2, ← (getVertex_some h2).2]

end CModel.Book

namespace CModel.Book
open CModel

/-- with a single tip the balance walk covers the whole live ledger -/
theorem walk_perm_of_single_tip (b : Book) (he : EdgeInv b) (hnd : (b.verts.map (·.hash)).Nodup)
    (tip : Vertex) (ht : tip ∈ b.verts) (hl : b.leaves = [tip]) : (walk b tip).Perm b.verts := by
  have := streamDag_perm b he hnd [tip] (by rw [hl])
  have e : b.streamDag [tip] = walk b tip := by
    rw [streamDag_eq]
    unfold streamHashes walk visited
    simp only [List.foldl_cons, List.foldl_nil, List.nil_append, List.contains_nil, Bool.not_false,
      List.singleton_append, List.filterMap_cons]
    rw [getVertex_of_mem hnd ht]
    simp only
    congr 2
    exact List.filter_eq_self.mpr (fun _ _ => rfl)
  rw [e] at this
  exact this

theorem inflow_perm {a : Addr} {l l' : List Vertex} (p : l.Perm l') : inflow a l = inflow a l' := by
  unfold inflow; exact (p.map _).sum_nat
theorem outflow_perm {a : Addr} {l l' : List Vertex} (p : l.Perm l') : outflow a l = outflow a l' := by
  unfold outflow; exact (p.map _).sum_nat

end CModel.Book
