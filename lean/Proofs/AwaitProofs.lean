import CModel.AwaitCache
/-! C17: sequential refinement lemmas for the awaiting-transaction index. -/
namespace CModel.AwaitCache
open Store

/-! ### association-list basics -/

theorem getList_setList_same (s : Store) (a : Addr) (v : Tokens) : (s.setList a v).getList a = some v := by
  simp [getList, setList]

theorem getList_setList_other (s : Store) (a b : Addr) (v : Tokens) (h : b ≠ a) :
    (s.setList a v).getList b = s.getList b := by
  unfold getList setList
  simp only
  rw [List.find?_cons_of_neg (by simpa using Ne.symm h)]
  congr 1
  induction s.lists with
  | nil => rfl
  | cons x xs ih =>
    simp only [List.filter_cons]
    by_cases hx : x.1 = a
    · have hb : ¬ (x.1 == b) = true := by simp [hx, Ne.symm h]
      simp only [hx, bne_self_eq_false, Bool.false_eq_true, if_false]
      rw [List.find?_cons_of_neg (by simpa [hx] using hb)]
      exact ih
    · simp only [bne_iff_ne, ne_eq, hx, not_false_eq_true, if_true, List.find?_cons]
      split
      · rfl
      · exact ih

theorem getList_delList_same (s : Store) (a : Addr) : (s.delList a).getList a = none := by
  unfold getList delList
  simp only [Option.map_eq_none_iff, List.find?_eq_none, List.mem_filter, bne_iff_ne, ne_eq, beq_iff_eq]
  intro x hx; exact hx.2

theorem getList_setTrx (s : Store) (h : Hash) (t : ATrx) (a : Addr) : (s.setTrx h t).getList a = s.getList a := rfl
theorem getList_delTrx (s : Store) (h : Hash) (a : Addr) : (s.delTrx h).getList a = s.getList a := rfl
theorem getTrx_setList (s : Store) (a : Addr) (v : Tokens) (h : Hash) : (s.setList a v).getTrx h = s.getTrx h := rfl
theorem getTrx_delList (s : Store) (a : Addr) (h : Hash) : (s.delList a).getTrx h = s.getTrx h := rfl

theorem getTrx_setTrx_same (s : Store) (h : Hash) (t : ATrx) : (s.setTrx h t).getTrx h = some t := by
  simp [getTrx, setTrx]

theorem getTrx_delTrx_same (s : Store) (h : Hash) : (s.delTrx h).getTrx h = none := by
  unfold getTrx delTrx
  simp only [Option.map_eq_none_iff, List.find?_eq_none, List.mem_filter, bne_iff_ne, ne_eq, beq_iff_eq]
  intro x hx; exact hx.2

/-! ### token lists -/

theorem mem_tAdd (v : Tokens) (h : Hash) : some h ∈ tAdd v h := by
  unfold tAdd; split <;> simp

theorem mem_tAdd_old (v : Tokens) (h x : Hash) (hx : some x ∈ v) : some x ∈ tAdd v h := by
  unfold tAdd
  split
  · rename_i hv; simp only [beq_iff_eq] at hv; rw [hv] at hx; simp at hx
  · exact List.mem_append_left _ hx

theorem not_mem_tRemove (v : Tokens) (h : Hash) : some h ∉ tRemove v h := by
  unfold tRemove; simp

theorem mem_tRemove_other (v : Tokens) (h x : Hash) (hne : x ≠ h) : some x ∈ tRemove v h ↔ some x ∈ v := by
  unfold tRemove; simp [hne]

theorem mem_tRead (v : Tokens) (h : Hash) : h ∈ tRead v ↔ some h ∈ v := by
  unfold tRead; simp

/-! ### the three operations -/

theorem saveAddr_lists (s : Store) (a : Addr) (h : Hash) :
    ∃ v, (saveAddr s a h).getList a = some v ∧ some h ∈ v ∧
      (∀ x, (∃ w, s.getList a = some w ∧ some x ∈ w) → some x ∈ v) ∧
      (∀ x, some x ∈ v → x = h ∨ ∃ w, s.getList a = some w ∧ some x ∈ w) ∧
      (∀ b, b ≠ a → (saveAddr s a h).getList b = s.getList b) ∧
      (∀ k, (saveAddr s a h).getTrx k = s.getTrx k) := by
  unfold saveAddr
  cases hg : s.getList a with
  | none =>
    refine ⟨[some h], getList_setList_same _ _ _, by simp, ?_, ?_, fun b hb => getList_setList_other _ _ _ _ hb, fun k => rfl⟩
    · rintro x ⟨w, hw, _⟩; cases hw
    · intro x hx; simp only [List.mem_cons, Option.some.injEq, List.mem_nil_iff, or_false] at hx; exact Or.inl hx
  | some v =>
    refine ⟨tAdd v h, getList_setList_same _ _ _, mem_tAdd v h, ?_, ?_, fun b hb => getList_setList_other _ _ _ _ hb, fun k => rfl⟩
    · rintro x ⟨w, hw, hx⟩; cases hw; exact mem_tAdd_old v h x hx
    · intro x hx
      unfold tAdd at hx
      split at hx
      · simp only [List.mem_cons, Option.some.injEq, List.mem_nil_iff, or_false] at hx; exact Or.inl hx
      · rcases List.mem_append.1 hx with h1 | h1
        · exact Or.inr ⟨v, rfl, h1⟩
        · simp only [List.mem_cons, Option.some.injEq, List.mem_nil_iff, or_false] at h1; exact Or.inl h1

/-- **After a successful save the transaction is stored and listed for both its issuer and its receiver.** -/
theorem save_ok_lists (s : Store) (t : ATrx) (h : (s.save t).2 = none) :
    (s.save t).1.getTrx t.hash = some t ∧
    (∃ v, (s.save t).1.getList t.issuer = some v ∧ some t.hash ∈ v) ∧
    (∃ v, (s.save t).1.getList t.receiver = some v ∧ some t.hash ∈ v) := by
  unfold save at h ⊢
  cases hg : s.getTrx t.hash with
  | some x => rw [hg] at h; simp at h
  | none =>
    simp only
    by_cases he : t.issuer = t.receiver
    · simp only [he, beq_self_eq_true, if_true, List.foldl_cons, List.foldl_nil]
      obtain ⟨v, h1, h2, _, _, _, h6⟩ := saveAddr_lists (s.setTrx t.hash t) t.receiver t.hash
      exact ⟨by rw [h6]; exact getTrx_setTrx_same _ _ _, ⟨v, h1, h2⟩, ⟨v, h1, h2⟩⟩
    · have hb : (t.issuer == t.receiver) = false := by simpa using he
      simp only [hb, Bool.false_eq_true, if_false, List.foldl_cons, List.foldl_nil]
      obtain ⟨v1, a1, a2, _, _, a5, a6⟩ := saveAddr_lists (s.setTrx t.hash t) t.issuer t.hash
      obtain ⟨v2, b1, b2, _, _, b5, b6⟩ := saveAddr_lists (saveAddr (s.setTrx t.hash t) t.issuer t.hash) t.receiver t.hash
      refine ⟨by rw [b6, a6]; exact getTrx_setTrx_same _ _ _, ⟨v1, ?_, a2⟩, ⟨v2, b1, b2⟩⟩
      rw [b5 _ he]; exact a1

/-- A transaction that is already awaiting is refused and nothing changes. -/
theorem save_exists_noop (s : Store) (t x : ATrx) (h : s.getTrx t.hash = some x) : s.save t = (s, some .exists) := by
  unfold save; rw [h]

/-- **Nobody but the receiver can remove**: the request is refused and nothing changes. -/
theorem remove_by_non_receiver (s : Store) (h : Hash) (a : Addr) (t : ATrx) (ht : s.getTrx h = some t)
    (hne : t.receiver ≠ a) : s.remove h a = (s, some .unauthorized) := by
  unfold remove; rw [ht]; simp [hne]

theorem remove_unknown (s : Store) (h : Hash) (a : Addr) (ht : s.getTrx h = none) : s.remove h a = (s, some .notFound) := by
  unfold remove; rw [ht]

theorem getList_delList_other (s : Store) (a b : Addr) (hb : b ≠ a) : (s.delList a).getList b = s.getList b := by
  unfold getList delList
  simp only
  congr 1
  induction s.lists with
  | nil => rfl
  | cons y ys ih =>
    simp only [List.filter_cons]
    by_cases hy : y.1 = a
    · simp only [hy, bne_self_eq_false, Bool.false_eq_true, if_false]
      rw [List.find?_cons_of_neg (by simpa [hy] using Ne.symm hb)]
      exact ih
    · simp only [bne_iff_ne, ne_eq, hy, not_false_eq_true, if_true, List.find?_cons]
      split
      · rfl
      · exact ih

theorem removeAddr_spec (s : Store) (a : Addr) (h : Hash) :
    (∀ v, (removeAddr s a h).getList a = some v → some h ∉ v) ∧
    (∀ x, x ≠ h → ∀ v, (removeAddr s a h).getList a = some v → some x ∈ v → ∃ w, s.getList a = some w ∧ some x ∈ w) ∧
    (∀ b, b ≠ a → (removeAddr s a h).getList b = s.getList b) ∧
    (∀ k, (removeAddr s a h).getTrx k = s.getTrx k) := by
  unfold removeAddr
  cases hg : s.getList a with
  | none =>
    refine ⟨?_, ?_, fun b _ => rfl, fun k => rfl⟩
    · intro v hv; rw [hg] at hv; cases hv
    · intro x _ v hv; rw [hg] at hv; cases hv
  | some w =>
    simp only
    split
    · refine ⟨?_, ?_, fun b hb => getList_delList_other _ _ _ hb, fun k => rfl⟩
      · intro v hv; rw [getList_delList_same] at hv; cases hv
      · intro x _ v hv; rw [getList_delList_same] at hv; cases hv
    · refine ⟨?_, ?_, fun b hb => getList_setList_other _ _ _ _ hb, fun k => rfl⟩
      · intro v hv; rw [getList_setList_same] at hv; cases hv; exact not_mem_tRemove w h
      · intro x hx v hv hm
        rw [getList_setList_same] at hv; cases hv
        exact ⟨w, rfl, (mem_tRemove_other w h x hx).1 hm⟩

/-- **A successful removal by the receiver takes the transaction off both lists and out of the store.** -/
theorem remove_ok_unlists (s : Store) (h : Hash) (a : Addr) (t : ATrx) (ht : s.getTrx h = some t) (hr : t.receiver = a) :
    (s.remove h a).2 = none ∧ (s.remove h a).1.getTrx h = none ∧
    (∀ v, (s.remove h a).1.getList t.issuer = some v → some h ∉ v) ∧
    (∀ v, (s.remove h a).1.getList t.receiver = some v → some h ∉ v) := by
  subst hr
  unfold remove
  rw [ht]
  simp only [bne_self_eq_false, Bool.false_eq_true, if_false, List.foldl_cons, List.foldl_nil]
  obtain ⟨a1, _, a3, a4⟩ := removeAddr_spec (s.delTrx h) t.issuer h
  obtain ⟨b1, b2, b3, b4⟩ := removeAddr_spec (removeAddr (s.delTrx h) t.issuer h) t.receiver h
  refine ⟨trivial, by rw [b4, a4]; exact getTrx_delTrx_same _ _, ?_, b1⟩
  intro v hv
  by_cases he : t.issuer = t.receiver
  · have := b1 v (by rw [← he]; rw [← he] at hv; exact hv)
    exact this
  · rw [b3 _ he] at hv; exact a1 v hv

/-! ### without the lock: the lost update -/

/-- Two unlocked saves for the same receiver interleaved as get₁ get₂ set₁ set₂ lose the first hash. -/
theorem unlocked_interleaving_loses_update :
    let s0 : Store := { lists := [("r", [some 1])] }
    (interleavedGetGetSetSet s0 "r" 2 3).getList "r" = some [some 1, some 3] := by decide

/-- The locked (atomic) execution of the same two saves keeps both. -/
theorem locked_saves_keep_both :
    let s0 : Store := { lists := [("r", [some 1])] }
    ((s0.save ⟨2, "i", "r"⟩).1.save ⟨3, "j", "r"⟩).1.getList "r" = some [some 1, some 2, some 3] := by decide

end CModel.AwaitCache

namespace CModel.AwaitCache
open Store

theorem getTrx_setTrx_other (s : Store) (h k : Hash) (t : ATrx) (hne : k ≠ h) : (s.setTrx h t).getTrx k = s.getTrx k := by
  unfold getTrx setTrx
  simp only
  rw [List.find?_cons_of_neg (by simpa using Ne.symm hne)]
  congr 1
  induction s.trxs with
  | nil => rfl
  | cons y ys ih =>
    simp only [List.filter_cons]
    by_cases hy : y.1 = h
    · simp only [hy, bne_self_eq_false, Bool.false_eq_true, if_false]
      rw [List.find?_cons_of_neg (by simpa [hy] using Ne.symm hne)]
      exact ih
    · simp only [bne_iff_ne, ne_eq, hy, not_false_eq_true, if_true, List.find?_cons]
      split
      · rfl
      · exact ih

theorem getTrx_delTrx_other (s : Store) (h k : Hash) (hne : k ≠ h) : (s.delTrx h).getTrx k = s.getTrx k := by
  unfold getTrx delTrx
  simp only
  congr 1
  induction s.trxs with
  | nil => rfl
  | cons y ys ih =>
    simp only [List.filter_cons]
    by_cases hy : y.1 = h
    · simp only [hy, bne_self_eq_false, Bool.false_eq_true, if_false]
      rw [List.find?_cons_of_neg (by simpa [hy] using Ne.symm hne)]
      exact ih
    · simp only [bne_iff_ne, ne_eq, hy, not_false_eq_true, if_true, List.find?_cons]
      split
      · rfl
      · exact ih

/-- The index invariant: stored transactions are keyed by their hash, every stored transaction is
listed for its issuer and its receiver, and nothing else is listed. -/
structure IdxInv (s : Store) : Prop where
  keyed : ∀ h t, s.getTrx h = some t → t.hash = h
  listedBoth : ∀ h t, s.getTrx h = some t →
    (∃ v, s.getList t.issuer = some v ∧ some h ∈ v) ∧ (∃ v, s.getList t.receiver = some v ∧ some h ∈ v)
  nothingElse : ∀ a v h, s.getList a = some v → some h ∈ v → ∃ t, s.getTrx h = some t ∧ (t.issuer = a ∨ t.receiver = a)

theorem IdxInv.empty : IdxInv {} where
  keyed := by intro h t ht; cases ht
  listedBoth := by intro h t ht; cases ht
  nothingElse := by intro a v h hv; cases hv

theorem IdxInv.after_save {s : Store} (inv : IdxInv s) (t : ATrx) : IdxInv (s.save t).1 := by
  cases hr : (s.save t).2 with
  | some e =>
    unfold Store.save at hr ⊢
    cases hg : s.getTrx t.hash with
    | some x => simp only; exact inv
    | none => rw [hg] at hr; simp at hr
  | none =>
    have hfresh : s.getTrx t.hash = none := by
      unfold Store.save at hr
      cases hg : s.getTrx t.hash with
      | none => rfl
      | some x => rw [hg] at hr; simp at hr
    obtain ⟨hst, ⟨vi, hvi, hmi⟩, ⟨vr, hvr, hmr⟩⟩ := save_ok_lists s t hr
    -- describe the resulting store
    have hdesc : ∀ k, (s.save t).1.getTrx k = if k = t.hash then some t else s.getTrx k := by
      intro k
      unfold Store.save; rw [hfresh]; simp only
      by_cases he : t.issuer = t.receiver
      · simp only [he, beq_self_eq_true, if_true, List.foldl_cons, List.foldl_nil]
        rw [(saveAddr_lists _ _ _).choose_spec.2.2.2.2.2 k]
        by_cases hk : k = t.hash
        · rw [hk, getTrx_setTrx_same]; simp
        · rw [getTrx_setTrx_other _ _ _ _ hk]; simp [hk]
      · have hb : (t.issuer == t.receiver) = false := by simpa using he
        simp only [hb, Bool.false_eq_true, if_false, List.foldl_cons, List.foldl_nil]
        rw [(saveAddr_lists _ _ _).choose_spec.2.2.2.2.2 k, (saveAddr_lists _ _ _).choose_spec.2.2.2.2.2 k]
        by_cases hk : k = t.hash
        · rw [hk, getTrx_setTrx_same]; simp
        · rw [getTrx_setTrx_other _ _ _ _ hk]; simp [hk]
    have hlists : ∀ a v x, (s.save t).1.getList a = some v → some x ∈ v →
        x = t.hash ∧ (a = t.issuer ∨ a = t.receiver) ∨ ∃ w, s.getList a = some w ∧ some x ∈ w := by
      intro a v x hv hx
      unfold Store.save at hv; rw [hfresh] at hv; simp only at hv
      by_cases he : t.issuer = t.receiver
      · simp only [he, beq_self_eq_true, if_true, List.foldl_cons, List.foldl_nil] at hv
        obtain ⟨v', h1, _, _, h4, h5, _⟩ := saveAddr_lists (s.setTrx t.hash t) t.receiver t.hash
        by_cases ha : a = t.receiver
        · rw [ha, h1] at hv; cases hv
          rcases h4 x hx with rfl | ⟨w, hw, hxw⟩
          · exact Or.inl ⟨rfl, Or.inr ha⟩
          · exact Or.inr ⟨w, by rw [ha]; exact hw, hxw⟩
        · rw [h5 a ha] at hv; exact Or.inr ⟨v, hv, hx⟩
      · have hb : (t.issuer == t.receiver) = false := by simpa using he
        simp only [hb, Bool.false_eq_true, if_false, List.foldl_cons, List.foldl_nil] at hv
        obtain ⟨v1, a1, _, _, a4, a5, _⟩ := saveAddr_lists (s.setTrx t.hash t) t.issuer t.hash
        obtain ⟨v2, b1, _, _, b4, b5, _⟩ := saveAddr_lists (saveAddr (s.setTrx t.hash t) t.issuer t.hash) t.receiver t.hash
        by_cases har : a = t.receiver
        · rw [har, b1] at hv; cases hv
          rcases b4 x hx with rfl | ⟨w, hw, hxw⟩
          · exact Or.inl ⟨rfl, Or.inr har⟩
          · rw [a5 _ (Ne.symm he)] at hw
            exact Or.inr ⟨w, by rw [har]; exact hw, hxw⟩
        · rw [b5 a har] at hv
          by_cases hai : a = t.issuer
          · rw [hai, a1] at hv; cases hv
            rcases a4 x hx with rfl | ⟨w, hw, hxw⟩
            · exact Or.inl ⟨rfl, Or.inl hai⟩
            · exact Or.inr ⟨w, by rw [hai]; exact hw, hxw⟩
          · rw [a5 a hai] at hv; exact Or.inr ⟨v, hv, hx⟩
    have hkeep : ∀ a w x, s.getList a = some w → some x ∈ w → ∃ v, (s.save t).1.getList a = some v ∧ some x ∈ v := by
      intro a w x hw hx
      unfold Store.save; rw [hfresh]; simp only
      by_cases he : t.issuer = t.receiver
      · simp only [he, beq_self_eq_true, if_true, List.foldl_cons, List.foldl_nil]
        obtain ⟨v', h1, _, h3, _, h5, _⟩ := saveAddr_lists (s.setTrx t.hash t) t.receiver t.hash
        by_cases ha : a = t.receiver
        · exact ⟨v', by rw [ha]; exact h1, h3 x ⟨w, by rw [← ha]; exact hw, hx⟩⟩
        · exact ⟨w, by rw [h5 a ha]; exact hw, hx⟩
      · have hb : (t.issuer == t.receiver) = false := by simpa using he
        simp only [hb, Bool.false_eq_true, if_false, List.foldl_cons, List.foldl_nil]
        obtain ⟨v1, a1, _, a3, _, a5, _⟩ := saveAddr_lists (s.setTrx t.hash t) t.issuer t.hash
        obtain ⟨v2, b1, _, b3, _, b5, _⟩ := saveAddr_lists (saveAddr (s.setTrx t.hash t) t.issuer t.hash) t.receiver t.hash
        by_cases har : a = t.receiver
        · refine ⟨v2, by rw [har]; exact b1, b3 x ⟨w, ?_, hx⟩⟩
          rw [a5 _ (Ne.symm he), ← har]; exact hw
        · by_cases hai : a = t.issuer
          · exact ⟨v1, by rw [b5 a har, hai]; exact a1, a3 x ⟨w, by rw [← hai]; exact hw, hx⟩⟩
          · exact ⟨w, by rw [b5 a har, a5 a hai]; exact hw, hx⟩
    refine ⟨?_, ?_, ?_⟩
    · intro h t' ht'
      rw [hdesc] at ht'
      split at ht'
      · rename_i hk; cases ht'; exact hk.symm
      · exact inv.keyed h t' ht'
    · intro h t' ht'
      rw [hdesc] at ht'
      split at ht'
      · rename_i hk; cases ht'; rw [hk]; exact ⟨⟨vi, hvi, hmi⟩, ⟨vr, hvr, hmr⟩⟩
      · obtain ⟨⟨v1, h1, m1⟩, ⟨v2, h2, m2⟩⟩ := inv.listedBoth h t' ht'
        exact ⟨hkeep _ _ _ h1 m1, hkeep _ _ _ h2 m2⟩
    · intro a v x hv hx
      rcases hlists a v x hv hx with ⟨rfl, ha⟩ | ⟨w, hw, hxw⟩
      · exact ⟨t, hst, ha.imp Eq.symm Eq.symm⟩
      · obtain ⟨t', ht', hrel⟩ := inv.nothingElse a w x hw hxw
        refine ⟨t', ?_, hrel⟩
        rw [hdesc]
        split
        · rename_i hk; rw [hk, hfresh] at ht'; cases ht'
        · exact ht'

end CModel.AwaitCache

namespace CModel.AwaitCache
open Store

theorem removeAddr_keeps (s : Store) (a : Addr) (h x : Hash) (hne : x ≠ h) (w : Tokens)
    (hw : s.getList a = some w) (hx : some x ∈ w) :
    ∃ v, (removeAddr s a h).getList a = some v ∧ some x ∈ v := by
  unfold removeAddr
  rw [hw]
  simp only
  split
  · rename_i hv
    simp only [beq_iff_eq] at hv
    rw [hv] at hx; simp at hx
  · exact ⟨tRemove w h, getList_setList_same _ _ _, (mem_tRemove_other w h x hne).2 hx⟩

theorem IdxInv.after_remove {s : Store} (inv : IdxInv s) (h : Hash) (a : Addr) : IdxInv (s.remove h a).1 := by
  cases ht : s.getTrx h with
  | none => rw [remove_unknown s h a ht]; exact inv
  | some t =>
    by_cases hr : t.receiver = a
    · subst hr
      have hk := inv.keyed h t ht
      -- the resulting store, address by address
      have hres : (s.remove h t.receiver).1 = removeAddr (removeAddr (s.delTrx h) t.issuer h) t.receiver h := by
        unfold remove; rw [ht]; simp
      rw [hres]
      obtain ⟨a1, a2, a3, a4⟩ := removeAddr_spec (s.delTrx h) t.issuer h
      obtain ⟨b1, b2, b3, b4⟩ := removeAddr_spec (removeAddr (s.delTrx h) t.issuer h) t.receiver h
      have htrx : ∀ k, (removeAddr (removeAddr (s.delTrx h) t.issuer h) t.receiver h).getTrx k =
          if k = h then none else s.getTrx k := by
        intro k
        rw [b4, a4]
        by_cases hkh : k = h
        · rw [hkh, getTrx_delTrx_same]; simp
        · rw [getTrx_delTrx_other _ _ _ hkh]; simp [hkh]
      -- a hash other than h listed before is still listed
      have keep : ∀ b w x, x ≠ h → s.getList b = some w → some x ∈ w →
          ∃ v, (removeAddr (removeAddr (s.delTrx h) t.issuer h) t.receiver h).getList b = some v ∧ some x ∈ v := by
        intro b w x hx hw hm
        have h1 : ∃ v, (removeAddr (s.delTrx h) t.issuer h).getList b = some v ∧ some x ∈ v := by
          by_cases hb : b = t.issuer
          · rw [hb]; exact removeAddr_keeps _ _ _ _ hx w (by rw [getList_delTrx, ← hb]; exact hw) hm
          · exact ⟨w, by rw [a3 b hb, getList_delTrx]; exact hw, hm⟩
        obtain ⟨v1, hv1, hm1⟩ := h1
        by_cases hb : b = t.receiver
        · rw [hb]; exact removeAddr_keeps _ _ _ _ hx v1 (by rw [← hb]; exact hv1) hm1
        · exact ⟨v1, by rw [b3 b hb]; exact hv1, hm1⟩
      -- whatever is listed afterwards was listed before and is not h (on the two touched lists)
      have back : ∀ b v x, (removeAddr (removeAddr (s.delTrx h) t.issuer h) t.receiver h).getList b = some v → some x ∈ v →
          (x ≠ h ∨ (b ≠ t.issuer ∧ b ≠ t.receiver)) ∧ ∃ w, s.getList b = some w ∧ some x ∈ w := by
        intro b v x hv hm
        by_cases hbr : b = t.receiver
        · rw [hbr] at hv
          have hxh : x ≠ h := fun e => b1 v hv (e ▸ hm)
          obtain ⟨w1, hw1, hm1⟩ := b2 x hxh v hv hm
          by_cases hbi : t.receiver = t.issuer
          · rw [hbi] at hw1
            obtain ⟨w0, hw0, hm0⟩ := a2 x hxh w1 hw1 hm1
            exact ⟨Or.inl hxh, w0, by rw [hbr, hbi, ← getList_delTrx s h]; exact hw0, hm0⟩
          · rw [a3 _ hbi, getList_delTrx] at hw1
            exact ⟨Or.inl hxh, w1, by rw [hbr]; exact hw1, hm1⟩
        · rw [b3 b hbr] at hv
          by_cases hbi : b = t.issuer
          · rw [hbi] at hv
            have hxh : x ≠ h := fun e => a1 v hv (e ▸ hm)
            obtain ⟨w0, hw0, hm0⟩ := a2 x hxh v hv hm
            exact ⟨Or.inl hxh, w0, by rw [hbi, ← getList_delTrx s h]; exact hw0, hm0⟩
          · rw [a3 b hbi, getList_delTrx] at hv
            exact ⟨Or.inr ⟨hbi, hbr⟩, v, hv, hm⟩
      refine ⟨?_, ?_, ?_⟩
      · intro k t' hk'
        rw [htrx] at hk'
        split at hk'
        · cases hk'
        · exact inv.keyed k t' hk'
      · intro k t' hk'
        rw [htrx] at hk'
        split at hk'
        · cases hk'
        · rename_i hkh
          obtain ⟨⟨v1, h1, m1⟩, ⟨v2, h2, m2⟩⟩ := inv.listedBoth k t' hk'
          exact ⟨keep _ _ _ hkh h1 m1, keep _ _ _ hkh h2 m2⟩
      · intro b v x hv hm
        obtain ⟨hcase, w, hw, hmw⟩ := back b v x hv hm
        obtain ⟨t', ht', hrel⟩ := inv.nothingElse b w x hw hmw
        have hxh : x ≠ h := by
          rcases hcase with hc | ⟨hc1, hc2⟩
          · exact hc
          · intro e
            rw [e, ht] at ht'
            cases ht'
            rcases hrel with r | r
            · exact hc1 r.symm
            · exact hc2 r.symm
        exact ⟨t', by rw [htrx]; simp [hxh, ht'], hrel⟩
    · rw [remove_by_non_receiver s h a t ht hr]; exact inv

/-- Under the invariant every listed hash resolves, so a read changes nothing but (possibly) deleting
an empty list entry, and returns exactly the awaiting transactions the address takes part in. -/
theorem read_exact {s : Store} (inv : IdxInv s) (a : Addr) (l : List ATrx) (h : (s.read a).2 = some l) :
    ∀ t, t ∈ l ↔ s.getTrx t.hash = some t ∧ (t.issuer = a ∨ t.receiver = a) := by
  unfold Store.read at h
  cases hg : s.getList a with
  | none => rw [hg] at h; simp at h
  | some v =>
    rw [hg] at h
    simp only at h
    split at h
    · simp at h
    · simp only [Option.some.injEq] at h
      subst h
      intro t
      simp only [List.mem_filterMap, mem_tRead]
      constructor
      · rintro ⟨x, hx, hgt⟩
        obtain ⟨t', ht', hrel⟩ := inv.nothingElse a v x hg hx
        rw [ht'] at hgt; cases hgt
        have := inv.keyed x t ht'
        exact ⟨by rw [this]; exact ht', hrel⟩
      · rintro ⟨hgt, hrel⟩
        obtain ⟨⟨v1, h1, m1⟩, ⟨v2, h2, m2⟩⟩ := inv.listedBoth t.hash t hgt
        rcases hrel with r | r
        · rw [r, hg] at h1; cases h1; exact ⟨t.hash, m1, hgt⟩
        · rw [r, hg] at h2; cases h2; exact ⟨t.hash, m2, hgt⟩

/-- An address with nothing awaiting reads as "not found". -/
theorem read_none {s : Store} (inv : IdxInv s) (a : Addr) (h : (s.read a).2 = none) :
    ∀ t, s.getTrx t.hash = some t → t.issuer ≠ a ∧ t.receiver ≠ a := by
  intro t hgt
  obtain ⟨⟨v1, h1, m1⟩, ⟨v2, h2, m2⟩⟩ := inv.listedBoth t.hash t hgt
  unfold Store.read at h
  constructor
  · intro e
    rw [e] at h1
    rw [h1] at h
    simp only at h
    split at h
    · rename_i hv; simp only [beq_iff_eq] at hv; rw [hv] at m1; simp at m1
    · simp at h
  · intro e
    rw [e] at h2
    rw [h2] at h
    simp only at h
    split at h
    · rename_i hv; simp only [beq_iff_eq] at hv; rw [hv] at m2; simp at m2
    · simp at h

end CModel.AwaitCache

namespace CModel.AwaitCache
open Store

theorem IdxInv.after_read {s : Store} (inv : IdxInv s) (a : Addr) : IdxInv (s.read a).1 := by
  unfold Store.read
  cases hg : s.getList a with
  | none => exact inv
  | some v =>
    simp only
    split
    · -- the list is the single empty token: the key is deleted
      rename_i hv
      simp only [beq_iff_eq] at hv
      refine ⟨inv.keyed, ?_, ?_⟩
      · intro h t ht
        obtain ⟨⟨v1, h1, m1⟩, ⟨v2, h2, m2⟩⟩ := inv.listedBoth h t ht
        have ni : t.issuer ≠ a := by intro e; rw [e, hg] at h1; cases h1; rw [hv] at m1; simp at m1
        have nr : t.receiver ≠ a := by intro e; rw [e, hg] at h2; cases h2; rw [hv] at m2; simp at m2
        exact ⟨⟨v1, by rw [getList_delList_other _ _ _ ni]; exact h1, m1⟩, ⟨v2, by rw [getList_delList_other _ _ _ nr]; exact h2, m2⟩⟩
      · intro b w x hw hx
        by_cases hb : b = a
        · rw [hb, getList_delList_same] at hw; cases hw
        · rw [getList_delList_other _ _ _ hb] at hw
          exact inv.nothingElse b w x hw hx
    · -- every listed hash resolves: nothing to clean up
      have hmiss : (tRead v).filter (fun h => (s.getTrx h).isNone) = [] := by
        apply List.filter_eq_nil_iff.2
        intro x hx
        obtain ⟨t, ht, _⟩ := inv.nothingElse a v x hg ((mem_tRead v x).1 hx)
        simp [ht]
      rw [hmiss]
      exact inv

/-- Operations of the awaiting-transaction index. -/
inductive Op
  | save (t : ATrx) | remove (h : Hash) (a : Addr) | read (a : Addr)

def apply (s : Store) : Op → Store
  | .save t => (s.save t).1
  | .remove h a => (s.remove h a).1
  | .read a => (s.read a).1

/-- **Sequential refinement**: after any sequence of saves, removals and reads (any length, any
arguments, succeeding or failing) the invariant holds. -/
theorem IdxInv.all_sequences (ops : List Op) : IdxInv (ops.foldl apply {}) := by
  suffices h : ∀ s, IdxInv s → IdxInv (ops.foldl apply s) from h {} IdxInv.empty
  induction ops with
  | nil => intro s h; exact h
  | cons op ops ih =>
    intro s h
    simp only [List.foldl_cons]
    apply ih
    cases op with
    | save t => exact h.after_save t
    | remove x a => exact h.after_remove x a
    | read a => exact h.after_read a

end CModel.AwaitCache
