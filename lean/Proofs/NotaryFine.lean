import Proofs.NotaryProofs
/-! C16: the notary with Confirm and Reject split into their two atomic halves (the awaiting-cache removal
under the cache mutex, the sealing under the ledger lock), so that concurrent duplicate calls interleave.
Every interleaving of whole calls and half calls keeps the invariant: a contract is sealed only after the
receiver acted, and at most once. -/
namespace CModel.Notary
open CModel.Tx

/-- notary state plus the calls that have taken their transaction off the awaiting list and have not
reached the ledger yet -/
structure FSt where
  s : St
  pending : List (TrxB × Bool)     -- (transaction to seal, came from Reject?)

inductive FOp
  | whole (op : Op)                                  -- any call executed without interruption
  | confirmRemove (t : TrxB)                         -- Confirm: verify + RemoveAwaitedTransaction
  | rejectRemove (r : SignedHash)                    -- Reject: verify + RemoveAwaitedTransaction
  | sealAt (i : Nat) (ledgerOk : Bool)                 -- the i-th pending call reaches CreateLeaf

def fstep (c : Cfg) (f : FSt) : FOp → FSt
  | .whole op => { f with s := (step c f.s op).1 }
  | .confirmRemove t =>
    if !verifyIssuerReceiver c.o t then f else
    match removeAwaiting f.s t.hash t.receiver with
    | .removed _ s1 => { s := s1, pending := f.pending ++ [(t, false)] }
    | _ => f
  | .rejectRemove r =>
    if !verifySH c r then f else
    match removeAwaiting f.s r.data r.address with
    | .removed t s1 => { s := s1, pending := f.pending ++ [(t, true)] }
    | _ => f
  | .sealAt i lo =>
    match f.pending[i]? with
    | none => f
    | some (t, isRej) =>
      match (if isRej then sealRej f.s t lo else sealTrx f.s t lo) with
      | none => { f with pending := f.pending.eraseIdx i }
      | some s2 => { s := s2, pending := f.pending.eraseIdx i }

def frun (c : Cfg) (f : FSt) : List FOp → FSt
  | [] => f
  | op :: ops => frun c (fstep c f op) ops

/-- the whole call a half call belongs to (what the history of whole calls would have recorded) -/
def FOp.erase : FOp → Op
  | .whole op => op
  | .confirmRemove t => .confirm t false
  | .rejectRemove r => .reject r false
  | .sealAt _ _ => .expire

structure FInv (c : Cfg) (base : List TrxB) (past : List FOp) (f : FSt) : Prop where
  inv : Inv c base (past.map FOp.erase) f.s
  pendingJustified : ∀ p ∈ f.pending, verifyIssuer c.o p.1 = true ∧ Justified c (past.map FOp.erase) p.1

theorem FInv.pending_mono {c : Cfg} {base : List TrxB} {past : List FOp} {f : FSt} (op : FOp) (h : FInv c base past f) :
    ∀ p ∈ f.pending, verifyIssuer c.o p.1 = true ∧ Justified c ((past ++ [op]).map FOp.erase) p.1 := by
  intro p hp
  rw [List.map_append]
  exact ⟨(h.pendingJustified p hp).1, (h.pendingJustified p hp).2.mono _⟩

theorem inv_removed {c : Cfg} {base : List TrxB} {past : List Op} {s s1 : St} {hh a : Bytes} {t0 : TrxB}
    (h : Inv c base past s) (e : removeAwaiting s hh a = .removed t0 s1) : Inv c base past s1 := by
  obtain ⟨_, _, _, ea, es, _, _⟩ := removeAwaiting_removed e
  exact ⟨by rw [ea]; intro x hx; exact h.awaitingVerified x (List.mem_filter.mp hx).1, by rw [es]; exact h.sealedJustified,
         by rw [es]; exact h.sealedOnce, by rw [ea]; exact nodup_filter_hash _ h.awaitingOnce⟩

theorem inv_sealed {c : Cfg} {base : List TrxB} {past : List Op} {s s2 : St} {t : TrxB}
    (h : Inv c base past s) (hns : isSealed s t.hash = false) (e1 : s2.sealed = t :: s.sealed) (e2 : s2.awaiting = s.awaiting)
    (hv : verifyIssuer c.o t = true) (hj : Justified c past t) : Inv c base past s2 := by
  refine ⟨by rw [e2]; exact h.awaitingVerified, ?_, by rw [e1]; exact nodup_cons_hash h.sealedOnce (isSealed_false hns), by rw [e2]; exact h.awaitingOnce⟩
  intro x hx
  rw [e1] at hx
  rcases List.mem_cons.mp hx with rfl | hx
  · exact Or.inr ⟨hv, fun _ => hj⟩
  · exact h.sealedJustified x hx

theorem finv_step {c : Cfg} {base : List TrxB} {past : List FOp} {f : FSt} (op : FOp) (h : FInv c base past f) :
    FInv c base (past ++ [op]) (fstep c f op) := by
  have hp := h.pending_mono op
  have hi : Inv c base ((past ++ [op]).map FOp.erase) f.s := by
    rw [List.map_append]; exact h.inv.past_mono _
  cases op with
  | whole o =>
    refine ⟨?_, hp⟩
    have := inv_step (c := c) o h.inv
    simpa [fstep, FOp.erase, List.map_append] using this
  | confirmRemove t =>
    unfold fstep
    by_cases hv : verifyIssuerReceiver c.o t = true
    · simp only [hv, Bool.not_true, Bool.false_eq_true, ↓reduceIte]
      rcases @removeAwaiting_other f.s t.hash t.receiver with e | e | ⟨t0, s1, e⟩
      · rw [e]; exact ⟨hi, hp⟩
      · rw [e]; exact ⟨hi, hp⟩
      · rw [e]
        refine ⟨inv_removed hi e, ?_⟩
        intro p hm
        rcases List.mem_append.mp hm with hm | hm
        · exact hp p hm
        · simp only [List.mem_singleton] at hm
          subst hm
          exact ⟨verifyIssuerReceiver_issuer hv, Or.inl hv⟩
    · simp only [hv, Bool.not_false, ↓reduceIte]
      exact ⟨hi, hp⟩
  | rejectRemove r =>
    unfold fstep
    by_cases hv : verifySH c r = true
    · simp only [hv, Bool.not_true, Bool.false_eq_true, ↓reduceIte]
      rcases @removeAwaiting_other f.s r.data r.address with e | e | ⟨t0, s1, e⟩
      · rw [e]; exact ⟨hi, hp⟩
      · rw [e]; exact ⟨hi, hp⟩
      · rw [e]
        refine ⟨inv_removed hi e, ?_⟩
        obtain ⟨hm0, hh, hr, _⟩ := removeAwaiting_removed e
        intro p hm
        rcases List.mem_append.mp hm with hm | hm
        · exact hp p hm
        · simp only [List.mem_singleton] at hm
          subst hm
          refine ⟨(h.inv.awaitingVerified _ hm0).1, Or.inr ⟨r, false, ?_, hh.symm, hr.symm, hv⟩⟩
          simp [FOp.erase]
    · simp only [hv, Bool.not_false, ↓reduceIte]
      exact ⟨hi, hp⟩
  | sealAt i lo =>
    unfold fstep
    dsimp only
    split
    · exact ⟨hi, hp⟩
    · rename_i t isRej hg
      have hmem : (t, isRej) ∈ f.pending := List.mem_of_getElem? hg
      have hrest : ∀ p ∈ f.pending.eraseIdx i, verifyIssuer c.o p.1 = true ∧ Justified c ((past ++ [FOp.sealAt i lo]).map FOp.erase) p.1 :=
        fun p hm => hp p (List.mem_of_mem_eraseIdx hm)
      obtain ⟨hv, hj⟩ := hp _ hmem
      split
      · exact ⟨hi, hrest⟩
      · rename_i s2 hs
        cases isRej with
        | true =>
          simp only [↓reduceIte] at hs
          obtain ⟨hns, _, e1, e2, _⟩ := sealRej_some hs
          exact ⟨inv_sealed hi hns e1 e2 hv hj, hrest⟩
        | false =>
          simp only [Bool.false_eq_true, ↓reduceIte] at hs
          obtain ⟨hns, _, e1, e2, _⟩ := sealTrx_some hs
          exact ⟨inv_sealed hi hns e1 e2 hv hj, hrest⟩

theorem finv_run {c : Cfg} {base : List TrxB} (ops : List FOp) {past : List FOp} {f : FSt} (h : FInv c base past f) :
    FInv c base (past ++ ops) (frun c f ops) := by
  induction ops generalizing past f with
  | nil => simpa [frun] using h
  | cons op ops ih =>
    have := ih (finv_step op h)
    simpa [frun, List.append_assoc] using this

/-- `Justified` over the erased history, spelled out over the fine-grained one -/
theorem justified_erase {c : Cfg} {past : List FOp} {t : TrxB} (h : Justified c (past.map FOp.erase) t) :
    verifyIssuerReceiver c.o t = true ∨
    ∃ r, ((∃ lo, FOp.whole (.reject r lo) ∈ past) ∨ FOp.rejectRemove r ∈ past) ∧
      r.data = t.hash ∧ r.address = t.receiver ∧ verifySH c r = true := by
  rcases h with h | ⟨r, lo, hm, h⟩
  · exact Or.inl h
  · refine Or.inr ⟨r, ?_, h⟩
    obtain ⟨fo, hfo, he⟩ := List.mem_map.mp hm
    cases fo with
    | whole o => simp only [FOp.erase] at he; subst he; exact Or.inl ⟨lo, hfo⟩
    | confirmRemove t => simp [FOp.erase] at he
    | rejectRemove r' =>
      simp only [FOp.erase, Op.reject.injEq] at he
      obtain ⟨rfl, _⟩ := he
      exact Or.inr hfo
    | sealAt i l => simp [FOp.erase] at he

end CModel.Notary
