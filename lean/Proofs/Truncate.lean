import Proofs.LedgerReach
import Proofs.Funds
/-! C07: structure of truncation — what moves, what stays, and that the index invariant survives. -/
namespace CModel.Book
open CModel

theorem collectMoved_ok (b : Book) (hs : List Hash) (acc mv : List Vertex)
    (h : collectMoved b hs acc = .ok mv) :
    ∃ new, mv = acc ++ new ∧ new.map (·.hash) = hs ∧ (∀ v ∈ new, v ∈ b.verts) ∧
      (((b.cpVerts ++ acc).map (·.hash)).Nodup → ((b.cpVerts ++ mv).map (·.hash)).Nodup) := by
  induction hs generalizing acc with
  | nil =>
    simp only [collectMoved, Except.ok.injEq] at h
    subst h
    refine ⟨[], by simp, rfl, ?_, ?_⟩
    · intro v hv; cases hv
    · intro hn; exact hn
  | cons x xs ih =>
    simp only [collectMoved] at h
    split at h
    · cases h
    · rename_i v hv
      obtain ⟨hmem, hhash⟩ := getVertex_mem hv
      split at h
      · cases h
      · rename_i hfresh
        obtain ⟨new, e1, e2, e3, e4⟩ := ih (acc ++ [v]) h
        refine ⟨v :: new, by rw [e1]; simp, by simp [e2, hhash], ?_, ?_⟩
        · intro y hy
          rcases List.mem_cons.1 hy with rfl | hy
          · exact hmem
          · exact e3 y hy
        · intro hn
          apply e4
          have hf : ∀ y ∈ b.cpVerts ++ acc, y.hash ≠ v.hash := by
            intro y hy e
            have hf' := hfresh
            simp only [List.any_eq_true, not_exists, not_and, beq_iff_eq] at hf'
            exact hf' y hy e
          rw [← List.append_assoc, List.map_append]
          refine List.nodup_append.2 ⟨hn, by simp, ?_⟩
          intro a ha c hc e
          simp only [List.map_cons, List.map_nil, List.mem_cons, List.mem_nil_iff, or_false] at hc
          subst hc
          obtain ⟨y, hy, rfl⟩ := List.mem_map.1 ha
          exact hf y hy e

theorem foldl_deleteVertex (hs : List Hash) (b : Book) :
    (hs.foldl (fun b h => b.deleteVertex h) b).verts = b.verts.filter (fun v => !hs.contains v.hash) ∧
    (hs.foldl (fun b h => b.deleteVertex h) b).edges = b.edges.filter (fun e => !hs.contains e.1 && !hs.contains e.2) ∧
    (hs.foldl (fun b h => b.deleteVertex h) b).index = b.index ∧
    (hs.foldl (fun b h => b.deleteVertex h) b).cpVerts = b.cpVerts ∧
    (hs.foldl (fun b h => b.deleteVertex h) b).cpFunds = b.cpFunds ∧
    (hs.foldl (fun b h => b.deleteVertex h) b).genesis = b.genesis ∧
    (hs.foldl (fun b h => b.deleteVertex h) b).loaded = b.loaded ∧
    (hs.foldl (fun b h => b.deleteVertex h) b).parked = b.parked := by
  induction hs generalizing b with
  | nil =>
    refine ⟨?_, ?_, rfl, rfl, rfl, rfl, rfl, rfl⟩
    · exact (List.filter_eq_self.2 (by simp)).symm
    · exact (List.filter_eq_self.2 (by simp)).symm
  | cons x xs ih =>
    simp only [List.foldl_cons]
    obtain ⟨h1, h2, h3, h4, h5, h6, h7, h8⟩ := ih (b.deleteVertex x)
    refine ⟨?_, ?_, by rw [h3]; rfl, by rw [h4]; rfl, by rw [h5]; rfl, by rw [h6]; rfl, by rw [h7]; rfl, by rw [h8]; rfl⟩
    · rw [h1, deleteVertex_verts, List.filter_filter]
      congr 1; funext v
      by_cases hx : v.hash = x <;> simp [hx, List.contains_cons, bne]
    · rw [h2, deleteVertex_edges, List.filter_filter]
      congr 1; funext e
      by_cases h1 : e.1 = x <;> by_cases h2 : e.2 = x <;> simp [h1, h2, List.contains_cons, bne]

/-- What a successful truncation does to the book. -/
theorem truncateAt_ok {b : Book} {cut : Hash} (h : (b.truncateAt cut).2 = .ok ()) :
    ∃ mv, mv.map (·.hash) = b.ancestors cut ∧ (∀ v ∈ mv, v ∈ b.verts) ∧
      (((b.cpVerts).map (·.hash)).Nodup → ((b.cpVerts ++ mv).map (·.hash)).Nodup) ∧
      (b.truncateAt cut).1.cpVerts = b.cpVerts ++ mv ∧
      (b.truncateAt cut).1.verts = b.verts.filter (fun v => !(b.ancestors cut).contains v.hash) ∧
      (b.truncateAt cut).1.index = b.index ∧
      (b.truncateAt cut).1.cpFunds = newCpFunds b mv ∧
      (b.truncateAt cut).1.genesis = b.genesis ∧ (b.truncateAt cut).1.loaded = b.loaded := by
  unfold truncateAt at h ⊢
  split at h
  · simp at h
  · rename_i hcut
    rw [if_neg hcut]
    cases hc : collectMoved b (b.ancestors cut) [] with
    | error e => rw [hc] at h; simp at h
    | ok mv =>
      simp only
      obtain ⟨new, e1, e2, e3, e4⟩ := collectMoved_ok b _ [] mv hc
      have hmv : mv = new := by simpa using e1
      rw [← hmv] at e2 e3
      obtain ⟨h1, _, h3, h4, h5, h6, h7, _⟩ :=
        foldl_deleteVertex (b.ancestors cut) { b with cpFunds := newCpFunds b mv, cpVerts := b.cpVerts ++ mv }
      exact ⟨mv, e2, e3, by simpa using e4, h4, h1, h3, h5, h6, h7⟩

/-- A failing truncation leaves the book as it was. -/
theorem truncateAt_err {b : Book} {cut : Hash} {e : Err} (h : (b.truncateAt cut).2 = .error e) :
    (b.truncateAt cut).1 = b := by
  unfold truncateAt at h ⊢
  by_cases hcut : (!b.hasVertex cut) = true
  · rw [if_pos hcut]
  · rw [if_neg hcut] at h ⊢
    cases hc : collectMoved b (b.ancestors cut) [] with
    | error e' => rfl
    | ok mv => rw [hc] at h; simp at h

theorem nodup_map_of_inj {α β} {f : α → β} {l : List α} (hl : l.Nodup)
    (hinj : ∀ x ∈ l, ∀ y ∈ l, f x = f y → x = y) : (l.map f).Nodup := by
  induction l with
  | nil => simp
  | cons a l ih =>
    simp only [List.nodup_cons] at hl
    simp only [List.map_cons, List.nodup_cons, List.mem_map, not_exists, not_and]
    refine ⟨?_, ih hl.2 (fun x hx y hy => hinj x (List.mem_cons_of_mem _ hx) y (List.mem_cons_of_mem _ hy))⟩
    intro x hx e
    have := hinj x (List.mem_cons_of_mem _ hx) a (List.mem_cons_self ..) e
    subst this; exact hl.1 hx

theorem nodup_of_nodup_map {α β} (f : α → β) {l : List α} (h : (l.map f).Nodup) : l.Nodup := by
  induction l with
  | nil => simp
  | cons a l ih =>
    simp only [List.map_cons, List.nodup_cons, List.mem_map, not_exists, not_and] at h
    exact List.nodup_cons.2 ⟨fun ha => h.1 a ha rfl, ih h.2⟩

/-- **C07 uniqueness survives truncation**: the index invariant (no duplicate vertex, no duplicate
transaction over live DAG + storage, exact index) is preserved by `truncateAt`, whatever the cut. -/
theorem IndexInv.truncate {b : Book} (h : IndexInv b) (cut : Hash) : IndexInv (b.truncateAt cut).1 := by
  cases hr : (b.truncateAt cut).2 with
  | error e => rw [truncateAt_err hr]; exact h
  | ok u =>
    obtain ⟨mv, e1, e2, e3, e4, e5, e6, _, _, _⟩ := truncateAt_ok hr
    have hA := h.nodupV
    simp only [allV, List.map_append] at hA
    obtain ⟨nA, nC, dAC⟩ := List.nodup_append.1 hA
    have hCm := e3 nC
    have mvAll : ∀ y ∈ mv, y ∈ allV b := fun y hy => List.mem_append_left _ (e2 y hy)
    have mvHash : ∀ y ∈ mv, (b.ancestors cut).contains y.hash = true := by
      intro y hy
      have : y.hash ∈ mv.map (·.hash) := List.mem_map_of_mem hy
      rw [e1] at this; simpa using this
    have mvNodup : mv.Nodup := by
      have := (List.nodup_append.1 (by simpa [List.map_append] using hCm)).2.1
      exact nodup_of_nodup_map _ this
    -- every live vertex with a moved hash is one of the moved vertices
    have covered : ∀ x ∈ b.verts, (b.ancestors cut).contains x.hash = true → x ∈ mv := by
      intro x hx hc
      have : x.hash ∈ mv.map (·.hash) := by rw [e1]; simpa using hc
      obtain ⟨y, hy, hyx⟩ := List.mem_map.1 this
      have := nodup_map_inj h.nodupV (List.mem_append_left _ (e2 y hy)) (List.mem_append_left _ hx) hyx
      subst this; exact hy
    have memNew : ∀ x, x ∈ allV (b.truncateAt cut).1 ↔ x ∈ allV b := by
      intro x
      simp only [allV, e4, e5, List.mem_append, List.mem_filter, Bool.not_eq_true']
      constructor
      · rintro (⟨hx, _⟩ | hx | hx)
        · exact Or.inl hx
        · exact Or.inr hx
        · exact Or.inl (e2 x hx)
      · rintro (hx | hx)
        · by_cases hc : (b.ancestors cut).contains x.hash = true
          · exact Or.inr (Or.inr (covered x hx hc))
          · exact Or.inl ⟨hx, by simpa using hc⟩
        · exact Or.inr (Or.inl hx)
    constructor
    · -- vertex hashes
      simp only [allV, e4, e5, List.map_append]
      have hCm' : (List.map (·.hash) b.cpVerts ++ List.map (·.hash) mv).Nodup := by simpa [List.map_append] using hCm
      refine List.nodup_append.2 ⟨List.Nodup.sublist (List.Sublist.map _ List.filter_sublist) nA, hCm', ?_⟩
      intro a ha c hc e
      obtain ⟨x, hx, rfl⟩ := List.mem_map.1 ha
      simp only [List.mem_filter, Bool.not_eq_true'] at hx
      rcases List.mem_append.1 hc with hc | hc
      · exact dAC _ (List.mem_map_of_mem hx.1) _ hc e
      · obtain ⟨y, hy, rfl⟩ := List.mem_map.1 hc
        have := mvHash y hy
        rw [← e] at this; rw [this] at hx; exact absurd hx.2 (by simp)
    · -- transaction hashes
      have hT := h.nodupT
      have injT : ∀ x ∈ allV b, ∀ y ∈ allV b, x.trx.hash = y.trx.hash → x = y :=
        fun x hx y hy e => nodup_map_inj hT hx hy e
      have nd : (allV (b.truncateAt cut).1).Nodup := by
        have : ((allV (b.truncateAt cut).1).map (·.hash)).Nodup := by
          simp only [allV, e4, e5, List.map_append]
          have hCm' : (List.map (·.hash) b.cpVerts ++ List.map (·.hash) mv).Nodup := by simpa [List.map_append] using hCm
          refine List.nodup_append.2 ⟨List.Nodup.sublist (List.Sublist.map _ List.filter_sublist) nA, hCm', ?_⟩
          intro a ha c hc e
          obtain ⟨x, hx, rfl⟩ := List.mem_map.1 ha
          simp only [List.mem_filter, Bool.not_eq_true'] at hx
          rcases List.mem_append.1 hc with hc | hc
          · exact dAC _ (List.mem_map_of_mem hx.1) _ hc e
          · obtain ⟨y, hy, rfl⟩ := List.mem_map.1 hc
            have := mvHash y hy
            rw [← e] at this; rw [this] at hx; exact absurd hx.2 (by simp)
        exact nodup_of_nodup_map _ this
      exact nodup_map_of_inj nd (fun x hx y hy e => injT x ((memNew x).1 hx) y ((memNew y).1 hy) e)
    · rw [e6]; exact h.nodupI
    · intro x hx; rw [e6]; exact h.holders x ((memNew x).1 hx)
    · intro e he
      rw [e6] at he
      obtain ⟨x, hx, h1, h2⟩ := h.noDangling e he
      exact ⟨x, (memNew x).2 hx, h1, h2⟩

/-- Every moved vertex stays retrievable by hash with identical content, and what is still live is
read from the DAG as before. -/
theorem readVertex_after_truncate {b : Book} (h : IndexInv b) (cut : Hash) (v : Vertex) (hv : v ∈ allV b) :
    (b.truncateAt cut).1.readVertex v.hash = some v := by
  have inv' := h.truncate cut
  have hmem : v ∈ allV (b.truncateAt cut).1 := by
    cases hr : (b.truncateAt cut).2 with
    | error e => rw [truncateAt_err hr]; exact hv
    | ok u =>
      obtain ⟨mv, e1, e2, e3, e4, e5, e6, _, _, _⟩ := truncateAt_ok hr
      simp only [allV, e4, e5, List.mem_append, List.mem_filter, Bool.not_eq_true']
      rcases List.mem_append.1 hv with hx | hx
      · by_cases hc : (b.ancestors cut).contains v.hash = true
        · have : v.hash ∈ mv.map (·.hash) := by rw [e1]; simpa using hc
          obtain ⟨y, hy, hyx⟩ := List.mem_map.1 this
          have := nodup_map_inj h.nodupV (List.mem_append_left _ (e2 y hy)) (List.mem_append_left _ hx) hyx
          subst this; exact Or.inr (Or.inr hy)
        · exact Or.inl ⟨hx, by simpa using hc⟩
      · exact Or.inr (Or.inl hx)
  -- with unique hashes, a lookup by hash finds exactly this vertex
  have key : ∀ (l1 l2 : List Vertex), ((l1 ++ l2).map (·.hash)).Nodup → v ∈ l1 ++ l2 →
      (match l1.find? (·.hash == v.hash) with
       | some x => some x
       | none => l2.find? (·.hash == v.hash)) = some v := by
    intro l1 l2 hn hm
    have inj : ∀ x : Vertex, x ∈ l1 ++ l2 → x.hash = v.hash → x = v := fun x hx e => nodup_map_inj hn hx hm e
    cases h1 : l1.find? (·.hash == v.hash) with
    | some x =>
      have hx := List.mem_of_find?_eq_some h1
      have hxh : x.hash = v.hash := by simpa using List.find?_some h1
      simp only
      rw [inj x (List.mem_append_left _ hx) hxh]
    | none =>
      simp only
      have hnot : v ∉ l1 := fun hv1 => by
        have := List.find?_eq_none.1 h1 v hv1
        simp at this
      have hv2 : v ∈ l2 := by
        rcases List.mem_append.1 hm with h | h
        · exact absurd h hnot
        · exact h
      cases h2 : l2.find? (·.hash == v.hash) with
      | none =>
        have := List.find?_eq_none.1 h2 v hv2
        simp at this
      | some x =>
        have hx := List.mem_of_find?_eq_some h2
        have hxh : x.hash = v.hash := by simpa using List.find?_some h2
        rw [inj x (List.mem_append_right _ hx) hxh]
  unfold readVertex getVertex cpGetVertex
  exact key _ _ inv'.nodupV hmem

end CModel.Book

namespace CModel.Book
open CModel CModel.Melange

theorem supply_fst_canon (m a : Melange) (hm : m.canonB = true) (ha : a.canonB = true) :
    (m.supply a).1.canonB = true := by
  rcases supply_cases m a ((canonB_iff _).1 hm) ((canonB_iff _).1 ha) with ⟨r, hr, _, hc⟩ | ⟨hr, _⟩
  · rw [hr]; exact (canonB_iff _).2 hc
  · rw [hr]; exact hm

theorem drain_fst_canon (m a : Melange) (hm : m.canonB = true) (ha : a.canonB = true) :
    (m.drain a Melange.zero).1.canonB = true := by
  unfold drain
  rcases transfer_cases a m Melange.zero ((canonB_iff _).1 ha) ((canonB_iff _).1 hm) canon_zero with
    ⟨f, t, hr, _, _, hc, _⟩ | ⟨hr, _⟩ | ⟨hr, _⟩
  · rw [hr]; exact (canonB_iff _).2 hc
  · rw [hr]; exact hm
  · rw [hr]; exact hm

def PreCanon (p : Pre) : Prop := p.inn.canonB = true ∧ p.out.canonB = true

theorem fmGet_canon (m : List (Addr × Pre)) (hm : ∀ e ∈ m, PreCanon e.2) (a : Addr) : PreCanon (fmGet m a) := by
  unfold fmGet
  cases hf : m.find? (·.1 == a) with
  | none => exact ⟨by decide, by decide⟩
  | some e => exact hm e (List.mem_of_find?_eq_some hf)

theorem fmSet_canon (m : List (Addr × Pre)) (hm : ∀ e ∈ m, PreCanon e.2) (a : Addr) (p : Pre) (hp : PreCanon p) :
    ∀ e ∈ fmSet m a p, PreCanon e.2 := by
  unfold fmSet
  split
  · intro e he
    obtain ⟨x, hx, rfl⟩ := List.mem_map.1 he
    split
    · exact hp
    · exact hm x hx
  · intro e he
    rcases List.mem_append.1 he with h | h
    · exact hm e h
    · simp only [List.mem_cons, List.mem_nil_iff, or_false] at h; subst h; exact hp

theorem fmNext_canon (m : List (Addr × Pre)) (hm : ∀ e ∈ m, PreCanon e.2) (v : Vertex) (hv : v.trx.spice.canonB = true) :
    ∀ e ∈ fmNext m v, PreCanon e.2 := by
  unfold fmNext
  split
  · exact hm
  · unfold fmUpdate
    have h1 := fmGet_canon m hm v.trx.issuer
    have hm1 := fmSet_canon m hm v.trx.issuer { fmGet m v.trx.issuer with out := ((fmGet m v.trx.issuer).out.supply v.trx.spice).1 }
      ⟨h1.1, supply_fst_canon _ _ h1.2 hv⟩
    have h2 := fmGet_canon _ hm1 v.trx.receiver
    exact fmSet_canon _ hm1 v.trx.receiver _ ⟨supply_fst_canon _ _ h2.1 hv, h2.2⟩

theorem cpFundsSet_canon (l : List (Addr × Melange)) (hl : ∀ e ∈ l, e.2.canonB = true) (a : Addr) (s : Melange)
    (hs : s.canonB = true) : ∀ e ∈ cpFundsSet l a s, e.2.canonB = true := by
  unfold cpFundsSet
  split
  · intro e he
    obtain ⟨x, hx, rfl⟩ := List.mem_map.1 he
    split
    · exact hs
    · exact hl x hx
  · intro e he
    rcases List.mem_append.1 he with h | h
    · exact hl e h
    · simp only [List.mem_cons, List.mem_nil_iff, or_false] at h; subst h; exact hs

/-- Checkpointed funds stay canonical through truncation. -/
theorem newCpFunds_canon (b : Book) (mv : List Vertex) (hcp : ∀ e ∈ b.cpFunds, e.2.canonB = true)
    (hmv : ∀ v ∈ mv, v.trx.spice.canonB = true) : ∀ e ∈ newCpFunds b mv, e.2.canonB = true := by
  unfold newCpFunds
  simp only
  have h0 : ∀ e ∈ b.cpFunds.map (fun e => (e.1, ({ inn := e.2 } : Pre))), PreCanon e.2 := by
    intro e he
    obtain ⟨x, hx, rfl⟩ := List.mem_map.1 he
    exact ⟨hcp x hx, (by decide : Melange.zero.canonB = true)⟩
  have hfm : ∀ (vs : List Vertex) (m : List (Addr × Pre)), (∀ e ∈ m, PreCanon e.2) →
      (∀ v ∈ vs, v.trx.spice.canonB = true) → ∀ e ∈ vs.foldl fmNext m, PreCanon e.2 := by
    intro vs
    induction vs with
    | nil => intro m hm _; exact hm
    | cons v vs ih =>
      intro m hm hv
      simp only [List.foldl_cons]
      exact ih _ (fmNext_canon m hm v (hv v (List.mem_cons_self ..))) (fun x hx => hv x (List.mem_cons_of_mem _ hx))
  have hfin := hfm mv _ h0 hmv
  have hset : ∀ (fm : List (Addr × Pre)) (l : List (Addr × Melange)), (∀ e ∈ fm, PreCanon e.2) →
      (∀ e ∈ l, e.2.canonB = true) →
      ∀ e ∈ fm.foldl (fun l e => cpFundsSet l e.1 (fmFinal e.2)) l, e.2.canonB = true := by
    intro fm
    induction fm with
    | nil => intro l _ hl; exact hl
    | cons p ps ih =>
      intro l hfm hl
      simp only [List.foldl_cons]
      have hp := hfm p (List.mem_cons_self ..)
      exact ih _ (fun e he => hfm e (List.mem_cons_of_mem _ he))
        (cpFundsSet_canon l hl p.1 _ (by unfold fmFinal; exact drain_fst_canon _ _ hp.1 hp.2))
  exact hset _ _ hfin hcp

theorem mem_allV_truncate {b : Book} (h : IndexInv b) (cut : Hash) (x : Vertex) :
    x ∈ allV (b.truncateAt cut).1 ↔ x ∈ allV b := by
  cases hr : (b.truncateAt cut).2 with
  | error e => rw [truncateAt_err hr]
  | ok u =>
    obtain ⟨mv, e1, e2, e3, e4, e5, e6, _, _, _⟩ := truncateAt_ok hr
    simp only [allV, e4, e5, List.mem_append, List.mem_filter, Bool.not_eq_true']
    constructor
    · rintro (⟨hx, _⟩ | hx | hx)
      · exact Or.inl hx
      · exact Or.inr hx
      · exact Or.inl (e2 x hx)
    · rintro (hx | hx)
      · by_cases hc : (b.ancestors cut).contains x.hash = true
        · have : x.hash ∈ mv.map (·.hash) := by rw [e1]; simpa using hc
          obtain ⟨y, hy, hyx⟩ := List.mem_map.1 this
          have := nodup_map_inj h.nodupV (List.mem_append_left _ (e2 y hy)) (List.mem_append_left _ hx) hyx
          subst this; exact Or.inr (Or.inr hy)
        · exact Or.inl ⟨hx, by simpa using hc⟩
      · exact Or.inr (Or.inl hx)

/-- Every ledger invariant survives truncation at any cut. -/
theorem LedgerInv.truncate {b : Book} (h : LedgerInv b) (cut : Hash) : LedgerInv (b.truncateAt cut).1 := by
  have hmem := mem_allV_truncate h.idx cut
  cases hr : (b.truncateAt cut).2 with
  | error e => rw [truncateAt_err hr]; exact h
  | ok u =>
    obtain ⟨mv, e1, e2, e3, e4, e5, e6, e7, e8, e9⟩ := truncateAt_ok hr
    refine ⟨h.idx.truncate cut, ?_, ?_, ?_, ?_, ?_⟩
    · intro v hv; rw [e8]; exact h.sealing v ((hmem v).1 hv)
    · intro v hv; rw [e5] at hv; exact h.verified v (List.mem_filter.1 hv).1
    · intro v hv; exact h.canon v ((hmem v).1 hv)
    · rw [e7]
      exact newCpFunds_canon b mv h.cpCanon (fun v hv => h.canon v (List.mem_append_left _ (e2 v hv)))
    · intro p hp
      have hpk : (b.truncateAt cut).1.parked = b.parked := by
        unfold truncateAt
        split
        · rfl
        · split
          · rfl
          · exact (foldl_deleteVertex _ _).2.2.2.2.2.2.2
      rw [hpk] at hp
      have := h.parkOk p hp
      unfold AddGuards at this ⊢
      rw [e9]; exact this

end CModel.Book
