import CModel.Spice
/-! Helper lemmas for C05 (spice arithmetic). Core Lean only. -/
namespace CModel.Melange

theorem maxSupp_toNat : maxSupp.toNat = 1000000000000000000 := by decide
theorem maxU_toNat : maxU.toNat = 18446744073709551615 := by decide

/-- Normalisation set used by all UInt64 goals in this file. -/
macro "u64norm" : tactic => `(tactic|
  simp only [UInt64.lt_iff_toNat_lt, UInt64.le_iff_toNat_le, UInt64.toNat_add, UInt64.toNat_sub,
    UInt64.toNat_ofNat, ← UInt64.toNat_inj, ge_iff_le, gt_iff_lt, not_and, maxSupp_toNat, maxU_toNat,
    Nat.not_lt, Nat.not_le, val, Canon] at *)

/-- 2^64 · 10^18: the first value a canonical Melange cannot represent. -/
def capacity : Nat := 18446744073709551616 * 1000000000000000000

/-- Complete case analysis of `supply` on canonical arguments. -/
theorem supply_cases (m a : Melange) (hm : Canon m) (ha : Canon a) :
    (∃ m', supply m a = (m', none) ∧ val m' = val m + val a ∧ Canon m') ∨
    (supply m a = (m, some .overflow) ∧ val m + val a ≥ capacity) := by
  obtain ⟨mc, ms⟩ := m
  obtain ⟨ac, as⟩ := a
  have b1 := mc.toNat_lt; have b2 := ms.toNat_lt; have b3 := ac.toNat_lt; have b4 := as.toNat_lt
  rw [supply_eq]
  unfold supplyImpl capacity
  simp only
  by_cases h1 : maxU - ac < mc
  · right; rw [if_pos h1]; refine ⟨rfl, ?_⟩; u64norm; omega
  · rw [if_neg h1]
    by_cases h2 : maxSupp - as ≤ ms ∧ mc + ac = maxU
    · right; rw [if_pos h2]; refine ⟨rfl, ?_⟩; u64norm; omega
    · rw [if_neg h2]
      by_cases h3 : ms + as ≥ maxSupp
      · left; rw [if_pos h3]; refine ⟨_, rfl, ?_⟩; u64norm; omega
      · left; rw [if_neg h3]; refine ⟨_, rfl, ?_⟩; u64norm; omega

/-- `supply` never reports any error other than overflow, and an error leaves the receiver untouched
(no canonicity needed). -/
theorem supply_err_unchanged (m a m' : Melange) (e : Err) (h : supply m a = (m', some e)) :
    m' = m ∧ e = .overflow := by
  rw [supply_eq] at h
  unfold supplyImpl at h
  simp only at h
  split at h
  · cases h; exact ⟨rfl, rfl⟩
  · split at h
    · cases h; exact ⟨rfl, rfl⟩
    · split at h <;> cases h

/-- Complete case analysis of `transfer` on canonical arguments. -/
theorem transfer_cases (amt frm to : Melange) (ha : Canon amt) (hf : Canon frm) (ht : Canon to) :
    (∃ f' t', transfer amt frm to = (f', t', none) ∧ val f' + val amt = val frm ∧
        val t' = val to + val amt ∧ Canon f' ∧ Canon t') ∨
    (transfer amt frm to = (frm, to, some .insufficient) ∧ val amt > val frm) ∨
    (transfer amt frm to = (frm, to, some .overflow) ∧ val to + val amt ≥ capacity) := by
  obtain ⟨ac, as⟩ := amt
  obtain ⟨fc, fs⟩ := frm
  obtain ⟨tc, ts⟩ := to
  have b1 := ac.toNat_lt; have b2 := as.toNat_lt; have b3 := fc.toNat_lt; have b4 := fs.toNat_lt
  have b5 := tc.toNat_lt; have b6 := ts.toNat_lt
  rw [transfer_eq]
  unfold transferImpl capacity
  simp only
  by_cases h1 : ac > fc
  · right; left; rw [if_pos h1]; refine ⟨rfl, ?_⟩; u64norm; omega
  · rw [if_neg h1]
    by_cases h2 : maxU - ac < tc
    · right; right; rw [if_pos h2]; refine ⟨rfl, ?_⟩; u64norm; omega
    · rw [if_neg h2]
      by_cases h3 : maxSupp - as ≤ ts ∧ tc + ac = maxU
      · right; right; rw [if_pos h3]; refine ⟨rfl, ?_⟩; u64norm; omega
      · rw [if_neg h3]
        by_cases h4 : as > fs
        · rw [if_pos h4]
          by_cases h5 : fc - ac = 0
          · right; left; rw [if_pos h5]; refine ⟨rfl, ?_⟩; u64norm; omega
          · rw [if_neg h5]
            by_cases h6 : ts + as ≥ maxSupp
            · left; rw [if_pos h6]; refine ⟨_, _, rfl, ?_⟩; u64norm; omega
            · left; rw [if_neg h6]; refine ⟨_, _, rfl, ?_⟩; u64norm; omega
        · rw [if_neg h4]
          by_cases h6 : ts + as ≥ maxSupp
          · left; rw [if_pos h6]; refine ⟨_, _, rfl, ?_⟩; u64norm; omega
          · left; rw [if_neg h6]; refine ⟨_, _, rfl, ?_⟩; u64norm; omega

/-- A failing `transfer` changes neither side, whatever the arguments (no canonicity needed). -/
theorem transfer_err_unchanged (amt frm to f' t' : Melange) (e : Err)
    (h : transfer amt frm to = (f', t', some e)) : f' = frm ∧ t' = to := by
  rw [transfer_eq] at h
  unfold transferImpl at h
  simp only at h
  repeat' split at h
  all_goals first | (cases h; exact ⟨rfl, rfl⟩) | cases h

theorem canon_zero : Canon zero := by decide
theorem val_zero : val zero = 0 := by decide

end CModel.Melange
