import Proofs.Reachable
/-! C09: the ledger graph stays a well-formed DAG (edges between live, declared parents only; acyclic). -/
namespace CModel.Book
open CModel

structure EdgeInv (b : Book) : Prop where
  live : ∀ e ∈ b.edges, b.hasVertex e.1 = true ∧ b.hasVertex e.2 = true ∧ e.1 ≠ e.2
  declared : ∀ e ∈ b.edges, ∃ v ∈ b.verts, v.hash = e.2 ∧ (e.1 = v.left ∨ e.1 = v.right)
  acyclic : ∃ rank : Hash → Nat, ∀ e ∈ b.edges, rank e.1 < rank e.2

theorem le_sum_of_mem {l : List Nat} {n : Nat} (h : n ∈ l) : n ≤ l.sum := by
  induction l with
  | nil => cases h
  | cons a l ih =>
    simp only [List.sum_cons]
    rcases List.mem_cons.1 h with rfl | h
    · omega
    · have := ih h; omega

theorem hasVertex_iff (b : Book) (h : Hash) : b.hasVertex h = true ↔ ∃ v ∈ b.verts, v.hash = h := by
  unfold hasVertex; simp

theorem EdgeInv.congr {b b' : Book} (h : EdgeInv b) (hv : b'.verts = b.verts) (he : b'.edges = b.edges) : EdgeInv b' := by
  constructor
  · intro e hm; rw [he] at hm; unfold hasVertex; rw [hv]; exact h.live e hm
  · intro e hm; rw [he] at hm; rw [hv]; exact h.declared e hm
  · rw [he]; exact h.acyclic

/-- Removing a set of vertices together with every edge touching them keeps the invariant. -/
theorem EdgeInv.remove {b b' : Book} (h : EdgeInv b) (gone : Hash → Bool)
    (hv : b'.verts = b.verts.filter (fun v => !gone v.hash))
    (he : b'.edges = b.edges.filter (fun e => !gone e.1 && !gone e.2)) : EdgeInv b' := by
  have hlive : ∀ x, b.hasVertex x = true → gone x = false → b'.hasVertex x = true := by
    intro x hx hg
    obtain ⟨v, hvm, rfl⟩ := (hasVertex_iff b x).1 hx
    exact (hasVertex_iff b' _).2 ⟨v, by rw [hv]; exact List.mem_filter.2 ⟨hvm, by simp [hg]⟩, rfl⟩
  constructor
  · intro e hm
    rw [he] at hm
    obtain ⟨hm, hg⟩ := List.mem_filter.1 hm
    simp only [Bool.and_eq_true, Bool.not_eq_true'] at hg
    obtain ⟨l1, l2, l3⟩ := h.live e hm
    exact ⟨hlive _ l1 hg.1, hlive _ l2 hg.2, l3⟩
  · intro e hm
    rw [he] at hm
    obtain ⟨hm, hg⟩ := List.mem_filter.1 hm
    simp only [Bool.and_eq_true, Bool.not_eq_true'] at hg
    obtain ⟨v, hvm, h1, h2⟩ := h.declared e hm
    exact ⟨v, by rw [hv]; exact List.mem_filter.2 ⟨hvm, by simp [h1, hg.2]⟩, h1, h2⟩
  · obtain ⟨r, hr⟩ := h.acyclic
    exact ⟨r, fun e hm => hr e (by rw [he] at hm; exact (List.mem_filter.1 hm).1)⟩

theorem EdgeInv.tr {b b' : Book} (h : EdgeInv b) (t : Tr b b') : EdgeInv b' := by
  cases t with
  | misc c => exact h.congr c.1 c.2.1
  | drop v hv hl =>
    apply h.remove (fun x => x == v.hash)
    · simp only [indexRemove_verts, deleteVertex_verts]
      congr 1
    · simp only [indexRemove_edges, deleteVertex_edges]
      congr 1
  | insert v es ok hes hcomp hzero =>
    have fresh : ∀ e ∈ b.edges, e.1 ≠ v.hash ∧ e.2 ≠ v.hash := by
      intro e hm
      obtain ⟨l1, l2, _⟩ := h.live e hm
      constructor
      · intro eq; rw [eq, ok.freshV] at l1; cases l1
      · intro eq; rw [eq, ok.freshV] at l2; cases l2
    have hvNew : ∀ x, b.hasVertex x = true →
        ({ b with index := b.index ++ [(v.trx.hash, v.hash)], verts := b.verts ++ [v], edges := b.edges ++ es } : Book).hasVertex x = true := by
      intro x hx
      simp only [hasVertex, List.any_append, Bool.or_eq_true]
      exact Or.inl hx
    constructor
    · intro e hm
      simp only [List.mem_append] at hm
      rcases hm with hm | hm
      · obtain ⟨l1, l2, l3⟩ := h.live e hm
        exact ⟨hvNew _ l1, hvNew _ l2, l3⟩
      · obtain ⟨h1, _, h3, h4⟩ := hes e hm
        refine ⟨hvNew _ h3, ?_, by rw [h1]; exact h4⟩
        rw [h1]; simp [hasVertex]
    · intro e hm
      simp only [List.mem_append] at hm
      rcases hm with hm | hm
      · obtain ⟨x, hx, h1, h2⟩ := h.declared e hm
        exact ⟨x, List.mem_append_left _ hx, h1, h2⟩
      · obtain ⟨h1, h2, _, _⟩ := hes e hm
        exact ⟨v, by simp, h1.symm, h2⟩
    · obtain ⟨r, hr⟩ := h.acyclic
      let M := (b.verts.map (fun x => r x.hash)).sum + 1
      refine ⟨fun x => if x = v.hash then M else r x, ?_⟩
      intro e hm
      simp only [List.mem_append] at hm
      rcases hm with hm | hm
      · obtain ⟨f1, f2⟩ := fresh e hm
        simp only [f1, f2, if_false]
        exact hr e hm
      · obtain ⟨h1, _, h3, h4⟩ := hes e hm
        simp only [h1, h4, if_false, if_true]
        obtain ⟨x, hx, hxh⟩ := (hasVertex_iff b _).1 h3
        have : r e.1 ≤ (b.verts.map (fun x => r x.hash)).sum := by
          apply le_sum_of_mem
          exact List.mem_map.2 ⟨x, hx, by rw [hxh]⟩
        omega
  | unlink x hx =>
    apply h.remove (fun y => y == x)
    · simp only
      symm; apply List.filter_eq_self.2
      intro v hv
      have : v.hash ≠ x := by
        intro e
        have := (hasVertex_iff b x).2 ⟨v, hv, e⟩
        rw [hx] at this; cases this
      simp [this]
    · simp only
      congr 1

theorem EdgeInv.steps {b b' : Book} (h : EdgeInv b) (s : Steps b b') : EdgeInv b' := by
  induction s with
  | refl => exact h
  | tail _ t ih => exact ih.tr t

theorem EdgeInv.truncate {b : Book} (h : EdgeInv b) (cut : Hash) : EdgeInv (b.truncateAt cut).1 := by
  cases hr : (b.truncateAt cut).2 with
  | error e => rw [truncateAt_err hr]; exact h
  | ok u =>
    unfold truncateAt at hr ⊢
    split at hr
    · simp at hr
    · rename_i hcut
      rw [if_neg hcut]
      cases hc : collectMoved b (b.ancestors cut) [] with
      | error e => rw [hc] at hr; simp at hr
      | ok mv =>
        simp only
        obtain ⟨h1, h2, _⟩ :=
          foldl_deleteVertex (b.ancestors cut) { b with cpFunds := newCpFunds b mv, cpVerts := b.cpVerts ++ mv }
        exact h.remove (fun x => (b.ancestors cut).contains x) h1 h2

theorem EdgeInv.of_no_edges {b : Book} (h : b.edges = []) : EdgeInv b where
  live := by intro e he; rw [h] at he; cases he
  declared := by intro e he; rw [h] at he; cases he
  acyclic := ⟨fun _ => 0, by intro e he; rw [h] at he; cases he⟩

/-- Every reachable ledger graph is well formed. -/
theorem Reachable.edgeInv {b : Book} (r : Reachable b) : EdgeInv b := by
  induction r with
  | init self => exact EdgeInv.of_no_edges rfl
  | genesis _ hv hc hi hpk hcf h ih =>
    obtain ⟨_, _, _, _, _, _, _, _, e4, _⟩ := createGenesis_ok h
    apply EdgeInv.of_no_edges
    rw [e4]
    apply List.eq_nil_iff_forall_not_mem.2
    intro e he
    obtain ⟨l1, _, _⟩ := ih.live e he
    rw [hasVertex, hv] at l1
    cases l1
  | createLeaf trx o1 o2 tip _ hf ih => exact ih.steps (steps_createLeaf _ trx o1 o2 tip hf)
  | addLeaf v _ ih => exact ih.steps (steps_addLeaf _ v)
  | @retry b r ih => exact ih.steps (steps_retryParked _ r.inv.parkOk)
  | trust a _ ih => exact ih.tr (Tr.misc (coreEq_addTrusted _ a))
  | untrust a _ ih => exact ih.tr (Tr.misc (coreEq_removeTrusted _ a))
  | truncate cut _ ih => exact ih.truncate cut
  | steps _ s ih => exact ih.steps s

end CModel.Book
