import Lean
/-! `#audit_ns Props.C05` prints one line `AUDIT <theorem> | <axioms>` for every theorem in the
namespace, so the checker can count obligations and compare axiom sets. -/
open Lean Elab Command

elab "#audit_ns " ns:ident : command => do
  let env ← getEnv
  let pre := ns.getId
  let mut names : Array Name := #[]
  for (n, ci) in env.constants.toList do
    if pre.isPrefixOf n && !n.isInternalDetail then
      if let .thmInfo _ := ci then names := names.push n
  let sorted := names.qsort (fun a b => a.toString < b.toString)
  for n in sorted do
    let axs ← collectAxioms n
    let axs := axs.qsort (fun a b => a.toString < b.toString)
    logInfo m!"AUDIT {n} | {axs.toList}"
  logInfo m!"AUDITCOUNT {sorted.size}"
