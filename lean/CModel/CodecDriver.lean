import CModel.Msgpack
import CModel.DriverUtil
/-! Line protocol for C19: MPM / MPT / MPV / WT lines against `CModel.Msgpack`. -/
namespace CModel.CodecDrv
open CModel.Msgpack CModel.Drv

def hexVal (c : Char) : Option Nat :=
  if '0' ≤ c && c ≤ '9' then some (c.toNat - '0'.toNat)
  else if 'a' ≤ c && c ≤ 'f' then some (c.toNat - 'a'.toNat + 10) else none

def hexToBytes (s : String) : Option Bytes :=
  let rec go : List Char → Bytes → Option Bytes
    | [], acc => some acc.reverse
    | a :: b :: rest, acc => do go rest (UInt8.ofNat ((← hexVal a) * 16 + (← hexVal b)) :: acc)
    | _, _ => none
  go s.toList []

def hexDigit (n : Nat) : Char := if n < 10 then Char.ofNat (48 + n) else Char.ofNat (87 + n)
def bytesToHex (b : Bytes) : String := String.ofList (b.flatMap fun x => [hexDigit (x.toNat / 16), hexDigit (x.toNat % 16)])

/-- token → byte string ("e" = empty) -/
def strTok (s : String) : Option Bytes := if s == "e" then some [] else hexToBytes s
/-- token → optional byte slice ("-" = nil, "e" = empty non-nil) -/
def binTok (s : String) : Option (Option Bytes) :=
  if s == "-" then some none else if s == "e" then some (some []) else (hexToBytes s).map some

def tokStr (b : Bytes) : String := if b.isEmpty then "e" else bytesToHex b
def tokBin : Option Bytes → String
  | none => "-"
  | some b => if b.isEmpty then "e" else bytesToHex b

def parseTrx : List String → Option TrxW
  | [sec, nsec, iss, rec, sub, data, isig, rsig, hash, cur, supp] => do
    some { sec := ← sec.toNat?, nsec := ← nsec.toNat?, issuer := ← strTok iss, receiver := ← strTok rec, subject := ← strTok sub,
           data := ← binTok data, isig := ← binTok isig, rsig := ← binTok rsig, hash := ← strTok hash,
           spice := ⟨← cur.toNat?, ← supp.toNat?⟩ }
  | _ => none

def showTrx (t : TrxW) : String :=
  s!"{t.sec} {t.nsec} {tokStr t.issuer} {tokStr t.receiver} {tokStr t.subject} {tokBin t.data} {tokBin t.isig} {tokBin t.rsig} {tokStr t.hash} {t.spice.cur} {t.spice.supp}"

def parseVertex (ts : List String) : Option VertexW :=
  match ts with
  | signer :: sec :: nsec :: sig :: rest =>
    if rest.length != 15 then none else do
    let trx ← parseTrx (rest.take 11)
    match rest.drop 11 with
    | [h, l, r, w] =>
      some { signer := ← strTok signer, sec := ← sec.toNat?, nsec := ← nsec.toNat?, sig := ← binTok sig, trx := trx,
             hash := ← strTok h, left := ← strTok l, right := ← strTok r, weight := ← w.toNat? }
    | _ => none
  | _ => none

def showVertex (v : VertexW) : String :=
  s!"{tokStr v.signer} {v.sec} {v.nsec} {tokBin v.sig} {showTrx v.trx} {tokStr v.hash} {tokStr v.left} {tokStr v.right} {v.weight}"

/-- (label, none | some what-the-model-says) -/
def step (line : String) : Option (String × Option String) :=
  match line.splitOn " | " with
  | [inp, hexS, outS] =>
    match toks inp with
    | ["MPM", c, s] => do
      let m : MelangeW := ⟨← c.toNat?, ← s.toNat?⟩
      let enc := bytesToHex (encMelange m)
      let dec := match (hexToBytes hexS.trimAscii.toString).bind pMelange with
        | some (d, []) => s!"{d.cur} {d.supp}"
        | _ => "undecodable"
      some ("melange", if enc == hexS.trimAscii.toString && dec == outS.trimAscii.toString then none else some s!"enc={enc.take 80} dec={dec}")
    | "MPT" :: rest => do
      let t ← parseTrx rest
      let enc := bytesToHex (encTrx t)
      let dec := match (hexToBytes hexS.trimAscii.toString).bind pTrx with
        | some (d, []) => showTrx d
        | _ => "undecodable"
      some ("transaction", if enc == hexS.trimAscii.toString && dec == outS.trimAscii.toString then none
        else some s!"encOk={enc == hexS.trimAscii.toString} dec={dec.take 200}")
    | "MPV" :: rest => do
      let v ← parseVertex rest
      let enc := bytesToHex (encVertex v)
      let dec := match (hexToBytes hexS.trimAscii.toString).bind pVertex with
        | some (d, []) => showVertex d
        | _ => "undecodable"
      some ("vertex", if enc == hexS.trimAscii.toString && dec == outS.trimAscii.toString then none
        else some s!"encOk={enc == hexS.trimAscii.toString} dec={dec.take 200}")
    | _ => none
  | [inp, outS] =>
    match toks inp with
    | ["WT", x] => do
      let m := toString (wireTime (← x.toNat?))
      some ("wiretime", if m == outS.trimAscii.toString then none else some m)
    | _ => none
  | _ => none

end CModel.CodecDrv
