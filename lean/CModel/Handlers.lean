import CModel.Generated.Hazards
/-!
C15 model: a handler is the sequence of its hazard sites (operations that panic on a caller-supplied
value of the wrong shape), each possibly dominated by a guard that rejects the request first.
The shapes a protobuf-decodable message can give a value: any byte length, sub-message present or
absent, any decoded key length.
-/
namespace CModel.Handlers
open CModel.Generated

inductive Outcome | ok | err | panic
deriving DecidableEq, Repr

structure Shape where
  bytesLen : Nat      -- length of the byte field reaching the site
  present : Bool      -- the optional sub-message is present
  keyLen : Nat        -- length of the key decoded from a checksum-valid address
deriving Repr

/-- The Go operation at the site panics on this shape. -/
def panics : HazardKind → Shape → Bool
  | .conv32, s => s.bytesLen < 32          -- [32]byte(x) with len(x) < 32
  | .deref, s => !s.present                -- x.Sub.Field with Sub == nil
  | .slice, s => s.bytesLen < 12           -- data[:nonceSize]
  | .edkey, s => s.keyLen != 32            -- ed25519.Verify with a key that is not 32 bytes

/-- What the guards found in the source reject (len != 32, == nil, len < nonceSize, len != PublicKeySize). -/
def rejects : HazardKind → Shape → Bool
  | .conv32, s => s.bytesLen != 32
  | .deref, s => !s.present
  | .slice, s => s.bytesLen < 12
  | .edkey, s => s.keyLen != 32

def runSite (h : HazardSite) (s : Shape) : Outcome :=
  if h.guarded then (if rejects h.kind s then .err else .ok)
  else (if panics h.kind s then .panic else .ok)

/-- A request walks through the sites of its handler until one stops it. -/
def runHandler : List HazardSite → (HazardSite → Shape) → Outcome
  | [], _ => .ok
  | h :: hs, sh =>
    match runSite h (sh h) with
    | .ok => runHandler hs sh
    | o => o

end CModel.Handlers
