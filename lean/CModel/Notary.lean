import CModel.Tx
/-!
C16 model: the notary API as a state machine (notaryserver/notary.server.go Propose, Confirm, Reject,
Waiting, Saved, Data, Balance, TransactionsInDAG) over
* the awaiting-transaction cache at the level of its specification (cache.go; C17 proves the token-level
  store refines it): transactions unique by hash, removable only by the receiver's address,
* the ledger seen through `CreateLeaf`: the list of sealed transactions; whether the ledger admits a
  transaction is an explicit argument `ledgerOk` of the operation (decided by `CModel.Ledger`; here it is
  observed), except that a transaction hash already sealed is never sealed again,
* the challenge store of dataprovider.go (address ↦ blob, fresh/expired),
* the flashback throttle set.
Signatures, hashing and address decoding are those of `CModel.Tx`. Core Lean only.
-/
namespace CModel.Notary
open CModel.Tx

structure SignedHash where
  address : Bytes
  data : Bytes
  hash : Bytes
  sig : Sig
deriving DecidableEq, Repr

inductive Resp | ok | errVerification | errProcessing | errNoData | errThrottle
deriving DecidableEq, Repr

structure St where
  awaiting : List TrxB := []
  lists : List (Bytes × List (Option Bytes)) := []   -- "address-…" keys: token lists as in CModel.AwaitCache
  sealed : List TrxB := []              -- transactions of the vertices in the ledger
  chal : List (Bytes × Bytes × Bool) := []   -- address, blob, fresh
  flash : List Bytes := []
deriving Repr

structure Cfg where
  o : Ops
  dataSize : Nat

inductive Op
  | propose (t : TrxB) (ledgerOk : Bool)
  | confirm (t : TrxB) (ledgerOk : Bool)
  | reject (r : SignedHash) (ledgerOk : Bool)
  | data (addr blob : Bytes)
  | expire
  | waiting (r : SignedHash)
  | history (r : SignedHash)
  | balance (r : SignedHash) (ledgerOk : Bool)   -- ledgerOk: CalculateBalance succeeded (or the balance was cached)
  | saved (r : SignedHash)
  | ledgerDrop (hs : List Bytes)   -- the ledger discarded unconfirmed tips that failed validation (C01)
deriving Repr

/-- what a read returns -/
abbrev Out := List TrxB

def isSealed (s : St) (h : Bytes) : Bool := s.sealed.any (·.hash == h)
def findAwaiting (s : St) (h : Bytes) : Option TrxB := s.awaiting.find? (·.hash == h)

/-- CreateLeaf as seen by the notary: fails if the ledger refuses or the hash is already sealed. -/
def sealTrx (s : St) (t : TrxB) (ledgerOk : Bool) : Option St :=
  if isSealed s t.hash || !ledgerOk then none
  else some { s with sealed := t :: s.sealed,
                     flash := s.flash.filter (fun a => a != t.issuer && a != t.receiver) }

/-- as `sealTrx`, but Reject only clears the issuer from the throttle set -/
def sealRej (s : St) (t : TrxB) (ledgerOk : Bool) : Option St :=
  if isSealed s t.hash || !ledgerOk then none
  else some { s with sealed := t :: s.sealed, flash := s.flash.filter (fun a => a != t.issuer) }

/-! the per-address hash lists of cache.go at the token level (same definitions as `CModel.AwaitCache`,
over byte-string hashes and addresses; `none` is an empty token, `[none]` the empty value) -/
abbrev Tokens := List (Option Bytes)
def getList (s : St) (a : Bytes) : Option Tokens := (s.lists.find? (·.1 == a)).map (·.2)
def setList (s : St) (a : Bytes) (v : Tokens) : St := { s with lists := (a, v) :: s.lists.filter (·.1 != a) }
def delList (s : St) (a : Bytes) : St := { s with lists := s.lists.filter (·.1 != a) }
def tAdd (v : Tokens) (h : Bytes) : Tokens := if v == [none] then [some h] else v ++ [some h]
def tRemove (v : Tokens) (h : Bytes) : Tokens := none :: v.filter (· != some h)
def saveAddr (s : St) (a h : Bytes) : St :=
  match getList s a with
  | none => setList s a [some h]
  | some v => setList s a (tAdd v h)
def removeAddr (s : St) (a h : Bytes) : St :=
  match getList s a with
  | none => s
  | some v => if v == [none] then delList s a else setList s a (tRemove v h)

inductive RemoveRes | notFound | unauthorized | removed (t : TrxB) (s : St)

/-- cache.RemoveAwaitedTransaction -/
def removeAwaiting (s : St) (h addr : Bytes) : RemoveRes :=
  match findAwaiting s h with
  | none => .notFound
  | some t => if t.receiver != addr then .unauthorized
              else .removed t ([t.issuer, t.receiver].foldl (fun s x => removeAddr s x h)
                                { s with awaiting := s.awaiting.filter (·.hash != h) })

/-- cache.SaveAwaitedTransaction -/
def saveAwaiting (s : St) (t : TrxB) : Option St :=
  match findAwaiting s t.hash with
  | some _ => none
  | none =>
    let addrs := if t.issuer == t.receiver then [t.receiver] else [t.issuer, t.receiver]
    some (addrs.foldl (fun s a => saveAddr s a t.hash) { s with awaiting := s.awaiting ++ [t] })

/-- cache.ReadTransactions: `none` = ErrTransactionNotFound; listed hashes without a stored transaction
are dropped from the list on the way. -/
def readAwaiting (s : St) (a : Bytes) : St × Option (List TrxB) :=
  match getList s a with
  | none => (s, none)
  | some v =>
    if v == [none] then (delList s a, none) else
    let hs := v.filterMap id
    let found := hs.filterMap (findAwaiting s)
    let missing := hs.filter fun h => (findAwaiting s h).isNone
    let s' := missing.foldl (fun s h =>
      match getList s a with
      | none => s
      | some w => if w == [none] then s else setList s a (tRemove w h)) s
    (s', some found)

/-- dataprovider ValidateData -/
def validChallenge (s : St) (addr blob : Bytes) : Bool :=
  match s.chal.find? (·.1 == addr) with
  | some (_, b, fresh) => fresh && b == blob
  | none => false

def verifySH (c : Cfg) (r : SignedHash) : Bool := verifyMsg c.o r.data r.sig r.hash r.address

def involves (a : Bytes) (t : TrxB) : Bool := t.issuer == a || t.receiver == a

def propose (c : Cfg) (s : St) (t : TrxB) (ledgerOk : Bool) : St × Resp :=
  if !verifyIssuer c.o t then (s, .errVerification)
  else if !t.data.isEmpty then
    if t.data.length > c.dataSize then (s, .errProcessing)
    else match saveAwaiting s t with
      | none => (s, .errProcessing)
      | some s' => (s', .ok)
  else match sealTrx s t ledgerOk with
    | none => (s, .errProcessing)
    | some s' => (s', .ok)

def confirm (c : Cfg) (s : St) (t : TrxB) (ledgerOk : Bool) : St × Resp :=
  if !verifyIssuerReceiver c.o t then (s, .errVerification)
  else match removeAwaiting s t.hash t.receiver with
    | .notFound => (s, .errNoData)
    | .unauthorized => (s, .errProcessing)
    | .removed _ s1 =>
      match sealTrx s1 t ledgerOk with
      | none => (s1, .errProcessing)
      | some s2 => (s2, .ok)

def reject (c : Cfg) (s : St) (r : SignedHash) (ledgerOk : Bool) : St × Resp :=
  if !verifySH c r then (s, .errProcessing)
  else match removeAwaiting s r.data r.address with
    | .notFound => (s, .errNoData)
    | .unauthorized => (s, .errProcessing)
    | .removed t s1 =>
      match sealRej s1 t ledgerOk with
      | none => (s1, .errProcessing)
      | some s2 => (s2, .ok)

def waiting (c : Cfg) (s : St) (r : SignedHash) : St × Resp × Out :=
  if !validChallenge s r.address r.data then (s, .errVerification, [])
  else if !verifySH c r then (s, .errVerification, [])
  else match readAwaiting s r.address with
    | (s', none) => (s', .errProcessing, [])
    | (s', some ts) => (s', .ok, ts)

/-- whether the call gets as far as CreateLeaf (used by the driver to check the observed ledger verdict) -/
def reachesLedger (c : Cfg) (s : St) : Op → Bool
  | .propose t _ => verifyIssuer c.o t && t.data.isEmpty
  | .confirm t _ => verifyIssuerReceiver c.o t &&
      (match removeAwaiting s t.hash t.receiver with | .removed _ _ => true | _ => false)
  | .reject r _ => verifySH c r &&
      (match removeAwaiting s r.data r.address with | .removed _ _ => true | _ => false)
  | _ => false

/-- flash.HasAddress: reports and then remembers the address -/
def throttle (s : St) (a : Bytes) : St × Bool := ({ s with flash := a :: s.flash }, s.flash.contains a)

def history (c : Cfg) (s : St) (r : SignedHash) : St × Resp × Out :=
  let (s', thr) := throttle s r.address
  if thr then (s', .errThrottle, [])
  else if !validChallenge s r.address r.data then (s', .errVerification, [])
  else if !verifySH c r then (s', .errVerification, [])
  else (s', .ok, s.sealed.filter (involves r.address))

def balance (c : Cfg) (s : St) (r : SignedHash) (ledgerOk : Bool) : St × Resp :=
  let (s', thr) := throttle s r.address
  if thr then (s', .errThrottle)
  else if r.data != r.address then (s', .errVerification)
  else if !verifySH c r then (s', .errVerification)
  else if !ledgerOk then (s', .errProcessing)   -- the ledger could not compute a balance (C06)
  else (s', .ok)

def saved (c : Cfg) (s : St) (r : SignedHash) : Resp × Out :=
  if !verifySH c r then (.errVerification, [])
  else match s.sealed.find? (·.hash == r.data) with
    | none => (.errProcessing, [])
    | some t => (.ok, [t])

def provideData (s : St) (addr blob : Bytes) : St :=
  { s with chal := (addr, blob, true) :: s.chal.filter (·.1 != addr) }

def expireAll (s : St) : St := { s with chal := s.chal.map fun (a, b, _) => (a, b, false) }

def step (c : Cfg) (s : St) : Op → St × Resp × Out
  | .propose t lo => let (s', r) := propose c s t lo; (s', r, [])
  | .confirm t lo => let (s', r) := confirm c s t lo; (s', r, [])
  | .reject r lo => let (s', x) := reject c s r lo; (s', x, [])
  | .data a b => (provideData s a b, .ok, [])
  | .expire => (expireAll s, .ok, [])
  | .waiting r => waiting c s r
  | .history r => history c s r
  | .balance r lo => let (s', x) := balance c s r lo; (s', x, [])
  | .saved r => let (x, o) := saved c s r; (s, x, o)
  | .ledgerDrop hs => ({ s with sealed := s.sealed.filter fun t => !hs.contains t.hash }, .ok, [])

def run (c : Cfg) : St → List Op → St
  | s, [] => s
  | s, op :: ops => run c (step c s op).1 ops

end CModel.Notary
