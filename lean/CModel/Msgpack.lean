/-!
C19 storage/cache codec model: the byte-level msgpack shapes the vmihailenco v4.0.4 encoder emits for
`spice.Melange`, `transaction.Transaction` and `accountant.Vertex`, and a parser for exactly these
shapes (what shamaton v2 decodes them to). Numbers are `Nat` with explicit bounds; byte strings are
`List UInt8`; `none` is Go's nil slice (encoded as msgpack nil), `some []` the empty non-nil slice.
Core Lean only.
-/
namespace CModel.Msgpack

abbrev Bytes := List UInt8

def byte (n : Nat) : UInt8 := UInt8.ofNat (n % 256)

def be16 (n : Nat) : Bytes := [byte (n / 256), byte n]
def be32 (n : Nat) : Bytes := [byte (n / 16777216), byte (n / 65536), byte (n / 256), byte n]
def be64 (n : Nat) : Bytes := be32 (n / 4294967296) ++ be32 n

def fromBe (bs : Bytes) : Nat := bs.foldl (fun acc b => acc * 256 + b.toNat) 0

/-- str header (fixstr / str8 / str16 / str32) -/
def strHdr (n : Nat) : Bytes :=
  if n < 32 then [byte (160 + n)] else if n < 256 then [0xd9, byte n]
  else if n < 65536 then 0xda :: be16 n else 0xdb :: be32 n

/-- bin header (bin8 / bin16 / bin32) -/
def binHdr (n : Nat) : Bytes :=
  if n < 256 then [0xc4, byte n] else if n < 65536 then 0xc5 :: be16 n else 0xc6 :: be32 n

def encStr (s : Bytes) : Bytes := strHdr s.length ++ s
def encBin : Option Bytes → Bytes
  | none => [0xc0]
  | some b => binHdr b.length ++ b
def encU64 (n : Nat) : Bytes := 0xcf :: be64 n

/-- Timestamp extension (type -1): 32 / 64 / 96 bit forms chosen as the encoder does.
`sec` is `uint64(tm.Unix())` (two's complement for negative seconds), `nsec < 10^9`. -/
def encTime (sec nsec : Nat) : Bytes :=
  if sec / 17179869184 = 0 then           -- secs >> 34 == 0
    let data := nsec * 17179869184 + sec
    if data / 4294967296 = 0 then [0xd6, 0xff] ++ be32 data
    else [0xd7, 0xff] ++ be64 data
  else [0xc7, 0x0c, 0xff] ++ be32 nsec ++ be64 sec

def key (s : String) : Bytes := encStr s.toUTF8.toList

structure MelangeW where
  cur : Nat
  supp : Nat
deriving DecidableEq, Repr, Inhabited

structure TrxW where
  sec : Nat
  nsec : Nat
  issuer : Bytes
  receiver : Bytes
  subject : Bytes
  data : Option Bytes
  isig : Option Bytes
  rsig : Option Bytes
  hash : Bytes            -- 32 bytes
  spice : MelangeW
deriving DecidableEq, Repr, Inhabited

structure VertexW where
  signer : Bytes
  sec : Nat
  nsec : Nat
  sig : Option Bytes
  trx : TrxW
  hash : Bytes
  left : Bytes
  right : Bytes
  weight : Nat
deriving DecidableEq, Repr, Inhabited

def encMelange (m : MelangeW) : Bytes :=
  [0x82] ++ key "currency" ++ encU64 m.cur ++ key "supplementary_currency" ++ encU64 m.supp

def encTrx (t : TrxW) : Bytes :=
  [0x89] ++ key "created_at" ++ encTime t.sec t.nsec ++ key "issuer_address" ++ encStr t.issuer ++
  key "receiver_address" ++ encStr t.receiver ++ key "subject" ++ encStr t.subject ++
  key "data" ++ encBin t.data ++ key "issuer_signature" ++ encBin t.isig ++
  key "receiver_signature" ++ encBin t.rsig ++ key "hash" ++ encBin (some t.hash) ++
  key "spice" ++ encMelange t.spice

def encVertex (v : VertexW) : Bytes :=
  [0x88] ++ key "signer_public_address" ++ encStr v.signer ++ key "created_at" ++ encTime v.sec v.nsec ++
  key "signature" ++ encBin v.sig ++ key "transaction" ++ encTrx v.trx ++
  key "hash" ++ encBin (some v.hash) ++ key "left_parent_hash" ++ encBin (some v.left) ++
  key "right_parent_hash" ++ encBin (some v.right) ++ key "weight" ++ encU64 v.weight

/-! ### parser for the same shapes -/

abbrev P (α : Type) := Bytes → Option (α × Bytes)

def takeN (n : Nat) : P Bytes := fun bs => if bs.length < n then none else some (bs.take n, bs.drop n)

def expect (pre : Bytes) : P Unit := fun bs =>
  if bs.take pre.length == pre then some ((), bs.drop pre.length) else none

def pU64 : P Nat := fun bs =>
  match bs with
  | 0xcf :: rest => (takeN 8 rest).map fun (b, r) => (fromBe b, r)
  | _ => none

def pLen (hdr8 hdr16 hdr32 : UInt8) : P Nat := fun bs =>
  match bs with
  | h :: rest =>
    if h == hdr8 then (takeN 1 rest).map fun (b, r) => (fromBe b, r)
    else if h == hdr16 then (takeN 2 rest).map fun (b, r) => (fromBe b, r)
    else if h == hdr32 then (takeN 4 rest).map fun (b, r) => (fromBe b, r)
    else none
  | [] => none

def pStr : P Bytes := fun bs =>
  match bs with
  | h :: rest =>
    if 160 ≤ h.toNat && h.toNat < 192 then takeN (h.toNat - 160) rest
    else match pLen 0xd9 0xda 0xdb bs with
      | some (n, r) => takeN n r
      | none => none
  | [] => none

def pBin : P (Option Bytes) := fun bs =>
  match bs with
  | 0xc0 :: rest => some (none, rest)
  | _ => match pLen 0xc4 0xc5 0xc6 bs with
    | some (n, r) => (takeN n r).map fun (b, r') => (some b, r')
    | none => none

/-- returns (sec, nsec) -/
def pTime : P (Nat × Nat) := fun bs =>
  match bs with
  | 0xd6 :: 0xff :: rest => (takeN 4 rest).map fun (b, r) => ((fromBe b, 0), r)
  | 0xd7 :: 0xff :: rest => (takeN 8 rest).map fun (b, r) =>
      let d := fromBe b
      ((d % 17179869184, d / 17179869184), r)
  | 0xc7 :: 0x0c :: 0xff :: rest =>
    match takeN 4 rest with
    | some (n, r) => (takeN 8 r).map fun (s, r') => ((fromBe s, fromBe n), r')
    | none => none
  | _ => none

def pMelange : P MelangeW := fun bs => do
  let (_, r) ← expect [0x82] bs
  let (_, r) ← expect (key "currency") r
  let (c, r) ← pU64 r
  let (_, r) ← expect (key "supplementary_currency") r
  let (s, r) ← pU64 r
  some (⟨c, s⟩, r)

def pTrx : P TrxW := fun bs => do
  let (_, r) ← expect [0x89] bs
  let (_, r) ← expect (key "created_at") r
  let ((sec, nsec), r) ← pTime r
  let (_, r) ← expect (key "issuer_address") r
  let (iss, r) ← pStr r
  let (_, r) ← expect (key "receiver_address") r
  let (rec, r) ← pStr r
  let (_, r) ← expect (key "subject") r
  let (sub, r) ← pStr r
  let (_, r) ← expect (key "data") r
  let (data, r) ← pBin r
  let (_, r) ← expect (key "issuer_signature") r
  let (isig, r) ← pBin r
  let (_, r) ← expect (key "receiver_signature") r
  let (rsig, r) ← pBin r
  let (_, r) ← expect (key "hash") r
  let (h, r) ← pBin r
  let (_, r) ← expect (key "spice") r
  let (sp, r) ← pMelange r
  some (⟨sec, nsec, iss, rec, sub, data, isig, rsig, h.getD [], sp⟩, r)

def pVertex : P VertexW := fun bs => do
  let (_, r) ← expect [0x88] bs
  let (_, r) ← expect (key "signer_public_address") r
  let (signer, r) ← pStr r
  let (_, r) ← expect (key "created_at") r
  let ((sec, nsec), r) ← pTime r
  let (_, r) ← expect (key "signature") r
  let (sig, r) ← pBin r
  let (_, r) ← expect (key "transaction") r
  let (trx, r) ← pTrx r
  let (_, r) ← expect (key "hash") r
  let (h, r) ← pBin r
  let (_, r) ← expect (key "left_parent_hash") r
  let (l, r) ← pBin r
  let (_, r) ← expect (key "right_parent_hash") r
  let (rt, r) ← pBin r
  let (_, r) ← expect (key "weight") r
  let (w, r) ← pU64 r
  some (⟨signer, sec, nsec, sig, trx, h.getD [], l.getD [], rt.getD [], w⟩, r)

/-! ### wire (protobuf) mapping: times travel as uint64(UnixNano) and come back through int64 -/

/-- `int64(uint64(x))` on the two's complement representation is the identity on 64-bit words. -/
def wireTime (unixNanoWord : Nat) : Nat := unixNanoWord % 18446744073709551616

end CModel.Msgpack
