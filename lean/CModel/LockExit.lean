import CModel.Generated.LockExits
/-!
Lock events along the path to an exit of a function (C08, C15: "no internal lock stays held").
`Generated.lockExits` lists, for every function and function literal of the node's packages that touches
a mutex, the lock events on the syntactic path to each `return`, to the end of the body, and inside each
nested block control can fall out of. Whether such a path leaves a lock held is computed here.
-/
namespace CModel.LockExit
open CModel.Generated

/-- held locks (a lock acquired twice is listed twice) and the deferred releases registered so far -/
structure St where
  held : List String := []
  deferred : List String := []
  /-- releases of a lock the path does not hold (harmless for a block that inherits the lock, a run-time
  panic "unlock of unlocked mutex" for a whole function) -/
  unmatched : List String := []
deriving Repr

def step (s : St) : LEv → St
  | .acquire l => { s with held := l :: s.held }
  | .release l => if s.held.contains l then { s with held := s.held.erase l } else { s with unmatched := l :: s.unmatched }
  | .deferRel l => { s with deferred := l :: s.deferred }

def run (evs : List LEv) (s : St := {}) : St := evs.foldl step s

/-- leaving a function runs the deferred releases (most recent first) -/
def unwind (s : St) : St := s.deferred.foldl (fun s l => step { s with deferred := [] } (.release l)) { s with deferred := [] }

/-- the locks still held once the path has left the function -/
def heldAfter (evs : List LEv) : List String := (unwind (run evs)).held

/-- releases that found nothing to release, including deferred ones -/
def unmatchedAfter (evs : List LEv) : List String := (unwind (run evs)).unmatched

/-- what the exit must satisfy: a `return` / end of body leaves nothing held and released nothing it did
not hold; a block that control falls out of is neutral (the continuation is walked as if the block had not
been entered) and registers no deferred release of its own -/
def exitOk (e : LockExit) : Bool :=
  match e.kind with
  | .ret | .fnEnd => (heldAfter e.events).isEmpty && (unmatchedAfter e.events).isEmpty
  | .block => (run e.events).held.isEmpty && (run e.events).unmatched.isEmpty && (run e.events).deferred.isEmpty

/-- A goroutine calling functions one after the other: each call takes one of its exits; what it leaves
held stays held. -/
def afterCalls (calls : List LockExit) : List String :=
  calls.foldl (fun h e => h ++ heldAfter e.events) []

end CModel.LockExit
