def hello := "world"
