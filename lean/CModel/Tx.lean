import CModel.Sha256
/-!
C04 model: signed message layouts and verification of transactions and vertices
(transaction.go GetMessage / VerifyIssuer / VerifyIssuerReceiver, vertex.go initData / verify,
wallet/verifier.go Verify + AddressToPubKey).

Hashing and address decoding are *parameters* (`Ops`) so that theorems can be stated for any hash
function under explicit collision-freedom hypotheses; the driver instantiates them with the executable
SHA-256 / base58check of `CModel/Sha256.lean`. ed25519 is symbolic: a signature is either the result of
an honest signing call (`.honest key digest`) or some other byte string (`.other bytes`), and it verifies
exactly when it is an honest signature by that key over that digest (unforgeability as a definition).
-/
namespace CModel.Tx

abbrev Bytes := List UInt8

def le64 (n : Nat) : Bytes := (List.range 8).map fun i => UInt8.ofNat ((n >>> (8 * i)) % 256)

inductive Sig
  | honest (key : Bytes) (digest : Bytes)
  | other (raw : Bytes)
deriving DecidableEq, Repr

def Sig.isEmpty : Sig → Bool
  | .other [] => true
  | _ => false

structure Ops where
  H : Bytes → Bytes                 -- sha256
  addrKey : Bytes → Option Bytes    -- AddressToPubKey (base58check), on the address *text*

structure TrxB where
  subject : Bytes
  data : Bytes
  issuer : Bytes          -- address text
  receiver : Bytes
  created : Nat           -- uint64(UnixNano)
  cur : Nat
  supp : Nat
  hash : Bytes
  isig : Sig
  rsig : Sig
deriving DecidableEq, Repr

structure VertexB where
  signer : Bytes
  created : Nat
  weight : Nat
  left : Bytes
  right : Bytes
  hash : Bytes
  sig : Sig
  trx : TrxB
deriving DecidableEq, Repr

/-- transaction.go GetMessage: four variable-width fields without length prefixes, then three words. -/
def trxMessage (t : TrxB) : Bytes :=
  t.subject ++ t.data ++ t.issuer ++ t.receiver ++ le64 t.created ++ le64 t.cur ++ le64 t.supp

/-- vertex.go initData: all fields fixed width (32+32+32+8+8) when the hashes are 32 bytes. -/
def vertexData (v : VertexB) : Bytes :=
  v.trx.hash ++ v.left ++ v.right ++ le64 v.created ++ le64 v.weight

def sigValid (key digest : Bytes) : Sig → Bool
  | .honest k d => k == key && d == digest
  | .other _ => false

/-- wallet.Helper.Verify -/
def verifyMsg (o : Ops) (msg : Bytes) (sig : Sig) (hash addr : Bytes) : Bool :=
  if o.H msg != hash then false else
  match o.addrKey addr with
  | none => false
  | some k => if k.length != 32 then false else sigValid k hash sig

def verifyIssuer (o : Ops) (t : TrxB) : Bool := verifyMsg o (trxMessage t) t.isig t.hash t.issuer

def verifyIssuerReceiver (o : Ops) (t : TrxB) : Bool :=
  verifyMsg o (trxMessage t) t.isig t.hash t.issuer && verifyMsg o (trxMessage t) t.rsig t.hash t.receiver

/-- (*Vertex).verify: the receiver signature is checked only if it is present. -/
def verifyVertex (o : Ops) (v : VertexB) : Bool :=
  (if !v.trx.rsig.isEmpty then verifyIssuerReceiver o v.trx else verifyIssuer o v.trx) &&
  verifyMsg o (vertexData v) v.sig v.hash v.signer

/-- Outcome of the ingress part of AddLeaf/addLeafMemorized that depends on the vertex alone
(accountant.go AddLeaf + addLeafMemorized up to and including `leaf.verify`); `pass` hands the vertex to
the ledger checks (existence, parents, funds) modelled in `CModel.Ledger`. -/
inductive Gate | ownNode | trxEmpty | notCanonical | genesisIssuer | rejected | pass
deriving DecidableEq, Repr

def maxSupp : Nat := 1000000000000000000

def ingressGate (o : Ops) (genesisAddr : Bytes) (v : VertexB) : Gate :=
  if v.trx.issuer == v.signer then .ownNode
  else if v.trx.data.isEmpty && v.trx.cur == 0 && v.trx.supp == 0 then .trxEmpty
  else if !(v.trx.supp < maxSupp) then .notCanonical
  else if v.trx.issuer == genesisAddr then .genesisIssuer
  else if !verifyVertex o v then .rejected
  else .pass

/-- The executable instance used by the driver. -/
def realOps : Ops where
  H := CModel.Crypto.sha256
  addrKey := fun a => CModel.Crypto.addressToPubKey (String.ofList (a.map fun b => Char.ofNat b.toNat))

end CModel.Tx
