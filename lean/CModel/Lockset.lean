/-!
C18 model: goroutines as event sequences over mutexes / RW-mutexes, with the lock semantics of Go's
`sync.Mutex` / `sync.RWMutex` as far as safety goes (an exclusive holder excludes everybody, shared
holders exclude exclusive ones). A *race* is a reachable state in which two different goroutines are both
about to access the same location, at least one of them writing, neither access being atomic.
Core Lean only.
-/
namespace CModel.Lockset

abbrev Lock := Nat
abbrev Loc := Nat
abbrev Gid := Nat

inductive Ev
  | acq (l : Lock) (excl : Bool)
  | rel (l : Lock) (excl : Bool)
  | acc (x : Loc) (write : Bool)
  | atomicAcc (x : Loc)
deriving DecidableEq, Repr

structure G where
  rest : List Ev := []
  held : List (Lock × Bool) := []

abbrev St := Gid → G

def upd (s : St) (g : Gid) (v : G) : St := fun j => if j = g then v else s j

/-- may goroutine `g` take lock `l` in mode `excl` now? -/
def CanAcquire (s : St) (g : Gid) (l : Lock) (excl : Bool) : Prop :=
  ∀ j, j ≠ g → ∀ e', (l, e') ∈ (s j).held → excl = false ∧ e' = false

inductive Step : St → St → Prop
  | acq {s g l e r} : (s g).rest = .acq l e :: r → CanAcquire s g l e →
      Step s (upd s g ⟨r, (l, e) :: (s g).held⟩)
  | rel {s g l e r} : (s g).rest = .rel l e :: r → Step s (upd s g ⟨r, (s g).held.erase (l, e)⟩)
  | acc {s g x w r} : (s g).rest = .acc x w :: r → Step s (upd s g ⟨r, (s g).held⟩)
  | atomicAcc {s g x r} : (s g).rest = .atomicAcc x :: r → Step s (upd s g ⟨r, (s g).held⟩)

/-- a program: what each goroutine is going to do; nobody holds anything at the start -/
def start (prog : Gid → List Ev) : St := fun g => ⟨prog g, []⟩

inductive Reach (prog : Gid → List Ev) : St → Prop
  | start : Reach prog (start prog)
  | step {s s'} : Reach prog s → Step s s' → Reach prog s'

/-- two goroutines are both about to touch `x`, one of them writing -/
def Racy (s : St) : Prop :=
  ∃ i j x w w' ri rj, i ≠ j ∧ (s i).rest = .acc x w :: ri ∧ (s j).rest = .acc x w' :: rj ∧ (w = true ∨ w' = true)

end CModel.Lockset
