/-!
C17 model: the awaiting-transaction index of cache.go over an atomic key→bytes store (bigcache).
A per-address value is the comma separated list of hex hashes, modelled at the token level:
`none` is an empty token (the run of leading commas that `remove` produces), `some h` a hash.
The Go value "" is the single empty token `[none]` (bytes.Split never returns an empty slice).
Core Lean only.
-/
namespace CModel.AwaitCache

abbrev Hash := Nat
abbrev Addr := String

structure ATrx where
  hash : Hash
  issuer : Addr
  receiver : Addr
deriving DecidableEq, Repr, Inhabited

abbrev Tokens := List (Option Hash)

structure Store where
  trxs : List (Hash × ATrx) := []          -- "trx-<hex>" keys
  lists : List (Addr × Tokens) := []       -- "address-<addr>" keys
deriving Repr, Inhabited

inductive Err | exists | notFound | unauthorized
deriving DecidableEq, Repr

namespace Store

def getTrx (s : Store) (h : Hash) : Option ATrx := (s.trxs.find? (·.1 == h)).map (·.2)
def getList (s : Store) (a : Addr) : Option Tokens := (s.lists.find? (·.1 == a)).map (·.2)
def setTrx (s : Store) (h : Hash) (t : ATrx) : Store := { s with trxs := (h, t) :: s.trxs.filter (·.1 != h) }
def delTrx (s : Store) (h : Hash) : Store := { s with trxs := s.trxs.filter (·.1 != h) }
def setList (s : Store) (a : Addr) (v : Tokens) : Store := { s with lists := (a, v) :: s.lists.filter (·.1 != a) }
def delList (s : Store) (a : Addr) : Store := { s with lists := s.lists.filter (·.1 != a) }

/-- cache.go add -/
def tAdd (v : Tokens) (h : Hash) : Tokens := if v == [none] then [some h] else v ++ [some h]
/-- cache.go remove: every kept token is re-emitted behind a comma -/
def tRemove (v : Tokens) (h : Hash) : Tokens := none :: v.filter (· != some h)
/-- cache.go read -/
def tRead (v : Tokens) : List Hash := v.filterMap id

/-- One address-list update of SaveAwaitedTransaction. -/
def saveAddr (s : Store) (a : Addr) (h : Hash) : Store :=
  match s.getList a with
  | none => s.setList a [some h]
  | some v => s.setList a (tAdd v h)

/-- SaveAwaitedTransaction -/
def save (s : Store) (t : ATrx) : Store × Option Err :=
  match s.getTrx t.hash with
  | some _ => (s, some .exists)
  | none =>
    let s1 := s.setTrx t.hash t
    let addrs := if t.issuer == t.receiver then [t.receiver] else [t.issuer, t.receiver]
    (addrs.foldl (fun s a => saveAddr s a t.hash) s1, none)

/-- One address-list update of RemoveAwaitedTransaction. -/
def removeAddr (s : Store) (a : Addr) (h : Hash) : Store :=
  match s.getList a with
  | none => s
  | some v => if v == [none] then s.delList a else s.setList a (tRemove v h)

/-- RemoveAwaitedTransaction -/
def remove (s : Store) (h : Hash) (a : Addr) : Store × Option Err :=
  match s.getTrx h with
  | none => (s, some .notFound)
  | some t =>
    if t.receiver != a then (s, some .unauthorized) else
    let s1 := s.delTrx h
    ([t.issuer, t.receiver].foldl (fun s x => removeAddr s x h) s1, none)

/-- ReadTransactions (hashes whose transaction entry is gone are dropped from the list on the way). -/
def read (s : Store) (a : Addr) : Store × Option (List ATrx) :=
  match s.getList a with
  | none => (s, none)
  | some v =>
    if v == [none] then (s.delList a, none) else
    let hs := tRead v
    let found := hs.filterMap s.getTrx
    let missing := hs.filter (fun h => (s.getTrx h).isNone)
    let s' := missing.foldl (fun s h =>
      match s.getList a with
      | none => s
      | some w => if w == [none] then s else s.setList a (tRemove w h)) s
    (s', some found)

/-- Spec view: what is listed for an address. -/
def listed (s : Store) (a : Addr) : List Hash :=
  match s.getList a with
  | none => []
  | some v => (tRead v).filter (fun h => (s.getTrx h).isSome)

end Store

/-! ### fine-grained (unlocked) interleaving of two saves for the same receiver: the lost update -/

/-- Two `save`s of distinct transactions to the same receiver, each split into its atomic get and set
on the receiver's list (the transaction entries and the issuers' lists do not interfere). -/
def interleavedGetGetSetSet (s : Store) (a : Addr) (h1 h2 : Hash) : Store :=
  let v1 := s.getList a      -- goroutine 1: Get
  let v2 := s.getList a      -- goroutine 2: Get
  let s1 := match v1 with | none => s.setList a [some h1] | some v => s.setList a (Store.tAdd v h1)   -- 1: Set
  match v2 with | none => s1.setList a [some h2] | some v => s1.setList a (Store.tAdd v h2)            -- 2: Set

end CModel.AwaitCache
