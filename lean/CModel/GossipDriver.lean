import CModel.Gossip
import CModel.DriverUtil
/-! Line protocol for C11 / C12 against `CModel.Gossip` (stateful). -/
namespace CModel.GossipDrv
open CModel.Gossip CModel.Drv

structure DSt where
  cfg : Cfg := { n := 0, peers := fun _ => [], honest := fun _ => true, accepts := fun _ => true }
  net : Net := init
  stats : Stats := {}

def insertNat (x : Nat) : List Nat → List Nat
  | [] => [x]
  | y :: ys => if x ≤ y then x :: y :: ys else y :: insertNat x ys
def sortNats (l : List Nat) : List Nat := l.foldl (fun acc x => insertNat x acc) []

def insertStr (x : String) : List String → List String
  | [] => [x]
  | y :: ys => if x == y then y :: ys else if x < y then x :: y :: ys else y :: insertStr x ys
def sortDedup (l : List String) : List String := l.foldl (fun acc x => insertStr x acc) []

def entryStr (e : Entry) : String := s!"{e.addr}:{e.signer}:{if e.forThis then 1 else 0}"
def msgStr (m : Msg) : String := s!"{m.dst}" ++ "{" ++ ",".intercalate (sortDedup (m.entries.map entryStr)) ++ "}"
def sendsStr (ms : List Msg) : String := if ms.isEmpty then "-" else ";".intercalate (ms.map msgStr)

def parseEntry (s : String) : Option Entry :=
  match s.splitOn ":" with
  | [a, b, f] => do some ⟨← a.toNat?, ← b.toNat?, f == "1"⟩
  | _ => none

/-- `{a:b:c,d:e:f}` -/
def parseEntries (s : String) : Option (List Entry) :=
  let body := ((s.drop 1).toString.dropEnd 1).toString
  if body.isEmpty then some [] else (body.splitOn ",").mapM parseEntry

def parsePeers (s : String) : List (Nat × List Nat) :=
  (s.splitOn ";").filterMap fun p =>
    match p.splitOn ":" with
    | [i, l] => some (i.toNat?.getD 0, sortNats ((l.splitOn ",").filterMap (·.toNat?)))
    | _ => none

def outcomeStr : Outcome → String
  | .droppedSeen => "noop" | .skippedListed => "noop" | .rejected => "rejected"
  | .processed => "processed" | .absorbed => "absorbed"

def finish (d : DSt) (n : Nat) (line : String) (net : Net) (want got br : String) : DSt × Option String :=
  let st := ({ d.stats with lines := d.stats.lines + 1 }).hit br
  if want == got then ({ d with net := net, stats := st }, none)
  else ({ d with net := net, stats := { st with mismatches := st.mismatches + 1 } }, some s!"MISMATCH {n} | {line} | model: {want}")

def bad (d : DSt) (msg : String) : DSt × Option String :=
  ({ d with stats := { d.stats with lines := d.stats.lines + 1 } }, some msg)

def step (d : DSt) (n : Nat) (line : String) : DSt × Option String :=
  let parts := line.splitOn " | "
  let inp := toks (parts.headD "")
  let p1 := (parts.drop 1).headD ""
  let p2 := (parts.drop 2).headD ""
  match inp with
  | ["GNET", k, kind, peers, honest] =>
    let pl := parsePeers peers
    let hl := (honest.splitOn ",").map (· == "1")
    let cfg : Cfg := { n := k.toNat?.getD 0,
                       peers := fun i => ((pl.find? (·.1 == i)).map (·.2)).getD [],
                       honest := fun i => hl.getD i true, accepts := fun _ => true, isTrx := kind == "trx" }
    ({ d with cfg := cfg, net := init, stats := ({ d.stats with lines := d.stats.lines + 1 }).hit s!"net.{kind}" }, none)
  | ["GORIGIN", o] =>
    let o := o.toNat?.getD 0
    let net := originate d.cfg d.net o
    let new := net.inflight.drop d.net.inflight.length
    finish d n line net (sendsStr new) p1 "origin"
  | ["GDELIVER", k] =>
    let k := k.toNat?.getD 0
    match d.net.inflight[k]? with
    | none => bad d "no such in-flight message in the model"
    | some m =>
      let (net, oc) := deliver d.cfg d.net k
      let new := net.inflight.drop (d.net.inflight.length - 1)
      -- for transactions the harness cannot tell "processed again without anything to send" from a no-op
      -- (the failing save is only logged): compare rejected / absorbed / other
      let coarse (s : String) : String := if d.cfg.isTrx && (s == "processed" || s == "noop") then "handled" else s
      let got1 := match toks p1 with
        | [a, b] => s!"{a} {coarse b}"
        | _ => p1
      finish d n line net s!"{m.dst} {coarse (outcomeStr oc)} | {sendsStr new}" s!"{got1} | {p2}" ("deliver." ++ outcomeStr oc ++ (if oc == .skippedListed then ".listed" else ""))
  | ["GACCEPT", i, b] =>
    let i := i.toNat?.getD 0
    let old := d.cfg.accepts
    ({ d with cfg := { d.cfg with accepts := fun j => if j == i then b == "1" else old j } }, none)
  | ["GRETRY", i] =>
    ({ d with net := retryAdmit d.net (i.toNat?.getD 0), stats := ({ d.stats with lines := d.stats.lines + 1 }).hit "orphan-retry-admission" }, none)
  | ["GDUP", k] =>
    ({ d with net := duplicate d.net (k.toNat?.getD 0), stats := ({ d.stats with lines := d.stats.lines + 1 }).hit "duplicate" }, none)
  | ["GINJECT", dst, auth, es] =>
    match parseEntries es with
    | none => bad d "bad entries"
    | some es =>
      let m : Msg := ⟨dst.toNat?.getD 0, auth == "1", es⟩
      if es.all (entryAllowed d.cfg d.net) then
        ({ d with net := inject d.cfg d.net m, stats := ({ d.stats with lines := d.stats.lines + 1 }).hit (if auth == "1" then "inject.forged-list" else "inject.unauthentic-payload") }, none)
      else bad d "the injected message contains a verifying entry of an honest node that never signed this item (harness exceeded the adversary's powers, or a signature was forged)"
  | ["GFINAL"] =>
    let ad := (List.range d.cfg.n).filter fun i => (d.net.node i).admitted
    let ads := if ad.isEmpty then "-" else ",".intercalate (ad.map toString)
    let calls := ",".intercalate ((List.range d.cfg.n).map fun i => toString (d.net.node i).calls)
    let want := if d.cfg.isTrx || p2 == "*" then s!"{ads} | *" else s!"{ads} | {calls}"
    let got := if d.cfg.isTrx then s!"{p1} | *" else s!"{p1} | {p2}"
    finish d n line d.net want got "final"
  | _ => ({ d with stats := d.stats.hit "skip" }, none)

end CModel.GossipDrv
