/-
Model of /repo/src/spice/spice.go (Melange, New, Supply, Transfer, Drain, Empty).
Statement-for-statement, wrapping UInt64 arithmetic, including the in-place
mutation order and the roll-back sites.  Core Lean only.

The constant `maxSupp` is compared on every run with
`MaxAmountPerSupplementaryCurrency` extracted from the source
(CModel/Generated/Consts.lean, obligation `Generated.maxSupp_ok`).
-/
namespace CModel

structure Melange where
  cur  : UInt64
  supp : UInt64
deriving DecidableEq, Repr, Inhabited

namespace Melange

/-- spice.go: MaxAmountPerSupplementaryCurrency -/
def maxSupp : UInt64 := 1000000000000000000
/-- math.MaxUint64 -/
def maxU : UInt64 := 18446744073709551615

inductive Err | overflow | insufficient
deriving DecidableEq, Repr

def zero : Melange := ⟨0, 0⟩

/-- spice.New -/
def new (c s : UInt64) : Melange :=
  if s ≥ maxSupp then ⟨c + 1, s - maxSupp⟩ else ⟨c, s⟩

/-- (*Melange).Empty -/
def empty (m : Melange) : Bool := m.cur == 0 && m.supp == 0

/-- (*Melange).Supply — returns the receiver's new value and the error, exactly
as the Go code leaves it (on the first error nothing has been written yet, on
the second the clone is copied back). -/
def supplyImpl (m a : Melange) : Melange × Option Err :=
  -- case Currency
  if maxU - a.cur < m.cur then (m, some .overflow) else
  let m1 : Melange := ⟨m.cur + a.cur, m.supp⟩
  -- case SupplementaryCurrency
  if maxSupp - a.supp ≤ m1.supp ∧ m1.cur = maxU then (m, some .overflow) else
  let s := m1.supp + a.supp
  if s ≥ maxSupp then (⟨m1.cur + 1, s - maxSupp⟩, none) else (⟨m1.cur, s⟩, none)

/-- spice.Transfer(amount, from, to) — returns (from', to', err). -/
def transferImpl (amt frm to : Melange) : Melange × Melange × Option Err :=
  -- case Currency
  if amt.cur > frm.cur then (frm, to, some .insufficient) else
  if maxU - amt.cur < to.cur then (frm, to, some .overflow) else
  let to1 : Melange := ⟨to.cur + amt.cur, to.supp⟩
  let fr1 : Melange := ⟨frm.cur - amt.cur, frm.supp⟩
  -- case SupplementaryCurrency
  if maxSupp - amt.supp ≤ to1.supp ∧ to1.cur = maxU then (frm, to, some .overflow) else
  if amt.supp > fr1.supp then
    if fr1.cur = 0 then (frm, to, some .insufficient) else
    let fr2 : Melange := ⟨fr1.cur - 1, fr1.supp + maxSupp - amt.supp⟩
    let ts := to1.supp + amt.supp
    if ts ≥ maxSupp then (fr2, ⟨to1.cur + 1, ts - maxSupp⟩, none) else (fr2, ⟨to1.cur, ts⟩, none)
  else
    let fr2 : Melange := ⟨fr1.cur, fr1.supp - amt.supp⟩
    let ts := to1.supp + amt.supp
    if ts ≥ maxSupp then (fr2, ⟨to1.cur + 1, ts - maxSupp⟩, none) else (fr2, ⟨to1.cur, ts⟩, none)

/-! `supply` / `transfer` are exposed through kernel-opaque boxes with an unfolding theorem
(`supply_eq`, `transfer_eq`). Reason: when the kernel is asked to put `supplyImpl m a` with *symbolic*
words into weak head normal form it unfolds `literal - x` / `x + literal` on `UInt64` down to unary
recursion over 2^64 ("deep recursion detected"). Every proof therefore rewrites with the
unfolding theorem explicitly; compiled code and `supply_eq`-then-`decide` on literals are unaffected. -/

structure SupplyBox where
  f : Melange → Melange → Melange × Option Err
  h : f = supplyImpl

structure TransferBox where
  f : Melange → Melange → Melange → Melange × Melange × Option Err
  h : f = transferImpl

opaque supplyBox : SupplyBox := ⟨supplyImpl, rfl⟩
opaque transferBox : TransferBox := ⟨transferImpl, rfl⟩

/-- (*Melange).Supply -/
def supply (m a : Melange) : Melange × Option Err := supplyBox.f m a
/-- spice.Transfer -/
def transfer (amt frm to : Melange) : Melange × Melange × Option Err := transferBox.f amt frm to

theorem supply_eq (m a : Melange) : supply m a = supplyImpl m a := by
  unfold supply; rw [supplyBox.h]
theorem transfer_eq (amt frm to : Melange) : transfer amt frm to = transferImpl amt frm to := by
  unfold transfer; rw [transferBox.h]

/-- (*Melange).Drain(amount, sink) = Transfer(amount, m, sink) -/
def drain (m amt sink : Melange) : Melange × Melange × Option Err := transfer amt m sink

/-- The unbounded integer the pair denotes. -/
def val (m : Melange) : Nat := m.cur.toNat * 1000000000000000000 + m.supp.toNat

/-- Canonical: supplementary part below 10^18. -/
def Canon (m : Melange) : Prop := m.supp.toNat < 1000000000000000000

instance (m : Melange) : Decidable (Canon m) := by unfold Canon; infer_instance

def canonB (m : Melange) : Bool := m.supp < maxSupp

end Melange
end CModel
