import CModel.Notary
import CModel.TxDriver
/-! Line protocol for C16 against `CModel.Notary` (stateful). -/
namespace CModel.NotaryDrv
open CModel.Tx CModel.Notary CModel.CodecDrv CModel.TxDrv CModel.Drv

structure DSt where
  s : St := {}
  dataSize : Nat := 0
  stats : Stats := {}

def parseTrx : List String → Option TrxB
  | [subj, data, iss, rec, created, cur, supp, hash, isig, rsig] => do
    some { subject := ← strTok subj, data := ← strTok data, issuer := ← strTok iss, receiver := ← strTok rec,
           created := ← created.toNat?, cur := ← cur.toNat?, supp := ← supp.toNat?, hash := ← strTok hash,
           isig := ← sigTok isig, rsig := ← sigTok rsig }
  | _ => none

def parseSH : List String → Option SignedHash
  | [a, d, h, s] => do some { address := ← strTok a, data := ← strTok d, hash := ← strTok h, sig := ← sigTok s }
  | _ => none

def respTag : Resp → String
  | .ok => "ok" | .errVerification => "errVerification" | .errProcessing => "errProcessing"
  | .errNoData => "errNoData" | .errThrottle => "errThrottle"

def insertSorted (x : String) : List String → List String
  | [] => [x]
  | y :: ys => if x ≤ y then x :: y :: ys else y :: insertSorted x ys

def sortStrs (l : List String) : List String := l.foldl (fun acc x => insertSorted x acc) []

def hashesStr (ts : List TrxB) : String :=
  match sortStrs (ts.map fun t => bytesToHex t.hash) with
  | [] => "-"
  | l => ",".intercalate l

def dedup (l : List String) : List String := l.foldl (fun acc x => if acc.contains x then acc else acc ++ [x]) []

def cfg (d : DSt) : Cfg := { o := realOps, dataSize := d.dataSize }

/-- mutating call with a ledger verdict: returns (new state, "resp lo") -/
def mutating (reached : Bool) (f : Bool → St × Resp) (lo : String) : St × String × String :=
  let (s', r) := f (lo == "1")
  let mlo := if reached then (if lo == "-" then "?" else lo) else "-"
  (s', s!"{respTag r} {mlo}", (if reached then "ledger-reached." else "") ++ respTag r)

def finish (d : DSt) (n : Nat) (line : String) (s' : St) (want got br : String) : DSt × Option String :=
  let st := ({ d.stats with lines := d.stats.lines + 1 }).hit br
  if want == got then ({ d with s := s', stats := st }, none)
  else ({ d with s := s', stats := { st with mismatches := st.mismatches + 1 } }, some s!"MISMATCH {n} | {line} | model: {want}")

def bad (d : DSt) (msg : String) : DSt × Option String :=
  ({ d with stats := { d.stats with lines := d.stats.lines + 1 } }, some msg)

def step (d : DSt) (n : Nat) (line : String) : DSt × Option String :=
  let parts := line.splitOn " | "
  let inp := toks (parts.headD "")
  let out := (parts.drop 1).headD ""
  let out2 := (parts.drop 2).headD ""
  match inp with
  | ["RESET"] => ({ d with s := {} }, none)
  | ["N", k] => ({ d with dataSize := k.toNat?.getD 0 }, none)
  | "NGEN" :: fs =>
    match parseTrx fs with
    | some t => ({ d with s := { d.s with sealed := [t] } }, none)
    | none => bad d "bad GEN"
  | ["FORGET"] => ({ d with s := { d.s with flash := [] } }, none)
  | ["EXPIRE"] => ({ d with s := expireAll d.s }, none)
  | ["DATA", a] =>
    match strTok a, strTok out with
    | some a, some b => ({ d with s := provideData d.s a b, stats := ({ d.stats with lines := d.stats.lines + 1 }).hit "data" }, none)
    | _, _ => bad d "bad DATA"
  | "PROPOSE" :: fs =>
    match parseTrx fs, toks out with
    | some t, [_, lo] =>
      let (s', want, br) := mutating (reachesLedger (cfg d) d.s (.propose t true)) (fun b => propose (cfg d) d.s t b) lo
      finish d n line s' want out ("propose." ++ (if t.data.isEmpty then "transfer." else "contract.") ++ br)
    | _, _ => bad d "bad PROPOSE"
  | "CONFIRM" :: fs =>
    match parseTrx fs, toks out with
    | some t, [_, lo] =>
      let (s', want, br) := mutating (reachesLedger (cfg d) d.s (.confirm t true)) (fun b => confirm (cfg d) d.s t b) lo
      finish d n line s' want out ("confirm." ++ br)
    | _, _ => bad d "bad CONFIRM"
  | "REJECT" :: fs =>
    match parseSH fs, toks out with
    | some r, [_, lo] =>
      let (s', want, br) := mutating (reachesLedger (cfg d) d.s (.reject r true)) (fun b => reject (cfg d) d.s r b) lo
      finish d n line s' want out ("reject." ++ br)
    | _, _ => bad d "bad REJECT"
  | "WAITING" :: fs =>
    match parseSH fs with
    | some r =>
      let (s', x, o) := waiting (cfg d) d.s r
      finish d n line s' s!"{respTag x} {if x == .ok then hashesStr o else "-"}" out ("waiting." ++ respTag x)
    | none => bad d "bad WAITING"
  | "HISTORY" :: fs =>
    match parseSH fs with
    | some r =>
      let (s', x, o) := history (cfg d) d.s r
      finish d n line s' s!"{respTag x} {if x == .ok then hashesStr o else "-"}" out ("history." ++ respTag x)
    | none => bad d "bad HISTORY"
  | "BALANCE" :: fs =>
    match parseSH fs with
    | some r =>
      let (resp, lb) := match toks out with
        | [a, b] => (a, b)
        | [a] => (a, "-")
        | _ => ("?", "-")
      let (s', x) := balance (cfg d) d.s r (lb != "0")
      finish d n line s' (respTag x) resp ("balance." ++ respTag x ++ (if lb == "0" then ".ledger-failed" else ""))
    | none => bad d "bad BALANCE"
  | "SAVED" :: fs =>
    match parseSH fs with
    | some r =>
      let (x, o) := saved (cfg d) d.s r
      finish d n line d.s s!"{respTag x} {if x == .ok then hashesStr o else "-"}" out ("saved." ++ respTag x)
    | none => bad d "bad SAVED"
  | ["ST", sealed] =>
    -- transactions the ledger dropped on its own (failing tips) are taken from the observation;
    -- anything the ledger has that the model does not is a disagreement
    let implSealed := sealed.splitOn ","
    let dropped := (d.s.sealed.filter fun t => !implSealed.contains (bytesToHex t.hash)).map (·.hash)
    let s1 := if dropped.isEmpty then d.s else (Notary.step (cfg d) d.s (.ledgerDrop dropped)).1
    let ms := ",".intercalate (sortStrs (s1.sealed.map fun t => bytesToHex t.hash))
    let ma := hashesStr s1.awaiting
    let _ := out2
    finish d n line s1 s!"{ms} | {ma}" s!"{sealed} | {out}" (if dropped.isEmpty then "state" else "state.ledger-dropped-tip")
  | "SYNC" :: _ =>
    -- after concurrent duplicates: take the ledger's transaction list as observed, drop what it sealed from awaiting
    -- SYNC <raced hash> <winner: C|R|-> | trx ; trx ; …   (replays the race as its sequential winner)
    let body := out
    let ts := (body.splitOn " ; ").filterMap fun p => parseTrx (toks p)
    let raced := (strTok (inp.getD 1 "")).getD []
    let s1 := match findAwaiting d.s raced with
      | some t => (match removeAwaiting d.s raced t.receiver with | .removed _ s' => s' | _ => d.s)
      | none => d.s
    ({ d with s := { s1 with sealed := ts },
              stats := ({ d.stats with lines := d.stats.lines + 1 }).hit "sync" }, none)
  | _ => ({ d with stats := d.stats.hit "skip" }, none)

end CModel.NotaryDrv
