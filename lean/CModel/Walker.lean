/-!
C08 protocol model: the `AncestorsWalker` goroutine of heimdalr/dag v1.3.1 (dag.go:574-627), one
consumer loop of accountant.go, and a later DAG writer, over Go's writer-preferring `sync.RWMutex`.

* producer: `RLock; for each remaining ancestor { select { case <-signal: return; default: ids <- id } };
  RUnlock; close(ids); close(signal)`; `ids` is unbuffered, `signal` has capacity 1.
* consumer: `for id := range ids { work(id); if leaving { <exit policy>; return } }`
  - `noSignal`  : just returns
  - `signalOnly`: `signal <- true; return`
  - `drain`     : `for range ids {}; return`         (stopWalker)
  `nested` = the body takes a nested DAG read lock (GetVertex).
* writer: a DAG write (AddVertex/AddEdge/DeleteVertex). `writerEarly = false` when the consumer runs
  under the ledger lock that every writer needs (it can only arrive after the consumer returned);
  `true` for a consumer running outside that lock (the pre-fix StreamDAG shape).
Core Lean only.
-/
namespace CModel.Walker

inductive Policy | noSignal | signalOnly | drain
deriving DecidableEq, Repr

structure Cfg where
  policy : Policy
  nested : Bool
  writerEarly : Bool
deriving DecidableEq, Repr

/-- producer pc: 0 before RLock, 1 loop top, 2 committed to `ids <- id`, 3 after the loop, 4 done.
consumer pc: 0 waiting in `range ids`, 1 processing an item, 2 returned, 3 draining. -/
structure St where
  rem : Nat            -- ids still to hand over
  pp : Nat := 0
  cp : Nat := 0
  got : Nat := 0       -- items processed by the consumer
  k : Nat              -- the consumer leaves while processing item number k (0 = never leaves early)
  readers : Nat := 0   -- DAG read-lock holders
  ww : Bool := false   -- a writer is waiting for the DAG lock
  wd : Bool := false   -- the writer is done
  sig : Bool := false  -- the signal channel holds an element
  closed : Bool := false
  panic : Bool := false
deriving DecidableEq, Repr

inductive Thread | P | C | W
deriving DecidableEq, Repr

def stepP (s : St) : Option St :=
  match s.pp with
  | 0 => if s.ww then none else some { s with readers := s.readers + 1, pp := 1 }
  | 1 => if s.rem = 0 then some { s with pp := 3 }
         else if s.sig then some { s with sig := false, pp := 3 }
         else some { s with pp := 2 }
  | 2 => if s.cp = 0 then some { s with rem := s.rem - 1, cp := 1, pp := 1 }
         else if s.cp = 3 then some { s with rem := s.rem - 1, pp := 1 }
         else none
  | 3 => some { s with readers := s.readers - 1, closed := true, pp := 4 }
  | _ => none

def stepC (c : Cfg) (s : St) : Option St :=
  match s.cp with
  | 0 => if s.closed then some { s with cp := 2 } else none
  | 1 =>
    if c.nested && s.ww then none else
    if s.got + 1 = s.k then
      match c.policy with
      | .noSignal => some { s with got := s.got + 1, cp := 2 }
      | .signalOnly =>
        if s.closed then some { s with got := s.got + 1, cp := 2, panic := true }
        else if s.sig then none
        else some { s with got := s.got + 1, cp := 2, sig := true }
      | .drain => some { s with got := s.got + 1, cp := 3 }
    else some { s with got := s.got + 1, cp := 0 }
  | 3 => if s.closed then some { s with cp := 2 } else none
  | _ => none

def stepW (c : Cfg) (s : St) : Option St :=
  if s.wd then none
  else if s.ww then (if s.readers = 0 then some { s with ww := false, wd := true } else none)
  else if c.writerEarly || s.cp = 2 then some { s with ww := true } else none

def step (c : Cfg) (s : St) : Thread → Option St
  | .P => stepP s
  | .C => stepC c s
  | .W => stepW c s

def init (n k : Nat) : St := { rem := n, k := k }

/-- Run a schedule; a disabled choice is skipped (the thread stays blocked). -/
def run (c : Cfg) : List Thread → St → St
  | [], s => s
  | t :: ts, s => run c ts ((step c s t).getD s)

def stuck (c : Cfg) (s : St) : Bool := (stepP s).isNone && (stepC c s).isNone && (stepW c s).isNone
def terminated (s : St) : Bool := s.pp = 4 && s.cp = 2 && s.wd

inductive Reach (c : Cfg) (n k : Nat) : St → Prop
  | init : Reach c n k (init n k)
  | step {s s'} (t : Thread) : Reach c n k s → step c s t = some s' → Reach c n k s'

end CModel.Walker
