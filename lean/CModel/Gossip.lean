/-!
C11 / C12 model: dissemination of ONE item (a vertex or an awaiting transaction, identified by its hash)
through a network of gossip nodes (gossip.go GossipVrx / GossipTrx / gossipVertex / gossipTransaction /
verifyGossipers, cache/flashback.go HasHash).

* A gossiper entry is symbolic: `(addr, signer, item)` — the entry names `addr` and carries a signature by
  `signer` over (some address ‖ hash of `item`). `verifyGossipers` keeps it iff the signature verifies for
  `(addr, this item)`, i.e. iff `signer = addr ∧ item = this`. Unforgeability: an adversary can only put an
  entry with `signer = m` for an honest `m` into a message if `m` produced that very entry before
  (`Net.signed`), see `Step.inject`.
* A message carries `authentic`: whether its payload is the item itself or some other payload under the
  same hash (which the ledger / the signature check then rejects).
* `accepts n`: whether node `n`'s ledger (AddLeaf) resp. issuer check admits the authentic item.
* The network may deliver in-flight messages in any order, duplicate them, and hold them back.
Nodes are numbers below `cfg.n`. Core Lean only.
-/
namespace CModel.Gossip

abbrev Node := Nat

structure Entry where
  addr : Node
  signer : Node
  forThis : Bool        -- signature is over this item's hash (and not over another item's)
deriving DecidableEq, Repr

structure Msg where
  dst : Node
  authentic : Bool
  entries : List Entry
deriving DecidableEq, Repr

structure Cfg where
  n : Nat
  peers : Node → List Node      -- peer table of each node
  honest : Node → Bool
  accepts : Node → Bool
  isTrx : Bool := false         -- the item is an awaiting transaction (GossipTrx) rather than a vertex

structure NodeSt where
  seen : Bool := false          -- flash.HasHash remembers the hash
  admitted : Bool := false      -- the item is in the ledger / awaiting cache of the node
  calls : Nat := 0              -- AddLeaf (resp. issuer verification + save) calls for this item
  forwards : Nat := 0           -- how many times the node ran the forwarding loop
  sentTo : List Node := []      -- destinations it forwarded to
deriving DecidableEq, Repr

structure Net where
  nodes : Node → NodeSt
  inflight : List Msg := []
  signed : List Node := []      -- nodes that produced their gossiper entry for this item
  sends : Nat := 0              -- messages ever put on the wire by honest nodes

def Net.node (net : Net) (i : Node) : NodeSt := net.nodes i
def Net.setNode (net : Net) (i : Node) (s : NodeSt) : Net := { net with nodes := fun j => if j = i then s else net.nodes j }

/-- verifyGossipers: the addresses whose entry verifies for this item -/
def verified (es : List Entry) : List Node :=
  (es.filter fun e => e.signer == e.addr && e.forThis).map (·.addr)

def ownEntry (i : Node) : Entry := ⟨i, i, true⟩

/-- the entries a node forwards: the verified ones plus its own -/
def forwardEntries (i : Node) (es : List Entry) : List Entry :=
  (es.filter fun e => e.signer == e.addr && e.forThis) ++ [ownEntry i]

/-- gossipVertex / gossipTransaction: one message per peer that is not in the verified set -/
def fanout (c : Cfg) (i : Node) (es : List Entry) : List Msg :=
  let fe := forwardEntries i es
  let set := verified fe
  ((c.peers i).filter fun p => !set.contains p).map fun p => ⟨p, true, fe⟩

/-- the same loop over whatever the peer table holds when the fan-out runs (the table may have changed since
the list was verified: Announce / Discover run concurrently) -/
def fanoutAt (peersNow : List Node) (i : Node) (es : List Entry) : List Msg :=
  let fe := forwardEntries i es
  let set := verified fe
  (peersNow.filter fun p => !set.contains p).map fun p => ⟨p, true, fe⟩

def init : Net := { nodes := fun _ => {} }

/-- The origin: the item was admitted locally (CreateLeaf / Propose), then taken from the pipe, signed and
fanned out. The origin does NOT record the hash in its flash memory. -/
def originate (c : Cfg) (net : Net) (o : Node) : Net :=
  let st := net.node o
  let out := fanout c o []
  { (net.setNode o { st with admitted := true, forwards := st.forwards + 1, sentTo := st.sentTo ++ out.map (·.dst) }) with
    inflight := net.inflight ++ out, signed := o :: net.signed, sends := net.sends + out.length }

inductive Outcome | droppedSeen | skippedListed | rejected | processed | absorbed
deriving DecidableEq, Repr

/-- GossipVrx / GossipTrx at an honest node -/
def receive (c : Cfg) (net : Net) (m : Msg) : Net × Outcome :=
  let i := m.dst
  let st := net.node i
  if !c.honest i then (net, .absorbed)
  else if st.seen then (net, .droppedSeen)
  else
    let st := { st with seen := true }
    if (verified m.entries).contains i then (net.setNode i st, .skippedListed)
    else
      let st := { st with calls := st.calls + 1 }
      -- vertex: AddLeaf must admit it (a vertex already in the ledger is refused);
      -- transaction: the issuer signature must verify (a failing save is only logged)
      -- a rejected copy is forgotten again (flash.RemoveHash), so it cannot shadow a later authentic one
      if !(m.authentic && (c.isTrx || c.accepts i)) || (!c.isTrx && st.admitted) then
        (net.setNode i { st with seen := false }, .rejected)
      else
        let out := fanout c i m.entries
        ({ (net.setNode i { st with admitted := true, forwards := st.forwards + 1, sentTo := st.sentTo ++ out.map (·.dst) }) with
            inflight := net.inflight ++ out, signed := i :: net.signed, sends := net.sends + out.length }, .processed)

/-- deliver the k-th in-flight message -/
def deliver (c : Cfg) (net : Net) (k : Nat) : Net × Outcome :=
  match net.inflight[k]? with
  | none => (net, .absorbed)
  | some m => receive c { net with inflight := net.inflight.eraseIdx k } m

/-- the network duplicates the k-th in-flight message -/
def duplicate (net : Net) (k : Nat) : Net :=
  match net.inflight[k]? with
  | none => net
  | some m => { net with inflight := net.inflight ++ [m] }

/-- what an adversary may put into a message: entries it can sign itself, anything that does not verify,
and entries honest nodes really produced for this item -/
def entryAllowed (c : Cfg) (net : Net) (e : Entry) : Bool :=
  !(e.signer == e.addr && e.forThis) || !c.honest e.addr || net.signed.contains e.addr

def inject (c : Cfg) (net : Net) (m : Msg) : Net :=
  if m.entries.all (entryAllowed c net) then { net with inflight := net.inflight ++ [m] } else net

/-- the ledger admits a vertex it had parked earlier (orphan retry, C13) — without any gossip -/
def retryAdmit (net : Net) (i : Node) : Net := net.setNode i { net.node i with admitted := true }

inductive Step
  | deliver (k : Nat)
  | duplicate (k : Nat)
  | inject (m : Msg)
  | retryAdmit (i : Node)
deriving Repr

def step (c : Cfg) (net : Net) : Step → Net
  | .deliver k => (deliver c net k).1
  | .duplicate k => duplicate net k
  | .inject m => inject c net m
  | .retryAdmit i => retryAdmit net i

def run (c : Cfg) (net : Net) : List Step → Net
  | [] => net
  | s :: ss => run c (step c net s) ss

/-- an execution without adversarial injections and without network duplication -/
def Step.plain : Step → Bool
  | .deliver _ => true
  | _ => false

end CModel.Gossip
