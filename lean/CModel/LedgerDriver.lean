import CModel.Ledger
import CModel.DriverUtil
/-! Line protocol for the ledger sections: replays GEN/PROP/ADD/RETRY/TRUST/BAL/TRUNC/STREAM/LOAD/
READV/READT lines on `CModel.Book`, enumerating the admissible resolutions of the implementation's
nondeterminism (tip iteration order, balance tip, truncation cut, genesis root) and requiring one
of them to reproduce the reported result *and* the full snapshot. -/
namespace CModel.LedgerDrv
open CModel CModel.Drv CModel.Book

/-- Same priority as `errTable` in harness/cmd/vharness/ledger.go. -/
def tagOrder : List (Tag × String) := [
  (.noParent, "noParent"), (.leafExists, "leafExists"), (.trxExists, "trxExists"), (.ownNode, "ownNode"),
  (.genesisIssuer, "genesisIssuer"), (.trxEmpty, "trxEmpty"), (.notLoaded, "notLoaded"), (.dagLoaded, "dagLoaded"),
  (.genesisRejected, "genesisRejected"), (.notCanonical, "notCanonical"), (.transferFailure, "transferFailure"), (.leafRejected, "leafRejected"),
  (.newLeafRejected, "newLeafRejected"), (.balanceFailure, "balanceFailure"), (.unexpected, "unexpected"),
  (.vertexNotFound, "vertexNotFound"), (.entityNotFound, "entityNotFound"), (.idUnknown, "idUnknown"),
  (.idDuplicate, "idDuplicate"), (.overflow, "overflow"), (.insufficient, "insufficient"), (.panic, "panic")]

def errTag (e : Err) : String :=
  match tagOrder.find? (fun p => e.contains p.1) with
  | some p => p.2
  | none => "other"

def resTag {α} : Except Err α → String
  | .ok _ => "ok"
  | .error e => errTag e

def sortStr (l : List String) : List String := l.mergeSort (fun a b => !(b < a))
def sortNat (l : List Nat) : List Nat := l.mergeSort (fun a b => a ≤ b)
def commas (l : List String) : String := ",".intercalate l
def addrTok (a : Addr) : String := if a == "" then "-" else a

/-- Canonical snapshot fields, same rendering as `World.Snap` in the harness. -/
def snapFields (b : Book) : List (String × String) := [
  ("V", commas ((sortNat (b.verts.map (·.hash))).map toString)),
  ("E", commas (sortStr (b.edges.map fun e => s!"{e.1}>{e.2}"))),
  ("I", commas (sortStr (b.index.map fun e => s!"{e.1}:{e.2}"))),
  ("F", commas (sortStr (b.cpFunds.map fun e => s!"{e.1}:{e.2.cur}:{e.2.supp}"))),
  ("C", commas ((sortNat (b.cpVerts.map (·.hash))).map toString)),
  ("W", toString b.weight), ("T", toString b.throughput),
  ("P", commas (b.parked.map fun p => s!"{p.1.hash}:{p.2}")),
  ("L", if b.loaded then "1" else "0"), ("G", addrTok b.genesis),
  ("TR", commas (sortStr b.trusted))]

def parseSnap (s : String) : List (String × String) :=
  (toks s).filterMap fun t =>
    match t.splitOn "=" with
    | [k, v] => some (k, v)
    | _ => none

/-- Every field the implementation reported (except `?` wildcards) must equal the model's. -/
def snapMatches (b : Book) (obs : List (String × String)) : Bool :=
  let mine := snapFields b
  obs.all fun (k, v) =>
    v == "?" || (match mine.find? (·.1 == k) with
      | some (_, mv) => mv == v
      | none => false)

def snapDiff (b : Book) (obs : List (String × String)) : String :=
  let mine := snapFields b
  " ".intercalate (obs.filterMap fun (k, v) =>
    match mine.find? (·.1 == k) with
    | some (_, mv) => if mv == v || v == "?" then none else some s!"{k}: model={mv} impl={v}"
    | none => some s!"{k}: unknown field")

structure St where
  defs : List (Nat × Vertex) := []
  books : List (Nat × Book) := []
  desynced : List Nat := []
  looseE : List Nat := []   -- nodes whose load failed: partially linked edges depend on map iteration order
  stats : Stats := {}
  skipped : Nat := 0

def St.vertex (s : St) (n : Nat) : Option Vertex := (s.defs.find? (·.1 == n)).map (·.2)
def St.book (s : St) (n : Nat) : Option Book := (s.books.find? (·.1 == n)).map (·.2)
def St.setBook (s : St) (n : Nat) (b : Book) : St :=
  { s with books := (n, b) :: s.books.filter (·.1 != n) }
def St.define (s : St) (n : Nat) (v : Vertex) : St :=
  { s with defs := (n, v) :: s.defs.filter (·.1 != n) }

def insertAll {α} (x : α) : List α → List (List α)
  | [] => [[x]]
  | y :: ys => (x :: y :: ys) :: (insertAll x ys).map (y :: ·)

def perms {α} : List α → List (List α)
  | [] => [[]]
  | x :: xs => (perms xs).flatMap (insertAll x)

/-- Candidate iteration orders over the tips: all permutations when there are few, otherwise
orders built around the hint (tips that disappeared first, then the reported parents). -/
def tipOrders (b : Book) (hintFirst : List Hash) : List (List Hash) :=
  let ls := b.leaves.map (·.hash)
  if ls.length ≤ 5 then perms ls else
  let first := hintFirst.filter ls.contains
  let rest := ls.filter fun h => !hintFirst.contains h
  [first ++ rest, first ++ rest.reverse, rest ++ first, ls, ls.reverse]

/-- The observed stream is: a tip, followed by its not yet streamed ancestors (in any sibling order —
the walker's order among siblings is Go map order), then the next tip, … until every tip was streamed
exactly once. The tip order is read off the stream itself. -/
def streamMatches (b : Book) (ns : List Nat) : Bool :=
  let tips := b.leaves.map (·.hash)
  let rec go (rest : List Nat) (visited doneTips : List Hash) (fuel : Nat) : Bool :=
    match fuel, rest with
    | 0, _ => false
    | _, [] => tips.all doneTips.contains
    | fuel + 1, x :: rest' =>
      if !tips.contains x || doneTips.contains x then false else
      let anc := (b.ancestors x).filter (!visited.contains ·)
      let seg := rest'.take anc.length
      if seg.length == anc.length && seg.all anc.contains && anc.all seg.contains then
        go (rest'.drop anc.length) (visited ++ anc) (x :: doneTips) fuel
      else false
  go ns [] [] (tips.length + 1)

def parseTrx (ts : List String) : Option Trx :=
  match ts with
  | [th, iss, rec, cur, supp, hd] => do
    some { hash := ← th.toNat?, issuer := iss, receiver := rec, spice := ⟨← u64? cur, ← u64? supp⟩, hasData := hd == "1" }
  | _ => none

def natList (s : String) : Option (List Nat) :=
  if s == "" || s == "-" then some [] else (s.splitOn ",").mapM (·.toNat?)

/-- A candidate outcome: model book after the op and the rendered result. -/
abbrev Cand := Book × String

def candidates (s : St) (b : Book) (op : List String) (res : String) (obs : List (String × String)) :
    Option (String × List Cand) :=
  let obsV : List Nat := ((obs.find? (·.1 == "V")).bind (natList ·.2)).getD []
  match op with
  | ["GEN", _, recv, cur, supp, vn] => do
    let v := (s.vertex (← vn.toNat?)).getD default
    let (b', r) := b.createGenesis recv ⟨← u64? cur, ← u64? supp⟩ v
    some ("genesis." ++ resTag r, [(b', resTag r)])
  | "PROP" :: _ :: rest => do
    let trx ← parseTrx (rest.take 6)
    let vn ← (← rest[6]?).toNat?
    let tip := (s.vertex vn).getD default
    let gone := (b.leaves.filter fun v => !obsV.contains v.hash).map (·.hash)
    let cands := (tipOrders b (gone ++ [tip.left, tip.right])).map fun o1 =>
      let (b', r) := b.createLeaf trx o1 o1 tip
      (b', resTag r)
    -- with many tips not every iteration order is enumerated; the throughput counter (which depends
    -- on the order in which failing tips were dropped) is then taken from the implementation.
    let obsT := ((obs.find? (·.1 == "T")).bind (u64? ·.2))
    let cands := if b.leaves.length ≤ 5 then cands else
      cands.map fun (b', r) => (match obsT with | some t => { b' with throughput := t } | none => b', r)
    some ((if b.leaves.length ≤ 5 then "propose." else "propose.manytips.") ++ res, cands)
  | "LPROP" :: _ :: rest => do
    -- the locked body of CreateLeaf alone (the unlocked look-ups were answered by an earlier book): the
    -- vertex the call would seal is rebuilt from the tips it finds
    let trx ← parseTrx (rest.take 6)
    let cands := (tipOrders b []).map fun o1 =>
      let g := b.getValidLeaves o1
      let tip : Vertex := match g.left with
        | some l =>
          let r := g.right.getD l
          { hash := 4000000000, signer := b.self, left := l.hash, right := r.hash,
            weight := calcNewWeight l.weight r.weight, trx := trx, vok := true }
        | none => default
      let (b', r) := b.createLeafLocked trx o1 o1 tip
      (b', resTag r)
    some ("propose.locked." ++ res, cands)
  | ["LADD", _, vn] => do
    -- the locked body of addLeafMemorized alone
    let v ← s.vertex (← vn.toNat?)
    let (b', r) := b.addLeafLocked v 0
    some ("add.locked." ++ resTag r, [(b', resTag r)])
  | ["ADD", _, vn] => do
    let v ← s.vertex (← vn.toNat?)
    let (b', r) := b.addLeaf v
    some ("add." ++ resTag r, [(b', resTag r)])
  | ["RETRY", _, _] =>
    let (b', r) := b.retryParked
    let rs := match r with
      | none => "none"
      | some (_, r) => resTag r
    some ("retry." ++ rs, [(b', rs)])
  | ["TRUST", _, a, on] =>
    some ("trust", [((if on == "1" then b.addTrusted a else b.removeTrusted a), "ok")])
  | ["BAL", _, a] =>
    let cands := b.leaves.map fun tip =>
      match b.calculateBalance tip a with
      | .ok m => (b, s!"ok {m.cur} {m.supp}")
      | .error e => (b, s!"{errTag e} 0 0")
    some ("balance", cands)
  | ["TRUNC", _] =>
    -- the cut is a vertex that stays live while all of its graph parents disappear; the BFS position
    -- rule (`cutAdmissible`) is checked for it against some current tip
    let cuts := b.verts.filter fun c =>
      obsV.contains c.hash && !(b.parentsOf c.hash).isEmpty && (b.parentsOf c.hash).all (fun p => !obsV.contains p)
    let cands := cuts.filterMap fun c =>
      if b.leaves.any (fun tip => cutAdmissible b tip.hash c.hash) then
        let (b', r) := b.truncateAt c.hash
        some (b', resTag r)
      else none
    -- fewer than truncateDiff ancestors below every tip: nothing to cut, truncate is a no-op
    let cands := if cands.isEmpty then [(b, "ok")] else cands
    some ("truncate", cands)
  | ["STREAM", _, names] => do
    let ns ← natList names
    -- any tip order: the stream must be some `streamDag b order`
    let ok := streamMatches b ns
    some ("stream", [(b, if ok then "ok" else "stream-order-not-reproducible")])
  | ["LOAD", _, names] => do
    let ns ← natList names
    let vs := ns.filterMap s.vertex
    if vs.length != ns.length then none else
    let roots : List (Option Vertex) := (vs.filter fun v => v.left == 0 || !ns.contains v.left).map some
    let cands := (roots ++ [none]).flatMap fun r =>
      [vs, vs.reverse].map fun scan =>
        let (b', res) := b.loadDag vs scan r
        (b', resTag res)
    some ("load." ++ res, cands)
  | ["READV", _, h] => do
    let h ← h.toNat?
    let r := match b.readVertex h with
      | some v => s!"ok {v.hash}"
      | none => "vertexNotFound 0"
    some ("readv", [(b, r)])
  | ["READT", _, h] => do
    let h ← h.toNat?
    let r := match b.readTrxByHash h with
      | some t => s!"ok {t.hash}"
      | none => "notfound 0"
    some ("readt", [(b, r)])
  | _ => none

def step (s : St) (lineNo : Nat) (line : String) : St × Option String :=
  let bump (s : St) := { s with stats := { s.stats with lines := s.stats.lines + 1 } }
  match toks line with
  | ["RESET"] => ({ s with defs := [], books := [], desynced := [], looseE := [] }, none)
  | ["CCT", c, d, r] =>
    match u64? c, u64? d with
    | some c, some d =>
      let m := if checkCanTruncate c d then "1" else "0"
      let s := { (bump s) with stats := (bump s).stats.hit "checkCanTruncate" }
      if m == r then (s, none)
      else ({ s with stats := { s.stats with mismatches := s.stats.mismatches + 1 } }, some s!"MISMATCH {lineNo} | CCT {c} {d} | {r} | model: {m}")
    | _, _ => (s, some "bad CCT")
  | "H" :: _ => (s, none)
  | "A" :: _ => (s, none)
  | ["NEW", id, addr] =>
    match id.toNat? with
    | some n => (s.setBook n { self := addr }, none)
    | none => (s, some "bad NEW")
  | ["V", n, signer, l, r, w, vok, th, iss, rec, cur, supp, hd] =>
    match (do
      let t ← parseTrx [th, iss, rec, cur, supp, hd]
      let v : Vertex := { hash := ← n.toNat?, signer := signer, left := ← l.toNat?, right := ← r.toNat?,
                          weight := ← u64? w, trx := t, vok := vok == "1" }
      pure (s.define v.hash v)) with
    | some s' => (s', none)
    | none => (s, some "bad V")
  | _ =>
    match line.splitOn " | " with
    | [opS, res, snapS] =>
      let op := toks opS
      let node := (op[1]?.bind (·.toNat?)).getD 0
      if op.head? == some "SEED" then
        -- re-seeded mode: take the implementation's state as the model state
        let obs := parseSnap snapS
        let get := fun k => ((obs.find? (·.1 == k)).map (·.2)).getD ""
        let self := ((s.book node).map (·.self)).getD ""
        let vs := ((natList (get "V")).getD []).filterMap s.vertex
        let cps := ((natList (get "C")).getD []).filterMap s.vertex
        let pairs := fun (str : String) (sep : String) => if str == "" then [] else (str.splitOn ",").filterMap fun e =>
          match e.splitOn sep with
          | [a, b] => (match a.toNat?, b.toNat? with | some x, some y => some (x, y) | _, _ => none)
          | _ => none
        let funds := if get "F" == "" then [] else ((get "F").splitOn ",").filterMap fun e =>
          match e.splitOn ":" with
          | [a, c, sp] => (match u64? c, u64? sp with | some x, some y => some (a, (⟨x, y⟩ : Melange)) | _, _ => none)
          | _ => none
        let parked := (pairs (get "P") ":").filterMap fun (v, r) => (s.vertex v).map (·, r)
        let gen := if get "G" == "-" then "" else get "G"
        let tr := if get "TR" == "" then [] else (get "TR").splitOn ","
        let b0 : Book := { self := self }
        let b1 : Book := { b0 with genesis := gen, verts := vs, edges := pairs (get "E") ">", index := pairs (get "I") ":" }
        let b2 : Book := { b1 with cpFunds := funds, cpVerts := cps, trusted := tr, parked := parked, loaded := get "L" == "1" }
        let b : Book := { b2 with weight := (u64? (get "W")).getD 0, throughput := (u64? (get "T")).getD 0 }
        let s := { s with desynced := s.desynced.filter (· != node) }
        if snapMatches b obs then (bump (s.setBook node b), none)
        else (bump s, some s!"MISMATCH {lineNo} | SEED | state could not be represented: {snapDiff b obs}")
      else
      if s.desynced.contains node then ({ s with skipped := s.skipped + 1 }, none) else
      match s.book node with
      | none => (bump s, some s!"unknown node {node}")
      | some b =>
        let obs := parseSnap snapS
        let obs := if s.looseE.contains node then obs.filter (·.1 != "E") else obs
        match candidates s b op res.trimAscii.toString obs with
        | none => (bump s, some "unparsable op")
        | some (label, cands) =>
          let s := bump s
          let s := { s with stats := s.stats.hit label }
          let res := res.trimAscii.toString
          match cands.find? (fun c => c.2 == res && snapMatches c.1 obs) with
          | some (b', _) =>
            let s := if op.head? == some "LOAD" && res != "ok" then { s with looseE := node :: s.looseE } else s
            (s.setBook node b', none)
          | none =>
            let detail := match cands.find? (fun c => c.2 == res) with
              | some (b', _) => "result ok, snapshot differs: " ++ snapDiff b' obs
              | none => "model results: " ++ commas ((cands.map (fun (c : Cand) => c.2)).eraseDups.take 6) ++
                  (match cands.head? with | some (b', _) => " | first candidate snapshot diff: " ++ snapDiff b' obs | none => "")
            ({ s with desynced := node :: s.desynced,
                      stats := { s.stats with mismatches := s.stats.mismatches + 1 } },
             some s!"MISMATCH {lineNo} | {opS} | {res} | {detail}")
    | _ => (bump s, some "BADLINE")

end CModel.LedgerDrv
