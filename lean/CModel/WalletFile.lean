/-!
C20 model: encrypted wallet file = nonce(12) ++ AES-GCM ciphertext of the GOB encoding.
AES-GCM is modelled as an *ideal* AEAD for the one-file history the property quantifies over: the only
ciphertext that opens is the one produced by the honest `seal` call, under the same key and nonce
(ciphertext integrity). GOB is an assumed partial inverse pair. Core Lean only.
-/
namespace CModel.WalletFile

abbrev Bytes := List UInt8

def nonceSize : Nat := 12

/-- The honest world: one wallet `w` (as GOB bytes `plain`), saved under `key` with nonce `nonce`
(12 bytes), producing ciphertext `ct`. -/
structure World where
  key : Bytes
  nonce : Bytes
  plain : Bytes
  ct : Bytes
  nonceLen : nonce.length = nonceSize

/-- Ideal AEAD `Open`: succeeds only for exactly what was sealed, under the sealing key and nonce. -/
def World.open (w : World) (k n c : Bytes) : Option Bytes :=
  if k = w.key ∧ n = w.nonce ∧ c = w.ct then some w.plain else none

inductive Res | ok (plain : Bytes) | err | panic
deriving DecidableEq, Repr

def validKeyLen (k : Bytes) : Bool := k.length == 32 || k.length == 16

/-- aeswrapper.Encrypt output. -/
def World.file (w : World) : Bytes := w.nonce ++ w.ct

/-- aeswrapper.Decrypt (after the length check was added; `checked := false` is the former code,
where `data[:nonceSize]` panics for short input). -/
def World.decrypt (w : World) (checked : Bool) (k data : Bytes) : Res :=
  if !validKeyLen k then .err else
  if data.length < nonceSize then (if checked then .err else .panic) else
  match w.open k (data.take nonceSize) (data.drop nonceSize) with
  | some p => .ok p
  | none => .err

/-- Outcome classes used by the correspondence driver. -/
def classify (keyOk lenOk unmodified sameKey : Bool) : String :=
  if !keyOk then "err" else if !lenOk then "err" else if unmodified && sameKey then "same" else "err"

end CModel.WalletFile
