import CModel.Spice
import CModel.DriverUtil
import CModel.WalletFile
/-! Line protocol for C05: replays S/T/N lines on the Spice model. -/
namespace CModel.SpiceDrv
open CModel CModel.Drv CModel.Melange

def errStr : Option Err → String
  | none => "ok" | some .overflow => "overflow" | some .insufficient => "insufficient"

/-- Returns `(branch label, none)` on agreement or `(label, some modelOutput)` on disagreement;
`none` for an unparsable line. -/
def step (line : String) : Option (String × Option String) :=
  match toks line with
  | ["S", mc, ms, ac, as, rc, rs, e] => do
      let m : Melange := ⟨← u64? mc, ← u64? ms⟩
      let a : Melange := ⟨← u64? ac, ← u64? as⟩
      let (r, err) := supply m a
      let out := s!"{r.cur} {r.supp} {errStr err}"
      let exp := s!"{rc} {rs} {e}"
      some (s!"supply.{errStr err}", if out == exp then none else some out)
  | ["T", ac, as, fc, fs, tc, ts, f'c, f's, t'c, t's, e] => do
      let a : Melange := ⟨← u64? ac, ← u64? as⟩
      let f : Melange := ⟨← u64? fc, ← u64? fs⟩
      let t : Melange := ⟨← u64? tc, ← u64? ts⟩
      let (f', t', err) := transfer a f t
      let out := s!"{f'.cur} {f'.supp} {t'.cur} {t'.supp} {errStr err}"
      let exp := s!"{f'c} {f's} {t'c} {t's} {e}"
      some (s!"transfer.{errStr err}", if out == exp then none else some out)
  | ["N", c, s, rc, rs] => do
      let r := Melange.new (← u64? c) (← u64? s)
      let out := s!"{r.cur} {r.supp}"
      some ("new", if out == s!"{rc} {rs}" then none else some out)
  | _ => none

/-- C20 lines: `WF keyOk lenOk unmodified sameKey outcome` against `WalletFile.classify`. -/
def stepWF (line : String) : Option (String × Option String) :=
  match toks line with
  | ["WF", k, l, u, s, out] =>
    let m := CModel.WalletFile.classify (k == "1") (l == "1") (u == "1") (s == "1")
    some (s!"walletfile.{m}", if m == out then none else some m)
  | _ => none

end CModel.SpiceDrv
