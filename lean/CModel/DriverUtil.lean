/-! Shared helpers for the line-protocol driver (core only). -/
namespace CModel.Drv

def toks (line : String) : List String :=
  (line.splitOn " ").filter (· ≠ "")

def u64? (s : String) : Option UInt64 :=
  match s.toNat? with
  | some n => if n < 18446744073709551616 then some (UInt64.ofNat n) else none
  | none => none

structure Stats where
  lines : Nat := 0
  mismatches : Nat := 0
  bad : Nat := 0
  branches : List (String × Nat) := []

def Stats.hit (s : Stats) (k : String) : Stats :=
  let rec go : List (String × Nat) → List (String × Nat)
    | [] => [(k, 1)]
    | (a, n) :: r => if a == k then (a, n + 1) :: r else (a, n) :: go r
  { s with branches := go s.branches }

end CModel.Drv
