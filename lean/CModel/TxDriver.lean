import CModel.Tx
import CModel.CodecDriver
/-! Line protocol for C04 (`SHA`, `B58`, `TV` lines) against `CModel.Tx` with the executable SHA-256 and
base58check instance. -/
namespace CModel.TxDrv
open CModel.Tx CModel.CodecDrv

/-- `S<keyhex>:<digesthex>` = honest signature, `R<hex>` = any other byte string -/
def sigTok (s : String) : Option Sig :=
  match s.toList with
  | 'S' :: rest =>
    match (String.ofList rest).splitOn ":" with
    | [k, d] => do some (.honest (← hexToBytes k) (← hexToBytes d))
    | _ => none
  | 'R' :: rest => (hexToBytes (String.ofList rest)).map .other
  | _ => none

def parseV : List String → Option VertexB
  | [signer, created, weight, left, right, hash, sig, subj, data, iss, rec, tcreated, cur, supp, thash, isig, rsig] => do
    some { signer := ← strTok signer, created := ← created.toNat?, weight := ← weight.toNat?, left := ← strTok left,
           right := ← strTok right, hash := ← strTok hash, sig := ← sigTok sig,
           trx := { subject := ← strTok subj, data := ← strTok data, issuer := ← strTok iss, receiver := ← strTok rec,
                    created := ← tcreated.toNat?, cur := ← cur.toNat?, supp := ← supp.toNat?, hash := ← strTok thash,
                    isig := ← sigTok isig, rsig := ← sigTok rsig } }
  | _ => none

def gateTag : Gate → String
  | .ownNode => "ownNode" | .trxEmpty => "trxEmpty" | .notCanonical => "notCanonical"
  | .genesisIssuer => "genesisIssuer" | .rejected => "leafRejected" | .pass => "ok"

def step (line : String) : Option (String × Option String) :=
  match line.splitOn " | " with
  | [inp, out] =>
    match Drv.toks inp with
    | ["SHA", m] => do
      let d := bytesToHex (realOps.H (← strTok m))
      some ("sha256", if d == out then none else some d)
    | ["B58", a] => do
      let r := match realOps.addrKey (← strTok a) with
        | none => "-"
        | some k => tokStr k
      some ((if r == "-" then "b58.reject" else "b58.ok"), if r == out then none else some r)
    | _ => none
  | [inp, ver, res] =>
    match Drv.toks inp with
    | "TV" :: fs => do
      let v ← parseV fs
      let mv := verifyVertex realOps v
      let g := ingressGate realOps [] v
      let want := s!"{if mv then 1 else 0} | {gateTag g} {if g == .pass then 1 else 0}"
      let got := s!"{ver} | {res}"
      let br := if mv then (if v.trx.rsig.isEmpty then "verify.issuer-only.ok" else "verify.issuer+receiver.ok")
                else if realOps.H (trxMessage v.trx) != v.trx.hash then "verify.trx-hash-mismatch"
                else if !verifyIssuer realOps v.trx then "verify.issuer-sig-invalid"
                else if !v.trx.rsig.isEmpty && !verifyIssuerReceiver realOps v.trx then "verify.receiver-sig-invalid"
                else if realOps.H (vertexData v) != v.hash then "verify.vertex-hash-mismatch"
                else "verify.vertex-sig-invalid"
      some (br, if want == got then none else some want)
    | _ => none
  | _ => none

end CModel.TxDrv
