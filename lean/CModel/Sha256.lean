/-!
Executable SHA-256 and base58check address decoding (core Lean only). Used by the C04 driver so that the
model recomputes every digest and decodes every address itself; compared with Go's crypto/sha256 and
the repository's serializer on every run (trace lines `SHA` and `B58`).
-/
namespace CModel.Crypto

abbrev Bytes := List UInt8

def K : Array UInt32 := #[
  0x428a2f98, 0x71374491, 0xb5c0fbcf, 0xe9b5dba5, 0x3956c25b, 0x59f111f1, 0x923f82a4, 0xab1c5ed5,
  0xd807aa98, 0x12835b01, 0x243185be, 0x550c7dc3, 0x72be5d74, 0x80deb1fe, 0x9bdc06a7, 0xc19bf174,
  0xe49b69c1, 0xefbe4786, 0x0fc19dc6, 0x240ca1cc, 0x2de92c6f, 0x4a7484aa, 0x5cb0a9dc, 0x76f988da,
  0x983e5152, 0xa831c66d, 0xb00327c8, 0xbf597fc7, 0xc6e00bf3, 0xd5a79147, 0x06ca6351, 0x14292967,
  0x27b70a85, 0x2e1b2138, 0x4d2c6dfc, 0x53380d13, 0x650a7354, 0x766a0abb, 0x81c2c92e, 0x92722c85,
  0xa2bfe8a1, 0xa81a664b, 0xc24b8b70, 0xc76c51a3, 0xd192e819, 0xd6990624, 0xf40e3585, 0x106aa070,
  0x19a4c116, 0x1e376c08, 0x2748774c, 0x34b0bcb5, 0x391c0cb3, 0x4ed8aa4a, 0x5b9cca4f, 0x682e6ff3,
  0x748f82ee, 0x78a5636f, 0x84c87814, 0x8cc70208, 0x90befffa, 0xa4506ceb, 0xbef9a3f7, 0xc67178f2]

def H0 : Array UInt32 := #[0x6a09e667, 0xbb67ae85, 0x3c6ef372, 0xa54ff53a, 0x510e527f, 0x9b05688c, 0x1f83d9ab, 0x5be0cd19]

@[inline] def rotr (x : UInt32) (n : UInt32) : UInt32 := (x >>> n) ||| (x <<< (32 - n))

def pad (msg : Bytes) : Bytes :=
  let l := msg.length
  let zeros := (119 - l % 64) % 64   -- so that (l + 1 + zeros) % 64 = 56
  let bits := l * 8
  msg ++ [(0x80 : UInt8)] ++ List.replicate zeros (0 : UInt8) ++
    (List.range 8).map (fun i => UInt8.ofNat ((bits >>> (8 * (7 - i))) % 256))

def word (b : Array UInt8) (i : Nat) : UInt32 :=
  ((b[i]!).toUInt32 <<< 24) ||| ((b[i+1]!).toUInt32 <<< 16) ||| ((b[i+2]!).toUInt32 <<< 8) ||| (b[i+3]!).toUInt32

def schedule (blk : Array UInt8) (off : Nat) : Array UInt32 := Id.run do
  let mut w : Array UInt32 := Array.mkEmpty 64
  for i in [0:16] do
    w := w.push (word blk (off + 4 * i))
  for i in [16:64] do
    let w15 := w[i-15]!
    let w2 := w[i-2]!
    let s0 := rotr w15 7 ^^^ rotr w15 18 ^^^ (w15 >>> 3)
    let s1 := rotr w2 17 ^^^ rotr w2 19 ^^^ (w2 >>> 10)
    w := w.push (w[i-16]! + s0 + w[i-7]! + s1)
  return w

def compress (h : Array UInt32) (w : Array UInt32) : Array UInt32 := Id.run do
  let mut a := h[0]!; let mut b := h[1]!; let mut c := h[2]!; let mut d := h[3]!
  let mut e := h[4]!; let mut f := h[5]!; let mut g := h[6]!; let mut hh := h[7]!
  for i in [0:64] do
    let s1 := rotr e 6 ^^^ rotr e 11 ^^^ rotr e 25
    let ch := (e &&& f) ^^^ ((~~~ e) &&& g)
    let t1 := hh + s1 + ch + K[i]! + w[i]!
    let s0 := rotr a 2 ^^^ rotr a 13 ^^^ rotr a 22
    let maj := (a &&& b) ^^^ (a &&& c) ^^^ (b &&& c)
    let t2 := s0 + maj
    hh := g; g := f; f := e; e := d + t1; d := c; c := b; b := a; a := t1 + t2
  return #[h[0]! + a, h[1]! + b, h[2]! + c, h[3]! + d, h[4]! + e, h[5]! + f, h[6]! + g, h[7]! + hh]

def sha256 (msg : Bytes) : Bytes := Id.run do
  let p := (pad msg).toArray
  let mut h := H0
  for blk in [0:p.size / 64] do
    h := compress h (schedule p (blk * 64))
  let out : Bytes := h.toList.flatMap fun (x : UInt32) =>
    [(x >>> 24).toUInt8, (x >>> 16).toUInt8, (x >>> 8).toUInt8, x.toUInt8]
  return out

/-! ### base58 (Bitcoin alphabet, as mr-tron/base58) -/

def b58alphabet : String := "123456789ABCDEFGHJKLMNPQRSTUVWXYZabcdefghijkmnopqrstuvwxyz"

def b58index (c : Char) : Option Nat :=
  let rec go (cs : List Char) (i : Nat) : Option Nat :=
    match cs with
    | [] => none
    | x :: xs => if x == c then some i else go xs (i + 1)
  go b58alphabet.toList 0

/-- big-endian bytes of a number, no leading zero byte (`[]` for 0) -/
def natToBytesBE (n : Nat) : Bytes :=
  if h : n = 0 then [] else natToBytesBE (n / 256) ++ [UInt8.ofNat (n % 256)]
termination_by n
decreasing_by exact Nat.div_lt_self (Nat.pos_of_ne_zero h) (by decide)

/-- value of a big-endian base-58 digit list -/
def digitsVal (ds : List Nat) : Nat := ds.foldl (fun acc d => acc * 58 + d) 0

/-- base58 decode of a character list: every character must be in the alphabet; leading '1's (digit 0)
are leading zero bytes, the rest is the big-endian number. -/
def base58DecodeC (cs : List Char) : Option Bytes := do
  let ds ← cs.mapM b58index
  let zeros := (ds.takeWhile (· == 0)).length
  some (List.replicate zeros (0 : UInt8) ++ natToBytesBE (digitsVal ds))

def base58Decode (s : String) : Option Bytes := base58DecodeC s.toList

def checksumLength : Nat := 4

/-- wallet.Helper.AddressToPubKey: version byte | key | 4-byte double-sha256 checksum. -/
def addressToPubKeyC (cs : List Char) : Option Bytes := do
  let raw ← base58DecodeC cs
  if raw.length < checksumLength + 1 then none else
  let actual := raw.drop (raw.length - checksumLength)
  let body := raw.take (raw.length - checksumLength)     -- version ++ key
  if body.head? != some (0 : UInt8) then none else       -- only wallet version 0 is supported
  let target := (sha256 (sha256 body)).take checksumLength
  if actual == target then some (body.drop 1) else none

def addressToPubKey (addr : String) : Option Bytes := addressToPubKeyC addr.toList

end CModel.Crypto
