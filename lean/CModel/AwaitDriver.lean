import CModel.AwaitCache
import CModel.DriverUtil
/-! Line protocol for C17 (stateful): SAVE / REM / READ against `CModel.AwaitCache.Store`. -/
namespace CModel.AwaitDrv
open CModel.AwaitCache CModel.Drv

def errS : Option Err → String
  | none => "ok" | some .exists => "exists" | some .notFound => "notFound" | some .unauthorized => "unauthorized"

/-- returns (new store, label, none | some modelOutput); `none` for an unparsable line -/
def step (s : Store) (line : String) : Option (Store × String × Option String) :=
  match line.splitOn " | " with
  | [op, res] =>
    let res := res.trimAscii.toString
    match toks op with
    | ["SAVE", h, i, r] => do
      let (s', e) := s.save ⟨← h.toNat?, i, r⟩
      some (s', "save." ++ errS e, if errS e == res then none else some (errS e))
    | ["REM", h, a] => do
      let (s', e) := s.remove (← h.toNat?) a
      some (s', "remove." ++ errS e, if errS e == res then none else some (errS e))
    | ["READ", a] =>
      let (s', r) := s.read a
      let out := match r with
        | none => ""
        | some l => ",".intercalate (l.map (toString ·.hash))
      some (s', "read", if out == res then none else some out)
    | _ => none
  | [op] =>
    match toks op with
    | ["READ", a, "|"] =>
      let (s', r) := s.read a
      let out := match r with
        | none => ""
        | some l => ",".intercalate (l.map (toString ·.hash))
      some (s', "read", if out == "" then none else some out)
    | _ => none
  | _ => none

end CModel.AwaitDrv
