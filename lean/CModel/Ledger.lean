import CModel.Spice
/-!
Model of the ledger core: /repo/src/accountant/{accountant,founds,precalculate,helper,replier,storage}.go
over heimdalr/dag v1.3.1.  One definition per Go function, same control flow and error order.

Nondeterminism of the implementation (Go map iteration order over tips, which tip a balance query
walks, BFS sibling order) is an explicit *argument* (`order`, `tip`, `cut`) that each operation
checks for admissibility; the correspondence driver enumerates / infers it.

Signature verification of a vertex is the field `vok` (the result of `(*Vertex).verify` on the
vertex' own content, which is a pure function of that content — computed by the C04 model from
the bytes or reported by the implementation's own verifier in ledger traces).
-/
namespace CModel

abbrev Hash := Nat          -- 32-byte hash as a number; 0 is the all-zero hash
abbrev Addr := String

structure Trx where
  hash     : Hash
  issuer   : Addr
  receiver : Addr
  spice    : Melange
  hasData  : Bool
deriving DecidableEq, Repr, Inhabited

structure Vertex where
  hash   : Hash
  signer : Addr
  left   : Hash
  right  : Hash
  weight : UInt64
  trx    : Trx
  vok    : Bool
deriving DecidableEq, Repr, Inhabited

namespace Trx
def isSpice (t : Trx) : Bool := !t.spice.empty
def isContract (t : Trx) : Bool := t.hasData
def isEmpty (t : Trx) : Bool := !t.isContract && !t.isSpice
end Trx

/-- Sentinel errors of the accountant package that callers can observe (`errors.Is`). -/
inductive Tag
  | notLoaded | dagLoaded | trxEmpty | ownNode | genesisIssuer | trxExists | leafExists
  | leafRejected | newLeafRejected | noParent | unexpected | transferFailure | doubleSpending
  | overflow | insufficient | balanceFailure | vertexNotFound | idUnknown | idDuplicate | entityNotFound
  | genesisRejected | notCanonical | panic
deriving DecidableEq, Repr, Inhabited

abbrev Err := List Tag

structure Book where
  self       : Addr
  genesis    : Addr := ""
  verts      : List Vertex := []                 -- live DAG, insertion order
  edges      : List (Hash × Hash) := []          -- parent → child
  index      : List (Hash × Hash) := []          -- transaction hash → vertex hash (trxsToVertxDB)
  cpFunds    : List (Addr × Melange) := []       -- checkpointed funds (verticesDB, non-32-byte keys)
  cpVerts    : List Vertex := []                 -- checkpointed vertices (verticesDB, 32-byte keys)
  trusted    : List Addr := []
  weight     : UInt64 := 0
  throughput : UInt64 := 0
  parked     : List (Vertex × Nat) := []         -- orphan buffer (FIFO)
  loaded     : Bool := false
deriving Repr, Inhabited

namespace Book

def initialThroughput : UInt64 := 50
def truncateDiff : Nat := 1000
def maxArraySize : Nat := 500
def maxRepeats : Nat := 25

/-! ### graph primitives (heimdalr/dag) -/

def getVertex (b : Book) (h : Hash) : Option Vertex := b.verts.find? (·.hash == h)
def hasVertex (b : Book) (h : Hash) : Bool := b.verts.any (·.hash == h)
def isRoot (b : Book) (h : Hash) : Bool := !b.edges.any (·.2 == h)
def isLeaf (b : Book) (h : Hash) : Bool := !b.edges.any (·.1 == h)
def leaves (b : Book) : List Vertex := b.verts.filter (fun v => b.isLeaf v.hash)
def roots (b : Book) : List Vertex := b.verts.filter (fun v => b.isRoot v.hash)
def parentsOf (b : Book) (h : Hash) : List Hash := (b.edges.filter (·.2 == h)).map (·.1)

def deleteVertex (b : Book) (h : Hash) : Book :=
  { b with verts := b.verts.filter (·.hash != h),
           edges := b.edges.filter (fun e => e.1 != h && e.2 != h) }

def addVertex (b : Book) (v : Vertex) : Option Book :=
  if b.hasVertex v.hash then none else some { b with verts := b.verts ++ [v] }

/-- Breadth-first ancestor walk (dag.go walkAncestors): every strict ancestor once, level by level.
`fuel` bounds the number of levels (the number of vertices suffices). -/
def bfs (b : Book) : Nat → List Hash → List Hash → List Hash
  | 0, _, visited => visited
  | fuel + 1, frontier, visited =>
    if frontier.isEmpty then visited else
    let next := (frontier.flatMap b.parentsOf).foldl
      (fun acc p => if acc.contains p || visited.contains p then acc else acc ++ [p]) []
    bfs b fuel next (visited ++ next)

def ancestors (b : Book) (h : Hash) : List Hash :=
  let first := (b.parentsOf h).foldl (fun acc p => if acc.contains p then acc else acc ++ [p]) []
  bfs b b.verts.length first first

def reaches (b : Book) (src dst : Hash) : Bool := (b.ancestors dst).contains src

/-- dag.AddEdge: unknown ids, equal ids, duplicate edge and loops are errors. -/
def addEdge (b : Book) (src dst : Hash) : Option Book :=
  if !b.hasVertex src || !b.hasVertex dst then none
  else if src == dst then none
  else if b.edges.contains (src, dst) then none
  else if b.reaches dst src then none
  else some { b with edges := b.edges ++ [(src, dst)] }

/-! ### storage primitives -/

def indexGet (b : Book) (t : Hash) : Option Hash := (b.index.find? (·.1 == t)).map (·.2)
def indexHas (b : Book) (t : Hash) : Bool := b.index.any (·.1 == t)
/-- saveTrxInVertex: get-then-set inside one badger transaction. -/
def indexSave (b : Book) (t v : Hash) : Option Book :=
  if b.indexHas t then none else some { b with index := b.index ++ [(t, v)] }
def indexRemove (b : Book) (t : Hash) : Book := { b with index := b.index.filter (·.1 != t) }

def cpFundsGet (b : Book) (a : Addr) : Option Melange := (b.cpFunds.find? (·.1 == a)).map (·.2)
def cpHasVertex (b : Book) (h : Hash) : Bool := b.cpVerts.any (·.hash == h)
def cpGetVertex (b : Book) (h : Hash) : Option Vertex := b.cpVerts.find? (·.hash == h)
def isTrusted (b : Book) (a : Addr) : Bool := b.trusted.contains a

/-! ### weight window -/

def updateWT (b : Book) (w : UInt64) : Book :=
  let b1 := if b.weight < w then { b with weight := w } else b
  { b1 with throughput := b1.throughput + UInt64.ofNat b1.leaves.length + 1 }

def isValidWeight (b : Book) (w : UInt64) : Bool :=
  if b.throughput > b.weight then true else w ≥ b.weight - b.throughput

def calcNewWeight (l r : UInt64) : UInt64 := (if l ≥ r then l else r) + 1

/-! ### funds -/

/-- founds.go pourFunds on the pair (spiceIn, spiceOut). -/
def pourFunds (a : Addr) (v : Vertex) (io : Melange × Melange) : Except Err (Melange × Melange) :=
  if !v.trx.isSpice then .ok io else
  let out? : Except Err Melange :=
    if v.trx.issuer == a then
      match io.2.supply v.trx.spice with
      | (m, none) => .ok m
      | (_, some _) => .error [.unexpected, .overflow]
    else .ok io.2
  match out? with
  | .error e => .error e
  | .ok out =>
    if v.trx.receiver == a then
      match io.1.supply v.trx.spice with
      | (m, none) => .ok (m, out)
      | (_, some _) => .error [.unexpected, .overflow]
    else .ok (io.1, out)

def errOf : Melange.Err → Tag
  | .overflow => .overflow
  | .insufficient => .insufficient

/-- founds.go checkHasSufficientfunds -/
def checkSufficient (io : Melange × Melange) : Except Err Unit :=
  match io.1.drain io.2 Melange.zero with
  | (_, _, none) => .ok ()
  | (_, _, some e) => .error [.doubleSpending, errOf e]

def badParent (leaf : Option Vertex) (v : Vertex) : Bool :=
  match leaf with
  | some l => (v.hash == l.left || v.hash == l.right) && !v.vok
  | none => false

/-- The ancestor walk shared by validateLeaf and CalculateBalance: parents of the validated leaf are
re-verified on the way, every visited vertex is poured into the running (in, out) pair. -/
def foldFunds (b : Book) (a : Addr) (hs : List Hash) (io : Melange × Melange)
    (wrap : Err → Err) (leaf : Option Vertex) : Except Err (Melange × Melange) :=
  match hs with
  | [] => .ok io
  | h :: hs =>
    match b.getVertex h with
    | none => .error [.unexpected, .idUnknown]
    | some v =>
      if badParent leaf v then .error [.leafRejected] else
      match pourFunds a v io with
      | .ok io' => foldFunds b a hs io' wrap leaf
      | .error e => .error (wrap e)

/-- Pour `tip` itself, then walk its ancestors (the common core of validateLeaf and CalculateBalance).
An error at the tip is returned as is, errors during the walk are wrapped. -/
def walkFunds (b : Book) (a : Addr) (tip : Vertex) (io0 : Melange × Melange)
    (wrap : Err → Err) (leaf : Option Vertex) : Except Err (Melange × Melange) :=
  match pourFunds a tip io0 with
  | .error e => .error e
  | .ok io => foldFunds b a (b.ancestors tip.hash) io wrap leaf

/-- Tail of CalculateBalance: checkpoint + in, then − out. -/
def balFinish (cp : Melange) (io : Melange × Melange) : Except Err Melange :=
  match cp.supply io.1 with
  | (_, some e) => .error [.balanceFailure, errOf e]
  | (s1, none) =>
    match s1.drain io.2 Melange.zero with
    | (_, _, some e) => .error [.balanceFailure, errOf e]
    | (s2, _, none) => .ok s2

/-- Funds branch of validateLeaf (accountant.go:342-413). -/
def validateFunds (b : Book) (leaf : Vertex) : Except Err Unit :=
  match Melange.zero.supply ((b.cpFundsGet leaf.trx.issuer).getD Melange.zero) with
  | (_, some _) => .error [.overflow]
  | (spiceIn, none) =>
    match walkFunds b leaf.trx.issuer leaf (spiceIn, Melange.zero) (fun e => .transferFailure :: e) (some leaf) with
    | .error e => .error e
    | .ok io' =>
      match checkSufficient io' with
      | .ok () => .ok ()
      | .error e => .error (.transferFailure :: e)

/-- accountant.go validateLeaf (the book is not modified). -/
def validateLeaf (b : Book) (leaf : Vertex) : Except Err Unit :=
  if !b.isValidWeight leaf.weight then .error [.leafRejected] else
  if !leaf.vok then .error [.leafRejected] else
  if b.isRoot leaf.hash then .ok () else
  if !leaf.trx.isSpice || b.isTrusted leaf.signer then
    if !b.hasVertex leaf.right then .error [.leafRejected, .idUnknown] else
    if !b.hasVertex leaf.left then .error [.leafRejected, .idUnknown] else .ok ()
  else validateFunds b leaf

/-- Result of getValidLeaves: book after dropping failing tips, first two valid tips, and the
error of the *last validation performed* (the Go function assigns every validation result to its
named return value `err`, so a failing tip visited last makes the whole call fail even though
valid tips were found). `order` is the iteration order of the tips map. -/
structure GVL where
  book : Book
  left : Option Vertex := none
  right : Option Vertex := none
  err : Option Err := none

/-- One visit of getValidLeaves: `v` is a tip still present in the book. -/
def visitTip (st : GVL) (v : Vertex) : GVL :=
  match st.book.validateLeaf v with
  | .error e =>
    { st with book := ((st.book.deleteVertex v.hash).indexRemove v.trx.hash).updateWT v.weight, err := some e }
  | .ok () =>
    if st.left.isNone then { st with left := some v, err := none } else { st with right := some v, err := none }

/-- One iteration of the loop over the tips map in getValidLeaves. -/
def gvlStep (st : GVL) (h : Hash) : GVL :=
  if st.left.isSome && st.right.isSome then st else
  match st.book.getVertex h with
  | none => st                       -- not a vertex of the book: not part of the tips map
  | some v => if st.book.isLeaf h then visitTip st v else st   -- the tips map only holds tips

def getValidLeaves (b : Book) (order : List Hash) : GVL := order.foldl gvlStep { book := b }

/-- Add edges from the (consecutively deduplicated) `parents` to `tip`. -/
def linkNew (b : Book) (tip : Hash) : Hash → List Hash → Option Book
  | _, [] => some b
  | added, p :: ps =>
    if p == added then some b else
    match b.addEdge p tip with
    | none => none
    | some b' => linkNew b' tip p ps

/-- The common tail of CreateLeaf / addLeafMemorized: saveTrxInVertex, AddVertexByID, AddEdge per
parent, with the roll-backs of the Go code. Returns the failing stage (1 = index, 2 = vertex, 3 = edge). -/
def insertLinked (b : Book) (v : Vertex) (parents : List Hash) : Book × Option Nat :=
  match b.indexSave v.trx.hash v.hash with
  | none => (b, some 1)
  | some b2 =>
    match b2.addVertex v with
    | none => (b2.indexRemove v.trx.hash, some 2)
    | some b3 =>
      match linkNew b3 v.hash 0 parents with
      | none => ((b3.deleteVertex v.hash).indexRemove v.trx.hash, some 3)
      | some b4 => (b4, none)

/-- accountant.go CreateLeaf. `order1`/`order2` are the tip iteration orders of the (up to) two
`getValidLeaves` passes; `tip` is the vertex the implementation produced (time stamp, hash and
signature are not predictable) and is *checked* against what the code must have built. -/
def createLeafLocked (b : Book) (trx : Trx) (order1 order2 : List Hash) (tip : Vertex) : Book × Except Err Vertex :=
  let g1 := b.getValidLeaves order1
  let res : Book × Except Err (Vertex × Option Vertex) :=
    match g1.err with
    | some e => (g1.book, .error e)
    | none =>
      match g1.left with
      | some l => (g1.book, .ok (l, g1.right))
      | none =>
        let g2 := g1.book.getValidLeaves order2
        match g2.err with
        | some e => (g2.book, .error e)
        | none =>
          match g2.left with
          | some _ => (g2.book, .error [.unexpected])   -- inverted condition at accountant.go:893
          | none => (g2.book, .error [.panic])          -- nil leftLeaf dereferenced at accountant.go:905
  match res with
  | (b1, .error e) => (b1, .error e)
  | (b1, .ok (l, r?)) =>
    let r := r?.getD l
    let expect : Vertex := { tip with signer := b.self, left := l.hash, right := r.hash,
                                      weight := calcNewWeight l.weight r.weight, trx := trx }
    if expect != tip || !tip.vok then (b1, .error [.unexpected, .panic]) else   -- hint not admissible
    match insertLinked b1 tip [l.hash, r.hash] with
    | (b', none) => (b', .ok tip)
    | (b', some 1) => (b', .error [.unexpected])
    | (b', some _) => (b', .error [.newLeafRejected])

/-- accountant.go CreateLeaf: the checks made before `ab.mux.Lock()` (on the book of that moment), then
the locked body `createLeafLocked`. -/
def createLeaf (b : Book) (trx : Trx) (order1 order2 : List Hash) (tip : Vertex) : Book × Except Err Vertex :=
  if !b.loaded then (b, .error [.notLoaded]) else
  if trx.isEmpty then (b, .error [.trxEmpty]) else
  if !trx.spice.canonB then (b, .error [.notCanonical]) else
  if trx.issuer == b.self then (b, .error [.ownNode]) else
  if trx.issuer == b.genesis then (b, .error [.genesisIssuer]) else
  if b.indexHas trx.hash then (b, .error [.trxExists]) else
  b.createLeafLocked trx order1 order2 tip

def checkVertexExists (b : Book) (h : Hash) : Bool := b.hasVertex h || b.cpHasVertex h

/-- replier.go insert -/
def park (b : Book) (v : Vertex) (rep : Nat) : Option Book :=
  if b.parked.length == maxArraySize then none
  else if rep > maxRepeats then none
  else some { b with parked := b.parked ++ [(v, rep + 1)] }

/-- The parent loop of addLeafMemorized (accountant.go:545-585). -/
def checkParents (b : Book) (leaf : Vertex) (rep : Nat) :
    List Hash → List Vertex → Book × Except Err (List Vertex)
  | [], acc => (b, .ok acc)
  | h :: hs, acc =>
    match b.getVertex h with
    | none =>
      match b.park leaf rep with
      | none => (b, .error [.leafRejected])
      | some b' => (b', .error [.noParent])
    | some existing =>
      if b.isLeaf h then
        match b.validateLeaf existing with
        | .error e => ((b.deleteVertex existing.hash).indexRemove existing.trx.hash, .error (.leafRejected :: e))
        | .ok () => checkParents (b.updateWT existing.weight) leaf rep hs (acc ++ [existing])
      else checkParents b leaf rep hs (acc ++ [existing])

/-- accountant.go addLeafMemorized -/
def addLeafLocked (b : Book) (leaf : Vertex) (rep : Nat) : Book × Except Err Unit :=
  match checkParents b leaf rep [leaf.left, leaf.right] [] with
  | (b1, .error e) => (b1, .error e)
  | (b1, .ok validated) =>
    match insertLinked b1 leaf (validated.map (·.hash)) with
    | (b', none) => (b', .ok ())
    | (b', some 1) => (b', .error [.unexpected, .trxExists])
    | (b', some _) => (b', .error [.leafRejected])

/-- addLeafMemorized: the checks made before `ab.mux.Lock()` (on the book of that moment), then the locked
body `addLeafLocked`. -/
def addLeafMemorized (b : Book) (leaf : Vertex) (rep : Nat) : Book × Except Err Unit :=
  if leaf.trx.issuer == b.genesis then (b, .error [.genesisIssuer]) else
  if b.checkVertexExists leaf.hash then (b, .error [.leafExists]) else
  if b.indexHas leaf.trx.hash then (b, .error [.trxExists]) else
  if !leaf.vok then (b, .error [.leafRejected]) else
  b.addLeafLocked leaf rep

/-- accountant.go AddLeaf -/
def addLeaf (b : Book) (leaf : Vertex) : Book × Except Err Unit :=
  if !b.loaded then (b, .error [.notLoaded]) else
  if leaf.trx.issuer == leaf.signer then (b, .error [.ownNode]) else
  if leaf.trx.isEmpty then (b, .error [.trxEmpty]) else
  if !leaf.trx.spice.canonB then (b, .error [.notCanonical]) else
  b.addLeafMemorized leaf 0

/-- One tick of the orphan buffer (replier.go getNext + runLeafSubscriber). The sort comparator in
getNext compares an element with itself, so the stable sort is the identity: FIFO. -/
def retryParked (b : Book) : Book × Option (Vertex × Except Err Unit) :=
  match b.parked with
  | [] => (b, none)
  | (v, rep) :: rest =>
    let (b', r) := ({ b with parked := rest }).addLeafMemorized v rep
    (b', some (v, r))

/-- accountant.go CreateGenesis; `vrx` is the vertex produced (checked against the request). -/
def createGenesis (b : Book) (receiver : Addr) (spc : Melange) (vrx : Vertex) : Book × Except Err Vertex :=
  if receiver == b.self then (b, .error [.genesisRejected]) else
  if !spc.canonB then (b, .error [.genesisRejected, .notCanonical]) else
  if vrx.trx.spice != spc || vrx.signer != b.self || vrx.trx.issuer != b.self || vrx.trx.receiver != receiver
      || vrx.left != 0 || vrx.right != 0 || vrx.weight != 0 || !vrx.vok then (b, .error [.unexpected, .panic]) else
  match b.indexSave vrx.trx.hash vrx.hash with
  | none => (b, .error [.genesisRejected, .trxExists])
  | some b1 =>
    match b1.addVertex vrx with
    | none => (b1, .error [.idDuplicate])
    | some b2 =>
      let b3 := ({ b2 with throughput := initialThroughput }).updateWT initialThroughput
      ({ b3 with loaded := true, genesis := b.self }, .ok vrx)

/-- accountant.go CalculateBalance over the tip the implementation happened to pick. -/
def calculateBalance (b : Book) (tip : Vertex) (a : Addr) : Except Err Melange :=
  match walkFunds b a tip (Melange.zero, Melange.zero) id none with
  | .error e => .error e
  | .ok io => balFinish ((b.cpFundsGet a).getD Melange.zero) io

/-! ### truncation (accountant.go truncate, precalculate.go) -/

structure Pre where
  inn : Melange := Melange.zero
  out : Melange := Melange.zero
deriving Repr, Inhabited

def fmGet (m : List (Addr × Pre)) (a : Addr) : Pre := ((m.find? (·.1 == a)).map (·.2)).getD {}
def fmSet (m : List (Addr × Pre)) (a : Addr) (p : Pre) : List (Addr × Pre) :=
  if m.any (·.1 == a) then m.map (fun e => if e.1 == a then (a, p) else e) else m ++ [(a, p)]

/-- precalculate.go updateFounds: the issuer's entry is updated and stored, then the receiver's entry
is read, updated and stored (for a transfer to oneself the second step sees the first); `Supply`
errors are ignored. -/
def fmUpdate (m : List (Addr × Pre)) (issuer receiver : Addr) (s : Melange) : List (Addr × Pre) :=
  let ip := fmGet m issuer
  let m1 := fmSet m issuer { ip with out := (ip.out.supply s).1 }
  let rp := fmGet m1 receiver
  fmSet m1 receiver { rp with inn := (rp.inn.supply s).1 }

def fmNext (m : List (Addr × Pre)) (v : Vertex) : List (Addr × Pre) :=
  if !v.trx.isSpice then m else fmUpdate m v.trx.issuer v.trx.receiver v.trx.spice

/-- saveToStorage: `in.Drain(out)` with the error ignored (a failing drain leaves `in`). -/
def fmFinal (p : Pre) : Melange := (p.inn.drain p.out Melange.zero).1

def cpFundsSet (l : List (Addr × Melange)) (a : Addr) (s : Melange) : List (Addr × Melange) :=
  if l.any (·.1 == a) then l.map (fun e => if e.1 == a then (a, s) else e) else l ++ [(a, s)]

/-- Second walk of truncate: every ancestor of the cut is looked up and saved to storage
(saveVertexToStorage fails if the hash is already stored). -/
def collectMoved (b : Book) : List Hash → List Vertex → Except Err (List Vertex)
  | [], acc => .ok acc
  | h :: hs, acc =>
    match b.getVertex h with
    | none => .error [.unexpected, .idUnknown]
    | some v =>
      if (b.cpVerts ++ acc).any (·.hash == v.hash) then .error [.unexpected, .leafExists]
      else collectMoved b hs (acc ++ [v])

/-- Checkpointed funds after folding the moved vertices into the funds map (precalculate.go). -/
def newCpFunds (b : Book) (mv : List Vertex) : List (Addr × Melange) :=
  let fm0 : List (Addr × Pre) := b.cpFunds.map (fun e => (e.1, { inn := e.2 }))
  let fm := mv.foldl fmNext fm0
  fm.foldl (fun l e => cpFundsSet l e.1 (fmFinal e.2)) b.cpFunds

/-- truncate with the cut vertex given (the BFS position rule is checked by `cutAdmissible`).
Everything strictly above the cut moves to storage; the cut itself stays and becomes a root. -/
def truncateAt (b : Book) (cut : Hash) : Book × Except Err Unit :=
  if !b.hasVertex cut then (b, .error [.idUnknown]) else
  match collectMoved b (b.ancestors cut) [] with
  | .error e => (b, .error e)
  | .ok mv =>
    let b1 := { b with cpFunds := newCpFunds b mv, cpVerts := b.cpVerts ++ mv }
    ((b.ancestors cut).foldl (fun b h => b.deleteVertex h) b1, .ok ())

/-- BFS levels of the ancestors of `h`. -/
def bfsLevels (b : Book) : Nat → List Hash → List Hash → List (List Hash) → List (List Hash)
  | 0, _, _, acc => acc
  | fuel + 1, frontier, visited, acc =>
    if frontier.isEmpty then acc else
    let next := (frontier.flatMap b.parentsOf).foldl
      (fun acc p => if acc.contains p || visited.contains p then acc else acc ++ [p]) []
    bfsLevels b fuel next (visited ++ next) (acc ++ [next])

/-- `cut` can be the `truncateDiff`-th vertex of *some* breadth-first walk from `tip`. -/
def cutAdmissible (b : Book) (tip cut : Hash) : Bool :=
  let first := (b.parentsOf tip).foldl (fun acc p => if acc.contains p then acc else acc ++ [p]) []
  let levels := (bfsLevels b b.verts.length first first [first]).filter (!·.isEmpty)
  let rec go (before : Nat) : List (List Hash) → Bool
    | [] => false
    | l :: ls =>
      if l.contains cut then before < truncateDiff && truncateDiff ≤ before + l.length
      else go (before + l.length) ls
  go 0 levels

def checkCanTruncate (current desired : UInt64) : Bool :=
  current > desired && current > 1000 && current - 1000 > desired

/-! ### reads -/

def readVertex (b : Book) (h : Hash) : Option Vertex :=
  match b.getVertex h with
  | some v => some v
  | none => b.cpGetVertex h

def readTrxByHash (b : Book) (t : Hash) : Option Trx :=
  match b.indexGet t with
  | none => none
  | some vh => (b.readVertex vh).map (·.trx)

def readDagTrxByAddress (b : Book) (tip : Vertex) (a : Addr) : List Trx :=
  let hs := tip.hash :: b.ancestors tip.hash
  (hs.filterMap b.getVertex).filterMap (fun v =>
    if v.trx.receiver == a || v.trx.issuer == a then some v.trx else none)

/-! ### sync -/

/-- StreamDAG: tips in the given order, each followed by its not-yet-visited ancestors. -/
def streamDag (b : Book) (order : List Vertex) : List Vertex :=
  (order.foldl (fun (st : List Hash × List Hash) l =>
    let (out, visited) := st
    let anc := (b.ancestors l.hash).filter (!visited.contains ·)
    (out ++ [l.hash] ++ anc, visited ++ anc)) ([], [])).1.filterMap b.getVertex

/-- Second phase of LoadDag for one vertex (accountant.go:700-726). -/
def loadLink (b : Book) (v : Vertex) : Option Book := linkNew b v.hash 0 [v.left, v.right]

/-- accountant.go LoadDag. `scan` is the iteration order of `GetVertices()`, `root` the root the
genesis address is taken from. Deferred weight/throughput updates run on every path past the guard. -/
def loadDag (b : Book) (stream scan : List Vertex) (root : Option Vertex) : Book × Except Err Unit :=
  if b.loaded then (b, .error [.dagLoaded]) else
  let fin := fun (b : Book) => { (b.updateWT initialThroughput) with throughput := initialThroughput }
  let ins := stream.foldl (fun (st : Book × Option Err) v =>
    match st with
    | (b, some e) => (b, some e)
    | (b, none) =>
      match b.indexSave v.trx.hash v.hash with
      | none => (b, some [.leafRejected])
      | some b1 =>
        match b1.addVertex v with
        | none => (b1, some [.idDuplicate])    -- index entry stays behind (no roll-back)
        | some b2 => (b2, none)) (b, none)
  match ins with
  | (b1, some e) => (fin b1, .error e)        -- partial insertions survive; `loaded` stays false
  | (b1, none) =>
    let link := scan.foldl (fun (st : Book × Bool × Option Err) v =>
      match st with
      | (b, s, some e) => (b, s, some e)
      | (b, seenSelf, none) =>
        let self := v.trx.issuer == v.signer
        if self && seenSelf then (b, seenSelf, some [.unexpected]) else
        if v.trx.isEmpty then (b, seenSelf || self, some [.unexpected]) else
        if !v.trx.spice.canonB then (b, seenSelf || self, some [.notCanonical]) else
        match loadLink b v with
        | none => (b, seenSelf || self, some [.idUnknown])
        | some b' => (b', seenSelf || self, none)) (b1, false, none)
    match link with
    | (b2, _, some e) => (fin b2, .error e)
    | (b2, _, none) =>
      match root with
      | none => (fin b2, .error [.unexpected])
      | some r =>
        if !(b2.roots.any (·.hash == r.hash)) then (fin b2, .error [.unexpected, .panic]) else
        (fin { b2 with genesis := r.trx.issuer, loaded := true }, .ok ())

def addTrusted (b : Book) (a : Addr) : Book :=
  if b.trusted.contains a then b else { b with trusted := b.trusted ++ [a] }
def removeTrusted (b : Book) (a : Addr) : Book := { b with trusted := b.trusted.filter (· != a) }

end Book
end CModel
