import CModel.Spice
import CModel.DriverUtil
import CModel.SpiceDriver
