import CModel.Spice
import CModel.Ledger
import CModel.DriverUtil
import CModel.SpiceDriver
import CModel.LedgerDriver
import CModel.Walker
import CModel.WalletFile
import CModel.Handlers
