import CModel.Spice
import CModel.Ledger
import CModel.DriverUtil
import CModel.SpiceDriver
import CModel.LedgerDriver
