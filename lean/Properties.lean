import Properties.C01
import Properties.C02
import Properties.C03
import Properties.C05
import Properties.C06
import Properties.C07
import Properties.C08
import Properties.C10
