import Properties.C03
import Properties.C05
import Properties.C10
