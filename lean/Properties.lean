import Properties.C05
