package main

// Hazards (C15): operations in the RPC-facing packages that panic on caller-supplied values -
// slice->array conversions, dereferences through optional sub-messages, constant-bound slicing,
// ed25519 key length - and whether a dominating guard exists (in the function or at every call site).

import (
	"bytes"
	"fmt"
	"go/ast"
	"go/printer"
	"go/token"
	"path/filepath"
	"sort"
	"strings"
)

type hazard struct {
	pkg, fn string
	line    int
	kind    string // conv32 | deref | slice | edkey
	expr    string
	guarded bool
}

func exprStr(e ast.Expr) string {
	var b bytes.Buffer
	printer.Fprint(&b, fset, e)
	return b.String()
}

func rootIdent(e ast.Expr) string {
	for {
		switch x := e.(type) {
		case *ast.Ident:
			return x.Name
		case *ast.SelectorExpr:
			e = x.X
		case *ast.IndexExpr:
			e = x.X
		case *ast.SliceExpr:
			e = x.X
		case *ast.CallExpr:
			if len(x.Args) == 1 {
				e = x.Args[0]
			} else {
				return ""
			}
		case *ast.StarExpr:
			e = x.X
		case *ast.ParenExpr:
			e = x.X
		default:
			return ""
		}
	}
}

var optionalSubMessages = map[string]bool{"Spice": true, "Transaction": true, "Vertex": true, "Trx": true}

// exits: the block ends by leaving the surrounding flow.
func exits(b *ast.BlockStmt) bool {
	if b == nil || len(b.List) == 0 {
		return false
	}
	switch s := b.List[len(b.List)-1].(type) {
	case *ast.ReturnStmt:
		return true
	case *ast.BranchStmt:
		return s.Tok == token.CONTINUE || s.Tok == token.BREAK || s.Tok == token.GOTO
	}
	return false
}

// guardsOf returns the textual conditions of all exiting `if`s that precede pos in fn's body.
func guardsOf(body *ast.BlockStmt, pos token.Pos) []string {
	var conds []string
	ast.Inspect(body, func(n ast.Node) bool {
		if is, ok := n.(*ast.IfStmt); ok && is.End() <= pos && exits(is.Body) {
			conds = append(conds, exprStr(is.Cond))
		}
		// an `if cond { ... hazard ... }` also guards the hazard inside its body with the positive condition
		if is, ok := n.(*ast.IfStmt); ok && is.Body.Pos() <= pos && pos <= is.Body.End() {
			conds = append(conds, "POS:"+exprStr(is.Cond))
		}
		return true
	})
	return conds
}

// covers: do the guard conditions cover expression e for the given hazard kind?
func covers(conds []string, e string, kind string) bool {
	prefixes := []string{e}
	parts := strings.Split(e, ".")
	for i := len(parts) - 1; i >= 1; i-- {
		prefixes = append(prefixes, strings.Join(parts[:i], "."))
	}
	for _, c := range conds {
		neg := !strings.HasPrefix(c, "POS:")
		c = strings.TrimPrefix(c, "POS:")
		for _, p := range prefixes {
			// helper predicates: !isWellFormedX(p) / !isSignedHashWellFormed(p)
			if strings.Contains(c, "WellFormed") && strings.Contains(c, "("+p+")") {
				return true
			}
		}
		switch kind {
		case "conv32":
			if neg && (strings.Contains(c, "len("+e+") != 32") || strings.Contains(c, "len("+e+") < 32")) {
				return true
			}
			if !neg && strings.Contains(c, "len("+e+") == 32") {
				return true
			}
		case "deref":
			if neg && strings.Contains(c, e+" == nil") {
				return true
			}
			if !neg && strings.Contains(c, e+" != nil") {
				return true
			}
		case "slice":
			if neg && strings.Contains(c, "len("+e+") <") {
				return true
			}
		case "edkey":
			if neg && strings.Contains(c, "len("+e+") != ed25519.PublicKeySize") {
				return true
			}
		}
	}
	return false
}

// constructedLocally: in caller, `name := &T{..., <firstField>: ..., ...}`.
func constructedLocally(caller *ast.FuncDecl, name, path string) bool {
	first := strings.Split(path, ".")[0]
	found := false
	ast.Inspect(caller.Body, func(n ast.Node) bool {
		as, ok := n.(*ast.AssignStmt)
		if !ok || len(as.Lhs) != 1 || len(as.Rhs) != 1 {
			return true
		}
		if id, ok := as.Lhs[0].(*ast.Ident); !ok || id.Name != name {
			return true
		}
		if u, ok := as.Rhs[0].(*ast.UnaryExpr); ok {
			if cl, ok := u.X.(*ast.CompositeLit); ok {
				for _, el := range cl.Elts {
					if kv, ok := el.(*ast.KeyValueExpr); ok {
						if k, ok := kv.Key.(*ast.Ident); ok && k.Name == first {
							found = true
						}
					}
				}
			}
		}
		return true
	})
	return found
}

// originLoops take their items from the internal pipe (filled by the notary after validation), not from a request.
var originLoops = map[string]bool{"runTransactionGossipProcess": true, "runVertexGossipProcess": true}

func genHazards(src, out string) {
	var hz []hazard
	for _, pkg := range []string{"notaryserver", "gossip", "webhooksserver", "transformers", "wallet", "aeswrapper"} {
		files := parseDir(filepath.Join(src, pkg))
		decls := map[string]*ast.FuncDecl{}
		for _, f := range files {
			for _, d := range f.Decls {
				if fd, ok := d.(*ast.FuncDecl); ok && fd.Body != nil {
					decls[fd.Name.Name] = fd
				}
			}
		}
		// call sites of package functions: callee -> (caller, call)
		type site struct {
			caller *ast.FuncDecl
			call   *ast.CallExpr
		}
		calls := map[string][]site{}
		for _, fd := range decls {
			fd := fd
			ast.Inspect(fd.Body, func(n ast.Node) bool {
				if c, ok := n.(*ast.CallExpr); ok {
					name := ""
					switch f := c.Fun.(type) {
					case *ast.Ident:
						name = f.Name
					case *ast.SelectorExpr:
						name = f.Sel.Name
					}
					if _, ok := decls[name]; ok {
						calls[name] = append(calls[name], site{fd, c})
					}
				}
				return true
			})
		}
		paramIndex := func(fd *ast.FuncDecl, name string) int {
			i := 0
			for _, f := range fd.Type.Params.List {
				for _, n := range f.Names {
					if n.Name == name {
						return i
					}
					i++
				}
			}
			return -1
		}
		var guarded func(fd *ast.FuncDecl, pos token.Pos, e string, kind string, depth int) bool
		guarded = func(fd *ast.FuncDecl, pos token.Pos, e string, kind string, depth int) bool {
			if covers(guardsOf(fd.Body, pos), e, kind) {
				return true
			}
			if depth > 3 {
				return false
			}
			root := strings.Split(e, ".")[0]
			pi := paramIndex(fd, root)
			cs := calls[fd.Name.Name]
			if pi < 0 || len(cs) == 0 {
				return false
			}
			for _, s := range cs {
				if pi >= len(s.call.Args) {
					return false
				}
				arg := exprStr(s.call.Args[pi])
				arg = strings.TrimPrefix(arg, "&")
				if constructedLocally(s.caller, arg, strings.TrimPrefix(strings.TrimPrefix(e, root), ".")) {
					continue // the caller built the message itself, with the sub-message set
				}
				e2 := arg + strings.TrimPrefix(e, root)
				if !guarded(s.caller, s.call.Pos(), e2, kind, depth+1) {
					return false
				}
			}
			return true
		}
		for name, fd := range decls {
			if strings.HasPrefix(name, "Verif") || originLoops[name] {
				continue
			}
			fd := fd
			ast.Inspect(fd.Body, func(n ast.Node) bool {
				switch x := n.(type) {
				case *ast.CallExpr:
					// [32]byte(e)
					if at, ok := x.Fun.(*ast.ArrayType); ok && len(x.Args) == 1 {
						if bl, ok := at.Len.(*ast.BasicLit); ok && bl.Value == "32" {
							e := exprStr(x.Args[0])
							if strings.Contains(e, "[:]") || pkg == "wallet" {
								return true
							}
							hz = append(hz, hazard{pkg, name, fset.Position(x.Pos()).Line, "conv32", e, guarded(fd, x.Pos(), e, "conv32", 0)})
						}
					}
					// ed25519.Verify(key, ...)
					if sel, ok := x.Fun.(*ast.SelectorExpr); ok && sel.Sel.Name == "Verify" {
						if id, ok := sel.X.(*ast.Ident); ok && id.Name == "ed25519" && len(x.Args) == 3 {
							e := exprStr(x.Args[0])
							if !strings.HasPrefix(e, "w.") { // the wallet's own key pair is not caller supplied
								hz = append(hz, hazard{pkg, name, fset.Position(x.Pos()).Line, "edkey", e, guarded(fd, x.Pos(), e, "edkey", 0)})
							}
						}
					}
				case *ast.SelectorExpr:
					// X.<Sub>.<Field> with Sub an optional sub-message, accessed as a field (getters are nil-safe)
					if inner, ok := x.X.(*ast.SelectorExpr); ok && optionalSubMessages[inner.Sel.Name] && !strings.HasPrefix(x.Sel.Name, "Get") {
						if pkg == "notaryserver" || pkg == "gossip" || pkg == "transformers" || pkg == "webhooksserver" {
							e := exprStr(inner)
							r := rootIdent(inner)
							// only protobuf messages (request roots), not domain structs: roots named like requests
							if r == "vg" || r == "tg" || r == "prTrx" || r == "in" || r == "vrx" && pkg == "gossip" && strings.HasPrefix(name, "process") {
								hz = append(hz, hazard{pkg, name, fset.Position(x.Pos()).Line, "deref", e, guarded(fd, x.Pos(), e, "deref", 0)})
							}
						}
					}
				case *ast.SliceExpr:
					if pkg == "aeswrapper" && (x.Low != nil || x.High != nil) {
						e := exprStr(x.X)
						hz = append(hz, hazard{pkg, name, fset.Position(x.Pos()).Line, "slice", e, guarded(fd, x.Pos(), e, "slice", 0)})
					}
				}
				return true
			})
		}
	}
	sort.Slice(hz, func(i, j int) bool {
		a, b := hz[i], hz[j]
		ka := fmt.Sprintf("%s|%06d|%s|%s|%s", a.pkg, a.line, a.fn, a.kind, a.expr)
		kb := fmt.Sprintf("%s|%06d|%s|%s|%s", b.pkg, b.line, b.fn, b.kind, b.expr)
		return ka < kb
	})
	var b bytes.Buffer
	b.WriteString("/- GENERATED by /verif/harness/cmd/vfacts from /repo/src — do not edit. -/\nnamespace CModel.Generated\n\n")
	b.WriteString("inductive HazardKind | conv32 | deref | slice | edkey\nderiving DecidableEq, Repr\n\n")
	b.WriteString("structure HazardSite where\n  pkg : String\n  fn : String\n  line : Nat\n  kind : HazardKind\n  expr : String\n  guarded : Bool\nderiving DecidableEq, Repr\n\n")
	b.WriteString("/-- every operation in the RPC-facing packages that panics on a caller-supplied value of the wrong\nshape, and whether a guard dominates it (in the function itself or at every call site). -/\ndef hazardSites : List HazardSite := [\n")
	for i, h := range hz {
		sep := ","
		if i == len(hz)-1 {
			sep = ""
		}
		fmt.Fprintf(&b, "  ⟨%q, %q, %d, .%s, %q, %v⟩%s\n", h.pkg, h.fn, h.line, h.kind, h.expr, h.guarded, sep)
	}
	b.WriteString("]\n\nend CModel.Generated\n")
	writeIfChanged(filepath.Join(out, "Hazards.lean"), b.Bytes())
}
