package main

// genAll is extended property by property (walker exit sites, layouts, hazards, guards, lock regions).
func genAll(src, out string) {
	genWalker(src, out)
	genHazards(src, out)
	genLocks(src, out)
	genLockExits(src, out)
}
