package main

// genLocks (C18, C17): for the shared mutable state of the node — the fields of AccountingBook, buffer,
// gossiper, cache.Hippocampus, cache.Flashback, dataprovider.Cache and pipe.Juggler — list every access
// site in the package's own methods together with the locks syntactically held there:
//   * a statement-order scan per function body: `x.mux.Lock()/RLock()` acquire, `x.mux.Unlock()/RUnlock()`
//     release, `defer x.mux.Unlock()` holds to the end; nested blocks are scanned with a copy of the state;
//     the body of a `go func(){…}()` starts with nothing held;
//   * unexported methods inherit the intersection of what is held at their call sites inside the package
//     (fixpoint); exported methods, goroutine bodies and methods without callers start with nothing held.
// The result is CModel/Generated/Locks.lean; the expectations about it are hand-written theorems proved
// by `decide` (Properties/C18.lean), so a dropped or narrowed lock breaks a proof obligation.

import (
	"fmt"
	"go/ast"
	"go/token"
	"path/filepath"
	"sort"
	"strings"
)

type lockSite struct {
	loc   string // Type.field
	fn    string // Type.method
	write bool
	locks map[string]bool // lock (Type.field) -> exclusive
	pos   token.Pos
}

var lockTypes = map[string][]string{ // package dir -> receiver types of interest
	"accountant":   {"AccountingBook", "buffer"},
	"gossip":       {"gossiper"},
	"cache":        {"Hippocampus", "Flashback"},
	"dataprovider": {"Cache"},
	"pipe":         {"Juggler"},
}

type held map[string]bool

func (h held) clone() held {
	c := held{}
	for k, v := range h {
		c[k] = v
	}
	return c
}

func intersect(a, b held) held {
	c := held{}
	for k, v := range a {
		if w, ok := b[k]; ok {
			c[k] = v && w
		}
	}
	return c
}

func recvOf(fd *ast.FuncDecl) (name, typ string) {
	if fd.Recv == nil || len(fd.Recv.List) == 0 {
		return "", ""
	}
	f := fd.Recv.List[0]
	if len(f.Names) > 0 {
		name = f.Names[0].Name
	}
	switch t := f.Type.(type) {
	case *ast.StarExpr:
		if id, ok := t.X.(*ast.Ident); ok {
			typ = id.Name
		}
	case *ast.Ident:
		typ = t.Name
	}
	return
}

type lockScan struct {
	methods       map[string]bool // method names of the receiver type (calls are not field accesses)
	recv, typ, fn string
	sites         *[]lockSite
	calls         map[string][]held // callee method (Type.m) -> held at each call site
	entry         held
}

// lockCall: x.<lockfield>.Lock() etc. on the receiver; returns lock name, op
func (s *lockScan) lockCall(e ast.Expr) (string, string, bool) {
	c, ok := e.(*ast.CallExpr)
	if !ok {
		return "", "", false
	}
	sel, ok := c.Fun.(*ast.SelectorExpr)
	if !ok {
		return "", "", false
	}
	switch sel.Sel.Name {
	case "Lock", "RLock", "Unlock", "RUnlock":
	default:
		return "", "", false
	}
	in, ok := sel.X.(*ast.SelectorExpr)
	if !ok {
		return "", "", false
	}
	id, ok := in.X.(*ast.Ident)
	if !ok || id.Name != s.recv {
		return "", "", false
	}
	return s.typ + "." + in.Sel.Name, sel.Sel.Name, true
}

func (s *lockScan) record(field string, write bool, h held, pos token.Pos) {
	if s.methods[s.typ+"."+field] {
		return
	}
	eff := h.clone()
	for k, v := range s.entry {
		if w, ok := eff[k]; !ok || (!w && v) {
			eff[k] = v
		}
	}
	*s.sites = append(*s.sites, lockSite{loc: s.typ + "." + field, fn: s.typ + "." + s.fn, write: write, locks: eff, pos: pos})
}

// fieldOf: recv.field (possibly under index / slice / star / paren) -> field name
func (s *lockScan) fieldOf(e ast.Expr) (string, bool) {
	for {
		switch t := e.(type) {
		case *ast.IndexExpr:
			e = t.X
			continue
		case *ast.SliceExpr:
			e = t.X
			continue
		case *ast.ParenExpr:
			e = t.X
			continue
		case *ast.StarExpr:
			e = t.X
			continue
		case *ast.SelectorExpr:
			if id, ok := t.X.(*ast.Ident); ok && id.Name == s.recv {
				return t.Sel.Name, true
			}
			return "", false
		default:
			return "", false
		}
	}
}

func (s *lockScan) exprReads(e ast.Node, h held) {
	if e == nil {
		return
	}
	ast.Inspect(e, func(n ast.Node) bool {
		switch t := n.(type) {
		case *ast.FuncLit:
			s.block(t.Body, h.clone())
			return false
		case *ast.CallExpr:
			// calls of own methods: remember what is held
			if sel, ok := t.Fun.(*ast.SelectorExpr); ok {
				if id, ok := sel.X.(*ast.Ident); ok && id.Name == s.recv {
					s.calls[s.typ+"."+sel.Sel.Name] = append(s.calls[s.typ+"."+sel.Sel.Name], h.clone())
				}
				// delete(m,k) / maps.Clear(m) / clear(m) handled below
			}
			if id, ok := t.Fun.(*ast.Ident); ok && (id.Name == "delete" || id.Name == "clear") && len(t.Args) > 0 {
				if f, ok := s.fieldOf(t.Args[0]); ok {
					s.record(f, true, h, t.Pos())
				}
			}
			if sel, ok := t.Fun.(*ast.SelectorExpr); ok && sel.Sel.Name == "Clear" && len(t.Args) > 0 {
				if f, ok := s.fieldOf(t.Args[0]); ok {
					s.record(f, true, h, t.Pos())
				}
			}
		case *ast.SelectorExpr:
			if id, ok := t.X.(*ast.Ident); ok && id.Name == s.recv {
				s.record(t.Sel.Name, false, h, t.Pos())
				return false
			}
		}
		return true
	})
}

func (s *lockScan) stmt(st ast.Stmt, h held) {
	switch t := st.(type) {
	case nil:
	case *ast.ExprStmt:
		if l, op, ok := s.lockCall(t.X); ok {
			switch op {
			case "Lock":
				h[l] = true
			case "RLock":
				h[l] = false
			default:
				delete(h, l)
			}
			return
		}
		s.exprReads(t.X, h)
	case *ast.DeferStmt:
		if _, _, ok := s.lockCall(t.Call); ok {
			return // held until the function returns
		}
		s.exprReads(t.Call, h)
	case *ast.GoStmt:
		if fl, ok := t.Call.Fun.(*ast.FuncLit); ok {
			for _, a := range t.Call.Args {
				s.exprReads(a, h)
			}
			s.block(fl.Body, held{})
			return
		}
		// go recv.method(...): the method runs as a goroutine root
		if sel, ok := t.Call.Fun.(*ast.SelectorExpr); ok {
			if id, ok := sel.X.(*ast.Ident); ok && id.Name == s.recv {
				s.calls[s.typ+"."+sel.Sel.Name] = append(s.calls[s.typ+"."+sel.Sel.Name], held{})
			}
		}
		for _, a := range t.Call.Args {
			s.exprReads(a, h)
		}
	case *ast.AssignStmt:
		for _, r := range t.Rhs {
			s.exprReads(r, h)
		}
		for _, l := range t.Lhs {
			if f, ok := s.fieldOf(l); ok {
				s.record(f, true, h, l.Pos())
				if ix, ok := l.(*ast.IndexExpr); ok {
					s.exprReads(ix.Index, h)
				}
			} else {
				s.exprReads(l, h)
			}
		}
	case *ast.IncDecStmt:
		if f, ok := s.fieldOf(t.X); ok {
			s.record(f, true, h, t.Pos())
		} else {
			s.exprReads(t.X, h)
		}
	case *ast.BlockStmt:
		s.block(t, h.clone())
	case *ast.IfStmt:
		hh := h.clone()
		s.stmt(t.Init, hh)
		s.exprReads(t.Cond, hh)
		s.block(t.Body, hh.clone())
		s.stmt(t.Else, hh.clone())
	case *ast.ForStmt:
		hh := h.clone()
		s.stmt(t.Init, hh)
		s.exprReads(t.Cond, hh)
		s.stmt(t.Post, hh)
		s.block(t.Body, hh.clone())
	case *ast.RangeStmt:
		s.exprReads(t.X, h)
		s.block(t.Body, h.clone())
	case *ast.SwitchStmt:
		hh := h.clone()
		s.stmt(t.Init, hh)
		s.exprReads(t.Tag, hh)
		s.block(t.Body, hh)
	case *ast.TypeSwitchStmt:
		hh := h.clone()
		s.stmt(t.Init, hh)
		s.stmt(t.Assign, hh)
		s.block(t.Body, hh)
	case *ast.SelectStmt:
		s.block(t.Body, h.clone())
	case *ast.CaseClause:
		for _, e := range t.List {
			s.exprReads(e, h)
		}
		hh := h.clone()
		for _, b := range t.Body {
			s.stmt(b, hh)
		}
	case *ast.CommClause:
		hh := h.clone()
		s.stmt(t.Comm, hh)
		for _, b := range t.Body {
			s.stmt(b, hh)
		}
	case *ast.LabeledStmt:
		s.stmt(t.Stmt, h)
	case *ast.ReturnStmt:
		for _, r := range t.Results {
			s.exprReads(r, h)
		}
	case *ast.SendStmt:
		s.exprReads(t.Chan, h)
		s.exprReads(t.Value, h)
	case *ast.DeclStmt:
		s.exprReads(t.Decl, h)
	default:
		s.exprReads(st, h)
	}
}

func (s *lockScan) block(b *ast.BlockStmt, h held) {
	if b == nil {
		return
	}
	for _, st := range b.List {
		s.stmt(st, h)
	}
}

func genLocks(src, out string) {
	var all []lockSite
	dirs := make([]string, 0, len(lockTypes))
	for d := range lockTypes {
		dirs = append(dirs, d)
	}
	sort.Strings(dirs)
	for _, dir := range dirs {
		files := parseDir(filepath.Join(src, dir))
		want := map[string]bool{}
		for _, t := range lockTypes[dir] {
			want[t] = true
		}
		type fn struct {
			fd        *ast.FuncDecl
			recv, typ string
		}
		var fns []fn
		for _, f := range files {
			for _, d := range f.Decls {
				fd, ok := d.(*ast.FuncDecl)
				if !ok || fd.Body == nil {
					continue
				}
				r, t := recvOf(fd)
				if want[t] && r != "" {
					fns = append(fns, fn{fd, r, t})
				}
			}
		}
		entry := map[string]held{}
		methods := map[string]bool{}
		for _, f := range fns {
			methods[f.typ+"."+f.fd.Name.Name] = true
		}
		var sites []lockSite
		for iter := 0; iter < 6; iter++ {
			sites = nil
			calls := map[string][]held{}
			for _, f := range fns {
				s := &lockScan{methods: methods, recv: f.recv, typ: f.typ, fn: f.fd.Name.Name, sites: &sites, calls: calls, entry: entry[f.typ+"."+f.fd.Name.Name]}
				s.block(f.fd.Body, held{})
			}
			changed := false
			for _, f := range fns {
				name := f.typ + "." + f.fd.Name.Name
				var e held
				if !ast.IsExported(f.fd.Name.Name) {
					for i, h := range calls[name] {
						// the caller's own entry context counts too: approximated by iterating
						if i == 0 {
							e = h.clone()
						} else {
							e = intersect(e, h)
						}
					}
				}
				if e == nil {
					e = held{}
				}
				if fmt.Sprint(e) != fmt.Sprint(entry[name]) {
					changed = true
				}
				entry[name] = e
			}
			if !changed {
				break
			}
		}
		all = append(all, sites...)
	}
	// canonical order, duplicates (same loc/func/write/locks) merged
	type row struct {
		loc, fn string
		write   bool
		locks   string
	}
	seen := map[row]bool{}
	var rows []row
	for _, s := range all {
		var ls []string
		for k, v := range s.locks {
			ls = append(ls, fmt.Sprintf("(%q, %v)", k, v))
		}
		sort.Strings(ls)
		r := row{s.loc, s.fn, s.write, "[" + strings.Join(ls, ", ") + "]"}
		if !seen[r] {
			seen[r] = true
			rows = append(rows, r)
		}
	}
	sort.Slice(rows, func(i, j int) bool {
		a, b := rows[i], rows[j]
		if a.loc != b.loc {
			return a.loc < b.loc
		}
		if a.fn != b.fn {
			return a.fn < b.fn
		}
		if a.write != b.write {
			return !a.write
		}
		return a.locks < b.locks
	})
	var sb strings.Builder
	sb.WriteString("/-! GENERATED by vfacts (genLocks) from /repo — do not edit. Access sites of shared node state with the\nlocks syntactically held there (lock name, exclusive?). -/\nnamespace CModel.Generated.Locks\n\n")
	sb.WriteString("structure Site where\n  loc : String\n  fn : String\n  write : Bool\n  locks : List (String × Bool)\nderiving DecidableEq, Repr\n\n")
	sb.WriteString("def sites : List Site := [\n")
	for i, r := range rows {
		sep := ","
		if i == len(rows)-1 {
			sep = ""
		}
		fmt.Fprintf(&sb, "  ⟨%q, %q, %v, %s⟩%s\n", r.loc, r.fn, r.write, r.locks, sep)
	}
	sb.WriteString("]\n\nend CModel.Generated.Locks\n")
	writeIfChanged(filepath.Join(out, "Locks.lean"), []byte(sb.String()))
}
