package main

// genLockExits (C08, C15): for every function (and function literal) of the node's own packages that
// acquires a mutex, the sequence of lock events along the syntactic path to each of its exits:
//   acquire  x.Lock() / x.RLock()
//   release  x.Unlock() / x.RUnlock()
//   deferRel defer x.Unlock() / defer x.RUnlock()   (runs when the function returns)
// One record per `return` statement and one for falling off the end of the body. A nested block (branch,
// loop body, case clause) is walked with a copy of the events seen so far; when control can fall out of its
// end and the block contained lock events of its own, one more record of kind `block` carries just those
// events (the path that continues after the block is walked as if the block had not been entered, so such a
// block must be neutral). Whether an exit leaves a lock held is NOT decided here: the table
// CModel/Generated/LockExits.lean is evaluated in Lean (CModel/LockExit.lean, Properties/C08.lean).

import (
	"bytes"
	"fmt"
	"go/ast"
	"go/printer"
	"path/filepath"
	"sort"
	"strings"
)

type lev struct {
	kind string // acquire | release | deferRel
	lock string
}

type lockExit struct {
	pkg, fn string
	line    int
	kind    string // ret | end | block
	evs     []lev
}

var lockExitDirs = []string{"accountant", "gossip", "cache", "dataprovider", "pipe", "localcache", "reactive", "webhooks", "notaryserver", "webhooksserver", "emulator", "natsclient"}

type exitScan struct {
	pkg, fn string
	out     *[]lockExit
	lits    []*ast.FuncLit
}

func exprText(e ast.Expr) string {
	var b bytes.Buffer
	printer.Fprint(&b, fset, e)
	return b.String()
}

func mutexCall(e ast.Expr) (lock, op string, ok bool) {
	c, isCall := e.(*ast.CallExpr)
	if !isCall || len(c.Args) != 0 {
		return "", "", false
	}
	sel, isSel := c.Fun.(*ast.SelectorExpr)
	if !isSel {
		return "", "", false
	}
	switch sel.Sel.Name {
	case "Lock", "RLock", "Unlock", "RUnlock":
		return exprText(sel.X), sel.Sel.Name, true
	}
	return "", "", false
}

func (s *exitScan) collectLits(n ast.Node) {
	if n == nil {
		return
	}
	ast.Inspect(n, func(x ast.Node) bool {
		if fl, ok := x.(*ast.FuncLit); ok {
			s.lits = append(s.lits, fl)
			return false
		}
		return true
	})
}

func terminates(b []ast.Stmt) bool {
	if len(b) == 0 {
		return false
	}
	switch t := b[len(b)-1].(type) {
	case *ast.ReturnStmt:
		return true
	case *ast.BranchStmt:
		return true // break / continue / goto: leaves the block, judged where it lands
	case *ast.ExprStmt:
		if c, ok := t.X.(*ast.CallExpr); ok {
			if id, ok := c.Fun.(*ast.Ident); ok && id.Name == "panic" {
				return true
			}
		}
	}
	return false
}

// nested walks a block entered from a path with events `pre`; `own` collects the block's own events.
func (s *exitScan) nested(list []ast.Stmt, pre []lev, line int) {
	start := len(pre)
	evs := append([]lev{}, pre...)
	evs = s.stmts(list, evs)
	if own := evs[start:]; len(own) > 0 && !terminates(list) {
		*s.out = append(*s.out, lockExit{s.pkg, s.fn, line, "block", append([]lev{}, own...)})
	}
}

func (s *exitScan) stmts(list []ast.Stmt, evs []lev) []lev {
	for _, st := range list {
		evs = s.stmt(st, evs)
	}
	return evs
}

func (s *exitScan) stmt(st ast.Stmt, evs []lev) []lev {
	line := func(n ast.Node) int { return fset.Position(n.Pos()).Line }
	switch t := st.(type) {
	case nil:
	case *ast.ExprStmt:
		if l, op, ok := mutexCall(t.X); ok {
			k := "acquire"
			if op == "Unlock" || op == "RUnlock" {
				k = "release"
			}
			return append(evs, lev{k, l})
		}
		s.collectLits(t.X)
	case *ast.DeferStmt:
		if l, op, ok := mutexCall(t.Call); ok && (op == "Unlock" || op == "RUnlock") {
			return append(evs, lev{"deferRel", l})
		}
		s.collectLits(t.Call)
	case *ast.GoStmt:
		s.collectLits(t.Call)
	case *ast.ReturnStmt:
		for _, r := range t.Results {
			s.collectLits(r)
		}
		*s.out = append(*s.out, lockExit{s.pkg, s.fn, line(t), "ret", append([]lev{}, evs...)})
	case *ast.BlockStmt:
		s.nested(t.List, evs, line(t))
	case *ast.IfStmt:
		evs = s.stmt(t.Init, evs)
		s.collectLits(t.Cond)
		s.nested(t.Body.List, evs, line(t.Body))
		switch e := t.Else.(type) {
		case *ast.BlockStmt:
			s.nested(e.List, evs, line(e))
		case *ast.IfStmt:
			s.nested([]ast.Stmt{e}, evs, line(e))
		}
	case *ast.ForStmt:
		evs = s.stmt(t.Init, evs)
		s.collectLits(t.Cond)
		s.nested(t.Body.List, evs, line(t.Body))
	case *ast.RangeStmt:
		s.collectLits(t.X)
		s.nested(t.Body.List, evs, line(t.Body))
	case *ast.SwitchStmt:
		evs = s.stmt(t.Init, evs)
		s.collectLits(t.Tag)
		for _, c := range t.Body.List {
			s.nested(c.(*ast.CaseClause).Body, evs, line(c))
		}
	case *ast.TypeSwitchStmt:
		evs = s.stmt(t.Init, evs)
		for _, c := range t.Body.List {
			s.nested(c.(*ast.CaseClause).Body, evs, line(c))
		}
	case *ast.SelectStmt:
		for _, c := range t.Body.List {
			cc := c.(*ast.CommClause)
			s.collectLits(cc.Comm)
			s.nested(cc.Body, evs, line(c))
		}
	case *ast.LabeledStmt:
		return s.stmt(t.Stmt, evs)
	default:
		s.collectLits(st)
	}
	return evs
}

func hasMutexCall(n ast.Node) bool {
	found := false
	ast.Inspect(n, func(x ast.Node) bool {
		if _, ok := x.(*ast.FuncLit); ok && x != n {
			return false
		}
		if e, ok := x.(ast.Expr); ok {
			if _, _, ok := mutexCall(e); ok {
				found = true
			}
		}
		return !found
	})
	return found
}

func genLockExits(src, out string) {
	var all []lockExit
	funcs, acquiring := 0, 0
	for _, dir := range lockExitDirs {
		for _, f := range parseDir(filepath.Join(src, dir)) {
			for _, d := range f.Decls {
				fd, ok := d.(*ast.FuncDecl)
				if !ok || fd.Body == nil {
					continue
				}
				name := fd.Name.Name
				if _, typ := recvOf(fd); typ != "" {
					name = typ + "." + name
				}
				type job struct {
					name string
					body *ast.BlockStmt
				}
				jobs := []job{{name, fd.Body}}
				for len(jobs) > 0 {
					j := jobs[0]
					jobs = jobs[1:]
					funcs++
					s := &exitScan{pkg: dir, fn: j.name, out: &all}
					var mine []lockExit
					s.out = &mine
					evs := s.stmts(j.body.List, nil)
					if !terminates(j.body.List) {
						mine = append(mine, lockExit{dir, j.name, fset.Position(j.body.Rbrace).Line, "end", append([]lev{}, evs...)})
					}
					if hasMutexCall(j.body) {
						acquiring++
						all = append(all, mine...)
					}
					for _, fl := range s.lits {
						jobs = append(jobs, job{fmt.Sprintf("%s$lit%d", j.name, fset.Position(fl.Pos()).Line), fl.Body})
					}
				}
			}
		}
	}
	sort.SliceStable(all, func(i, j int) bool {
		if all[i].pkg != all[j].pkg {
			return all[i].pkg < all[j].pkg
		}
		if all[i].line != all[j].line {
			return all[i].line < all[j].line
		}
		return all[i].kind < all[j].kind
	})
	var b bytes.Buffer
	b.WriteString("/- GENERATED by /verif/harness/cmd/vfacts from /repo/src — do not edit. -/\nnamespace CModel.Generated\n\n")
	b.WriteString("inductive LEv\n  | acquire (l : String)\n  | release (l : String)\n  | deferRel (l : String)\nderiving DecidableEq, Repr\n\n")
	b.WriteString("inductive ExitKind | ret | fnEnd | block\nderiving DecidableEq, Repr\n\n")
	b.WriteString("structure LockExit where\n  pkg : String\n  fn : String\n  line : Nat\n  kind : ExitKind\n  events : List LEv\nderiving Repr\n\n")
	fmt.Fprintf(&b, "def lockExitFunctionsScanned : Nat := %d\ndef lockExitFunctionsWithMutex : Nat := %d\n\n", funcs, acquiring)
	b.WriteString("def lockExits : List LockExit := [\n")
	for i, e := range all {
		var es []string
		for _, v := range e.evs {
			es = append(es, fmt.Sprintf(".%s %q", v.kind, v.lock))
		}
		k := map[string]string{"ret": ".ret", "end": ".fnEnd", "block": ".block"}[e.kind]
		sep := ","
		if i == len(all)-1 {
			sep = ""
		}
		fmt.Fprintf(&b, "  ⟨%q, %q, %d, %s, [%s]⟩%s\n", e.pkg, e.fn, e.line, k, strings.Join(es, ", "), sep)
	}
	b.WriteString("]\n\nend CModel.Generated\n")
	writeIfChanged(filepath.Join(out, "LockExits.lean"), b.Bytes())
}
