package main

// Walker exit sites (C08): every loop over the id channel of dag.AncestorsWalker in package accountant,
// every way control leaves such a loop early, and what is done before leaving.

import (
	"bytes"
	"fmt"
	"go/ast"
	"go/token"
	"path/filepath"
	"sort"
)

type walkerSite struct {
	fn     string
	line   int
	policy string // drain | signalOnly | noSignal
	nested bool
	locked bool
}

func isCallTo(e ast.Expr, name string) (*ast.CallExpr, bool) {
	c, ok := e.(*ast.CallExpr)
	if !ok {
		return nil, false
	}
	switch f := c.Fun.(type) {
	case *ast.Ident:
		return c, f.Name == name
	case *ast.SelectorExpr:
		return c, f.Sel.Name == name
	}
	return c, false
}

// hasMuxLock: the function body takes ab.mux.Lock/RLock at its top level.
// hasMuxLock: the body takes the ledger lock in a top-level statement and keeps it until it returns: the
// release is a top-level `defer …mux.(R)Unlock()` and there is no explicit (non-deferred) release anywhere.
func hasMuxLock(body *ast.BlockStmt) bool {
	if body == nil {
		return false
	}
	isMuxCall := func(e ast.Expr, names ...string) bool {
		c, ok := e.(*ast.CallExpr)
		if !ok {
			return false
		}
		sel, ok := c.Fun.(*ast.SelectorExpr)
		if !ok {
			return false
		}
		inner, ok := sel.X.(*ast.SelectorExpr)
		if !ok || inner.Sel.Name != "mux" {
			return false
		}
		for _, n := range names {
			if sel.Sel.Name == n {
				return true
			}
		}
		return false
	}
	locks, deferred := false, false
	for _, st := range body.List {
		switch x := st.(type) {
		case *ast.ExprStmt:
			if isMuxCall(x.X, "Lock", "RLock") {
				locks = true
			}
		case *ast.DeferStmt:
			if isMuxCall(x.Call, "Unlock", "RUnlock") {
				deferred = true
			}
		}
	}
	if !locks || !deferred {
		return false
	}
	explicit := false
	ast.Inspect(body, func(n ast.Node) bool {
		switch x := n.(type) {
		case *ast.FuncLit:
			return false
		case *ast.ExprStmt:
			if isMuxCall(x.X, "Unlock", "RUnlock") {
				explicit = true
			}
		}
		return true
	})
	return !explicit
}

func genWalker(src, out string) {
	files := parseDir(filepath.Join(src, "accountant"))
	decls := map[string]*ast.FuncDecl{}
	for _, f := range files {
		for _, d := range f.Decls {
			if fd, ok := d.(*ast.FuncDecl); ok {
				decls[fd.Name.Name] = fd
			}
		}
	}
	// callers[name] = set of function names calling it
	callers := map[string]map[string]bool{}
	for name, fd := range decls {
		if fd.Body == nil {
			continue
		}
		ast.Inspect(fd.Body, func(n ast.Node) bool {
			if c, ok := n.(*ast.CallExpr); ok {
				var callee string
				switch f := c.Fun.(type) {
				case *ast.Ident:
					callee = f.Name
				case *ast.SelectorExpr:
					callee = f.Sel.Name
				}
				if _, ok := decls[callee]; ok {
					if callers[callee] == nil {
						callers[callee] = map[string]bool{}
					}
					callers[callee][name] = true
				}
			}
			return true
		})
	}
	var lockedFn func(name string, depth int) bool
	lockedFn = func(name string, depth int) bool {
		fd := decls[name]
		if fd == nil || depth > 4 {
			return false
		}
		if hasMuxLock(fd.Body) {
			return true
		}
		cs := callers[name]
		if len(cs) == 0 {
			return false
		}
		for c := range cs {
			if !lockedFn(c, depth+1) {
				return false
			}
		}
		return true
	}

	var sites []walkerSite
	loops := 0
	var scanFunc func(name string, body *ast.BlockStmt, locked bool)
	scanFunc = func(name string, body *ast.BlockStmt, locked bool) {
		if body == nil {
			return
		}
		chanVar, sigVar := map[string]bool{}, map[string]bool{}
		ast.Inspect(body, func(n ast.Node) bool {
			switch x := n.(type) {
			case *ast.FuncLit:
				scanFunc(name+".func", x.Body, hasMuxLock(x.Body))
				return false
			case *ast.AssignStmt:
				if len(x.Rhs) == 1 {
					if _, ok := isCallTo(x.Rhs[0], "AncestorsWalker"); ok && len(x.Lhs) >= 2 {
						if id, ok := x.Lhs[0].(*ast.Ident); ok {
							chanVar[id.Name] = true
						}
						if id, ok := x.Lhs[1].(*ast.Ident); ok && id.Name != "_" {
							sigVar[id.Name] = true
						}
					}
				}
			}
			return true
		})
		if len(chanVar) == 0 {
			return
		}
		ast.Inspect(body, func(n ast.Node) bool {
			if _, ok := n.(*ast.FuncLit); ok {
				return false
			}
			rs, ok := n.(*ast.RangeStmt)
			if !ok {
				return true
			}
			id, ok := rs.X.(*ast.Ident)
			if !ok || !chanVar[id.Name] {
				return true
			}
			loops++
			nested := false
			ast.Inspect(rs.Body, func(m ast.Node) bool {
				if c, ok := m.(*ast.CallExpr); ok {
					if sel, ok := c.Fun.(*ast.SelectorExpr); ok {
						if inner, ok := sel.X.(*ast.SelectorExpr); ok && inner.Sel.Name == "dag" {
							nested = true
						}
					}
				}
				return true
			})
			// walk the loop body keeping the statements that dominate the current position
			var walk func(stmts []ast.Stmt, pre []ast.Stmt, inSwitchOrSelect bool)
			classify := func(pre []ast.Stmt) string {
				pol := "noSignal"
				for _, st := range pre {
					switch s := st.(type) {
					case *ast.ExprStmt:
						if c, ok := isCallTo(s.X, "stopWalker"); ok && len(c.Args) == 1 {
							if a, ok := c.Args[0].(*ast.Ident); ok && chanVar[a.Name] {
								return "drain"
							}
						}
					case *ast.SendStmt:
						if a, ok := s.Chan.(*ast.Ident); ok && sigVar[a.Name] {
							pol = "signalOnly"
						}
					}
				}
				return pol
			}
			walk = func(stmts []ast.Stmt, pre []ast.Stmt, inSS bool) {
				for i, st := range stmts {
					here := append(append([]ast.Stmt{}, pre...), stmts[:i]...)
					switch s := st.(type) {
					case *ast.ReturnStmt:
						sites = append(sites, walkerSite{name, fset.Position(s.Pos()).Line, classify(here), nested, locked})
					case *ast.BranchStmt:
						if s.Tok == token.GOTO || (s.Tok == token.BREAK && (s.Label != nil || !inSS)) {
							// a labelled break leaves an outer loop; an unlabelled break outside select/switch leaves this loop
							if s.Label == nil || s.Label.Name != "" {
								isInner := false
								if s.Label != nil {
									// label of this very range statement's own continue target is not an exit
									isInner = false
								}
								if !isInner {
									sites = append(sites, walkerSite{name, fset.Position(s.Pos()).Line, classify(here), nested, locked})
								}
							}
						}
					case *ast.BlockStmt:
						walk(s.List, here, inSS)
					case *ast.IfStmt:
						walk(s.Body.List, here, inSS)
						if s.Else != nil {
							switch e := s.Else.(type) {
							case *ast.BlockStmt:
								walk(e.List, here, inSS)
							case *ast.IfStmt:
								walk([]ast.Stmt{e}, here, inSS)
							}
						}
					case *ast.SwitchStmt:
						for _, cc := range s.Body.List {
							walk(cc.(*ast.CaseClause).Body, here, true)
						}
					case *ast.TypeSwitchStmt:
						for _, cc := range s.Body.List {
							walk(cc.(*ast.CaseClause).Body, here, true)
						}
					case *ast.SelectStmt:
						for _, cc := range s.Body.List {
							walk(cc.(*ast.CommClause).Body, here, true)
						}
					case *ast.ForStmt:
						walk(s.Body.List, here, false)
					case *ast.RangeStmt:
						walk(s.Body.List, here, false)
					case *ast.LabeledStmt:
						walk([]ast.Stmt{s.Stmt}, here, inSS)
					}
				}
			}
			walk(rs.Body.List, nil, false)
			return true
		})
	}
	names := []string{}
	for n := range decls {
		names = append(names, n)
	}
	sort.Strings(names)
	for _, n := range names {
		scanFunc(n, decls[n].Body, lockedFn(n, 0))
	}
	sort.Slice(sites, func(i, j int) bool { return sites[i].line < sites[j].line })

	var b bytes.Buffer
	b.WriteString("import CModel.Walker\n/- GENERATED by /verif/harness/cmd/vfacts from /repo/src/accountant — do not edit. -/\nnamespace CModel.Generated\nopen CModel.Walker\n\n")
	b.WriteString("structure WalkerSite where\n  fn : String\n  line : Nat\n  policy : Policy\n  nested : Bool\n  locked : Bool\nderiving DecidableEq, Repr\n\n")
	fmt.Fprintf(&b, "/-- number of `for … := range <AncestorsWalker ids>` loops found -/\ndef walkerLoops : Nat := %d\n\n", loops)
	b.WriteString("/-- every early exit of those loops: what is done before leaving, whether the body takes nested DAG\nread locks, whether the loop runs under the ledger lock (itself or all its callers). -/\ndef walkerSites : List WalkerSite := [\n")
	for i, s := range sites {
		sep := ","
		if i == len(sites)-1 {
			sep = ""
		}
		fmt.Fprintf(&b, "  ⟨%q, %d, .%s, %v, %v⟩%s\n", s.fn, s.line, s.policy, s.nested, s.locked, sep)
	}
	b.WriteString("]\n\nend CModel.Generated\n")
	writeIfChanged(filepath.Join(out, "WalkerSites.lean"), b.Bytes())
}
