package main

// Section "tamper" (C04): valid vertices produced by the real code are mutated in every class of the
// property's quantifier; each mutant is (a) verified by the real (*Vertex).verify and (b) offered to a real
// node with AddLeaf. Trace lines carry every field as bytes and the signatures symbolically (who signed
// which digest, recorded when the real wallet signed), so that the Lean model recomputes digests, decodes
// addresses and decides acceptance itself:
//   K <pubkey hex>                               (informational)
//   SHA <msg hex> | <digest hex>                 sha256 cross-check
//   B58 <address hex> | <key hex or ->           address decoding cross-check
//   TV <vertex fields> | <verify 0/1> | <addleaf tag> <ledger changed 0/1>

import (
	"sort"
	"sync"
	"time"

	"github.com/bartossh/Computantis/src/cache"
	"github.com/bartossh/Computantis/src/gossip"
	"github.com/bartossh/Computantis/src/pipe"
	pb "github.com/bartossh/Computantis/src/protobufcompiled"
	"bytes"
	"crypto/sha256"
	"encoding/hex"
	"fmt"

	"github.com/bartossh/Computantis/src/accountant"
	"github.com/bartossh/Computantis/src/serializer"
	"github.com/bartossh/Computantis/src/spice"
	"github.com/bartossh/Computantis/src/transaction"
	"github.com/bartossh/Computantis/src/wallet"
)

type prov struct {
	key    []byte
	digest [32]byte
}

var sigLog = map[string]prov{}
var sigLogMux sync.RWMutex

func sigLogGet(s []byte) (prov, bool) {
	sigLogMux.RLock()
	defer sigLogMux.RUnlock()
	p, ok := sigLog[string(s)]
	return p, ok
}

// recSigner records the provenance of every signature it produces.
type recSigner struct{ w *wallet.Wallet }

func (r recSigner) Sign(msg []byte) ([32]byte, []byte) {
	d, s := r.w.Sign(msg)
	sigLogMux.Lock()
	sigLog[string(s)] = prov{append([]byte{}, r.w.Public...), d}
	sigLogMux.Unlock()
	return d, s
}
func (r recSigner) Address() string { return r.w.Address() }

func sigTok(s []byte) string {
	if p, ok := sigLogGet(s); ok && len(s) > 0 {
		return fmt.Sprintf("S%x:%x", p.key, p.digest[:])
	}
	return "R" + hex.EncodeToString(s)
}

func hexs(b []byte) string {
	if len(b) == 0 {
		return "e"
	}
	return hex.EncodeToString(b)
}

func tvFields(v *accountant.Vertex) string {
	t := &v.Transaction
	return fmt.Sprintf("%s %d %d %s %s %s %s %s %s %s %s %d %d %d %s %s %s", hexs([]byte(v.SignerPublicAddress)), uint64(v.CreatedAt.UnixNano()), v.Weight,
		hexs(v.LeftParentHash[:]), hexs(v.RightParentHash[:]), hexs(v.Hash[:]), sigTok(v.Signature),
		hexs([]byte(t.Subject)), hexs(t.Data), hexs([]byte(t.IssuerAddress)), hexs([]byte(t.ReceiverAddress)), uint64(t.CreatedAt.UnixNano()),
		t.Spice.Currency, t.Spice.SupplementaryCurrency, hexs(t.Hash[:]), sigTok(t.IssuerSignature), sigTok(t.ReceiverSignature))
}

// altAddress: the same key under another version byte, with a correct checksum (needs no secret).
func altAddress(pub []byte, version byte) string {
	payload := append([]byte{version}, pub...)
	h1 := sha256.Sum256(payload)
	h2 := sha256.Sum256(h1[:])
	return string(serializer.Base58Encode(append(payload, h2[:4]...)))
}

// versionOnlyAddress: the version byte is changed, key and checksum bytes are kept as they were for
// version 0 (so the checksum does NOT match the new version byte).
func versionOnlyAddress(pub []byte, version byte) string {
	payload := append([]byte{0}, pub...)
	h1 := sha256.Sum256(payload)
	h2 := sha256.Sum256(h1[:])
	raw := append(payload, h2[:4]...)
	raw[0] = version
	return string(serializer.Base58Encode(raw))
}

// aliasSigner signs with w but presents another address text.
type aliasSigner struct {
	w    *wallet.Wallet
	addr string
}

func (a aliasSigner) Sign(msg []byte) ([32]byte, []byte) { return recSigner{a.w}.Sign(msg) }
func (a aliasSigner) Address() string                    { return a.addr }

type mutant struct {
	class string
	v     accountant.Vertex
	// signedChange: a signed field (or the set of signatures) differs from the original as a domain value
	signedChange bool
}

func flip(b []byte, i int, m byte) []byte {
	c := append([]byte{}, b...)
	if len(c) > 0 {
		c[i%len(c)] ^= m
	}
	return c
}

func mutantsOf(c *Ctx, o accountant.Vertex, other accountant.Vertex, stranger, sealer, iss *wallet.Wallet, known [32]byte) []mutant {
	var ms []mutant
	add := func(class string, f func(v *accountant.Vertex)) {
		v := o
		v.Transaction.Data = append([]byte{}, o.Transaction.Data...)
		f(&v)
		if tvFields(&v) == tvFields(&o) {
			return // the mutation does not apply to this vertex (e.g. no data to flip)
		}
		ms = append(ms, mutant{class, v, true})
	}
	r := c.Rnd.Intn(1000)
	add("subject.bitflip", func(v *accountant.Vertex) { v.Transaction.Subject = string(flip([]byte(v.Transaction.Subject), r, 1<<uint(r%8))) })
	add("subject.extend", func(v *accountant.Vertex) { v.Transaction.Subject += "x" })
	add("subject.truncate", func(v *accountant.Vertex) { v.Transaction.Subject = v.Transaction.Subject[:len(v.Transaction.Subject)-1] })
	add("data.bitflip", func(v *accountant.Vertex) { v.Transaction.Data = flip(v.Transaction.Data, r, 0x80) })
	add("data.extend", func(v *accountant.Vertex) { v.Transaction.Data = append(v.Transaction.Data, 0) })
	add("issuer.charflip", func(v *accountant.Vertex) { v.Transaction.IssuerAddress = string(flip([]byte(v.Transaction.IssuerAddress), 5+r, 1)) })
	add("issuer.replaced", func(v *accountant.Vertex) { v.Transaction.IssuerAddress = stranger.Address() })
	add("receiver.charflip", func(v *accountant.Vertex) { v.Transaction.ReceiverAddress = string(flip([]byte(v.Transaction.ReceiverAddress), 7+r, 2)) })
	add("receiver.replaced", func(v *accountant.Vertex) { v.Transaction.ReceiverAddress = stranger.Address() })
	add("amount.currency+1", func(v *accountant.Vertex) { v.Transaction.Spice.Currency++ })
	add("amount.supp.highbit", func(v *accountant.Vertex) { v.Transaction.Spice.SupplementaryCurrency ^= 1 << 59 })
	add("trx.created+1ns", func(v *accountant.Vertex) { v.Transaction.CreatedAt = v.Transaction.CreatedAt.Add(1) })
	add("trx.hash.bitflip", func(v *accountant.Vertex) { v.Transaction.Hash[r%32] ^= 1 << uint(r%8) })
	add("trx.issuersig.bitflip", func(v *accountant.Vertex) { v.Transaction.IssuerSignature = flip(v.Transaction.IssuerSignature, r, 4) })
	add("trx.issuersig.from-other", func(v *accountant.Vertex) { v.Transaction.IssuerSignature = other.Transaction.IssuerSignature })
	add("trx.issuersig.truncated", func(v *accountant.Vertex) { v.Transaction.IssuerSignature = v.Transaction.IssuerSignature[:63] })
	// a valid signature followed by extra bytes / cut / doubled: only the exact 64 bytes are a signature
	ext := func(b []byte, n int) []byte { return append(append([]byte{}, b...), make([]byte, n)...) }
	add("trx.issuersig.extended1", func(v *accountant.Vertex) { v.Transaction.IssuerSignature = ext(v.Transaction.IssuerSignature, 1) })
	add("trx.issuersig.extended64", func(v *accountant.Vertex) { v.Transaction.IssuerSignature = ext(v.Transaction.IssuerSignature, 64) })
	add("trx.issuersig.doubled", func(v *accountant.Vertex) {
		v.Transaction.IssuerSignature = append(append([]byte{}, v.Transaction.IssuerSignature...), v.Transaction.IssuerSignature...)
	})
	add("vertex.sig.extended1", func(v *accountant.Vertex) { v.Signature = ext(v.Signature, 1) })
	add("vertex.sig.extended64", func(v *accountant.Vertex) { v.Signature = ext(v.Signature, 64) })
	add("vertex.sig.truncated", func(v *accountant.Vertex) { v.Signature = v.Signature[:63] })
	add("vertex.created+1ns", func(v *accountant.Vertex) { v.CreatedAt = v.CreatedAt.Add(1) })
	add("vertex.weight+1", func(v *accountant.Vertex) { v.Weight++ })
	add("vertex.left.bitflip", func(v *accountant.Vertex) { v.LeftParentHash[r%32] ^= 0x10 })
	add("vertex.right.from-other", func(v *accountant.Vertex) { v.RightParentHash = other.Hash })
	// re-wired to another vertex the receiving node HOLDS (a swapped-in unknown hash is parked or refused for the
	// missing parent whatever the verification says)
	add("vertex.right.rewired-to-known", func(v *accountant.Vertex) { v.RightParentHash = known })
	add("vertex.left.rewired-to-known", func(v *accountant.Vertex) { v.LeftParentHash = known })
	add("vertex.parents.swapped-with-known", func(v *accountant.Vertex) { v.LeftParentHash, v.RightParentHash = known, v.LeftParentHash })
	add("vertex.hash.bitflip", func(v *accountant.Vertex) { v.Hash[r%32] ^= 0x01 })
	add("vertex.sig.bitflip", func(v *accountant.Vertex) { v.Signature = flip(v.Signature, r, 8) })
	add("vertex.sig.from-other", func(v *accountant.Vertex) { v.Signature = other.Signature })
	add("vertex.signer.replaced", func(v *accountant.Vertex) { v.SignerPublicAddress = stranger.Address() })
	add("vertex.signer.shortkey", func(v *accountant.Vertex) { v.SignerPublicAddress = badKeyAddress(31) })
	add("vertex.signer.reencoded-version", func(v *accountant.Vertex) { v.SignerPublicAddress = altAddress(sealer.Public, 1+byte(r%255)) })
	add("vertex.signer.space-suffix", func(v *accountant.Vertex) { v.SignerPublicAddress += " " })
	add("vertex.signer.newline-suffix", func(v *accountant.Vertex) { v.SignerPublicAddress += "\n" })
	add("vertex.signer.tab-prefix", func(v *accountant.Vertex) { v.SignerPublicAddress = "\t" + v.SignerPublicAddress })
	add("issuer.space-suffix", func(v *accountant.Vertex) { v.Transaction.IssuerAddress += " " })
	add("vertex.signer.padded-one", func(v *accountant.Vertex) { v.SignerPublicAddress = "1" + v.SignerPublicAddress })
	add("vertex.signer.padded-ones", func(v *accountant.Vertex) { v.SignerPublicAddress = "111" + v.SignerPublicAddress })
	add("issuer.padded-one", func(v *accountant.Vertex) { v.Transaction.IssuerAddress = "1" + v.Transaction.IssuerAddress })
	add("vertex.signer.version-byte-only", func(v *accountant.Vertex) { v.SignerPublicAddress = versionOnlyAddress(sealer.Public, 1+byte(r%255)) })
	add("issuer.version-byte-only", func(v *accountant.Vertex) { v.Transaction.IssuerAddress = versionOnlyAddress(iss.Public, 1+byte(r%255)) })
	add("issuer.reencoded-version", func(v *accountant.Vertex) { v.Transaction.IssuerAddress = altAddress(iss.Public, 1+byte(r%255)) })
	add("issuer.shortkey", func(v *accountant.Vertex) { v.Transaction.IssuerAddress = badKeyAddress(33) })
	add("vertex.trx.from-other", func(v *accountant.Vertex) { v.Transaction = other.Transaction })
	// moving bytes across adjacent variable-width field boundaries of the transaction message
	if len(o.Transaction.Data) > 0 {
		add("boundary.subject<-data", func(v *accountant.Vertex) {
			v.Transaction.Subject += string(v.Transaction.Data[:1])
			v.Transaction.Data = v.Transaction.Data[1:]
		})
		add("boundary.subject<-data.all", func(v *accountant.Vertex) {
			v.Transaction.Subject += string(v.Transaction.Data)
			v.Transaction.Data = nil
		})
	}
	if len(o.Transaction.Subject) > 1 {
		add("boundary.subject->data", func(v *accountant.Vertex) {
			n := len(v.Transaction.Subject)
			v.Transaction.Data = append([]byte(v.Transaction.Subject[n-1:]), v.Transaction.Data...)
			v.Transaction.Subject = v.Transaction.Subject[:n-1]
		})
	}
	add("boundary.data->issuer", func(v *accountant.Vertex) {
		if len(v.Transaction.Data) > 0 {
			n := len(v.Transaction.Data)
			v.Transaction.IssuerAddress = string(v.Transaction.Data[n-1:]) + v.Transaction.IssuerAddress
			v.Transaction.Data = v.Transaction.Data[:n-1]
		} else {
			v.Transaction.IssuerAddress = v.Transaction.Subject[len(v.Transaction.Subject)-1:] + v.Transaction.IssuerAddress
			v.Transaction.Subject = v.Transaction.Subject[:len(v.Transaction.Subject)-1]
		}
	})
	add("boundary.issuer->receiver", func(v *accountant.Vertex) {
		n := len(v.Transaction.IssuerAddress)
		v.Transaction.ReceiverAddress = v.Transaction.IssuerAddress[n-1:] + v.Transaction.ReceiverAddress
		v.Transaction.IssuerAddress = v.Transaction.IssuerAddress[:n-1]
	})
	if len(o.Transaction.ReceiverSignature) > 0 {
		add("receiversig.stripped", func(v *accountant.Vertex) { v.Transaction.ReceiverSignature = nil })
		add("receiversig.bitflip", func(v *accountant.Vertex) { v.Transaction.ReceiverSignature = flip(v.Transaction.ReceiverSignature, r, 1) })
		add("receiversig.from-issuer", func(v *accountant.Vertex) { v.Transaction.ReceiverSignature = v.Transaction.IssuerSignature })
		add("receiversig.extended1", func(v *accountant.Vertex) { v.Transaction.ReceiverSignature = ext(v.Transaction.ReceiverSignature, 1) })
		add("receiversig.extended64", func(v *accountant.Vertex) { v.Transaction.ReceiverSignature = ext(v.Transaction.ReceiverSignature, 64) })
	} else {
		add("receiversig.added-garbage", func(v *accountant.Vertex) { v.Transaction.ReceiverSignature = make([]byte, 64) })
	}
	return ms
}

// genesisOf: the parentless vertex of a ledger
// ledgerAndIndexKey: vertices, edges AND the transaction index (a refused vertex must not leave a claim on its
// transaction behind)
func ledgerAndIndexKey(s *accountant.VerifSnap) string {
	var ix []string
	for t, v := range s.Index {
		ix = append(ix, fmt.Sprintf("%x:%x", t[:6], v))
	}
	sort.Strings(ix)
	return ledgerKey(s) + fmt.Sprint(ix)
}

func genesisOf(ab *accountant.AccountingBook) accountant.Vertex {
	for _, gv := range ab.VerifSnapshot().Vertices {
		if gv.LeftParentHash == [32]byte{} && gv.RightParentHash == [32]byte{} {
			return gv
		}
	}
	panic("no genesis vertex")
}

func init() {
	sections["tamper"] = func(c *Ctx) error {
		c.Rep.Rule = "valid vertices (plain transfer, contract with data, countersigned contract) x every mutation class of the quantifier (bit flips per field, truncation/extension, bytes moved across each adjacent field boundary, fields swapped between two valid vertices, signatures/addresses replaced or removed); each mutant verified by the real code and offered to a real node; non-trivial = distinct (base kind, mutation class)"
		w := NewWorld(c)
		w.quiet = true
		a := w.NewNode()
		iss, rec, stranger := w.NewWallet(), w.NewWallet(), w.NewWallet()
		w.Genesis(a, iss.Address(), spice.Melange{Currency: 1000})
		rounds := 6
		if c.Tier == "thorough" {
			rounds = 120
		}
		sealer := w.NewWallet()
		// a second vertex in the ledger every receiving node syncs: something a parent link can be re-wired to
		var second accountant.Vertex
		{
			t, _ := transaction.New("first", spice.Melange{Currency: 1}, nil, rec.Address(), recSigner{iss})
			v, err := a.ab.CreateLeaf(w.ctx, &t)
			if err != nil {
				return fmt.Errorf("tamper: second vertex: %v", err)
			}
			second = v
		}
		var pending []string
		var recv *Node
		emit := func(format string, args ...interface{}) { pending = append(pending, fmt.Sprintf(format, args...)) }
		for round := 0; round < rounds; round++ {
			gen := genesisOf(a.ab)
			mk := func(kind string) accountant.Vertex {
				var t transaction.Transaction
				switch kind {
				case "transfer":
					t, _ = transaction.New("pay", spice.Melange{Currency: 3, SupplementaryCurrency: uint64(round)}, nil, rec.Address(), recSigner{iss})
				case "contract":
					t, _ = transaction.New("deal", spice.Melange{Currency: 1}, []byte("terms-"+fmt.Sprint(round)), rec.Address(), recSigner{iss})
				case "countersigned":
					t, _ = transaction.New("deal2", spice.Melange{}, []byte("agreed-"+fmt.Sprint(round)), rec.Address(), recSigner{iss})
					if _, err := t.Sign(recSigner{rec}, w.ver); err != nil {
						panic(err)
					}
				}
				v, _ := accountant.NewVertex(t, gen.Hash, gen.Hash, 51, recSigner{sealer})
				return v
			}
			other := mk("contract")
			for _, kind := range []string{"transfer", "contract", "countersigned"} {
				o := mk(kind)
				if err := accountant.VerifVerifyVertex(&o, w.ver); err != nil {
					return fmt.Errorf("base vertex %s does not verify: %v", kind, err)
				}
				cases := append([]mutant{{"original", o, false}}, mutantsOf(c, o, other, stranger, sealer, iss, second.Hash)...)
				for _, m := range cases {
					// the receiving node is replaced as soon as anything changed it: nothing a previous
					// mutant did can interfere (and a rejected mutant must leave it as it was)
					if recv == nil {
						recv = w.NewNode()
						w.syncFrom(a, recv)
						// every second round the receiving node TRUSTS the sealing node: trust exempts a vertex
						// from the funds walk, never from verification
						if round%2 == 1 {
							recv.ab.AddTrustedNode(sealer.Address())
							c.Count("receiver-trusts-sealer")
						}
					}
					b := recv
					before := ledgerAndIndexKey(ptr(b.ab.VerifSnapshot()))
					verr := accountant.VerifVerifyVertex(&m.v, w.ver)
					cp := m.v
					aerr := b.ab.AddLeaf(w.ctx, &cp)
					after := ledgerAndIndexKey(ptr(b.ab.VerifSnapshot()))
					if before != after || aerr == nil {
						b.cancel()
						recv = nil
					}
					emit("TV %s | %d | %s %d", tvFields(&m.v), b2i(verr == nil), errTag(aerr), b2i(before != after))
					c.Rep.Evals++
					c.Distinct(kind + "/" + m.class)
					c.Count("verify." + map[bool]string{true: "ok", false: "rejected"}[verr == nil])
					info := map[string]interface{}{"section": "tamper", "base": kind, "mutation": m.class, "round": round}
					if m.class == "original" {
						if aerr != nil {
							c.Violate("C04", "valid-vertex-rejected", fmt.Sprintf("%s: %v", kind, aerr), info)
						}
						continue
					}
					if aerr == nil {
						key := "mutant-admitted:" + m.class
						switch m.class {
						case "vertex.signer.reencoded-version":
							key = "signer-address-reencoded"
						case "boundary.subject<-data", "boundary.subject<-data.all", "boundary.subject->data":
							key = "boundary-shift-subject-data"
						case "receiversig.stripped":
							key = "receiver-signature-strip"
						}
						c.Violate("C04", key, fmt.Sprintf("%s vertex with mutation %s was admitted by AddLeaf", kind, m.class), info)
					} else if before != after {
						c.Violate("C04", "rejected-mutant-changed-ledger:"+m.class, "a rejected vertex changed the ledger", info)
					}
				}
			}
		}
		// a wallet sealing its own transfer under a re-encoded (other version byte) address of itself
		{
			gen := genesisOf(a.ab)
			t, _ := transaction.New("self", spice.Melange{Currency: 2}, nil, rec.Address(), recSigner{iss})
			for vi, ver := range []byte{0, 1, 0xff, 0, 0} {
				alias := altAddress(iss.Public, ver)
				if vi == 3 {
					alias = "1" + iss.Address() // base58 renders a leading zero byte as '1': the same key behind a longer text
				}
				if vi == 4 {
					alias = "11" + iss.Address()
				}
				v, err := accountant.NewVertex(t, gen.Hash, gen.Hash, 51, aliasSigner{iss, alias})
				if err != nil {
					continue
				}
				b := w.NewNode()
				w.syncFrom(a, b)
				before := ledgerKey(ptr(b.ab.VerifSnapshot()))
				verr := accountant.VerifVerifyVertex(&v, w.ver)
				cp := v
				aerr := b.ab.AddLeaf(w.ctx, &cp)
				after := ledgerKey(ptr(b.ab.VerifSnapshot()))
				b.cancel()
				emit("TV %s | %d | %s %d", tvFields(&v), b2i(verr == nil), errTag(aerr), b2i(before != after))
				c.Rep.Evals++
				c.Distinct(fmt.Sprintf("self-seal/version-%d/%d", ver, vi))
				if aerr == nil {
					info := map[string]interface{}{"section": "tamper", "scenario": "self-seal", "version_byte": ver}
					c.Violate("C10", "self-sealed-via-reencoded-address", "a wallet sealed its own transfer under another encoding of its address and the vertex was admitted", info)
					c.Violate("C04", "signer-address-reencoded", "self-sealed vertex under a re-encoded signer address admitted", info)
				}
			}
		}
		// a wallet the receiving node TRUSTS seals its own transfer: trust exempts from the funds walk, not from the
		// rule that nobody seals what they issued
		{
			gen := genesisOf(a.ab)
			t, _ := transaction.New("self", spice.Melange{Currency: 2}, nil, rec.Address(), recSigner{iss})
			if v, err := accountant.NewVertex(t, gen.Hash, gen.Hash, 51, recSigner{iss}); err == nil {
				b := w.NewNode()
				w.syncFrom(a, b)
				b.ab.AddTrustedNode(iss.Address())
				before := ledgerKey(ptr(b.ab.VerifSnapshot()))
				cp := v
				aerr := b.ab.AddLeaf(w.ctx, &cp)
				after := ledgerKey(ptr(b.ab.VerifSnapshot()))
				b.cancel()
				c.Rep.Evals++
				c.Distinct("self-seal/trusted-sealer")
				if aerr == nil || before != after {
					c.Violate("C10", "self-sealed-by-trusted-wallet-admitted", fmt.Sprintf("a wallet the node trusts sealed its own transfer; AddLeaf: %v, ledger changed: %v", aerr, before != after),
						map[string]interface{}{"section": "tamper", "scenario": "self-seal-trusted"})
				}
			}
		}
		// a forged copy of a vertex the node has ALREADY SEEN and verified but not yet stored (it is parked: its
		// parent was missing): the genuine child is parked, the parent arrives, then a copy of the child with
		// altered signed fields arrives before the retry. Having verified the genuine one earlier says nothing
		// about the copy.
		for round := 0; round < 3; round++ {
			b := w.NewNode()
			w.syncFrom(a, b)
			gen := genesisOf(a.ab)
			pt, _ := transaction.New("parent", spice.Melange{Currency: 2}, nil, rec.Address(), recSigner{iss})
			parent, _ := accountant.NewVertex(pt, gen.Hash, gen.Hash, 51, recSigner{sealer})
			ct, _ := transaction.New("child", spice.Melange{Currency: 1}, []byte("x"), rec.Address(), recSigner{iss})
			child, _ := accountant.NewVertex(ct, parent.Hash, parent.Hash, 52, recSigner{sealer})
			cp := child
			b.ab.AddLeaf(w.ctx, &cp) // parked
			cp2 := parent
			b.ab.AddLeaf(w.ctx, &cp2)
			forged := child
			switch round {
			case 0:
				forged.Transaction.Spice.Currency = 1000000
				forged.Transaction.ReceiverAddress = stranger.Address()
			case 1:
				forged.Weight += 5
			case 2:
				forged.Transaction.Data = []byte("y")
			}
			fc := forged
			aerr := b.ab.AddLeaf(w.ctx, &fc)
			for i := 0; i < 3; i++ {
				b.ab.VerifRetryParked(w.ctx)
			}
			c.Rep.Evals++
			c.Distinct(fmt.Sprintf("forged-copy-of-parked/%d", round))
			sn := b.ab.VerifSnapshot()
			for _, x := range sn.Vertices {
				if x.Hash == child.Hash && tvFields(&x) != tvFields(&child) {
					info := map[string]interface{}{"section": "tamper", "scenario": "forged-copy-of-parked-vertex", "round": round}
					c.Violate("C04", "forged-copy-of-parked-vertex-admitted", fmt.Sprintf("the genuine vertex was parked (verified), its parent arrived, then a copy with altered signed fields was offered (AddLeaf: %v): the ledger holds the altered copy", aerr), info)
				}
			}
			b.cancel()
		}
		// ---- the same vertex on the WIRE: a peer can send byte fields of any length. A valid vertex whose hash,
		// parent hashes or transaction hash carry extra trailing bytes is not the vertex that was signed: the
		// gossip handler refuses it and the ledger stays as it was (the untouched message is admitted).
		{
			gen := genesisOf(a.ab)
			type ext struct {
				field string
				n     int
			}
			var cases []ext
			for _, f := range []string{"none", "hash", "left", "right", "trxhash"} {
				for _, n := range []int{1, 32} {
					if f == "none" && n == 32 {
						continue
					}
					cases = append(cases, ext{f, n})
				}
			}
			for ci, ec := range cases {
				t, _ := transaction.New("wire", spice.Melange{Currency: 2, SupplementaryCurrency: uint64(ci)}, nil, rec.Address(), recSigner{iss})
				vx, err := accountant.NewVertex(t, gen.Hash, second.Hash, 52, recSigner{sealer})
				if err != nil {
					continue
				}
				b := w.NewNode()
				w.syncFrom(a, b)
				hc, _ := cache.New(100, 16)
				fl, _ := cache.NewFlash()
				g := gossip.VerifNewGossiper(nopLog{}, time.Second, b.w, w.ver, b.ab, hc, fl, pipe.New(10, 10), "recv")
				pv := gossip.VerifMapVertexToProto(&vx)
				pad := make([]byte, ec.n)
				switch ec.field {
				case "hash":
					pv.Hash = append(pv.Hash, pad...)
				case "left":
					pv.LeftParentHash = append(pv.LeftParentHash, pad...)
				case "right":
					pv.RightParentHash = append(pv.RightParentHash, pad...)
				case "trxhash":
					pv.Transaction.Hash = append(pv.Transaction.Hash, pad...)
				}
				before := ledgerKey(ptr(b.ab.VerifSnapshot()))
				var gerr error
				func() {
					defer func() {
						if r := recover(); r != nil {
							gerr = fmt.Errorf("panic: %v", r)
						}
					}()
					_, gerr = g.Server().GossipVrx(w.ctx, &pb.VrxMsgGossip{Vertex: pv})
				}()
				after := ledgerKey(ptr(b.ab.VerifSnapshot()))
				b.cancel()
				c.Rep.Evals++
				c.Distinct(fmt.Sprintf("wire-extended/%s+%d", ec.field, ec.n))
				info := map[string]interface{}{"section": "tamper", "scenario": "wire-extended-hash-field", "field": ec.field, "extra_bytes": ec.n}
				if ec.field == "none" {
					if gerr != nil || before == after {
						c.Violate("C04", "valid-vertex-rejected", fmt.Sprintf("a valid vertex offered through the gossip handler: %v", gerr), info)
					}
					continue
				}
				if gerr == nil || before != after {
					c.Violate("C04", "mutant-admitted:wire."+ec.field+".extended", fmt.Sprintf("a valid vertex whose %s field carries %d extra byte(s) on the wire: handler answered %v, ledger changed: %v", ec.field, ec.n, gerr, before != after), info)
				}
			}
		}
		// sha256 / base58 cross checks for the model's executable crypto
		for i := 0; i < 40; i++ {
			n := []int{0, 1, 55, 56, 63, 64, 65, 119, 120, 200, 1000}[i%11]
			msg := fill(c, n, false)
			d := sha256.Sum256(msg)
			c.Line("SHA %s | %x", hexs(msg), d[:])
		}
		for _, wl := range w.wallets {
			k, _ := w.ver.AddressToPubKey(wl.Address())
			c.Line("B58 %s | %x", hexs([]byte(wl.Address())), k)
			bad := flip([]byte(wl.Address()), 9, 1)
			if k2, err := w.ver.AddressToPubKey(string(bad)); err != nil {
				c.Line("B58 %s | -", hexs(bad))
			} else {
				c.Line("B58 %s | %x", hexs(bad), k2)
				if !bytes.Equal(k2, k) {
					c.Violate("C04", "corrupted-address-resolves-to-other-key", "a corrupted address decoded to a different key", nil)
				}
			}
		}
		for _, n := range []int{0, 31, 33} {
			ad := badKeyAddress(n)
			k, err := w.ver.AddressToPubKey(ad)
			if err != nil {
				c.Line("B58 %s | -", hexs([]byte(ad)))
			} else {
				c.Line("B58 %s | %s", hexs([]byte(ad)), hexs(k))
			}
		}
		for _, l := range pending {
			c.Line("%s", l)
		}
		c.Sample(map[string]interface{}{"base": "countersigned", "mutation": "receiversig.stripped", "line": "TV <fields with symbolic signatures> | verify | addleaf changed"})
		return nil
	}
}

func ptr[T any](v T) *T { return &v }
