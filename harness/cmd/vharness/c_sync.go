package main

// Section "sync" (C14): real StreamDAG -> real LoadDag (through the channel API, as gossip.updateDag does)
// for several source shapes and stream orders; equality of vertices / parent links / index / genesis wallet /
// balances; identical follow-up gossip on both; every single corruption of a stream must leave the node
// not loaded; syncing from a truncated peer.

import (
	"context"
	"fmt"
	"strings"
	"time"

	"github.com/bartossh/Computantis/src/cache"
	"github.com/bartossh/Computantis/src/gossip"
	"github.com/bartossh/Computantis/src/pipe"
	pb "github.com/bartossh/Computantis/src/protobufcompiled"
	"google.golang.org/grpc"
	"google.golang.org/protobuf/types/known/emptypb"

	"github.com/bartossh/Computantis/src/accountant"
	"github.com/bartossh/Computantis/src/spice"
)

func (w *World) compareLedgers(src, dst *Node, info map[string]interface{}, what string) {
	a, b := src.ab.VerifSnapshot(), dst.ab.VerifSnapshot()
	if !b.Loaded {
		w.c.Violate("C14", "valid-stream-not-loaded:"+what, "a node that loaded a valid stream is not marked loaded", info)
		return
	}
	if ledgerKey(&a) != ledgerKey(&b) {
		w.c.Violate("C14", "synced-ledger-differs:"+what, fmt.Sprintf("peer has %d vertices / %d edges, synced node %d / %d", len(a.Vertices), len(a.Edges), len(b.Vertices), len(b.Edges)), info)
	}
	if a.Genesis != b.Genesis {
		w.c.Violate("C14", "genesis-wallet-differs:"+what, "synced node recognises a different genesis wallet", info)
	}
	if len(a.Index) != len(b.Index) {
		w.c.Violate("C14", "index-differs:"+what, "transaction index differs after sync", info)
	}
	// balances: with a single tip both must answer identically; with several tips each answer is checked
	// against the per-tip reference by the balance oracle, and the references coincide when the ledgers do
	for _, wl := range w.wallets {
		ba, ea := w.Balance(src, wl.Address())
		bb, eb := w.Balance(dst, wl.Address())
		if len(a.Leaves) == 1 && ((ea == nil) != (eb == nil) || ba != bb) {
			w.c.Violate("C14", "balance-differs-after-sync:"+what, fmt.Sprintf("peer answers %v/%v, synced node %v/%v", ba, ea, bb, eb), info)
		}
	}
}

func syncSource(c *Ctx, shape string) (*World, *Node) {
	w := NewWorld(c)
	a := w.NewNode()
	w.NewNode()
	for i := 0; i < 3; i++ {
		w.NewWallet()
	}
	w.Genesis(a, w.wallets[0].Address(), spice.Melange{Currency: 500, SupplementaryCurrency: 7})
	switch shape {
	case "chain":
		for i := 0; i < 25; i++ {
			t := w.NewTrx(w.wallets[0], w.wallets[1+i%2].Address(), spice.Melange{Currency: 1, SupplementaryCurrency: uint64(i)}, nil)
			w.Propose(a, &t)
		}
	case "braid":
		b := w.nodes[1]
		w.syncFrom(a, b)
		var pa, pb []accountant.Vertex
		for i := 0; i < 16; i++ {
			t := w.NewTrx(w.wallets[0], w.wallets[1+i%2].Address(), spice.Melange{Currency: 1}, []byte{byte(i)})
			if i%2 == 0 {
				if v, err := w.Propose(a, &t); err == nil {
					pa = append(pa, v)
				}
			} else {
				if v, err := w.Propose(b, &t); err == nil {
					pb = append(pb, v)
				}
			}
			if i%4 == 3 {
				for _, v := range pb {
					w.Add(a, &v)
				}
				for _, v := range pa {
					w.Add(b, &v)
				}
				pa, pb = nil, nil
			}
		}
		// leave a few tips unmerged on a: vertices from b built on an older tip
		for _, v := range pb {
			w.Add(a, &v)
		}
	case "diamonds", "random-dag":
		// vertices crafted by a wallet acting as sealing node, each on two (mostly distinct) existing
		// vertices - not only tips: several tips, diamonds, shared ancestors at different depths
		s := a.ab.VerifSnapshot()
		pool := [][32]byte{s.Vertices[0].Hash}
		weights := map[[32]byte]uint64{s.Vertices[0].Hash: 0}
		n := 14
		if shape == "random-dag" {
			n = 30
		}
		for i := 0; i < n; i++ {
			l := pool[c.Rnd.Intn(len(pool))]
			r := pool[c.Rnd.Intn(len(pool))]
			if shape == "diamonds" && i >= 3 { // prefer recent, distinct parents
				l = pool[len(pool)-1-c.Rnd.Intn(3)]
				r = pool[len(pool)-1-c.Rnd.Intn(3)]
			}
			t := w.NewTrx(w.wallets[0], w.wallets[1].Address(), spice.Melange{}, []byte{byte(i), 1})
			wt := weights[l]
			if weights[r] > wt {
				wt = weights[r]
			}
			v, _ := accountant.NewVertex(t, l, r, wt+1, w.wallets[2])
			if err := w.Add(a, &v); err == nil {
				pool = append(pool, v.Hash)
				weights[v.Hash] = wt + 1
			}
		}
	case "deep-with-stale-tip":
		// a chain deeper than the initial weight window (50) next to a tip that still hangs off the genesis vertex:
		// gossip that builds on the old tip is treated alike by the peer and by a node synced from it
		g := a.ab.VerifSnapshot().Vertices[0]
		st := w.NewTrx(w.wallets[0], w.wallets[1].Address(), spice.Melange{}, []byte("stale tip"))
		sv, _ := accountant.NewVertex(st, g.Hash, g.Hash, 1, w.wallets[2])
		w.Add(a, &sv)
		for i := 0; i < 64; i++ {
			t := w.NewTrx(w.wallets[0], w.wallets[1+i%2].Address(), spice.Melange{Currency: 1}, nil)
			pv, err := w.Propose(a, &t)
			if err == nil && (pv.LeftParentHash == sv.Hash || pv.RightParentHash == sv.Hash) {
				// the proposal merged the side tip: hang a new one off the genesis vertex
				st = w.NewTrx(w.wallets[0], w.wallets[1].Address(), spice.Melange{}, []byte{byte(i), 's'})
				sv, _ = accountant.NewVertex(st, g.Hash, g.Hash, 1, w.wallets[2])
				w.Add(a, &sv)
			}
		}
	case "genesis-only":
	}
	return w, a
}

func init() {
	sections["sync"] = func(c *Ctx) error {
		c.Rep.Rule = "source ledgers (genesis only, chain, two-node braid with several tips) streamed by the real StreamDAG and loaded by the real LoadDag in stream / shuffled / reversed order; ledger, genesis wallet, index and balances compared; the same follow-up gossip offered to both; every single corruption (duplicate vertex, duplicate transaction, missing parent, second self-sealed vertex with and without parents, empty transaction with absent / zero-length data, non-canonical amount, the root vertex itself emptied / non-canonical / replaced) must leave the node not loaded; sync from a truncated peer; non-trivial = distinct (shape, order) or corruption kind"
		for _, shape := range []string{"genesis-only", "chain", "braid", "diamonds", "random-dag", "deep-with-stale-tip"} {
			for _, order := range []string{"stream", "shuffled", "reversed"} {
				w, src := syncSource(c, shape)
				info := map[string]interface{}{"section": "sync", "shape": shape, "order": order}
				c.Mark(info)
				vs := w.Stream(src)
				// stream completeness oracle
				s := src.ab.VerifSnapshot()
				seen := map[[32]byte]int{}
				for _, v := range vs {
					seen[v.Hash]++
				}
				for _, v := range s.Vertices {
					if seen[v.Hash] != 1 {
						c.Violate("C14", "stream-incomplete-or-duplicated", fmt.Sprintf("live vertex %x streamed %d times", v.Hash[:4], seen[v.Hash]), info)
					}
				}
				switch order {
				case "shuffled":
					c.Rnd.Shuffle(len(vs), func(i, j int) { vs[i], vs[j] = vs[j], vs[i] })
				case "reversed":
					for i, j := 0, len(vs)-1; i < j; i, j = i+1, j-1 {
						vs[i], vs[j] = vs[j], vs[i]
					}
				}
				dst := w.NewNode()
				w.Load(dst, vs)
				w.compareLedgers(src, dst, info, shape)
				// follow-up: a third synced node seals new vertices; both must treat them alike
				third := w.NewNode()
				if err := w.syncFrom(src, third); err != nil {
					c.Violate("C14", "valid-stream-not-loaded:"+shape, fmt.Sprintf("a second node could not sync from the peer: %v", errTag(err)), info)
				}
				var follow []accountant.Vertex
				for i := 0; i < 5; i++ {
					amt := spice.Melange{Currency: 1}
					if i == 3 {
						amt = spice.Melange{Currency: 100000} // overdraft: sealed as a tip, dropped when built upon
					}
					t := w.NewTrx(w.wallets[0], w.wallets[1].Address(), amt, nil)
					if v, err := w.Propose(third, &t); err == nil {
						follow = append(follow, v)
					}
				}
				{
					// a vertex another node sealed on the LIGHTEST tip of the peer's ledger (an old side branch)
					ss := src.ab.VerifSnapshot()
					var light *accountant.Vertex
					isTip := map[[32]byte]bool{}
					for _, l := range ss.Leaves {
						isTip[l] = true
					}
					for i := range ss.Vertices {
						if isTip[ss.Vertices[i].Hash] && (light == nil || ss.Vertices[i].Weight < light.Weight) {
							light = &ss.Vertices[i]
						}
					}
					if light != nil {
						t := w.NewTrx(w.wallets[0], w.wallets[1].Address(), spice.Melange{}, []byte("on the old tip"))
						if cv, err := accountant.NewVertex(t, light.Hash, light.Hash, light.Weight+1, w.wallets[2]); err == nil {
							follow = append([]accountant.Vertex{cv}, follow...)
						}
					}
				}
				if len(follow) > 0 {
					follow = append(follow, follow[0]) // duplicate
				}
				for _, v := range follow {
					e1 := w.Add(src, &v)
					e2 := w.Add(dst, &v)
					if errTag(e1) != errTag(e2) {
						c.Violate("C14", "followup-gossip-treated-differently", fmt.Sprintf("peer: %s, synced node: %s", errTag(e1), errTag(e2)), info)
					}
				}
				c.Distinct(shape + "/" + order)
				w.Close()
			}
		}
		// ---- single corruptions
		for _, kind := range []string{"dup-vertex", "dup-transaction", "missing-parent", "second-self-sealed", "second-self-sealed-parentless", "empty-transaction", "empty-transaction-zero-length-data", "non-canonical",
			"root-transaction-emptied", "root-amount-non-canonical", "root-replaced-by-empty", "root-replaced-by-non-canonical",
			"empty-stream", "genesis-only-ledger-vertex-dropped"} {
			shape := "chain"
			if strings.HasPrefix(kind, "root-replaced") || kind == "genesis-only-ledger-vertex-dropped" {
				shape = "genesis"
			}
			w, src := syncSource(c, shape)
			info := map[string]interface{}{"section": "sync", "corruption": kind}
			c.Mark(info)
			vs := w.Stream(src)
			mid := vs[len(vs)/2]
			switch kind {
			case "dup-vertex":
				cp := *mid
				vs = append(vs, &cp)
			case "dup-transaction":
				v, _ := accountant.NewVertex(mid.Transaction, mid.LeftParentHash, mid.RightParentHash, mid.Weight, w.wallets[2])
				vs = append(vs, &v)
			case "missing-parent":
				vs = append(vs[:len(vs)/2], vs[len(vs)/2+1:]...)
			case "second-self-sealed":
				t := w.NewTrx(w.wallets[2], w.wallets[1].Address(), spice.Melange{}, []byte("x"))
				v, _ := accountant.NewVertex(t, mid.Hash, mid.Hash, mid.Weight+1, w.wallets[2])
				vs = append(vs, &v)
			case "second-self-sealed-parentless":
				// looks like a second genesis: no parents, sealed by its own issuer
				t := w.NewTrx(w.wallets[2], w.wallets[1].Address(), spice.Melange{Currency: 777}, nil)
				v, _ := accountant.NewVertex(t, [32]byte{}, [32]byte{}, 0, w.wallets[2])
				vs = append(vs, &v)
			case "empty-transaction":
				t := w.NewTrx(w.wallets[1], w.wallets[2].Address(), spice.Melange{}, nil)
				v, _ := accountant.NewVertex(t, mid.Hash, mid.Hash, mid.Weight+1, w.wallets[2])
				vs = append(vs, &v)
			case "empty-stream", "genesis-only-ledger-vertex-dropped":
				// the connection dropped before the first vertex / the only vertex of the smallest ledger is lost:
				// the stream delivers nothing at all
				vs = nil
			case "empty-transaction-zero-length-data":
				t := w.NewTrx(w.wallets[1], w.wallets[2].Address(), spice.Melange{}, []byte{})
				v, _ := accountant.NewVertex(t, mid.Hash, mid.Hash, mid.Weight+1, w.wallets[2])
				vs = append(vs, &v)
			case "root-transaction-emptied", "root-amount-non-canonical":
				// the self-sealed root (genesis vertex) itself is malformed, everything else is as streamed
				for i, v := range vs {
					if v.Transaction.IssuerAddress == v.SignerPublicAddress {
						cp := *v
						if kind == "root-transaction-emptied" {
							cp.Transaction.Spice, cp.Transaction.Data = spice.Melange{}, nil
						} else {
							cp.Transaction.Spice = spice.Melange{Currency: 1, SupplementaryCurrency: maxSupp + 5}
						}
						vs[i] = &cp
						w.ReDefV(&cp)
					}
				}
			case "root-replaced-by-empty", "root-replaced-by-non-canonical":
				// a one-vertex ledger whose only vertex is a properly signed, self-sealed, parentless vertex
				// carrying an empty transaction / a non-canonical amount
				amt := spice.Melange{}
				if kind == "root-replaced-by-non-canonical" {
					amt = spice.Melange{Currency: 1, SupplementaryCurrency: maxSupp + 5}
				}
				t := w.NewTrx(src.w, w.wallets[0].Address(), amt, nil)
				v, _ := accountant.NewVertex(t, [32]byte{}, [32]byte{}, 0, src.w)
				vs = []*accountant.Vertex{&v}
			case "non-canonical":
				t := w.NewTrx(w.wallets[1], w.wallets[2].Address(), spice.Melange{SupplementaryCurrency: maxSupp + 5}, nil)
				v, _ := accountant.NewVertex(t, mid.Hash, mid.Hash, mid.Weight+1, w.wallets[2])
				vs = append(vs, &v)
			}
			dst := w.NewNode()
			err := w.Load(dst, vs)
			c.Distinct("corrupt/" + kind)
			if dst.ab.DagLoaded() || err == nil {
				c.Violate("C14", "malformed-stream-accepted:"+kind, fmt.Sprintf("LoadDag of a stream with %s: err=%v loaded=%v", kind, err, dst.ab.DagLoaded()), info)
				if strings.HasPrefix(kind, "second-self-sealed") {
					c.Violate("C10", "self-sealed-vertex-accepted-on-sync:"+kind, fmt.Sprintf("a synced ledger holds a second vertex sealed by its own issuer (%s)", kind), info)
				}
			}
			// a node that is not loaded refuses everything
			if e := w.Add(dst, mid); dst.ab.DagLoaded() == false && errTag(e) != "notLoaded" {
				c.Violate("C14", "unloaded-node-accepts-gossip", "AddLeaf on a node whose load failed: "+errTag(e), info)
			}
			w.Close()
		}
		// ---- a ledger whose root was sealed by ANOTHER wallet than the one that issued the genesis transaction
		// (nothing in the sync rules demands a self-sealed root): the genesis wallet is the ISSUER of the root's
		// transaction; on the synced node it can neither propose nor be gossiped in as an issuer.
		{
			w := NewWorld(c)
			n0 := w.NewNode()
			for i := 0; i < 4; i++ {
				w.NewWallet()
			}
			g, holder, sealer, other := w.wallets[0], w.wallets[1], w.wallets[2], w.wallets[3]
			info := map[string]interface{}{"section": "sync", "shape": "root-sealed-by-another-wallet"}
			c.Mark(info)
			rt := w.NewTrx(g, holder.Address(), spice.Melange{Currency: 500}, nil)
			root, _ := accountant.NewVertex(rt, [32]byte{}, [32]byte{}, 0, sealer)
			ct := w.NewTrx(holder, other.Address(), spice.Melange{Currency: 3}, nil)
			child, _ := accountant.NewVertex(ct, root.Hash, root.Hash, 1, sealer)
			err := w.Load(n0, []*accountant.Vertex{&child, &root})
			c.Distinct("root-sealed-by-another-wallet")
			if err == nil && n0.ab.DagLoaded() {
				if got := n0.ab.VerifSnapshot().Genesis; got != g.Address() {
					c.Violate("C10", "synced-node-takes-wrong-genesis-wallet", fmt.Sprintf("the root's transaction was issued by %s and sealed by %s: the synced node treats %s as the genesis wallet", w.A(g.Address()), w.A(sealer.Address()), w.A(got)), info)
				}
				st := w.NewTrx(g, other.Address(), spice.Melange{Currency: 1}, nil)
				if _, perr := w.Propose(n0, &st); perr == nil {
					c.Violate("C10", "genesis-wallet-spends", "on a node synced from a ledger whose root was sealed by another wallet, the genesis wallet's proposal was sealed", info)
				}
				gt := w.NewTrx(g, other.Address(), spice.Melange{Currency: 2}, nil)
				gv, _ := accountant.NewVertex(gt, child.Hash, child.Hash, 2, sealer)
				if aerr := w.Add(n0, &gv); aerr == nil {
					c.Violate("C10", "genesis-wallet-spends", "on a node synced from a ledger whose root was sealed by another wallet, a gossiped vertex issued by the genesis wallet was admitted", info)
				}
			}
			w.Close()
		}
		// ---- truncated peer
		{
			w, src := buildChainQuiet(c, 1120)
			info := map[string]interface{}{"section": "sync", "shape": "truncated-peer"}
			c.Mark(info)
			w.Seed(src)
			// the same ledger served by the real gossip handler to a peer that takes longer than the node's gossip
			// call timeout for the whole stream: a handler that reports success has sent every live vertex once,
			// and the peer loads the same ledger from what it received through the wire mapping
			{
				hc, _ := cache.New(100, 16)
				fl, _ := cache.NewFlash()
				g := gossip.VerifNewGossiper(nopLog{}, 300*time.Millisecond, src.w, w.ver, src.ab, hc, fl, pipe.New(10, 10), "serving")
				st := &slowStream{delay: 600 * time.Microsecond}
				herr := g.Server().LoadDag(&emptypb.Empty{}, st)
				sinfo := map[string]interface{}{"section": "sync", "shape": "served-to-slow-peer"}
				live := src.ab.VerifSnapshot().Vertices
				seen := map[[32]byte]int{}
				wellFormed := true
				for _, pv := range st.got {
					if pv == nil || len(pv.Hash) != 32 {
						wellFormed = false
						continue
					}
					seen[[32]byte(pv.Hash)]++
				}
				missing := 0
				for _, v := range live {
					if seen[v.Hash] != 1 {
						missing++
					}
				}
				c.Rep.Evals++
				c.Distinct("served-to-slow-peer")
				if herr == nil && (missing > 0 || !wellFormed) {
					c.Violate("C14", "slow-peer-gets-partial-stream-reported-complete", fmt.Sprintf("the LoadDag handler returned nil to a peer taking 0.6 ms per vertex after %d of %d live vertices (%d missing or repeated): the joining node sees a clean end of stream", len(st.got), len(live), missing), sinfo)
				}
				if herr == nil && missing == 0 && wellFormed {
					var vs []*accountant.Vertex
					for _, pv := range st.got {
						v := gossip.VerifMapProtoToVertex(pv)
						vs = append(vs, &v)
					}
					dst := w.NewNode()
					lerr := w.Load(dst, vs)
					if lerr != nil || !dst.ab.DagLoaded() {
						c.Violate("C14", "valid-stream-not-loaded:served", fmt.Sprintf("the ledger served by the gossip handler was not loaded by the joining node: %v", errTag(lerr)), sinfo)
					} else {
						w.compareLedgers(src, dst, sinfo, "served-to-slow-peer")
					}
				}
			}
			if err := w.Truncate(src); err == nil {
				vs := w.Stream(src)
				dst := w.NewNode()
				err := w.Load(dst, vs)
				c.Distinct("truncated-peer")
				if err != nil || !dst.ab.DagLoaded() {
					c.Violate("C14", "truncated-peer-cannot-be-synced", fmt.Sprintf("LoadDag from a peer that has truncated its DAG: %s (the cut vertex' declared parents are not streamed, checkpointed funds are never transmitted)", errTag(err)), info)
				} else {
					w.compareLedgers(src, dst, info, "truncated-peer")
				}
			}
			w.Close()
		}
		c.Sample(map[string]interface{}{"shape": "braid", "order": "shuffled", "ops": "STREAM src; LOAD dst; BAL*; PROP third x5; ADD src/dst each"})
		return nil
	}
}

// slowStream is the server side of a LoadDag call whose peer (or link) takes `delay` per vertex.
type slowStream struct {
	grpc.ServerStream
	delay time.Duration
	got   []*pb.Vertex
}

func (s *slowStream) Send(v *pb.Vertex) error {
	time.Sleep(s.delay)
	s.got = append(s.got, v)
	return nil
}
func (s *slowStream) Context() context.Context { return context.Background() }

func buildChainQuiet(c *Ctx, depth int) (*World, *Node) {
	w := NewWorld(c)
	n := w.NewNode()
	for i := 0; i < 3; i++ {
		w.NewWallet()
	}
	w.Genesis(n, w.wallets[0].Address(), spice.Melange{Currency: 100000})
	w.quiet = true
	for i := 0; i < depth; i++ {
		t := w.NewTrx(w.wallets[0], w.wallets[1+i%2].Address(), spice.Melange{Currency: 1}, nil)
		if _, err := w.Propose(n, &t); err != nil {
			panic(err)
		}
	}
	w.quiet = false
	return w, n
}
