package main

// Section "wedge" (C08): every public ledger operation is cancelled after 0..n visited ancestors with a
// counting context, in a fast and a slow variant (slow = the context takes 2 ms to report Done, so the
// walker goroutine is already committed to its next send when the consumer decides to leave); after each,
// a probe proposal must complete within a deadline. Plus: validation-error exits, a slow DAG-stream
// consumer racing with writers, truncation triggered on a short DAG by an inflated weight.

import (
	"sync"
	"context"
	"fmt"
	"sync/atomic"
	"time"

	"github.com/bartossh/Computantis/src/accountant"
	"github.com/bartossh/Computantis/src/spice"
	"github.com/bartossh/Computantis/src/transaction"
)

// countCtx reports Done after `after` calls of Done().
type countCtx struct {
	context.Context
	calls  atomic.Int64
	after  int64
	slow   bool
	closed chan struct{}
	open   chan struct{}
}

func newCountCtx(after int, slow bool) *countCtx {
	c := &countCtx{Context: context.Background(), after: int64(after), slow: slow, closed: make(chan struct{}), open: make(chan struct{})}
	close(c.closed)
	return c
}

func (c *countCtx) Done() <-chan struct{} {
	if c.calls.Add(1) > c.after {
		if c.slow {
			time.Sleep(2 * time.Millisecond)
		}
		return c.closed
	}
	return c.open
}

func (c *countCtx) Err() error {
	if c.calls.Load() > c.after {
		return context.Canceled
	}
	return nil
}

// withDeadline runs f in a goroutine; returns "ok", "timeout" or "panic: ...".
func withDeadline(d time.Duration, f func()) string {
	done := make(chan string, 1)
	go func() {
		defer func() {
			if r := recover(); r != nil {
				done <- fmt.Sprint("panic: ", r)
			}
		}()
		f()
		done <- "ok"
	}()
	select {
	case r := <-done:
		return r
	case <-time.After(d):
		return "timeout"
	}
}

type wedgeWorld struct {
	w    *World
	n    *Node
	a, b *walletT
}
type walletT = struct{ addr string }

// buildChain makes a fresh node with genesis -> wallets[0] and `depth` further vertices.
func buildChain(c *Ctx, depth int, supply spice.Melange) (*World, *Node) {
	w := NewWorld(c)
	n := w.NewNode()
	w.NewWallet()
	w.NewWallet()
	w.Genesis(n, w.wallets[0].Address(), supply)
	for i := 0; i < depth; i++ {
		var t transaction.Transaction
		if i%2 == 0 {
			t = w.NewTrx(w.wallets[0], w.wallets[1].Address(), spice.Melange{SupplementaryCurrency: 1}, nil)
		} else {
			t = w.NewTrx(w.wallets[1], w.wallets[0].Address(), spice.Melange{}, []byte("x"))
		}
		if _, err := w.Propose(n, &t); err != nil {
			panic(err)
		}
	}
	return w, n
}

func (w *World) probe(n *Node, what string, info map[string]interface{}) bool {
	t := w.NewTrx(w.wallets[1], w.wallets[0].Address(), spice.Melange{}, []byte("probe"))
	r := withDeadline(3*time.Second, func() { n.ab.CreateLeaf(context.Background(), &t) })
	w.c.Rep.Evals++
	w.c.Count("probe." + r[:2])
	if r != "ok" {
		key := "wedge-after-" + what
		if r != "timeout" {
			key = "panic-after-" + what
		}
		w.c.Violate("C08", key, fmt.Sprintf("after %s the next proposal did not complete: %s", what, r), info)
		return false
	}
	return true
}

func init() {
	sections["wedge"] = func(c *Ctx) error {
		c.Rep.Rule = "operation x cancellation point (0..depth+1 visited ancestors) x {fast, slow} counting context, each on a fresh ledger, followed by a probe proposal with a 3 s deadline; plus validation-error exit, slow stream consumer vs writers, truncate trigger on a short DAG; non-trivial = distinct (operation, cancellation point, variant)"
		depth := 5
		if c.Tier == "thorough" {
			depth = 9
		}
		ops := []string{"balance", "history", "propose", "add", "stream", "truncate"}
		for _, op := range ops {
			for after := -1; after <= depth+1; after++ {
				for _, slow := range []bool{false, true} {
					if after < 0 && slow {
						continue
					}
					w, n := buildChain(c, depth, spice.Melange{Currency: 100})
					info := map[string]interface{}{"section": "wedge", "op": op, "cancel_after": after, "slow": slow, "depth": depth}
					var ctx context.Context = newCountCtx(after, slow)
					if after < 0 {
						// the caller was gone before the call: an ordinary context, cancelled already (Err() set, Done() closed)
						rctx, cancel := context.WithCancel(context.Background())
						cancel()
						ctx = rctx
					}
					c.Mark(info)
					var r string
					switch op {
					case "balance":
						r = withDeadline(3*time.Second, func() { n.ab.CalculateBalance(ctx, w.wallets[0].Address()) })
					case "history":
						r = withDeadline(3*time.Second, func() { n.ab.ReadDAGTransactionsByAddress(ctx, w.wallets[0].Address()) })
					case "propose":
						t := w.NewTrx(w.wallets[0], w.wallets[1].Address(), spice.Melange{SupplementaryCurrency: 1}, nil)
						r = withDeadline(3*time.Second, func() { n.ab.CreateLeaf(ctx, &t) })
					case "add":
						// a vertex sealed by another wallet on the current tip: AddLeaf validates the tip
						s := n.ab.VerifSnapshot()
						t := w.NewTrx(w.wallets[0], w.wallets[1].Address(), spice.Melange{SupplementaryCurrency: 1}, nil)
						v, _ := accountant.NewVertex(t, s.Leaves[0], s.Leaves[0], 60, w.wallets[1])
						r = withDeadline(3*time.Second, func() { n.ab.AddLeaf(ctx, &v) })
					case "stream":
						r = withDeadline(3*time.Second, func() {
							for range n.ab.StreamDAG(ctx) {
							}
						})
					case "truncate":
						r = withDeadline(3*time.Second, func() { n.ab.VerifTruncate(ctx) })
					}
					c.Rep.Evals++
					c.Count("op." + op + "." + r[:2])
					c.Distinct(fmt.Sprint(op, after, slow))
					if r != "ok" {
						key := "operation-" + op + "-does-not-return"
						if r != "timeout" {
							key = "panic-in-" + op
						}
						c.Violate("C08", key, fmt.Sprintf("%s cancelled after %d ancestors (slow=%v): %s", op, after, slow, r), info)
					} else {
						time.Sleep(time.Millisecond)
						w.probe(n, fmt.Sprintf("cancelled-%s", op), info)
					}
					w.Close()
				}
			}
		}
		c.Sample(map[string]interface{}{"op": "balance", "cancel_after": 2, "slow": true, "probe": "CreateLeaf with 3 s deadline"})

		// validation-error exit: a wallet whose lifetime inflow exceeds 2^64 currency units makes pourFunds fail
		{
			big := spice.Melange{Currency: 1<<64 - 2}
			w, n := buildChain(c, 0, big)
			a, b := w.wallets[0], w.wallets[1]
			info := map[string]interface{}{"section": "wedge", "op": "inflow-overflow"}
			c.Mark(info)
			for i, step := range []struct {
				from, to int
			}{{0, 1}, {1, 0}, {0, 1}, {1, 0}} {
				iss, rec := a, b
				if step.from == 1 {
					iss, rec = b, a
				}
				t := w.NewTrx(iss, rec.Address(), big, nil)
				r := withDeadline(3*time.Second, func() { w.Propose(n, &t) })
				c.Rep.Evals++
				c.Distinct(fmt.Sprint("inflow-overflow", i))
				if r != "ok" {
					c.Violate("C08", "wedge-after-validation-error", fmt.Sprintf("proposal %d of the inflow-overflow schedule: %s", i, r), info)
					break
				}
			}
			r := withDeadline(3*time.Second, func() { w.Balance(n, a.Address()); w.Balance(n, b.Address()) })
			if r != "ok" {
				c.Violate("C08", "wedge-after-balance-error", "balance query after inflow overflow: "+r, info)
			} else {
				w.probe(n, "validation-error", info)
			}
			w.Close()
		}

		// slow stream consumer vs writers
		{
			rounds := 3
			if c.Tier == "thorough" {
				rounds = 15
			}
			for round := 0; round < rounds; round++ {
				w, n := buildChain(c, 120, spice.Melange{Currency: 100})
				info := map[string]interface{}{"section": "wedge", "op": "stream-vs-writers", "round": round}
				c.Mark(info)
				stop := make(chan struct{})
				wrote := atomic.Int64{}
				go func() {
					for {
						select {
						case <-stop:
							return
						default:
						}
						t := w.NewTrx(w.wallets[1], w.wallets[0].Address(), spice.Melange{}, []byte("w"))
						n.ab.CreateLeaf(context.Background(), &t)
						wrote.Add(1)
					}
				}()
				r := withDeadline(10*time.Second, func() {
					for k := 0; k < 5; k++ {
						i := 0
						for range n.ab.StreamDAG(context.Background()) {
							i++
							if i%10 == 0 {
								time.Sleep(200 * time.Microsecond)
							}
						}
					}
				})
				close(stop)
				c.Rep.Evals++
				c.Count("stream-vs-writers." + r[:2])
				c.Distinct(fmt.Sprint("stream-vs-writers", round))
				if r != "ok" {
					c.Violate("C08", "stream-deadlocks-with-writers", fmt.Sprintf("StreamDAG with concurrent proposals (%d written): %s", wrote.Load(), r), info)
					w.Close()
					break
				}
				time.Sleep(5 * time.Millisecond)
				w.probe(n, "stream-vs-writers", info)
				w.Close()
			}
		}

		// balance / history readers (ancestor walks) against writers: every reader and writer call must return
		{
			rounds := 3
			if c.Tier == "thorough" {
				rounds = 15
			}
			for round := 0; round < rounds; round++ {
				w, n := buildChain(c, 60, spice.Melange{Currency: 100})
				info := map[string]interface{}{"section": "wedge", "op": "readers-vs-writers", "round": round}
				c.Mark(info)
				stop := make(chan struct{})
				var wrote, read atomic.Int64
				var wg sync.WaitGroup
				for k := 0; k < 2; k++ {
					wg.Add(1)
					go func(k int) {
						defer wg.Done()
						for {
							select {
							case <-stop:
								return
							default:
							}
							t := w.NewTrx(w.wallets[1], w.wallets[0].Address(), spice.Melange{}, []byte{byte(k), 'w'})
							n.ab.CreateLeaf(context.Background(), &t)
							wrote.Add(1)
						}
					}(k)
				}
				for k := 0; k < 4; k++ {
					wg.Add(1)
					go func(k int) {
						defer wg.Done()
						for {
							select {
							case <-stop:
								return
							default:
							}
							if k%2 == 0 {
								n.ab.CalculateBalance(context.Background(), w.wallets[k/2].Address())
							} else {
								n.ab.ReadDAGTransactionsByAddress(context.Background(), w.wallets[k/2].Address())
							}
							read.Add(1)
						}
					}(k)
				}
				dur := 700 * time.Millisecond
				r := withDeadline(dur+15*time.Second, func() {
					time.Sleep(dur)
					close(stop)
					wg.Wait()
				})
				c.Rep.Evals++
				c.Count("readers-vs-writers." + r[:2])
				c.Distinct(fmt.Sprint("readers-vs-writers", round))
				c.Rep.Extra["readers_vs_writers_reads"] = read.Load()
				c.Rep.Extra["readers_vs_writers_writes"] = wrote.Load()
				if r != "ok" {
					c.Violate("C08", "readers-deadlock-with-writers", fmt.Sprintf("balance / history reads concurrent with proposals (%d reads, %d writes done): some call never returned: %s", read.Load(), wrote.Load(), r), info)
					return nil // the node is wedged: nothing more can be learnt from this process
				}
				w.probe(n, "readers-vs-writers", info)
				w.Close()
			}
		}

		// several tips with shared history: the walk of a later tip meets ancestors already streamed
		{
			rounds := 4
			if c.Tier == "thorough" {
				rounds = 20
			}
			for round := 0; round < rounds; round++ {
				w, n := buildChain(c, 6+round%5, spice.Melange{Currency: 100})
				info := map[string]interface{}{"section": "wedge", "op": "stream-several-tips", "round": round}
				c.Mark(info)
				snap := n.ab.VerifSnapshot()
				sealer := w.NewWallet()
				// side tips sealed by a wallet acting as a node, hanging off vertices that already have children
				isLeaf := map[[32]byte]bool{}
				for _, l := range snap.Leaves {
					isLeaf[l] = true
				}
				var inner []accountant.Vertex
				for _, v := range snap.Vertices {
					if !isLeaf[v.Hash] {
						inner = append(inner, v)
					}
				}
				for k := 0; k < 2+round%2 && k+1 < len(inner); k++ {
					a, b := inner[c.Rnd.Intn(len(inner))], inner[c.Rnd.Intn(len(inner))]
					wt := a.Weight
					if b.Weight > wt {
						wt = b.Weight
					}
					t := w.NewTrx(w.wallets[1], w.wallets[0].Address(), spice.Melange{}, []byte{byte(k), byte(round)})
					v, _ := accountant.NewVertex(t, a.Hash, b.Hash, wt+1, sealer)
					n.ab.AddLeaf(context.Background(), &v)
				}
				tips := len(n.ab.VerifSnapshot().Leaves)
				r := withDeadline(5*time.Second, func() {
					for k := 0; k < 3; k++ {
						for range n.ab.StreamDAG(context.Background()) {
						}
					}
				})
				c.Rep.Evals++
				c.Distinct(fmt.Sprintf("stream-several-tips/%d", tips))
				if r != "ok" {
					c.Violate("C08", "stream-of-several-tips-hangs", fmt.Sprintf("StreamDAG of a DAG with %d tips: %s", tips, r), info)
					w.Close()
					break
				}
				time.Sleep(2 * time.Millisecond)
				ok := w.probe(n, "stream-several-tips", info)
				w.Close()
				if !ok {
					break
				}
			}
		}

		// a truncation becomes due THROUGH THE REAL SIGNAL PATH (a vertex from a peer that is far ahead passes
		// the truncation mark; the background loop picks the signal up and wants the ledger lock) while several
		// writers are queued on the ledger lock: all of them, and the loop, must get through
		{
			w, n := buildChain(c, 8, spice.Melange{Currency: 1000})
			info := map[string]interface{}{"section": "wedge", "op": "truncation-due-with-queued-writers"}
			c.Mark(info)
			sealer := w.wallets[0]
			okAll := true
			for round := 0; okAll && round < 4; round++ {
				snap := n.ab.VerifSnapshot()
				if len(snap.Leaves) == 0 {
					break
				}
				ht := w.NewTrx(w.wallets[1], w.wallets[0].Address(), spice.Melange{}, []byte{byte(round), 'a'})
				ahead, _ := accountant.NewVertex(ht, snap.Leaves[0], snap.Leaves[0], snap.NextTruncate+uint64(5000*(round+1)), sealer)
				r := withDeadline(15*time.Second, func() {
					var wg sync.WaitGroup
					n.ab.VerifHoldLedger(func() {
						wg.Add(1)
						go func() { defer wg.Done(); cp := ahead; n.ab.AddLeaf(context.Background(), &cp) }()
						time.Sleep(5 * time.Millisecond)
						for k := 0; k < 3; k++ {
							wg.Add(1)
							go func(k int) {
								defer wg.Done()
								t := w.NewTrx(w.wallets[1], w.wallets[0].Address(), spice.Melange{}, []byte{byte(round), byte(k), 'q'})
								n.ab.CreateLeaf(context.Background(), &t)
							}(k)
						}
						time.Sleep(30 * time.Millisecond)
					})
					wg.Wait()
					n.ab.CalculateBalance(context.Background(), w.wallets[0].Address())
				})
				c.Rep.Evals++
				c.Count("truncation-due-with-queued-writers." + r[:2])
				if r != "ok" {
					c.Violate("C08", "wedge-truncation-due-with-queued-writers", fmt.Sprintf("a vertex past the truncation mark and three proposals queued on the ledger lock (round %d): %s", round, r), info)
					return nil
				}
				okAll = w.probe(n, "truncation-due-with-queued-writers", info)
			}
			c.Distinct("truncation-due-with-queued-writers")
			w.Close()
		}
		// an orphan whose parent never arrives is retried until it is given up (an error path of the buffer);
		// the next orphan, its retries and ordinary proposals must still go through
		{
			w, n := buildChain(c, 6, spice.Melange{Currency: 100})
			info := map[string]interface{}{"section": "wedge", "op": "orphan-given-up"}
			c.Mark(info)
			sealer := w.wallets[0]
			mkOrphan := func(tag byte) accountant.Vertex {
				t := w.NewTrx(w.wallets[1], w.wallets[0].Address(), spice.Melange{}, []byte{tag, 'o'})
				v, _ := accountant.NewVertex(t, [32]byte{tag, 1, 2, 3}, [32]byte{tag, 1, 2, 3}, 9, sealer)
				return v
			}
			o1 := mkOrphan(1)
			r := withDeadline(20*time.Second, func() {
				n.ab.AddLeaf(context.Background(), &o1)
				for i := 0; i < 40; i++ { // more than the 25 retries an orphan gets
					if _, had, _ := n.ab.VerifRetryParked(context.Background()); !had {
						break
					}
				}
				o2 := mkOrphan(2)
				n.ab.AddLeaf(context.Background(), &o2)
				n.ab.VerifRetryParked(context.Background())
			})
			c.Rep.Evals++
			c.Count("orphan-given-up." + r[:2])
			c.Distinct("orphan-given-up")
			if r != "ok" {
				c.Violate("C08", "wedge-after-orphan-given-up", "an orphan was retried until the buffer gave it up, then a second orphan was delivered: "+r, info)
				return nil
			}
			w.probe(n, "orphan-given-up", info)
			w.Close()
		}
		// a real truncation (the "cut found" early exit of the first walk, then the persisting and deleting
		// walks) on a chain longer than the truncation distance: it must return and leave the ledger usable
		{
			w := NewWorld(c)
			n := w.NewNode()
			w.NewWallet()
			w.NewWallet()
			w.Genesis(n, w.wallets[0].Address(), spice.Melange{Currency: 100000})
			w.quiet = true
			for i := 0; i < 1060; i++ {
				var t transaction.Transaction
				if i%2 == 0 {
					t = w.NewTrx(w.wallets[0], w.wallets[1].Address(), spice.Melange{SupplementaryCurrency: 1}, nil)
				} else {
					t = w.NewTrx(w.wallets[1], w.wallets[0].Address(), spice.Melange{}, []byte("x"))
				}
				w.Propose(n, &t)
			}
			info := map[string]interface{}{"section": "wedge", "op": "truncate-long-chain"}
			c.Mark(info)
			var terr error
			r := withDeadline(30*time.Second, func() { terr = n.ab.VerifTruncate(context.Background()) })
			c.Rep.Evals++
			c.Count("truncate-long-chain." + r[:2])
			c.Distinct("truncate-long-chain")
			if r != "ok" {
				c.Violate("C08", "truncate-never-returns", fmt.Sprintf("truncation of a chain of 1060 vertices: %s (err %v)", r, terr), info)
				return nil // the ledger lock is held by the stuck truncation: nothing more to learn in this process
			}
			// history reads that are served from storage now (the vertices left the live DAG), then writers
			post := n.ab.VerifSnapshot()
			r = withDeadline(5*time.Second, func() {
				for i := 0; i < len(post.CpVertices) && i < 5; i++ {
					cv := post.CpVertices[i]
					n.ab.ReadTransactionByHash(context.Background(), cv.Transaction.Hash)
					n.ab.ReadVertex(context.Background(), cv.Hash)
				}
				if len(post.Vertices) > 0 {
					n.ab.ReadTransactionByHash(context.Background(), post.Vertices[0].Transaction.Hash)
				}
			})
			c.Rep.Extra["truncate_long_chain_stored"] = len(post.CpVertices)
			if r != "ok" {
				c.Violate("C08", "history-read-after-truncation-hangs", "ReadTransactionByHash / ReadVertex of truncated history: "+r, info)
				return nil
			}
			okAll := true
			for i := 0; okAll && i < 5; i++ {
				okAll = w.probe(n, "truncate-long-chain", info)
			}
			if okAll {
				r := withDeadline(5*time.Second, func() {
					n.ab.CalculateBalance(context.Background(), w.wallets[0].Address())
					for range n.ab.StreamDAG(context.Background()) {
					}
				})
				if r != "ok" {
					c.Violate("C08", "reads-hang-after-truncation", "balance / stream after a truncation: "+r, info)
					okAll = false
				}
			}
			// a SECOND truncation: the storage already holds checkpointed vertices and funds of the first one
			if okAll {
				for i := 0; i < 70; i++ {
					t := w.NewTrx(w.wallets[0], w.wallets[1].Address(), spice.Melange{SupplementaryCurrency: 1}, nil)
					if withDeadline(3*time.Second, func() { n.ab.CreateLeaf(context.Background(), &t) }) != "ok" {
						okAll = false
						break
					}
				}
				before := len(n.ab.VerifSnapshot().CpVertices)
				r := withDeadline(30*time.Second, func() { terr = n.ab.VerifTruncate(context.Background()) })
				c.Rep.Evals++
				c.Distinct("second-truncation")
				if r != "ok" {
					c.Violate("C08", "second-truncation-never-returns", fmt.Sprintf("a second truncation (storage already holds %d checkpointed vertices): %s", before, r), info)
					return nil
				}
				c.Rep.Extra["second_truncation_stored"] = len(n.ab.VerifSnapshot().CpVertices) - before
				for i := 0; okAll && i < 3; i++ {
					okAll = w.probe(n, "second-truncation", info)
				}
			}
			w.Close()
		}
		// truncate trigger on a short DAG (inflated weight offered by gossip), then > 50 proposals
		{
			w, n := buildChain(c, 3, spice.Melange{Currency: 100})
			info := map[string]interface{}{"section": "wedge", "op": "inflated-weight-truncate"}
			c.Mark(info)
			s := n.ab.VerifSnapshot()
			t := w.NewTrx(w.wallets[1], w.wallets[0].Address(), spice.Melange{}, []byte("heavy"))
			v, _ := accountant.NewVertex(t, s.Leaves[0], s.Leaves[0], 1_000_000, w.wallets[1])
			r := withDeadline(3*time.Second, func() { n.ab.AddLeaf(context.Background(), &v) })
			okAll := r == "ok"
			for i := 0; okAll && i < 60; i++ {
				tt := w.NewTrx(w.wallets[1], w.wallets[0].Address(), spice.Melange{}, []byte("after"))
				r = withDeadline(3*time.Second, func() { n.ab.CreateLeaf(context.Background(), &tt) })
				c.Rep.Evals++
				if r != "ok" {
					okAll = false
					c.Violate("C08", "truncate-failure-blocks-proposals", fmt.Sprintf("proposal %d after a truncate trigger on a short DAG: %s", i, r), info)
				}
			}
			c.Distinct("inflated-weight-truncate")
			w.Close()
		}
		return nil
	}
}
