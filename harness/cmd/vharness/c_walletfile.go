package main

// Section "walletfile" (C20): real SaveWallet/ReadWallet (AES-GCM + GOB) and SaveToPem/ReadFromPem in a
// temp dir: round trips, every truncation length 0..len, every single-byte corruption (3 bit patterns),
// wrong keys of both sizes, invalid key lengths; under recover(). Trace lines
//   WF <keyOk> <lenOk> <unmodified> <sameKey> <outcome>      outcome in same|different|err|panic

import (
	"sync"
	"bytes"
	"crypto/rand"
	"encoding/hex"
	"fmt"
	"os"
	"path/filepath"

	"github.com/bartossh/Computantis/src/aeswrapper"
	"github.com/bartossh/Computantis/src/fileoperations"
	"github.com/bartossh/Computantis/src/wallet"
)

func init() {
	sections["walletfile"] = func(c *Ctx) error {
		c.Rep.Rule = "wallets x key sizes {16,32}: round trip, all truncation lengths, every byte x every single-bit flip and ^0xff, wrong keys of both sizes (random, one bit off, zero-extended / doubled / halves of the right key, keys with a zero half), invalid key lengths, empty file; PEM round trip; non-trivial = distinct (case kind, position)"
		dir, err := os.MkdirTemp("", "vwf")
		if err != nil {
			return err
		}
		defer os.RemoveAll(dir)
		nw := 2
		if c.Tier == "thorough" {
			nw = 8
		}
		read := func(path, keyHex string) (outcome string, w wallet.Wallet) {
			defer func() {
				if r := recover(); r != nil {
					outcome = fmt.Sprint("panic: ", r)
				}
			}()
			h := fileoperations.New(fileoperations.Config{WalletPath: path, WalletPasswd: keyHex}, aeswrapper.New())
			w, err := h.ReadWallet()
			if err != nil {
				return "err", w
			}
			return "ok", w
		}
		for wi := 0; wi < nw; wi++ {
			for _, ks := range []int{16, 32} {
				wl, _ := wallet.New()
				key := make([]byte, ks)
				rand.Read(key)
				if ks == 32 && wi%2 == 1 { // a key whose second half is zero: its first half is a valid 16-byte key
					for i := 16; i < 32; i++ {
						key[i] = 0
					}
				}
				keyHex := hex.EncodeToString(key)
				path := filepath.Join(dir, fmt.Sprintf("w%d_%d", wi, ks))
				h := fileoperations.New(fileoperations.Config{WalletPath: path, WalletPasswd: keyHex, WalletPemPath: path + ".pem"}, aeswrapper.New())
				if err := h.SaveWallet(&wl); err != nil {
					return err
				}
				file, _ := os.ReadFile(path)
				judge := func(kind string, pos int, keyOk, lenOk, unmodified, sameKey bool, out string, got wallet.Wallet) {
					cls := out
					if out == "ok" {
						if bytes.Equal(got.Private, wl.Private) && bytes.Equal(got.Public, wl.Public) && got.Address() == wl.Address() {
							cls = "same"
						} else {
							cls = "different"
						}
					}
					if len(cls) > 5 && cls[:5] == "panic" {
						cls = "panic"
					}
					c.Line("WF %d %d %d %d %s", b2i(keyOk), b2i(lenOk), b2i(unmodified), b2i(sameKey), cls)
					c.Rep.Evals++
					c.Count(kind + "." + cls)
					c.Distinct(fmt.Sprint(kind, pos, ks))
					info := map[string]interface{}{"section": "walletfile", "kind": kind, "pos": pos, "keysize": ks, "file_len": len(file)}
					want := "err"
					if unmodified && sameKey && keyOk {
						want = "same"
					}
					if cls != want {
						key := "wallet-file-" + kind + "-gives-" + cls
						c.Violate("C20", key, fmt.Sprintf("%s at %d (file of %d bytes, %d-byte key): %s, expected %s", kind, pos, len(file), ks, out, want), info)
					}
				}
				out, got := read(path, keyHex)
				judge("roundtrip", 0, true, true, true, true, out, got)
				// truncations
				tp := filepath.Join(dir, "t")
				for n := 0; n < len(file); n++ {
					os.WriteFile(tp, file[:n], 0o644)
					out, got := read(tp, keyHex)
					judge("truncate", n, true, n >= 12, false, true, out, got)
				}
				// single byte corruptions
				for i := 0; i < len(file); i++ {
					for _, m := range []byte{0x01, 0x02, 0x04, 0x08, 0x10, 0x20, 0x40, 0x80, 0xff} { // every single bit (0x20: the case bit of a text encoding), and all of them
						cp := append([]byte{}, file...)
						cp[i] ^= m
						os.WriteFile(tp, cp, 0o644)
						out, got := read(tp, keyHex)
						judge("corrupt", i, true, true, false, true, out, got)
					}
				}
				// extension
				os.WriteFile(tp, append(append([]byte{}, file...), 0), 0o644)
				out, got = read(tp, keyHex)
				judge("extend", len(file), true, true, false, true, out, got)
				// wrong keys
				for _, ks2 := range []int{16, 32} {
					for r := 0; r < 8; r++ {
						k2 := make([]byte, ks2)
						rand.Read(k2)
						if r == 0 && ks2 == ks { // one-bit difference
							copy(k2, key)
							k2[0] ^= 1
						}
						out, got := read(path, hex.EncodeToString(k2))
						judge("wrongkey", r, true, true, true, false, out, got)
					}
				}
				// related keys of the other allowed length: zero-extended, doubled, halves. Each tried twice (a
				// second use in the same process must not behave differently from the first) and followed by a
				// read with the right key.
				related := [][]byte{}
				if ks == 16 {
					related = append(related, append(append([]byte{}, key...), make([]byte, 16)...), append(append([]byte{}, key...), key...),
						append(make([]byte, 16), key...))
				} else {
					related = append(related, append([]byte{}, key[:16]...), append([]byte{}, key[16:]...))
				}
				for ri, k2 := range related {
					for rep := 0; rep < 2; rep++ {
						out, got := read(path, hex.EncodeToString(k2))
						judge("relatedkey", ri, true, true, true, false, out, got)
					}
					out, got := read(path, keyHex)
					judge("rightkey-after-related", ri, true, true, true, true, out, got)
				}
				for _, badLen := range []int{0, 1, 15, 17, 24, 31, 33, 64} {
					out, got := read(path, hex.EncodeToString(make([]byte, badLen)))
					judge("badkeylen", badLen, false, true, true, false, out, got)
				}
				// saving over whatever the path held before (longer, shorter, another sealed wallet, a PEM
				// export): the saved wallet must read back whatever the history of the file
				for oi, old := range [][]byte{make([]byte, 4*len(file)+37), make([]byte, len(file)+1), file[:len(file)/2], {}, append(append([]byte{}, file...), file...)} {
					op := filepath.Join(dir, fmt.Sprintf("o%d", oi))
					rand.Read(old)
					os.WriteFile(op, old, 0o644)
					wl2, _ := wallet.New()
					ho := fileoperations.New(fileoperations.Config{WalletPath: op, WalletPasswd: keyHex, WalletPemPath: op}, aeswrapper.New())
					if err := ho.SaveWallet(&wl2); err != nil {
						return err
					}
					keep := wl
					wl = wl2
					out, got := read(op, keyHex)
					judge("overwrite", len(old), true, true, true, true, out, got)
					wl = keep
					// and the PEM writer over the sealed file just written
					os.WriteFile(op, old, 0o644)
					os.WriteFile(op+".pub", old, 0o644)
					if err := ho.SaveToPem(&wl2); err == nil {
						pw, err := ho.ReadFromPem()
						c.Rep.Evals++
						c.Count("pem.overwrite")
						if err != nil || !bytes.Equal(pw.Private, wl2.Private) || !bytes.Equal(pw.Public, wl2.Public) {
							c.Violate("C20", "pem-overwrite-differs", fmt.Sprintf("PEM saved over a %d-byte file does not read back: err=%v", len(old), err), nil)
						}
					}
				}
				// a path that was saved to twice (an older wallet was there before), then the current file is
				// damaged: still an error, never the older wallet (whatever backups the saver may keep)
				{
					hp := filepath.Join(dir, fmt.Sprintf("hist%d_%d", wi, ks))
					hh := fileoperations.New(fileoperations.Config{WalletPath: hp, WalletPasswd: keyHex}, aeswrapper.New())
					older, _ := wallet.New()
					hh.SaveWallet(&older)
					if err := hh.SaveWallet(&wl); err == nil {
						cur, _ := os.ReadFile(hp)
						for _, n := range []int{0, 5, 12, len(cur) / 2, len(cur) - 1} {
							os.WriteFile(hp, cur[:n], 0o644)
							out, got := read(hp, keyHex)
							judge("history-truncate", n, true, n >= 12, false, true, out, got)
						}
						for _, i := range []int{0, 11, 12, len(cur) / 2, len(cur) - 1} {
							cp := append([]byte{}, cur...)
							cp[i] ^= 0x01
							os.WriteFile(hp, cp, 0o644)
							out, got := read(hp, keyHex)
							judge("history-corrupt", i, true, true, false, true, out, got)
						}
					}
				}
				// PEM round trip
				if err := h.SaveToPem(&wl); err != nil {
					return err
				}
				pw, err := h.ReadFromPem()
				c.Rep.Evals++
				c.Count("pem.roundtrip")
				if err != nil || !bytes.Equal(pw.Private, wl.Private) || !bytes.Equal(pw.Public, wl.Public) || pw.Address() != wl.Address() {
					c.Violate("C20", "pem-roundtrip-differs", fmt.Sprintf("PEM round trip: err=%v", err), nil)
				}
				// a SECOND wallet saved to the same PEM location: what reads back afterwards is that wallet if the save
				// reported success, else an error or one of the two wallets in full - never halves of both
				{
					wl2, _ := wallet.New()
					serr := h.SaveToPem(&wl2)
					pw2, rerr := h.ReadFromPem()
					c.Rep.Evals++
					c.Count("pem.second-save")
					is := func(a *wallet.Wallet, b *wallet.Wallet) bool {
						return bytes.Equal(a.Private, b.Private) && bytes.Equal(a.Public, b.Public) && a.Address() == b.Address()
					}
					switch {
					case serr == nil && (rerr != nil || !is(&pw2, &wl2)):
						c.Violate("C20", "pem-second-save-differs", fmt.Sprintf("a second wallet saved to the same PEM location (save ok) does not read back: err=%v", rerr), nil)
					case serr != nil && rerr == nil && !is(&pw2, &wl2) && !is(&pw2, &wl):
						c.Violate("C20", "pem-second-save-leaves-mixed-wallet", fmt.Sprintf("a second save to the same PEM location failed (%v); the location now reads back, without error, as a wallet that is neither of the two (private of one, public of the other)", serr), nil)
					}
				}
			}
		}
		// several wallets saved at the same time (two clients of one process): each file reads back as ITS wallet
		{
			rounds := 150
			if c.Tier == "thorough" {
				rounds = 1500
			}
			var wg sync.WaitGroup
			var mu sync.Mutex
			bad := ""
			for g := 0; g < 8; g++ {
				wg.Add(1)
				go func(g int) {
					defer wg.Done()
					key := make([]byte, 16+16*(g%2))
					rand.Read(key)
					path := filepath.Join(dir, fmt.Sprintf("conc%d", g))
					h := fileoperations.New(fileoperations.Config{WalletPath: path, WalletPasswd: hex.EncodeToString(key)}, aeswrapper.New())
					for r := 0; r < rounds; r++ {
						wl, _ := wallet.New()
						if err := h.SaveWallet(&wl); err != nil {
							continue
						}
						got, err := h.ReadWallet()
						if err != nil || !bytes.Equal(got.Private, wl.Private) || !bytes.Equal(got.Public, wl.Public) {
							mu.Lock()
							if bad == "" {
								bad = fmt.Sprintf("goroutine %d round %d: saved one wallet, the file reads back as another (err %v)", g, r, err)
							}
							mu.Unlock()
							return
						}
					}
				}(g)
			}
			wg.Wait()
			c.Rep.Evals += 8 * rounds
			c.Count("concurrent-saves")
			c.Distinct("concurrent-saves")
			if bad != "" {
				c.Violate("C20", "concurrent-saves-mix-wallets", bad, map[string]interface{}{"section": "walletfile", "kind": "concurrent-saves"})
			}
		}
		c.Sample(map[string]interface{}{"kind": "truncate", "pos": 5, "expected": "err"})
		c.Sample(map[string]interface{}{"kind": "corrupt", "pos": 40, "mask": "0x80", "expected": "err"})
		return nil
	}
}
