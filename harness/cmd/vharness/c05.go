package main

import (
	"fmt"
	"math/big"

	"github.com/bartossh/Computantis/src/spice"
)

// C05: spice arithmetic. Trace lines (all decimal):
//   S mc ms ac as rc rs err          (*Melange).Supply
//   T ac as fc fs tc ts f'c f's t'c t's err     spice.Transfer(amount, from, to)
//   N c s rc rs                      spice.New
// The direct oracle compares with math/big on canonical inputs.

const maxSupp = uint64(1000000000000000000)

var bigMax = new(big.Int).SetUint64(maxSupp)
var bigCap = new(big.Int).Mul(new(big.Int).Lsh(big.NewInt(1), 64), bigMax)

func bval(m spice.Melange) *big.Int {
	v := new(big.Int).SetUint64(m.Currency)
	v.Mul(v, bigMax)
	return v.Add(v, new(big.Int).SetUint64(m.SupplementaryCurrency))
}
func canon(m spice.Melange) bool { return m.SupplementaryCurrency < maxSupp }

func errName(err error) string {
	switch err {
	case nil:
		return "ok"
	case spice.ErrValueOverflow:
		return "overflow"
	case spice.ErrNoSufficientFounds:
		return "insufficient"
	}
	return "other"
}

func c05Supply(c *Ctx, m, a spice.Melange) {
	r := m
	err := r.Supply(a)
	c.Line("S %d %d %d %d %d %d %s", m.Currency, m.SupplementaryCurrency, a.Currency, a.SupplementaryCurrency, r.Currency, r.SupplementaryCurrency, errName(err))
	c.Rep.Evals++
	c.Count("supply." + errName(err))
	if canon(m) && canon(a) {
		sum := new(big.Int).Add(bval(m), bval(a))
		fits := sum.Cmp(bigCap) < 0
		rp := map[string]interface{}{"op": "supply", "m": []uint64{m.Currency, m.SupplementaryCurrency}, "a": []uint64{a.Currency, a.SupplementaryCurrency}}
		switch {
		case err == nil && (bval(r).Cmp(sum) != 0 || !canon(r)):
			key := "supply-inexact"
			if !fits {
				key = "supply-wraps-instead-of-overflow"
			}
			c.Violate("C05", key, fmt.Sprintf("Supply(%v,%v) = %v, nil; exact sum %v", m, a, r, sum), rp)
		case err != nil && r != m:
			c.Violate("C05", "supply-error-not-atomic", fmt.Sprintf("Supply(%v,%v) failed but receiver became %v", m, a, r), rp)
		case err != nil && fits:
			c.Violate("C05", "supply-spurious-error", fmt.Sprintf("Supply(%v,%v) = %v although sum %v fits", m, a, err, sum), rp)
		}
		if err == nil && (m.Currency != 0 || m.SupplementaryCurrency != 0) && (a.Currency != 0 || a.SupplementaryCurrency != 0) {
			c.Distinct(fmt.Sprint("S", m, a))
		}
	} else {
		c.Count("supply.noncanonical-input")
	}
}

func c05Transfer(c *Ctx, amt, from, to spice.Melange) {
	f, t := from, to
	err := spice.Transfer(amt, &f, &t)
	c.Line("T %d %d %d %d %d %d %d %d %d %d %s", amt.Currency, amt.SupplementaryCurrency, from.Currency, from.SupplementaryCurrency,
		to.Currency, to.SupplementaryCurrency, f.Currency, f.SupplementaryCurrency, t.Currency, t.SupplementaryCurrency, errName(err))
	c.Rep.Evals++
	c.Count("transfer." + errName(err))
	if canon(amt) && canon(from) && canon(to) {
		rp := map[string]interface{}{"op": "transfer", "amt": []uint64{amt.Currency, amt.SupplementaryCurrency},
			"from": []uint64{from.Currency, from.SupplementaryCurrency}, "to": []uint64{to.Currency, to.SupplementaryCurrency}}
		enough := bval(amt).Cmp(bval(from)) <= 0
		sum := new(big.Int).Add(bval(to), bval(amt))
		fits := sum.Cmp(bigCap) < 0
		switch {
		case err == nil:
			okFrom := new(big.Int).Add(bval(f), bval(amt)).Cmp(bval(from)) == 0
			okTo := bval(t).Cmp(sum) == 0
			if !okFrom || !okTo || !canon(f) || !canon(t) {
				key := "transfer-inexact"
				if !enough {
					key = "transfer-overdraw-accepted"
				} else if !fits {
					key = "transfer-wraps-instead-of-overflow"
				}
				c.Violate("C05", key, fmt.Sprintf("Transfer(%v, from %v, to %v) = from %v to %v, nil", amt, from, to, f, t), rp)
			}
		case f != from || t != to:
			c.Violate("C05", "transfer-error-not-atomic", fmt.Sprintf("Transfer(%v, from %v, to %v) = %v but sides became %v %v", amt, from, to, err, f, t), rp)
		case enough && fits:
			c.Violate("C05", "transfer-spurious-error", fmt.Sprintf("Transfer(%v, from %v, to %v) = %v although possible", amt, from, to, err), rp)
		case err == spice.ErrNoSufficientFounds && enough, err == spice.ErrValueOverflow && fits:
			c.Violate("C05", "transfer-wrong-error-kind", fmt.Sprintf("Transfer(%v, from %v, to %v) = %v", amt, from, to, err), rp)
		}
		if err == nil && !amt.Empty() {
			c.Distinct(fmt.Sprint("T", amt, from, to))
		}
	} else {
		c.Count("transfer.noncanonical-input")
	}
}

func c05New(c *Ctx, cu, su uint64) {
	r := spice.New(cu, su)
	c.Line("N %d %d %d %d", cu, su, r.Currency, r.SupplementaryCurrency)
	c.Rep.Evals++
	c.Count("new")
}

var c05Boundary = []uint64{0, 1, 2, maxSupp - 2, maxSupp - 1, maxSupp, maxSupp + 1, 1<<63 - 1, 1 << 63, 1<<63 + 1,
	(1<<64 - 1) - maxSupp - 1, (1<<64 - 1) - maxSupp, (1<<64 - 1) - maxSupp + 1, (1<<64 - 1) - maxSupp + 2, 1<<64 - 3, 1<<64 - 2, 1<<64 - 1}

var c05Small = []uint64{0, 1, maxSupp - 1, maxSupp, 1 << 63, 1<<64 - 1 - maxSupp, 1<<64 - 2, 1<<64 - 1}

func c05Rand(c *Ctx) uint64 {
	switch c.Rnd.Intn(4) {
	case 0:
		return c05Boundary[c.Rnd.Intn(len(c05Boundary))]
	case 1:
		return c.Rnd.Uint64() % maxSupp
	case 2:
		return c.Rnd.Uint64() % 1000
	}
	return c.Rnd.Uint64()
}

func init() {
	sections["c05"] = func(c *Ctx) error {
		c.Rep.Rule = "boundary product over the six words of Transfer / four of Supply plus seeded random words; non-trivial = distinct canonical inputs with a successful non-zero move"
		if c.Replay != "" {
			return c05Replay(c)
		}
		set := c05Small
		nrand := 200000
		if c.Tier == "thorough" {
			set = c05Boundary
			nrand = 2000000
		}
		// supply: full boundary product of 4 words (always the big set: 17^4 = 83521)
		for _, a := range c05Boundary {
			for _, b := range c05Boundary {
				for _, x := range c05Boundary {
					for _, y := range c05Boundary {
						c05Supply(c, spice.Melange{Currency: a, SupplementaryCurrency: b}, spice.Melange{Currency: x, SupplementaryCurrency: y})
					}
				}
			}
		}
		// transfer: product of 6 words
		for _, a := range set {
			for _, b := range set {
				for _, x := range set {
					for _, y := range set {
						for _, p := range set {
							for _, q := range set {
								c05Transfer(c, spice.Melange{Currency: a, SupplementaryCurrency: b}, spice.Melange{Currency: x, SupplementaryCurrency: y}, spice.Melange{Currency: p, SupplementaryCurrency: q})
							}
						}
					}
				}
			}
		}
		for _, a := range c05Boundary {
			for _, b := range c05Boundary {
				c05New(c, a, b)
			}
		}
		for i := 0; i < nrand; i++ {
			m := spice.Melange{Currency: c05Rand(c), SupplementaryCurrency: c05Rand(c)}
			a := spice.Melange{Currency: c05Rand(c), SupplementaryCurrency: c05Rand(c)}
			t := spice.Melange{Currency: c05Rand(c), SupplementaryCurrency: c05Rand(c)}
			if i%2 == 0 {
				// mostly-canonical stream
				m.SupplementaryCurrency %= maxSupp
				a.SupplementaryCurrency %= maxSupp
				t.SupplementaryCurrency %= maxSupp
			}
			if i%3 == 0 {
				c05Supply(c, m, a)
			} else {
				c05Transfer(c, a, m, t)
			}
			if i < 2 {
				c.Sample(map[string]interface{}{"amount": a, "from": m, "to": t})
			}
		}
		return nil
	}
}

func c05Replay(c *Ctx) error {
	var r struct {
		Op                string
		M, A, Amt, From, To []uint64
	}
	if err := readJSON(c.Replay, &r); err != nil {
		return err
	}
	mk := func(x []uint64) spice.Melange { return spice.Melange{Currency: x[0], SupplementaryCurrency: x[1]} }
	switch r.Op {
	case "supply":
		c05Supply(c, mk(r.M), mk(r.A))
	case "transfer":
		c05Transfer(c, mk(r.Amt), mk(r.From), mk(r.To))
	default:
		return fmt.Errorf("unknown op %q", r.Op)
	}
	return nil
}
