package main

// Section "codec" (C19): vertices / transactions / amounts over boundary values per field are pushed through
// the real storage+cache codec (vmihailenco encode -> shamaton decode) and the real wire mapping
// (mappers + proto.Marshal/Unmarshal). Trace lines carry the input fields, the real bytes and the real
// decoded fields; the Lean driver must produce the same bytes and the same decoded value.
//   MPM cur supp | hex | cur supp
//   MPT <trx fields> | hex | <trx fields>
//   MPV <vertex fields> | hex | <vertex fields>
//   WT <unixnano as uint64> | <unixnano as uint64 after the wire>
// Direct oracle: every signed field identical, signed byte strings identical, verification preserved.

import (
	"errors"
	"bytes"
	"encoding/hex"
	"fmt"
	"math"
	"strings"
	"time"

	"github.com/bartossh/Computantis/src/accountant"
	"github.com/bartossh/Computantis/src/gossip"
	pb "github.com/bartossh/Computantis/src/protobufcompiled"
	"github.com/bartossh/Computantis/src/spice"
	"github.com/bartossh/Computantis/src/transaction"
	"github.com/bartossh/Computantis/src/transformers"
	"google.golang.org/protobuf/proto"
)

func hx(b []byte) string {
	if b == nil {
		return "-"
	}
	if len(b) == 0 {
		return "e"
	}
	return hex.EncodeToString(b)
}
func hs(s string) string {
	if len(s) == 0 {
		return "e"
	}
	return hex.EncodeToString([]byte(s))
}

func trxTok(t *transaction.Transaction) string {
	return fmt.Sprintf("%d %d %s %s %s %s %s %s %s %d %d", uint64(t.CreatedAt.Unix()), t.CreatedAt.Nanosecond(), hs(t.IssuerAddress), hs(t.ReceiverAddress),
		hs(t.Subject), hx(t.Data), hx(t.IssuerSignature), hx(t.ReceiverSignature), hx(t.Hash[:]), t.Spice.Currency, t.Spice.SupplementaryCurrency)
}
func vrxTok(v *accountant.Vertex) string {
	return fmt.Sprintf("%s %d %d %s %s %s %s %s %d", hs(v.SignerPublicAddress), uint64(v.CreatedAt.Unix()), v.CreatedAt.Nanosecond(), hx(v.Signature),
		trxTok(&v.Transaction), hx(v.Hash[:]), hx(v.LeftParentHash[:]), hx(v.RightParentHash[:]), v.Weight)
}

func signedEqual(a, b *accountant.Vertex) bool {
	return bytes.Equal(a.Transaction.GetMessage(), b.Transaction.GetMessage()) && bytes.Equal(accountant.VerifVertexData(a), accountant.VerifVertexData(b)) &&
		a.Hash == b.Hash && a.Transaction.Hash == b.Transaction.Hash && bytes.Equal(a.Signature, b.Signature) &&
		bytes.Equal(a.Transaction.IssuerSignature, b.Transaction.IssuerSignature) && bytes.Equal(a.Transaction.ReceiverSignature, b.Transaction.ReceiverSignature) &&
		a.SignerPublicAddress == b.SignerPublicAddress && a.Weight == b.Weight && a.LeftParentHash == b.LeftParentHash && a.RightParentHash == b.RightParentHash
}

var lenSet = []int{0, 1, 31, 32, 33, 255, 256}
var bigLens = []int{65535, 65536}
var intSet = []uint64{0, 1, 127, 128, 255, 256, 65535, 65536, 1<<32 - 1, 1 << 32, 1<<63 - 1, 1 << 63, 1<<64 - 1}
var timeSet = []time.Time{time.Unix(0, 0), time.Unix(0, 1), time.Unix(1, 999999999), time.Unix(1<<32-1, 0), time.Unix(1<<32, 0), time.Unix(1<<32, 5),
	time.Unix(1<<34-1, 999999999), time.Unix(1<<34, 0), time.Unix(1<<34, 1), time.Unix(-1, 0), time.Unix(-1, 999999999), time.Unix(-5, 7),
	time.Unix(0, math.MaxInt64), time.Unix(0, math.MinInt64), time.Unix(0, math.MaxInt64).Add(time.Nanosecond), time.Unix(1<<40, 3)}

func fill(c *Ctx, n int, utf8ok bool) []byte {
	b := make([]byte, n)
	for i := range b {
		if utf8ok {
			b[i] = byte('a' + c.Rnd.Intn(26))
		} else {
			b[i] = byte(c.Rnd.Intn(256))
		}
	}
	return b
}

func init() {
	sections["codec"] = func(c *Ctx) error {
		c.Rep.Rule = "per-field boundary values (lengths 0,1,31..33,255,256 and once each 65535/65536; integers at 2^7..2^64 boundaries; timestamps at epoch, 2^32 s, 2^34 s, negative, int64-nanosecond limits and beyond), one field varied at a time around a base value plus seeded random combinations; nil vs empty slices; UTF-8 and non-UTF-8 text; non-trivial = distinct field-value combination"
		w := NewWorld(c)
		w.quiet = true
		wl := w.NewWallet()
		wl2 := w.NewWallet()
		n := w.NewNode()
		w.Genesis(n, wl.Address(), spice.Melange{Currency: 100})
		base := func() accountant.Vertex {
			t := w.NewTrx(wl, wl2.Address(), spice.Melange{Currency: 1, SupplementaryCurrency: 2}, []byte("d"))
			v, _ := accountant.NewVertex(t, [32]byte{1}, [32]byte{2}, 5, n.w)
			return v
		}
		var prevStored, firstRead, firstOrig *accountant.Vertex
		defer func() {
			// the very first value read from storage, after everything else was saved and read
			if firstRead != nil && !signedEqual(firstRead, firstOrig) {
				c.Violate("C19", "storage-read-changes-signed-field", "the first vertex read from storage changed while hundreds of others were saved and read", map[string]interface{}{"section": "codec", "case": "long-lived read result"})
			}
		}()
		check := func(v accountant.Vertex, what string) {
			c.Rep.Evals++
			c.Distinct(what)
			info := map[string]interface{}{"section": "codec", "case": what}
			// ---- storage / cache codec
			enc, err := accountant.VerifEncodeVertex(&v)
			if err != nil {
				c.Violate("C19", "vertex-encode-fails", what+": "+err.Error(), info)
				return
			}
			dec, err := accountant.VerifDecodeVertex(enc)
			if err != nil {
				c.Violate("C19", "vertex-decode-fails", what+": "+err.Error(), info)
				return
			}
			if len(enc) < 200000 {
				c.Line("MPV %s | %s | %s", vrxTok(&v), hex.EncodeToString(enc), vrxTok(&dec))
			}
			if !signedEqual(&v, &dec) {
				c.Violate("C19", "storage-codec-changes-signed-field", what+": a signed field differs after msgpack encode/decode", info)
			}
			// ---- the real storage (what truncate writes, what ReadVertex / ReadTransactionByHash read for
			// vertices that left the live DAG): save, read back, then read ANOTHER stored vertex and look at
			// the first result again - a value read from storage stays what it was
			if len(enc) < 200000 {
				if err := n.ab.VerifSaveVertexToStorage(&v); errors.Is(err, accountant.ErrVertexAlreadyExists) {
					c.Count("storage.same-hash-already-stored") // the case reuses a hash already saved: nothing to learn
				} else if err != nil {
					c.Violate("C19", "storage-save-fails", what+": "+err.Error(), info)
				} else {
					r1, err1 := n.ab.VerifReadVertexFromStorage(v.Hash[:])
					t1, err2 := n.ab.VerifReadTransactionFromStorage(v.Hash[:])
					if prevStored != nil {
						r0, err0 := n.ab.VerifReadVertexFromStorage(prevStored.Hash[:])
						if err0 != nil || !signedEqual(prevStored, &r0) {
							c.Violate("C19", "storage-read-changes-signed-field", what+": the previously stored vertex reads back differently", info)
						}
					}
					c.Count("storage.roundtrip")
					if err1 != nil || !signedEqual(&v, &r1) {
						c.Violate("C19", "storage-read-changes-signed-field", fmt.Sprintf("%s: a signed field differs after save / read / another read (err %v)", what, err1), info)
					}
					if err2 != nil || !bytes.Equal(t1.GetMessage(), v.Transaction.GetMessage()) || t1.Hash != v.Transaction.Hash ||
						!bytes.Equal(t1.IssuerSignature, v.Transaction.IssuerSignature) || !bytes.Equal(t1.ReceiverSignature, v.Transaction.ReceiverSignature) {
						c.Violate("C19", "storage-read-changes-transaction", fmt.Sprintf("%s: the transaction read from storage differs (err %v)", what, err2), info)
					}
					cp := v
					prevStored = &cp
					if firstRead == nil {
						fr, fo := r1, v
						firstRead, firstOrig = &fr, &fo
					}
				}
			}
			tenc, _ := v.Transaction.Encode()
			tdec, err := transaction.Decode(tenc)
			if err != nil || !bytes.Equal(tdec.GetMessage(), v.Transaction.GetMessage()) || tdec.Hash != v.Transaction.Hash {
				c.Violate("C19", "cache-codec-changes-transaction", what+": transaction differs after msgpack encode/decode", info)
			} else if len(tenc) < 200000 {
				c.Line("MPT %s | %s | %s", trxTok(&v.Transaction), hex.EncodeToString(tenc), trxTok(&tdec))
			}
			menc, _ := v.Transaction.Spice.Encode()
			mdec, err := spice.Decode(menc)
			if err != nil || mdec != v.Transaction.Spice {
				c.Violate("C19", "amount-codec-changes-value", what, info)
			}
			c.Line("MPM %d %d | %s | %d %d", v.Transaction.Spice.Currency, v.Transaction.Spice.SupplementaryCurrency, hex.EncodeToString(menc), mdec.Currency, mdec.SupplementaryCurrency)
			// ---- wire
			pv := gossip.VerifMapVertexToProto(&v)
			raw, err := proto.Marshal(pv)
			if err != nil {
				c.Count("wire.no-value-produced(non-utf8)")
			} else {
				var back pb.Vertex
				if err := proto.Unmarshal(raw, &back); err != nil {
					c.Violate("C19", "wire-unmarshal-fails", what, info)
				} else {
					// a conversion does not depend on what was converted before: a different message under the same
					// vertex hash / transaction hash goes through the mappers first
					func() {
						defer func() { recover() }()
						sib := proto.Clone(&back).(*pb.Vertex)
						sib.Weight += 3
						sib.SignerPublicAddress += "x"
						sib.Signature = append([]byte{9}, sib.Signature...)
						sib.CreatedAt += 5
						if sib.Transaction != nil {
							sib.Transaction.Subject += "y"
							sib.Transaction.Data = append(sib.Transaction.Data, 1)
							sib.Transaction.CreatedAt += 7
							if sib.Transaction.Spice != nil {
								sib.Transaction.Spice.Currency ^= 1 << 40
							}
						}
						gossip.VerifMapProtoToVertex(sib)
						if sib.Transaction != nil {
							transformers.ProtoTrxToTrx(sib.Transaction)
						}
					}()
					wv := gossip.VerifMapProtoToVertex(&back)
					c.Line("WT %d | %d", uint64(v.CreatedAt.UnixNano()), uint64(wv.CreatedAt.UnixNano()))
					if !signedEqual(&v, &wv) {
						c.Violate("C19", "wire-changes-signed-field", what+": a signed field differs after vertex->protobuf->vertex", info)
					}
					okBefore := accountant.VerifVerifyVertex(&v, w.ver) == nil
					okAfter := accountant.VerifVerifyVertex(&wv, w.ver) == nil
					okDec := accountant.VerifVerifyVertex(&dec, w.ver) == nil
					if okBefore != okAfter || okBefore != okDec {
						c.Violate("C19", "verification-not-preserved", what, info)
					}
					if okBefore {
						c.Count("verifies-before-and-after")
					}
				}
				pt, err := transformers.TrxToProtoTrx(v.Transaction)
				if err == nil {
					if raw, err := proto.Marshal(pt); err == nil {
						var bt pb.Transaction
						proto.Unmarshal(raw, &bt)
						if tt, err := transformers.ProtoTrxToTrx(&bt); err == nil {
							if !bytes.Equal(tt.GetMessage(), v.Transaction.GetMessage()) || tt.Hash != v.Transaction.Hash {
								c.Violate("C19", "wire-changes-transaction", what, info)
							}
							// "treated identically by every node": what kind of transaction it is (contract, transfer,
							// empty) is the same on both sides of the wire
							if tt.IsContract() != v.Transaction.IsContract() || tt.IsEmpty() != v.Transaction.IsEmpty() || tt.IsSpiceTransfer() != v.Transaction.IsSpiceTransfer() {
								c.Violate("C19", "wire-changes-classification", fmt.Sprintf("%s: contract/empty/transfer is %v/%v/%v at the origin and %v/%v/%v behind the wire (data %d bytes, nil: %v)", what,
									v.Transaction.IsContract(), v.Transaction.IsEmpty(), v.Transaction.IsSpiceTransfer(), tt.IsContract(), tt.IsEmpty(), tt.IsSpiceTransfer(), len(v.Transaction.Data), v.Transaction.Data == nil), info)
							}
						} else if v.Transaction.CreatedAt.UnixNano() == 0 {
							// the wire form uses 0 for "no time stamp": a transaction created at the epoch instant is
							// refused by every node alike (no value is produced, nothing diverges) - counted, not judged
							c.Count("wire.no-value-produced(epoch-timestamp)")
						} else {
							c.Count("wire.trx-refused-on-the-way-back")
							c.Violate("C19", "wire-refuses-transaction-it-produced", what+": TrxToProtoTrx accepted the transaction, ProtoTrxToTrx refuses its own output: "+err.Error(), info)
						}
					}
				}
			}
		}
		// valid signed vertex first
		check(base(), "base")
		{
			v := base()
			v.Transaction.Data = []byte{}
			check(v, "data empty-not-nil")
			v = base()
			v.Transaction.Data = []byte{}
			v.Transaction.Spice = spice.Melange{}
			check(v, "data empty-not-nil, no spice")
			v = base()
			v.Transaction.Data = nil
			check(v, "data nil")
		}
		// one field at a time
		for _, ln := range append(append([]int{}, lenSet...), bigLens...) {
			for _, utf := range []bool{true, false} {
				v := base()
				v.Transaction.Subject = string(fill(c, ln, utf))
				check(v, fmt.Sprintf("subject len=%d utf8=%v", ln, utf))
				v = base()
				v.SignerPublicAddress = string(fill(c, ln, utf))
				check(v, fmt.Sprintf("signer len=%d utf8=%v", ln, utf))
				v = base()
				v.Transaction.IssuerAddress = string(fill(c, ln, utf))
				v.Transaction.ReceiverAddress = string(fill(c, (ln+1)%300, utf))
				check(v, fmt.Sprintf("addresses len=%d utf8=%v", ln, utf))
			}
			v := base()
			v.Transaction.Data = fill(c, ln, false)
			check(v, fmt.Sprintf("data len=%d", ln))
			v = base()
			v.Signature = fill(c, ln, false)
			v.Transaction.IssuerSignature = fill(c, ln, false)
			v.Transaction.ReceiverSignature = fill(c, ln, false)
			check(v, fmt.Sprintf("signatures len=%d", ln))
		}
		// subjects with white space and other characters a "sanitising" mapper might touch
		for _, sub := range []string{" memo", "memo ", "transfer\n", "\tinvoice 42 \r\n", " ", "\n", "\t \t", "a\u00a0", "\u2003x\u2003", "\u0000", "a\u0000", "UPPER lower", "e\u0301", "\ufeffbom", "\"quoted\"", "a\\b", "%20", "<b>"} {
			v := base()
			v.Transaction.Subject = sub
			check(v, fmt.Sprintf("subject %q", sub))
		}
		{
			v := base()
			v.Transaction.Data, v.Signature, v.Transaction.IssuerSignature, v.Transaction.ReceiverSignature = nil, nil, nil, nil
			check(v, "nil slices")
			v.Transaction.Data, v.Signature, v.Transaction.IssuerSignature, v.Transaction.ReceiverSignature = []byte{}, []byte{}, []byte{}, []byte{}
			check(v, "empty slices")
		}
		for _, x := range intSet {
			for _, y := range intSet {
				v := base()
				v.Weight = x
				v.Transaction.Spice = spice.Melange{Currency: y, SupplementaryCurrency: x}
				check(v, fmt.Sprintf("ints %d %d", x, y))
			}
		}
		for _, t1 := range timeSet {
			for _, t2 := range timeSet {
				v := base()
				v.CreatedAt, v.Transaction.CreatedAt = t1, t2
				check(v, fmt.Sprintf("times %d.%d %d.%d", t1.Unix(), t1.Nanosecond(), t2.Unix(), t2.Nanosecond()))
			}
		}
		nr := 300
		if c.Tier == "thorough" {
			nr = 5000
		}
		for i := 0; i < nr; i++ {
			v := base()
			v.Transaction.Subject = string(fill(c, pick(c, lenSet), c.Rnd.Intn(2) == 0))
			v.Transaction.Data = fill(c, pick(c, lenSet), false)
			v.Signature = fill(c, pick(c, lenSet), false)
			v.Transaction.ReceiverSignature = fill(c, pick(c, lenSet), false)
			v.Weight = pick(c, intSet)
			v.Transaction.Spice = spice.Melange{Currency: pick(c, intSet), SupplementaryCurrency: pick(c, intSet)}
			v.CreatedAt, v.Transaction.CreatedAt = pick(c, timeSet), pick(c, timeSet)
			c.Rnd.Read(v.Hash[:])
			c.Rnd.Read(v.LeftParentHash[:])
			check(v, fmt.Sprintf("random %d", i))
		}
		c.Sample(map[string]interface{}{"case": "times 17179869184.1 -1.999999999", "line": "MPV <fields> | <msgpack hex> | <decoded fields>"})
		_ = strings.Join
		return nil
	}
}
