package main

// Section "orphans" (C13): the vertices of a valid history are delivered to a fresh, synced node in every
// permutation (small histories) or in random permutations (larger ones), interleaved with duplicates,
// invalid vertices and local proposals; orphan retries are driven synchronously until the buffer is empty.
// Oracle: the node ends with exactly the ledger of parents-first delivery.

import (
	"github.com/bartossh/Computantis/src/wallet"
	"context"
	"time"
	"fmt"
	"sort"

	"github.com/bartossh/Computantis/src/accountant"
	"github.com/bartossh/Computantis/src/spice"
)

func permutations(n int) [][]int {
	if n == 0 {
		return [][]int{{}}
	}
	var out [][]int
	for _, p := range permutations(n - 1) {
		for i := 0; i <= len(p); i++ {
			q := append(append(append([]int{}, p[:i]...), n-1), p[i:]...)
			out = append(out, q)
		}
	}
	return out
}

func ledgerKey(s *accountant.VerifSnap) string {
	vs := []string{}
	for _, v := range s.Vertices {
		vs = append(vs, fmt.Sprintf("%x", v.Hash[:6]))
	}
	es := []string{}
	for _, e := range s.Edges {
		es = append(es, fmt.Sprintf("%x>%x", e[0][:6], e[1][:6]))
	}
	sort.Strings(vs)
	sort.Strings(es)
	return fmt.Sprint(vs, es)
}

// history builds a valid history of k vertices on top of genesis on up to two origin nodes and returns it
// in creation (parents-first) order together with the origin's final snapshot.
func (w *World) history(k int, braid bool) ([]accountant.Vertex, *Node) {
	a := w.nodes[0]
	origins := []*Node{a}
	if braid {
		origins = append(origins, w.nodes[1])
	}
	var hist []accountant.Vertex
	for i := 0; i < k; i++ {
		n := origins[i%len(origins)]
		var amt spice.Melange
		var data []byte
		if i%3 == 2 {
			data = []byte("c")
		} else {
			amt = spice.Melange{Currency: uint64(5 - 4*(i%2)), SupplementaryCurrency: uint64(i)}
		}
		iss, rec := w.wallets[i%2], w.wallets[(i+1)%2]
		if braid { // funds only ever come from the genesis receiver: valid on every node whatever it has seen
			iss, rec = w.wallets[0], w.wallets[1]
		}
		t := w.NewTrx(iss, rec.Address(), amt, data)
		v, err := w.Propose(n, &t)
		if err != nil {
			panic(err)
		}
		hist = append(hist, v)
		for _, m := range origins {
			if m != n && (!braid || i%2 == 1) { // in braids, exchange only every second vertex: several tips
				for _, hv := range hist {
					w.Add(m, &hv)
				}
			}
		}
	}
	for _, m := range origins { // make sure every origin has everything (parents first)
		for _, hv := range hist {
			w.Add(m, &hv)
		}
	}
	return hist, a
}

func orphanScenario(c *Ctx, k int, braid bool, perm []int, extras bool, label string) {
	orphanScenarioFlood(c, k, braid, perm, extras, label, 0)
}

// flood > 0: before the history arrives the node is offered that many vertices that do not verify (garbage
// signature, unknown parents). They must not take the places valid orphans need.
func orphanScenarioFlood(c *Ctx, k int, braid bool, perm []int, extras bool, label string, flood int) {
	w := NewWorld(c)
	defer w.Close()
	w.quiet = true
	a := w.NewNode()
	w.NewNode()
	b := w.NewNode() // the receiving node
	w.NewWallet()
	w.NewWallet()
	w.quiet = false
	w.Genesis(a, w.wallets[0].Address(), spice.Melange{Currency: 1000})
	w.syncFrom(a, w.nodes[1])
	w.syncFrom(a, b)
	w.quiet = true
	hist, origin := w.history(k, braid)
	w.quiet = false
	want := origin.ab.VerifSnapshot()
	info := map[string]interface{}{"section": "orphans", "k": k, "braid": braid, "perm": perm, "extras": extras, "flood": flood}
	c.Mark(info)
	// the hypothesis of Props.C13.delivery_order_does_not_matter, observed: a valid history only ever
	// produces the outcomes admitted / parked-parent-missing / already-known
	benign := func(what string, err error) {
		switch errTag(err) {
		case "ok", "noParent", "leafExists":
		default:
			c.Violate("C13", "valid-history-outcome-not-benign", fmt.Sprintf("%s of a vertex of a valid history reported %s (k=%d braid=%v perm=%v)", what, errTag(err), k, braid, perm), info)
		}
	}
	for j := 0; j < flood; j++ {
		forged := hist[len(hist)-1]
		c.Rnd.Read(forged.Hash[:])
		c.Rnd.Read(forged.LeftParentHash[:])
		forged.RightParentHash = forged.LeftParentHash
		forged.Signature = make([]byte, 64)
		c.Rnd.Read(forged.Signature)
		w.ReDefV(&forged)
		w.Add(b, &forged)
	}
	for step, i := range perm {
		v := hist[i]
		benign("delivery", w.Add(b, &v))
		if extras {
			switch (step + i) % 5 {
			case 0: // duplicate
				w.Add(b, &v)
			case 1: // corrupted copy (never admissible)
				bad := v
				bad.Weight += 7
				w.ReDefV(&bad)
				w.Add(b, &bad)
				w.ReDefV(&v)
			case 2: // retry in between
				w.Retry(b)
			}
		}
	}
	for i := 0; i < 40*k+40; i++ {
		had, err := w.Retry(b)
		if !had {
			break
		}
		if !extras {
			benign("retry", err)
		}
	}
	got := b.ab.VerifSnapshot()
	c.Distinct(label + fmt.Sprint(perm))
	if len(got.Parked) != 0 {
		c.Violate("C13", "parked-vertex-never-admitted", fmt.Sprintf("%d vertices still parked after the retries (k=%d perm=%v)", len(got.Parked), k, perm), info)
	}
	if ledgerKey(&got) != ledgerKey(&want) {
		c.Violate("C13", "delivery-order-changes-final-ledger", fmt.Sprintf("k=%d braid=%v perm=%v: receiver has %d vertices / %d edges, parents-first delivery gives %d / %d",
			k, braid, perm, len(got.Vertices), len(got.Edges), len(want.Vertices), len(want.Edges)), info)
	}
	c.Count("scenario." + label)
}


// duplicatedOrphan: a valid vertex reaches the node `copies` times before its parent (several peers gossip it),
// every copy is parked and replayed `rounds` times on its own counter - far from the bound of 25 - then the parent
// arrives. The node ends with the ledger parents-first delivery gives.
func duplicatedOrphan(c *Ctx, copies, rounds int) {
	w := NewWorld(c)
	defer w.Close()
	w.quiet = true
	a := w.NewNode()
	w.NewNode()
	b := w.NewNode()
	w.NewWallet()
	w.NewWallet()
	w.quiet = false
	w.Genesis(a, w.wallets[0].Address(), spice.Melange{Currency: 1000})
	w.syncFrom(a, w.nodes[1])
	w.syncFrom(a, b)
	w.quiet = true
	hist, origin := w.history(3, false)
	w.quiet = false
	want := origin.ab.VerifSnapshot()
	info := map[string]interface{}{"section": "orphans", "scenario": "duplicated-orphan", "copies": copies, "rounds": rounds}
	c.Mark(info)
	bad := ""
	note := func(what string, err error) {
		switch errTag(err) {
		case "ok", "noParent", "leafExists":
		default:
			if bad == "" {
				bad = what + ": " + errTag(err)
			}
		}
	}
	for i := 0; i < copies; i++ {
		v := hist[1]
		note("delivery of a copy", w.Add(b, &v))
	}
	for r := 0; r < rounds*copies; r++ {
		_, err := w.Retry(b)
		note(fmt.Sprintf("retry %d", r), err)
	}
	v0, v2 := hist[0], hist[2]
	note("delivery of the parent", w.Add(b, &v0))
	note("delivery of the grandchild", w.Add(b, &v2))
	for i := 0; i < 40*copies+40; i++ {
		had, _ := w.Retry(b)
		if !had {
			break
		}
	}
	got := b.ab.VerifSnapshot()
	c.Distinct(fmt.Sprintf("duplicated-orphan/%d/%d", copies, rounds))
	if bad != "" {
		c.Violate("C13", "valid-history-outcome-not-benign", fmt.Sprintf("%d copies of a valid orphan, each replayed %d times before the parent arrived: %s", copies, rounds, bad), info)
	}
	if ledgerKey(&got) != ledgerKey(&want) || len(got.Parked) != 0 {
		c.Violate("C13", "duplicated-orphan-lost", fmt.Sprintf("%d copies of a valid orphan, each replayed %d times (bound 25) before the parent arrived: receiver ends with %d vertices (%d parked), parents-first delivery gives %d",
			copies, rounds, len(got.Vertices), len(got.Parked), len(want.Vertices)), info)
	}
	c.Count("scenario.duplicated-orphan")
}

// longWait: a chain whose first vertex is withheld for so long that the buffer has handed out (and taken
// back) far more entries than it can hold at once; every vertex stays well inside the 25-retries bound.
func longWait(c *Ctx, k, rounds int) {
	w := NewWorld(c)
	defer w.Close()
	w.quiet = true
	a := w.NewNode()
	w.NewNode()
	b := w.NewNode()
	w.NewWallet()
	w.NewWallet()
	w.quiet = false
	w.Genesis(a, w.wallets[0].Address(), spice.Melange{Currency: 100000})
	w.syncFrom(a, w.nodes[1])
	w.syncFrom(a, b)
	w.quiet = true
	hist, origin := w.history(k, false)
	w.quiet = false
	want := origin.ab.VerifSnapshot()
	info := map[string]interface{}{"section": "orphans", "scenario": "long-wait", "k": k, "rounds": rounds}
	c.Mark(info)
	for i := 1; i < k; i++ {
		v := hist[i]
		w.Add(b, &v)
	}
	pops := 0
	for r := 0; r < rounds; r++ {
		for i := 1; i < k; i++ {
			if had, _ := w.Retry(b); had {
				pops++
			}
		}
	}
	v0 := hist[0]
	w.Add(b, &v0)
	for i := 0; i < 40*k; i++ {
		if had, _ := w.Retry(b); !had {
			break
		}
	}
	got := b.ab.VerifSnapshot()
	c.Distinct(fmt.Sprintf("long-wait-k%d-r%d", k, rounds))
	c.Rep.Extra["long_wait_retry_pops"] = pops
	if len(got.Parked) != 0 || ledgerKey(&got) != ledgerKey(&want) {
		c.Violate("C13", "long-parked-vertices-lost", fmt.Sprintf("%d vertices waited %d retry rounds (%d pops) for their ancestor: receiver ends with %d vertices (%d still parked), parents-first delivery gives %d",
			k-1, rounds, pops, len(got.Vertices), len(got.Parked), len(want.Vertices)), info)
	}
	c.Count("scenario.long-wait")
}


// oldHistory: the same as orphanScenario for a history that was CREATED some time ago (a node catching up
// on older vertices): a chain sealed by a wallet acting as node, every vertex back-dated by `age` and
// re-signed, delivered in the order `perm` with retries in between. The age of a vertex must not matter.
func oldHistory(c *Ctx, k int, age time.Duration, perm []int) {
	w := NewWorld(c)
	defer w.Close()
	w.quiet = true
	a := w.NewNode()
	b := w.NewNode()
	w.NewWallet()
	w.NewWallet()
	sealer := w.NewWallet()
	w.quiet = false
	w.Genesis(a, w.wallets[0].Address(), spice.Melange{Currency: 1000})
	w.syncFrom(a, b)
	gen := a.ab.VerifSnapshot().Vertices[0]
	var hist []accountant.Vertex
	prev, weight := gen.Hash, gen.Weight
	for i := 0; i < k; i++ {
		t := w.NewTrx(w.wallets[0], w.wallets[1].Address(), spice.Melange{Currency: 1, SupplementaryCurrency: uint64(i)}, nil)
		weight++
		v, err := accountant.NewVertex(t, prev, prev, weight, sealer)
		if err != nil {
			panic(err)
		}
		v.CreatedAt = time.Now().Add(-age)
		v.Hash, v.Signature = sealer.Sign(accountant.VerifVertexData(&v))
		hist = append(hist, v)
		prev = v.Hash
	}
	info := map[string]interface{}{"section": "orphans", "scenario": "old-history", "k": k, "age_seconds": age.Seconds(), "perm": perm}
	c.Mark(info)
	for i := range hist {
		w.Add(a, &hist[i]) // reference: parents first
	}
	want := a.ab.VerifSnapshot()
	for _, i := range perm {
		w.Add(b, &hist[i])
		w.Retry(b)
	}
	for i := 0; i < 40*k+40; i++ {
		if had, _ := w.Retry(b); !had {
			break
		}
	}
	got := b.ab.VerifSnapshot()
	c.Distinct(fmt.Sprint("old-history/", age, perm))
	c.Count("scenario.old-history")
	if len(want.Vertices) != k+1 {
		c.Violate("C13", "old-history-refused-parents-first", fmt.Sprintf("a chain of %d vertices created %v ago delivered parents first: the node holds %d vertices", k, age, len(want.Vertices)), info)
	}
	if len(got.Parked) != 0 || ledgerKey(&got) != ledgerKey(&want) {
		c.Violate("C13", "old-history-order-changes-final-ledger", fmt.Sprintf("a chain of %d vertices created %v ago delivered in order %v: receiver has %d vertices (%d parked), parents-first delivery gives %d",
			k, age, perm, len(got.Vertices), len(got.Parked), len(want.Vertices)), info)
	}
}

// realRetryLoop: the node's own retry loop (buffer ticker + runLeafSubscriber, 2 ms tick through the hook
// VerifNewAccountingBookFastRetry) instead of the synchronous retry hook. Not replayed on the model (the
// retries happen on their own): judged by snapshots.
//   (1) a chain delivered in reverse order is admitted automatically, nothing stays parked;
//   (2) an orphan whose parent never arrives is retried a bounded number of times (25) and then given up:
//       its retry counter never exceeds the bound and it leaves the buffer.
func realRetryLoop(c *Ctx) {
	w := NewWorld(c)
	defer w.Close()
	w.quiet = true
	a := w.NewNode()
	w.NewWallet()
	w.NewWallet()
	sealer := w.NewWallet()
	w.Genesis(a, w.wallets[0].Address(), spice.Melange{Currency: 1000})
	gen := a.ab.VerifSnapshot().Vertices[0]
	nw, _ := wallet.New()
	ctx, cancel := context.WithCancel(context.Background())
	defer cancel()
	fb, err := accountant.VerifNewAccountingBookFastRetry(ctx, accountant.Config{}, w.ver, &nw, nopLog{}, 2*time.Millisecond)
	if err != nil {
		panic(err)
	}
	{ // sync the fast node from a
		ch := make(chan *accountant.Vertex, 10)
		done := make(chan struct{})
		go func() { fb.LoadDag(func(error) {}, ch); close(done) }()
		for v := range a.ab.StreamDAG(context.Background()) {
			ch <- v
		}
		close(ch)
		<-done
	}
	info := map[string]interface{}{"section": "orphans", "scenario": "real-retry-loop"}
	c.Mark(info)
	mk := func(prev [32]byte, weight uint64, tag byte) accountant.Vertex {
		t := w.NewTrx(w.wallets[0], w.wallets[1].Address(), spice.Melange{Currency: 1, SupplementaryCurrency: uint64(tag)}, nil)
		v, _ := accountant.NewVertex(t, prev, prev, weight, sealer)
		return v
	}
	// (1) chain of 5 in reverse order
	var chain []accountant.Vertex
	prev, wt := gen.Hash, gen.Weight
	for i := 0; i < 5; i++ {
		wt++
		v := mk(prev, wt, byte(i))
		chain = append(chain, v)
		prev = v.Hash
	}
	for i := len(chain) - 1; i >= 0; i-- {
		cp := chain[i]
		fb.AddLeaf(context.Background(), &cp)
	}
	deadline := time.Now().Add(5 * time.Second)
	for time.Now().Before(deadline) {
		s := fb.VerifSnapshot()
		if len(s.Vertices) == 6 && len(s.Parked) == 0 {
			break
		}
		time.Sleep(5 * time.Millisecond)
	}
	s1 := fb.VerifSnapshot()
	c.Rep.Evals++
	c.Count("real-retry-loop.reverse-chain")
	if len(s1.Vertices) != 6 || len(s1.Parked) != 0 {
		c.Violate("C13", "real-loop-does-not-admit-parked-vertices", fmt.Sprintf("a chain of 5 delivered in reverse order to a node with a 2 ms retry tick: after 5 s it holds %d of 6 vertices, %d still parked", len(s1.Vertices), len(s1.Parked)), info)
	}
	// (2) an orphan whose parent never arrives
	orphan := mk([32]byte{9, 9, 9}, 50, 77)
	fb.AddLeaf(context.Background(), &orphan)
	maxRep, gone := 0, false
	lastSeen := time.Now()
	deadline = time.Now().Add(4 * time.Second)
	for time.Now().Before(deadline) {
		s := fb.VerifSnapshot()
		for _, p := range s.Parked {
			if p.Vrx.Hash == orphan.Hash {
				lastSeen = time.Now()
				if p.Repeated > maxRep {
					maxRep = p.Repeated
				}
			}
		}
		// between a pop and the re-insert the vertex is briefly out of the buffer: "given up" means absent
		// for far longer than a tick
		if time.Since(lastSeen) > 150*time.Millisecond {
			gone = true
			break
		}
		time.Sleep(time.Millisecond)
	}
	c.Rep.Evals++
	c.Count("real-retry-loop.hopeless-orphan")
	c.Rep.Extra["real_loop_max_retry_counter_seen"] = maxRep
	if !gone || maxRep > 27 {
		c.Violate("C13", "real-loop-retries-unbounded", fmt.Sprintf("an orphan whose parent never arrives, 2 ms retry tick, watched for 3 s: given up: %v, highest retry counter seen: %d (bound 25)", gone, maxRep), info)
	}
	c.Distinct("real-retry-loop")
}

func init() {
	sections["orphans"] = func(c *Ctx) error {
		c.Rep.Rule = "valid histories (chain or two-origin braid) of k vertices delivered to a synced node in all k! orders (k<=4 quick, k<=5 thorough; exhaustive) and random orders (k=12..20), with duplicates / corrupted copies / interleaved retries; back-dated histories (created 90 s .. 3 days ago) delivered out of order; retries until the buffer is empty; final ledger compared with parents-first delivery; non-trivial = distinct (shape, permutation)"
		kmax := 4
		nrand := 6
		if c.Tier == "thorough" {
			kmax = 5
			nrand = 40
		}
		exhaustive := true
		for k := 2; k <= kmax; k++ {
			for _, braid := range []bool{false, true} {
				for _, p := range permutations(k) {
					orphanScenario(c, k, braid, p, false, fmt.Sprintf("exh-k%d-b%v", k, braid))
				}
			}
		}
		for i := 0; i < nrand; i++ {
			k := 12 + c.Rnd.Intn(9)
			p := c.Rnd.Perm(k)
			orphanScenario(c, k, i%2 == 0, p, true, "rand")
		}
		// the documented worst case inside the bounds: a chain of 20 delivered in reverse order
		rev := make([]int, 20)
		for i := range rev {
			rev[i] = 19 - i
		}
		orphanScenario(c, 20, false, rev, false, "reverse20")
		// a buffer's worth of vertices that do not verify, then a short valid history in reverse order
		orphanScenarioFlood(c, 3, false, []int{2, 1, 0}, false, "forged-flood", 500)
		// the same orphan from several peers, replayed for a while before its parent comes
		duplicatedOrphan(c, 3, 10)
		duplicatedOrphan(c, 2, 20)
		// many unsuccessful retries before the missing ancestor arrives (more pops than the buffer holds)
		longWait(c, 60, 9)
		if c.Tier == "thorough" {
			longWait(c, 120, 12)
		}
		// histories created a while ago (minutes to days): the age of a vertex plays no role in its admission
		for _, age := range []time.Duration{90 * time.Second, 3 * time.Minute, 2 * time.Hour, 72 * time.Hour} {
			oldHistory(c, 4, age, []int{3, 2, 1, 0})
			oldHistory(c, 4, age, []int{1, 3, 0, 2})
		}
		realRetryLoop(c)
		c.Rep.Extra["exhaustive_up_to_k"] = kmax
		c.Rep.Extra["exhaustive"] = exhaustive
		c.Sample(map[string]interface{}{"k": 4, "perm": []int{3, 1, 0, 2}, "ops": "ADD b v3 (noParent, parked); ADD b v1 (noParent); ADD b v0 (ok); ADD b v2 (noParent); RETRY* until empty"})
		return nil
	}
}
