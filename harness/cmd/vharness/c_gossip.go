package main

// Section "gossip" (C11, C12): a virtual network of real gossip nodes (hook constructor, peer tables of
// client stubs). The stubs queue every outgoing message; the harness decides the delivery order
// (seeded random, with duplicates), injects adversarial messages with forged gossiper lists, and writes
// every event as a trace line replayed on the Lean model `CModel.Gossip`:
//   GNET n kind peers honest
//   GORIGIN o | <sends>
//   GDELIVER k | dst outcome | <new sends>
//   GDUP k
//   GINJECT dst authentic entries
//   GFINAL | admitted | calls
// <sends> = dst{addr:signer:forThis,...};...   (gossiper entries symbolic: who is named, whose key signed,
// whether the signature is over (named address ‖ this item's hash))

import (
	"os"
	"bytes"
	"context"
	"crypto/sha256"
	"fmt"
	"runtime"
	"sort"
	"strings"
	"sync"
	"sync/atomic"
	"time"

	"github.com/bartossh/Computantis/src/accountant"
	"github.com/bartossh/Computantis/src/cache"
	"github.com/bartossh/Computantis/src/gossip"
	"github.com/bartossh/Computantis/src/pipe"
	pb "github.com/bartossh/Computantis/src/protobufcompiled"
	"github.com/bartossh/Computantis/src/spice"
	"github.com/bartossh/Computantis/src/transaction"
	"github.com/bartossh/Computantis/src/transformers"
	"github.com/bartossh/Computantis/src/wallet"
	"google.golang.org/grpc"
	"google.golang.org/protobuf/proto"
	"google.golang.org/protobuf/types/known/emptypb"
)

type cntBook struct {
	*accountant.AccountingBook
	addLeaf atomic.Int64
}

func (b *cntBook) AddLeaf(ctx context.Context, leaf *accountant.Vertex) error {
	b.addLeaf.Add(1)
	return b.AccountingBook.AddLeaf(ctx, leaf)
}

type qmsg struct {
	src, dst int
	vrx      *pb.VrxMsgGossip
	trx      *pb.TrxMsgGossip
}

type vnet struct {
	c      *Ctx
	w      *World
	nodes  []*Node
	books  []*cntBook
	gsp    []*gossip.VerifGossiper
	pipes  []*pipe.Juggler
	caches []*cache.Hippocampus
	honest []bool
	mux    sync.Mutex
	fresh  []qmsg // enqueued by stubs, not yet numbered
	queue  []qmsg
	item   [32]byte
	isTrx  bool
	adj    [][]int
	seenAt   map[int]bool // nodes that have handled a copy of the tracked item without rejecting it
	badEntry string
	origin   int    // the node the tracked item was accepted at (-1: not tracked)
	advFree  bool   // no adversary in this run
	backHome string // an honest node sent the item back to its origin
	lostEntry string // a relay dropped a verified entry from the list it forwards
	fetches   []fetchReq // parent-fetch requests the nodes sent to their peers
	serveFetch bool      // peers answer parent-fetch requests with their real GetVertex handler
	holdFetch  chan struct{} // when set, a peer answers a parent-fetch request only once this channel is closed (a slow peer)
	sendsMissing int     // how often the sends the harness expected (from what it can verify itself) never came
	silent bool                      // warm-up item: no trace lines
	old    map[int][]*pb.Gossiper    // genuine entries honest nodes signed for the warm-up item, by named node
}

func (v *vnet) line(format string, args ...interface{}) {
	if !v.silent {
		v.c.Line(format, args...)
	}
}

type netStub struct {
	pb.GossipAPIClient
	net      *vnet
	src, dst int
}

func (s *netStub) GossipVrx(ctx context.Context, in *pb.VrxMsgGossip, _ ...grpc.CallOption) (*emptypb.Empty, error) {
	s.net.mux.Lock()
	s.net.fresh = append(s.net.fresh, qmsg{src: s.src, dst: s.dst, vrx: proto.Clone(in).(*pb.VrxMsgGossip)})
	s.net.mux.Unlock()
	return &emptypb.Empty{}, nil
}
func (s *netStub) GossipTrx(ctx context.Context, in *pb.TrxMsgGossip, _ ...grpc.CallOption) (*emptypb.Empty, error) {
	s.net.mux.Lock()
	s.net.fresh = append(s.net.fresh, qmsg{src: s.src, dst: s.dst, trx: proto.Clone(in).(*pb.TrxMsgGossip)})
	s.net.mux.Unlock()
	return &emptypb.Empty{}, nil
}
func (s *netStub) GetVertex(ctx context.Context, in *pb.SignedHash, _ ...grpc.CallOption) (*pb.Vertex, error) {
	// what a node signs when it asks its peers for a missing parent is seen by those peers (one of them may be
	// the adversary)
	s.net.mux.Lock()
	s.net.fetches = append(s.net.fetches, fetchReq{src: s.src, dst: s.dst, req: proto.Clone(in).(*pb.SignedHash)})
	serve := s.net.serveFetch
	hold := s.net.holdFetch
	s.net.mux.Unlock()
	if hold != nil {
		<-hold
	}
	if serve && s.net.honest[s.dst] {
		return s.net.gsp[s.dst].Server().GetVertex(ctx, in) // the peer's real handler answers
	}
	return nil, fmt.Errorf("not served")
}

type fetchReq struct {
	src, dst int
	req      *pb.SignedHash
}

// vnetPipeSize: buffer of the notary -> gossip hand-over (800 in cmd/node)
var vnetPipeSize uint16 = 100

// vnetCacheMB: size of each node's awaiting-transaction cache. Networks that are reused for hundreds of items
// need room (capacity eviction is outside the properties); the many short-lived scenario networks do not, and
// their caches count against the process' memory limit until the collector gets to them.
var vnetCacheMB = 64

func newVnet(c *Ctx, n int, adj [][]int, honest []bool, isTrx bool) *vnet {
	w := NewWorld(c)
	w.quiet = true
	v := &vnet{c: c, w: w, honest: honest, isTrx: isTrx, adj: adj, seenAt: map[int]bool{}, origin: -1}
	for i := 0; i < n; i++ {
		nd := w.NewNode()
		v.nodes = append(v.nodes, nd)
	}
	rich := w.NewWallet()
	w.NewWallet()
	w.Genesis(v.nodes[0], rich.Address(), spice.Melange{Currency: 1000000000})
	for i := 1; i < n; i++ {
		if err := w.syncFrom(v.nodes[0], v.nodes[i]); err != nil {
			panic(err)
		}
	}
	for i := 0; i < n; i++ {
		hc, err := cache.New(1000, vnetCacheMB)
		if err != nil {
			panic(err)
		}
		fl, err := cache.NewFlash()
		if err != nil {
			panic(err)
		}
		pp := pipe.New(vnetPipeSize, vnetPipeSize)
		bk := &cntBook{AccountingBook: v.nodes[i].ab}
		g := gossip.VerifNewGossiper(nopLog{}, time.Second, recSigner{v.nodes[i].w}, w.ver, bk, hc, fl, pp, fmt.Sprintf("url-%d", i))
		v.books = append(v.books, bk)
		v.gsp = append(v.gsp, g)
		v.pipes = append(v.pipes, pp)
		v.caches = append(v.caches, hc)
	}
	var ps []string
	for i := 0; i < n; i++ {
		var l []string
		for _, j := range adj[i] {
			v.gsp[i].SetPeer(v.nodes[j].w.Address(), fmt.Sprintf("url-%d", j), &netStub{net: v, src: i, dst: j})
			l = append(l, fmt.Sprint(j))
		}
		ps = append(ps, fmt.Sprintf("%d:%s", i, strings.Join(l, ",")))
	}
	var hs []string
	for _, h := range honest {
		hs = append(hs, fmt.Sprint(b2i(h)))
	}
	kind := "vrx"
	if isTrx {
		kind = "trx"
	}
	c.Line("GNET %d %s %s %s", n, kind, strings.Join(ps, ";"), strings.Join(hs, ","))
	return v
}

func (v *vnet) nodeOf(addr string) int {
	for i, n := range v.nodes {
		if n.w.Address() == addr {
			return i
		}
	}
	return 99
}

// entrySym: (named node, node whose key signed, signature is over named-address‖item-hash)
func (v *vnet) entrySym(g *pb.Gossiper) string {
	named := v.nodeOf(g.Address)
	signer := 98
	forThis := 0
	if p, ok := sigLogGet(g.Signature); ok && len(g.Signature) > 0 {
		for i, n := range v.nodes {
			if bytes.Equal(n.w.Public, p.key) {
				signer = i
			}
		}
		want := sha256.Sum256(gossip.VerifGossiperMessage(g.Address, v.item))
		if p.digest == want && bytes.Equal(g.Digest, want[:]) {
			forThis = 1
		}
	}
	return fmt.Sprintf("%d:%d:%d", named, signer, forThis)
}

func (v *vnet) msgSym(m qmsg) string {
	var gs []*pb.Gossiper
	if m.vrx != nil {
		gs = m.vrx.Gossipers
	} else {
		gs = m.trx.Gossipers
	}
	var es []string
	for _, g := range gs {
		es = append(es, v.entrySym(g))
	}
	sort.Strings(es)
	return fmt.Sprintf("%d{%s}", m.dst, strings.Join(es, ","))
}

// settle waits until the sender goroutines have handed their messages to the stubs, then numbers the new
// messages in a canonical order (by destination).
func (v *vnet) settle() string {
	last, stable := -1, 0
	for i := 0; i < 400 && stable < 2; i++ {
		time.Sleep(150 * time.Microsecond)
		v.mux.Lock()
		n := len(v.fresh)
		v.mux.Unlock()
		if n == last {
			stable++
		} else {
			stable = 0
		}
		last = n
	}
	v.mux.Lock()
	fr := v.fresh
	v.fresh = nil
	v.mux.Unlock()
	sort.SliceStable(fr, func(i, j int) bool { return fr[i].dst < fr[j].dst })
	var out []string
	for _, m := range fr {
		v.queue = append(v.queue, m)
		sym := v.msgSym(m)
		out = append(out, sym)
		// the origin's entry is in every genuine copy, so without an adversary nobody ever sends the item back
		// to the node it was accepted at
		if !v.silent && v.advFree && v.origin >= 0 && m.dst == v.origin && v.backHome == "" {
			v.backHome = fmt.Sprintf("node %d sent the item back to its origin %d (gossiper list %s)", m.src, m.dst, sym)
		}
		// an honest node forwards only entries it verified for this item, plus its own
		if !v.silent && v.honest[m.src] {
			for _, e := range strings.Split(strings.Trim(sym[strings.Index(sym, "{"):], "{}"), ",") {
				var a, b, f int
				if _, err := fmt.Sscanf(e, "%d:%d:%d", &a, &b, &f); err == nil && (a != b || f != 1) && v.badEntry == "" {
					v.badEntry = fmt.Sprintf("honest node %d forwarded the item to %d with gossiper entry %s (named:signer:signed-for-this-item) counted as verified", m.src, m.dst, e)
				}
			}
		}
	}
	if len(out) == 0 {
		return "-"
	}
	return strings.Join(out, ";")
}

// listsDst: the message carries a verifying entry of the receiving node itself
func (v *vnet) listsDst(m qmsg) bool {
	var gs []*pb.Gossiper
	if m.vrx != nil {
		gs = m.vrx.Gossipers
	} else {
		gs = m.trx.Gossipers
	}
	self := v.nodes[m.dst].w.Address()
	for _, g := range gs {
		if g != nil && g.Address == self && len(g.Digest) == 32 &&
			v.w.ver.Verify(gossip.VerifGossiperMessage(g.Address, v.item), g.Signature, [32]byte(g.Digest), g.Address) == nil {
			return true
		}
	}
	return false
}

// expectSends: how many peers of the receiving node are outside the verified gossiper set of the message
// (only used to know how long to wait for the asynchronous sends; the comparison is done by the model)
func (v *vnet) expectSends(m qmsg) int {
	var gs []*pb.Gossiper
	if m.vrx != nil {
		gs = m.vrx.Gossipers
	} else {
		gs = m.trx.Gossipers
	}
	listed := map[string]bool{v.nodes[m.dst].w.Address(): true}
	for _, g := range gs {
		if g == nil || len(g.Digest) != 32 {
			continue
		}
		if v.w.ver.Verify(gossip.VerifGossiperMessage(g.Address, v.item), g.Signature, [32]byte(g.Digest), g.Address) == nil {
			listed[g.Address] = true
		}
	}
	n := 0
	for _, p := range v.adj[m.dst] {
		if !listed[v.nodes[p].w.Address()] {
			n++
		}
	}
	return n
}

// waitFresh blocks until the origin loop (a goroutine reading the pipe) has handed at least n messages to the stubs.
func (v *vnet) waitFresh(n int) {
	limit := 60000 // up to 6 s: only ever reached when sends are really missing or the machine is badly overloaded
	if sendsMissingAnywhere.Load() > 0 {
		limit = 1000 // expected sends already failed to appear once in this run: do not wait long again
	}
	for i := 0; i < limit; i++ {
		v.mux.Lock()
		k := len(v.fresh)
		v.mux.Unlock()
		if k >= n {
			return
		}
		time.Sleep(100 * time.Microsecond)
	}
	v.sendsMissing++
	sendsMissingAnywhere.Add(1)
}

var sendsMissingAnywhere atomic.Int64

func (v *vnet) deliver(k int) (string, int) {
	m := v.queue[k]
	v.queue = append(append([]qmsg{}, v.queue[:k]...), v.queue[k+1:]...)
	outcome := "absorbed"
	inSym := v.msgSym(m) // before the handler sees it: the handler rewrites the list of the message it is given
	if v.honest[m.dst] {
		before := v.books[m.dst].addLeaf.Load()
		savedBefore := v.hasItem(m.dst)
		g0 := runtime.NumGoroutine()
		var err error
		if m.vrx != nil {
			_, err = v.gsp[m.dst].Server().GossipVrx(context.Background(), m.vrx)
		} else {
			_, err = v.gsp[m.dst].Server().GossipTrx(context.Background(), m.trx)
		}
		called := v.books[m.dst].addLeaf.Load() > before
		// the handler hands its sends to goroutines; how many there will be is known in advance when the
		// code is right (first authentic copy at a node that is not listed): wait for exactly those, with a
		// time-out as the fallback - independent of machine load and of other goroutines coming and going
		_ = g0
		if err == nil && (called || v.isTrx) && !v.seenAt[m.dst] && !v.listsDst(m) {
			v.waitFresh(v.expectSends(m))
		}
		if err == nil {
			v.seenAt[m.dst] = true
		}
		switch {
		case err != nil:
			outcome = "rejected"
		case called || (v.isTrx && !savedBefore && v.hasItem(m.dst)):
			outcome = "processed"
		default:
			outcome = "noop"
		}
	}
	sends := v.settle()
	// a relay hands on every entry it verified (the list only grows along a path): each genuine entry of
	// the delivered copy is in every copy the receiving node sends out because of it
	if !v.silent && v.honest[m.dst] && sends != "-" && v.lostEntry == "" {
		for _, e := range strings.Split(strings.Trim(inSym[strings.Index(inSym, "{"):], "{}"), ",") {
			var a, b, f int
			if _, err := fmt.Sscanf(e, "%d:%d:%d", &a, &b, &f); err != nil || a != b || f != 1 {
				continue
			}
			for _, out := range strings.Split(sends, ";") {
				if !strings.Contains(","+strings.Trim(out[strings.Index(out, "{"):], "{}")+",", ","+e+",") {
					v.lostEntry = fmt.Sprintf("node %d received the item with the verified entry %s and sent it on as %s without it", m.dst, e, out)
				}
			}
		}
	}
	if v.isTrx && outcome == "noop" && sends != "-" {
		outcome = "processed" // a transaction already awaiting here is forwarded again (the failing save is only logged)
	}
	v.line("GDELIVER %d | %d %s | %s", k, m.dst, outcome, sends)
	return outcome, m.dst
}

func (v *vnet) hasItem(i int) bool {
	if v.isTrx {
		for _, a := range []string{v.w.wallets[0].Address(), v.w.wallets[1].Address()} {
			ts, _ := v.caches[i].ReadTransactions(a)
			for _, t := range ts {
				if t.Hash == v.item {
					return true
				}
			}
		}
		return false
	}
	_, err := v.nodes[i].ab.ReadVertex(context.Background(), v.item)
	return err == nil
}

func (v *vnet) final() (admitted []int) {
	var ad, calls []string
	for i := range v.nodes {
		if v.hasItem(i) {
			admitted = append(admitted, i)
			ad = append(ad, fmt.Sprint(i))
		}
		calls = append(calls, fmt.Sprint(v.books[i].addLeaf.Load()))
	}
	a := "-"
	if len(ad) > 0 {
		a = strings.Join(ad, ",")
	}
	v.c.Line("GFINAL | %s | %s", a, strings.Join(calls, ","))
	return admitted
}

// originate creates the item at node o and lets the node's own origin loop gossip it.
func (v *vnet) originate(o int) (vrx accountant.Vertex, ptrx *pb.Transaction) {
	v.seenAt = map[int]bool{}
	rich, other := v.w.wallets[0], v.w.wallets[1]
	ctx, cancel := context.WithCancel(context.Background())
	defer cancel()
	v.gsp[o].RunOrigin(ctx)
	if v.isTrx {
		t, _ := transaction.New("deal", spice.Melange{}, []byte("terms"), other.Address(), recSigner{rich})
		if err := v.caches[o].SaveAwaitedTransaction(&t); err != nil {
			panic(err)
		}
		v.item = t.Hash
		p, _ := transformers.TrxToProtoTrx(t)
		ptrx = p
		v.pipes[o].SendTrx(p)
	} else {
		t, _ := transaction.New("pay", spice.Melange{Currency: 5}, nil, other.Address(), recSigner{rich})
		vx, err := v.nodes[o].ab.CreateLeaf(context.Background(), &t)
		if err != nil {
			panic(err)
		}
		vrx = vx
		v.item = vx.Hash
		v.pipes[o].SendVrx(&vx)
	}
	v.waitFresh(len(v.adj[o])) // the origin's own entry is the only one listed: one message per peer
	v.line("GORIGIN %d | %s", o, v.settle())
	return
}

// warmup gossips another item from the same origin through the whole network first (every node,
// including the later adversary, behaves honestly), without trace lines, and keeps the gossiper entries
// that were signed for it: the adversary replays them on the tracked item.
func (v *vnet) warmup(o int) {
	v.silent = true
	hon := v.honest
	all := make([]bool, len(hon))
	for i := range all {
		all[i] = true
	}
	v.honest = all
	v.originate(o)
	v.old = map[int][]*pb.Gossiper{}
	for steps := 0; len(v.queue) > 0 && steps < 300; steps++ {
		m := v.queue[0]
		var gs []*pb.Gossiper
		if m.vrx != nil {
			gs = m.vrx.Gossipers
		} else {
			gs = m.trx.Gossipers
		}
		for _, g := range gs {
			n := v.nodeOf(g.Address)
			v.old[n] = append(v.old[n], proto.Clone(g).(*pb.Gossiper))
		}
		v.deliver(0)
	}
	v.queue = nil
	v.honest = hon
	v.silent = false
	for i := range v.books {
		v.books[i].addLeaf.Store(0)
	}
}

func (v *vnet) close() {
	v.w.Close()
}

// connected graphs: every graph on <= 4 nodes (up to the choice of labels, all labelled edge sets) is
// enumerated in the thorough tier; the quick tier samples.
func allConnectedGraphs(n int) [][][]int {
	var pairs [][2]int
	for i := 0; i < n; i++ {
		for j := i + 1; j < n; j++ {
			pairs = append(pairs, [2]int{i, j})
		}
	}
	var out [][][]int
	for mask := 0; mask < 1<<len(pairs); mask++ {
		adj := make([][]int, n)
		for b, p := range pairs {
			if mask&(1<<b) != 0 {
				adj[p[0]] = append(adj[p[0]], p[1])
				adj[p[1]] = append(adj[p[1]], p[0])
			}
		}
		seen := map[int]bool{0: true}
		st := []int{0}
		for len(st) > 0 {
			x := st[len(st)-1]
			st = st[:len(st)-1]
			for _, y := range adj[x] {
				if !seen[y] {
					seen[y] = true
					st = append(st, y)
				}
			}
		}
		if len(seen) == n {
			out = append(out, adj)
		}
	}
	return out
}

func randomConnected(c *Ctx, n int) [][]int {
	adj := make([][]int, n)
	has := map[[2]int]bool{}
	add := func(a, b int) {
		if a == b || has[[2]int{a, b}] {
			return
		}
		has[[2]int{a, b}] = true
		has[[2]int{b, a}] = true
		adj[a] = append(adj[a], b)
		adj[b] = append(adj[b], a)
	}
	for i := 1; i < n; i++ {
		add(i, c.Rnd.Intn(i))
	}
	for k := c.Rnd.Intn(n); k > 0; k-- {
		add(c.Rnd.Intn(n), c.Rnd.Intn(n))
	}
	return adj
}

func init() {
	sections["gossip"] = func(c *Ctx) error {
		c.Rep.Rule = "virtual networks of real gossip nodes: connected graphs on 2..4 nodes (quick: sampled; thorough: every labelled connected graph on <= 4 nodes with origin 0, i.e. every graph x origin up to relabelling) plus random graphs on 5..7 nodes, vertex and transaction items, random delivery orders with duplicated messages; adversarial runs inject messages with forged gossiper lists (garbage signatures, digests of the wrong length (0, 3, 31, 33, 64 bytes) with or without a signature, honest signatures taken from another item, entries naming an honest node signed by the adversary's key, the adversary's own entries, replayed genuine entries) and unauthentic payloads under the item's hash; non-trivial = distinct (nodes, edges, kind, adversary behaviour, outcome)"
		type job struct {
			adj    [][]int
			origin int
			isTrx  bool
			adv    bool
		}
		var jobs []job
		if c.Tier == "thorough" {
			// every labelled connected graph on <= 4 nodes with origin 0: the set of labelled graphs is closed
			// under relabelling, so this covers every (graph, origin) pair up to isomorphism
			for n := 2; n <= 4; n++ {
				for _, adj := range allConnectedGraphs(n) {
					jobs = append(jobs, job{adj, 0, false, false})
				}
			}
			for i := 0; i < 60; i++ {
				n := 3 + c.Rnd.Intn(5)
				jobs = append(jobs, job{randomConnected(c, n), c.Rnd.Intn(n), i%3 == 0, i%2 == 0})
			}
		} else {
			for n := 2; n <= 4; n++ {
				gs := allConnectedGraphs(n)
				for k := 0; k < 3; k++ {
					jobs = append(jobs, job{gs[c.Rnd.Intn(len(gs))], c.Rnd.Intn(n), k == 2, false})
				}
			}
			for i := 0; i < 14; i++ {
				n := 3 + c.Rnd.Intn(4)
				jobs = append(jobs, job{randomConnected(c, n), c.Rnd.Intn(n), i%3 == 0, i%2 == 0})
			}
		}
		injTotal := c.Rnd.Intn(6) // adversary behaviours rotate, so that every run exercises each of them
		for ji, j := range jobs {
			n := len(j.adj)
			honest := make([]bool, n)
			for i := range honest {
				honest[i] = true
			}
			advNode := -1
			if j.adv && n >= 3 {
				advNode = (j.origin + 1 + c.Rnd.Intn(n-1)) % n
				honest[advNode] = false
			}
			v := newVnet(c, n, j.adj, honest, j.isTrx)
			if advNode >= 0 {
				v.warmup(j.origin)
			}
			v.origin, v.advFree = j.origin, advNode < 0
			vx, ptx := v.originate(j.origin)
			edges := 0
			for _, a := range j.adj {
				edges += len(a)
			}
			processed := map[int]int{}
			steps := 0
			injected := 0
			unauthentic := false
			for len(v.queue) > 0 && steps < 400 {
				steps++
				// adversary: once it has seen the item, it injects forged messages to its honest peers
				if advNode >= 0 && injected < 3 && c.Rnd.Intn(2) == 0 {
					injected++
					var targets []int
					for _, p := range j.adj[advNode] {
						if honest[p] {
							targets = append(targets, p)
						}
					}
					if len(targets) > 0 {
						dst := targets[c.Rnd.Intn(len(targets))]
						adv := v.nodes[advNode].w
						var gs []*pb.Gossiper
						beh := []string{"garbage-sig-for-target", "honest-sig-from-other-item", "names-target-signed-by-adversary", "own-entry", "replayed-genuine", "malformed-digest-for-target"}[injTotal%6]
						injTotal++
						c.Count("inject." + beh)
						tgt := v.nodes[dst].w
						switch beh {
						case "garbage-sig-for-target":
							d := sha256.Sum256(gossip.VerifGossiperMessage(tgt.Address(), v.item))
							gs = append(gs, &pb.Gossiper{Address: tgt.Address(), Digest: d[:], Signature: fill(c, 64, false)})
						case "malformed-digest-for-target":
							// entries naming the target (and its other honest peers) whose digest is missing, short
							// or long; signature by the adversary over the right message, garbage, or none
							d, sg := recSigner{adv}.Sign(gossip.VerifGossiperMessage(tgt.Address(), v.item))
							names := []string{tgt.Address()}
							for _, p := range j.adj[dst] {
								if honest[p] {
									names = append(names, v.nodes[p].w.Address())
								}
							}
							for k, a := range names {
								var dg, sig []byte
								switch (k + c.Rnd.Intn(5)) % 5 {
								case 0:
									dg = nil
								case 1:
									dg = d[:3]
								case 2:
									dg = d[:31]
								case 3:
									dg = append(append([]byte{}, d[:]...), 0)
								case 4:
									dg = append(append([]byte{}, d[:]...), d[:]...)
								}
								switch c.Rnd.Intn(3) {
								case 0:
									sig = sg
								case 1:
									sig = fill(c, 64, false)
								}
								gs = append(gs, &pb.Gossiper{Address: a, Digest: dg, Signature: sig})
							}
						case "honest-sig-from-other-item":
							// genuine entries of the target and of its other peers, signed for the warm-up item
							// (every node has verified them before)
							gs = append(gs, v.old[dst]...)
							for _, p := range j.adj[dst] {
								if honest[p] && len(v.old[p]) > 0 {
									gs = append(gs, v.old[p][0])
								}
							}
							if len(gs) == 0 {
								other := sha256.Sum256([]byte("another item"))
								d, s := recSigner{tgt}.Sign(gossip.VerifGossiperMessage(tgt.Address(), other))
								gs = append(gs, &pb.Gossiper{Address: tgt.Address(), Digest: d[:], Signature: s})
							}
						case "names-target-signed-by-adversary":
							d, s := recSigner{adv}.Sign(gossip.VerifGossiperMessage(tgt.Address(), v.item))
							gs = append(gs, &pb.Gossiper{Address: tgt.Address(), Digest: d[:], Signature: s})
						case "own-entry":
							d, s := recSigner{adv}.Sign(gossip.VerifGossiperMessage(adv.Address(), v.item))
							gs = append(gs, &pb.Gossiper{Address: adv.Address(), Digest: d[:], Signature: s})
						case "replayed-genuine":
							for _, m := range v.queue {
								if m.vrx != nil {
									gs = append(gs, m.vrx.Gossipers...)
								} else {
									gs = append(gs, m.trx.Gossipers...)
								}
								break
							}
						}
						authentic := c.Rnd.Intn(4) != 0
						m := qmsg{src: advNode, dst: dst}
						if j.isTrx {
							p := proto.Clone(ptx).(*pb.Transaction)
							if !authentic {
								p.Subject = "forged"
							}
							m.trx = &pb.TrxMsgGossip{Trx: p, Gossipers: gs}
						} else {
							p := gossip.VerifMapVertexToProto(&vx)
							if !authentic {
								p.Weight++
							}
							m.vrx = &pb.VrxMsgGossip{Vertex: p, Gossipers: gs}
						}
						if !authentic {
							unauthentic = true
						}
						v.queue = append(v.queue, m)
						sym := v.msgSym(m)
						c.Line("GINJECT %d %d %s", dst, b2i(authentic), sym[strings.Index(sym, "{"):])
						c.Distinct(fmt.Sprintf("inject/%s/%v", beh, authentic))
					}
				}
				if c.Rnd.Intn(6) == 0 && steps < 60 {
					k := c.Rnd.Intn(len(v.queue))
					v.queue = append(v.queue, v.queue[k])
					c.Line("GDUP %d", k)
				}
				k := c.Rnd.Intn(len(v.queue))
				out, dst := v.deliver(k)
				if out == "processed" {
					processed[dst]++
				}
				c.Rep.Evals++
				c.Count("deliver." + out)
			}
			admitted := v.final()
			kind := map[bool]string{false: "vrx", true: "trx"}[j.isTrx]
			c.Distinct(fmt.Sprintf("net/n=%d/e=%d/%s/adv=%v", n, edges/2, kind, j.adv))
			info := map[string]interface{}{"section": "gossip", "job": ji, "nodes": n, "adj": j.adj, "origin": j.origin, "kind": kind, "adversary": advNode}
			for i, cnt := range processed {
				if cnt > 1 && !j.isTrx {
					c.Violate("C11", "vertex-processed-twice", fmt.Sprintf("node %d processed and forwarded the same vertex %d times", i, cnt), info)
				}
			}
			if v.badEntry != "" {
				c.Violate("C12", "unverified-entry-treated-as-verified", v.badEntry, info)
			}
			if v.backHome != "" {
				c.Violate("C11", "item-forwarded-to-a-listed-gossiper", v.backHome, info)
			}
			if v.lostEntry != "" {
				c.Violate("C11", "relay-drops-verified-gossiper-entries", v.lostEntry, info)
			}
			if v.sendsMissing > 0 {
				// the harness verifies every gossiper entry itself (address || item hash, signed by that address): a
				// node that received the first authentic copy without being listed forwards to every peer that is
				// not verifiably listed. Forwards that never come mean the nodes judge the lists differently.
				for _, pid := range []string{"C11", "C12"} {
					c.Violate(pid, "expected-forwards-never-sent", fmt.Sprintf("%d deliveries were not followed by the forwards that the verifiable gossiper entries of the delivered copy call for (the nodes count entries as verified, or as signed for this item, that are not)", v.sendsMissing), info)
				}
			}
			if len(v.queue) > 0 {
				c.Violate("C11", "gossip-does-not-terminate", fmt.Sprintf("%d messages still in flight after 400 deliveries", len(v.queue)), info)
			}
			if advNode < 0 && len(admitted) != n {
				c.Violate("C11", "item-not-delivered-to-every-node", fmt.Sprintf("only nodes %v of %d hold the item when the network is quiet", admitted, n), info)
			}
			if advNode >= 0 {
				// honest nodes with an honest path to the origin
				reach := map[int]bool{j.origin: true}
				st := []int{j.origin}
				for len(st) > 0 {
					x := st[len(st)-1]
					st = st[:len(st)-1]
					for _, y := range j.adj[x] {
						if honest[y] && !reach[y] {
							reach[y] = true
							st = append(st, y)
						}
					}
				}
				have := map[int]bool{}
				for _, a := range admitted {
					have[a] = true
				}
				for i := range reach {
					if !have[i] {
						key := "forged-list-suppressed-delivery"
						if unauthentic {
							key = "unauthentic-copy-shadows-item"
						}
						c.Violate("C12", key, fmt.Sprintf("honest node %d has an honest path to origin %d but does not hold the item when the network is quiet (adversary %d)", i, j.origin, advNode), info)
						break
					}
				}
			}
			v.close()
		}
		// ---- the same message delivered to one node by several goroutines at once
		for _, isTrx := range []bool{false, true} {
			rounds := 40
			if c.Tier == "thorough" {
				rounds = 400
			}
			worst := 0
			// one network, a new item per round (the duplicate-suppression memory is keyed by the item)
			adj := [][]int{{1}, {0, 2, 3}, {1}, {1}}
			vnetCacheMB = 1024 // one network, hundreds of items
			v := newVnet(c, 4, adj, []bool{true, true, true, true}, isTrx)
			vnetCacheMB = 64
			v.silent = true
			for r := 0; r < rounds; r++ {
				v.queue = nil
				v.originate(0)
				if len(v.queue) == 0 {
					continue
				}
				m := v.queue[0]
				v.queue = nil
				var wg sync.WaitGroup
				start := make(chan struct{})
				for g := 0; g < 8; g++ {
					wg.Add(1)
					go func() {
						defer wg.Done()
						<-start
						if m.vrx != nil {
							v.gsp[1].Server().GossipVrx(context.Background(), proto.Clone(m.vrx).(*pb.VrxMsgGossip))
						} else {
							v.gsp[1].Server().GossipTrx(context.Background(), proto.Clone(m.trx).(*pb.TrxMsgGossip))
						}
					}()
				}
				close(start)
				wg.Wait()
				v.waitFresh(2)                   // one copy is processed: node 1 forwards to its two unlisted peers
				time.Sleep(3 * time.Millisecond) // a second processing (the defect) would add more shortly after
				v.settle()
				to2 := 0
				for _, q := range v.queue {
					if q.dst == 2 {
						to2++
					}
				}
				if to2 > worst {
					worst = to2
				}
				c.Rep.Evals++
				if isTrx { // keep the awaiting lists short: the next round uses a new item
					for i := range v.caches {
						v.caches[i].RemoveAwaitedTransaction(v.item, v.w.wallets[1].Address())
					}
				}
				if to2 > 1 {
					c.Violate("C11", "concurrent-duplicates-forwarded-twice", fmt.Sprintf("8 simultaneous copies of one %s message at a relay: forwarded %d times to the same peer", map[bool]string{false: "vertex", true: "transaction"}[isTrx], to2),
						map[string]interface{}{"section": "gossip", "scenario": "simultaneous-duplicates", "kind": isTrx, "round": r})
					break
				}
			}
			v.close()
			c.Distinct(fmt.Sprintf("simultaneous-duplicates/trx=%v/max-forwards=%d", isTrx, worst))
		}
		// ---- catalogue of forged gossiper entries, each delivered to an honest node BEFORE the genuine copy:
		// 0 origin, 1 adversary, 2 and 3 honest, 3 reachable only through 2. Whatever the forged list says
		// (naming 2 itself, its peer 3, or both), 2 must take the item in and hand it on to 3.
		for _, isTrx := range []bool{false, true} {
			adj := [][]int{{1, 2}, {0, 2}, {0, 1, 3}, {2}}
			v := newVnet(c, 4, adj, []bool{true, false, true, true}, isTrx)
			v.silent = true
			adv := v.nodes[1].w
			var prev []*pb.Gossiper // genuine entries signed for the previous round's item
			forms := []string{"right-digest-garbage-sig", "right-digest-adversary-sig", "no-digest-adversary-sig", "digest3-garbage-sig", "digest31-no-sig",
				"digest33-adversary-sig", "digest64-garbage-sig", "zero-digest-no-sig", "genuine-entries-of-previous-item",
				"behind-20-failing-entries", "malformed-then-adversary-valid"}
			names := [][]int{{2}, {3}, {2, 3}}
			failed := false
			for fi := 0; fi < len(forms) && !failed; fi++ {
				for _, nm := range names {
					v.queue = nil
					v.originate(0)
					var genuine *qmsg
					for i := range v.queue {
						if v.queue[i].dst == 2 {
							genuine = &v.queue[i]
						}
					}
					if genuine == nil {
						v.close()
						c.Violate("C11", "origin-does-not-forward-to-every-peer", "the origin (peers 1 and 2, empty list) accepted an item and put no message for peer 2 on the wire", map[string]interface{}{"section": "gossip", "scenario": "forged-catalogue"})
						return nil
					}
					var gs, cur []*pb.Gossiper
					if genuine.vrx != nil {
						cur = genuine.vrx.Gossipers
					} else {
						cur = genuine.trx.Gossipers
					}
					for _, x := range nm {
						a := v.nodes[x].w.Address()
						d, sg := recSigner{adv}.Sign(gossip.VerifGossiperMessage(a, v.item))
						e := &pb.Gossiper{Address: a}
						switch forms[fi] {
						case "right-digest-garbage-sig":
							dd := sha256.Sum256(gossip.VerifGossiperMessage(a, v.item))
							e.Digest, e.Signature = dd[:], fill(c, 64, false)
						case "right-digest-adversary-sig":
							e.Digest, e.Signature = d[:], sg
						case "malformed-then-adversary-valid":
							// the entry naming the victim has no digest at all; the adversary's own, perfectly valid
							// entry follows it (appended below): the valid one must not be credited to the other
							e.Digest, e.Signature = nil, nil
							ad, as := recSigner{adv}.Sign(gossip.VerifGossiperMessage(adv.Address(), v.item))
							own := &pb.Gossiper{Address: adv.Address(), Digest: ad[:], Signature: as}
							gs = append(gs, e, own)
							e = nil
						case "behind-20-failing-entries":
							// the forged entry sits at the end of a long list of well-formed entries that fail as
							// well (throw-away names, right digest length): its position must not matter
							if len(gs) == 0 {
								for k := 0; k < 20; k++ {
									pa := fmt.Sprintf("throwaway-%d", k)
									pd := sha256.Sum256(gossip.VerifGossiperMessage(pa, v.item))
									gs = append(gs, &pb.Gossiper{Address: pa, Digest: pd[:], Signature: fill(c, 64, false)})
								}
							}
							e.Digest, e.Signature = d[:], sg
						case "no-digest-adversary-sig":
							e.Signature = sg
						case "digest3-garbage-sig":
							e.Digest, e.Signature = d[:3], fill(c, 64, false)
						case "digest31-no-sig":
							e.Digest = d[:31]
						case "digest33-adversary-sig":
							e.Digest, e.Signature = append(append([]byte{}, d[:]...), 7), sg
						case "digest64-garbage-sig":
							e.Digest, e.Signature = append(append([]byte{}, d[:]...), d[:]...), fill(c, 64, false)
						case "zero-digest-no-sig":
							e.Digest = make([]byte, 32)
						case "genuine-entries-of-previous-item":
							e = nil
							for _, g := range prev {
								if g.Address == a {
									e = g
								}
							}
						}
						if e != nil {
							gs = append(gs, e)
						}
					}
					forged := qmsg{src: 1, dst: 2}
					if genuine.vrx != nil {
						forged.vrx = &pb.VrxMsgGossip{Vertex: proto.Clone(genuine.vrx.Vertex).(*pb.Vertex), Gossipers: gs}
					} else {
						forged.trx = &pb.TrxMsgGossip{Trx: proto.Clone(genuine.trx.Trx).(*pb.Transaction), Gossipers: gs}
					}
					v.queue = append([]qmsg{forged}, v.queue...)
					prev = nil
					for steps := 0; len(v.queue) > 0 && steps < 60; steps++ {
						m := v.queue[0]
						if m.src != 1 {
							if m.vrx != nil {
								prev = append(prev, m.vrx.Gossipers...)
							} else {
								prev = append(prev, m.trx.Gossipers...)
							}
						}
						v.deliver(0)
					}
					_ = cur
					c.Rep.Evals++
					c.Count("forged-catalogue." + forms[fi])
					c.Distinct(fmt.Sprintf("forged-catalogue/%s/%v/trx=%v", forms[fi], nm, isTrx))
					if !v.hasItem(2) || !v.hasItem(3) {
						c.Violate("C12", "forged-entry-suppressed-delivery", fmt.Sprintf("forged entries of the form %s naming nodes %v, delivered to honest node 2 before the genuine copy: node 2 holds the item: %v, node 3 (reachable only through 2): %v", forms[fi], nm, v.hasItem(2), v.hasItem(3)),
							map[string]interface{}{"section": "gossip", "scenario": "forged-catalogue", "form": forms[fi], "names": nm, "trx": isTrx})
						failed = true
						break
					}
				}
			}
			v.close()
		}
		// ---- a burst of locally accepted items at one node, far more than the hand-over buffer between the
		// notary and the gossip origin loops holds: every one of them must still reach the neighbour
		{
			vnetPipeSize = 4
			v := newVnet(c, 2, [][]int{{1}, {0}}, []bool{true, true}, false)
			vnetPipeSize = 100
			v.silent = true
			ctx, cancel := context.WithCancel(context.Background())
			v.gsp[0].RunOrigin(ctx)
			rich, other := v.w.wallets[0], v.w.wallets[1]
			burst := 150
			wantV, wantT := map[[32]byte]bool{}, map[[32]byte]bool{}
			var vxs []*accountant.Vertex
			var pts []*pb.Transaction
			for i := 0; i < burst; i++ {
				t, _ := transaction.New("pay", spice.Melange{SupplementaryCurrency: uint64(i + 1)}, nil, other.Address(), recSigner{rich})
				if vx, err := v.nodes[0].ab.CreateLeaf(context.Background(), &t); err == nil {
					wantV[vx.Hash] = true
					cp := vx
					vxs = append(vxs, &cp)
				}
				ct, _ := transaction.New("deal", spice.Melange{}, []byte{byte(i), byte(i >> 8)}, other.Address(), recSigner{rich})
				if v.caches[0].SaveAwaitedTransaction(&ct) == nil {
					if p, err := transformers.TrxToProtoTrx(ct); err == nil {
						wantT[ct.Hash] = true
						pts = append(pts, p)
					}
				}
			}
			// the burst itself: everything handed over back to back
			for _, vx := range vxs {
				v.pipes[0].SendVrx(vx)
			}
			for _, p := range pts {
				v.pipes[0].SendTrx(p)
			}
			gotV, gotT := map[[32]byte]int{}, map[[32]byte]int{}
			deadline := time.Now().Add(15 * time.Second)
			for time.Now().Before(deadline) {
				v.mux.Lock()
				fr := v.fresh
				v.fresh = nil
				v.mux.Unlock()
				for _, m := range fr {
					if m.vrx != nil && len(m.vrx.Vertex.Hash) == 32 {
						gotV[[32]byte(m.vrx.Vertex.Hash)]++
					}
					if m.trx != nil && len(m.trx.Trx.Hash) == 32 {
						gotT[[32]byte(m.trx.Trx.Hash)]++
					}
				}
				if len(gotV) >= len(wantV) && len(gotT) >= len(wantT) {
					break
				}
				time.Sleep(2 * time.Millisecond)
			}
			cancel()
			c.Rep.Evals++
			c.Count("burst-at-origin")
			c.Distinct(fmt.Sprintf("burst-at-origin/%d", burst))
			missV, missT, dup := 0, 0, 0
			for h := range wantV {
				if gotV[h] == 0 {
					missV++
				}
				if gotV[h] > 1 {
					dup++
				}
			}
			for h := range wantT {
				if gotT[h] == 0 {
					missT++
				}
				if gotT[h] > 1 {
					dup++
				}
			}
			if missV+missT > 0 {
				c.Violate("C11", "burst-at-origin-items-never-gossiped", fmt.Sprintf("a burst of %d vertices and %d awaiting transactions accepted at one node (hand-over buffer 4): %d vertices and %d transactions never reached its only neighbour", len(wantV), len(wantT), missV, missT),
					map[string]interface{}{"section": "gossip", "scenario": "burst-at-origin", "burst": burst})
			}
			if dup > 0 {
				c.Violate("C11", "burst-at-origin-items-gossiped-twice", fmt.Sprintf("%d items of the burst were sent to the neighbour more than once", dup),
					map[string]interface{}{"section": "gossip", "scenario": "burst-at-origin", "burst": burst})
			}
			v.close()
		}
		// ---- one transaction travels twice: first as an awaiting contract (transaction gossip), later sealed in a
		// vertex (vertex gossip). The two are different items: having seen / signed the first says nothing about
		// the second. Line 0-1-2; with and without a relay that replays the transaction-gossip entries.
		for _, replay := range []bool{false, true} {
			v := newVnet(c, 3, [][]int{{1}, {0, 2}, {1}}, []bool{true, true, true}, true)
			v.silent = true
			rich, other := v.w.wallets[0], v.w.wallets[1]
			ctx, cancel := context.WithCancel(context.Background())
			v.gsp[0].RunOrigin(ctx)
			ct, _ := transaction.New("deal", spice.Melange{}, []byte("terms"), other.Address(), recSigner{rich})
			v.caches[0].SaveAwaitedTransaction(&ct)
			v.item = ct.Hash
			pt, _ := transformers.TrxToProtoTrx(ct)
			v.pipes[0].SendTrx(pt)
			v.waitFresh(1)
			v.settle()
			var trail []*pb.Gossiper // genuine entries signed over the TRANSACTION hash
			for steps := 0; len(v.queue) > 0 && steps < 20; steps++ {
				if v.queue[0].trx != nil {
					trail = append(trail, v.queue[0].trx.Gossipers...)
				}
				v.deliver(0)
			}
			// the receiver countersigns, node 0 seals the contract in a vertex and gossips the vertex
			if _, err := ct.Sign(recSigner{other}, v.w.ver); err != nil {
				cancel()
				v.close()
				return fmt.Errorf("trx-then-vertex scenario: countersign: %v", err)
			}
			vx, err := v.nodes[0].ab.CreateLeaf(context.Background(), &ct)
			if err != nil {
				cancel()
				v.close()
				return fmt.Errorf("trx-then-vertex scenario: seal: %v", err)
			}
			v.isTrx = false
			v.item = vx.Hash
			v.seenAt = map[int]bool{}
			v.pipes[0].SendVrx(&vx)
			v.waitFresh(1)
			v.settle()
			if replay && len(v.queue) > 0 && v.queue[0].vrx != nil {
				// a copy of the vertex message that lists, in addition, everybody's entries from the transaction gossip
				forged := qmsg{src: 0, dst: 1, vrx: &pb.VrxMsgGossip{Vertex: proto.Clone(v.queue[0].vrx.Vertex).(*pb.Vertex),
					Gossipers: append(append([]*pb.Gossiper{}, v.queue[0].vrx.Gossipers...), trail...)}}
				v.queue = append([]qmsg{forged}, v.queue[1:]...)
			}
			for steps := 0; len(v.queue) > 0 && steps < 30; steps++ {
				if replay && v.queue[0].vrx != nil && v.queue[0].src == 1 {
					// the relay's own forward towards node 2: the adversarial variant adds the trail here as well
					v.queue[0].vrx.Gossipers = append(v.queue[0].vrx.Gossipers, trail...)
				}
				v.deliver(0)
			}
			cancel()
			c.Rep.Evals++
			c.Count("trx-then-vertex")
			c.Distinct(fmt.Sprintf("trx-then-vertex/replay=%v", replay))
			for i := 1; i <= 2; i++ {
				if !v.hasItem(i) {
					pid, key := "C11", "vertex-sealing-a-gossiped-transaction-not-delivered"
					if replay {
						pid, key = "C12", "transaction-gossip-entries-accepted-for-the-vertex"
					}
					c.Violate(pid, key, fmt.Sprintf("a contract was gossiped as awaiting transaction, then sealed at node 0 and the vertex gossiped (replayed transaction-gossip entries: %v): node %d does not hold the vertex", replay, i),
						map[string]interface{}{"section": "gossip", "scenario": "trx-then-vertex", "replay": replay})
					break
				}
			}
			v.close()
		}
		// ---- one contract proposed at TWO nodes (a client retry / fail-over): node B (1) already holds it as
		// awaiting when the gossip from node A (0) arrives, twice (directly and relayed by C (2)). B forwards it to
		// D (3) once per duplicate-suppression window, not once per copy.
		{
			v := newVnet(c, 4, [][]int{{1, 2}, {0, 2, 3}, {0, 1}, {1}}, []bool{true, true, true, true}, true)
			v.silent = true
			rich, other := v.w.wallets[0], v.w.wallets[1]
			ctx, cancel := context.WithCancel(context.Background())
			v.gsp[0].RunOrigin(ctx)
			ct, _ := transaction.New("deal", spice.Melange{}, []byte("twice"), other.Address(), recSigner{rich})
			cb := ct
			v.caches[1].SaveAwaitedTransaction(&cb) // B's notary accepted the same proposal
			v.caches[0].SaveAwaitedTransaction(&ct)
			v.item = ct.Hash
			pt, _ := transformers.TrxToProtoTrx(ct)
			v.pipes[0].SendTrx(pt)
			v.waitFresh(2)
			v.settle()
			cancel()
			toD := 0
			for steps := 0; len(v.queue) > 0 && steps < 40; steps++ {
				if v.queue[0].src == 1 && v.queue[0].dst == 3 {
					toD++
				}
				v.deliver(0)
			}
			c.Rep.Evals++
			c.Count("double-origin")
			c.Distinct(fmt.Sprintf("double-origin/toD=%d", toD))
			if toD > 1 {
				c.Violate("C11", "awaiting-transaction-forwarded-more-than-once", fmt.Sprintf("node B already held the contract as awaiting; the gossip reached it directly and through C: B forwarded it to D %d times", toD),
					map[string]interface{}{"section": "gossip", "scenario": "double-origin"})
			}
			if !v.hasItem(3) {
				c.Violate("C11", "awaiting-transaction-not-delivered-behind-second-origin", "node D (reachable only through B, which already held the contract) never received it",
					map[string]interface{}{"section": "gossip", "scenario": "double-origin"})
			}
			v.close()
		}
		// ---- a peer joins while an item is being processed: the relay M (1) hands A (2) a vertex whose list carries
		// M's own entry and a forged entry naming H (3) - right digest, M's signature. H is not yet a peer of A
		// when the message arrives; its handshake completes while A's ledger is still busy with the vertex. A must
		// forward the vertex to H (nothing valid says H has it) and must not pass the forged entry on.
		for _, isTrx := range []bool{false, true} {
			// (B (4) is a peer of A from the start: what A forwards is visible in both variants. A transaction
			// message does not touch the ledger, so the harness cannot stretch its processing: for transactions only
			// the forwarded list is judged.)
			v := newVnet(c, 5, [][]int{{1}, {0, 2}, {1, 4}, {}, {2}}, []bool{true, false, true, true, true}, isTrx)
			v.silent = true
			rich, other := v.w.wallets[0], v.w.wallets[1]
			var msgV *pb.VrxMsgGossip
			var msgT *pb.TrxMsgGossip
			entry := func(named, key int) *pb.Gossiper {
				d, sg := recSigner{v.nodes[key].w}.Sign(gossip.VerifGossiperMessage(v.nodes[named].w.Address(), v.item))
				return &pb.Gossiper{Address: v.nodes[named].w.Address(), Digest: d[:], Signature: sg}
			}
			if isTrx {
				ct, _ := transaction.New("deal", spice.Melange{}, []byte("joining"), other.Address(), recSigner{rich})
				v.item = ct.Hash
				pt, _ := transformers.TrxToProtoTrx(ct)
				msgT = &pb.TrxMsgGossip{Trx: pt, Gossipers: []*pb.Gossiper{entry(1, 1), entry(3, 1)}}
			} else {
				t, _ := transaction.New("pay", spice.Melange{Currency: 5}, nil, other.Address(), recSigner{rich})
				vx, err := v.nodes[0].ab.CreateLeaf(context.Background(), &t)
				if err != nil {
					return fmt.Errorf("joining-peer scenario: seal: %v", err)
				}
				v.item = vx.Hash
				msgV = &pb.VrxMsgGossip{Vertex: gossip.VerifMapVertexToProto(&vx), Gossipers: []*pb.Gossiper{entry(1, 1), entry(3, 1)}}
			}
			release := make(chan struct{})
			held := make(chan struct{})
			go v.nodes[2].ab.VerifHoldLedger(func() { close(held); <-release })
			<-held
			done := make(chan error, 1)
			go func() {
				var e error
				if isTrx {
					_, e = v.gsp[2].Server().GossipTrx(context.Background(), msgT)
				} else {
					_, e = v.gsp[2].Server().GossipVrx(context.Background(), msgV)
				}
				done <- e
			}()
			time.Sleep(60 * time.Millisecond)
			v.gsp[2].SetPeer(v.nodes[3].w.Address(), "url-3", &netStub{net: v, src: 2, dst: 3}) // H's handshake completes
			v.adj[2] = append(v.adj[2], 3)
			time.Sleep(20 * time.Millisecond)
			close(release)
			var herr error
			select {
			case herr = <-done:
			case <-time.After(10 * time.Second):
				herr = fmt.Errorf("handler did not return")
			}
			if isTrx {
				v.waitFresh(1)
			} else {
				v.waitFresh(2)
			}
			v.settle()
			toH, forgedOn := 0, ""
			if os.Getenv("VDEBUG") != "" {
				fmt.Fprintf(os.Stderr, "joining trx=%v herr=%v queue=%d fresh=%d has2=%v\n", isTrx, herr, len(v.queue), len(v.fresh), v.hasItem(2))
				for _, m := range v.queue {
					fmt.Fprintf(os.Stderr, "  %d->%d %s\n", m.src, m.dst, v.msgSym(m))
				}
			}
			for _, m := range v.queue {
				if m.src != 2 {
					continue
				}
				if m.dst == 3 {
					toH++
				}
				var gs []*pb.Gossiper
				if m.vrx != nil {
					gs = m.vrx.Gossipers
				} else {
					gs = m.trx.Gossipers
				}
				for _, g := range gs {
					if sym := v.entrySym(g); strings.HasPrefix(sym, "3:1:") {
						forgedOn = fmt.Sprintf("to node %d: %s", m.dst, sym)
					}
				}
			}
			c.Rep.Evals++
			c.Count("joining-peer")
			c.Distinct(fmt.Sprintf("joining-peer/trx=%v toH=%d forged=%v", isTrx, toH, forgedOn != ""))
			info := map[string]interface{}{"section": "gossip", "scenario": "peer-joins-mid-processing", "trx": isTrx}
			if herr == nil && toH == 0 && !isTrx && v.hasItem(2) {
				c.Violate("C12", "forged-entry-suppresses-joining-peer", "A accepted the item from the relay; a forged entry (relay's signature) named H, which became A's peer while the item was processed: A never forwarded the item to H", info)
			}
			if forgedOn != "" {
				c.Violate("C12", "unverified-entry-forwarded", "A passed on a gossiper entry that names H but carries the relay's signature ("+forgedOn+"): entries that do not verify are to be ignored, not relayed", info)
			}
			v.close()
		}
		// ---- a vertex with two DIFFERENT parents reaches a node that has neither: the node fetches both from its
		// peers (real GetVertex handlers), admits them, and the parked child is admitted by the next retries
		{
			v := newVnet(c, 3, [][]int{{1, 2}, {0, 2}, {0, 1}}, []bool{true, true, true}, false)
			v.silent = true
			v.serveFetch = true
			rich, other := v.w.wallets[0], v.w.wallets[1]
			mk := func(n int, cur uint64) (accountant.Vertex, error) {
				t, _ := transaction.New("pay", spice.Melange{Currency: cur}, nil, other.Address(), recSigner{rich})
				return v.nodes[n].ab.CreateLeaf(context.Background(), &t)
			}
			l, e1 := mk(0, 1)
			r, e2 := mk(1, 2)
			if e1 == nil && e2 == nil {
				lc, rc := l, r
				v.nodes[1].ab.AddLeaf(context.Background(), &lc)
				v.nodes[0].ab.AddLeaf(context.Background(), &rc)
				child, e3 := mk(0, 3)
				if e3 == nil && child.LeftParentHash != child.RightParentHash {
					cc := child
					v.nodes[1].ab.AddLeaf(context.Background(), &cc)
					ctx, cancel := context.WithCancel(context.Background())
					v.gsp[0].RunOrigin(ctx)
					v.item = child.Hash
					v.pipes[0].SendVrx(&child)
					v.waitFresh(2)
					v.settle()
					cancel()
					for _, m := range v.queue {
						if m.dst == 2 && m.vrx != nil {
							v.gsp[2].Server().GossipVrx(context.Background(), m.vrx)
						}
					}
					v.queue = nil
					// the fetches run in goroutines: give them time, then retry the parked child
					deadline := time.Now().Add(5 * time.Second)
					for time.Now().Before(deadline) && !v.hasItem(2) {
						time.Sleep(20 * time.Millisecond)
						v.nodes[2].ab.VerifRetryParked(context.Background())
					}
					c.Rep.Evals++
					c.Count("merge-child-first")
					c.Distinct("merge-child-first")
					if !v.hasItem(2) {
						sn := v.nodes[2].ab.VerifSnapshot()
						have := map[[32]byte]bool{}
						for _, x := range sn.Vertices {
							have[x.Hash] = true
						}
						c.Violate("C13", "merge-vertex-before-both-parents-never-admitted", fmt.Sprintf("a vertex with two different parents reached a node that had neither, its peers serve both: after 5 s the node holds left parent: %v, right parent: %v, the vertex: false", have[child.LeftParentHash], have[child.RightParentHash]),
							map[string]interface{}{"section": "gossip", "scenario": "merge-child-first"})
					}
				}
			}
			v.close()
		}
		// ---- many orphans that miss only ONE of two different parents: the node asks its peers for both (the one it
		// holds is answered with "already exists"), and keeps doing so: the 260th such orphan gets its missing
		// parent fetched like the first (the node's own limit on parallel fetches is 250)
		{
			v := newVnet(c, 2, [][]int{{1}, {0}}, []bool{true, true}, false)
			v.silent = true
			v.serveFetch = true
			gen := genesisOf(v.nodes[0].ab)
			rich, other := v.w.wallets[0], v.w.wallets[1]
			sealer := v.nodes[0].w
			rounds := 262
			failedAt, reason := -1, ""
			// the parent both nodes hold: an ordinary vertex (the genesis vertex would be refused as self-sealed
			// before the ledger even looks whether it has it)
			kt, _ := transaction.New("k", spice.Melange{}, []byte("known"), other.Address(), recSigner{rich})
			known, _ := accountant.NewVertex(kt, gen.Hash, gen.Hash, 1, recSigner{sealer})
			for _, nd := range v.nodes {
				kc := known
				if err := nd.ab.AddLeaf(context.Background(), &kc); err != nil {
					failedAt, reason = 0, "set-up: the known parent was refused: "+err.Error()
				}
			}
			for i := 0; i < rounds && failedAt < 0; i++ {
				pt, _ := transaction.New("p", spice.Melange{}, []byte{byte(i), byte(i >> 8), 'p'}, other.Address(), recSigner{rich})
				pv, e1 := accountant.NewVertex(pt, gen.Hash, gen.Hash, 1, recSigner{sealer})
				ct, _ := transaction.New("c", spice.Melange{}, []byte{byte(i), byte(i >> 8), 'c'}, other.Address(), recSigner{rich})
				cv, e2 := accountant.NewVertex(ct, known.Hash, pv.Hash, 2, recSigner{sealer})
				if e1 != nil || e2 != nil {
					break
				}
				pc := pv
				if err := v.nodes[0].ab.AddLeaf(context.Background(), &pc); err != nil {
					break
				}
				v.gsp[1].Server().GossipVrx(context.Background(), &pb.VrxMsgGossip{Vertex: gossip.VerifMapVertexToProto(&cv)})
				deadline := time.Now().Add(3 * time.Second)
				got := false
				for time.Now().Before(deadline) {
					if _, err := v.nodes[1].ab.ReadVertex(context.Background(), pv.Hash); err == nil {
						got = true
						break
					}
					time.Sleep(2 * time.Millisecond)
				}
				if !got {
					failedAt, reason = i, "its missing parent was not fetched from the peer within 3 s"
					break
				}
				// the parked orphan is admitted by a retry
				for k := 0; k < 5; k++ {
					v.nodes[1].ab.VerifRetryParked(context.Background())
				}
				if _, err := v.nodes[1].ab.ReadVertex(context.Background(), cv.Hash); err != nil {
					failedAt, reason = i, "the orphan was not admitted by the retries after its parent had arrived"
				}
			}
			c.Rep.Evals++
			c.Count("half-known-orphans")
			c.Distinct("half-known-orphans")
			if failedAt >= 0 {
				c.Violate("C13", "parent-fetch-stops-after-many-half-known-orphans", fmt.Sprintf("orphan number %d with one known and one unknown parent: %s", failedAt+1, reason),
					map[string]interface{}{"section": "gossip", "scenario": "half-known-orphans", "orphan": failedAt + 1})
			}
			v.close()
		}
		// ---- a burst of orphans against a slow peer: 250 parent fetches are in flight (the node's own limit), 250 more
		// orphans arrive and their fetches are turned away; once the peer has answered, the node fetches missing
		// parents again as before
		{
			v := newVnet(c, 2, [][]int{{1}, {0}}, []bool{true, true}, false)
			v.silent = true
			v.serveFetch = true
			hold := make(chan struct{})
			v.mux.Lock()
			v.holdFetch = hold
			v.mux.Unlock()
			gen := genesisOf(v.nodes[0].ab)
			rich, other := v.w.wallets[0], v.w.wallets[1]
			sealer := v.nodes[0].w
			mk := func(i int, tag byte) (accountant.Vertex, accountant.Vertex, bool) {
				pt, _ := transaction.New("p", spice.Melange{}, []byte{byte(i), byte(i >> 8), tag, 'p'}, other.Address(), recSigner{rich})
				pv, e1 := accountant.NewVertex(pt, gen.Hash, gen.Hash, 1, recSigner{sealer})
				ct, _ := transaction.New("c", spice.Melange{}, []byte{byte(i), byte(i >> 8), tag, 'c'}, other.Address(), recSigner{rich})
				cv, e2 := accountant.NewVertex(ct, pv.Hash, pv.Hash, 2, recSigner{sealer})
				if e1 != nil || e2 != nil {
					return pv, cv, false
				}
				pc := pv
				return pv, cv, v.nodes[0].ab.AddLeaf(context.Background(), &pc) == nil
			}
			fetchCount := func() int { v.mux.Lock(); defer v.mux.Unlock(); return len(v.fetches) }
			ok := true
			for i := 0; i < 250 && ok; i++ {
				_, cv, good := mk(i, 1)
				ok = good
				v.gsp[1].Server().GossipVrx(context.Background(), &pb.VrxMsgGossip{Vertex: gossip.VerifMapVertexToProto(&cv)})
			}
			for t := 0; ok && t < 3000 && fetchCount() < 250; t++ {
				time.Sleep(time.Millisecond)
			}
			inFlight := fetchCount()
			for i := 0; i < 249 && ok; i++ { // turned away: the limit is reached (249 orphans: the buffer holds 500)
				// each of these misses two different parents: two fetches turned away per orphan
				pa, _, g1 := mk(i, 2)
				pb2, _, g2 := mk(i, 4)
				ct, _ := transaction.New("c2", spice.Melange{}, []byte{byte(i), byte(i >> 8), 5, 'c'}, other.Address(), recSigner{rich})
				cv, e := accountant.NewVertex(ct, pa.Hash, pb2.Hash, 2, recSigner{sealer})
				ok = g1 && g2 && e == nil
				v.gsp[1].Server().GossipVrx(context.Background(), &pb.VrxMsgGossip{Vertex: gossip.VerifMapVertexToProto(&cv)})
			}
			time.Sleep(50 * time.Millisecond)
			v.mux.Lock()
			v.holdFetch = nil
			v.mux.Unlock()
			close(hold)
			time.Sleep(300 * time.Millisecond) // the held fetches complete
			// drain the orphan buffer (children whose parents arrived are admitted, the others use up their retries)
			for k := 0; k < 16000; k++ {
				if _, had, _ := v.nodes[1].ab.VerifRetryParked(context.Background()); !had {
					break
				}
			}
			pv, cv, good := mk(999, 3)
			c.Rep.Evals++
			c.Count("fetch-burst")
			c.Distinct("fetch-burst")
			if ok && good && inFlight >= 250 {
				v.gsp[1].Server().GossipVrx(context.Background(), &pb.VrxMsgGossip{Vertex: gossip.VerifMapVertexToProto(&cv)})
				got := false
				for t := 0; t < 1500 && !got; t++ {
					if _, err := v.nodes[1].ab.ReadVertex(context.Background(), pv.Hash); err == nil {
						got = true
					}
					time.Sleep(2 * time.Millisecond)
				}
				if !got {
					c.Violate("C13", "parent-fetch-stops-after-a-burst", "250 parent fetches were in flight against a slow peer and 498 more were turned away; after the peer had answered them all, a new orphan's missing parent was not fetched within 3 s",
						map[string]interface{}{"section": "gossip", "scenario": "fetch-burst"})
				}
			} else {
				c.Count("fetch-burst.not-reached")
			}
			v.close()
		}
		// ---- a copy that is refused for a reason that passes (the node is still syncing) must not shadow the copy
		// that arrives by another path once the reason is gone
		{
			w := NewWorld(c)
			w.quiet = true
			a := w.NewNode()
			d := w.NewNode() // not loaded yet
			rich := w.NewWallet()
			other := w.NewWallet()
			w.Genesis(a, rich.Address(), spice.Melange{Currency: 1000})
			var before []*accountant.Vertex
			for v := range a.ab.StreamDAG(context.Background()) {
				cp := *v
				before = append(before, &cp)
			}
			t, _ := transaction.New("pay", spice.Melange{Currency: 5}, nil, other.Address(), recSigner{rich})
			vx, err := a.ab.CreateLeaf(context.Background(), &t)
			if err == nil {
				hc, _ := cache.New(100, 16)
				fl, _ := cache.NewFlash()
				g := gossip.VerifNewGossiper(nopLog{}, time.Second, recSigner{d.w}, w.ver, d.ab, hc, fl, pipe.New(10, 10), "d")
				entry := func(wl *wallet.Wallet) *pb.Gossiper {
					dg, sg := recSigner{wl}.Sign(gossip.VerifGossiperMessage(wl.Address(), vx.Hash))
					return &pb.Gossiper{Address: wl.Address(), Digest: dg[:], Signature: sg}
				}
				relay := w.NewWallet()
				_, e1 := g.Server().GossipVrx(context.Background(), &pb.VrxMsgGossip{Vertex: gossip.VerifMapVertexToProto(&vx), Gossipers: []*pb.Gossiper{entry(a.w)}})
				// the node finishes syncing (from a peer that did not have the vertex yet)
				ch := make(chan *accountant.Vertex, len(before)+1)
				for _, bv := range before {
					ch <- bv
				}
				close(ch)
				_, cancel := context.WithCancelCause(context.Background())
				d.ab.LoadDag(cancel, ch)
				cancel(nil)
				_, e2 := g.Server().GossipVrx(context.Background(), &pb.VrxMsgGossip{Vertex: gossip.VerifMapVertexToProto(&vx), Gossipers: []*pb.Gossiper{entry(a.w), entry(relay)}})
				_, rerr := d.ab.ReadVertex(context.Background(), vx.Hash)
				c.Rep.Evals++
				c.Count("refused-then-second-copy")
				c.Distinct("refused-then-second-copy")
				if e1 != nil && d.ab.DagLoaded() && rerr != nil {
					c.Violate("C11", "refused-copy-shadows-later-copy", fmt.Sprintf("a vertex reached a node that was still syncing (refused: %v); after the sync a second copy arrived by another path (answer: %v) and the node still does not hold the vertex", e1, e2),
						map[string]interface{}{"section": "gossip", "scenario": "refused-then-second-copy"})
				}
			}
			w.Close()
		}
		// ---- bait: the adversary (1) knows an item before the victim (2) does, sends the victim a vertex that
		// names the item as its parent, watches the victim ask its peers for that parent, and then relays the
		// item listing the victim with the signature taken from that request. A signature given for something
		// else (a fetch request) must not count as "the victim already has the item".
		{
			adj := [][]int{{1, 2}, {0, 2}, {0, 1, 3}, {2}}
			v := newVnet(c, 4, adj, []bool{true, false, true, true}, false)
			v.silent = true
			v.originate(0)
			var toVictim *qmsg
			for i := range v.queue {
				if v.queue[i].dst == 2 {
					toVictim = &v.queue[i]
				}
			}
			if toVictim != nil {
				honestCopy := *toVictim
				v.queue = nil
				adv := v.nodes[1].w
				item := v.item
				itemV := gossip.VerifMapProtoToVertex(honestCopy.vrx.Vertex)
				bt, _ := transaction.New("bait", spice.Melange{}, []byte("bait"), v.w.wallets[0].Address(), recSigner{v.w.wallets[1]})
				bait, _ := accountant.NewVertex(bt, item, item, itemV.Weight+1, recSigner{adv})
				d, sg := recSigner{adv}.Sign(gossip.VerifGossiperMessage(adv.Address(), bait.Hash))
				v.gsp[2].Server().GossipVrx(context.Background(), &pb.VrxMsgGossip{Vertex: gossip.VerifMapVertexToProto(&bait),
					Gossipers: []*pb.Gossiper{{Address: adv.Address(), Digest: d[:], Signature: sg}}})
				var req *pb.SignedHash
				for i := 0; i < 2000 && req == nil; i++ {
					v.mux.Lock()
					for _, f := range v.fetches {
						if f.src == 2 && f.dst == 1 && bytes.Equal(f.req.Data, item[:]) {
							req = f.req
						}
					}
					v.mux.Unlock()
					time.Sleep(time.Millisecond)
				}
				v.settle()
				v.queue = nil
				c.Rep.Evals++
				c.Count("bait." + map[bool]string{true: "fetch-request-seen", false: "no-fetch-request"}[req != nil])
				c.Distinct("bait")
				if req != nil {
					forged := &pb.VrxMsgGossip{Vertex: proto.Clone(honestCopy.vrx.Vertex).(*pb.Vertex),
						Gossipers: append(append([]*pb.Gossiper{}, honestCopy.vrx.Gossipers...), &pb.Gossiper{Address: req.Address, Digest: req.Hash, Signature: req.Signature})}
					v.queue = []qmsg{{src: 1, dst: 2, vrx: forged}, honestCopy}
					for steps := 0; len(v.queue) > 0 && steps < 40; steps++ {
						v.deliver(0)
					}
					if !v.hasItem(2) || !v.hasItem(3) {
						c.Violate("C12", "fetch-request-signature-accepted-as-gossiper-entry", fmt.Sprintf("the adversary listed the victim with the signature of the victim's own parent-fetch request: victim holds the item: %v, the node behind it: %v", v.hasItem(2), v.hasItem(3)),
							map[string]interface{}{"section": "gossip", "scenario": "bait"})
					}
				}
			}
			v.close()
		}
		// ---- two items out of order: the child vertex reaches a relay before its parent
		for rep := 0; rep < 2; rep++ {
			adj := [][]int{{1}, {0, 2}, {1}}
			v := newVnet(c, 3, adj, []bool{true, true, true}, false)
			c.Line("GACCEPT 1 0") // node 1's ledger will refuse the item when it arrives (parent unknown)
			rich, other := v.w.wallets[0], v.w.wallets[1]
			ctx, cancel := context.WithCancel(context.Background())
			v.gsp[0].RunOrigin(ctx)
			t1, _ := transaction.New("pay", spice.Melange{Currency: 1}, nil, other.Address(), recSigner{rich})
			v1, err1 := v.nodes[0].ab.CreateLeaf(context.Background(), &t1)
			t2, _ := transaction.New("pay", spice.Melange{Currency: 2}, nil, other.Address(), recSigner{rich})
			v2, err2 := v.nodes[0].ab.CreateLeaf(context.Background(), &t2)
			if err1 != nil || err2 != nil || v2.LeftParentHash != v1.Hash {
				cancel()
				v.close()
				return fmt.Errorf("reorder scenario: could not build parent/child (%v %v)", err1, err2)
			}
			v.item = v2.Hash
			v.pipes[0].SendVrx(&v1)
			v.pipes[0].SendVrx(&v2)
			v.waitFresh(2)
			v.settle()
			var m1, m2 *qmsg
			for i := range v.queue {
				if bytes.Equal(v.queue[i].vrx.Vertex.Hash, v1.Hash[:]) {
					m1 = &v.queue[i]
				} else {
					m2 = &v.queue[i]
				}
			}
			cancel()
			if m1 == nil || m2 == nil {
				v.close()
				c.Violate("C11", "origin-does-not-forward-to-every-peer", "the origin accepted two vertices and did not put both on the wire for its peer", map[string]interface{}{"section": "gossip", "scenario": "child-before-parent"})
				return nil
			}
			c.Line("GORIGIN 0 | %s", v.msgSym(*m2))
			_, e2 := v.gsp[1].Server().GossipVrx(context.Background(), m2.vrx) // child first
			v.queue = nil
			out := "processed"
			if e2 != nil {
				out = "rejected"
			}
			fwd := v.settle()
			c.Line("GDELIVER 0 | 1 %s | %s", out, fwd)
			if fwd != "-" {
				c.Violate("C11", "vertex-forwarded-before-own-ledger-accepted-it", "the child vertex reached relay 1 before its parent (its ledger parks it, handler result: "+out+"): the relay forwarded it all the same: "+fwd,
					map[string]interface{}{"section": "gossip", "scenario": "child-before-parent"})
			}
			time.Sleep(20 * time.Millisecond) // the relay's fetch of the missing parent from its peers has failed by now
			v.gsp[1].Server().GossipVrx(context.Background(), m1.vrx) // then the parent (not part of the item's trace)
			v.settle()
			if snap := v.nodes[1].ab.VerifSnapshot(); !func() bool {
				for _, x := range snap.Vertices {
					if x.Hash == v1.Hash {
						return true
					}
				}
				return false
			}() {
				c.Violate("C13", "parent-gossiped-after-failed-fetch-is-dropped", "the child reached the relay first, the fetch of its parent from the peers failed, then the parent arrived by ordinary gossip: the relay did not admit the parent",
					map[string]interface{}{"section": "gossip", "scenario": "child-before-parent"})
			}
			for _, m := range v.queue { // whatever the relay forwards now goes on to node 2
				v.gsp[m.dst].Server().GossipVrx(context.Background(), m.vrx)
			}
			v.queue = nil
			v.settle()
			// one tick of the relay's orphan buffer (runLeafSubscriber): the parked child is retried
			for k := 0; k < 3; k++ {
				if _, had, _ := v.nodes[1].ab.VerifRetryParked(context.Background()); !had {
					break
				}
			}
			v.settle()
			if v.hasItem(1) {
				c.Line("GRETRY 1")
			}
			var ad []string
			for i := range v.nodes {
				if v.hasItem(i) {
					ad = append(ad, fmt.Sprint(i))
				}
			}
			c.Line("GFINAL | %s | *", strings.Join(ad, ","))
			c.Rep.Evals++
			c.Distinct(fmt.Sprintf("reorder/relay-has=%v/last-has=%v", v.hasItem(1), v.hasItem(2)))
			if !v.hasItem(1) {
				c.Violate("C13", "child-before-parent-never-admitted", "line 0-1-2: the child vertex reached relay 1 before its parent; after the parent arrived and the orphan buffer was retried the relay still does not hold the child",
					map[string]interface{}{"section": "gossip", "scenario": "child-before-parent"})
			}
			if !v.hasItem(2) {
				c.Violate("C11", "parked-vertex-never-forwarded", fmt.Sprintf("line 0-1-2: the child vertex reached relay 1 before its parent; relay holds it now: %v; node 2 never receives it", v.hasItem(1)),
					map[string]interface{}{"section": "gossip", "scenario": "child-before-parent"})
			}
			v.close()
		}
		c.Sample(map[string]interface{}{"line": "GDELIVER 3 | 2 processed | 0{1:1:1,2:2:1};3{1:1:1,2:2:1}"})
		return nil
	}
}
