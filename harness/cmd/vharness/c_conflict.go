package main

// Section "conflict": the deterministic two-node schedule behind the C02 known finding
// merge-of-conflicting-tips (DESIGN.md §11): wallet w holds 10; `w->x 10` is proposed at node A and
// `w->y 10` at node B on the same tip; the vertices cross by gossip; the next proposal at A takes both
// as parents. Each is validated against its own ancestors only, so both become confirmed.

import (
	"github.com/bartossh/Computantis/src/spice"
)

func init() {
	sections["conflict"] = func(c *Ctx) error {
		c.Rep.Rule = "deterministic 2-node double-spend schedule (public API only) + the same schedule with the second spend arriving after the first was confirmed (must be rejected)"
		for variant := 0; variant < 2; variant++ {
			w := NewWorld(c)
			a, b := w.NewNode(), w.NewNode()
			ww, x, y := w.NewWallet(), w.NewWallet(), w.NewWallet()
			supply := spice.Melange{Currency: 10}
			if _, err := w.Genesis(a, ww.Address(), supply); err != nil {
				return err
			}
			if err := w.syncFrom(a, b); err != nil {
				return err
			}
			t1 := w.NewTrx(ww, x.Address(), spice.Melange{Currency: 10}, nil)
			t2 := w.NewTrx(ww, y.Address(), spice.Melange{Currency: 10}, nil)
			v1, err := w.Propose(a, &t1)
			if err != nil {
				return err
			}
			if variant == 1 {
				// control: first spend already confirmed on A before the conflicting one arrives there
				t0 := w.NewTrx(x, y.Address(), spice.Melange{}, []byte("confirm"))
				w.Propose(a, &t0)
			}
			v2, err := w.Propose(b, &t2)
			if err != nil {
				return err
			}
			w.Add(a, &v2)
			w.Add(b, &v1)
			t3 := w.NewTrx(x, y.Address(), spice.Melange{}, []byte("merge"))
			w.Propose(a, &t3)
			t4 := w.NewTrx(x, y.Address(), spice.Melange{}, []byte("merge2"))
			w.Propose(a, &t4)
			for _, wl := range w.wallets {
				w.Balance(a, wl.Address())
			}
			w.Conservation(a, bval(supply))
			c.Distinct("conflict-schedule")
			c.Distinct("conflict-control")
			c.Sample(map[string]interface{}{"schedule": "GEN A->w 10; LOAD B; PROP A w->x 10; PROP B w->y 10; ADD A v2; ADD B v1; PROP A (merge)", "variant": variant})
			w.Close()
		}
		return nil
	}
}
