package main

// Direct oracles on the implementation's snapshots: they decide a property for one concrete
// state / step of the real code and produce the replay when a proof or correspondence breaks.

import (
	"fmt"
	"github.com/bartossh/Computantis/src/spice"
	"math/big"
	"sort"

	"github.com/bartossh/Computantis/src/accountant"
)

type hset map[[32]byte]bool

func liveMap(s *accountant.VerifSnap) map[[32]byte]*accountant.Vertex {
	m := map[[32]byte]*accountant.Vertex{}
	for i := range s.Vertices {
		m[s.Vertices[i].Hash] = &s.Vertices[i]
	}
	return m
}

func cpMap(s *accountant.VerifSnap) map[[32]byte]*accountant.Vertex {
	m := map[[32]byte]*accountant.Vertex{}
	for i := range s.CpVertices {
		m[s.CpVertices[i].Hash] = &s.CpVertices[i]
	}
	return m
}

func parentsByEdges(s *accountant.VerifSnap) map[[32]byte][][32]byte {
	p := map[[32]byte][][32]byte{}
	for _, e := range s.Edges {
		p[e[1]] = append(p[e[1]], e[0])
	}
	return p
}

func ancestorsOf(h [32]byte, parents map[[32]byte][][32]byte) hset {
	seen := hset{}
	stack := append([][32]byte{}, parents[h]...)
	for len(stack) > 0 {
		x := stack[len(stack)-1]
		stack = stack[:len(stack)-1]
		if seen[x] {
			continue
		}
		seen[x] = true
		stack = append(stack, parents[x]...)
	}
	return seen
}

// zeroSpice: the oracles' own notion of "moves no funds" (not the implementation's Melange.Empty)
func zeroSpice(m spice.Melange) bool { return m.Currency == 0 && m.SupplementaryCurrency == 0 }

func isGenesisVertex(v *accountant.Vertex) bool {
	return v.LeftParentHash == [32]byte{} && v.RightParentHash == [32]byte{}
}

// flow returns inflow - outflow of addr over the given vertices (spice transfers only).
func flow(addr string, vs []*accountant.Vertex) (in, out *big.Int) {
	in, out = new(big.Int), new(big.Int)
	for _, v := range vs {
		if zeroSpice(v.Transaction.Spice) {
			continue
		}
		if v.Transaction.ReceiverAddress == addr {
			in.Add(in, bval(v.Transaction.Spice))
		}
		if v.Transaction.IssuerAddress == addr {
			out.Add(out, bval(v.Transaction.Spice))
		}
	}
	return
}

func (w *World) replayInfo(n *Node, op string) map[string]interface{} {
	return map[string]interface{}{"section": w.c.Rep.Section, "seed": w.c.Seed, "tier": w.c.Tier, "node": n.id, "after_op": op,
		"evaluations_so_far": w.c.Rep.Evals, "scenario": w.c.Rep.Extra["scenario"]}
}

func (w *World) oracles(n *Node, op string) {
	s := n.lastSnap
	if s == nil || !s.Loaded {
		// a node whose load failed is not a ledger: it refuses every operation (checked by the sync section)
		return
	}
	live := liveMap(s)
	cp := cpMap(s)
	info := w.replayInfo(n, op)

	// ---- C03: uniqueness + exact index
	trxHolders := map[[32]byte]int{}
	for h, v := range live {
		trxHolders[v.Transaction.Hash]++
		if sv, dup := cp[h]; dup {
			if vertexEqual(v, sv) {
				// the archive copy of a vertex that is still live (a truncation that was cut short after
				// archiving it): one vertex kept in two places, not two vertices
				w.c.Count("oracle.c03.archived-copy-of-live-vertex")
			} else {
				w.c.Violate("C03", "vertex-hash-in-dag-and-storage", fmt.Sprintf("two different vertices share the hash %x on node %d: one live, one checkpointed", h[:4], n.id), info)
			}
		}
	}
	for h, v := range cp {
		if lv := live[h]; lv != nil && vertexEqual(lv, v) {
			continue // counted above
		}
		trxHolders[v.Transaction.Hash]++
	}
	for t, k := range trxHolders {
		if k > 1 {
			w.c.Violate("C03", "transaction-sealed-twice", fmt.Sprintf("transaction %x is held by %d vertices on node %d", t[:4], k, n.id), info)
		}
	}
	for _, m := range []map[[32]byte]*accountant.Vertex{live, cp} {
		for h, v := range m {
			iv, ok := s.Index[v.Transaction.Hash]
			if !ok || string(iv) != string(h[:]) {
				w.c.Violate("C03", "index-misses-holder", fmt.Sprintf("index does not map trx %x to its vertex %x on node %d", v.Transaction.Hash[:4], h[:4], n.id), info)
			}
		}
	}
	for t, vh := range s.Index {
		var h [32]byte
		copy(h[:], vh)
		v := live[h]
		if v == nil {
			v = cp[h]
		}
		if v == nil || v.Transaction.Hash != t {
			w.c.Violate("C03", "index-dangling-entry", fmt.Sprintf("index entry %x -> %x has no holder on node %d", t[:4], h[:4], n.id), info)
		}
	}

	// ---- C09: well-formed DAG
	edge := map[[2][32]byte]bool{}
	for _, e := range s.Edges {
		edge[e] = true
		c := live[e[1]]
		if c == nil || live[e[0]] == nil {
			w.c.Violate("C09", "edge-to-missing-vertex", "graph edge with a missing endpoint", info)
			continue
		}
		if e[0] != c.LeftParentHash && e[0] != c.RightParentHash {
			w.c.Violate("C09", "edge-not-declared", fmt.Sprintf("edge into %x from a vertex that is not a declared parent", e[1][:4]), info)
		}
	}
	for h, v := range live {
		if accountant.VerifVerifyVertex(v, w.ver) != nil {
			w.c.Violate("C09", "unverifiable-vertex-in-dag", fmt.Sprintf("live vertex %x does not verify", h[:4]), info)
		}
		if isGenesisVertex(v) {
			continue
		}
		for _, p := range [][32]byte{v.LeftParentHash, v.RightParentHash} {
			if live[p] != nil {
				if !edge[[2][32]byte{p, h}] {
					w.c.Violate("C09", "declared-parent-without-edge", fmt.Sprintf("vertex %x declares live parent %x but has no edge", h[:4], p[:4]), info)
				}
			} else if cp[p] == nil {
				w.c.Violate("C09", "declared-parent-lost", fmt.Sprintf("vertex %x declares parent %x that is neither live nor checkpointed", h[:4], p[:4]), info)
			}
		}
	}
	// acyclicity: Kahn
	indeg := map[[32]byte]int{}
	children := map[[32]byte][][32]byte{}
	for _, e := range s.Edges {
		indeg[e[1]]++
		children[e[0]] = append(children[e[0]], e[1])
	}
	var q [][32]byte
	for h := range live {
		if indeg[h] == 0 {
			q = append(q, h)
		}
	}
	done := 0
	for len(q) > 0 {
		x := q[0]
		q = q[1:]
		done++
		for _, c := range children[x] {
			indeg[c]--
			if indeg[c] == 0 {
				q = append(q, c)
			}
		}
	}
	if done != len(live) {
		w.c.Violate("C09", "cycle", "ledger graph has a cycle", info)
	}

	// ---- C10: sealing rules; C05: canonical amounts only
	for _, m := range []map[[32]byte]*accountant.Vertex{live, cp} {
		for h, v := range m {
			if !canon(v.Transaction.Spice) {
				w.c.Violate("C05", "noncanonical-amount-in-ledger", fmt.Sprintf("vertex %x carries non-canonical spice %d:%d", h[:4], v.Transaction.Spice.Currency, v.Transaction.Spice.SupplementaryCurrency), info)
			}
			if isGenesisVertex(v) {
				if v.Transaction.ReceiverAddress == v.Transaction.IssuerAddress {
					w.c.Violate("C10", "genesis-to-own-issuer", "genesis names its own issuer as receiver", info)
				}
				continue
			}
			if v.Transaction.IssuerAddress == v.SignerPublicAddress {
				w.c.Violate("C10", "self-sealed-transfer", fmt.Sprintf("vertex %x seals a transaction of its own signer", h[:4]), info)
			}
			if s.Genesis != "" && v.Transaction.IssuerAddress == s.Genesis {
				w.c.Violate("C10", "genesis-wallet-spends", fmt.Sprintf("vertex %x is issued by the genesis wallet", h[:4]), info)
			}
			// the oracle's own definition of "neither data nor spice" (not the implementation's IsEmpty)
			if len(v.Transaction.Data) == 0 && v.Transaction.Spice.Currency == 0 && v.Transaction.Spice.SupplementaryCurrency == 0 {
				w.c.Violate("C10", "empty-transaction-sealed", fmt.Sprintf("vertex %x seals an empty transaction", h[:4]), info)
			}
		}
	}

	// ---- C01: newly confirmed vertices must be covered within their own history
	for h, v := range live {
		n.everSeen[h] = *v
	}
	for h, v := range cp {
		n.everSeen[h] = *v
	}
	hasChild := hset{}
	for _, e := range s.Edges {
		hasChild[e[0]] = true
	}
	for h := range cp {
		hasChild[h] = true // checkpointed counts as confirmed
	}
	declParents := map[[32]byte][][32]byte{}
	for h, v := range n.everSeen {
		if !isGenesisVertex(&v) {
			declParents[h] = [][32]byte{v.LeftParentHash, v.RightParentHash}
		}
	}
	var newly [][32]byte
	for h := range hasChild {
		if !n.hadChild[h] {
			newly = append(newly, h)
		}
	}
	sort.Slice(newly, func(i, j int) bool { return string(newly[i][:]) < string(newly[j][:]) })
	for _, h := range newly {
		n.hadChild[h] = true
		v, ok := n.everSeen[h]
		if !ok || op == "load" || isGenesisVertex(&v) || zeroSpice(v.Transaction.Spice) || w.trusted[n.id][v.SignerPublicAddress] {
			continue
		}
		hist := []*accountant.Vertex{}
		seen := hset{h: true}
		vv := v
		hist = append(hist, &vv)
		for a := range ancestorsOf(h, declParents) {
			if x, ok := n.everSeen[a]; ok && !seen[a] {
				seen[a] = true
				xx := x
				hist = append(hist, &xx)
			}
		}
		for a, x := range cp {
			if !seen[a] {
				seen[a] = true
				hist = append(hist, x)
			}
		}
		in, out := flow(v.Transaction.IssuerAddress, hist)
		w.c.Count("oracle.c01.confirmed-spice-vertex")
		if in.Cmp(out) < 0 {
			key := "overdraw-confirmed"
			if len(s.CpVertices) > 0 {
				key = "overdraw-confirmed-after-truncation"
			}
			w.c.Violate("C01", key, fmt.Sprintf("node %d confirmed vertex %x: issuer received %v but spent %v within its own history", n.id, h[:4], in, out), info)
		}
	}
}

// Conservation is the C02 oracle, evaluated at quiescent points chosen by the generator.
func (w *World) Conservation(n *Node, genesisSupply *big.Int) {
	s := n.ab.VerifSnapshot()
	if w.everTrusted[n.id] {
		return // statement is restricted to ledgers without trusted-exempt vertices
	}
	hasChild := hset{}
	for _, e := range s.Edges {
		hasChild[e[0]] = true
	}
	var confirmed []*accountant.Vertex
	for i := range s.Vertices {
		v := &s.Vertices[i]
		if hasChild[v.Hash] {
			if w.trusted[n.id][v.SignerPublicAddress] {
				return // statement is restricted to ledgers without trusted-exempt vertices
			}
			confirmed = append(confirmed, v)
		}
	}
	for i := range s.CpVertices {
		confirmed = append(confirmed, &s.CpVertices[i])
	}
	wallets := map[string]bool{}
	for _, v := range confirmed {
		wallets[v.Transaction.IssuerAddress] = true
		wallets[v.Transaction.ReceiverAddress] = true
	}
	total := new(big.Int)
	info := w.replayInfo(n, "quiescent")
	w.c.Count("oracle.c02.quiescent-points")
	for a := range wallets {
		if a == s.Genesis {
			continue
		}
		in, out := flow(a, confirmed)
		if in.Cmp(out) < 0 {
			// cause: two incomparable spends each individually covered?
			w.c.Violate("C02", w.overdrawCause(&s, a, confirmed), fmt.Sprintf("node %d: wallet %s received %v, spent %v over all confirmed vertices", n.id, w.A(a), in, out), info)
		}
		total.Add(total, new(big.Int).Sub(in, out))
	}
	gin, gout := flow(s.Genesis, confirmed)
	supply := new(big.Int).Sub(gout, gin)
	if genesisSupply != nil && len(confirmed) > 0 && supply.Cmp(genesisSupply) != 0 {
		w.c.Violate("C02", "genesis-wallet-spent-more-than-genesis", fmt.Sprintf("genesis issuer net outflow %v != genesis supply %v", supply, genesisSupply), info)
	}
	if total.Cmp(supply) != 0 {
		w.c.Violate("C02", "supply-not-conserved", fmt.Sprintf("balances add up to %v, genesis outflow %v", total, supply), info)
	}
}

// overdrawCause fingerprints an overdrawn wallet: the known design-level finding is "two confirmed
// spends of one issuer that are incomparable in the DAG, each covered within its own history".
func (w *World) overdrawCause(s *accountant.VerifSnap, a string, confirmed []*accountant.Vertex) string {
	par := parentsByEdges(s)
	var spends []*accountant.Vertex
	for _, v := range confirmed {
		if v.Transaction.IssuerAddress == a && !zeroSpice(v.Transaction.Spice) {
			spends = append(spends, v)
		}
	}
	// a checkpointed vertex lies below the cut: it is part of the history of everything built since, so it
	// is never "incomparable" with a later spend (the edges it had are gone, which must not look like a fork)
	stored := hset{}
	for i := range s.CpVertices {
		stored[s.CpVertices[i].Hash] = true
	}
	for i := range spends {
		ai := ancestorsOf(spends[i].Hash, par)
		for j := range spends {
			if i == j || stored[spends[i].Hash] || stored[spends[j].Hash] {
				continue
			}
			aj := ancestorsOf(spends[j].Hash, par)
			if !ai[spends[j].Hash] && !aj[spends[i].Hash] {
				return "merge-of-conflicting-tips"
			}
		}
	}
	return "wallet-overdrawn-on-comparable-spends"
}
