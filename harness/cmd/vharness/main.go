// vharness drives the real Computantis code (module replaced onto /repo/src, built with
// -tags verif) and writes line-oriented traces that the Lean driver replays on the model.
// It also hosts the direct oracles used to search for / replay concrete violations.
package main

import (
	"bufio"
	"encoding/json"
	"flag"
	"fmt"
	"math/rand"
	"os"
	"sort"
)

// Violation is one concrete failing input found by a direct oracle on the real code.
type Violation struct {
	Property string      `json:"property"`
	Key      string      `json:"key"`    // cause fingerprint (matched against KNOWN_FINDINGS.txt)
	Detail   string      `json:"detail"` // human readable
	Replay   interface{} `json:"replay"` // enough to re-run the case alone
}

// Report is printed as one JSON line on stdout when a section finishes.
type Report struct {
	Section    string                 `json:"section"`
	Tier       string                 `json:"tier"`
	Seed       int64                  `json:"seed"`
	Evals      int                    `json:"evaluations"`
	Nontrivial int                    `json:"distinct_nontrivial"`
	Rule       string                 `json:"rule"`
	Dist       map[string]int         `json:"distribution"`
	Samples    []interface{}          `json:"samples"`
	Violations []Violation            `json:"violations"`
	Extra      map[string]interface{} `json:"extra,omitempty"`
}

type Ctx struct {
	Tier   string
	Seed   int64
	Rnd    *rand.Rand
	Trace  *bufio.Writer
	Rep    *Report
	Replay string
	MarkFile string
	seen   map[string]struct{}
}

func (c *Ctx) Line(format string, a ...interface{}) {
	fmt.Fprintf(c.Trace, format, a...)
	c.Trace.WriteByte('\n')
}

func (c *Ctx) Count(k string) { c.Rep.Dist[k]++ }

// Mark records (in a side file, flushed at once) the case that is about to run, so that a crash of the
// whole process - a panic in a goroutine of the code under test cannot be recovered here - still
// yields a replayable case description.
func (c *Ctx) Mark(v interface{}) {
	if c.MarkFile == "" {
		return
	}
	b, _ := json.Marshal(v)
	os.WriteFile(c.MarkFile, b, 0o644)
}

// Distinct records a canonical description of a non-trivial case; counted once.
func (c *Ctx) Distinct(k string) {
	if _, ok := c.seen[k]; !ok {
		c.seen[k] = struct{}{}
		c.Rep.Nontrivial++
	}
}

func (c *Ctx) Sample(s interface{}) {
	if len(c.Rep.Samples) < 4 {
		c.Rep.Samples = append(c.Rep.Samples, s)
	}
}

func (c *Ctx) Violate(prop, key, detail string, replay interface{}) {
	for _, v := range c.Rep.Violations {
		if v.Key == key && v.Property == prop { // keep the first (smallest) replay per cause and property
			return
		}
	}
	c.Rep.Violations = append(c.Rep.Violations, Violation{prop, key, detail, replay})
}

type section func(c *Ctx) error

var sections = map[string]section{}

func main() {
	tier := flag.String("tier", "quick", "quick|thorough")
	seed := flag.Int64("seed", 1, "PRNG seed")
	trace := flag.String("trace", "", "trace output file")
	replay := flag.String("replay", "", "replay file (JSON) for a single case")
	flag.Parse()
	if flag.NArg() < 1 {
		names := []string{}
		for k := range sections {
			names = append(names, k)
		}
		sort.Strings(names)
		fmt.Fprintln(os.Stderr, "usage: vharness [flags] <section>; sections:", names)
		os.Exit(2)
	}
	name := flag.Arg(0)
	f, ok := sections[name]
	if !ok {
		fmt.Fprintln(os.Stderr, "unknown section", name)
		os.Exit(2)
	}
	var w *bufio.Writer
	if *trace != "" {
		fh, err := os.Create(*trace)
		if err != nil {
			panic(err)
		}
		defer fh.Close()
		w = bufio.NewWriterSize(fh, 1<<20)
	} else {
		w = bufio.NewWriter(os.NewFile(3, "discard"))
		dn, _ := os.OpenFile(os.DevNull, os.O_WRONLY, 0)
		w = bufio.NewWriter(dn)
	}
	mark := ""
	if *trace != "" {
		mark = *trace + ".mark"
	}
	c := &Ctx{Tier: *tier, Seed: *seed, Rnd: rand.New(rand.NewSource(*seed)), Trace: w, Replay: *replay, MarkFile: mark,
		Rep: &Report{Section: name, Tier: *tier, Seed: *seed, Dist: map[string]int{}, Extra: map[string]interface{}{}},
		seen: map[string]struct{}{}}
	err := f(c)
	w.Flush()
	if err != nil {
		fmt.Fprintln(os.Stderr, "section error:", err)
		os.Exit(2)
	}
	out, _ := json.Marshal(c.Rep)
	fmt.Println(string(out))
}
