package main

// Section "trunc" (C07, also C01/C03/C06 after truncation): ledgers of > 1000 vertices are built quietly on
// the real code, handed to the model (SEED), truncated, and then compared op by op: balances of every
// wallet before/after, by-hash reads of every moved vertex and transaction, re-submission of checkpointed
// vertices / transactions, further proposals that spend checkpointed funds, a second truncation.

import (
	"sync"
	"context"
	"strings"
	"fmt"
	"math/big"
	"reflect"

	"github.com/bartossh/Computantis/src/accountant"
	"github.com/bartossh/Computantis/src/spice"
	"github.com/bartossh/Computantis/src/transaction"
)

type truncShape struct {
	name      string
	nodes     int
	build     int
	selfXfer  bool
	sideTip   bool
	second    bool
	overdrawn bool
	straddle  bool // a contract-only side tip whose left parent will be truncated and whose right parent stays live
	parallel  bool // around the later cut the nodes seal runs of vertices before they exchange them: real side branches
}

func (w *World) balancesOf(n *Node) map[string]string {
	out := map[string]string{}
	for _, wl := range w.wallets {
		b, err := w.Balance(n, wl.Address())
		if err != nil {
			out[wl.Address()] = "err"
		} else {
			out[wl.Address()] = bval(b).String()
		}
	}
	for _, m := range w.nodes {
		b, err := w.Balance(n, m.addr)
		if err != nil {
			out[m.addr] = "err"
		} else {
			out[m.addr] = bval(b).String()
		}
	}
	return out
}

func truncScenario(c *Ctx, sh truncShape) {
	w := NewWorld(c)
	defer w.Close()
	for i := 0; i < sh.nodes; i++ {
		w.NewNode()
	}
	for i := 0; i < 5; i++ { // wallets[4] is the saver: funded early, spends exactly its checkpoint later
		w.NewWallet()
	}
	a := w.nodes[0]
	supply := spice.Melange{Currency: 1_000_000, SupplementaryCurrency: 5}
	if _, err := w.Genesis(a, w.wallets[0].Address(), supply); err != nil {
		panic(err)
	}
	for _, n := range w.nodes[1:] {
		if err := w.syncFrom(a, n); err != nil {
			panic(err)
		}
	}
	info := map[string]interface{}{"section": "trunc", "shape": sh.name, "seed": c.Seed}
	c.Mark(info)
	// ---- quiet build-up
	w.quiet = true
	var all []accountant.Vertex
	var firstTrx *transaction.Transaction
	type held struct {
		n *Node
		v accountant.Vertex
	}
	var withheld []held
	for i := 0; i < sh.build; i++ {
		n := w.nodes[i%sh.nodes]
		iss := w.wallets[i%4]
		rec := w.wallets[(i+1+i/7)%4]
		amt := spice.Melange{Currency: uint64(1 + i%3), SupplementaryCurrency: uint64(i%5) * (maxSupp / 5)}
		if i < 8 {
			iss, rec = w.wallets[0], w.wallets[1+i%3]
			amt = spice.Melange{Currency: 1000}
		}
		if i == 9 {
			iss, rec, amt = w.wallets[0], w.wallets[4], spice.Melange{Currency: 10}
		}
		if sh.selfXfer && i%50 == 10 {
			rec = iss // issuer == receiver
		}
		var data []byte
		if i%11 == 0 {
			data = []byte("d")
		}
		if i%13 == 5 && i >= 10 {
			amt, data = spice.Melange{}, []byte("contract only") // moves no funds
		}
		t := w.NewTrx(iss, rec.Address(), amt, data)
		if firstTrx == nil {
			firstTrx = &t
		}
		v, err := w.Propose(n, &t)
		if err != nil {
			continue
		}
		all = append(all, v)
		// in the parallel zone (where the first cut will fall: about 1000 vertices below the final tip) vertices
		// are exchanged only after every node has sealed three on its own tip
		if sh.parallel && sh.nodes > 1 && i >= sh.build-1100 && i < sh.build-930 {
			withheld = append(withheld, held{n, v})
			if len(withheld) < 3*sh.nodes {
				continue
			}
		} else if len(withheld) > 0 {
			withheld = append(withheld, held{n, v})
		} else {
			for _, m := range w.nodes {
				if m != n {
					w.Add(m, &v)
				}
			}
			continue
		}
		for _, h := range withheld {
			for _, m := range w.nodes {
				if m != h.n {
					hv := h.v
					w.Add(m, &hv)
				}
			}
		}
		withheld = nil
	}
	var side accountant.Vertex
	if sh.sideTip && !sh.straddle {
		// a second tip hanging off an old vertex, sealed by a wallet acting as a node
		old := all[len(all)-1100]
		t := w.NewTrx(w.wallets[2], w.wallets[3].Address(), spice.Melange{SupplementaryCurrency: 1}, nil)
		v, _ := accountant.NewVertex(t, old.Hash, old.Hash, old.Weight+1, w.wallets[0])
		side = v
		w.Add(a, &side)
	}
	if sh.straddle {
		old, recent := all[10], all[len(all)-3]
		t := w.NewTrx(w.wallets[2], w.wallets[3].Address(), spice.Melange{}, []byte("side contract"))
		sv, _ := accountant.NewVertex(t, old.Hash, recent.Hash, recent.Weight+1, w.wallets[0])
		w.Add(a, &sv)
	}
	w.quiet = false
	w.Seed(a)
	before := w.balancesOf(a)
	preSnap := a.ab.VerifSnapshot()
	// ---- truncate. On a single-tip ledger balance queries that arrive WHILE the truncation runs (and nothing
	// else does) must give the very balances of before and after: checkpoint and live graph are one state.
	stopQ := make(chan struct{})
	var qwg sync.WaitGroup
	var qmux sync.Mutex
	qbad, qn := "", 0
	if sh.nodes == 1 && !sh.sideTip {
		for g := 0; g < 4; g++ {
			qwg.Add(1)
			go func(g int) {
				defer qwg.Done()
				for i := g; ; i++ {
					select {
					case <-stopQ:
						return
					default:
					}
					wl := w.wallets[i%len(w.wallets)]
					b, err := a.ab.CalculateBalance(context.Background(), wl.Address())
					got := "err"
					if err == nil {
						got = bval(b.Spice).String()
					}
					qmux.Lock()
					qn++
					if got != before[wl.Address()] && qbad == "" {
						qbad = fmt.Sprintf("balance of %s asked while the truncation was running: %s, before (and after) the truncation: %s", w.A(wl.Address()), got, before[wl.Address()])
					}
					qmux.Unlock()
				}
			}(g)
		}
	}
	terr := w.Truncate(a)
	close(stopQ)
	qwg.Wait()
	if qn > 0 {
		c.Count("trunc.balance-queries-during-truncation")
		c.Rep.Extra["queries_during_truncation."+sh.name] = qn
	}
	if qbad != "" {
		c.Violate("C06", "balance-during-truncation-differs", fmt.Sprintf("shape %s: %s", sh.name, qbad), info)
	}
	if err := terr; err != nil {
		c.Violate("C07", "truncate-fails", fmt.Sprintf("truncate on shape %s: %v", sh.name, err), info)
		return
	}
	post := a.ab.VerifSnapshot()
	// with a short side tip the walk may start there (map order) and find fewer than truncateDiff
	// ancestors: a legitimate no-op; try again until the walk starts from the long tip
	for try := 0; sh.sideTip && len(post.CpVertices) == len(preSnap.CpVertices) && try < 12; try++ {
		c.Count("trunc.noop-from-short-tip")
		if err := w.Truncate(a); err != nil {
			c.Violate("C07", "truncate-fails", fmt.Sprintf("truncate on shape %s: %v", sh.name, err), info)
			return
		}
		post = a.ab.VerifSnapshot()
	}
	if sh.sideTip && len(post.CpVertices) == len(preSnap.CpVertices) {
		return // never started from the long tip in this run: nothing to compare
	}
	moved := map[[32]byte]accountant.Vertex{}
	for _, v := range post.CpVertices {
		moved[v.Hash] = v
	}
	c.Count(fmt.Sprintf("trunc.moved.%s", sh.name))
	c.Rep.Extra["moved."+sh.name] = len(moved)
	if len(moved) == 0 {
		c.Violate("C07", "nothing-truncated", "truncate moved no vertex on a "+fmt.Sprint(len(preSnap.Vertices))+"-vertex ledger", info)
		return
	}
	// nothing lost
	if len(post.Vertices)+len(post.CpVertices) != len(preSnap.Vertices)+len(preSnap.CpVertices) {
		c.Violate("C07", "vertex-lost-or-duplicated", fmt.Sprintf("live+stored went from %d to %d", len(preSnap.Vertices)+len(preSnap.CpVertices), len(post.Vertices)+len(post.CpVertices)), info)
	}
	// every declared parent of a vertex the node still knows (live or stored) is live or stored (C09)
	{
		known := map[[32]byte]bool{}
		for _, v := range post.Vertices {
			known[v.Hash] = true
		}
		for _, v := range post.CpVertices {
			known[v.Hash] = true
		}
		var zero [32]byte
		for _, vs := range [][]accountant.Vertex{post.Vertices, post.CpVertices} {
			bad := false
			for _, v := range vs {
				for _, ph := range [][32]byte{v.LeftParentHash, v.RightParentHash} {
					if ph != zero && !known[ph] {
						c.Violate("C09", "declared-parent-neither-live-nor-checkpointed", fmt.Sprintf("after truncation vertex %x declares parent %x, which is neither in the live DAG nor in storage", v.Hash[:4], ph[:4]), info)
						bad = true
						break
					}
				}
				if bad {
					break
				}
			}
		}
	}
	preLive := liveMap(&preSnap)
	for h, v := range moved {
		if pv := preLive[h]; pv == nil || !vertexEqual(pv, &v) {
			c.Violate("C07", "stored-vertex-differs", fmt.Sprintf("vertex %x differs after being moved to storage", h[:4]), info)
			break
		}
	}
	// checkpointed funds = net flow of exactly the moved vertices (+ earlier checkpoint)
	w.checkpointOracle(&preSnap, &post, moved, info)
	// ---- balances unchanged. A balance is computed from one tip (whichever the node picks), so the comparison
	// is per tip, with an independent reference: checkpoint + flows over the tip's live ancestors.
	after := w.balancesOf(a)
	refPerTip := func(s *accountant.VerifSnap, addr string) map[[32]byte]string {
		live := liveMap(s)
		par := parentsByEdges(s)
		cp := new(big.Int)
		if m, ok := s.CpFunds[addr]; ok {
			cp = bval(m)
		}
		out := map[[32]byte]string{}
		for _, tip := range s.Leaves {
			vs := []*accountant.Vertex{live[tip]}
			for x := range ancestorsOf(tip, par) {
				if v := live[x]; v != nil {
					vs = append(vs, v)
				}
			}
			in, o := flow(addr, vs)
			r := new(big.Int).Add(cp, in)
			r.Sub(r, o)
			out[tip] = r.String()
		}
		return out
	}
	prePar := parentsByEdges(&preSnap)
	for _, wl := range w.wallets {
		addr := wl.Address()
		rb, ra := refPerTip(&preSnap, addr), refPerTip(&post, addr)
		for tip, bv := range rb {
			av, ok := ra[tip]
			if !ok || av == bv {
				continue
			}
			// does the tip descend from everything that was moved? (then its history is the same as before)
			anc := ancestorsOf(tip, prePar)
			descends := true
			for h := range moved {
				if !anc[h] {
					descends = false
					break
				}
			}
			key := "balance-changed-by-truncation"
			switch {
			case addr == preSnap.Genesis:
				key = "genesis-issuer-debt-clipped"
			case strings.HasPrefix(bv, "-"):
				key = "negative-balance-clipped"
			case !descends:
				key = "stale-tip-credited-with-foreign-checkpoint"
			}
			c.Violate("C07", key, fmt.Sprintf("shape %s: balance of %s seen from tip %x was %s before and %s after truncation", sh.name, w.A(addr), tip[:4], bv, av), info)
		}
	}
	// what the node itself reports must be one of the per-tip references (C06's oracle runs on every BAL line);
	// with a single tip the reported values themselves must agree
	if len(preSnap.Leaves) == 1 && len(post.Leaves) == 1 {
		for addr, bv := range before {
			if after[addr] != bv {
				key := "balance-changed-by-truncation"
				if addr == preSnap.Genesis {
					key = "genesis-issuer-debt-clipped"
				} else if bv == "err" {
					key = "negative-balance-clipped"
				}
				c.Violate("C07", key, fmt.Sprintf("shape %s: balance of %s was %s before and %s after truncation", sh.name, w.A(addr), bv, after[addr]), info)
			}
		}
	}
	// ---- lookups and re-submission
	cnt := 0
	for h, v := range moved {
		cnt++
		if cnt > 40 {
			break
		}
		if got, err := w.ReadV(a, h); err != nil || !vertexEqual(&got, &v) {
			c.Violate("C07", "checkpointed-vertex-not-readable", fmt.Sprintf("ReadVertex(%x): %v", h[:4], err), info)
		}
		if got, err := w.ReadT(a, v.Transaction.Hash); err != nil || got.Hash != v.Transaction.Hash {
			c.Violate("C07", "checkpointed-transaction-not-readable", fmt.Sprintf("ReadTransactionByHash(%x): %v", v.Transaction.Hash[:4], err), info)
		}
		if cnt <= 6 {
			vv := v
			if err := w.Add(a, &vv); err == nil {
				c.Violate("C07", "checkpointed-vertex-readmitted", "AddLeaf accepted a checkpointed vertex again", info)
			}
			tt := v.Transaction
			if _, err := w.Propose(a, &tt); err == nil {
				c.Violate("C07", "checkpointed-transaction-resealed", "CreateLeaf sealed a checkpointed transaction again", info)
			}
			// the same checkpointed transaction wrapped in ANOTHER vertex (sealed by a wallet on the current tip) and
			// gossiped in: its holder left the live DAG, it is sealed all the same
			if cur := a.ab.VerifSnapshot(); len(cur.Leaves) > 0 {
				var tipW uint64
				for i := range cur.Vertices {
					if cur.Vertices[i].Hash == cur.Leaves[0] {
						tipW = cur.Vertices[i].Weight
					}
				}
				if nv, err := accountant.NewVertex(v.Transaction, cur.Leaves[0], cur.Leaves[0], tipW+1, w.wallets[3]); err == nil && v.Transaction.IssuerAddress != w.wallets[3].Address() {
					if err := w.Add(a, &nv); err == nil {
						c.Violate("C03", "checkpointed-transaction-sealed-again-by-gossip", "AddLeaf admitted a new vertex carrying a transaction whose holder is checkpointed", info)
						c.Violate("C07", "checkpointed-transaction-resealed", "AddLeaf admitted a new vertex carrying a checkpointed transaction", info)
					}
				}
			}
		}
	}
	// ---- the saver spends exactly what is checkpointed for it (its next checkpoint must become zero)
	{
		t := w.NewTrx(w.wallets[4], w.wallets[1].Address(), spice.Melange{Currency: 10}, nil)
		w.Propose(a, &t)
	}
	// ---- the same checkpointed funds cannot be spent a second time: the amount is covered by the checkpoint
	// alone, but not by checkpoint minus what was spent since (live vertices)
	for k := 0; k < 2; k++ {
		t := w.NewTrx(w.wallets[4], w.wallets[2].Address(), spice.Melange{Currency: 10 - uint64(3*k)}, nil)
		w.Propose(a, &t) // becomes a tentative tip
		t2 := w.NewTrx(w.wallets[0], w.wallets[1].Address(), spice.Melange{SupplementaryCurrency: 3}, nil)
		w.Propose(a, &t2) // validates the tips it builds on: the overdrawing one must be dropped
	}
	// ---- later transfers are validated against the same funds
	for i := 0; i < 24; i++ {
		iss := w.wallets[i%4]
		bal, err := w.Balance(a, iss.Address())
		if err != nil {
			continue
		}
		var amt spice.Melange
		switch i % 4 {
		case 0:
			amt = bal // everything, including what is only in the checkpoint
		case 1:
			amt = overdraftFor(c, bal)
		default:
			amt = spice.Melange{Currency: bal.Currency / 3, SupplementaryCurrency: 7}
		}
		if amt.Empty() {
			continue
		}
		t := w.NewTrx(iss, w.wallets[(i+1)%4].Address(), amt, nil)
		w.Propose(a, &t)
	}
	w.balancesOf(a)
	w.Conservation(a, nil)
	if sh.second {
		w.quiet = true
		for i := 0; i < 1150; i++ {
			t := w.NewTrx(w.wallets[i%4], w.wallets[(i+1)%4].Address(), spice.Melange{SupplementaryCurrency: uint64(1 + i%9)}, nil)
			w.Propose(a, &t)
		}
		w.quiet = false
		w.Seed(a)
		b2 := w.balancesOf(a)
		pre2 := a.ab.VerifSnapshot()
		if err := w.Truncate(a); err != nil {
			c.Violate("C07", "second-truncate-fails", err.Error(), info)
			return
		}
		post2 := a.ab.VerifSnapshot()
		moved2 := map[[32]byte]accountant.Vertex{}
		for _, v := range post2.CpVertices {
			if _, old := moved[v.Hash]; !old {
				moved2[v.Hash] = v
			}
		}
		w.checkpointOracle(&pre2, &post2, moved2, info)
		a2 := w.balancesOf(a)
		for addr, bv := range b2 {
			if a2[addr] != bv && addr != pre2.Genesis {
				c.Violate("C07", "balance-changed-by-second-truncation", fmt.Sprintf("balance of %s was %s before and %s after the second truncation", w.A(addr), bv, a2[addr]), info)
			}
		}
		// the saver was swept to exactly zero before this truncation: whatever the checkpoint says now, it
		// cannot spend those funds once more (C01 / C02: the overdraw oracles judge the next two proposals)
		for k := 0; k < 2; k++ {
			t := w.NewTrx(w.wallets[4], w.wallets[2].Address(), spice.Melange{Currency: 10 - uint64(4*k)}, nil)
			w.Propose(a, &t)
			t2 := w.NewTrx(w.wallets[0], w.wallets[1].Address(), spice.Melange{SupplementaryCurrency: 3}, nil)
			w.Propose(a, &t2)
		}
		w.balancesOf(a)
		w.Conservation(a, nil)
		c.Count("trunc.second")
	}
	c.Distinct("trunc-" + sh.name)
	_ = side
}


// truncSpecial: two truncation histories outside the ordinary shapes.
//   huge-turnover: amounts near 2^64 pass through several wallets below the cut (every single amount and
//     every balance is representable; the SUM of what the wallets spent is not)
//   interrupted: a truncation is cut short by its context after it archived a few vertices; a later
//     truncation runs to the end. Balances are the same before and after, whatever the second one does.
func truncSpecial(c *Ctx) {
	{
		w := NewWorld(c)
		a := w.NewNode()
		for i := 0; i < 4; i++ {
			w.NewWallet()
		}
		info := map[string]interface{}{"section": "trunc", "shape": "huge-turnover"}
		c.Mark(info)
		if _, err := w.Genesis(a, w.wallets[0].Address(), spice.Melange{Currency: 1<<64 - 1}); err == nil {
			w.quiet = true
			for i, st := range []struct {
				from, to int
				amt      uint64
			}{{0, 1, 1<<63 + 5}, {1, 2, 1 << 63}, {2, 3, 1<<63 - 7}, {0, 3, 1 << 61}} {
				t := w.NewTrx(w.wallets[st.from], w.wallets[st.to].Address(), spice.Melange{Currency: st.amt, SupplementaryCurrency: uint64(i)}, nil)
				w.Propose(a, &t)
			}
			for i := 0; i < 1060; i++ {
				t := w.NewTrx(w.wallets[3], w.wallets[0].Address(), spice.Melange{}, []byte{byte(i), byte(i >> 8)})
				w.Propose(a, &t)
			}
			w.quiet = false
			w.Seed(a)
			before := w.balancesOf(a)
			pre := a.ab.VerifSnapshot()
			if err := w.Truncate(a); err != nil {
				c.Violate("C07", "truncate-fails", "truncate on shape huge-turnover: "+err.Error(), info)
			} else {
				post := a.ab.VerifSnapshot()
				moved := map[[32]byte]accountant.Vertex{}
				for _, v := range post.CpVertices {
					moved[v.Hash] = v
				}
				w.checkpointOracle(&pre, &post, moved, info)
				after := w.balancesOf(a)
				for addr, bv := range before {
					if after[addr] != bv && addr != pre.Genesis {
						c.Violate("C07", "balance-changed-by-truncation", fmt.Sprintf("shape huge-turnover: balance of %s was %s before and %s after truncation", w.A(addr), bv, after[addr]), info)
					}
				}
				c.Rep.Extra["moved.huge-turnover"] = len(moved)
			}
			w.Conservation(a, nil)
		}
		c.Distinct("trunc-huge-turnover")
		w.Close()
	}
	{
		w := NewWorld(c)
		a := w.NewNode()
		for i := 0; i < 3; i++ {
			w.NewWallet()
		}
		info := map[string]interface{}{"section": "trunc", "shape": "interrupted"}
		c.Mark(info)
		if _, err := w.Genesis(a, w.wallets[0].Address(), spice.Melange{Currency: 100000}); err == nil {
			w.quiet = true
			for i := 0; i < 1060; i++ {
				t := w.NewTrx(w.wallets[i%2], w.wallets[(i+1)%2].Address(), spice.Melange{Currency: 1}, nil)
				if i < 3 {
					t = w.NewTrx(w.wallets[0], w.wallets[1].Address(), spice.Melange{Currency: 500}, nil)
				}
				w.Propose(a, &t)
			}
			w.quiet = false
			w.Seed(a)
			before := w.balancesOf(a)
			// cut short after some vertices were archived (the walk polls the context once per vertex)
			cc := newCountCtx(1000+15, false)
			err1 := a.ab.VerifTruncate(cc)
			mid := a.ab.VerifSnapshot()
			c.Count("trunc.interrupted.first." + errTag(err1))
			c.Rep.Extra["interrupted.archived"] = len(mid.CpVertices)
			err2 := a.ab.VerifTruncate(context.Background())
			c.Count("trunc.interrupted.second." + errTag(err2))
			w.Seed(a) // neither call is replayed on the model (it has no interrupted truncation): re-seed, then judge
			after := w.balancesOf(a)
			for addr, bv := range before {
				if after[addr] != bv && addr != mid.Genesis {
					c.Violate("C07", "balance-changed-by-interrupted-truncation", fmt.Sprintf("balance of %s was %s before and %s after an interrupted truncation (%d vertices archived, %v) followed by a complete one (%v)", w.A(addr), bv, after[addr], len(mid.CpVertices), err1, err2), info)
					c.Violate("C06", "balance-changed-by-interrupted-truncation", fmt.Sprintf("balance of %s was %s before and %s after an interrupted truncation followed by a complete one", w.A(addr), bv, after[addr]), info)
				}
			}
		}
		c.Distinct("trunc-interrupted")
		w.Close()
	}
}

func vertexEqual(a, b *accountant.Vertex) bool {
	if !a.CreatedAt.Equal(b.CreatedAt) || !a.Transaction.CreatedAt.Equal(b.Transaction.CreatedAt) {
		return false
	}
	x, y := *a, *b
	x.CreatedAt, y.CreatedAt = b.CreatedAt, b.CreatedAt
	x.Transaction.CreatedAt, y.Transaction.CreatedAt = b.Transaction.CreatedAt, b.Transaction.CreatedAt
	x.Transaction.ID, y.Transaction.ID = nil, nil
	norm := func(p *[]byte) {
		if len(*p) == 0 {
			*p = nil
		}
	}
	for _, p := range []*[]byte{&x.Signature, &y.Signature, &x.Transaction.Data, &y.Transaction.Data, &x.Transaction.IssuerSignature,
		&y.Transaction.IssuerSignature, &x.Transaction.ReceiverSignature, &y.Transaction.ReceiverSignature} {
		norm(p)
	}
	return reflect.DeepEqual(x, y)
}

// checkpointOracle: new checkpointed funds = old + net flow of exactly the moved vertices, each counted once.
func (w *World) checkpointOracle(pre, post *accountant.VerifSnap, moved map[[32]byte]accountant.Vertex, info map[string]interface{}) {
	var vs []*accountant.Vertex
	addrs := map[string]bool{}
	for h := range moved {
		v := moved[h]
		vs = append(vs, &v)
		if !zeroSpice(v.Transaction.Spice) {
			addrs[v.Transaction.IssuerAddress] = true
			addrs[v.Transaction.ReceiverAddress] = true
		}
	}
	for a := range pre.CpFunds {
		addrs[a] = true
	}
	for a := range addrs {
		in, out := flow(a, vs)
		want := new(big.Int).Add(bval(pre.CpFunds[a]), in)
		want.Sub(want, out)
		got := bval(post.CpFunds[a])
		w.c.Count("oracle.c07.checkpoint-entries")
		if want.Cmp(got) != 0 {
			key := "checkpoint-funds-differ-from-net-flow"
			selfX := false
			for _, v := range vs {
				if v.Transaction.IssuerAddress == a && v.Transaction.ReceiverAddress == a && !zeroSpice(v.Transaction.Spice) {
					selfX = true
				}
			}
			switch {
			case want.Sign() < 0 && got.Sign() >= 0 && a == pre.Genesis:
				key = "genesis-issuer-debt-clipped"
			case want.Sign() < 0:
				key = "negative-net-flow-clipped"
			case selfX:
				key = "self-transfer-credited-on-truncate"
			}
			w.c.Violate("C07", key, fmt.Sprintf("checkpointed funds of %s are %v, net flow of the moved vertices gives %v", w.A(a), got, want), info)
		}
	}
}

func init() {
	sections["trunc"] = func(c *Ctx) error {
		c.Rep.Rule = "ledgers of 1100-1300 vertices built on the real code (chain; two-node braid; with self-transfers; with a side tip not descending from the cut), SEEDed into the model, truncated, then: balances of all wallets before/after, reads of moved vertices/transactions, re-submissions, 24 proposals spending checkpointed funds, optional second truncation; non-trivial = distinct shape"
		shapes := []truncShape{
			{name: "chain-twice", nodes: 1, build: 1150, second: true},
			{name: "selfxfer-braid", nodes: 2, build: 1200, selfXfer: true, parallel: true},
			{name: "sidetip", nodes: 1, build: 1250, sideTip: true},
			{name: "straddle", nodes: 1, build: 1120, sideTip: true, straddle: true},
		}
		if c.Tier == "thorough" {
			shapes = append(shapes,
				truncShape{name: "braid-twice", nodes: 2, build: 1120, second: true},
				truncShape{name: "braid3", nodes: 3, build: 1300, parallel: true},
			)
		}
		// the trigger predicate of the truncate loop, exhaustively over boundary values
		bs := []uint64{0, 1, 999, 1000, 1001, 1002, 1999, 2000, 2001, 100000, 100999, 101000, 101001, 1<<63 - 1, 1 << 63, 1<<64 - 1001, 1<<64 - 1000, 1<<64 - 2, 1<<64 - 1}
		for _, cur := range bs {
			for _, des := range bs {
				c.Line("CCT %d %d %d", cur, des, b2i(accountant.VerifCheckCanTruncate(cur, des)))
				c.Rep.Evals++
			}
		}
		c.Count("checkCanTruncate.boundary-product")
		for _, sh := range shapes {
			truncScenario(c, sh)
		}
		truncSpecial(c)
		c.Sample(map[string]interface{}{"shape": "chain", "build": 1150, "then": "SEED; BAL*; TRUNC; BAL*; READV/READT; ADD/PROP of checkpointed; 24 PROP; BAL*"})
		return nil
	}
}
