package main

// Section "await" (C17): the real Hippocampus. Sequential random op sequences over few addresses and
// few transactions (collisions are the norm), every result compared with the Lean model and with a
// map-based reference; then concurrent saves / removes / reads for the same addresses, after which the
// listings must contain exactly what a sequential execution would.
// Trace lines:  SAVE h issuer receiver | res     REM h addr | res     READ addr | h1,h2,…

import (
	"encoding/hex"
	"sync/atomic"
	"errors"
	"fmt"
	"sort"
	"strings"
	"sync"

	"github.com/bartossh/Computantis/src/cache"
	"github.com/bartossh/Computantis/src/spice"
	"github.com/bartossh/Computantis/src/transaction"
)

func awaitErr(err error) string {
	switch {
	case err == nil:
		return "ok"
	case errors.Is(err, cache.ErrTrxAlreadyExists):
		return "exists"
	case errors.Is(err, cache.ErrTransactionNotFound):
		return "notFound"
	case errors.Is(err, cache.ErrUnauthorized):
		return "unauthorized"
	}
	return "other"
}

func init() {
	sections["await"] = func(c *Ctx) error {
		c.Rep.Rule = "sequential: random save/remove/read sequences over 3 addresses and 8 transactions (incl. issuer==receiver, removal by non-receivers, repeated saves, reads of unknown addresses), each result vs model and vs a map-based reference; concurrent: 8 goroutines saving distinct transactions to one receiver + mixed save/remove/read rounds, and saver + save/remove cycler + polling readers on one address, final listings vs reference; non-trivial = distinct (op, arguments, result)"
		w := NewWorld(c)
		w.quiet = true
		for i := 0; i < 3; i++ {
			w.NewWallet()
		}
		seqs := 60
		rounds := 60
		if c.Tier == "thorough" {
			seqs, rounds = 600, 400
		}
		for sq := 0; sq < seqs; sq++ {
			hc, err := cache.New(10000, 8)
			if err != nil {
				return err
			}
			c.Line("RESET")
			var pool []transaction.Transaction
			for i := 0; i < 8; i++ {
				iss := w.wallets[c.Rnd.Intn(3)]
				rec := w.wallets[c.Rnd.Intn(3)]
				pool = append(pool, w.NewTrx(iss, rec.Address(), spice.Melange{}, []byte{byte(i), byte(sq)}))
			}
			ref := map[[32]byte]transaction.Transaction{}
			for step := 0; step < 40; step++ {
				t := pool[c.Rnd.Intn(len(pool))]
				// the same cache object also holds the per-address balance cache: using it must not show in the
				// awaiting index (no trace line: for the model these calls do not exist)
				if c.Rnd.Intn(3) == 0 {
					a := w.wallets[c.Rnd.Intn(3)].Address()
					// the balance cache is keyed by whatever receiver / issuer string a sealed transfer carries (the
					// notary and gossip handlers pass the transaction's address fields on unchecked): a string
					// shaped like one of the index's own keys is as good as any
					switch c.Rnd.Intn(4) {
					case 0:
						a = "address-" + a
					case 1:
						a = "trx-" + hex.EncodeToString(t.Hash[:])
					}
					switch c.Rnd.Intn(3) {
					case 0:
						hc.SaveBalance(a, spice.Melange{Currency: uint64(step), SupplementaryCurrency: 7})
					case 1:
						hc.ReadBalance(a)
					case 2:
						hc.RemoveBalance(a)
					}
					c.Count("balance-cache-call")
				}
				switch c.Rnd.Intn(10) {
				case 0, 1, 2, 3:
					err := hc.SaveAwaitedTransaction(&t)
					c.Line("SAVE %d %s %s | %s", w.H(t.Hash), w.A(t.IssuerAddress), w.A(t.ReceiverAddress), awaitErr(err))
					c.Distinct(fmt.Sprint("save", awaitErr(err)))
					c.Count("save." + awaitErr(err))
					_, had := ref[t.Hash]
					if (err == nil) == had {
						c.Violate("C17", "save-result-differs-from-reference", fmt.Sprintf("save of an %v transaction returned %v", map[bool]string{true: "already awaiting", false: "new"}[had], err), nil)
					}
					if err == nil {
						ref[t.Hash] = t
					}
				case 4, 5, 6:
					addr := w.wallets[c.Rnd.Intn(3)].Address()
					if c.Rnd.Intn(2) == 0 {
						addr = t.ReceiverAddress
					}
					_, err := hc.RemoveAwaitedTransaction(t.Hash, addr)
					c.Line("REM %d %s | %s", w.H(t.Hash), w.A(addr), awaitErr(err))
					c.Count("remove." + awaitErr(err))
					c.Distinct(fmt.Sprint("rem", awaitErr(err), addr == t.IssuerAddress))
					rt, had := ref[t.Hash]
					shouldOK := had && rt.ReceiverAddress == addr
					if (err == nil) != shouldOK {
						key := "remove-result-differs-from-reference"
						if err == nil && had && rt.ReceiverAddress != addr {
							key = "non-receiver-removed-transaction"
						}
						c.Violate("C17", key, fmt.Sprintf("remove by %s of a transaction with receiver %s returned %v", w.A(addr), w.A(t.ReceiverAddress), err), nil)
					}
					if err == nil {
						delete(ref, t.Hash)
					}
				default:
					var addr string
					if c.Rnd.Intn(8) == 0 {
						addr = "nobody"
					} else {
						addr = w.wallets[c.Rnd.Intn(3)].Address()
					}
					trxs, _ := hc.ReadTransactions(addr)
					names := []string{}
					got := map[[32]byte]bool{}
					for _, x := range trxs {
						names = append(names, fmt.Sprint(w.H(x.Hash)))
						got[x.Hash] = true
					}
					c.Line("READ %s | %s", w.A(addr), strings.Join(names, ","))
					c.Count("read")
					c.Distinct(fmt.Sprint("read", len(trxs)))
					want := 0
					for h, x := range ref {
						if x.IssuerAddress == addr || x.ReceiverAddress == addr {
							want++
							if !got[h] {
								c.Violate("C17", "awaiting-transaction-not-listed", "a saved, not removed transaction is missing from a listing", nil)
							}
						}
					}
					if len(trxs) != want {
						c.Violate("C17", "listing-has-extra-or-duplicate-entries", fmt.Sprintf("listing has %d entries, reference %d", len(trxs), want), nil)
					}
				}
				c.Rep.Evals++
			}
			hc.Close()
		}
		// ---- concurrent
		lost, checked := 0, 0
		for r := 0; r < rounds; r++ {
			hc, err := cache.New(10000, 8)
			if err != nil {
				return err
			}
			rec := w.wallets[0]
			var trxs []transaction.Transaction
			for i := 0; i < 8; i++ {
				trxs = append(trxs, w.NewTrx(w.wallets[1+i%2], rec.Address(), spice.Melange{}, []byte{byte(i), byte(r), 9}))
			}
			var wg sync.WaitGroup
			for i := range trxs {
				wg.Add(1)
				go func(t transaction.Transaction) {
					defer wg.Done()
					hc.SaveAwaitedTransaction(&t)
				}(trxs[i])
			}
			// concurrent readers and a remover of the first half (by the receiver) once saved
			wg.Add(1)
			go func() {
				defer wg.Done()
				hc.ReadTransactions(rec.Address())
				hc.ReadTransactions(w.wallets[1].Address())
			}()
			wg.Wait()
			var wg2 sync.WaitGroup
			for i := 0; i < 4; i++ {
				wg2.Add(1)
				go func(t transaction.Transaction) {
					defer wg2.Done()
					hc.RemoveAwaitedTransaction(t.Hash, rec.Address())
				}(trxs[i])
			}
			wg2.Wait()
			got, _ := hc.ReadTransactions(rec.Address())
			hs := []string{}
			for _, t := range got {
				hs = append(hs, fmt.Sprintf("%x", t.Hash[:3]))
			}
			sort.Strings(hs)
			checked++
			c.Rep.Evals++
			if len(got) != 4 {
				lost++
				c.Violate("C17", "concurrent-save-lost-update", fmt.Sprintf("8 concurrent saves for one receiver, 4 removals: the receiver's listing has %d entries instead of 4 (round %d)", len(got), r), map[string]interface{}{"section": "await", "round": r})
			}
			for _, iss := range []int{1, 2} {
				g2, _ := hc.ReadTransactions(w.wallets[iss].Address())
				if len(g2) != 2 {
					c.Violate("C17", "concurrent-update-lost-on-issuer-list", fmt.Sprintf("issuer listing has %d entries instead of 2", len(g2)), map[string]interface{}{"section": "await", "round": r})
				}
			}
			hc.Close()
		}
		// ---- three-way: a saver of transactions that are never removed, a save-then-remove cycler and a
		// polling reader, all on one issuer address (the reader's lazy clean-up writes the list too)
		// sized so that no bigcache shard log wraps: capacity eviction (the oldest entries of a shard
		// are dropped when its log is full, whoever they belong to) is not what the property is about
		tw := 12
		if c.Tier == "thorough" {
			tw = 120
		}
		for r := 0; r < tw; r++ {
			hc, err := cache.New(1000, 1024)
			if err != nil {
				return err
			}
			iss, rec := w.wallets[1], w.wallets[0]
			const keepN, cycleN = 60, 60
			var keep, cyc []transaction.Transaction
			for i := 0; i < keepN; i++ {
				keep = append(keep, w.NewTrx(iss, rec.Address(), spice.Melange{}, []byte{byte(i), byte(i >> 8), byte(r), 1}))
			}
			for i := 0; i < cycleN; i++ {
				cyc = append(cyc, w.NewTrx(iss, rec.Address(), spice.Melange{}, []byte{byte(i), byte(i >> 8), byte(r), 2}))
			}
			var wg sync.WaitGroup
			stop := make(chan struct{})
			wg.Add(2)
			go func() {
				defer wg.Done()
				for i := range keep {
					hc.SaveAwaitedTransaction(&keep[i])
				}
			}()
			go func() {
				defer wg.Done()
				for i := range cyc {
					hc.SaveAwaitedTransaction(&cyc[i])
					hc.RemoveAwaitedTransaction(cyc[i].Hash, rec.Address())
				}
			}()
			var rg sync.WaitGroup
			for k := 0; k < 2; k++ {
				rg.Add(1)
				go func(k int) {
					defer rg.Done()
					for {
						select {
						case <-stop:
							return
						default:
							hc.ReadTransactions([]string{iss.Address(), rec.Address()}[k])
						}
					}
				}(k)
			}
			wg.Wait()
			close(stop)
			rg.Wait()
			checked++
			c.Rep.Evals++
			for _, who := range []string{iss.Address(), rec.Address()} {
				got, _ := hc.ReadTransactions(who)
				have := map[[32]byte]bool{}
				for _, t := range got {
					have[t.Hash] = true
				}
				missing, extra := 0, len(got)
				for _, t := range keep {
					if have[t.Hash] {
						extra--
					} else {
						missing++
					}
				}
				if missing != 0 || extra != 0 {
					lost++
					c.Violate("C17", "concurrent-read-save-remove-lost-update", fmt.Sprintf("saver + save/remove cycler + polling reader on one address: %d of %d saved and never removed transactions are not listed, %d removed ones still are (round %d)", missing, keepN, extra, r),
						map[string]interface{}{"section": "await", "scenario": "three-way", "round": r})
					break
				}
			}
			hc.Close()
		}
		c.Distinct("concurrent-three-way")
		// ---- emptied list: one transaction proposed and confirmed leaves both per-address lists present but
		// empty; the issuer saves the next one while clients poll both addresses (the reader's "delete the
		// empty list" branch is a write too). After quiescence the saved transaction is listed once for both.
		er := 1500
		if c.Tier == "thorough" {
			er = 20000
		}
		{
			hc, err := cache.New(1000, 1024)
			if err != nil {
				return err
			}
			iss, rec := w.wallets[2], w.wallets[0]
			for r := 0; r < er; r++ {
				first := w.NewTrx(iss, rec.Address(), spice.Melange{}, []byte{byte(r), byte(r >> 8), 7})
				hc.SaveAwaitedTransaction(&first)
				hc.RemoveAwaitedTransaction(first.Hash, rec.Address())
				next := w.NewTrx(iss, rec.Address(), spice.Melange{}, []byte{byte(r), byte(r >> 8), 8})
				start := make(chan struct{})
				var wg sync.WaitGroup
				for _, a := range []string{iss.Address(), rec.Address()} {
					for i := 0; i < 5; i++ {
						wg.Add(1)
						go func(a string) { defer wg.Done(); <-start; hc.ReadTransactions(a) }(a)
					}
				}
				var saveErr error
				wg.Add(1)
				go func() { defer wg.Done(); <-start; saveErr = hc.SaveAwaitedTransaction(&next) }()
				close(start)
				wg.Wait()
				checked++
				c.Rep.Evals++
				bad := ""
				if saveErr != nil {
					bad = "save failed: " + saveErr.Error()
				}
				for _, a := range []string{iss.Address(), rec.Address()} {
					got, _ := hc.ReadTransactions(a)
					if bad == "" && (len(got) != 1 || got[0].Hash != next.Hash) {
						bad = fmt.Sprintf("after a save concurrent with polling readers of an emptied list the saved transaction is listed %d times for %s", len(got), w.A(a))
					}
				}
				if bad != "" {
					lost++
					c.Violate("C17", "save-lost-to-polling-reader-of-emptied-list", fmt.Sprintf("%s (round %d)", bad, r),
						map[string]interface{}{"section": "await", "scenario": "emptied-list", "round": r})
					break
				}
				hc.RemoveAwaitedTransaction(next.Hash, rec.Address())
			}
			hc.Close()
		}
		c.Distinct("concurrent-emptied-list")
		// ---- simultaneous duplicate saves of ONE transaction (a retried proposal, a proposal racing its gossiped
		// copy): exactly one save succeeds and the transaction is listed once for each party
		dr := 300
		if c.Tier == "thorough" {
			dr = 3000
		}
		{
			hc, err := cache.New(1000, 1024)
			if err != nil {
				return err
			}
			iss, rec := w.wallets[1], w.wallets[2]
			for r := 0; r < dr; r++ {
				t := w.NewTrx(iss, rec.Address(), spice.Melange{}, []byte{byte(r), byte(r >> 8), 9})
				start := make(chan struct{})
				var wg sync.WaitGroup
				var okN atomic.Int64
				for g := 0; g < 8; g++ {
					wg.Add(1)
					go func() {
						defer wg.Done()
						cp := t
						<-start
						if hc.SaveAwaitedTransaction(&cp) == nil {
							okN.Add(1)
						}
					}()
				}
				close(start)
				wg.Wait()
				checked++
				c.Rep.Evals++
				bad := ""
				if okN.Load() != 1 {
					bad = fmt.Sprintf("%d of 8 simultaneous saves of one transaction succeeded", okN.Load())
				}
				for _, a := range []string{iss.Address(), rec.Address()} {
					got, _ := hc.ReadTransactions(a)
					n := 0
					for _, x := range got {
						if x.Hash == t.Hash {
							n++
						}
					}
					if bad == "" && n != 1 {
						bad = fmt.Sprintf("after 8 simultaneous saves the transaction is listed %d times for %s", n, w.A(a))
					}
				}
				if bad != "" {
					lost++
					c.Violate("C17", "simultaneous-duplicate-saves-not-atomic", fmt.Sprintf("%s (round %d)", bad, r),
						map[string]interface{}{"section": "await", "scenario": "duplicate-saves", "round": r})
					break
				}
				hc.RemoveAwaitedTransaction(t.Hash, rec.Address())
			}
			hc.Close()
		}
		// ---- a removal racing saves of the SAME transaction (the receiver confirms while another copy of the
		// proposal arrives by gossip): afterwards the transaction is either gone, or stored AND listed for both
		// parties - never stored (a further save is refused as a duplicate) but listed for nobody
		{
			hc, err := cache.New(1000, 1024)
			if err != nil {
				return err
			}
			iss, rec := w.wallets[1], w.wallets[2]
			rr := 400
			if c.Tier == "thorough" {
				rr = 6000
			}
			for r := 0; r < rr; r++ {
				t := w.NewTrx(iss, rec.Address(), spice.Melange{}, []byte{byte(r), byte(r >> 8), 11})
				first := t
				hc.SaveAwaitedTransaction(&first)
				start := make(chan struct{})
				var wg sync.WaitGroup
				var removed atomic.Bool
				for g := 0; g < 3; g++ {
					wg.Add(1)
					go func() {
						defer wg.Done()
						<-start
						for k := 0; k < 40 && !removed.Load(); k++ {
							cp := t
							hc.SaveAwaitedTransaction(&cp)
						}
						cp := t
						hc.SaveAwaitedTransaction(&cp)
					}()
				}
				wg.Add(1)
				go func() {
					defer wg.Done()
					<-start
					hc.RemoveAwaitedTransaction(t.Hash, rec.Address())
					removed.Store(true)
				}()
				close(start)
				wg.Wait()
				checked++
				c.Rep.Evals++
				probe := t
				stored := hc.SaveAwaitedTransaction(&probe) != nil // refused as already awaiting; else the probe itself stored it
				bad := ""
				for _, a := range []string{iss.Address(), rec.Address()} {
					got, _ := hc.ReadTransactions(a)
					n := 0
					for _, x := range got {
						if x.Hash == t.Hash {
							n++
						}
					}
					if n != 1 && bad == "" {
						bad = fmt.Sprintf("a removal raced saves of the same transaction; now a further save is %s, and the transaction is listed %d times for %s",
							map[bool]string{true: "refused as a duplicate", false: "accepted"}[stored], n, w.A(a))
					}
				}
				if bad != "" {
					lost++
					c.Violate("C17", "remove-racing-save-leaves-unlisted-entry", fmt.Sprintf("%s (round %d)", bad, r),
						map[string]interface{}{"section": "await", "scenario": "remove-racing-save", "round": r})
					break
				}
				hc.RemoveAwaitedTransaction(t.Hash, rec.Address())
			}
			hc.Close()
		}
		c.Distinct("remove-racing-save")
		c.Distinct("concurrent-duplicate-saves")
		c.Rep.Extra["concurrent_rounds"] = checked
		c.Rep.Extra["concurrent_rounds_with_lost_entries"] = lost
		c.Distinct("concurrent")
		c.Sample(map[string]interface{}{"sequential": "SAVE h3 a1 a2 | ok ; READ a2 | 3 ; REM h3 a1 | unauthorized ; REM h3 a2 | ok ; READ a1 | "})
		return nil
	}
}
