package main

// Section "ledger": random multi-node histories over the real AccountingBook (serves C01, C02, C03,
// C05-ingress, C06, C09, C10 and the general ledger correspondence).

import (
	"context"
	"fmt"
	"math/big"
	"sync"
	"time"

	"github.com/bartossh/Computantis/src/accountant"
	"github.com/bartossh/Computantis/src/spice"
	"github.com/bartossh/Computantis/src/transaction"
	"github.com/bartossh/Computantis/src/wallet"
)

type pend struct {
	to int
	v  accountant.Vertex
}

type ledgerParams struct {
	nodes, wallets, steps int
	supply               spice.Melange
	adversarial          bool
}

func pick[T any](c *Ctx, xs []T) T { return xs[c.Rnd.Intn(len(xs))] }

func (w *World) syncFrom(src, dst *Node) error {
	vs := w.Stream(src)
	// random permutation: LoadDag must not depend on the stream order
	w.c.Rnd.Shuffle(len(vs), func(i, j int) { vs[i], vs[j] = vs[j], vs[i] })
	// LoadDag does not re-validate funds: a ledger copied from a node that exempted trusted sealers carries
	// those exempt vertices, so the conservation statement is not about it either
	if w.everTrusted[src.id] {
		w.everTrusted[dst.id] = true
	}
	return w.Load(dst, vs)
}

func amountFor(c *Ctx, bal spice.Melange) spice.Melange {
	one := spice.Melange{SupplementaryCurrency: 1}
	switch c.Rnd.Intn(8) {
	case 0:
		return bal // exact balance
	case 1:
		return one
	case 2: // force a borrow: supplementary part just above the balance's
		if bal.Currency > 0 {
			return spice.Melange{Currency: 0, SupplementaryCurrency: (bal.SupplementaryCurrency + 1) % maxSupp}
		}
	case 3:
		return spice.Melange{Currency: bal.Currency / 2, SupplementaryCurrency: maxSupp - 1}
	case 4:
		if bal.Currency > 0 {
			return spice.Melange{Currency: uint64(c.Rnd.Int63n(int64(bal.Currency%(1<<62)) + 1)), SupplementaryCurrency: uint64(c.Rnd.Int63n(int64(maxSupp)))}
		}
	}
	if bal.Currency > 1 {
		return spice.Melange{Currency: 1 + uint64(c.Rnd.Intn(3)), SupplementaryCurrency: uint64(c.Rnd.Intn(3)) * (maxSupp / 4)}
	}
	return spice.Melange{SupplementaryCurrency: 1 + uint64(c.Rnd.Int63n(int64(maxSupp/2)))}
}

func overdraftFor(c *Ctx, bal spice.Melange) spice.Melange {
	if c.Rnd.Intn(2) == 0 {
		if bal.SupplementaryCurrency+1 < maxSupp {
			return spice.Melange{Currency: bal.Currency, SupplementaryCurrency: bal.SupplementaryCurrency + 1}
		}
		return spice.Melange{Currency: bal.Currency + 1, SupplementaryCurrency: 0}
	}
	return spice.Melange{Currency: bal.Currency + 1 + uint64(c.Rnd.Intn(100)), SupplementaryCurrency: uint64(c.Rnd.Int63n(int64(maxSupp)))}
}

func ledgerScenario(c *Ctx, p ledgerParams) {
	w := NewWorld(c)
	defer w.Close()
	for i := 0; i < p.nodes; i++ {
		w.NewNode()
	}
	for i := 0; i < p.wallets; i++ {
		w.NewWallet()
	}
	n0 := w.nodes[0]
	if c.Rnd.Intn(20) == 0 {
		w.Genesis(n0, n0.addr, p.supply) // must be rejected
	}
	if c.Rnd.Intn(20) == 0 {
		w.Genesis(n0, w.wallets[0].Address(), spice.Melange{Currency: 1, SupplementaryCurrency: maxSupp}) // must be rejected
	}
	genesisReceiver := w.wallets[0].Address()
	if c.Rnd.Intn(8) == 0 {
		// the sealing node's own address with white space around it is NOT that address: whatever the node
		// does with such a receiver, the genesis vertex must not end up naming its own issuer
		genesisReceiver = pick(c, []string{n0.addr + "\n", " " + n0.addr, n0.addr + " ", "\t" + n0.addr + "\r\n"})
		c.Count("genesis.padded-own-address")
	}
	if _, err := w.Genesis(n0, genesisReceiver, p.supply); err != nil {
		return
	}
	supplyV := bval(spice.New(p.supply.Currency, p.supply.SupplementaryCurrency))
	loaded := []*Node{n0}
	for _, n := range w.nodes[1:] {
		if c.Rnd.Intn(4) != 0 {
			if w.syncFrom(n0, n) == nil {
				loaded = append(loaded, n)
			}
		}
	}
	var pending []pend
	var trxs []transaction.Transaction
	var sealed []accountant.Vertex
	unknown, _ := wallet.New()
	nontrivial := false
	for step := 0; step < p.steps; step++ {
		n := pick(c, loaded)
		r := c.Rnd.Intn(100)
		switch {
		case r < 38: // valid-looking spice proposal
			iss := pick(c, w.wallets)
			rec := pick(c, w.wallets)
			bal, err := w.Balance(n, iss.Address())
			if err != nil || bal.Empty() {
				continue
			}
			amt := amountFor(c, bal)
			if amt.Empty() {
				continue
			}
			var data []byte
			if c.Rnd.Intn(10) == 0 {
				data = []byte("contract")
			}
			t := w.NewTrx(iss, rec.Address(), amt, data)
			trxs = append(trxs, t)
			if v, err := w.Propose(n, &t); err == nil {
				sealed = append(sealed, v)
				nontrivial = true
				for _, m := range w.nodes {
					if m != n {
						pending = append(pending, pend{m.id, v})
					}
				}
			}
		case r < 48: // overdraft attempt (sealed as a tentative tip, must be dropped later)
			iss := pick(c, w.wallets)
			rec := pick(c, w.wallets)
			bal, err := w.Balance(n, iss.Address())
			if err != nil {
				bal = spice.Melange{}
			}
			// an overdraft is an overdraft whether or not the transfer also carries data
			t := w.NewTrx(iss, rec.Address(), overdraftFor(c, bal), pick(c, [][]byte{nil, nil, []byte("paid contract")}))
			trxs = append(trxs, t)
			if v, err := w.Propose(n, &t); err == nil {
				sealed = append(sealed, v)
				c.Count("gen.overdraft-sealed")
				for _, m := range w.nodes {
					if m != n {
						pending = append(pending, pend{m.id, v})
					}
				}
			}
		case r < 53: // data-only contract
			t := w.NewTrx(pick(c, w.wallets), pick(c, w.wallets).Address(), spice.Melange{}, []byte("d"))
			trxs = append(trxs, t)
			if v, err := w.Propose(n, &t); err == nil {
				sealed = append(sealed, v)
				for _, m := range w.nodes {
					if m != n {
						pending = append(pending, pend{m.id, v})
					}
				}
			}
		case r < 54: // empty transaction
			// neither spice nor data; the data field absent, or present with no bytes in it
			t := w.NewTrx(pick(c, w.wallets), pick(c, w.wallets).Address(), spice.Melange{}, pick(c, [][]byte{nil, {}, make([]byte, 0, 16)}))
			w.Propose(n, &t)
		case r < 56: // non-canonical amount: proposed locally and offered by gossip (sealed by a wallet we control)
			amt := spice.Melange{Currency: uint64(c.Rnd.Intn(2)), SupplementaryCurrency: pick(c, []uint64{maxSupp, maxSupp + 1, 1<<64 - 1})}
			// with and without data: carrying data does not make a non-canonical amount acceptable
			t := w.NewTrx(pick(c, w.wallets), pick(c, w.wallets).Address(), amt, pick(c, [][]byte{nil, []byte("c"), {}}))
			w.Propose(n, &t)
			if s := n.lastSnap; s != nil && len(s.Leaves) > 0 {
				sealer := pick(c, w.wallets)
				if v, err := accountant.NewVertex(t, s.Leaves[0], s.Leaves[0], 60, sealer); err == nil {
					w.Add(n, &v)
				}
			}
		case r < 57: // issued by the sealing node's own wallet
			// a spice transfer, a data-only contract, or both: the sealing node's own wallet issues nothing it seals
			kind := c.Rnd.Intn(3)
			amt, data := spice.Melange{Currency: 1}, []byte(nil)
			if kind == 1 {
				amt, data = spice.Melange{}, []byte("own contract")
			} else if kind == 2 {
				data = []byte("own paid contract")
			}
			t := w.NewTrx(n.w, pick(c, w.wallets).Address(), amt, data)
			w.Propose(n, &t)
		case r < 59: // issued by the genesis wallet
			t := w.NewTrx(n0.w, pick(c, w.wallets).Address(), spice.Melange{Currency: 1}, nil)
			w.Propose(pick(c, loaded), &t)
		case r < 62: // duplicate of an earlier transaction
			if len(trxs) > 0 {
				t := pick(c, trxs)
				if v, err := w.Propose(n, &t); err == nil {
					sealed = append(sealed, v)
					for _, m := range w.nodes {
						if m != n {
							pending = append(pending, pend{m.id, v})
						}
					}
				}
			}
		case r < 66: // vertex crafted by a wallet acting as its own sealing node / by the genesis wallet / empty
			s := n.lastSnap
			if s == nil || len(s.Leaves) == 0 {
				continue
			}
			sealer := pick(c, w.wallets)
			issuer := sealer
			amt := spice.Melange{}
			var data []byte
			switch c.Rnd.Intn(5) {
			case 0: // self-sealed spice transfer
				amt = spice.Melange{SupplementaryCurrency: 1}
			case 1: // self-sealed data-only contract
				data = []byte("self")
			case 2: // self-sealed, both
				amt = spice.Melange{SupplementaryCurrency: 1}
				data = []byte("self")
			case 3: // issued by the genesis wallet, sealed by someone else
				issuer = n0.w
				amt = spice.Melange{Currency: 1}
			case 4: // empty transaction sealed by someone else
				issuer = pick(c, w.wallets)
				data = pick(c, [][]byte{nil, {}, make([]byte, 0, 16)})
			}
			t := w.NewTrx(issuer, pick(c, w.wallets).Address(), amt, data)
			left, right := s.Leaves[0], s.Leaves[len(s.Leaves)-1]
			viaOrphan := len(pending) > 0 && c.Rnd.Intn(2) == 0
			var pd pend
			if viaOrphan {
				// child of a vertex this node has not received yet: parked first, admitted (or not) on replay
				for i := range pending {
					if pending[i].to == n.id {
						pd = pending[i]
						pending = append(pending[:i], pending[i+1:]...)
						left, right = pd.v.Hash, pd.v.Hash
						break
					}
				}
				if pd.v.Hash == [32]byte{} {
					viaOrphan = false
				}
			}
			v, err := accountant.NewVertex(t, left, right, 60, sealer)
			if err != nil {
				continue
			}
			c.Count("gen.crafted")
			w.Add(n, &v)
			if viaOrphan {
				w.Add(n, &pd.v)
				w.Retry(n)
				w.Retry(n)
			}
		case r < 80: // gossip delivery, any order
			if len(pending) > 0 {
				i := c.Rnd.Intn(len(pending))
				if c.Rnd.Intn(3) != 0 {
					i = 0 // mostly in order
				}
				pd := pending[i]
				pending = append(pending[:i], pending[i+1:]...)
				w.Add(w.nodes[pd.to], &pd.v)
			}
		case r < 83: // duplicate delivery
			if len(sealed) > 0 {
				v := pick(c, sealed)
				w.Add(pick(c, w.nodes), &v)
			}
		case r < 86: // corrupted vertex
			if len(sealed) > 0 {
				v := pick(c, sealed)
				switch c.Rnd.Intn(3) {
				case 0:
					v.Weight++
				case 1:
					v.Transaction.Spice.Currency++
				case 2:
					v.Signature = append([]byte{}, v.Signature...)
					v.Signature[0] ^= 1
				}
				w.ReDefV(&v)
				w.Add(pick(c, loaded), &v)
				orig := sealed[0]
				for _, s := range sealed {
					if s.Hash == v.Hash {
						orig = s
					}
				}
				w.ReDefV(&orig)
			}
		case r < 90:
			if p.adversarial {
				m := pick(c, w.nodes)
				ta := m.addr
				if c.Rnd.Intn(3) == 0 {
					// the address of a WALLET lands in the trusted list (nothing checks what an operator enters): it
					// never seals anything, so the exemption never applies - least of all to what that wallet issues
					ta = pick(c, w.wallets).Address()
				}
				w.Trust(n, ta, !w.trusted[n.id][ta])
			}
		case r < 96:
			var a string
			switch c.Rnd.Intn(6) {
			case 0:
				a = unknown.Address()
			case 1:
				a = n0.addr
			default:
				a = pick(c, w.wallets).Address()
			}
			w.Balance(pick(c, loaded), a)
		case r < 98:
			w.Retry(n)
		default:
			for _, m := range w.nodes {
				if !contains(loaded, m) && w.syncFrom(pick(c, loaded), m) == nil {
					loaded = append(loaded, m)
					break
				}
			}
		}
	}
	// drain: deliver everything in order, retry until the buffers are empty
	for _, pd := range pending {
		w.Add(w.nodes[pd.to], &pd.v)
	}
	for _, n := range w.nodes {
		for i := 0; i < 40; i++ {
			if had, _ := w.Retry(n); !had {
				break
			}
		}
	}
	// one closing proposal per node so that the last tips get validated, then the quiescence oracles
	for _, n := range loaded {
		t := w.NewTrx(w.wallets[0], w.wallets[1%len(w.wallets)].Address(), spice.Melange{}, []byte("end"))
		if v, err := w.Propose(n, &t); err == nil {
			for _, m := range loaded {
				if m != n {
					w.Add(m, &v)
				}
			}
		}
	}
	for _, n := range loaded {
		for _, wl := range w.wallets {
			w.Balance(n, wl.Address())
		}
		w.Conservation(n, supplyV)
	}
	if nontrivial {
		c.Distinct(fmt.Sprintf("scenario-%d", c.Rep.Evals))
	}
}

func contains(ns []*Node, n *Node) bool {
	for _, x := range ns {
		if x == n {
			return true
		}
	}
	return false
}


// staleLookups: several calls for the same transaction / vertex pass their unlocked look-ups while the
// ledger lock is held by the harness (VerifHoldLedger) and then run their locked bodies one after the
// other. The winner is replayed on the model as an ordinary call, every loser as the locked body alone
// (LPROP / LADD) on the book the winner left behind; afterwards the same thing is offered once more.
func staleLookups(c *Ctx, round int) {
	w := NewWorld(c)
	defer w.Close()
	a, b := w.NewNode(), w.NewNode()
	for i := 0; i < 3; i++ {
		w.NewWallet()
	}
	if _, err := w.Genesis(a, w.wallets[0].Address(), spice.Melange{Currency: 1000}); err != nil {
		return
	}
	if w.syncFrom(a, b) != nil {
		return
	}
	for i := 0; i < 2+round%3; i++ {
		t := w.NewTrx(w.wallets[0], w.wallets[1+i%2].Address(), spice.Melange{Currency: 5}, nil)
		if v, err := w.Propose(a, &t); err == nil {
			w.Add(b, &v)
		}
	}
	k := 2 + round%3
	info := map[string]interface{}{"section": "ledger", "scenario": "stale-lookups", "round": round, "simultaneous": k}
	// ---- simultaneous proposals of one transaction at a
	{
		t := w.NewTrx(w.wallets[0], w.wallets[2].Address(), spice.Melange{Currency: 10}, nil)
		tf := w.trxFields(&t)
		vs := make([]accountant.Vertex, k)
		errs := make([]error, k)
		var wg sync.WaitGroup
		a.ab.VerifHoldLedger(func() {
			for i := 0; i < k; i++ {
				wg.Add(1)
				go func(i int) {
					defer wg.Done()
					cp := t
					vs[i], errs[i] = a.ab.CreateLeaf(w.ctx, &cp)
				}(i)
			}
			time.Sleep(80 * time.Millisecond) // all of them are past the look-up and queue on the lock
		})
		wg.Wait()
		snap := w.Snap(a)
		wins := 0
		for i := 0; i < k; i++ {
			if errs[i] == nil {
				wins++
				w.c.Line("PROP %d %s %d | ok | %s", a.id, tf, w.DefV(&vs[i]), snap)
				w.after(a, "propose", nil)
			}
		}
		for i := 0; i < k; i++ {
			if errs[i] != nil {
				// a call that was scheduled so late that its unlocked look-up already saw the winner is an
				// ordinary whole call (refused by the look-up), not a locked body with a stale answer
				op := "LPROP"
				if errTag(errs[i]) == "trxExists" {
					op = "PROP"
				}
				w.c.Line("%s %d %s 0 | %s | %s", op, a.id, tf, errTag(errs[i]), snap)
				w.after(a, "propose.stale", errs[i])
			}
		}
		if wins != 1 {
			c.Violate("C03", "simultaneous-proposals-sealed-not-once", fmt.Sprintf("%d simultaneous proposals of one transaction: %d were sealed", k, wins), info)
		}
		cp := t
		if _, err := w.Propose(a, &cp); err == nil {
			c.Violate("C03", "transaction-sealed-again-after-simultaneous-proposals", "a transaction already sealed was sealed again after simultaneous duplicate proposals", info)
		}
		c.Distinct(fmt.Sprintf("stale-proposals/%d/wins=%d", k, wins))
	}
	// ---- simultaneous deliveries of one vertex (sealed at b) to a
	{
		t := w.NewTrx(w.wallets[0], w.wallets[1].Address(), spice.Melange{Currency: 7}, nil)
		// bring b up to date first
		for _, v := range w.Stream(a) {
			cp := *v
			b.ab.AddLeaf(w.ctx, &cp)
		}
		w.Seed(b)
		v, err := w.Propose(b, &t)
		if err != nil {
			return
		}
		errs := make([]error, k)
		var wg sync.WaitGroup
		a.ab.VerifHoldLedger(func() {
			for i := 0; i < k; i++ {
				wg.Add(1)
				go func(i int) {
					defer wg.Done()
					cp := v
					errs[i] = a.ab.AddLeaf(w.ctx, &cp)
				}(i)
			}
			time.Sleep(40 * time.Millisecond)
		})
		wg.Wait()
		snap := w.Snap(a)
		name := w.DefV(&v)
		wins := 0
		for i := 0; i < k; i++ {
			if errs[i] == nil {
				wins++
				w.c.Line("ADD %d %d | ok | %s", a.id, name, snap)
				w.after(a, "add", nil)
			}
		}
		for i := 0; i < k; i++ {
			if errs[i] != nil {
				op := "LADD"
				if errTag(errs[i]) == "leafExists" {
					op = "ADD" // its look-up already saw the winner: an ordinary whole call
				}
				w.c.Line("%s %d %d | %s | %s", op, a.id, name, errTag(errs[i]), snap)
				w.after(a, "add.stale", errs[i])
			}
		}
		if wins != 1 {
			c.Violate("C03", "simultaneous-deliveries-admitted-not-once", fmt.Sprintf("%d simultaneous deliveries of one vertex: %d were admitted", k, wins), info)
		}
		if err := w.Add(a, &v); err == nil {
			c.Violate("C03", "vertex-admitted-again-after-simultaneous-deliveries", "a vertex already held was admitted again", info)
		}
		// the transaction of that vertex proposed locally afterwards
		cp := t
		if _, err := w.Propose(a, &cp); err == nil {
			c.Violate("C03", "transaction-sealed-again-after-simultaneous-deliveries", "the transaction of a delivered vertex was sealed again locally", info)
		}
		c.Distinct(fmt.Sprintf("stale-deliveries/%d/wins=%d", k, wins))
	}
	// ---- one transaction sealed by two different nodes, both vertices delivered to a at the same time
	{
		t := w.NewTrx(w.wallets[0], w.wallets[2].Address(), spice.Melange{Currency: 3}, nil)
		d := w.NewNode()
		for _, n := range []*Node{b, d} {
			for _, v := range w.Stream(a) {
				cp := *v
				n.ab.AddLeaf(w.ctx, &cp)
			}
		}
		if !d.ab.DagLoaded() {
			if w.syncFrom(a, d) != nil {
				return
			}
		}
		w.Seed(b)
		w.Seed(d)
		tb, td := t, t
		vb, err1 := w.Propose(b, &tb)
		vd, err2 := w.Propose(d, &td)
		if err1 != nil || err2 != nil || vb.Hash == vd.Hash {
			return
		}
		vs := []accountant.Vertex{vb, vd}
		errs := make([]error, 2)
		var wg sync.WaitGroup
		a.ab.VerifHoldLedger(func() {
			for i := range vs {
				wg.Add(1)
				go func(i int) {
					defer wg.Done()
					cp := vs[i]
					errs[i] = a.ab.AddLeaf(w.ctx, &cp)
				}(i)
			}
			time.Sleep(40 * time.Millisecond)
		})
		wg.Wait()
		snap := w.Snap(a)
		wins := 0
		for i := range vs {
			if errs[i] == nil {
				wins++
				w.c.Line("ADD %d %d | ok | %s", a.id, w.DefV(&vs[i]), snap)
				w.after(a, "add", nil)
			}
		}
		for i := range vs {
			if errs[i] != nil {
				op := "LADD"
				if errTag(errs[i]) == "leafExists" {
					op = "ADD"
				}
				w.c.Line("%s %d %d | %s | %s", op, a.id, w.DefV(&vs[i]), errTag(errs[i]), snap)
				w.after(a, "add.stale", errs[i])
			}
		}
		holders := 0
		sn := a.ab.VerifSnapshot()
		for _, v := range sn.Vertices {
			if v.Transaction.Hash == t.Hash {
				holders++
			}
		}
		if wins != 1 || holders != 1 {
			c.Violate("C03", "transaction-sealed-by-two-nodes-held-twice", fmt.Sprintf("one transaction sealed by two nodes, both vertices delivered at the same time: %d deliveries admitted, %d vertices of the ledger carry the transaction", wins, holders), info)
		}
		c.Distinct(fmt.Sprintf("stale-two-sealers/wins=%d/holders=%d", wins, holders))
	}
}

// gossipOnLocalOverdraw: a node seals (CreateLeaf never judges the transaction it seals) a transfer its
// issuer cannot cover; before the node's next own proposal a vertex sealed by somebody else arrives that
// names that tentative tip as parent. The tip must be validated before the first edge: the delivery is
// refused and the tip dropped with its index entry.
func gossipOnLocalOverdraw(c *Ctx, round int) {
	w := NewWorld(c)
	defer w.Close()
	a := w.NewNode()
	for i := 0; i < 4; i++ {
		w.NewWallet()
	}
	if _, err := w.Genesis(a, w.wallets[0].Address(), spice.Melange{Currency: 1000}); err != nil {
		return
	}
	for i := 0; i < 1+round%3; i++ {
		t := w.NewTrx(w.wallets[0], w.wallets[1].Address(), spice.Melange{Currency: 5}, nil)
		w.Propose(a, &t)
	}
	// w2 holds nothing (round%2 == 0) or less than it spends
	amt := spice.Melange{Currency: 7}
	if round%2 == 1 {
		amt = spice.Melange{Currency: 5 * uint64(1+round%3), SupplementaryCurrency: 1}
	}
	spender := w.wallets[2]
	if round%2 == 1 {
		spender = w.wallets[1]
	}
	bad := w.NewTrx(spender, w.wallets[3].Address(), amt, nil)
	tip, err := w.Propose(a, &bad)
	if err != nil {
		return
	}
	ct := w.NewTrx(w.wallets[3], w.wallets[0].Address(), spice.Melange{}, []byte("child"))
	child, _ := accountant.NewVertex(ct, tip.Hash, tip.Hash, tip.Weight+1, w.wallets[0]) // sealed by a wallet acting as node
	w.Add(a, &child)
	t := w.NewTrx(w.wallets[0], w.wallets[1].Address(), spice.Melange{Currency: 1}, nil)
	w.Propose(a, &t)
	c.Distinct(fmt.Sprintf("gossip-on-local-overdraw/%d", round%2))
}

// cancelledProposal: a proposal whose caller has gone away (context cancelled or past its deadline) while
// the ledger holds a tentative spice tip. Whatever the node does with that tip, vertices and index stay in
// step, and the tip's transaction cannot be sealed a second time. The interrupted call itself is not
// replayed on the model (the model has no notion of a caller's context): the model is re-seeded after it.
func cancelledProposal(c *Ctx, round int) {
	w := NewWorld(c)
	defer w.Close()
	a := w.NewNode()
	for i := 0; i < 3; i++ {
		w.NewWallet()
	}
	if _, err := w.Genesis(a, w.wallets[0].Address(), spice.Melange{Currency: 1000}); err != nil {
		return
	}
	var last transaction.Transaction
	for i := 0; i < 2+round%3; i++ {
		last = w.NewTrx(w.wallets[0], w.wallets[1+i%2].Address(), spice.Melange{Currency: 5}, nil)
		w.Propose(a, &last) // the last one stays a tentative tip with ancestors
	}
	info := map[string]interface{}{"section": "ledger", "scenario": "cancelled-proposal", "round": round}
	ctx, cancel := context.WithCancel(context.Background())
	if round%2 == 0 {
		cancel()
	} else {
		ctx, cancel = context.WithDeadline(context.Background(), time.Now().Add(-time.Second))
	}
	defer cancel()
	t := w.NewTrx(w.wallets[0], w.wallets[2].Address(), spice.Melange{Currency: 1}, nil)
	_, err := a.ab.CreateLeaf(ctx, &t)
	c.Count("cancelled-proposal." + errTag(err))
	w.Seed(a) // takes a snapshot and runs the ledger oracles on it (vertex / index consistency is C03's)
	// the tip's transaction offered again, then a proposal that builds on whatever is there
	cp := last
	w.Propose(a, &cp)
	t3 := w.NewTrx(w.wallets[0], w.wallets[2].Address(), spice.Melange{Currency: 2}, nil)
	w.Propose(a, &t3)
	holders := 0
	sn := a.ab.VerifSnapshot()
	for _, v := range sn.Vertices {
		if v.Transaction.Hash == last.Hash {
			holders++
		}
	}
	if holders > 1 {
		c.Violate("C03", "transaction-sealed-again-after-interrupted-proposal", fmt.Sprintf("after a proposal with a cancelled context the transaction of the tentative tip is held by %d vertices", holders), info)
	}
	c.Distinct(fmt.Sprintf("cancelled-proposal/%d/holders=%d", round%2, holders))
}

var supplies = []spice.Melange{
	{Currency: 1000}, {Currency: 3, SupplementaryCurrency: maxSupp - 1}, {Currency: 0, SupplementaryCurrency: 10},
	{Currency: 1 << 40, SupplementaryCurrency: 1}, {Currency: 10, SupplementaryCurrency: maxSupp / 2},
}

func init() {
	sections["ledger"] = func(c *Ctx) error {
		c.Rep.Rule = "random multi-node histories (1-3 real AccountingBooks, 3-6 wallets, proposals incl. overdrafts/contracts/empty/own-node/genesis-issuer/duplicates, gossip in any order with duplicates and corrupted copies, trusted toggles, balance queries, orphan retries, late sync); stale look-ups: 2-4 simultaneous proposals of one transaction / deliveries of one vertex queued behind the held ledger lock, winner replayed as the whole call and losers as the locked body alone; non-trivial = scenario with at least one sealed spice transfer"
		scen := 40
		if c.Tier == "thorough" {
			scen = 400
		}
		for i := 0; i < scen; i++ {
			p := ledgerParams{nodes: 1 + c.Rnd.Intn(3), wallets: 3 + c.Rnd.Intn(4), steps: 30 + c.Rnd.Intn(50),
				supply: pick(c, supplies), adversarial: c.Rnd.Intn(3) == 0}
			c.Rep.Extra["scenario"] = i
			ledgerScenario(c, p)
		}
		sr := 6
		if c.Tier == "thorough" {
			sr = 60
		}
		for r := 0; r < sr; r++ {
			staleLookups(c, r)
			cancelledProposal(c, r)
			gossipOnLocalOverdraw(c, r)
		}
		c.Sample(map[string]interface{}{"scenarios": scen, "example": "GEN n0 -> w0 1000; PROP n0 w0->w1 1.25; ADD n1 v2; PROP n1 w1->w2 ...; BAL ...; RETRY ..."})
		_ = big.NewInt
		return nil
	}
}
