package main

// Section "crash" (C15): every RPC of the notary, gossip and webhooks services is called with every
// combination of nil / empty / short(31) / exact(32) / long(33) per bytes field and present / absent per
// sub-message (enumerated), each message first passed through real proto.Marshal/Unmarshal, under recover();
// plus correctly *signed* requests whose payload is short, addresses whose decoded key is not 32 bytes,
// and vertices arriving through the parent-fetch path. A rejected request must leave ledger, awaiting
// cache and peer table unchanged.

import (
	"sort"
	"sync/atomic"
	"context"
	"crypto/sha256"
	"fmt"
	"strings"
	"time"

	"github.com/bartossh/Computantis/src/accountant"
	"github.com/bartossh/Computantis/src/cache"
	"github.com/bartossh/Computantis/src/dataprovider"
	"github.com/bartossh/Computantis/src/gossip"
	"github.com/bartossh/Computantis/src/notaryserver"
	"github.com/bartossh/Computantis/src/pipe"
	pb "github.com/bartossh/Computantis/src/protobufcompiled"
	"github.com/bartossh/Computantis/src/serializer"
	"github.com/bartossh/Computantis/src/spice"
	"github.com/bartossh/Computantis/src/wallet"
	"github.com/bartossh/Computantis/src/webhooks"
	"github.com/bartossh/Computantis/src/webhooksserver"
	"google.golang.org/grpc"
	"google.golang.org/protobuf/proto"
	"google.golang.org/protobuf/types/known/emptypb"
)

type nopTele struct{}

func (nopTele) CreateUpdateObservableHistogram(string, string)      {}
func (nopTele) RecordHistogramTime(string, time.Duration) bool      { return true }
func (nopTele) RecordHistogramValue(string, float64) bool           { return true }

type nopHooks struct{}

func (nopHooks) CreateWebhook(byte, string, webhooks.Hook) error { return nil }
func (nopHooks) RemoveWebhook(byte, string, webhooks.Hook) error { return nil }
func (nopHooks) PostWebhookNewTransaction([]string, string)      {}

// stubClient is a peer that answers GetVertex with a configurable vertex and swallows gossip.
type stubClient struct {
	pb.GossipAPIClient
	vertex *pb.Vertex
	got    atomic.Int64
}

func (s *stubClient) GossipVrx(ctx context.Context, in *pb.VrxMsgGossip, _ ...grpc.CallOption) (*emptypb.Empty, error) {
	s.got.Add(1)
	return &emptypb.Empty{}, nil
}
func (s *stubClient) GossipTrx(ctx context.Context, in *pb.TrxMsgGossip, _ ...grpc.CallOption) (*emptypb.Empty, error) {
	s.got.Add(1)
	return &emptypb.Empty{}, nil
}
func (s *stubClient) GetVertex(ctx context.Context, in *pb.SignedHash, _ ...grpc.CallOption) (*pb.Vertex, error) {
	return s.vertex, nil
}

type services struct {
	w      *World
	node   *Node
	notary pb.NotaryAPIServer
	gsp    *gossip.VerifGossiper
	hooks  pb.WebhooksAPIServer
	cache  *cache.Hippocampus
	flash  *cache.Flashback
	prov   *dataprovider.Cache
	peer   *stubClient
	client *wallet.Wallet
}

func newServices(c *Ctx) *services {
	w := NewWorld(c)
	w.quiet = true
	n := w.NewNode()
	cl := w.NewWallet()
	w.NewWallet()
	w.Genesis(n, cl.Address(), spice.Melange{Currency: 1000})
	hc, err := cache.New(10000, 16)
	if err != nil {
		panic(err)
	}
	fl, err := cache.NewFlash()
	if err != nil {
		panic(err)
	}
	pr := dataprovider.New(context.Background(), dataprovider.Config{Longevity: 60})
	pp := pipe.New(100, 100)
	s := &services{w: w, node: n, cache: hc, flash: fl, prov: pr, client: cl, peer: &stubClient{}}
	s.notary = notaryserver.VerifNewServer(pr, nopTele{}, nopLog{}, w.ver, n.ab, hc, fl, pp, 4096)
	s.gsp = gossip.VerifNewGossiper(nopLog{}, time.Second, n.w, w.ver, n.ab, hc, fl, pp, "node-url")
	s.gsp.SetPeer(w.wallets[1].Address(), "peer-url", s.peer)
	s.hooks = webhooksserver.VerifNewApp(nopLog{}, w.ver, nopHooks{})
	go func() { // drain the pipe
		for {
			select {
			case <-pp.SubscribeToTrx():
			case <-pp.SubscribeToVrx():
			}
		}
	}()
	return s
}

func (s *services) fingerprint() string {
	snap := s.node.ab.VerifSnapshot()
	aw, _ := s.cache.ReadTransactions(s.client.Address())
	peers := s.gsp.Peers()
	// the orphan buffer and what was forwarded are not part of the statement (a rejected vertex may
	// trigger an asynchronous parent fetch whose result is parked)
	sort.Strings(peers)
	return fmt.Sprint(len(snap.Vertices), len(snap.Edges), len(snap.Index), len(aw), peers)
}

var byteShapes = []struct {
	name string
	mk   func() []byte
}{
	{"nil", func() []byte { return nil }},
	{"empty", func() []byte { return []byte{} }},
	{"len1", func() []byte { return []byte{7} }},
	{"len31", func() []byte { return make([]byte, 31) }},
	{"len32", func() []byte { b := make([]byte, 32); b[0] = 9; return b }},
	{"len33", func() []byte { return make([]byte, 33) }},
}

// roundTrip passes a message through the real protobuf codec (what a peer can actually deliver).
func roundTrip[T proto.Message](m T, fresh T) T {
	raw, err := proto.Marshal(m)
	if err != nil {
		return m
	}
	if err := proto.Unmarshal(raw, fresh); err != nil {
		return m
	}
	return fresh
}

func (s *services) call(c *Ctx, rpc, shape string, f func() error) {
	before := s.fingerprint()
	outcome := "ok"
	func() {
		defer func() {
			if r := recover(); r != nil {
				outcome = fmt.Sprint("panic: ", r)
			}
		}()
		if err := f(); err != nil {
			outcome = "err"
		}
	}()
	c.Rep.Evals++
	c.Distinct(rpc + "/" + shape)
	kind := outcome
	if strings.HasPrefix(outcome, "panic") {
		kind = "panic"
	}
	c.Count(rpc + "." + kind)
	info := map[string]interface{}{"section": "crash", "rpc": rpc, "shape": shape}
	if kind == "panic" {
		msg := outcome
		if len(msg) > 90 {
			msg = msg[:90]
		}
		c.Violate("C15", "panic:"+rpc+":"+panicClass(outcome), fmt.Sprintf("%s with %s: %s", rpc, shape, msg), info)
	}
	if kind == "err" && s.fingerprint() != before {
		c.Violate("C15", "rejected-request-changed-state:"+rpc, fmt.Sprintf("%s with %s was rejected but ledger / awaiting cache / peer table changed", rpc, shape), info)
	}
}

func panicClass(p string) string {
	switch {
	case strings.Contains(p, "cannot convert slice"):
		return "short-slice-to-array"
	case strings.Contains(p, "nil pointer"):
		return "nil-dereference"
	case strings.Contains(p, "bad public key length"):
		return "bad-public-key-length"
	case strings.Contains(p, "slice bounds"):
		return "slice-bounds"
	case strings.Contains(p, "index out of range"):
		return "index-out-of-range"
	}
	return "other"
}

// badKeyAddress: a checksum-valid address wrapping a key of n bytes.
func badKeyAddress(n int) string {
	payload := append([]byte{0x00}, make([]byte, n)...)
	h1 := sha256.Sum256(payload)
	h2 := sha256.Sum256(h1[:])
	return string(serializer.Base58Encode(append(payload, h2[:4]...)))
}

func (s *services) signed(data []byte) *pb.SignedHash {
	d, sig := s.client.Sign(data)
	return &pb.SignedHash{Address: s.client.Address(), Data: data, Hash: d[:], Signature: sig}
}

func init() {
	sections["crash"] = func(c *Ctx) error {
		c.Rep.Rule = "enumeration: per RPC, product of {nil,empty,1,31,32,33 bytes} per bytes field and {absent,present} per sub-message, through real proto.Marshal/Unmarshal, plus correctly signed requests with short payloads, checksum-valid addresses with 31/33-byte keys, and vertices served by a peer on the parent-fetch path; non-trivial = distinct (rpc, shape)"
		s := newServices(c)
		defer s.w.Close()
		ctx := context.Background()
		addrs := []struct {
			name string
			a    string
		}{{"own", s.client.Address()}, {"empty", ""}, {"garbage", "xyz"}, {"key33", badKeyAddress(33)}, {"key31", badKeyAddress(31)}, {"key0", badKeyAddress(0)}}
		// addresses that decode to very few bytes (shorter than, equal to and just above the checksum length),
		// with and without the supported version byte in front
		for n := 0; n <= 6; n++ {
			for _, first := range []byte{0x00, 0x07} {
				raw := make([]byte, n)
				for i := range raw {
					raw[i] = byte(i)
				}
				if n > 0 {
					raw[0] = first
				}
				addrs = append(addrs, struct {
					name string
					a    string
				}{fmt.Sprintf("decoded%d-first%02x", n, first), string(serializer.Base58Encode(raw))})
			}
		}

		// ---- SignedHash RPCs: Reject, Waiting, Saved, Balance, TransactionsInDAG (notary), GetVertex (gossip), Webhooks
		type shRPC struct {
			name string
			f    func(*pb.SignedHash) error
		}
		shs := []shRPC{
			{"notary.Reject", func(m *pb.SignedHash) error { _, e := s.notary.Reject(ctx, m); return e }},
			{"notary.Waiting", func(m *pb.SignedHash) error { _, e := s.notary.Waiting(ctx, m); return e }},
			{"notary.Saved", func(m *pb.SignedHash) error { _, e := s.notary.Saved(ctx, m); return e }},
			{"notary.Balance", func(m *pb.SignedHash) error { _, e := s.notary.Balance(ctx, m); return e }},
			{"notary.TransactionsInDAG", func(m *pb.SignedHash) error { _, e := s.notary.TransactionsInDAG(ctx, m); return e }},
			{"gossip.GetVertex", func(m *pb.SignedHash) error { _, e := s.gsp.Server().GetVertex(ctx, m); return e }},
			{"webhooks.Webhooks", func(m *pb.SignedHash) error { _, e := s.hooks.Webhooks(ctx, m); return e }},
		}
		for _, r := range shs {
			for _, ad := range addrs {
				for _, d := range byteShapes {
					for _, h := range byteShapes {
						for _, sg := range []int{0, 3} { // nil / 64-byte garbage signature
							m := &pb.SignedHash{Address: ad.a, Data: d.mk(), Hash: h.mk()}
							if sg > 0 {
								m.Signature = make([]byte, 64)
							}
							m = roundTrip(m, &pb.SignedHash{})
							s.flash.RemoveAddress(ad.a)
							r := r
							s.call(c, r.name, fmt.Sprintf("addr=%s data=%s hash=%s sig=%d", ad.name, d.name, h.name, sg), func() error { return r.f(m) })
						}
					}
				}
			}
			// a digest that matches the data, so that verification gets as far as decoding the address
			for _, ad := range addrs {
				for _, data := range [][]byte{make([]byte, 32), []byte(ad.a), {}} {
					d := sha256.Sum256(data)
					m := roundTrip(&pb.SignedHash{Address: ad.a, Data: data, Hash: d[:], Signature: make([]byte, 64)}, &pb.SignedHash{})
					s.flash.RemoveAddress(ad.a)
					r := r
					s.call(c, r.name, fmt.Sprintf("addr=%s matching-digest data=%d", ad.name, len(data)), func() error { return r.f(m) })
				}
			}
			// a live challenge exists for the address (its owner asked for one): data that is a prefix of it, the
			// challenge plus extra bytes, unsigned and signed
			if r.name == "notary.Waiting" || r.name == "notary.TransactionsInDAG" {
				ch := s.prov.ProvideData(s.client.Address())
				for _, data := range [][]byte{ch[:1], ch[:len(ch)-1], append(append([]byte{}, ch...), 0), append(append([]byte{}, ch...), make([]byte, 32)...), append(append([]byte{}, ch...), make([]byte, 4096)...)} {
					d := sha256.Sum256(data)
					for _, signed := range []bool{false, true} {
						m := &pb.SignedHash{Address: s.client.Address(), Data: data, Hash: d[:], Signature: make([]byte, 64)}
						if signed {
							m = s.signed(data)
						}
						m = roundTrip(m, &pb.SignedHash{})
						s.flash.RemoveAddress(s.client.Address())
						r := r
						s.call(c, r.name, fmt.Sprintf("live-challenge data-len=%d (challenge %d) signed=%v", len(data), len(ch), signed), func() error { return r.f(m) })
					}
				}
			}
			// correctly signed requests (pass verification, reach the code behind it)
			for _, n := range []int{0, 1, 31, 32, 33, 128} {
				data := make([]byte, n)
				if r.name == "notary.Balance" {
					data = []byte(s.client.Address())
				}
				if r.name == "notary.Waiting" || r.name == "notary.TransactionsInDAG" {
					data = s.prov.ProvideData(s.client.Address())
					if n < 128 {
						continue
					}
				}
				m := roundTrip(s.signed(data), &pb.SignedHash{})
				s.flash.RemoveAddress(s.client.Address())
				r := r
				s.call(c, r.name, fmt.Sprintf("validly-signed data-len=%d", len(data)), func() error { return r.f(m) })
			}
		}
		// nil requests
		s.call(c, "notary.Reject", "nil-message", func() error { _, e := s.notary.Reject(ctx, nil); return e })
		s.call(c, "notary.Propose", "nil-message", func() error { _, e := s.notary.Propose(ctx, nil); return e })
		s.call(c, "notary.Confirm", "nil-message", func() error { _, e := s.notary.Confirm(ctx, nil); return e })
		s.call(c, "gossip.GossipVrx", "nil-message", func() error { _, e := s.gsp.Server().GossipVrx(ctx, nil); return e })
		s.call(c, "gossip.GossipTrx", "nil-message", func() error { _, e := s.gsp.Server().GossipTrx(ctx, nil); return e })
		s.call(c, "notary.Data", "empty-address", func() error { _, e := s.notary.Data(ctx, &pb.Address{}); return e })

		// ---- Transaction RPCs: Propose, Confirm (notary), GossipTrx (gossip)
		mkTrx := func(hash, isig, rsig, data []byte, spicePresent bool, filled bool) *pb.Transaction {
			t := &pb.Transaction{Hash: hash, IssuerSignature: isig, ReceiverSignature: rsig, Data: data}
			if filled {
				t.Subject, t.IssuerAddress, t.ReceiverAddress, t.CreatedAt = "s", s.client.Address(), s.w.wallets[1].Address(), uint64(time.Now().UnixNano())
			}
			if spicePresent {
				t.Spice = &pb.Spice{Currency: 1}
			}
			return t
		}
		for _, h := range byteShapes {
			for _, is := range byteShapes {
				for _, sp := range []bool{false, true} {
					for _, filled := range []bool{false, true} {
						for _, d := range []int{0, 1} {
							var data []byte
							if d == 1 {
								data = []byte("contract")
							}
							shape := fmt.Sprintf("hash=%s isig=%s spice=%v filled=%v data=%d", h.name, is.name, sp, filled, d)
							t := roundTrip(mkTrx(h.mk(), is.mk(), nil, data, sp, filled), &pb.Transaction{})
							s.call(c, "notary.Propose", shape, func() error { _, e := s.notary.Propose(ctx, t); return e })
							t2 := roundTrip(mkTrx(h.mk(), is.mk(), is.mk(), data, sp, filled), &pb.Transaction{})
							s.call(c, "notary.Confirm", shape, func() error { _, e := s.notary.Confirm(ctx, t2); return e })
							tg := roundTrip(&pb.TrxMsgGossip{Trx: mkTrx(h.mk(), is.mk(), nil, data, sp, filled)}, &pb.TrxMsgGossip{})
							s.call(c, "gossip.GossipTrx", shape, func() error { _, e := s.gsp.Server().GossipTrx(ctx, tg); return e })
						}
					}
				}
			}
		}
		// a correctly signed transaction whose Spice sub-message is absent
		{
			t := s.w.NewTrx(s.client, s.w.wallets[1].Address(), spice.Melange{}, []byte("c"))
			pt := &pb.Transaction{Subject: t.Subject, Data: t.Data, Hash: t.Hash[:], CreatedAt: uint64(t.CreatedAt.UnixNano()),
				ReceiverAddress: t.ReceiverAddress, IssuerAddress: t.IssuerAddress, IssuerSignature: t.IssuerSignature}
			s.call(c, "notary.Propose", "validly-signed spice-absent", func() error { _, e := s.notary.Propose(ctx, roundTrip(pt, &pb.Transaction{})); return e })
			s.call(c, "gossip.GossipTrx", "validly-signed spice-absent", func() error {
				_, e := s.gsp.Server().GossipTrx(ctx, roundTrip(&pb.TrxMsgGossip{Trx: pt}, &pb.TrxMsgGossip{}))
				return e
			})
		}

		// ---- Vertex RPCs: GossipVrx, and vertices served by a peer (processLackingParent)
		mkVrx := func(hash, left, right, thash []byte, trxPresent, spicePresent bool) *pb.Vertex {
			v := &pb.Vertex{SignerPublicAddress: s.w.wallets[1].Address(), Hash: hash, LeftParentHash: left, RightParentHash: right, Signature: make([]byte, 64)}
			if trxPresent {
				v.Transaction = mkTrx(thash, make([]byte, 64), nil, nil, spicePresent, true)
			}
			return v
		}
		gossipers := [][]*pb.Gossiper{nil, {{Address: s.client.Address()}}, {{Address: s.client.Address(), Digest: make([]byte, 31), Signature: make([]byte, 64)}},
			{{Address: badKeyAddress(33), Digest: make([]byte, 32), Signature: make([]byte, 64)}}, {nil}}
		for _, h := range byteShapes {
			for _, p := range byteShapes {
				for _, th := range []int{0, 4, 5} {
					for _, tp := range []bool{false, true} {
						for _, sp := range []bool{false, true} {
							for gi, g := range gossipers {
								shape := fmt.Sprintf("hash=%s parents=%s trxhash=%s trx=%v spice=%v gossipers=%d", h.name, p.name, byteShapes[th].name, tp, sp, gi)
								m := roundTrip(&pb.VrxMsgGossip{Vertex: mkVrx(h.mk(), p.mk(), p.mk(), byteShapes[th].mk(), tp, sp), Gossipers: g}, &pb.VrxMsgGossip{})
								s.call(c, "gossip.GossipVrx", shape, func() error { _, e := s.gsp.Server().GossipVrx(ctx, m); return e })
							}
							// the same vertex served by a peer while fetching a missing parent
							shape := fmt.Sprintf("served hash=%s parents=%s trxhash=%s trx=%v spice=%v", h.name, p.name, byteShapes[th].name, tp, sp)
							s.peer.vertex = roundTrip(mkVrx(h.mk(), p.mk(), p.mk(), byteShapes[th].mk(), tp, sp), &pb.Vertex{})
							s.call(c, "gossip.processLackingParent", shape, func() error { s.gsp.ProcessLackingParent(ctx, [32]byte{1}); return nil })
						}
					}
				}
			}
		}
		s.call(c, "gossip.GossipVrx", "vertex-absent", func() error { _, e := s.gsp.Server().GossipVrx(ctx, &pb.VrxMsgGossip{}); return e })

		// ---- ConnectionData RPCs: Announce, Discover
		for _, ad := range addrs {
			for _, d := range byteShapes {
				m := roundTrip(&pb.ConnectionData{PublicAddress: ad.a, Url: "u", CreatedAt: 1, Digest: d.mk(), Signature: make([]byte, 64)}, &pb.ConnectionData{})
				shape := fmt.Sprintf("addr=%s digest=%s", ad.name, d.name)
				s.call(c, "gossip.Announce", shape, func() error { _, e := s.gsp.Server().Announce(ctx, m); return e })
				s.call(c, "gossip.Discover", shape, func() error { _, e := s.gsp.Server().Discover(ctx, m); return e })
			}
		}

		// ---- correctly signed connection requests: URLs the dialer refuses and URLs it takes, from a stranger
		// and from a peer already in the table. Every call under a watchdog, and after every call the peer
		// table must still answer (a handler that returns early must not keep the table locked).
		{
			signed := func(w *wallet.Wallet, url string) *pb.ConnectionData {
				now := uint64(time.Now().UnixNano())
				d, sig := w.Sign(gossip.VerifConnectionMessage(w.Address(), url, now))
				return roundTrip(&pb.ConnectionData{PublicAddress: w.Address(), Url: url, CreatedAt: now, Digest: d[:], Signature: sig}, &pb.ConnectionData{})
			}
			guarded := func(rpc, shape string, f func() error) bool {
				done := make(chan struct{})
				go func() { defer close(done); s.call(c, rpc, shape, f) }()
				select {
				case <-done:
				case <-time.After(5 * time.Second):
					c.Violate("C15", "request-never-returns:"+rpc, fmt.Sprintf("%s with %s did not return within 5 s", rpc, shape), map[string]interface{}{"section": "crash", "rpc": rpc, "shape": shape})
					return false
				}
				probe := make(chan struct{})
				go func() { defer close(probe); s.gsp.Peers() }()
				select {
				case <-probe:
					return true
				case <-time.After(5 * time.Second):
					c.Violate("C15", "peer-table-locked-after:"+rpc, fmt.Sprintf("after %s with %s returned, the peer table no longer answers: every later gossip request hangs", rpc, shape), map[string]interface{}{"section": "crash", "rpc": rpc, "shape": shape})
					return false
				}
			}
			urls := []struct{ name, u string }{{"empty", ""}, {"nul-byte", "node\x00a:8080"}, {"bad-escape", "%zz"}, {"dialable", "127.0.0.1:1"}, {"dialable-2", "127.0.0.1:2"}}
			alive := true
			for _, rpc := range []string{"gossip.Discover", "gossip.Announce"} {
				for _, known := range []bool{false, true} {
					for _, u := range urls {
						if !alive {
							break
						}
						w := s.w.NewWallet()
						if known { // registered first with a good URL, through the real handler
							m := signed(w, "127.0.0.1:9")
							alive = guarded("gossip.Announce", "validly-signed registration", func() error { _, e := s.gsp.Server().Announce(ctx, m); return e })
							if !alive {
								break
							}
						}
						m := signed(w, u.u)
						shape := fmt.Sprintf("validly-signed url=%s known-peer=%v", u.name, known)
						if rpc == "gossip.Discover" {
							alive = guarded(rpc, shape, func() error { _, e := s.gsp.Server().Discover(ctx, m); return e })
						} else {
							alive = guarded(rpc, shape, func() error { _, e := s.gsp.Server().Announce(ctx, m); return e })
						}
					}
				}
			}
			if !alive {
				return nil
			}
		}
		// ---- a real vertex through the wire mapping still works (sanity: the sweep is not all-error)
		{
			t := s.w.NewTrx(s.client, s.w.wallets[1].Address(), spice.Melange{Currency: 1}, nil)
			other := s.w.NewNode()
			s.w.syncFrom(s.node, other)
			v, err := other.ab.CreateLeaf(ctx, &t)
			if err == nil {
				m := &pb.VrxMsgGossip{Vertex: gossip.VerifMapVertexToProto(&v)}
				s.call(c, "gossip.GossipVrx", "valid-vertex", func() error { _, e := s.gsp.Server().GossipVrx(ctx, roundTrip(m, &pb.VrxMsgGossip{})); return e })
				snap := s.node.ab.VerifSnapshot()
				if len(snap.Vertices) < 2 {
					c.Violate("C15", "valid-vertex-not-admitted-through-wire", "a valid gossiped vertex was not admitted", nil)
				}
			}
		}
		_ = accountant.ErrUnexpected
		c.Sample(map[string]interface{}{"rpc": "notary.Reject", "shape": "validly-signed data-len=31"})
		c.Sample(map[string]interface{}{"rpc": "gossip.GossipVrx", "shape": "hash=len31 parents=len32 trxhash=len32 trx=true spice=false gossipers=2"})
		return nil
	}
}
