package main

// Section "race" (C18): a randomized concurrent workload over two real nodes built with the REAL
// constructor (background retry ticker and truncation loop running), meant to be run in a binary built
// with `go build -race`; bin/check collects the race detector's reports (GORACE log_path) and turns every
// pair of racing Computantis frames into a violation. Without -race the section still runs (as a stress
// test) but reports nothing about races.

import (
	"context"
	"fmt"
	"math/rand"
	"sync"
	"sync/atomic"
	"time"

	"github.com/bartossh/Computantis/src/accountant"
	"github.com/bartossh/Computantis/src/cache"
	"github.com/bartossh/Computantis/src/dataprovider"
	"github.com/bartossh/Computantis/src/gossip"
	"github.com/bartossh/Computantis/src/notaryserver"
	"github.com/bartossh/Computantis/src/pipe"
	pb "github.com/bartossh/Computantis/src/protobufcompiled"
	"github.com/bartossh/Computantis/src/spice"
	"github.com/bartossh/Computantis/src/transaction"
	"github.com/bartossh/Computantis/src/transformers"
	"github.com/bartossh/Computantis/src/wallet"
)

type raceNode struct {
	ab     *accountant.AccountingBook
	w      *wallet.Wallet
	cancel context.CancelFunc
}

func newRaceNode(ver wallet.Helper) *raceNode {
	wl, err := wallet.New()
	if err != nil {
		panic(err)
	}
	ctx, cancel := context.WithCancel(context.Background())
	ab, err := accountant.NewAccountingBook(ctx, accountant.Config{}, ver, &wl, nopLog{})
	if err != nil {
		panic(err)
	}
	return &raceNode{ab: ab, w: &wl, cancel: cancel}
}

func le64(v uint64) []byte {
	b := make([]byte, 8)
	for i := 0; i < 8; i++ {
		b[i] = byte(v >> (8 * i))
	}
	return b
}

func init() {
	sections["race"] = func(c *Ctx) error {
		c.Rep.Rule = "two real nodes (real constructor: retry ticker and truncation loop running) under a randomized concurrent workload: proposals through the ledger and through the notary service, gossip deliveries in shuffled order (orphans), balance / history / vertex / transaction reads, DAG streaming, synchronous retry and truncation triggers, trusted-node toggles, awaiting-cache and gossip-handler calls; judged by the Go race detector when built with -race; non-trivial = distinct operation kinds that completed"
		ver := wallet.NewVerifier()
		dur := 7 * time.Second
		if c.Tier == "thorough" {
			dur = 40 * time.Second
		}
		a, b := newRaceNode(ver), newRaceNode(ver)
		defer a.cancel()
		defer b.cancel()
		var ws []*wallet.Wallet
		for i := 0; i < 5; i++ {
			wl, _ := wallet.New()
			ws = append(ws, &wl)
		}
		ctx := context.Background()
		gen, err := a.ab.CreateGenesis("Genesis Vertex", spice.Melange{Currency: 1 << 40}, []byte{}, ws[0].Address())
		if err != nil {
			return err
		}
		_ = gen
		// fund the other wallets, then sync b from a
		for i := 1; i < len(ws); i++ {
			t, _ := transaction.New("fund", spice.Melange{Currency: 1 << 30}, nil, ws[i].Address(), ws[0])
			if _, err := a.ab.CreateLeaf(ctx, &t); err != nil {
				return fmt.Errorf("funding: %v", err)
			}
		}
		{
			cctx, cancel := context.WithCancelCause(context.Background())
			ch := make(chan *accountant.Vertex, 100)
			done := make(chan struct{})
			go func() { b.ab.LoadDag(cancel, ch); close(done) }()
			for v := range a.ab.StreamDAG(ctx) {
				ch <- v
			}
			close(ch)
			<-done
			_ = cctx
			if !b.ab.DagLoaded() {
				return fmt.Errorf("node b did not load the DAG")
			}
		}
		hc, err := cache.New(1000, 64)
		if err != nil {
			return err
		}
		fl, err := cache.NewFlash()
		if err != nil {
			return err
		}
		prov := dataprovider.New(ctx, dataprovider.Config{Longevity: 1})
		pp := pipe.New(1000, 1000)
		notary := notaryserver.VerifNewServer(prov, nopTele{}, nopLog{}, ver, a.ab, hc, fl, pp, 4096)
		gsp := gossip.VerifNewGossiper(nopLog{}, time.Second, a.w, ver, a.ab, hc, fl, pp, "url-a")
		gsp.SetPeer(b.w.Address(), "url-b", &stubClient{})
		gctx, gcancel := context.WithCancel(ctx)
		defer gcancel()
		gsp.RunOrigin(gctx)

		var stop atomic.Bool
		var wg sync.WaitGroup
		var mu sync.Mutex
		counts := map[string]int{}
		note := func(k string) {
			mu.Lock()
			counts[k]++
			mu.Unlock()
		}
		fromA := make(chan accountant.Vertex, 4096)
		fromB := make(chan accountant.Vertex, 4096)
		spawn := func(seed int64, f func(r *rand.Rand)) {
			wg.Add(1)
			go func() {
				defer wg.Done()
				r := rand.New(rand.NewSource(seed))
				for !stop.Load() {
					f(r)
				}
			}()
		}
		seed := c.Seed
		// proposers on a (ledger API)
		for p := 0; p < 2; p++ {
			spawn(seed+int64(p), func(r *rand.Rand) {
				i := r.Intn(len(ws))
				j := (i + 1 + r.Intn(len(ws)-1)) % len(ws)
				t, _ := transaction.New("pay", spice.Melange{Currency: uint64(1 + r.Intn(5))}, nil, ws[j].Address(), ws[i])
				if v, err := a.ab.CreateLeaf(ctx, &t); err == nil {
					note("a.CreateLeaf.ok")
					select {
					case fromA <- v:
					default:
					}
				} else {
					note("a.CreateLeaf.err")
				}
			})
		}
		// proposer through the notary service (transfers and contracts)
		spawn(seed+10, func(r *rand.Rand) {
			i := r.Intn(len(ws))
			j := (i + 1 + r.Intn(len(ws)-1)) % len(ws)
			var data []byte
			if r.Intn(2) == 0 {
				data = []byte("contract")
			}
			t, _ := transaction.New("svc", spice.Melange{Currency: 1}, data, ws[j].Address(), ws[i])
			p, _ := transformers.TrxToProtoTrx(t)
			if _, err := notary.Propose(ctx, p); err == nil {
				note("notary.Propose.ok")
			} else {
				note("notary.Propose.err")
			}
			if data != nil && r.Intn(2) == 0 {
				if _, err := t.Sign(ws[j], ver); err == nil {
					p2, _ := transformers.TrxToProtoTrx(t)
					if _, err := notary.Confirm(ctx, p2); err == nil {
						note("notary.Confirm.ok")
					}
				}
			}
			d, s := ws[i].Sign([]byte(ws[i].Address()))
			notary.Balance(ctx, &pb.SignedHash{Address: ws[i].Address(), Data: []byte(ws[i].Address()), Hash: d[:], Signature: s})
			note("notary.Balance")
		})
		// proposer on b; its vertices reach a out of order (orphans at a)
		spawn(seed+20, func(r *rand.Rand) {
			var batch []accountant.Vertex
			for k := 0; k < 4; k++ {
				i := r.Intn(len(ws))
				j := (i + 1 + r.Intn(len(ws)-1)) % len(ws)
				t, _ := transaction.New("payb", spice.Melange{Currency: 1}, nil, ws[j].Address(), ws[i])
				if v, err := b.ab.CreateLeaf(ctx, &t); err == nil {
					batch = append(batch, v)
					note("b.CreateLeaf.ok")
				}
			}
			for k := len(batch) - 1; k >= 0; k-- { // children first
				select {
				case fromB <- batch[k]:
				default:
				}
			}
		})
		// deliveries b -> a through the gossip handler, a -> b directly
		spawn(seed+30, func(r *rand.Rand) {
			select {
			case v := <-fromB:
				m := &pb.VrxMsgGossip{Vertex: gossip.VerifMapVertexToProto(&v)}
				if _, err := gsp.Server().GossipVrx(ctx, m); err == nil {
					note("a.GossipVrx.ok")
				} else {
					note("a.GossipVrx.err")
				}
			case <-time.After(time.Millisecond):
			}
		})
		spawn(seed+31, func(r *rand.Rand) {
			select {
			case v := <-fromA:
				if err := b.ab.AddLeaf(ctx, &v); err == nil {
					note("b.AddLeaf.ok")
				} else {
					note("b.AddLeaf.err")
				}
			case <-time.After(time.Millisecond):
			}
		})
		// readers on a
		for p := 0; p < 2; p++ {
			spawn(seed+40+int64(p), func(r *rand.Rand) {
				wl := ws[r.Intn(len(ws))]
				switch r.Intn(5) {
				case 0:
					a.ab.CalculateBalance(ctx, wl.Address())
					note("a.CalculateBalance")
				case 1:
					a.ab.ReadDAGTransactionsByAddress(ctx, wl.Address())
					note("a.ReadDAGTransactionsByAddress")
				case 2:
					a.ab.ReadVertex(ctx, gen.Hash)
					a.ab.ReadTransactionByHash(ctx, gen.Transaction.Hash)
					note("a.ReadVertex")
				case 3:
					a.ab.DagLoaded()
					a.ab.Address()
					note("a.DagLoaded")
				case 4:
					hc.ReadTransactions(wl.Address())
					note("cache.ReadTransactions")
				}
			})
		}
		// streaming
		spawn(seed+50, func(r *rand.Rand) {
			sctx, cancel := context.WithCancel(ctx)
			n := 0
			for range a.ab.StreamDAG(sctx) {
				n++
			}
			cancel()
			note("a.StreamDAG")
			time.Sleep(5 * time.Millisecond)
		})
		// synchronous retry / truncate triggers, trusted toggles
		spawn(seed+60, func(r *rand.Rand) {
			switch r.Intn(4) {
			case 0:
				a.ab.VerifRetryParked(ctx)
				note("a.retry")
			case 1:
				if r.Intn(20) == 0 {
					a.ab.VerifTruncate(ctx)
					note("a.truncate")
				}
			case 2:
				a.ab.AddTrustedNode(b.w.Address())
				note("a.AddTrustedNode")
			case 3:
				a.ab.RemoveTrustedNode(b.w.Address())
				note("a.RemoveTrustedNode")
			}
			time.Sleep(200 * time.Microsecond)
		})
		// peers announcing themselves while gossip is being processed (peer table writes)
		spawn(seed+70, func(r *rand.Rand) {
			wl, _ := wallet.New()
			url := fmt.Sprintf("127.0.0.1:%d", 20000+r.Intn(1000))
			now := uint64(time.Now().UnixNano())
			msg := append(append([]byte(wl.Address()), []byte(url)...), le64(now)...)
			d, sg := wl.Sign(msg)
			if _, err := gsp.Server().Announce(ctx, &pb.ConnectionData{PublicAddress: wl.Address(), Url: url, CreatedAt: now, Digest: d[:], Signature: sg}); err == nil {
				note("a.Announce.ok")
			} else {
				note("a.Announce.err")
			}
			time.Sleep(2 * time.Millisecond)
		})
		// peers asking for the membership list while others announce themselves (Discover reads and signs the
		// whole peer table, Announce / another Discover write it)
		for k := 0; k < 2; k++ {
			spawn(seed+80+int64(k), func(r *rand.Rand) {
				wl, _ := wallet.New()
				url := fmt.Sprintf("127.0.0.1:%d", 21000+r.Intn(1000))
				now := uint64(time.Now().UnixNano())
				msg := append(append([]byte(wl.Address()), []byte(url)...), le64(now)...)
				d, sg := wl.Sign(msg)
				if _, err := gsp.Server().Discover(ctx, &pb.ConnectionData{PublicAddress: wl.Address(), Url: url, CreatedAt: now, Digest: d[:], Signature: sg}); err == nil {
					note("a.Discover.ok")
				} else {
					note("a.Discover.err")
				}
				time.Sleep(time.Millisecond)
			})
		}
		// a peer that is far ahead: a vertex whose weight is beyond the truncation mark arrives by gossip, so
		// the background truncation loop really fires (and writes its bookkeeping) while admissions go on
		wg.Add(1)
		go func() {
			defer wg.Done()
			time.Sleep(dur / 3)
			for k := 0; k < 3 && !stop.Load(); k++ {
				s := a.ab.VerifSnapshot()
				if len(s.Leaves) == 0 {
					return
				}
				t, _ := transaction.New("ahead", spice.Melange{}, []byte{byte(k), 'h'}, ws[2].Address(), ws[1])
				if v, err := accountant.NewVertex(t, s.Leaves[0], s.Leaves[0], s.Weight+uint64(150000*(k+1)), ws[3]); err == nil {
					if a.ab.AddLeaf(ctx, &v) == nil {
						note("a.AddLeaf.far-ahead.ok")
					} else {
						note("a.AddLeaf.far-ahead.err")
					}
				}
				time.Sleep(dur / 6)
			}
		}()
		time.Sleep(dur)
		stop.Store(true)
		wg.Wait()
		time.Sleep(50 * time.Millisecond)
		// ---- a real truncation (the workload's ledger rarely grows past the 1000 ancestors one needs) on a third
		// node, while readers that take no ledger lock copy the very vertices it archives (ReadVertex serves
		// parent fetches of peers; stream consumers read vertices after the streaming goroutine let go)
		{
			tn := newRaceNode(ver)
			defer tn.cancel()
			if _, err := tn.ab.CreateGenesis("Genesis Vertex", spice.Melange{Currency: 1 << 40}, []byte{}, ws[0].Address()); err != nil {
				return err
			}
			var early [][32]byte
			for i := 0; i < 1030; i++ {
				t, _ := transaction.New("t", spice.Melange{Currency: 1}, nil, ws[1+i%3].Address(), ws[0])
				v, err := tn.ab.CreateLeaf(ctx, &t)
				if err != nil {
					return fmt.Errorf("truncation phase: proposal %d: %v", i, err)
				}
				if i < 120 {
					early = append(early, v.Hash)
				}
			}
			var twg sync.WaitGroup
			var tstop atomic.Bool
			for g := 0; g < 3; g++ {
				twg.Add(1)
				go func(g int) {
					defer twg.Done()
					for i := g; !tstop.Load(); i++ {
						if v, err := tn.ab.ReadVertex(ctx, early[i%len(early)]); err == nil {
							_ = v.CreatedAt.UnixNano() + v.Transaction.CreatedAt.UnixNano()
						}
					}
				}(g)
			}
			twg.Add(1)
			go func() {
				defer twg.Done()
				for !tstop.Load() {
					for v := range tn.ab.StreamDAG(ctx) {
						if v != nil {
							_ = v.CreatedAt.UnixNano() + int64(v.Weight) + int64(len(v.Transaction.Subject))
						}
					}
				}
			}()
			time.Sleep(20 * time.Millisecond)
			terr := tn.ab.VerifTruncate(ctx)
			time.Sleep(20 * time.Millisecond)
			tstop.Store(true)
			twg.Wait()
			counts["truncate-with-lock-free-readers"]++
			if terr != nil {
				counts["truncate-with-lock-free-readers.err"]++
			}
			c.Rep.Extra["race_truncation_archived"] = len(tn.ab.VerifSnapshot().CpVertices)
		}
		for k, n := range counts {
			c.Rep.Dist[k] += n
			c.Rep.Evals += n
			c.Distinct(k)
		}
		c.Sample(map[string]interface{}{"workload": "2 proposers + notary proposer + remote proposer + 2 deliverers + 2 readers + streamer + retry/truncate/trust toggler", "seconds": dur.Seconds()})
		return nil
	}
}
